(* Proofs about the path model (AuthPaths.v): what filepath.Clean / Join do to a
   root followed by harmless elements, and confinement of every derived path. *)
From Lal Require Import Common.LBytes Auth.AuthStr Auth.AuthStrProofs Auth.AuthPaths Auth.AuthSpec.
From Coq Require Import Lia.
Open Scope N_scope.

(* ---- elements ------------------------------------------------------------- *)
Definition plainb (c : bytes) : bool :=
  negb (is_empty c) && negb (beq c s_dot) && negb (beq c s_dotdot) && negb (contains_byte slash c).

(* an element that cannot climb: no separator inside and not ".." *)
Definition benign (c : bytes) : Prop := ~ In slash c /\ c <> s_dotdot.

Lemma contains_byte_spec c s : contains_byte c s = true <-> In c s.
Proof.
  unfold contains_byte. rewrite existsb_exists. split.
  - intros (x & Hin & Hx). apply N.eqb_eq in Hx. now subst.
  - intros H. exists c. split; [exact H|apply N.eqb_refl].
Qed.

Lemma contains_byte_false c s : contains_byte c s = false <-> ~ In c s.
Proof.
  split.
  - intros H Hin. apply contains_byte_spec in Hin. congruence.
  - intros H. destruct (contains_byte c s) eqn:E; [|reflexivity]. apply contains_byte_spec in E. contradiction.
Qed.

Lemma plainb_spec c : plainb c = true <-> plain c.
Proof.
  unfold plainb, plain. rewrite !andb_true_iff, !negb_true_iff, is_empty_false, !beq_neq, contains_byte_false. tauto.
Qed.

Lemma plain_benign c : plain c -> benign c.
Proof. intros (_ & _ & H3 & H4). now split. Qed.

Lemma filter_plainb_plain l : Forall plain (filter plainb l).
Proof. apply Forall_forall. intros x Hx. apply filter_In in Hx as [_ Hx]. now apply plainb_spec. Qed.

Lemma filter_plainb_id l : Forall plain l -> filter plainb l = l.
Proof.
  induction 1 as [|x l Hx Hl IH]; [reflexivity|]. cbn [filter]. apply plainb_spec in Hx. now rewrite Hx, IH.
Qed.

(* ---- Clean's loop ---------------------------------------------------------- *)
Lemma clean_comps_app rt a : forall st b,
  clean_comps rt st (a ++ b) = clean_comps rt (clean_comps rt st a) b.
Proof.
  induction a as [|c t IH]; intros st b; [reflexivity|]. cbn [app clean_comps].
  destruct (is_empty c || beq c s_dot); [apply IH|].
  destruct (beq c s_dotdot); [|apply IH].
  destruct st as [|top rest]; [destruct rt; apply IH|]. destruct (beq top s_dotdot); apply IH.
Qed.

Lemma clean_comps_benign rt cs : Forall benign cs -> forall st,
  clean_comps rt st cs = rev (filter plainb cs) ++ st.
Proof.
  induction 1 as [|c t [Hns Hnd] Ht IH]; intros st; [reflexivity|]. cbn [clean_comps filter].
  assert (Hd : beq c s_dotdot = false) by now apply beq_neq.
  unfold plainb. rewrite Hd. apply contains_byte_false in Hns. rewrite Hns. cbn [negb]. rewrite !andb_true_r.
  destruct (is_empty c) eqn:E1; cbn [orb negb andb]; [apply IH|].
  destruct (beq c s_dot) eqn:E2; cbn [negb]; [apply IH|].
  rewrite IH. cbn [rev]. now rewrite <- app_assoc.
Qed.

(* ---- Split / Join of separator-free elements -------------------------------- *)
Lemma split_join_nosep c t : Forall (fun x => ~ In slash x) (c :: t) ->
  split_byte slash (join_with slash (c :: t)) = c :: t.
Proof.
  revert c; induction t as [|d t IH]; intros c H; inversion H as [|? ? Hc Ht]; subst.
  - cbn [join_with]. now apply split_byte_noc.
  - rewrite join_with_cons, split_byte_app, IH by exact Ht. now rewrite split_byte_noc.
Qed.

Lemma split_join_root root cs : Forall (fun x => ~ In slash x) cs ->
  split_byte slash (join_with slash (root :: cs)) = split_byte slash root ++ cs.
Proof.
  intros H. destruct cs as [|c t]; [cbn [join_with]; now rewrite app_nil_r|].
  rewrite join_with_cons, split_byte_app. now rewrite split_join_nosep.
Qed.

Lemma join_with_head c root cs : exists x, join_with c (root :: cs) = root ++ x.
Proof. destruct cs as [|d t]; [exists []; cbn; now rewrite app_nil_r|]. rewrite join_with_cons. eauto. Qed.

Lemma rooted_app root x : root <> [] -> rooted (root ++ x) = rooted root.
Proof. destruct root; [congruence|reflexivity]. Qed.

Lemma benign_nosep cs : Forall benign cs -> Forall (fun x => ~ In slash x) cs.
Proof. apply Forall_impl. now intros a [H _]. Qed.

(* Clean(root + "/" + e1 + "/" + ... ) for harmless elements: the cleaned root
   followed by the ordinary elements among e1.. *)
Lemma clean_join_benign root cs : root <> [] -> Forall benign cs ->
  clean (join_with slash (root :: cs)) = render (rooted root) (path_comps root ++ filter plainb cs).
Proof.
  intros Hr Hb. unfold clean, path_comps.
  destruct (join_with_head slash root cs) as [x Hx].
  rewrite Hx at 1 2. rewrite (rooted_app root x Hr). f_equal.
  rewrite split_join_root by now apply benign_nosep.
  rewrite clean_comps_app, clean_comps_benign by exact Hb.
  now rewrite rev_app_distr, rev_involutive.
Qed.

(* ---- canonical element lists (what Clean produces) --------------------------- *)
Definition canon (rt : bool) (comps : list bytes) : Prop :=
  exists k pl, comps = repeat s_dotdot k ++ pl /\ Forall plain pl /\ (rt = true -> k = 0%nat).

Lemma rev_repeat {A} (x : A) n : rev (repeat x n) = repeat x n.
Proof.
  induction n as [|n IH]; [reflexivity|]. cbn [repeat rev]. rewrite IH. clear IH.
  induction n as [|n IH]; [reflexivity|]. cbn [repeat app]. now rewrite IH.
Qed.

Lemma plain_not_dotdot c : plain c -> beq c s_dotdot = false.
Proof. intros (_ & _ & H & _). now apply beq_neq. Qed.

Lemma stack_inv rt cs : Forall (fun x => ~ In slash x) cs -> forall k rp,
  Forall plain rp -> (rt = true -> k = 0%nat) ->
  exists k' rp', clean_comps rt (rp ++ repeat s_dotdot k) cs = rp' ++ repeat s_dotdot k'
                 /\ Forall plain rp' /\ (rt = true -> k' = 0%nat).
Proof.
  induction 1 as [|c t Hc Ht IH]; intros k rp Hrp Hk; [now exists k, rp|]. cbn [clean_comps].
  destruct (is_empty c || beq c s_dot) eqn:E1; [now apply IH|].
  apply orb_false_elim in E1 as [E1 E2].
  destruct (beq c s_dotdot) eqn:E3.
  - apply beq_eq in E3. subst c.
    destruct rp as [|x rp'].
    + cbn [app]. destruct k as [|k'].
      * cbn [repeat]. destruct rt.
        -- apply (IH 0%nat []); auto.
        -- apply (IH 1%nat []); auto. discriminate.
      * cbn [repeat]. replace (beq s_dotdot s_dotdot) with true by reflexivity.
        apply (IH (S (S k')) []); auto. intros Hrt. specialize (Hk Hrt). discriminate.
    + cbn [app]. inversion Hrp as [|? ? Hx Hrp']; subst. rewrite (plain_not_dotdot x Hx).
      now apply IH.
  - assert (Hp : plain c).
    { repeat split; [now apply is_empty_false|now apply beq_neq|now apply beq_neq|exact Hc]. }
    change (c :: rp ++ repeat s_dotdot k) with ((c :: rp) ++ repeat s_dotdot k). apply IH; auto.
Qed.

Lemma canon_path_comps s : canon (rooted s) (path_comps s).
Proof.
  unfold path_comps.
  destruct (stack_inv (rooted s) (split_byte slash s) (split_byte_no_sep slash s) 0%nat []) as (k & rp & E & Hp & Hk); auto.
  cbn [app repeat] in E. rewrite E. exists k, (rev rp). rewrite rev_app_distr, rev_repeat. repeat split; auto.
  now apply Forall_rev.
Qed.

Lemma canon_app rt comps extra : canon rt comps -> Forall plain extra -> canon rt (comps ++ extra).
Proof.
  intros (k & pl & -> & Hp & Hk) He. exists k, (pl ++ extra). rewrite app_assoc. repeat split; auto.
  apply Forall_app. now split.
Qed.

Lemma canon_nosep rt comps : canon rt comps -> Forall (fun x => ~ In slash x) comps.
Proof.
  intros (k & pl & -> & Hp & _). apply Forall_app. split.
  - apply Forall_forall. intros x Hx. apply repeat_spec in Hx. subst x. cbn. intros [H|[H|[]]]; discriminate.
  - revert Hp. apply Forall_impl. now intros a (_ & _ & _ & H).
Qed.

Lemma canon_nonempty_elems rt comps : canon rt comps -> Forall (fun x => x <> []) comps.
Proof.
  intros (k & pl & -> & Hp & _). apply Forall_app. split.
  - apply Forall_forall. intros x Hx. apply repeat_spec in Hx. subst x. discriminate.
  - revert Hp. apply Forall_impl. now intros a (H & _).
Qed.

Lemma clean_comps_dotdots k : forall j,
  clean_comps false (repeat s_dotdot j) (repeat s_dotdot k) = repeat s_dotdot (k + j).
Proof.
  induction k as [|k IH]; intros j; [reflexivity|]. cbn [repeat clean_comps].
  replace (is_empty s_dotdot || beq s_dotdot s_dot) with false by reflexivity.
  replace (beq s_dotdot s_dotdot) with true by reflexivity.
  destruct j as [|j].
  - cbn [repeat]. change [s_dotdot] with (repeat s_dotdot 1). rewrite (IH 1%nat). f_equal. lia.
  - cbn [repeat]. replace (beq s_dotdot s_dotdot) with true by reflexivity.
    change (s_dotdot :: s_dotdot :: repeat s_dotdot j) with (repeat s_dotdot (S (S j))). rewrite IH. f_equal. lia.
Qed.

Lemma rooted_nosep c : ~ In slash c -> rooted c = false.
Proof. destruct c as [|x t]; [reflexivity|]. cbn [rooted]. intros H. apply N.eqb_neq. intro E. apply H. now left. Qed.

(* Clean is idempotent on its own output: the elements of a rendered canonical list
   are that list *)
Lemma path_comps_render rt comps : canon rt comps ->
  render rt comps <> [] /\ rooted (render rt comps) = rt /\ path_comps (render rt comps) = comps.
Proof.
  intros Hc. pose proof (canon_nosep _ _ Hc) as Hns. pose proof (canon_nonempty_elems _ _ Hc) as Hne.
  destruct Hc as (k & pl & E & Hp & Hk).
  destruct rt.
  - specialize (Hk eq_refl). subst k. cbn [repeat app] in E. subst comps.
    unfold render. split; [discriminate|]. split; [reflexivity|].
    unfold path_comps. cbn [rooted]. rewrite N.eqb_refl. cbn [split_byte]. rewrite N.eqb_refl.
    destruct pl as [|c t].
    + reflexivity.
    + rewrite split_join_nosep by exact Hns.
      change (clean_comps true [] ([] :: c :: t)) with (clean_comps true [] (c :: t)).
      rewrite clean_comps_benign by (revert Hp; apply Forall_impl; apply plain_benign).
      rewrite app_nil_r, rev_involutive. now apply filter_plainb_id.
  - unfold render. destruct comps as [|c t].
    + split; [discriminate|]. split; reflexivity.
    + assert (Hcne : c <> []) by now inversion Hne.
      assert (Hcns : ~ In slash c) by now inversion Hns.
      destruct (join_with_head slash c t) as [x Hx].
      assert (Hrt : rooted (join_with slash (c :: t)) = false).
      { rewrite Hx, rooted_app by exact Hcne. now apply rooted_nosep. }
      split; [rewrite Hx; destruct c; [congruence|discriminate]|].
      split; [exact Hrt|].
      unfold path_comps. rewrite Hrt, split_join_nosep by exact Hns.
      assert (Hg : forall l, l = repeat s_dotdot k ++ pl -> rev (clean_comps false [] l) = l).
      { intros l ->. rewrite clean_comps_app. pose proof (clean_comps_dotdots k 0) as Hd. cbn [repeat] in Hd. rewrite Hd.
        rewrite clean_comps_benign by (revert Hp; apply Forall_impl; apply plain_benign).
        rewrite rev_app_distr, rev_involutive, rev_repeat, Nat.add_0_r.
        now rewrite filter_plainb_id. }
      apply Hg, E.
Qed.

(* second stage: Join(<an already cleaned path>, harmless elements) *)
Lemma clean_join_canon rt comps cs : canon rt comps -> Forall benign cs ->
  clean (join_with slash (render rt comps :: cs)) = render rt (comps ++ filter plainb cs).
Proof.
  intros Hc Hb. destruct (path_comps_render rt comps Hc) as (Hne & Hrt & Hpc).
  rewrite clean_join_benign by assumption. now rewrite Hrt, Hpc.
Qed.

Lemma join_clean_cons e t : e <> [] -> join_clean (e :: t) = clean (join_with slash (e :: t)).
Proof. intros H. cbn [join_clean]. apply is_empty_false in H. now rewrite H. Qed.

(* Join(root, e1, ..) stays inside root *)
Lemma join_inside root cs : root <> [] -> Forall benign cs -> inside root (join_clean (root :: cs)).
Proof.
  intros Hr Hb. rewrite join_clean_cons, clean_join_benign by assumption.
  exists (filter plainb cs). split; [apply filter_plainb_plain|reflexivity].
Qed.

(* Join(Join(root, e1), e2) stays inside root *)
Lemma join2_inside root c1 c2 : root <> [] -> benign c1 -> benign c2 ->
  inside root (join_clean [join_clean [root; c1]; c2]).
Proof.
  intros Hr H1 H2.
  rewrite (join_clean_cons root) by exact Hr.
  rewrite clean_join_benign by (auto; repeat constructor; assumption).
  assert (Hc : canon (rooted root) (path_comps root ++ filter plainb [c1])).
  { apply canon_app; [apply canon_path_comps|apply filter_plainb_plain]. }
  destruct (path_comps_render _ _ Hc) as (Hne & _ & _).
  rewrite join_clean_cons by exact Hne.
  rewrite clean_join_canon by (auto; repeat constructor; assumption).
  exists (filter plainb [c1] ++ filter plainb [c2]). split.
  - apply Forall_app. split; apply filter_plainb_plain.
  - now rewrite app_assoc.
Qed.

(* ---- elements lal derives ------------------------------------------------------ *)
Lemma confine_benign n : benign (confine_name n).
Proof.
  unfold confine_name. set (m := map _ n).
  assert (Hm : ~ In slash m).
  { subst m. intros Hin. apply in_map_iff in Hin as (b & Hb & _).
    destruct (b =? slash) eqn:E; cbn [orb] in Hb; [discriminate|].
    destruct (b =? 92); [discriminate|]. apply N.eqb_neq in E. congruence. }
  destruct (beq m s_dotdot) eqn:E.
  - split; [|discriminate]. cbn. intros [H|[H|[]]]; discriminate.
  - split; [exact Hm|now apply beq_neq].
Qed.

Lemma in_dash_not_dotdot c : In dash c -> c <> s_dotdot.
Proof. intros H E. subst c. cbn in H. destruct H as [H|[H|[]]]; discriminate. Qed.

Lemma ts_name_benign n idx ts : benign (get_ts_file_name_gen true n idx ts).
Proof.
  unfold get_ts_file_name_gen, wname. destruct (confine_benign n) as [Hn _]. split.
  - intros Hin. apply in_app_or in Hin as [H|H]; [contradiction|].
    destruct H as [H|H]; [discriminate|]. apply in_app_or in H as [H|H]; [now apply dec_no_slash in H|].
    destruct H as [H|H]; [discriminate|]. apply in_app_or in H as [H|H]; [now apply dec_no_slash in H|].
    cbn in H. destruct H as [H|[H|[H|[]]]]; discriminate.
  - apply in_dash_not_dotdot. apply in_or_app. right. now left.
Qed.

Lemma record_name_benign n stamp ext : ~ In slash stamp -> ~ In slash ext ->
  benign (wname true n ++ dash :: stamp ++ ext).
Proof.
  intros Hs He. unfold wname. destruct (confine_benign n) as [Hn _]. split.
  - intros Hin. apply in_app_or in Hin as [H|H]; [contradiction|].
    destruct H as [H|H]; [discriminate|]. apply in_app_or in H as [H|H]; contradiction.
  - apply in_dash_not_dotdot. apply in_or_app. right. now left.
Qed.

Lemma const_benign_playlist : benign s_playlist_m3u8.
Proof. split; [|discriminate]. cbn. intuition discriminate. Qed.
Lemma const_benign_record : benign s_record_m3u8.
Proof. split; [|discriminate]. cbn. intuition discriminate. Qed.

(* ---- write side ------------------------------------------------------------------ *)
Theorem write_confined root name idx ts : root <> [] ->
  Forall (inside root) (muxer_paths root name idx ts).
Proof.
  intros Hr. unfold muxer_paths, muxer_paths_gen, get_muxer_out_path_gen, get_live_m3u8, get_record_m3u8, get_ts_file_with_path.
  pose proof (confine_benign name) as Hn. unfold wname.
  repeat constructor.
  - apply join_inside; auto.
  - apply join2_inside; auto. apply const_benign_playlist.
  - apply join2_inside; auto. apply const_benign_record.
  - apply join2_inside; auto. apply ts_name_benign.
Qed.

Theorem record_confined root name stamp ext : root <> [] -> ~ In slash stamp -> ~ In slash ext ->
  inside root (record_file root name stamp ext).
Proof.
  intros Hr Hs He. unfold record_file, record_file_gen. apply join_inside; auto.
  constructor; [|constructor]. now apply record_name_benign.
Qed.

(* ---- serve side ------------------------------------------------------------------- *)
Lemma last_item_nosep path : ~ In slash (last_item_of_path path).
Proof.
  unfold last_item_of_path. destruct (split_last slash path) as [[a b]|] eqn:E; [|intros []].
  now apply split_last_spec in E as [_ H].
Qed.

Lemma name_is_plain_benign n : name_is_plain n = true -> benign n.
Proof.
  unfold name_is_plain. rewrite !andb_true_iff, !negb_true_iff, beq_neq, !contains_byte_false. intros [[H1 H2] _]. now split.
Qed.

Lemma typed_filename_not_dotdot f a t : split_last 46 f = Some (a, t) -> t <> [] -> f <> s_dotdot.
Proof.
  intros H Ht E. apply split_last_spec in H as [H Hn]. rewrite H in E.
  destruct a as [|x [|y a]]; cbn in E; inversion E; subst.
  - apply Hn. now left.
  - congruence.
  - destruct a; discriminate.
Qed.

Theorem request_info_confined root path : root <> [] ->
  ri_file (get_request_info path root) = [] \/ inside root (ri_file (get_request_info path root)).
Proof.
  intros Hr. unfold get_request_info, get_request_info_gen.
  set (filename := last_item_of_path path).
  pose proof (last_item_nosep path) as Hfn. fold filename in Hfn.
  unfold filename_and_type. destruct (split_last 46 filename) as [[noext ftype]|] eqn:Es.
  2:{ cbn. now left. }
  destruct (beq ftype s_m3u8) eqn:E1.
  - destruct (beq filename s_playlist_m3u8 || beq filename s_record_m3u8) eqn:E2; cbn [ri_stream andb].
    + match goal with |- context [name_is_plain ?n] => destruct (name_is_plain n) eqn:Ep end; cbn [negb]; [|now left].
      right. cbn [ri_file]. apply join_inside; auto. constructor; [now apply name_is_plain_benign|].
      constructor; [|constructor]. apply orb_prop in E2 as [E2|E2]; apply beq_eq in E2; rewrite E2;
        [apply const_benign_playlist|apply const_benign_record].
    + destruct (name_is_plain noext) eqn:Ep; cbn [negb]; [|now left].
      right. cbn [ri_file]. apply join_inside; auto. constructor; [now apply name_is_plain_benign|].
      constructor; [apply const_benign_playlist|constructor].
  - destruct (beq ftype s_ts) eqn:E3; cbn [ri_stream andb]; [|now left].
    destruct (name_is_plain (stream_name_from_ts filename)) eqn:Ep; cbn [negb]; [|now left].
    right. cbn [ri_file]. apply join_inside; auto. constructor; [now apply name_is_plain_benign|].
    constructor; [|constructor]. split; [exact Hfn|].
    apply (typed_filename_not_dotdot filename noext ftype Es). apply beq_eq in E3. subst ftype. discriminate.
Qed.

(* the file the HLS handler opens for a request path *)
Theorem serve_confined root path file : root <> [] ->
  hls_serve_file path root = Some file -> inside root file.
Proof.
  intros Hr. unfold hls_serve_file, hls_serve_file_gen. fold (get_request_info path root).
  destruct (request_info_confined root path Hr) as [H|H].
  - rewrite H. cbn [is_empty]. rewrite !orb_true_r. discriminate.
  - match goal with |- (if ?b then _ else _) = _ -> _ => destruct b end; [discriminate|].
    intros E. inversion E; subst. exact H.
Qed.

(* ---- the pinned tree (before "fix: stream names are used as exactly one path element") -- *)
Lemma not_inside_witness root p c1 c2 x y :
  rooted root = true -> path_comps root = [c1; c2] -> c1 = x :: y -> hd 0 (tl p) <> x -> ~ inside root p.
Proof.
  intros Hrt Hpc Hc Hhd (rest & _ & E). rewrite Hrt, Hpc in E. subst c1 p. cbn in Hhd.
  destruct rest; cbn in Hhd; congruence.
Qed.

(* GetMuxerOutPath("/data/hls/", "../../etc") = "/etc" *)
Lemma write_pinned_refuted :
  exists root name, root <> [] /\ ~ inside root (get_muxer_out_path_gen false root name)
                    /\ get_muxer_out_path_gen false root name = [47; 101; 116; 99].
Proof.
  exists [47; 100; 97; 116; 97; 47; 104; 108; 115; 47], [46; 46; 47; 46; 46; 47; 101; 116; 99].
  split; [discriminate|]. split; [|vm_compute; reflexivity].
  apply (not_inside_witness _ _ [100; 97; 116; 97] [104; 108; 115] 100 [97; 116; 97]); try reflexivity.
  vm_compute. discriminate.
Qed.

(* request /hls/..-1-2.ts with root /data/hls/ opens /data/..-1-2.ts *)
Lemma serve_pinned_refuted :
  exists root path file, root <> [] /\ hls_serve_file_gen false path root = Some file /\ ~ inside root file.
Proof.
  exists [47; 100; 97; 116; 97; 47; 104; 108; 115; 47], [47; 104; 108; 115; 47; 46; 46; 45; 49; 45; 50; 46; 116; 115],
    [47; 100; 97; 116; 97; 47; 46; 46; 45; 49; 45; 50; 46; 116; 115].
  split; [discriminate|]. split; [vm_compute; reflexivity|].
  intros (rest & Hp & E). vm_compute in E.
  destruct rest as [|r1 rest]; [discriminate|]. cbn in E. inversion E.
Qed.
