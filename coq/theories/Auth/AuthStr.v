(* Go string operations used by the access-control code, over strings as lists
   of byte values (a Go string is a byte sequence).  No proofs in this file. *)
From Lal Require Import Common.LBytes.
Open Scope N_scope.

(* s == t *)
Fixpoint beq (a b : bytes) : bool :=
  match a, b with
  | [], [] => true
  | x :: a', y :: b' => (x =? y) && beq a' b'
  | _, _ => false
  end.

Definition is_empty (s : bytes) : bool := match s with [] => true | _ => false end.

(* strings.HasPrefix(s, p) *)
Fixpoint has_prefix (p s : bytes) : bool :=
  match p with
  | [] => true
  | x :: p' => match s with [] => false | y :: s' => (x =? y) && has_prefix p' s' end
  end.

(* strings.HasSuffix(s, p) *)
Definition has_suffix (p s : bytes) : bool := has_prefix (rev p) (rev s).

(* strings.TrimPrefix(s, p) *)
Definition trim_prefix (p s : bytes) : bytes :=
  if has_prefix p s then skipn (length p) s else s.

(* s[strings.Index(s, pre)+len(pre):]   (None when Index is -1) *)
Fixpoint after_first (pre s : bytes) {struct s} : option bytes :=
  if has_prefix pre s then Some (skipn (length pre) s)
  else match s with [] => None | _ :: t => after_first pre t end.

(* s[:strings.IndexByte(s, c)]   (None when the byte does not occur) *)
Fixpoint until_byte (c : N) (s : bytes) : option bytes :=
  match s with
  | [] => None
  | x :: t => if x =? c then Some [] else option_map (cons x) (until_byte c t)
  end.

Definition contains_byte (c : N) (s : bytes) : bool := existsb (fun x => x =? c) s.

(* strings.Split(s, string(c)) : always at least one piece *)
Fixpoint split_byte (c : N) (s : bytes) : list bytes :=
  match s with
  | [] => [[]]
  | x :: t =>
      if x =? c then [] :: split_byte c t
      else match split_byte c t with
           | h :: r => (x :: h) :: r
           | [] => [[x]]
           end
  end.

(* strings.SplitN(s, string(c), 2) *)
Fixpoint split_once (c : N) (s : bytes) : list bytes :=
  match s with
  | [] => [[]]
  | x :: t =>
      if x =? c then [[]; t]
      else match split_once c t with
           | h :: r => (x :: h) :: r
           | [] => [[x]]
           end
  end.

(* strings.Join(l, string(c)) *)
Fixpoint join_with (c : N) (l : list bytes) : bytes :=
  match l with
  | [] => []
  | [x] => x
  | x :: t => x ++ c :: join_with c t
  end.

(* s[:strings.LastIndexByte(s, c)] and s[LastIndexByte+1:] (None when absent) *)
Fixpoint split_last (c : N) (s : bytes) : option (bytes * bytes) :=
  match s with
  | [] => None
  | x :: t =>
      match split_last c t with
      | Some (a, b) => Some (x :: a, b)
      | None => if x =? c then Some ([], t) else None
      end
  end.

(* the ASCII fast path of strings.ToLower *)
Definition ascii_lower (b : N) : N := if (65 <=? b) && (b <=? 90) then b + 32 else b.
Definition is_ascii (s : bytes) : bool := forallb (fun b => b <? 128) s.

(* hex.EncodeToString *)
Definition hex_digit (d : N) : N := if d <? 10 then 48 + d else 87 + d.
Fixpoint hex_lower (l : bytes) : bytes :=
  match l with
  | [] => []
  | b :: t => hex_digit ((b / 16) mod 16) :: hex_digit (b mod 16) :: hex_lower t
  end.

(* fmt "%d" of a non-negative integer *)
Fixpoint uint_bytes (u : Decimal.uint) : bytes :=
  match u with
  | Decimal.Nil => []
  | Decimal.D0 r => 48 :: uint_bytes r
  | Decimal.D1 r => 49 :: uint_bytes r
  | Decimal.D2 r => 50 :: uint_bytes r
  | Decimal.D3 r => 51 :: uint_bytes r
  | Decimal.D4 r => 52 :: uint_bytes r
  | Decimal.D5 r => 53 :: uint_bytes r
  | Decimal.D6 r => 54 :: uint_bytes r
  | Decimal.D7 r => 55 :: uint_bytes r
  | Decimal.D8 r => 56 :: uint_bytes r
  | Decimal.D9 r => 57 :: uint_bytes r
  end.
Definition dec (n : N) : bytes := uint_bytes (N.to_uint n).
