(* Model of pkg/logic/ip_blacklist.go : IpBlacklist.Add / Has / eraseStale, with
   the clock (time.Now().Unix()) as an explicit input, and of the black-list
   gate of ServerManager.serveHls.  No proofs in this file. *)
From Lal Require Import Common.LBytes Auth.AuthStr.
Open Scope Z_scope.

(* map[string]int64 : address -> until (unix seconds); at most one entry per address *)
Definition bl_table := list (bytes * Z).

Fixpoint bl_remove (ip : bytes) (t : bl_table) : bl_table :=
  match t with
  | [] => []
  | (k, u) :: r => if beq k ip then bl_remove ip r else (k, u) :: bl_remove ip r
  end.

(* Add(ip, durationSec) at time now *)
Definition bl_add (t : bl_table) (ip : bytes) (dur now : Z) : bl_table :=
  (ip, now + dur) :: bl_remove ip t.

(* eraseStale at time now: entries with until < now are deleted *)
Definition bl_erase_stale (t : bl_table) (now : Z) : bl_table :=
  filter (fun e => negb (snd e <? now)) t.

Fixpoint bl_mem (ip : bytes) (t : bl_table) : bool :=
  match t with
  | [] => false
  | (k, _) :: r => beq k ip || bl_mem ip r
  end.

(* Has(ip) at time now : (table afterwards, result) *)
Definition bl_has (t : bl_table) (ip : bytes) (now : Z) : bl_table * bool :=
  let t' := bl_erase_stale t now in (t', bl_mem ip t').

Inductive bl_op :=
| BlAdd (ip : bytes) (dur : Z)
| BlHas (ip : bytes)
| BlSleep (sec : Z).          (* the clock advances *)

(* run a history from time [now]; the results of the Has calls in order *)
Fixpoint bl_run (t : bl_table) (now : Z) (ops : list bl_op) : list bool :=
  match ops with
  | [] => []
  | BlAdd ip dur :: r => bl_run (bl_add t ip dur now) now r
  | BlHas ip :: r => let '(t', b) := bl_has t ip now in b :: bl_run t' now r
  | BlSleep s :: r => bl_run t (now + s) r
  end.

(* serveHls after the simple-auth step: a black-listed address is answered 404
   and the HLS handler is not reached *)
Definition serve_hls_reaches_handler (t : bl_table) (ip : bytes) (now : Z) : bl_table * bool :=
  let '(t', b) := bl_has t ip now in (t', negb b).
