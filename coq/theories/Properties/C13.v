(* C13 - no input on the RTSP, RTP/RTCP, GB28181, WebSocket or HTTP surfaces
   terminates lal.  Only property statements here; each is closed by [exact].
   [fx = true] is the model of the working tree (after the C13 fix commits);
   the model of the pinned tree ([fx = false]) is refuted by the witnesses at
   the end of each group. *)
From Lal Require Import Common.LBytes Common.Res Net.NetChk Net.NetChkProofs
  Net.NetRtpHeader Net.NetRtpHeaderProofs Net.NetRtcp Net.NetInterleaved Net.NetWsRead Net.NetFramingProofs.
Open Scope N_scope.

(* ---- 1. RTP header / packet / body ------------------------------------- *)
(* ParseRtpPacket followed by Body() on arbitrary bytes: never a panic *)
Theorem c13_no_panic_rtp_packet : forall b, is_panic (parse_rtp_packet_body true b) = false.
Proof. exact parse_rtp_packet_body_no_panic. Qed.
Print Assumptions c13_no_panic_rtp_packet.

(* and an accepted packet has a non-empty body *)
Theorem c13_rtp_body_nonempty : forall b h body, parse_rtp_packet_body true b = Ok (h, body) -> 1 <= lenN body.
Proof. exact parse_rtp_body_nonempty. Qed.
Print Assumptions c13_rtp_body_nonempty.

(* IsAvcBoundary / IsHevcBoundary on any parsed packet *)
Theorem c13_no_panic_rtp_boundary : forall hevc b, is_panic (rtp_boundary true hevc b) = false.
Proof. exact rtp_boundary_no_panic. Qed.
Print Assumptions c13_no_panic_rtp_boundary.

(* pinned tree: a padding count larger than the body panics in Body(); a
   1-byte FU / STAP body panics in the boundary functions *)
Theorem c13_rtp_packet_refuted : exists b, parse_rtp_packet_body false b = Panic s_body_slice.
Proof. exact parse_rtp_packet_body_pinned_refuted. Qed.
Print Assumptions c13_rtp_packet_refuted.
Theorem c13_rtp_boundary_refuted :
  (exists b, rtp_boundary false false b = Panic s_avcbound_index) /\
  (exists b, rtp_boundary false true b = Panic s_hevcbound_index).
Proof. exact rtp_boundary_pinned_refuted. Qed.
Print Assumptions c13_rtp_boundary_refuted.

(* ---- 2. RTCP ------------------------------------------------------------ *)
Theorem c13_no_panic_rtcp_header : forall b, is_panic (parse_rtcp_header true b) = false.
Proof. exact parse_rtcp_header_no_panic. Qed.
Print Assumptions c13_no_panic_rtcp_header.
Theorem c13_no_panic_rtcp_sr : forall b, is_panic (parse_sr true b) = false.
Proof. exact parse_sr_no_panic. Qed.
Print Assumptions c13_no_panic_rtcp_sr.
Theorem c13_rtcp_refuted :
  parse_rtcp_header false [128] = Panic s_rtcphdr_index /\
  parse_rtcp_header false [128; 200; 0] = Panic s_be16_index /\
  parse_sr false [128; 200] = Panic s_sr_slice /\
  parse_sr false [128; 200; 0; 6] = Panic s_be32_index.
Proof. exact rtcp_pinned_refuted. Qed.
Print Assumptions c13_rtcp_refuted.

(* ---- 3. RTSP interleaved framing, WebSocket frames ---------------------- *)
Theorem c13_no_panic_interleaved : forall s, bytes_ok s -> is_panic (read_interleaved s) = false.
Proof. exact read_interleaved_no_panic. Qed.
Print Assumptions c13_no_panic_interleaved.
(* the framing loop consumes any byte stream without panic and within fuel = length + 1 *)
Theorem c13_interleaved_total : forall s, bytes_ok s -> exists r, read_interleaved_all (S (length s)) s [] = Ok r.
Proof. intros s H. apply read_interleaved_all_total; [exact H|apply Nat.lt_succ_diag_r]. Qed.
Print Assumptions c13_interleaved_total.

Theorem c13_no_panic_ws_read : forall s, is_panic (read_ws_payload true s) = false.
Proof. exact read_ws_payload_no_panic. Qed.
Print Assumptions c13_no_panic_ws_read.
Theorem c13_ws_read_total : forall s, exists r, read_ws_all true (S (length s)) s [] = Ok r.
Proof. intros s. apply read_ws_all_total. apply Nat.lt_succ_diag_r. Qed.
Print Assumptions c13_ws_read_total.
Theorem c13_ws_read_refuted : exists s, read_ws_payload false s = Panic s_ws_makeslice.
Proof. exact read_ws_payload_pinned_refuted. Qed.
Print Assumptions c13_ws_read_refuted.

(* non-vacuity: a well-formed packet with CSRC, extension and padding is accepted *)
Example c13_rtp_nonvacuous :
  exists h, parse_rtp_packet_body true
    [177; 96; 0; 7; 0; 0; 3; 232; 17; 34; 51; 68;  0; 0; 0; 9;  190; 222; 0; 1; 1; 2; 3; 4;  101; 136; 0; 0; 3]
    = Ok (h, [101; 136]) /\ rh_csrc h = [9] /\ rh_extensions h = [1; 2; 3; 4].
Proof. eexists. split; [vm_compute; reflexivity|split; reflexivity]. Qed.
