(* C13 - no input on the RTSP, RTP/RTCP, GB28181, WebSocket or HTTP surfaces
   terminates lal.  Only property statements here; each is closed by [exact].
   [fx = true] is the model of the working tree (after the C13 fix commits);
   the model of the pinned tree ([fx = false]) is refuted by the witnesses at
   the end of each group. *)
From Lal Require Import Common.LBytes Common.Res Net.NetChk Net.NetChkProofs
  Net.NetRtpHeader Net.NetRtpHeaderProofs Net.NetRtcp Net.NetInterleaved Net.NetWsRead Net.NetFramingProofs
  Net.NetAuHeader Net.NetAuHeaderProofs Net.NetUnpack Net.NetUnpackProofs Net.NetInSess Net.NetInSessProofs
  Net.NetInSessSetup Net.NetInSessSetupProofs Net.NetPs Net.NetPsProofs
  Net.NetStr Net.NetSdpRaw Net.NetUrlPath Net.NetRtmpClient Net.NetTextProofs Net.NetHttpMsg Net.NetHttpMsgProofs
  Net.NetSdpFull Net.NetRtspCmd Net.NetRtspCmdProofs Auth.AuthRtsp Net.NetRtspClient Net.NetRtspClientProofs.
Open Scope N_scope.

(* ---- 1. RTP header / packet / body ------------------------------------- *)
(* ParseRtpPacket followed by Body() on arbitrary bytes: never a panic *)
Theorem c13_no_panic_rtp_packet : forall b, is_panic (parse_rtp_packet_body true b) = false.
Proof. exact parse_rtp_packet_body_no_panic. Qed.
Print Assumptions c13_no_panic_rtp_packet.

(* and an accepted packet has a non-empty body *)
Theorem c13_rtp_body_nonempty : forall b h body, parse_rtp_packet_body true b = Ok (h, body) -> 1 <= lenN body.
Proof. exact parse_rtp_body_nonempty. Qed.
Print Assumptions c13_rtp_body_nonempty.

(* IsAvcBoundary / IsHevcBoundary on any parsed packet *)
Theorem c13_no_panic_rtp_boundary : forall hevc b, is_panic (rtp_boundary true hevc b) = false.
Proof. exact rtp_boundary_no_panic. Qed.
Print Assumptions c13_no_panic_rtp_boundary.

(* pinned tree: a padding count larger than the body panics in Body(); a
   1-byte FU / STAP body panics in the boundary functions *)
Theorem c13_rtp_packet_refuted : exists b, parse_rtp_packet_body false b = Panic s_body_slice.
Proof. exact parse_rtp_packet_body_pinned_refuted. Qed.
Print Assumptions c13_rtp_packet_refuted.
Theorem c13_rtp_boundary_refuted :
  (exists b, rtp_boundary false false b = Panic s_avcbound_index) /\
  (exists b, rtp_boundary false true b = Panic s_hevcbound_index).
Proof. exact rtp_boundary_pinned_refuted. Qed.
Print Assumptions c13_rtp_boundary_refuted.

(* ---- 2. RTCP ------------------------------------------------------------ *)
Theorem c13_no_panic_rtcp_header : forall b, is_panic (parse_rtcp_header true b) = false.
Proof. exact parse_rtcp_header_no_panic. Qed.
Print Assumptions c13_no_panic_rtcp_header.
Theorem c13_no_panic_rtcp_sr : forall b, is_panic (parse_sr true b) = false.
Proof. exact parse_sr_no_panic. Qed.
Print Assumptions c13_no_panic_rtcp_sr.
Theorem c13_rtcp_refuted :
  parse_rtcp_header false [128] = Panic s_rtcphdr_index /\
  parse_rtcp_header false [128; 200; 0] = Panic s_be16_index /\
  parse_sr false [128; 200] = Panic s_sr_slice /\
  parse_sr false [128; 200; 0; 6] = Panic s_be32_index.
Proof. exact rtcp_pinned_refuted. Qed.
Print Assumptions c13_rtcp_refuted.

(* ---- 3. RTSP interleaved framing, WebSocket frames ---------------------- *)
Theorem c13_no_panic_interleaved : forall s, bytes_ok s -> is_panic (read_interleaved s) = false.
Proof. exact read_interleaved_no_panic. Qed.
Print Assumptions c13_no_panic_interleaved.
(* the framing loop consumes any byte stream without panic and within fuel = length + 1 *)
Theorem c13_interleaved_total : forall s, bytes_ok s -> exists r, read_interleaved_all (S (length s)) s [] = Ok r.
Proof. intros s H. apply read_interleaved_all_total; [exact H|apply Nat.lt_succ_diag_r]. Qed.
Print Assumptions c13_interleaved_total.

Theorem c13_no_panic_ws_read : forall s, is_panic (read_ws_payload true s) = false.
Proof. exact read_ws_payload_no_panic. Qed.
Print Assumptions c13_no_panic_ws_read.
Theorem c13_ws_read_total : forall s, exists r, read_ws_all true (S (length s)) s [] = Ok r.
Proof. intros s. apply read_ws_all_total. apply Nat.lt_succ_diag_r. Qed.
Print Assumptions c13_ws_read_total.
Theorem c13_ws_read_refuted : exists s, read_ws_payload false s = Panic s_ws_makeslice.
Proof. exact read_ws_payload_pinned_refuted. Qed.
Print Assumptions c13_ws_read_refuted.

(* ---- 4. RTP unpackers (AAC AU headers, H264/H265 STAP-A/AP/FU, raw) in a real in-session ---- *)
(* parseAu on any body *)
Theorem c13_no_panic_parse_au : forall b, is_panic (parse_au true b) = false.
Proof. exact parse_au_no_panic. Qed.
Print Assumptions c13_no_panic_parse_au.

(* RtpUnpackContainer.Feed: for any unpacker whose clock rate passed InitWithSdp's
   guard, any queue of accepted packets and any newly accepted packet: it returns,
   and the queue invariant (position type consistent with body length) is kept *)
Theorem c13_no_panic_unpack_feed : forall u maxsize c h raw,
  unp_ok u -> cont_inv u c -> hdr_ok raw h -> rh_padding h <= 1 ->
  exists c' av, cont_feed true u maxsize c h raw = Ok (c', av) /\ cont_inv u c'.
Proof. exact cont_feed_spec. Qed.
Print Assumptions c13_no_panic_unpack_feed.

(* BaseInSession: every codec / clock rate / payload type an SDP can announce x
   every sequence of interleaved RTP and RTCP packets: each step returns (no
   panic, no loop out of fuel) *)
Theorem c13_no_panic_insess : forall ac aclock apt vc vclock vpt pkts,
  exists evs, run_insess true ac aclock apt vc vclock vpt pkts = Ok evs.
Proof. exact run_insess_total. Qed.
Print Assumptions c13_no_panic_insess.

(* pinned tree: eleven distinct ways to kill the process through an RTSP publish / pull session *)
Theorem c13_insess_refuted :
  run_insess false c_pcma 8000 8 c_h264 90000 96 [(1, [128])] = Panic s_handlertcp_index /\
  run_insess false c_pcma 8000 8 c_h264 90000 96 [(1, [128; 200])] = Panic s_sr_slice /\
  run_insess false c_pcma 999 8 c_none 0 0 [(0, [128; 8; 0; 1; 0; 0; 0; 2; 0; 0; 0; 3; 170])] = Panic s_raw_divide /\
  run_insess false c_none 0 0 c_h264 4294967296000 96 [(2, w_hdr ++ [101])] = Panic s_avchevc_divide /\
  run_insess false c_none 0 0 c_h264 90000 96 [(0, [128; 0; 0; 1; 0; 0; 0; 2; 0; 0; 0; 3; 170])] = Panic s_raw_divide /\
  run_insess false c_aac 44100 97 c_none 0 0 [(0, [128; 97; 0; 1; 0; 0; 0; 2; 0; 0; 0; 3; 170])] = Panic s_parseau_index /\
  run_insess false c_aac 44100 97 c_none 0 0 [(0, [128; 97; 0; 1; 0; 0; 0; 2; 0; 0; 0; 3; 0; 64; 0; 8; 0; 8; 0; 8; 0; 8; 170])] = Panic s_aac_slice /\
  run_insess false c_none 0 0 c_h264 90000 96 [(2, w_hdr ++ [28])] = Panic s_calcavc_index /\
  run_insess false c_none 0 0 c_h265 90000 96 [(2, w_hdr ++ [98; 1])] = Panic s_calchevc_index /\
  run_insess false c_none 0 0 c_h265 90000 96 [(2, w_hdr ++ [96])] = Panic s_avchevc_slice /\
  run_insess false c_none 0 0 c_h264 90000 96 [(2, [160; 96; 0; 1; 0; 0; 0; 2; 0; 0; 0; 3; 101; 9])] = Panic s_body_slice.
Proof. exact run_insess_pinned_refuted. Qed.
Print Assumptions c13_insess_refuted.

(* BaseInSession with the transport state of its tracks.  Each track is not set up, set up over
   UDP (SetupWithConn: the track's UdpConnection pointers are non-nil) or set up interleaved
   (SetupWithChannel).  From EVERY transport state [tp] (connections present or nil, any channel
   numbers), for every SDP-derived configuration and every sequence of SETUPs (either kind, either
   track, at any point, repeated), interleaved packets on any channel and datagrams on the RTP /
   RTCP sockets that exist: each step returns *)
Theorem c13_no_panic_insess_transport : forall ac aclock apt vc vclock vpt tp evs,
  exists out, run_udpsess_from true ac aclock apt vc vclock vpt tp evs = Ok out.
Proof. exact run_udpsess_from_total. Qed.
Print Assumptions c13_no_panic_insess_transport.

(* before the repair: an SR that arrives over UDP with the SSRC of a track without RTCP socket
   (video only set up; audio only set up; audio interleaved + video UDP; audio-only SDP and the
   zero-value video payload type 0) writes the receiver report to a nil UdpConnection *)
Theorem c13_insess_transport_refuted :
  run_udpsess false c_pcma 8000 8 c_h264 90000 96
    [SvSetupConn TV; SvUdpRtp TV (w_rtp 8 17 [213; 213]); SvUdpRtcp TV (w_sr 17)] = Panic s_rtcpconn_nil /\
  run_udpsess false c_pcma 8000 8 c_h264 90000 96
    [SvSetupConn TA; SvUdpRtp TA (w_rtp 96 34 [101; 1]); SvUdpRtcp TA (w_sr 34)] = Panic s_rtcpconn_nil /\
  run_udpsess false c_pcma 8000 8 c_h264 90000 96
    [SvSetupChan TA 0 1; SvSetupConn TV; SvIlv 0 (w_rtp 8 17 [213; 213]); SvUdpRtcp TV (w_sr 17)] = Panic s_rtcpconn_nil /\
  run_udpsess false c_pcma 8000 8 c_none 0 0
    [SvSetupConn TA; SvUdpRtp TA (w_rtp 0 34 [255]); SvUdpRtcp TA (w_sr 34)] = Panic s_rtcpconn_nil.
Proof. exact run_udpsess_pinned_refuted. Qed.
Print Assumptions c13_insess_transport_refuted.

(* ---- 5. GB28181 program stream unpacker -------------------------------- *)
(* PsUnpacker.FeedRtpPacket on any sequence of datagrams, for any positive
   reorder-queue size: every call returns (no panic, no loop out of fuel) *)
Theorem c13_no_panic_ps : forall maxsize pkts, (1 <= maxsize)%Z ->
  exists outs, run_ps true maxsize ps_init pkts = Ok outs.
Proof. intros maxsize pkts H. apply run_ps_total; [exact H|exact ps_init_inv]. Qed.
Print Assumptions c13_no_panic_ps.

(* one call from any reachable state keeps the queue invariant (Size = length, all packets accepted) *)
Theorem c13_ps_step : forall maxsize st b, (1 <= maxsize)%Z -> ps_inv st ->
  exists err st' evs, ps_feed_rtp_packet true maxsize st b = Ok (err, st', evs) /\ ps_inv st'.
Proof. exact ps_feed_rtp_packet_ok. Qed.
Print Assumptions c13_ps_step.

(* pinned tree: six sites reachable with a single datagram *)
Theorem c13_ps_refuted :
  run_ps false 1024 ps_init [ps_hdr 1 ++ [0; 0; 1]] = Panic s_ps_be32_index /\
  run_ps false 1024 ps_init [ps_hdr 1 ++ [0; 0; 1; 224; 0]] = Panic s_ps_be16_index /\
  run_ps false 1024 ps_init [ps_hdr 1 ++ [0; 0; 1; 224; 0; 0]] = Panic s_ps_av_index /\
  run_ps false 1024 ps_init [ps_hdr 1 ++ [0; 0; 1; 224; 0; 3; 128; 128; 0]] = Panic s_ps_readpts_index /\
  run_ps false 1024 ps_init [ps_hdr 1 ++ [0; 0; 1; 224; 0; 3; 128; 0; 9]] = Panic s_ps_av_slice /\
  run_ps false 1024 ps_init
    [ps_hdr 1 ++ [0; 0; 1; 188; 0; 14; 224; 255; 0; 0; 0; 4; 27; 224; 0; 0; 0; 0; 0; 0]
                ++ [0; 0; 1; 224; 0; 12; 128; 128; 5; 33; 0; 1; 0; 1; 0; 0; 1; 101]
                ++ [0; 0; 1; 224; 0; 12; 128; 128; 5; 33; 0; 1; 0; 3; 0; 0; 1; 101]] = Panic s_ps_wrap_index.
Proof. exact run_ps_pinned_refuted. Qed.
Print Assumptions c13_ps_refuted.

(* ---- 6. SDP a=rtpmap / a=fmtp / m= lines, RTMP url path, HLS request path -- *)
Theorem c13_no_panic_sdp_rtpmap : forall s, is_panic (parse_a_rtpmap s) = false.
Proof. exact parse_a_rtpmap_no_panic. Qed.
Print Assumptions c13_no_panic_sdp_rtpmap.
Theorem c13_no_panic_sdp_fmtp : forall s, is_panic (parse_a_fmtp s) = false.
Proof. exact parse_a_fmtp_no_panic. Qed.
Print Assumptions c13_no_panic_sdp_fmtp.
Theorem c13_no_panic_sdp_m : forall s, is_panic (parse_m s) = false.
Proof. exact parse_m_no_panic. Qed.
Print Assumptions c13_no_panic_sdp_m.
Theorem c13_no_panic_rtmp_url : forall text, is_panic (parse_rtmp_url true text) = false.
Proof. exact parse_rtmp_url_no_panic. Qed.
Print Assumptions c13_no_panic_rtmp_url.
(* pinned tree: rtmp://host/a?x?y slices [1:0] *)
Theorem c13_rtmp_url_refuted : parse_rtmp_url false [47; 97; 63; 120; 63; 121] = Panic s_rtmpurl_slice.
Proof. exact parse_rtmp_url_pinned_refuted. Qed.
Print Assumptions c13_rtmp_url_refuted.
Theorem c13_no_panic_hls_request : forall text, is_panic (hls_request_info text) = false.
Proof. exact hls_request_info_no_panic. Qed.
Print Assumptions c13_no_panic_hls_request.

(* ---- 7. RTMP client side: a message from the upstream origin ------------- *)
Theorem c13_no_panic_rtmp_client_msg : forall typeid p, is_panic (client_do_msg true typeid p) = false.
Proof. exact client_do_msg_no_panic. Qed.
Print Assumptions c13_no_panic_rtmp_client_msg.
(* pinned tree: unknown message type id = panic(0); short ack / user control bodies *)
Theorem c13_rtmp_client_refuted :
  client_do_msg false 2 [] = Panic s_rtmpc_explicit /\
  client_do_msg false 3 [0; 0; 1] = Panic s_rtmpc_be32 /\
  client_do_msg false 4 [0] = Panic s_rtmpc_be16 /\
  client_do_msg false 4 [0; 6; 0; 0] = Panic s_rtmpc_be32.
Proof. exact client_do_msg_pinned_refuted. Qed.
Print Assumptions c13_rtmp_client_refuted.

(* ---- 8. the RTSP message reader of the server and client command sessions ---- *)
(* rtsp.readHttpMessage on ANY byte stream (then end of input): it returns a message - complete, or with
   the body cut short by the end of the stream - or an error; no panic, no loop out of fuel.  For a returned
   message: the capacity reserved for the body is at most 2 * (body bytes received + 4096), whatever
   Content-Length announces; the body is part of the stream; the unread rest is a strictly shorter suffix *)
Theorem c13_rtsp_msg_total : forall s,
  (exists m, read_msg true s = Ok m /\
     mo_cap m <= 2 * (lenN (mo_body m) + 4096) /\ lenN (mo_body m) <= lenN s /\
     (exists p, s = p ++ mo_rest m) /\ (length (mo_rest m) < length s)%nat) \/
  (exists e, read_msg true s = Err e /\ e <> err_out_of_fuel).
Proof. exact read_msg_spec. Qed.
Print Assumptions c13_rtsp_msg_total.

Theorem c13_no_panic_rtsp_msg : forall s, is_panic (read_msg true s) = false.
Proof. exact read_msg_no_panic. Qed.
Print Assumptions c13_no_panic_rtsp_msg.

(* the framing loops of ServerCommandSession.runCmdLoop (plain: interleaved packet or request; WebSocket: one
   request per frame payload) and ClientCommandSession.runReadLoop on any byte stream: they stop at the first
   error, without panic, within fuel = length + 1 *)
Theorem c13_rtsp_loop_total : forall s, bytes_ok s -> exists items, rtsp_loop true (S (length s)) s [] = Ok items.
Proof. intros s H. apply rtsp_loop_total; [exact H|apply Nat.lt_succ_diag_r]. Qed.
Print Assumptions c13_rtsp_loop_total.
Theorem c13_rtsp_ws_loop_total : forall s, exists items, rtsp_ws_loop true (S (length s)) s [] = Ok items.
Proof. intros s. apply rtsp_ws_loop_total. apply Nat.lt_succ_diag_r. Qed.
Print Assumptions c13_rtsp_ws_loop_total.

(* before the repair (nazahttp.ReadHttpMessage: make([]byte, Atoi(Content-Length)) before reading):
   "Content-Length: -1" and "Content-Length: 9223372036854775807" panic in makeslice, "Content-Length:
   99999999999" reserves 100 GB for a body of which nothing has arrived; the same through both session loops *)
Theorem c13_rtsp_msg_refuted :
  read_msg false (w_msg [45; 49]) = Panic s_httpmsg_makeslice /\
  read_msg false (w_msg [57; 50; 50; 51; 51; 55; 50; 48; 51; 54; 56; 53; 52; 55; 55; 53; 56; 48; 55]) = Panic s_httpmsg_makeslice /\
  (exists m, read_msg false (w_msg [57; 57; 57; 57; 57; 57; 57; 57; 57; 57; 57]) = Ok m /\ mo_body m = [] /\ mo_cap m = 99999999999) /\
  rtsp_loop false 100 (w_msg [45; 49]) [] = Panic s_httpmsg_makeslice /\
  rtsp_ws_loop false 100 ([130; 27] ++ w_msg [45; 49]) [] = Panic s_httpmsg_makeslice.
Proof. exact read_msg_pinned_refuted. Qed.
Print Assumptions c13_rtsp_msg_refuted.

(* ---- 9. the RTSP command layer of the server ------------------------------------------------- *)
(* ServerCommandSession.runCmdLoop with its handlers (OPTIONS / ANNOUNCE / DESCRIBE / SETUP / RECORD / PLAY /
   TEARDOWN / anything else, in any order and repetition), auth off, plain or WebSocket framing: for EVERY byte
   stream of the command connection, EVERY behaviour of the upper layer (publish refused or accepted; DESCRIBE
   refused, accepted without SDP - nobody publishes yet -, accepted with any SDP text; PLAY refused or accepted)
   and EVERY verdict of base.ParseRtspUrl on the request URIs: the loop returns (the connection is closed), no
   handler panics, no loop runs out of fuel *)
Theorem c13_rtsp_cmd_total : forall uri_ok ob ws s, (ws = false -> bytes_ok s) ->
  exists st evs, run_cmd true uri_ok ob ws s = Ok (st, evs).
Proof. intros uri_ok ob ws s H. destruct (run_cmd_total uri_ok ob ws s H) as [[st evs] E]. eauto. Qed.
Print Assumptions c13_rtsp_cmd_total.

(* ... and nothing a SETUP made lal open outlives the session: every pair of UDP sockets bound for a SETUP is
   either held by the session's transport holder (closed by Dispose) or closed at once *)
Theorem c13_rtsp_cmd_no_leak : forall uri_ok ob ws s st evs,
  run_cmd true uri_ok ob ws s = Ok (st, evs) -> cs_leak st = 0.
Proof. intros uri_ok ob ws s st evs H. apply cmd_loop_no_leak in H. exact H. Qed.
Print Assumptions c13_rtsp_cmd_no_leak.

(* a SETUP is answered only when a media session with a parsed SDP exists and the uri names one of its tracks;
   without a session, and for a sub session whose SDP has not been fed yet, the connection is closed *)
Theorem c13_rtsp_cmd_setup_needs_track : forall fx uri_ok ob st m st' evs,
  bytes_eqb (mo_a m) m_options = false -> bytes_eqb (mo_a m) m_announce = false -> bytes_eqb (mo_a m) m_describe = false ->
  bytes_eqb (mo_a m) m_setup = true ->
  handle_req fx uri_ok ob st m = Ok (st', evs, true) ->
  exists a v rec, setup_ctx (cs_role st) = Some (a, v, rec) /\ track_of a v (mo_b m) <> None.
Proof. exact setup_needs_track. Qed.
Print Assumptions c13_rtsp_cmd_setup_needs_track.

(* the pieces: the whole-SDP line loop over the checked line parsers, the Transport header parser *)
Theorem c13_no_panic_sdp_full : forall b, is_panic (parse_sdp_raw b) = false.
Proof. exact parse_sdp_raw_no_panic. Qed.
Print Assumptions c13_no_panic_sdp_full.
Theorem c13_no_panic_rtsp_transport : forall key htv, is_panic (parse_transport key htv) = false.
Proof. exact parse_transport_no_panic. Qed.
Print Assumptions c13_no_panic_rtsp_transport.

(* before the repair: ANNOUNCE and the same UDP SETUP three times on one connection leave two pairs of sockets
   open for ever; a UDP SETUP without a session leaves one *)
Theorem c13_rtsp_cmd_refuted :
  (exists st evs, run_cmd false (fun _ => true) w_obs false (w_announce ++ w_setup_udp ++ w_setup_udp ++ w_setup_udp) = Ok (st, evs) /\ cs_leak st = 2) /\
  (exists st evs, run_cmd false (fun _ => true) w_obs false w_setup_udp = Ok (st, evs) /\ cs_leak st = 1) /\
  (exists st evs, run_cmd true (fun _ => true) w_obs false (w_announce ++ w_setup_udp ++ w_setup_udp ++ w_setup_udp) = Ok (st, evs) /\
     cs_leak st = 0 /\ length evs = 5%nat).
Proof. exact run_cmd_pinned_refuted. Qed.
Print Assumptions c13_rtsp_cmd_refuted.

(* ---- 10. the RTSP command layer of the client (PullSession / PushSession) ------------------------ *)
(* ClientCommandSession: OPTIONS, DESCRIBE | ANNOUNCE, SETUP per track (with the 461 fallback to the other
   transport), PLAY | RECORD, each with the 401 retry (Basic / Digest challenge), then the read loop - for EVERY
   byte stream the upstream server may send, in every mode (pull / push, interleaved / UDP, any credentials, any
   sdp to push): the handshake returns, the read loop ends or waits, nothing panics, no loop runs out of fuel *)
Theorem c13_rtsp_client_total : forall c s, bytes_ok s -> exists st o, client_run true c s = Ok (st, o).
Proof. exact client_run_total. Qed.
Print Assumptions c13_rtsp_client_total.

(* ... and it ends in one of four ways: Start returned an error; (push) the sdp does not parse; the session has
   been reported as ended; or it waits for the keep-alive ticker, which only happens with UDP transport and a
   server that announces GET_PARAMETER.  No session is left that is neither running nor reported *)
Theorem c13_rtsp_client_outcome : forall c s st o, client_run true c s = Ok (st, o) ->
  o = CFailed \/ o = CBadSdp \/ o = CEnded \/ (o = CRunning /\ k_tcp st = false /\ k_getparam st = true).
Proof. exact client_run_outcome. Qed.
Print Assumptions c13_rtsp_client_outcome.

(* before the repairs: (1) interleaved pull, no GET_PARAMETER, one more answer after PLAY: the read loop never
   ends (it spins on the byte it pushes back; in Go not even Dispose stops it, the byte never leaves the buffer);
   (2) UDP pull, one byte on the command connection after PLAY: the command session is closed, the pull session
   stays, unreported *)
Theorem c13_rtsp_client_refuted :
  client_run false (w_ccfg true) (w_ok ++ w_ok ++ w_ok ++ w_ok) = Err err_out_of_fuel /\
  (exists st, client_run false (w_ccfg false) (w_ok ++ w_ok ++ w_ok ++ [13]) = Ok (st, CRunning) /\ k_getparam st = false) /\
  (exists st, client_run true (w_ccfg true) (w_ok ++ w_ok ++ w_ok ++ w_ok) = Ok (st, CEnded)) /\
  (exists st, client_run true (w_ccfg false) (w_ok ++ w_ok ++ w_ok ++ [13]) = Ok (st, CEnded)).
Proof. exact client_run_pinned_refuted. Qed.
Print Assumptions c13_rtsp_client_refuted.

(* non-vacuity: a well-formed packet with CSRC, extension and padding is accepted *)
Example c13_rtp_nonvacuous :
  exists h, parse_rtp_packet_body true
    [177; 96; 0; 7; 0; 0; 3; 232; 17; 34; 51; 68;  0; 0; 0; 9;  190; 222; 0; 1; 1; 2; 3; 4;  101; 136; 0; 0; 3]
    = Ok (h, [101; 136]) /\ rh_csrc h = [9] /\ rh_extensions h = [1; 2; 3; 4].
Proof. eexists. split; [vm_compute; reflexivity|split; reflexivity]. Qed.

(* non-vacuity: a fragmented H264 NAL through a real session yields one AvPacket *)
Example c13_insess_nonvacuous :
  run_insess true c_none 0 0 c_h264 90000 96
    [(2, w_hdr ++ [124; 133; 1]); (2, [128; 96; 0; 2; 0; 0; 0; 2; 0; 0; 0; 3; 124; 69; 2])]
  = Ok [EvRtp 1; EvSep; EvRtp 2; EvAv (mk_av 96 0 [0; 0; 0; 3; 101; 1; 2]); EvSep].
Proof. vm_compute. reflexivity. Qed.

(* non-vacuity: both tracks over UDP, an SR for each SSRC arriving on the other track's RTCP
   socket is answered from the socket of the SSRC's track *)
Example c13_insess_transport_nonvacuous :
  run_udpsess true c_pcma 8000 8 c_h264 90000 96
    [SvSetupConn TA; SvSetupConn TV; SvUdpRtp TV (w_rtp 8 17 [213; 213]); SvUdpRtcp TV (w_sr 17); SvUdpRtcp TA (w_sr 99)]
  = Ok [USep; USep; UEv (EvRtp 1); UEv (EvAv (mk_av 8 0 [213; 213])); USep;
        URrUdp TA (rr_pack 0 0 0 1 0 65536); USep; USep].
Proof. vm_compute. reflexivity. Qed.

(* non-vacuity: "A B C\r\ncontent-length: 3\r\n\r\nxyz$" is one message with a 3-byte body; the key is
   stored in canonical form; the rest of the stream is handed back *)
Example c13_rtsp_msg_nonvacuous :
  read_msg true ([65; 32; 66; 32; 67; 13; 10; 99; 111; 110; 116; 101; 110; 116; 45; 108; 101; 110; 103; 116; 104; 58; 32; 51; 13; 10; 13; 10; 120; 121; 122; 36])
  = Ok (mk_out [65] [66] [67] [(content_length_key, [[51]])] [120; 121; 122] 3 None [36]).
Proof. vm_compute. reflexivity. Qed.

(* non-vacuity: DESCRIBE answered without SDP (nobody publishes the stream yet), then SETUP: the sub session
   exists, the SETUP finds no SDP, the connection is closed without an answer - the state the seeded nil
   dereference lived in *)
Example c13_rtsp_cmd_nonvacuous :
  exists st, run_cmd true (fun _ => true) w_obs false
    ([68; 69; 83; 67; 82; 73; 66; 69; 32; 114; 116; 115; 112; 58; 47; 47; 104; 47; 120; 32; 82; 13; 10; 67; 83; 101; 113; 58; 32; 55; 13; 10; 13; 10] ++ w_setup_udp)
    = Ok (st, [CvCbDescribe]) /\ cs_role st = RSub None /\ cs_dseq st = [55].
Proof. eexists. split; [vm_compute; reflexivity|split; reflexivity]. Qed.

(* non-vacuity: a Digest challenge on OPTIONS, credentials u / (empty): four requests - OPTIONS, OPTIONS again,
   DESCRIBE, PLAY (the description has no track) -, the last three carry the Authorization header *)
Example c13_rtsp_client_nonvacuous :
  exists st, client_run true (mk_ccfg false true [117] [] [114; 116; 115; 112; 58; 47; 47; 104; 47; 120] [])
    ([82; 84; 83; 80; 47; 49; 46; 48; 32; 52; 48; 49; 32; 85; 13; 10; 87; 87; 87; 45; 65; 117; 116; 104; 101; 110; 116; 105; 99; 97; 116; 101; 58; 32; 68; 105; 103; 101; 115; 116; 32; 114; 101; 97; 108; 109; 61; 34; 114; 34; 44; 32; 110; 111; 110; 99; 101; 61; 34; 110; 34; 13; 10; 13; 10] ++ w_ok ++ w_ok ++ w_ok) = Ok (st, CEnded) /\
  map rq_method (k_out st) = [m_play; m_describe; t_options; t_options] /\
  map (fun q => hdr_get h_auth (map (fun kv => (fst kv, [snd kv])) (rq_hdrs q))) (k_out st)
    = [[68; 105; 103; 101; 115; 116; 32; 117; 115; 101; 114; 110; 97; 109; 101; 61; 34; 117; 34; 44; 32; 114; 101; 97; 108; 109; 61; 34; 114; 34; 44; 32; 110; 111; 110; 99; 101; 61; 34; 110; 34; 44; 32; 117; 114; 105; 61; 34; 114; 116; 115; 112; 58; 47; 47; 104; 47; 120; 34; 44; 32; 114; 101; 115; 112; 111; 110; 115; 101; 61; 34; 82; 34; 44; 32; 97; 108; 103; 111; 114; 105; 116; 104; 109; 61; 34; 77; 68; 53; 34]; [68; 105; 103; 101; 115; 116; 32; 117; 115; 101; 114; 110; 97; 109; 101; 61; 34; 117; 34; 44; 32; 114; 101; 97; 108; 109; 61; 34; 114; 34; 44; 32; 110; 111; 110; 99; 101; 61; 34; 110; 34; 44; 32; 117; 114; 105; 61; 34; 114; 116; 115; 112; 58; 47; 47; 104; 47; 120; 34; 44; 32; 114; 101; 115; 112; 111; 110; 115; 101; 61; 34; 82; 34; 44; 32; 97; 108; 103; 111; 114; 105; 116; 104; 109; 61; 34; 77; 68; 53; 34]; [68; 105; 103; 101; 115; 116; 32; 117; 115; 101; 114; 110; 97; 109; 101; 61; 34; 117; 34; 44; 32; 114; 101; 97; 108; 109; 61; 34; 114; 34; 44; 32; 110; 111; 110; 99; 101; 61; 34; 110; 34; 44; 32; 117; 114; 105; 61; 34; 114; 116; 115; 112; 58; 47; 47; 104; 47; 120; 34; 44; 32; 114; 101; 115; 112; 111; 110; 115; 101; 61; 34; 82; 34; 44; 32; 97; 108; 103; 111; 114; 105; 116; 104; 109; 61; 34; 77; 68; 53; 34]; []].
Proof. eexists. split; [vm_compute; reflexivity|split; reflexivity]. Qed.
