(* C12 - RTP packetise/depacketise is lossless under size, reordering and
   wrap-around.  Only property statements here; each is closed by [exact] /
   [apply] of a lemma proved in Rtp/*Proofs.v.

   Model: Rtp/RtpPacker.v (PackNal, Pack, RtpPacker.Pack), Rtp/RtpSeqArith.v
   (CompareSeq, SubSeq), Rtp/RtpUnpacker.v (calcPosition*, TryUnpackOne for
   AVC/HEVC/AAC/raw), Rtp/RtpReorder.v (Insert, IsStale, Feed).
   Reference: Rtp/RtpSpec.v (RFC 6184 / 7798 / 3640 depacketisers),
   Rtp/RtpReorderAbs.v (reference reorder buffer over packet numbers).
   [pack_nal true] is the current tree (after the F-05 fix), [pack_nal false]
   the pinned tree. *)
From Coq Require Import List Arith NArith ZArith Lia.
From Lal Require Import Common.LBytes Common.Res
  Rtp.RtpSeqArith Rtp.RtpPacker Rtp.RtpUnpacker Rtp.RtpReorder Rtp.RtpSpec Rtp.RtpFrames Rtp.RtpReorderAbs
  Rtp.RtpSeqProofs Rtp.RtpPackerProofs Rtp.RtpUnpackerProofs Rtp.RtpSpecProofs
  Rtp.RtpReorderAbsProofs Rtp.RtpReorderProofs Rtp.RtpStreamProofs Rtp.RtpRoundtripProofs Rtp.RtpFreshProofs Rtp.RtpSizeProofs.
Import ListNotations.
Open Scope N_scope.

(* ------------------------------------------------------------------------ *)
(* (4) CompareSeq is the order of the offsets on any window of width < 2^15
   (anchored anywhere, wrap-around included): a strict total order there. *)
Theorem c12_seq_order : forall d i j,
  i < j + 32768 -> j < i + 32768 ->
  compare_seq (seq_add d i) (seq_add d j) = (if (i =? j)%N then 0 else if (j <? i)%N then 1 else -1)%Z.
Proof. exact compare_seq_window. Qed.
Print Assumptions c12_seq_order.

(* SubSeq agrees with it: it is the signed distance inside 2^14, and
   SubSeq(a,b) = 1 singles out the successor for ALL uint16 pairs *)
Theorem c12_sub_seq_agrees : forall d i j,
  i < j + 16384 -> j < i + 16384 ->
  sub_seq (seq_add d i) (seq_add d j) = (Z.of_N i - Z.of_N j)%Z.
Proof. exact sub_seq_window. Qed.
Print Assumptions c12_sub_seq_agrees.

Theorem c12_sub_seq_successor : forall a b, a < 65536 -> b < 65536 ->
  (sub_seq a b = 1%Z <-> a = seq_succ b).
Proof. exact sub_seq_one. Qed.
Print Assumptions c12_sub_seq_successor.

(* outside a half-range window CompareSeq is not transitive: the window
   hypothesis of c12_seq_order / c12_reorder cannot be dropped *)
Theorem c12_seq_order_needs_window :
  compare_seq 0 20000 = (-1)%Z /\ compare_seq 20000 40000 = (-1)%Z /\ compare_seq 0 40000 = 1%Z.
Proof. exact compare_seq_not_transitive. Qed.
Print Assumptions c12_seq_order_needs_window.

(* ------------------------------------------------------------------------ *)
(* (2) limits: every payload of a packed frame (any NAL list, AVCC mode)
   respects the payload limit ... *)
Theorem c12_limits_payload : forall c nals maxp pls,
  fu_hdr_size c < maxp ->
  pack_video_frame true c nals maxp = Ok pls ->
  Forall (fun p => lenN p <= maxp) pls.
Proof.
  intros c nals maxp pls Hh Hp. unfold pack_video_frame in Hp.
  destruct (maxp =? 0); [injection Hp as <-; constructor|eapply pack_nals_limit; eauto].
Qed.
Print Assumptions c12_limits_payload.

(* ... and RtpPacker.Pack over any sequence of frames: payloads unchanged,
   one chain of sequence numbers +1 mod 2^16 across frames, marker on the
   last packet of each frame only, timestamp floor(ms*rate/1000) mod 2^32 *)
Theorem c12_limits_stream : forall pt rate ssrc frames s out s',
  s < 65536 ->
  rtp_pack_stream pt rate ssrc s frames = (out, s') ->
  s' < 65536 /\
  map (map rp_payload) out = map snd frames /\
  seq_chain s (concat out) /\
  s' = seq_add s (lenN (concat out)) /\
  Forall marks_ok out /\
  Forall2 (fun fr pk => Forall (fun p => rp_ts p = (fst fr * rate / 1000) mod 4294967296
                                         /\ rp_pt p = pt /\ rp_ssrc p = ssrc) pk) frames out.
Proof. exact rtp_pack_stream_spec. Qed.
Print Assumptions c12_limits_stream.

(* ------------------------------------------------------------------------ *)
(* (1) pack then unpack, per NAL unit, every size, every header byte.
   lal's depacketiser: whenever the packet list starts with the packets of
   the NAL (consecutive sequence numbers from any s, wrap-around included)
   TryUnpackOne returns the NAL in AVCC form - both header bytes for HEVC -
   and consumes exactly these packets; on a proper prefix it waits. *)
Theorem c12_pack_unpack : forall c nal maxp rate s ts pls,
  fu_hdr_size c < maxp -> nal <> [] -> nth 0 nal 0 < 256 ->
  single_type_ok c nal -> rate_ok rate -> s < 65536 ->
  pack_nal true c nal maxp = Ok pls ->
  frame_good (proto_of_codec c) rate (mk_upkts (proto_of_codec c) s ts pls)
             [(rtp_ms rate ts, avcc nal)].
Proof. exact video_frame_good. Qed.
Print Assumptions c12_pack_unpack.

(* the same through the container as created (doneSeqFlag = false), packets
   fed in order: unpack_inorder (pack nal) = [avcc nal], as long as the NAL
   needs no more packets than the list can hold *)
Theorem c12_pack_unpack_container : forall c nal maxp rate w s ts pls,
  fu_hdr_size c < maxp -> nal_ok c nal -> rate_ok rate -> s < 65536 ->
  pack_nal true c nal maxp = Ok pls ->
  (Z.of_nat (length pls) <= w)%Z -> N.of_nat (length pls) <= 32768 ->
  feed_all (proto_of_codec c) rate w c_init (map upkt_arrival (mk_upkts (proto_of_codec c) s ts pls))
  = Ok (mk_cstate [] 0 true (seq_add s (lenN pls - 1)), [(rtp_ms rate ts, avcc nal)]).
Proof. exact video_inorder_fresh. Qed.
Print Assumptions c12_pack_unpack_container.

(* the independent RFC 6184 / RFC 7798 depacketisers return the unit *)
Theorem c12_pack_unpack_rfc6184 : forall nal maxp pls,
  2 < maxp -> nal <> [] -> nth 0 nal 0 < 256 -> rfc_unit_ok Avc nal ->
  pack_nal true Avc nal maxp = Ok pls ->
  rfc6184_depack None pls = Some [nal].
Proof.
  intros nal maxp pls H1 H2 H3 H4 H5.
  pose proof (rfc6184_pack_nal nal maxp pls [] H1 H2 H3 H4 H5) as H. rewrite app_nil_r in H. exact H.
Qed.
Print Assumptions c12_pack_unpack_rfc6184.

Theorem c12_pack_unpack_rfc7798 : forall nal maxp pls,
  3 < maxp -> nth 0 nal 0 < 256 -> rfc_unit_ok Hevc nal ->
  pack_nal true Hevc nal maxp = Ok pls ->
  rfc7798_depack None pls = Some [nal].
Proof.
  intros nal maxp pls H1 H2 H3 H4.
  pose proof (rfc7798_pack_nal nal maxp pls [] H1 H2 H3 H4) as H. rewrite app_nil_r in H. exact H.
Qed.
Print Assumptions c12_pack_unpack_rfc7798.

(* F-05: on the pinned tree the theorem is false.  HEVC: the FU packetiser
   replaced LayerId/TID (second header byte) by 01 and dropped F / the LayerId
   msb; AVC: it dropped the F bit.  Witnesses (replayed on the Go code). *)
Theorem c12_pack_unpack_pinned_refuted :
  (exists nal pls, pack_nal false Hevc nal 10 = Ok pls /\ rfc_unit_ok Hevc nal /\
                   rfc7798_depack None pls = Some [ [38; 1; 1; 2; 3; 4; 5; 6; 7; 8; 9; 10] ] /\
                   nal = [38; 163; 1; 2; 3; 4; 5; 6; 7; 8; 9; 10]) /\
  (exists nal pls, pack_nal false Avc nal 10 = Ok pls /\
                   rfc6184_depack None pls = Some [ [101; 1; 2; 3; 4; 5; 6; 7; 8; 9; 10] ] /\
                   nal = [229; 1; 2; 3; 4; 5; 6; 7; 8; 9; 10]).
Proof.
  split.
  - exists [38; 163; 1; 2; 3; 4; 5; 6; 7; 8; 9; 10]. eexists. split; [vm_compute; reflexivity|].
    split; [cbn; repeat split; (lia || discriminate)|]. split; [vm_compute; reflexivity|reflexivity].
  - exists [229; 1; 2; 3; 4; 5; 6; 7; 8; 9; 10]. eexists. split; [vm_compute; reflexivity|].
    split; [vm_compute; reflexivity|reflexivity].
Qed.
Print Assumptions c12_pack_unpack_pinned_refuted.

(* ------------------------------------------------------------------------ *)
(* (3) audio: AAC (one AU header, len < 8192), G.711 / Opus (raw) *)
Theorem c12_audio_aac : forall frame maxp rate s ts,
  0 < maxp -> lenN frame < 8192 -> rate_ok rate ->
  frame_good PAac rate (mk_upkts PAac s ts (pack_aac frame maxp)) [(rtp_ms rate ts, frame)]
  /\ rfc3640_depack (pack_aac frame maxp) = Some [frame].
Proof. intros. split; [apply aac_frame_good|apply rfc3640_pack_aac]; assumption. Qed.
Print Assumptions c12_audio_aac.

Theorem c12_audio_raw : forall frame maxp rate s ts,
  0 < maxp -> rate_ok rate ->
  frame_good PRaw rate (mk_upkts PRaw s ts (pack_raw frame maxp)) [(rtp_ms rate ts, frame)]
  /\ pack_raw frame maxp = [frame].
Proof.
  intros. split; [apply raw_frame_good; assumption|].
  unfold pack_raw. destruct (maxp =? 0) eqn:E; [lia|reflexivity].
Qed.
Print Assumptions c12_audio_raw.

(* ------------------------------------------------------------------------ *)
(* (5) reordering.  The packets RtpPacker.Pack emits for a sequence of frames
   are exactly the packets of the stream the theorems below speak about ... *)
Theorem c12_pack_is_stream : forall pr pt rate ssrc o frames s, s < 65536 ->
  map arrival_of (concat (fst (rtp_pack_stream pt rate ssrc s frames)))
  = map upkt_arrival (pkts (unit_stream pr s (map (fun f => (rtp_timestamp (fst f) rate, snd f, o)) frames))).
Proof. exact rtp_pack_stream_arrivals. Qed.
Print Assumptions c12_pack_is_stream.

(* ... general form: any stream of protocol frames (video, audio, any mix of
   sizes), numbered d+1, d+2, ... modulo 2^16, fed to the container that has
   just consumed d, in ANY arrival order with duplicates and stale repeats
   such that (sched_ok) every arriving packet lies within 2^14 of the delivery
   frontier and fewer than w packets are pending: the container state is the
   image of the reference buffer and the output is the concatenation of the
   delivered frames' outputs. *)
Theorem c12_reorder_refines : forall pr rate w d s sched,
  d < 65536 -> stream_wf pr rate d s -> sched_ok w (init_astate s) sched ->
  feed_all pr rate w (primed d) (map (fun i => upkt_arrival (pkt_at s i)) sched)
  = Ok (img d (pkt_at s) (fst (arun (init_astate s) sched)), snd (arun (init_astate s) sched)).
Proof. exact stream_reorder. Qed.
Print Assumptions c12_reorder_refines.

(* every packet arrives at least once => output = all frames in order, list empty *)
Theorem c12_reorder : forall pr rate w d s sched,
  d < 65536 -> stream_wf pr rate d s -> sched_ok w (init_astate s) sched ->
  (forall i, (i < length (pkts s))%nat -> In i sched) ->
  feed_all pr rate w (primed d) (map (fun i => upkt_arrival (pkt_at s i)) sched)
  = Ok (mk_cstate [] 0 true (seq_add d (N.of_nat (length (pkts s)))), outs_of s).
Proof. exact stream_reorder_complete. Qed.
Print Assumptions c12_reorder.

(* the in-order arrival is such a schedule (no frame longer than w / 2^14
   packets) and gives the same result: hence output(any admissible arrival
   order) = output(in order) *)
Theorem c12_inorder : forall pr rate w d s,
  d < 65536 -> stream_wf pr rate d s ->
  Forall (fun fo => (Z.of_nat (length (fst fo)) <= w)%Z /\ N.of_nat (length (fst fo)) <= 16384) s ->
  sched_ok w (init_astate s) (seq 0 (length (pkts s))) /\
  feed_all pr rate w (primed d) (map upkt_arrival (pkts s))
  = Ok (mk_cstate [] 0 true (seq_add d (N.of_nat (length (pkts s)))), outs_of s).
Proof. exact stream_inorder. Qed.
Print Assumptions c12_inorder.

(* container as created: the first frame in order primes it, then any
   admissible schedule over the rest of the stream *)
Theorem c12_reorder_fresh : forall pr rate w s0 F o s sched,
  frame_good pr rate F o ->
  (forall i, (i < length F)%nat -> u_seq (nth i F dummy_upkt) = seq_add s0 (N.of_nat i)) ->
  Forall (fun p => calc_position pr (u_body p) = Ok (u_pos p)) F ->
  (Z.of_nat (length F) <= w)%Z -> N.of_nat (length F) <= 32768 ->
  let d := u_seq (last F dummy_upkt) in
  d < 65536 -> stream_wf pr rate d s -> sched_ok w (init_astate s) sched ->
  feed_all pr rate w c_init (map upkt_arrival F ++ map (fun i => upkt_arrival (pkt_at s i)) sched)
  = Ok (img d (pkt_at s) (fst (arun (init_astate s) sched)), o ++ snd (arun (init_astate s) sched)).
Proof. exact stream_fresh. Qed.
Print Assumptions c12_reorder_fresh.

(* Pack in AVCC mode (several NAL units per AvPacket, access unit delimiters
   skipped): its payloads, and the packets RtpPacker.Pack makes of them, are
   the packets of the NAL-level unit stream of c12_reorder_video *)
Theorem c12_pack_frames_is_stream : forall c pt rate ssrc maxp frames s,
  fu_hdr_size c < maxp -> s < 65536 ->
  Forall (fun f => pack_video_frame true c (snd f) maxp = Ok (frame_payloads c maxp (snd f))) frames /\
  map arrival_of (concat (fst (rtp_pack_stream pt rate ssrc s
                                 (map (fun f => (fst f, frame_payloads c maxp (snd f))) frames))))
  = map upkt_arrival (pkts (unit_stream (proto_of_codec c) s (frames_units c maxp rate frames))).
Proof.
  intros c pt rate ssrc maxp frames s Hh Hs. split.
  - apply Forall_forall. intros f _. apply pack_video_frame_payloads. assumption.
  - apply (pack_frames_arrivals c pt rate ssrc maxp []). assumption.
Qed.
Print Assumptions c12_pack_frames_is_stream.

(* instantiation with lal's video packer: any list of (rtp timestamp, NAL) *)
Theorem c12_reorder_video : forall c maxp rate w d nals sched,
  fu_hdr_size c < maxp -> rate_ok rate -> d < 65536 ->
  Forall (fun tn => nal_ok c (snd tn)) nals ->
  let s := unit_stream (proto_of_codec c) (seq_succ d) (map (video_unit c maxp rate) nals) in
  sched_ok w (init_astate s) sched ->
  (forall i, (i < length (pkts s))%nat -> In i sched) ->
  feed_all (proto_of_codec c) rate w (primed d) (map (fun i => upkt_arrival (pkt_at s i)) sched)
  = Ok (mk_cstate [] 0 true (seq_add d (N.of_nat (length (pkts s)))),
        map (fun tn => (rtp_ms rate (fst tn), avcc (snd tn))) nals).
Proof.
  intros c maxp rate w d nals sched Hh Hr Hd Hn s Hok Hall.
  assert (Hwf : stream_wf (proto_of_codec c) rate d s).
  { apply unit_stream_wf'; [assumption|]. apply Forall_map. eapply Forall_impl; [|exact Hn].
    intros tn Htn. apply video_unit_ok; assumption. }
  rewrite (stream_reorder_complete (proto_of_codec c) rate w d s sched Hd Hwf Hok Hall).
  f_equal. f_equal. unfold s. rewrite outs_of_unit_stream. rewrite map_map.
  clear. induction nals as [|tn t IH]; [reflexivity|]. cbn [map concat video_unit snd app]. f_equal. exact IH.
Qed.
Print Assumptions c12_reorder_video.

(* and with the audio packers *)
Theorem c12_reorder_audio : forall maxp rate w d frames sched,
  0 < maxp -> rate_ok rate -> d < 65536 ->
  (Forall (fun tf => lenN (snd tf) < 8192) frames ->
   let s := unit_stream PAac (seq_succ d) (map (aac_unit maxp rate) frames) in
   sched_ok w (init_astate s) sched -> (forall i, (i < length (pkts s))%nat -> In i sched) ->
   feed_all PAac rate w (primed d) (map (fun i => upkt_arrival (pkt_at s i)) sched)
   = Ok (mk_cstate [] 0 true (seq_add d (N.of_nat (length (pkts s)))),
         map (fun tf => (rtp_ms rate (fst tf), snd tf)) frames)) /\
  (let s := unit_stream PRaw (seq_succ d) (map (raw_unit maxp rate) frames) in
   sched_ok w (init_astate s) sched -> (forall i, (i < length (pkts s))%nat -> In i sched) ->
   feed_all PRaw rate w (primed d) (map (fun i => upkt_arrival (pkt_at s i)) sched)
   = Ok (mk_cstate [] 0 true (seq_add d (N.of_nat (length (pkts s)))),
         map (fun tf => (rtp_ms rate (fst tf), snd tf)) frames)).
Proof.
  intros maxp rate w d frames sched Hm Hr Hd. split.
  - intros Hl s Hok Hall.
    assert (Hwf : stream_wf PAac rate d s).
    { apply unit_stream_wf'; [assumption|]. apply Forall_map. eapply Forall_impl; [|exact Hl].
      intros tf Htf. apply aac_unit_ok; assumption. }
    rewrite (stream_reorder_complete PAac rate w d s sched Hd Hwf Hok Hall).
    f_equal. f_equal. unfold s. rewrite outs_of_unit_stream. rewrite map_map.
    clear. induction frames as [|tn t IH]; [reflexivity|]. cbn [map concat aac_unit snd app]. f_equal. exact IH.
  - intros s Hok Hall.
    assert (Hwf : stream_wf PRaw rate d s).
    { apply unit_stream_wf'; [assumption|]. apply Forall_map. apply Forall_forall.
      intros tf _. apply raw_unit_ok; assumption. }
    rewrite (stream_reorder_complete PRaw rate w d s sched Hd Hwf Hok Hall).
    f_equal. f_equal. unfold s. rewrite outs_of_unit_stream. rewrite map_map.
    clear. induction frames as [|tn t IH]; [reflexivity|]. cbn [map concat raw_unit snd app]. f_equal. exact IH.
Qed.
Print Assumptions c12_reorder_audio.

(* ------------------------------------------------------------------------ *)
(* the list invariant (DESIGN A.3, first half) for EVERY arrival sequence of
   every protocol, hostile packets included: RtpPacketList.Size is the length
   of the list, so Full() means what it says.  False on the pinned tree for
   fragmented AAC access units (one packet too few subtracted): after a few
   such units Full() was permanently true and a swap of two packets inside the
   window dropped a frame (witness in design.d/C12.md, replayed on Go). *)
Theorem c12_size_invariant : forall pr rate w arr st o,
  feed_all pr rate w c_init arr = Ok (st, o) -> c_size st = Z.of_nat (length (c_items st)).
Proof. intros pr rate w arr st o H. exact (feed_all_size pr rate w arr c_init st o eq_refl H). Qed.
Print Assumptions c12_size_invariant.

Theorem c12_size_invariant_pinned_refuted :
  exists l o sq rest dec,
    aac_frag 44100 10 1024 0
      [mk_upkt 1 1024 [0; 16; 0; 80; 238; 255; 0; 17; 34; 51] 0] [[170; 187; 204; 221]] 4 0%Z
      = Ok (Some (o, sq, rest, dec)) /\
    l = [mk_upkt 0 1024 [0; 16; 0; 80; 170; 187; 204; 221] 0; mk_upkt 1 1024 [0; 16; 0; 80; 238; 255; 0; 17; 34; 51] 0] /\
    (Z.of_nat (length l) - dec <> Z.of_nat (length rest))%Z.
Proof. exact aac_frag_pinned_refuted. Qed.
Print Assumptions c12_size_invariant_pinned_refuted.

(* ------------------------------------------------------------------------ *)
(* non-vacuity: a two-layer HEVC NAL (LayerId/TID byte 0xA3) split into three
   FU packets across the 65535 -> 0 wrap, followed by a single NAL, arriving
   as 0,2,1,1,3,0 (swap, duplicate, stale repeat) with a window of 4 *)
Example c12_nonvacuous :
  let nals := [(90, [38; 163; 1; 2; 3; 4; 5; 6; 7; 8]); (180, [2; 1; 9])] in
  let s := unit_stream PHevc (seq_succ 65534) (map (video_unit Hevc 6 90000) nals) in
  let sched := [0; 2; 1; 1; 3; 0]%nat in
  Forall (fun tn => nal_ok Hevc (snd tn)) nals /\ rate_ok 90000 /\
  length (pkts s) = 4%nat /\ map u_seq (pkts s) = [65535; 0; 1; 2] /\
  sched_ok 4 (init_astate s) sched /\
  (forall i, (i < length (pkts s))%nat -> In i sched) /\
  feed_all PHevc 90000 4 (primed 65534) (map (fun i => upkt_arrival (pkt_at s i)) sched)
  = Ok (mk_cstate [] 0 true 2, [(1, [0; 0; 0; 10; 38; 163; 1; 2; 3; 4; 5; 6; 7; 8]); (2, [0; 0; 0; 3; 2; 1; 9])]).
Proof.
  cbv zeta. split.
  { repeat constructor; cbn; (discriminate || lia || reflexivity). }
  split; [unfold rate_ok; lia|]. split; [vm_compute; reflexivity|]. split; [vm_compute; reflexivity|].
  split.
  { vm_compute. repeat split; (lia || reflexivity). }
  split; [|vm_compute; reflexivity].
  intros i Hi. change (length _) with 4%nat in Hi.
  destruct i as [|[|[|[|i]]]]; cbn; try lia; tauto.
Qed.
