(* C12 - placeholder while the model is brought up; theorems follow. *)
From Lal Require Import Common.LBytes Rtp.RtpSeqArith.
Open Scope N_scope.
Theorem c12_seq_succ_example : seq_succ 65535 = 0.
Proof. reflexivity. Qed.
Print Assumptions c12_seq_succ_example.
