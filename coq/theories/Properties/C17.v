(* C17 - relay pull and push start, retry and stop exactly when their rules say.
   Only property statements here; each is closed by [exact] (or a two-line proof). *)
From Coq Require Import NArith ZArith List Bool.
From Lal Require Import Common.LBytes Common.Res Group.GroupAdmission Group.GroupAdmissionProofs Group.GroupRelayProofs
     Group.GroupInvariantProofs Group.GroupAttemptProofs Group.GroupApiRequest Group.GroupApiRequestProofs
     Rtmp.RtmpMsgPackerBuf Rtmp.RtmpMsgPackerBufProofs.
Import ListNotations.
Open Scope N_scope.

(* pullIfNeeded - the single place where a relay-pull attempt is created; it runs when a
   subscriber arrives, on start_relay_pull and on every tick - starts an attempt exactly when:
   the pull is enabled (statically or through the API), the stream has no input, no attempt is
   in flight, the retry budget is not exhausted (negative = forever, else attempts so far <=
   budget) and the auto-stop window is open (not configured, or a consumer is present, or not
   "immediately" and the last consumer was seen less than the configured time ago). *)
Theorem c17_attempt_iff : forall g now,
  snd (fst (pull_if_needed g now)) = true <->
  (enabled g = true /\ has_in g = false /\ pp_pulling (g_pp g) = false /\ budget_left g /\ in_window g now).
Proof. exact attempt_iff. Qed.
Print Assumptions c17_attempt_iff.

(* ... and nothing else creates attempts: an event that is not a subscriber arrival, an RTSP PLAY,
   start_relay_pull or a tick leaves the attempt counters and the number of attempts unchanged *)
Theorem c17_attempts_only_by_triggers : forall cf st e, is_trigger e = false ->
  st_cnt (fst (fst (step fixed_tree cf st e))) = st_cnt st /\
  length (st_atts (fst (fst (step fixed_tree cf st e)))) = length (st_atts st).
Proof. exact (attempts_only_by_triggers fixed_tree). Qed.
Print Assumptions c17_attempts_only_by_triggers.

(* an attempt can only start while none is in flight and none is attached; starting marks the
   group as pulling, so a second start is impossible until the first attempt has ended *)
Theorem c17_single_attempt_step : forall g now, snd (fst (pull_if_needed g now)) = true ->
  (pp_pulling (g_pp g) = false /\ has_pull g = false) /\
  pp_pulling (g_pp (fst (fst (pull_if_needed g now)))) = true /\
  snd (fst (pull_if_needed (fst (fst (pull_if_needed g now))) now)) = false.
Proof.
  intros g now H. split; [exact (start_requires_idle g now H)|].
  destruct (pull_if_needed_started g now H) as [Hp _]. split; [exact Hp|].
  destruct (snd (fst (pull_if_needed (fst (fst (pull_if_needed g now))) now))) eqn:E; [|reflexivity].
  apply start_requires_idle in E. destruct E as [E _]. rewrite Hp in E. discriminate E.
Qed.
Print Assumptions c17_single_attempt_step.

(* never two relay-pull attempts of one stream outstanding (in flight or attached) at the same
   time, after any history of events over any number of streams *)
Theorem c17_single_attempt : forall cf h s i j,
  let st := fst (run fixed_tree cf init_state h) in
  outstanding (vatt st s i) = true -> outstanding (vatt st s j) = true -> i = j.
Proof. exact single_attempt. Qed.
Print Assumptions c17_single_attempt.

(* and while an attempt is outstanding pullIfNeeded starts nothing, whoever calls it *)
Theorem c17_outstanding_blocks_start : forall cf h s i g now,
  let st := fst (run fixed_tree cf init_state h) in
  outstanding (vatt st s i) = true -> get_group st s = Some g -> snd (fst (pull_if_needed g now)) = false.
Proof. exact outstanding_blocks_start. Qed.
Print Assumptions c17_outstanding_blocks_start.

(* stop rule 1: a tick at which no consumer is present and the auto-stop window has elapsed does not
   start an attempt and disposes the attached pull session, whose end is reported in the same step *)
Theorem c17_stop_when_idle : forall s g now,
  has_sub g = false -> should_auto_stop g now = true ->
  let '(g', started, fin, ns) := tick_group fixed_tree s g now in
  has_pull g' = has_pull g && negb (is_some (stat_pull g)) /\ started = false /\ fin = stat_pull g /\
  (forall a, stat_pull g = Some a -> has_pull g' = false /\ ns = [note NPullStop (WAtt s a) g']).
Proof. intros s g now. exact (tick_auto_stop fixed_tree s g now eq_refl). Qed.
Print Assumptions c17_stop_when_idle.

(* stop rules 2 and 3 and the truthfulness of stop_relay_pull: 1001 iff the stream has no group;
   0 + session id iff a pull session was attached, which has then left the group; 1003 iff
   nothing was attached, and then nothing but the API enable flag changes *)
Theorem c17_stop_api_truthful : forall cf st s,
  let '(st', r, ns) := step fixed_tree cf st (EStopPull s) in
  match get_group st s with
  | None => r = RCode code_group_not_found RsNone None /\ st' = st /\ ns = []
  | Some g =>
    exists g', get_group st' s = Some g' /\ pp_api (g_pp g') = false /\
    match stat_pull g with
    | Some i => r = RCode 0 RsNone (Some (s, i)) /\ has_pull g' = false /\ ns = [note NPullStop (WAtt s i) g']
    | None => r = RCode code_session_not_found RsNone None /\ slots g' = slots g /\
              pp_pulling (g_pp g') = pp_pulling (g_pp g) /\ ns = []
    end
  end.
Proof. intros cf st s. exact (stop_pull_truthful fixed_tree cf st s eq_refl). Qed.
Print Assumptions c17_stop_api_truthful.

(* start_relay_pull answers 0 + the id of the attempt exactly when the call started one (and then
   the group is pulling); otherwise 2001 with the reason, and no attempt exists that did not before *)
Theorem c17_start_api_truthful : forall cf st s retry autostop rt,
  let g0 := g_set_pp (snd (get_or_create cf st s)) (pp_set_req (g_pp (snd (get_or_create cf st s))) rt retry autostop) in
  let '(st', r, ns) := step fixed_tree cf st (EStartPull s retry autostop rt) in
  ns = [] /\
  (if snd (fst (pull_if_needed g0 (st_now st)))
   then exists i, r = RCode 0 RsNone (Some (s, i)) /\ find_att s i (st_atts st') <> None /\
                  exists g', get_group st' s = Some g' /\ pp_pulling (g_pp g') = true
   else exists why, r = RCode code_start_pull_fail why None /\ why <> RsNone /\ st_atts st' = st_atts st /\
                    get_group st' s = Some g0).
Proof. exact (start_pull_truthful fixed_tree). Qed.
Print Assumptions c17_start_api_truthful.

(* F-14 repaired: a pull whose connection completes after stop_relay_pull disabled it (and no static
   pull is configured) is not attached: input slots and pipeline stay as they were *)
Theorem c17_stopped_pull_not_attached : forall cf st s i g,
  get_group st s = Some g -> pp_static (g_pp g) = false -> pp_api (g_pp g) = false ->
  opt_is (pp_rtmp (g_pp g)) i || opt_is (pp_rtsp (g_pp g)) i = false ->
  keeps s g (fst (fst (step fixed_tree cf st (EPullSucc s i)))).
Proof. intros cf st s i g. exact (stopped_pull_not_attached fixed_tree cf st s i g eq_refl eq_refl). Qed.
Print Assumptions c17_stopped_pull_not_attached.

(* F-14 on the pinned tree: after start, stop ("session not found"), the attempt still attaches *)
Theorem c17_stop_rules_refuted :
  exists cf h g, get_group (fst (run pinned_tree cf init_state h)) 1 = Some g /\
                 pp_api (g_pp g) = false /\ pp_static (g_pp g) = false /\ pp_rtmp (g_pp g) = Some 1.
Proof. exact stopped_pull_attaches_pinned. Qed.
Print Assumptions c17_stop_rules_refuted.

(* relay push: as soon as an RTMP / RTSP publisher is accepted every configured target has an
   attempt (one entry per target, none added or lost) *)
Theorem c17_push_one_per_target : forall g sl n p, (sl = PsRtmp \/ sl = PsRtsp) ->
  Forall (fun q => pu_pushing q = true) (g_push (add_in p (set_slot g sl n))) /\
  length (g_push (add_in p (set_slot g sl n))) = length (g_push g).
Proof. exact push_on_accept. Qed.
Print Assumptions c17_push_one_per_target.

(* a target whose attempt failed (not pushing) is retried at the next tick while the publisher stays *)
Theorem c17_push_retry : forall s g now, has_netpub g = true -> has_pull g = false ->
  Forall (fun q => pu_pushing q = true) (g_push (fst (fst (fst (tick_group fixed_tree s g now))))).
Proof. exact (push_retry_on_tick fixed_tree). Qed.
Print Assumptions c17_push_retry.

(* relay push ends with the publisher: in every reachable state an attached push session sits on a
   target marked pushing in a group whose input is an RTMP or RTSP publisher *)
Theorem c17_push_ends_with_pub : forall cf st, reachable fixed_tree cf st ->
  forall s g, get_group st s = Some g -> push_ok g.
Proof. intros cf st. exact (push_ends_with_pub fixed_tree cf st eq_refl). Qed.
Print Assumptions c17_push_ends_with_pub.

(* F-31 on the pinned tree: a push that connects after the publisher left stays attached *)
Theorem c17_push_ends_with_pub_refuted :
  exists cf h g, get_group (fst (run pinned_tree cf init_state h)) 1 = Some g /\
                 existsb pu_att (g_push g) = true /\ has_in g = false.
Proof. exact push_outlives_pub_pinned. Qed.
Print Assumptions c17_push_ends_with_pub_refuted.

(* the RTMP client's signalling (SetChunkSize, connect, createStream, publish | play on one
   MessagePacker) never indexes past its buffer and puts on the wire exactly the specified
   messages, whatever the lengths of app, tcUrl, flashVer and stream name with URL parameters *)
Theorem c17_url_params_any_length : forall app tc_url flash_ver stream is_push,
  pack_seq true app tc_url flash_ver stream is_push = Ok (spec_seq app tc_url flash_ver stream is_push).
Proof. exact pack_seq_fixed. Qed.
Print Assumptions c17_url_params_any_length.

(* F-15 on the pinned tree: 3000 bytes of URL parameters make Buffer.grow slice out of range *)
Theorem c17_url_params_refuted :
  exists app tc_url flash_ver stream, pack_seq false app tc_url flash_ver stream true = Panic site_grow_slice.
Proof. exact pack_seq_pinned_panics. Qed.
Print Assumptions c17_url_params_refuted.

(* The HTTP API in front of the rules (pkg/logic/http_api.go).  A numeric key of a request body that is
   present is used as given - 0 and -1 included -, one that is absent gets the documented default
   (pull_timeout_ms 10000, pull_retry_num 0 = never, auto_stop_pull_after_no_out_ms -1 = never,
   rtsp_mode 0 = tcp; start_rtp_pub timeout_ms 60000, port 0, is_tcp_flag 0), null is Go's zero value,
   anything else makes the request "param missing" and nothing is called. *)
Theorem c17_api_field_values : forall d z f v,
  jval d (JInt z) = Some z /\ jval d JAbsent = Some d /\ jval d JNull = Some 0%Z /\ jval d JBad = None /\
  (jval d f = Some v -> f = JAbsent /\ v = d \/ f = JNull /\ v = 0%Z \/ f = JInt v).
Proof. intros. repeat split. apply jval_default_only_if_absent. Qed.
Print Assumptions c17_api_field_values.

Theorem c17_api_start_pull_request : forall b r, pull_request b = Some r ->
  pb_url b = true /\
  jval 10000 (pb_timeout b) = Some (pr_timeout r) /\ jval 0 (pb_retry b) = Some (pr_retry r) /\
  jval (-1) (pb_autostop b) = Some (pr_autostop r) /\ jval 0 (pb_mode b) = Some (pr_mode r).
Proof. exact pull_request_fields. Qed.
Print Assumptions c17_api_start_pull_request.

Theorem c17_api_start_pull_passes : forall b,
  (exists r, pull_request b = Some r) <->
  pb_url b = true /\ pb_timeout b <> JBad /\ pb_retry b <> JBad /\ pb_autostop b <> JBad /\ pb_mode b <> JBad.
Proof. exact pull_request_passes. Qed.
Print Assumptions c17_api_start_pull_passes.

(* what reaches the relay rules is the event with exactly those values; a request that does not pass changes nothing *)
Theorem c17_api_start_pull_event : forall s b rt,
  api_event (AStartPull s b rt) =
  match pull_request b with Some r => Some (EStartPull s (pr_retry r) (pr_autostop r) rt) | None => None end.
Proof. exact api_start_pull_event. Qed.
Print Assumptions c17_api_start_pull_event.

Theorem c17_api_param_missing : forall fx cf st c, api_event c = None ->
  api_step fx cf st c = (st, RCode code_param_missing RsNone None, []).
Proof. exact api_param_missing_no_effect. Qed.
Print Assumptions c17_api_param_missing.

(* "stop immediately" given explicitly: the group gets 0, and with no consumer pullIfNeeded starts
   nothing and says why *)
Theorem c17_api_autostop_immediately : forall s nm t r m rt e g now,
  api_event (AStartPull s (mk_pull_body true nm t r (JInt 0) m) rt) = Some e ->
  (exists retry, e = EStartPull s retry 0 rt) /\
  (pp_autostop (g_pp g) = 0%Z -> has_out g = false ->
   snd (fst (pull_if_needed g now)) = false /\
   (has_in g = false -> pp_pulling (g_pp g) = false -> pp_api (g_pp g) = true -> snd (pull_if_needed g now) = RsAutoStop)).
Proof.
  intros s nm t r m rt e g now H. split; [exact (api_autostop_reaches_group s nm t r m rt 0%Z e H)|].
  exact (autostop_immediately_blocks_start g now).
Qed.
Print Assumptions c17_api_autostop_immediately.

(* stop_relay_pull, kick_session, start_rtp_pub *)
Theorem c17_api_other_requests : forall s t n,
  api_event (AStopPull (Some s)) = Some (EStopPull s) /\ api_event (AStopPull None) = None /\
  api_event (AKick (Some s) (Some t)) = Some (EKick s t) /\
  api_event (AKick None (Some t)) = None /\ api_event (AKick (Some s) None) = None /\ api_event (AKick None None) = None /\
  rtp_request JAbsent JAbsent JAbsent = Some (mk_rtp_req 0 60000 0) /\
  (forall p tm f, rtp_request (JInt p) (JInt tm) (JInt f) = Some (mk_rtp_req p tm f)) /\
  (forall p tm f l, api_event (AStartRtpPub (Some s) n p tm f l) =
                  match rtp_request p tm f with Some _ => Some (EPsPub s n l) | None => None end) /\
  (forall p tm f l, api_event (AStartRtpPub None n p tm f l) = None).
Proof. intros. repeat split. Qed.
Print Assumptions c17_api_other_requests.

(* non-vacuity: the start rule is satisfiable and refutable, the stop rule applies *)
Example c17_nonvacuous :
  let g := new_group (mk_config true 2) 1 0%Z in
  let g1 := g_set_subs g [(SkFlv, 7)] in
  snd (fst (pull_if_needed g1 0%Z)) = true /\ snd (fst (pull_if_needed g 0%Z)) = false /\
  should_auto_stop g 0%Z = true.
Proof. vm_compute. repeat split. Qed.
