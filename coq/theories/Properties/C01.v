(* C01 - live relay delivers the publisher's messages intact to RTMP / FLV
   consumers.  Statements only.  Consumers receive labels; LC i / LCW i / LT i
   stand for the serialised bytes of published message number i (RTMP chunks
   without / with @setDataFrame, FLV tag), see Group/GroupFanout.v. *)
From Lal Require Import Common.LBytes Rtmp.RtmpChunk Rtmp.RtmpComposer Rtmp.RtmpRoundtripProofs Flv.FlvTag.
From Lal Require Import Group.GroupMsg Group.GroupGopCache Group.GroupFanout Group.GroupFanoutProofs
  Group.GroupFanoutMergeProofs Group.GroupFanoutBytes Group.GroupFanoutBytesProofs.
Open Scope N_scope.

(* Contiguity.  Take any configuration, any history h0 after which consumer
   [id] (RTMP subscriber, HTTP-FLV / WebSocket-FLV subscriber or relay-push
   session) is admitted, and any continuation h in which it is not detached
   (no leave of [id]; for a push session no end of the input).  Then what it
   has received - counting what the merge writer still holds for it - is what
   it had before followed by exactly one unit per non-empty message published
   in h: same order, nothing duplicated, nothing skipped, zero-length messages
   not forwarded, metadata with @setDataFrame only towards push targets
   ([unit_of]), and it is still admitted, so the run goes on. *)
Theorem c01_contiguous : forall cf h0 h id c,
  find_sub (run cf h0) id = Some c -> admitted c = true -> c_kind c <> KTs -> c_kind c <> KRtsp ->
  attached id (c_kind c) h ->
  exists c', find_sub (run cf (h0 ++ h)) id = Some c' /\ c_kind c' = c_kind c /\ admitted c' = true /\
             vout (run cf (h0 ++ h)) c' = vout (run cf h0) c ++ units (c_kind c) (g_next (run cf h0)) h.
Proof. exact contiguous_run. Qed.
Print Assumptions c01_contiguous.

(* One step, any event: an admitted consumer that the event does not detach
   gets exactly the unit of the published message (nothing for other events). *)
Theorem c01_step : forall cf s e id c,
  merge_inv cf s ->
  find_sub s id = Some c -> admitted c = true -> c_kind c <> KTs -> c_kind c <> KRtsp -> stays e c ->
  exists c', find_sub (step cf s e) id = Some c' /\ c_kind c' = c_kind c /\ admitted c' = true /\
             vout (step cf s e) c' = vout s c ++ live_units s e (c_kind c).
Proof. exact step_admitted. Qed.
Print Assumptions c01_step.

(* Delivery trails the publisher only by the merge writer's buffer, which is
   empty when merge-write is off. *)
Theorem c01_trailing : forall cf h c,
  let s := run cf h in
  vout s c = c_out c ++ pending_for s c /\
  (pending_for s c = [] \/ (pending_for s c = g_merge s /\ c_kind c = KRtmp)) /\
  (cf_merge cf = 0 -> pending_for s c = []).
Proof.
  intros cf h c s. split; [reflexivity|]. split.
  - unfold pending_for, is_rtmp. destruct (c_kind c); cbn; auto. destruct (admitted c); auto.
  - intro H0. unfold pending_for. subst s. rewrite (merge_inv_run cf h H0). now destruct (is_rtmp c && admitted c).
Qed.
Print Assumptions c01_trailing.

(* ... and the bytes it holds back are fewer than the configured merge-write
   size: the writer's counter equals the total chunk size of the pending units
   (each the unit of a message published so far) and stays below the limit. *)
Theorem c01_merge_bound : forall cf h,
  let s := run cf h in
  g_merge_size s = total_size cf (pubs h) (g_merge s) /\
  Forall (fun l => exists i, l = LC i /\ (i < length (pubs h))%nat) (g_merge s) /\
  (0 < cf_merge cf -> g_merge_size s < cf_merge cf).
Proof. intros cf h. destruct (merge_ok_run cf h) as (_ & H2 & H3 & H4). cbv zeta. auto. Qed.
Print Assumptions c01_merge_bound.

(* The order in which the subscriber set is iterated (a Go map) does not
   matter: permuting it commutes with every step. *)
Theorem c01_order_independent : forall cf s s' e,
  same_but_subs s s' -> same_but_subs (step cf s e) (step cf s' e).
Proof. exact step_order_independent. Qed.
Print Assumptions c01_order_independent.

(* The admission loop of broadcastByRtmpMsg has an order-free meaning: every
   admitted session gets the pending merge buffer iff some session is admitted
   in this round; a session being admitted gets its prologue and never the
   buffer. *)
Theorem c01_admission_loop : forall cache key subs merge,
  rtmp_loop cache key subs merge =
  (map (fin cache key [] (if anytrig cache key subs then merge else [])) subs,
   if anytrig cache key subs then [] else merge).
Proof. exact rtmp_loop_spec. Qed.
Print Assumptions c01_admission_loop.

(* Byte level.  The unit a label stands for is what lal's own conversion
   produces ([chunk_bytes] = MakeDefaultRtmpHeader + Message2Chunks at chunk
   size 4096 of the C08 model, [tag_bytes] = PackHttpflvTag of the C11 model,
   metadata through the C18 model).  Decoding the concatenated units of ANY
   sequence of published messages with lal's chunk reader returns messages with
   the same type, the same absolute millisecond timestamp and byte-identical
   payloads (metadata: @setDataFrame stripped / ensured), in the same order -
   timestamps >= 0xFFFFFF and payloads of any length < 2^24 included. *)
Theorem c01_decodes_rtmp : forall with_sdf ms st,
  Forall (pub_ok with_sdf) ms -> cs_chunk st = local_chunk_size -> all_idle st ->
  exists st' out,
    run_composer st (units_bytes with_sdf ms) = (st', out, err_eof) /\
    map m_hdr out = map (fun m => default_header m (lenN (conv_payload with_sdf m))) ms /\
    map m_payload out = map (conv_payload with_sdf) ms /\ all_idle st'.
Proof. exact rtmp_units_decode. Qed.
Print Assumptions c01_decodes_rtmp.

Theorem c01_decodes_flv : forall ms,
  Forall (pub_ok false) ms ->
  spec_parse_tags (length ms) (concat (map tag_bytes ms))
  = Some (map (fun m => (rm_type m, rm_ts m, conv_payload false m)) ms).
Proof. exact flv_units_decode. Qed.
Print Assumptions c01_decodes_flv.

(* non-vacuity: a concrete history with merge-write on in which an RTMP
   subscriber (id 1), an HTTP-FLV subscriber (id 2) and a push session (id 3)
   are admitted and then receive two more messages *)
Definition ex_cfg : cfg :=
  {| cf_rtmp_enable := true; cf_rtmp_gop := 1; cf_rtmp_max := 0; cf_flv_enable := true; cf_flv_gop := 1; cf_flv_max := 0;
     cf_ts_gop := 0; cf_ts_max := 0; cf_merge := 100; cf_record_flv := true; cf_chunk := 4096; cf_ext_at_limit := false;
     cf_rtsp_wait := true; cf_hook := true; cf_record_ts := true |}.
Definition ex_msg (b0 b1 : N) (ts : N) : rmsg := {| rm_type := 9; rm_ts := ts; rm_payload := [b0; b1; 0; 0; 0; 1] |}.
Definition ex_h0 : list ev :=
  [EvInStart; EvJoin KRtmp 1; EvJoin KFlv 2; EvJoin KPush 3; EvPublish (ex_msg 23 0 0); EvPublish (ex_msg 23 1 0)].
Definition ex_h : list ev := [EvPublish (ex_msg 39 1 40); EvPublish {| rm_type := 8; rm_ts := 41; rm_payload := [] |}; EvPublish (ex_msg 39 1 80)].
Example c01_nonvacuous :
  (exists c, find_sub (run ex_cfg ex_h0) 1 = Some c /\ admitted c = true /\ c_kind c = KRtmp /\ attached 1 KRtmp ex_h) /\
  (exists c, find_sub (run ex_cfg ex_h0) 2 = Some c /\ admitted c = true /\ c_kind c = KFlv) /\
  (exists c, find_sub (run ex_cfg ex_h0) 3 = Some c /\ admitted c = true /\ c_kind c = KPush) /\
  units KRtmp (g_next (run ex_cfg ex_h0)) ex_h = [LC 2; LC 4].
Proof.
  repeat split; try (eexists; vm_compute; repeat split; reflexivity). 
Qed.
