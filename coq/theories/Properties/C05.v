(* C05 - No published media payload can terminate the server.

   Model (coq/theories/Media): Group.OnReadRtmpAvMsg -> [DummyAudioFilter.Feed] ->
   Group.broadcastByRtmpMsg with every output enabled: rtmp.ParseMetadata (C18),
   the empty-payload gate, Rtmp2MpegtsRemuxer.FeedRtmpMessage (probe filter Push /
   drain, onPop, feedVideo, feedAudio, FlushAudio, onFrame, timestamp filter,
   avc.IterateNaluAvcc, aac.NewAscContext), Rtmp2RtspRemuxer.FeedRtmpMsg (doAnalyze,
   remux, payload packers' packet counts), the rtmp / http-flv consumer loops
   (fresh prologue, wait-for-key-frame test), remux.GopCache.Feed, the codec
   statistics block (avc/hevc sequence-header record parsers and ParseSps: the
   C19 models), and every helper of base/t_rtmp.go with checked indexing.
   [m_grun fx c h] runs a history h (publishes and consumer joins) under output
   configuration c and returns (messages processed, Some site if a step panicked).
   [fixes_all] = the tree after the C05 fix commits, [fixes_pinned] = before. *)
From Lal Require Import Common.LBytes Common.Res Media.MediaMsgChecked Media.MediaMsgProofs Media.MediaDummyAudio Media.MediaDummyProofs
  Media.MediaTsRemux Media.MediaTsProofs Media.MediaRtspRemux Media.MediaRtspProofs Media.MediaBroadcast Media.MediaBroadcastProofs
  Media.MediaCodecGlue Media.MediaGlueProofs Media.MediaCostProofs Media.MediaAmortProofs.
From Lal Require Import Codec.CodecBits Codec.CodecSpsAvc Codec.CodecSpsHevc Codec.CodecPadProofs.
Open Scope N_scope.

(* [well_framed m]: 32-bit timestamp (type and payload are arbitrary); defined in Media/MediaGlueProofs.v *)

(* --- the property -------------------------------------------------------------------------- *)

(* every output combination c (either value of RtspRemuxerAddSpsPps2KeyFrameFlag), every
   history of publishes (any type, payload bytes, length, 32-bit timestamp) and consumer joins:
   no step panics and no loop of the model runs out of fuel *)
Theorem c05_no_panic : forall (c : grp_cfg) (history : list gev),
  (forall m, In (GPub m) history -> well_framed m) ->
  snd (m_grun fixes_all c history) = None.
Proof. exact no_panic_main. Qed.
Print Assumptions c05_no_panic.

(* --- bounded work ------------------------------------------------------------------------------ *)
(* [m_gtotal fx c h] = total work of history h, every step counted as
     (8 + rtmp and http-flv consumers attached) * (1 + payload length)            the message itself
     + (1 + length) of every message leaving the mpegts probe queue / the rtsp analysis cache at that step
   and, with dummy audio on, the same for every message the filter pops (queued messages, generated silence).
   Amortised over the history it is linear in what was published, whatever the timestamps:
   J = number of rtmp / http-flv joins, 4293 = 477 silent frames of 9 = 10 s of silence per message at most *)
Theorem c05_bounded_work : forall (c : grp_cfg) (history : list gev),
  (forall m, In (GPub m) history -> well_framed m) ->
  exists total, m_gtotal fixes_all c history = Some total /\
                total <= (11 + joins_count history) * pubs_cost history
                         + (10 + joins_count history) * 4293 * pubs_count history.
Proof. exact bounded_work_main. Qed.
Print Assumptions c05_bounded_work.

(* per step, for every state (not only reachable ones), configuration and codec functions: a message costs
   at most fan * (1 + length) plus the bytes still held in the two probe queues; the timestamp does not occur *)
Theorem c05_bounded_step :
  (forall fx cf rf sf acfg c g m g' k,
      broadcast fx cf rf sf acfg c g m = Ok (g', k) -> k <= fan g * msg_cost m + pending g) /\
  (forall wait st m, Forall well_framed (du_queue st) -> well_framed m ->
      exists outs st', dummy_feed fixes_all wait st m = Ok (outs, st') /\ lenN outs <= 478 * (lenN (du_queue st) + 1)).
Proof.
  split.
  - exact broadcast_cost.
  - intros wait st m Hq Hm. exact (dummy_outputs_bounded fixes_all wait st m eq_refl eq_refl eq_refl Hq Hm).
Qed.
Print Assumptions c05_bounded_step.

(* --- refutations: the pinned tree, site by site --------------------------------------------------- *)
Definition cfg_all : grp_cfg := mk_gcfg true true true true true true None false true.
Definition cfg_all_dummy : grp_cfg := mk_gcfg true true true true true true (Some 0) false true.
Definition vmsg (ts : N) (p : bytes) : gev := GPub (mk_mmsg t_video ts p).
Definition amsg (ts : N) (p : bytes) : gev := GPub (mk_mmsg t_audio ts p).

(* all fixes but one *)
Definition fx_but (k : N) : fixes :=
  mk_fixes (negb (k =? 1)) (negb (k =? 2)) (negb (k =? 3)) (negb (k =? 4)) (negb (k =? 5)) (negb (k =? 6))
           (negb (k =? 7)) (negb (k =? 8)) (negb (k =? 9)) (negb (k =? 10)) (negb (k =? 11)) (negb (k =? 12)) (negb (k =? 13)).

(* F-21: one-byte payloads and short enhanced-rtmp headers; every fix is needed *)
Theorem c05_pinned_refuted :
  (* 17 : IsAvcKeySeqHeader *)
  snd (m_grun (fx_but 1) cfg_all [vmsg 0 [23]]) = Some s_avcsh /\
  (* 1c : IsHevcKeySeqHeader *)
  snd (m_grun (fx_but 2) cfg_all [vmsg 0 [28]]) = Some s_hevcsh /\
  (* 17 00 (video codec known), an rtmp consumer joins and waits for a key frame, then 17 : IsAvcKeyNalu *)
  snd (m_grun (fx_but 3) cfg_all [vmsg 0 [23; 0]; GJoinRtmp; vmsg 40 [23]]) = Some s_avckn /\
  (* the same with an http-flv consumer and 1c : IsHevcKeyNalu *)
  snd (m_grun (fx_but 4) cfg_all [vmsg 0 [23; 0]; GJoinFlv; vmsg 40 [28]]) = Some s_hevckn /\
  (* af : IsAacSeqHeader *)
  snd (m_grun (fx_but 5) cfg_all [amsg 0 [175]]) = Some s_aacsh /\
  (* 90 : VideoCodecId in the mpegts probe filter *)
  snd (m_grun (fx_but 6) cfg_all [vmsg 0 [144]]) = Some s_vcid /\
  (* a1 'hvc1' 00 after the probe filter drained: feedVideo slices Payload[8:] *)
  snd (m_grun (fx_but 7) cfg_all [amsg 0 [175; 1; 0]; vmsg 0 [161; 104; 118; 99; 49; 0]]) = Some s_ts_feedvideo /\
  (* enhanced sequence header 90 'hvc1' : parseVpsSpsPpsFromRecord indexes payload[27] *)
  snd (m_grun (fx_but 9) cfg_all [vmsg 0 [144; 104; 118; 99; 49]]) = Some CodecHevcSeqHeader.site_hevc_record_index.
Proof. repeat split; vm_compute; reflexivity. Qed.
Print Assumptions c05_pinned_refuted.

Definition avc_sh_sample : bytes :=
  [23; 0; 0; 0; 0; 1; 100; 0; 31; 255; 225; 0; 10; 39; 100; 0; 31; 172; 86; 128; 180; 10; 25; 1; 0; 4; 40; 238; 60; 176].

(* the rtsp remuxer after its analysis (avc sequence header + aac sequence header), then a1 'hvc1' 00 *)
Theorem c05_pinned_refuted_rtsp :
  snd (m_grun (fx_but 8) cfg_all [vmsg 0 avc_sh_sample; amsg 0 [175; 0; 18; 16]; vmsg 40 [161; 104; 118; 99; 49; 0]]) = Some s_rtsp_remux.
Proof. vm_compute; reflexivity. Qed.
Print Assumptions c05_pinned_refuted_rtsp.

(* hevc sequence header 1c 00 00 00 00 + 24 bytes + start code at the very end: the Annex-B fallback indexes nal[0] of an empty nal *)
Theorem c05_pinned_refuted_annexb :
  snd (m_grun (fx_but 9) cfg_all [vmsg 0 ([28; 0; 0; 0; 0] ++ repeat 7 24 ++ [0; 0; 0; 1])]) = Some CodecHevcSeqHeader.site_hevc_annexb_nal0.
Proof. vm_compute; reflexivity. Qed.
Print Assumptions c05_pinned_refuted_annexb.

(* bounded work on the pinned tree: dummy audio on, a video frame, then one video message stamped
   0xFFFFFFFF: more than 2000 silent frames are broadcast for that single 6-byte message (2*10^8 in Go) *)
Theorem c05_bounded_work_pinned_refuted :
  snd (m_grun (fx_but 10) cfg_all_dummy [vmsg 0 [39; 1; 0; 0; 0; 0]; vmsg 0 [39; 1; 0; 0; 0; 0]; vmsg 4294967295 [39; 1; 0; 0; 0; 0]])
  = Some (1000 + err_out_of_fuel).
Proof. vm_compute; reflexivity. Qed.
Print Assumptions c05_bounded_work_pinned_refuted.

(* F-13 (naza nazabits: zero-width read at the end of the buffer), before the lal-side repair: an avc sequence
   header whose SPS 67 42 00 1e ff ends with the 1 bit of a ue(v) code word panics in the statistics block,
   whatever outputs are enabled; with the repair (the reader gets the RBSP copy plus one zero byte) it is processed *)
Theorem c05_f13_pinned_refuted :
  let h := [vmsg 0 [23; 0; 0; 0; 0; 1; 100; 0; 31; 255; 225; 0; 5; 103; 66; 0; 30; 255; 1; 0; 4; 40; 238; 60; 176]] in
  snd (m_grun (fx_but 11) cfg_all h) = Some site_nazabits_zero_read /\ m_grun fixes_all cfg_all h = (1, None).
Proof. cbv zeta. split; vm_compute; reflexivity. Qed.
Print Assumptions c05_f13_pinned_refuted.

(* the reader invariant behind it: a buffer that ends with a zero byte keeps "the last remaining bit is 0", so
   the 1 bit that ends a code word always has a bit - hence a byte of core[] - behind it; avc.ParseSps and
   hevc.ParseSps then return a value or an ordinary error on EVERY byte string (no panic, no fuel exhaustion) *)
Theorem c05_parse_sps_total : forall sps ctx,
  ((exists c, CodecSpsAvc.parse_sps_avc sps = Ok c) \/ (exists e, CodecSpsAvc.parse_sps_avc sps = Err e /\ e <> err_out_of_fuel)) /\
  ((exists c, CodecSpsHevc.hevc_parse_sps sps ctx = Ok c) \/ (exists e, CodecSpsHevc.hevc_parse_sps sps ctx = Err e /\ e <> err_out_of_fuel)).
Proof. intros sps ctx. split; [exact (parse_sps_avc_total sps)|exact (hevc_parse_sps_total sps ctx)]. Qed.
Print Assumptions c05_parse_sps_total.

(* F-45 from the publish side (before C13's fix of IsAvcBoundary): out_wait_key_frame_flag, an avc stream whose SDP is
   known, an rtsp consumer in PLAY waiting for a GOP start, then an inter frame carrying a one-byte nal of type 28:
   Group.feedRtpPacket -> IsAvcBoundary reads b[1] of the one-byte RTP body; processed after the fix *)
Theorem c05_pinned_refuted_rtsp_boundary :
  let h := [vmsg 0 avc_sh_sample; amsg 0 [175; 0; 18; 16]; GJoinRtsp; vmsg 40 [39; 1; 0; 0; 0; 0; 0; 0; 1; 28]] in
  snd (m_grun (fx_but 12) cfg_all h) = Some s_avc_boundary /\ m_grun fixes_all cfg_all h = (3, None).
Proof. cbv zeta. split; vm_compute; reflexivity. Qed.
Print Assumptions c05_pinned_refuted_rtsp_boundary.

(* metadata: the broadcast path reads two onMetaData fields (audiocodecid, audiosamplerate: Rtmp2RtspRemuxer) by a Go type
   assertion on the AMF value, a sum type (number | boolean | string | pair list; null / undefined / absent = nil).
   With the comma-ok form lal uses, no value type panics, and the metadata branch returns for EVERY payload; the
   unchecked form `v.(float64)` panics for every summand but the number (string "44100": the witness) *)
Theorem c05_metadata_any_value_type :
  (forall v, exists r, assert_f64 true v = Ok r) /\
  (forall acfg s payload, exists s', rtsp_meta acfg s payload = Ok s') /\
  rtsp_meta_gen false RtmpAmf0.cfg_fixed rtsp_init
    ([2; 0; 10; 111; 110; 77; 101; 116; 97; 68; 97; 116; 97; 3; 0; 15] ++ k_audiosamplerate ++ [2; 0; 5; 52; 52; 49; 48; 48; 0; 0; 9])
  = Panic s_meta_assert.
Proof.
  split; [exact assert_f64_ok|]. split.
  - intros acfg s payload. destruct (rtsp_meta_ok acfg s payload) as [s' [H _]]. exists s'. exact H.
  - vm_compute. reflexivity.
Qed.
Print Assumptions c05_metadata_any_value_type.

(* F-46, before its repair: with remux.RtspRemuxerAddSpsPps2KeyFrameFlag = true a 6-byte key frame was sliced at
   Payload[9:]; after it (first nalu = payload[4:], guarded) the same history is processed.  c05_no_panic and
   c05_bounded_work above hold for BOTH values of the flag (gc_add is an unconstrained field of the configuration) *)
Theorem c05_add_flag_pinned_refuted :
  let c := mk_gcfg true true true true true true None true true in
  let h := [vmsg 0 avc_sh_sample; amsg 0 [175; 0; 18; 16]; vmsg 40 [23; 1; 0; 0; 0; 0]] in
  snd (m_grun (fx_but 13) c h) = Some s_rtsp_remux9 /\ m_grun fixes_all c h = (3, None).
Proof. cbv zeta. split; vm_compute; reflexivity. Qed.
Print Assumptions c05_add_flag_pinned_refuted.

(* --- non-vacuity ------------------------------------------------------------------------------------ *)
(* a real stream start (avc sequence header with a parsable SPS, aac sequence header, key frame, audio,
   consumers of both kinds joining) meets the hypotheses of c05_no_panic and is processed: 4 messages *)
Example c05_nonvacuous :
  let h := [vmsg 0 avc_sh_sample; GJoinRtmp; amsg 0 [175; 0; 18; 16]; GJoinFlv;
            vmsg 40 [23; 1; 0; 0; 0; 0; 0; 0; 4; 101; 136; 132; 10]; amsg 40 [175; 1; 33; 16; 4; 96; 140; 28]] in
  m_grun fixes_all cfg_all h = (4, None) /\
  (forall m, In (GPub m) h -> mm_ts m < 4294967296) /\
  is_ok (glue_avc_dims fixes_all [39; 100; 0; 31; 172; 86; 128; 180; 10; 25]).
Proof.
  cbv zeta. split; [vm_compute; reflexivity|]. split.
  - intros m [H|[H|[H|[H|[H|[H|[]]]]]]]; inversion H; subst; cbn; reflexivity.
  - vm_compute. eexists; reflexivity.
Qed.
