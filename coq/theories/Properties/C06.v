(* C06 - RTMP ingest reaches TS, HLS and RTSP consumers with the same frames.
   Only property statements here.  Models (tied to the working tree byte for
   byte by ./check C06): Remux/RemuxRtmp2Ts.v + RemuxTsFilter.v +
   RemuxTsTimestamp.v (remux.Rtmp2MpegtsRemuxer behind its probe filter, with
   an arbitrary observer that may call FlushAudio re-entrantly) and
   Remux/RemuxRtmp2Rtp.v (remux.Rtmp2RtspRemuxer).  They are compositions of the
   merged models: mpegts.Frame.Pack / PAT / PMT (C09), AVCC / Annex-B framing,
   sequence headers, ADTS, sdp.Pack (C19), the RTP packers (C12).
   Specification side: C09's reference demultiplexer (TsDemux), the Annex-B
   splitter of C19, the bit-level ADTS reader of Remux/RemuxSpec.v, the RFC
   6184 / 7798 / 3640 depacketisers of C12 (RtpSpec).

   THE END-TO-END STATEMENT (kept visible; proved in the parts named below):
     for every sequence of RTMP messages (well-formed: NAL units obeying H.264
     7.4.1, AVCC lengths tiling the payloads, AAC frames < 8185 bytes, time
     stamps not below the first one of their track), every consumer kind and
     every join point, a standards-conforming demultiplexer recovers from
       (a) the bytes an HTTP-TS subscriber receives,
       (b) the concatenated HLS segments,
       (c) the RTP packets an RTSP subscriber receives
     the published NAL units / audio frames of each track from the consumer's
     starting point on - same bytes, same order, each once - except access unit
     delimiters, parameter sets (re-inserted in front of key pictures) and, in
     TS, H.265 SEI; DTS/PTS in TS = 90 * (time stamp [+ composition offset]) up
     to one constant per track; RTP time stamps = time stamp at the clock rate
     within one tick; every ADTS header agrees with the AudioSpecificConfig.
   PROVED: per frame (c06_video_nals, c06_video_frame_ts, c06_video_message,
     c06_adts_frames, c06_rtp_video / _aac / _raw); over whole message sequences
     with ANY observer (c06_stream_chains, c06_ts_timestamps, c06_audio_frames,
     c06_patpmt_first, c06_ts_late_track_announced, c06_ts_stream,
     c06_observer_view, c06_rtsp_sdp_first) and as ONE formula per track
     (c06_ts_whole_stream: the demultiplexed stream = the frames of the video
     walk / of a partition of the AAC frames over the published messages);
     HLS inside the group at EVERY instant (c06_hls_group,
     c06_hls_no_loss_every_instant, c06_hls_c10_every_instant: C10's invariant
     and trace theorems lifted to the re-entrant wiring); JOIN POINTS ON BYTES through the fan-out model the harness runs
     (c06_httpts_any_join(_waiting): PAT/PMT in force, cached GOPs, then every
     frame - consecutive frames of the publication from a boundary on, which
     demultiplex per track to the remuxer's frames; c06_rtsp_any_join(_gate):
     the SDP in force, then the remuxer's packets from PLAY / from the first
     GOP-start packet on).
   WHAT REMAINS OPEN: (1) an RTSP consumer's packets are tied to the published
     units per message (c06_rtp_video / _aac / _raw) and to a tail of the
     remuxer's packet stream (c06_rtsp_any_join), not restated as one formula
     over the stream; (2) the RTSP analysis phase (which message triggers the
     SDP) is modelled and compared, the theorems speak about the steady state;
     a sequence header after it is the listed finding
     C06-rtsp-late-sequence-header; (3) C10's c10_listed_segments_stay is not
     lifted to the re-entrant wiring (the chain it needs is: RemuxHlsRunProofs). *)
From Coq Require Import List NArith ZArith Bool Lia.
From Lal Require Import Common.LBytes Common.Res Group.GroupMsg
  Codec.CodecBits Codec.CodecAac Codec.CodecAacProofs Codec.CodecAvcSeqHeader Codec.CodecNalFraming Codec.CodecNalFramingProofs
  Codec.CodecSdp
  Rtp.RtpSeqArith Rtp.RtpPacker Rtp.RtpPackerProofs Rtp.RtpSpec Rtp.RtpSpecProofs Rtp.RtpRoundtripProofs
  Mpegts.TsPack Mpegts.TsPsi Mpegts.TsDemux Mpegts.TsPackProofs Mpegts.TsPsiProofs Mpegts.TsStreamProofs
  Hls.HlsMuxer Hls.HlsConsistent Hls.HlsLossProofs
  Remux.RemuxTsTimestamp Remux.RemuxRtmp2Ts Remux.RemuxTsFilter Remux.RemuxRtmp2Rtp Remux.RemuxSpec
  Remux.RemuxVideoProofs Remux.RemuxAudioProofs Remux.RemuxStepProofs Remux.RemuxChainProofs Remux.RemuxBatchProofs
  Remux.RemuxRunProofs Remux.RemuxFrameProofs Remux.RemuxRtpProofs Remux.RemuxDemuxProofs
  Remux.RemuxWfProofs Remux.RemuxRunWfProofs Remux.RemuxGroup Remux.RemuxObsProofs Remux.RemuxGroupProofs.
Open Scope N_scope.

(* ======================================================================== *)
(* (1) video, one frame.  [plan_loop] is the NAL-list view of the loop of
   feedVideo (units with the zero-byte count of their start code);
   [video_loop] the byte-level loop of the model; [cl] the cached parameter
   sets (Annex-B joined in the remuxer state).  For published units obeying
   H.264 7.4.1 [nal_wf]: the Annex-B splitter applied to the buffer returns
   the access unit delimiter followed by units each of which is a published
   payload unit or a parameter set, and dropping the parameter sets leaves
   exactly the published units without AUD / parameter sets / H.265 SEI. *)
Theorem c06_video_nals : forall c nals cl cl' plan,
  Forall nal_wf nals -> cache_has nal_wf cl -> cache_ok c cl ->
  plan_loop c nals cl [] [] [] false false [] = (cl', Some plan) -> plan <> [] ->
  video_loop c nals (omap annexb_join4 cl) [] [] [] false false []
    = (omap annexb_join4 cl', Some (join_annexb plan))
  /\ iterate_nalu_annexb (join_annexb plan) = (map snd plan, None)
  /\ exists r, map snd plan = snd (aud_unit c) :: r
       /\ filter (ts_payload_unit c) r = filter (ts_payload_unit c) nals
       /\ Forall (fun u => ts_payload_unit c u = true \/ is_param_unit c u = true) r
       /\ cache_has nal_wf cl' /\ cache_ok c cl'.
Proof. exact video_nals. Qed.
Print Assumptions c06_video_nals.

(* without in-band parameter sets the plan has a closed form: AUD, then the
   payload units with the cached parameter sets in front of every key unit
   that does not directly continue a run of key units *)
Theorem c06_video_nals_closed_form : forall c ps nals,
  Forall (fun u => is_param_unit c u = false) nals ->
  plan_loop c nals (Some ps) [] [] [] false false []
  = (Some ps, Some (match filter (ts_payload_unit c) nals with
                    | [] => []
                    | l => aud_unit c :: ins_params c ps false l
                    end)).
Proof. intros c ps nals H. exact (plan_no_inband c ps nals [] [] [] false false [] H). Qed.
Print Assumptions c06_video_nals_closed_form.

(* ... through mpegts.Frame.Pack and the reference demultiplexer (C09): for a
   frame whose buffer is that plan, the demultiplexed PES payload splits into
   the plan's units; PTS / DTS are the frame's plus lal's 63000-tick lead *)
Theorem c06_video_frame_ts : forall c nals cl cl' plan (f : frame),
  Forall nal_wf nals -> cache_has nal_wf cl -> cache_ok c cl ->
  plan_loop c nals cl [] [] [] false false [] = (cl', Some plan) -> plan <> [] ->
  f_raw f = join_annexb plan -> bytes_ok (f_raw f) ->
  f_pts f < 18446744073709551616 -> f_dts f < 18446744073709551616 -> f_cc f < 256 ->
  f_pid f = pid_video -> f_sid f = sid_video ->
  exists u, demux_unit (fst (pack f)) = Some u
    /\ iterate_nalu_annexb (au_payload u) = (map snd plan, None)
    /\ au_pts u = Some ((f_pts f + 63000) mod 8589934592)
    /\ au_dts u = (if f_dts f =? f_pts f then None else Some ((f_dts f + 63000) mod 8589934592))
    /\ au_rai u = f_key f /\ au_pid u = pid_video.
Proof.
  intros c nals cl cl' plan f Hw Hcw Hcp Hplan Hne Hraw Hok Hpts Hdts Hcc Hpid Hsid.
  destruct (video_nals c nals cl cl' plan Hw Hcw Hcp Hplan Hne) as (_ & Hsplit & _).
  destruct (pack_wellformed_lossless f) as (_ & Hd).
  { unfold frame_wf. rewrite Hpid, Hsid. repeat split; try assumption; try reflexivity.
    rewrite Hraw. intros E. pose proof (join_annexb_nonempty plan Hne) as Hn. rewrite E in Hn. discriminate. }
  eexists. split; [exact Hd|]. cbn [expected_unit au_payload au_pts au_dts au_rai au_pid].
  rewrite Hraw. repeat split; try assumption.
Qed.
Print Assumptions c06_video_frame_ts.

(* ... and at message level: a NAL-unit message of codec c whose AVCC body
   splits into [nals] yields exactly one video frame with that buffer, DTS =
   90 * time stamp (before the time stamp filter), the message's composition
   offset and key flag; the cache afterwards is the join of [cl'] *)
Theorem c06_video_message : forall d s m c nals cl cl' plan s' evs,
  (lenN (rm_payload m) <=? 5) = false ->
  video_codec_id m = (match c with Avc => codec_id_avc | Hevc => codec_id_hevc end) ->
  is_avc_key_seq_header m = false -> is_hevc_key_seq_header m = false -> enhanced_too_short m = false ->
  iterate_nalu_avcc (if (video_codec_id m =? codec_id_hevc) && is_enhanced_hevc_nalu m
                     then skipn (enhanced_nalu_index m) (rm_payload m) else skipn 5 (rm_payload m)) = (nals, None) ->
  r_spspps s = omap annexb_join4 cl ->
  plan_loop c nals cl [] [] [] false false [] = (cl', Some plan) -> plan <> [] ->
  feed_video_pure d s m = (s', evs) ->
  r_spspps s' = omap annexb_join4 cl'
  /\ exists ev, In ev evs /\ te_nested ev = false
       /\ f_raw (te_frame ev) = join_annexb plan
       /\ te_dts0 ev = u64 (rm_ts m * 90) /\ te_cts ev = video_cts m
       /\ f_key (te_frame ev) = is_video_key_nalu m
       /\ f_pid (te_frame ev) = pid_video /\ f_sid (te_frame ev) = sid_video
       /\ pack (te_frame ev) = (te_packets ev, te_cc ev).
Proof. exact feed_video_frame. Qed.
Print Assumptions c06_video_message.

(* the AVCC body of a message built from non-empty units below 2^32 bytes splits into the units (C19) *)
Theorem c06_avcc_body : forall nals, nals <> [] -> Forall avcc_ok nals ->
  iterate_nalu_avcc (join_nalu_avcc nals) = (nals, None).
Proof. exact iterate_avcc_join. Qed.
Print Assumptions c06_avcc_body.

(* ======================================================================== *)
(* (2) audio.  The ADTS reader written from ISO 14496-3 1.A.2, applied to a
   buffer of frames each behind the header PackAdtsHeader wrote, returns the
   frames, each once, in order; every header: syncword, layer 0, no CRC, one
   raw data block, aac_frame_length = 7 + length ... *)
Theorem c06_adts_frames : forall (fs : list (asc_ctx * bytes)) fuel,
  Forall frame_fits fs -> (length fs <= fuel)%nat ->
  split_adts fuel (concat (map adts_frame fs))
  = Some (map (fun cf => (adts_hdr_of (fst cf) (lenN (snd cf)), snd cf)) fs).
Proof. exact split_adts_frames. Qed.
Print Assumptions c06_adts_frames.

(* ... and agrees with the AudioSpecificConfig the context was read from:
   MPEG-4, profile = object type - 1, same sampling index and channel
   configuration (object types 1..4, channel configurations 0..7: what ADTS carries) *)
Theorem c06_adts_matches_asc : forall asc c n,
  asc_unpack asc = Ok c -> 1 <= asc_aot c <= 4 -> asc_chan c < 8 ->
  adts_matches_asc (adts_hdr_of c n) asc.
Proof. exact adts_hdr_matches. Qed.
Print Assumptions c06_adts_matches_asc.

(* whole streams, ANY observer, any mix of messages / FlushAudio calls, Dispose
   at the end: the audio PES payloads, in order, are a partition [groups] of the
   published AAC frames (each behind its ADTS header: [render]); no frame is
   lost, repeated or split across PES packets, including the last batch; every
   PES is stamped (before the time stamp filter) 90 * time of its first frame.
   [aac_walk] is the list of published AAC frames with the context of the
   sequence header in force; [aac_only]: no Opus messages, payloads < 2^32. *)
Theorem c06_audio_frames : forall O (dec : O -> tsev -> bool) (app : O -> tsev -> list tsev -> O) (pp : O -> bytes -> O)
    acts o x' o' outs,
  run_actions O dec app pp remuxer_init o (acts ++ [ADispose]) = (x', o', outs) ->
  fq_done (x_filter x') = true -> Forall aac_only (msgs_of acts) ->
  exists groups,
    snd (aac_walk (msgs_of acts)) = concat groups
    /\ map (fun e => f_raw (te_frame e)) (audio_evs (ts_events outs)) = map render groups
    /\ map te_dts0 (audio_evs (ts_events outs)) = map group_dts groups
    /\ Forall (fun x => x <> []) groups.
Proof. exact run_audio_complete. Qed.
Print Assumptions c06_audio_frames.

(* one PES payload read back by the ADTS reader: the frames of its group *)
Theorem c06_audio_pes : forall g : list aframe,
  Forall (fun x => lenN (af_raw x) + 7 < 8192) g ->
  split_adts (length g) (render g)
  = Some (map (fun x => (adts_hdr_of (af_ctx x) (lenN (af_raw x)), af_raw x)) g).
Proof.
  intros g Hg.
  pose proof (split_adts_frames (map (fun x => (af_ctx x, af_raw x)) g) (length g)) as H.
  rewrite map_map in H. unfold render, render1. unfold adts_frame in H. cbn [fst snd] in H.
  rewrite H; [now rewrite map_map| |now rewrite map_length].
  apply Forall_map. exact Hg.
Qed.
Print Assumptions c06_audio_pes.

(* ======================================================================== *)
(* (3) whole streams, ANY observer: per track the emitted frames form a chain
   (counter of a frame = counter left by the previous frame of the track,
   packets = Frame.Pack of the frame, DTS = published DTS rebased on the base
   the filter held, PTS = DTS + 90 * CTS), PAT/PMT first, and the probe filter
   hands every message to the remuxer core, in order ([popped]). *)
Theorem c06_stream_chains : forall O (dec : O -> tsev -> bool) (app : O -> tsev -> list tsev -> O) (pp : O -> bytes -> O)
    acts o x' o' outs,
  run_actions O dec app pp remuxer_init o acts = (x', o', outs) ->
  chain max_u64 0 (track_evs true (ts_events outs))
  /\ chain max_u64 0 (track_evs false (ts_events outs))
  /\ Forall ids_ok (ts_events outs)
  /\ (Forall aac_only (msgs_of acts) -> batched (x_core x') (ts_events outs) (popped x' acts)).
Proof.
  intros O dec app pp acts o x' o' outs H.
  destruct (run_invariant O dec app pp acts o x' o' outs H) as (((Ha & _) & (Hv & _) & Hi) & Hb & _).
  repeat split; assumption.
Qed.
Print Assumptions c06_stream_chains.

(* time stamps: with e0 the first frame of a track, EVERY frame e of the track
   has DTS = dts0(e) - dts0(e0) on the 33-bit clock of MPEG-TS - one constant
   per track, also for a time stamp below the first one (clock restart of the
   publisher, wrap of the 32-bit RTMP time stamp) - plainly dts0(e) - dts0(e0)
   when dts0(e) >= dts0(e0), and PTS = DTS + 90 * CTS (uint64); dts0 = 90 * RTMP
   time stamp (c06_video_message, c06_audio_frames).  C09 adds 63000 modulo 2^33. *)
Theorem c06_ts_timestamps : forall O (dec : O -> tsev -> bool) (app : O -> tsev -> list tsev -> O) (pp : O -> bytes -> O)
    acts o x' o' outs audio e0 rest e,
  run_actions O dec app pp remuxer_init o acts = (x', o', outs) ->
  track_evs audio (ts_events outs) = e0 :: rest -> te_dts0 e0 <> max_u64 -> In e (e0 :: rest) ->
  (f_dts (te_frame e) + te_dts0 e0) mod 8589934592 = te_dts0 e mod 8589934592
  /\ (te_dts0 e0 <= te_dts0 e -> f_dts (te_frame e) = te_dts0 e - te_dts0 e0)
  /\ f_pts (te_frame e) = u64 (f_dts (te_frame e) + 90 * te_cts e).
Proof.
  intros O dec app pp acts o x' o' outs audio e0 rest e H Ht Hb Hin.
  destruct (run_invariant O dec app pp acts o x' o' outs H) as (Hc & _).
  destruct (track_times audio _ _ e0 rest e Hc Ht Hb Hin) as (Hd & Hp). rewrite Hd.
  split; [apply rebase_dts_mod|]. split; [apply rebase_dts_ge|]. now rewrite <- Hd.
Qed.
Print Assumptions c06_ts_timestamps.

(* F-23 (fixed in lal): the pinned filter left a time stamp below the base as it
   was: base 90000 (1000 ms), a frame at 45000 (500 ms) stayed 45000 where the
   clock constant asks for 45000 - 90000 mod 2^33 *)
Theorem c06_ts_timestamps_below_base_pinned_refuted :
  exists b d, snd (rebase_pinned b d) = d /\ d < b
    /\ (snd (rebase_pinned b d) + b) mod 8589934592 <> d mod 8589934592.
Proof. exact rebase_pinned_refuted. Qed.
Print Assumptions c06_ts_timestamps_below_base_pinned_refuted.

(* sample messages used by the examples below *)
Definition f23_vsh : rmsg := mk_rmsg 9 1000 [23;0;0;0;0; 1;100;0;31;255; 225;0;4; 103;100;0;31; 1;0;2; 104;238].
Definition f23_ash : rmsg := mk_rmsg 8 1000 [175; 0; 18; 16].

(* PAT / PMT first: the output of any run is empty (the probe is still
   collecting) or starts with PackPat ++ PackPmt(v, a) - which C09 proved to be
   two conforming sections announcing exactly the codecs v, a.  What follows
   are frames and, when a track starts after the probe window, a new version of
   the PMT that announces it (lal fix of C06-ts-late-track-not-in-pmt): again
   PackPat followed by a conforming PMT section, for every codec pair and
   version *)
Theorem c06_patpmt_first : forall O (dec : O -> tsev -> bool) (app : O -> tsev -> list tsev -> O) (pp : O -> bytes -> O)
    acts o x' o' outs,
  run_actions O dec app pp remuxer_init o acts = (x', o', outs) ->
  outs = [] \/
  exists v a rest, outs = OutPatPmt (pack_pat ++ pack_pmt v a) :: rest /\ Forall ts_or_pmt rest
    /\ parse_pat_packet pack_pat = Some {| pat_ts_pid := 0; pat_tsid := 1; pat_programs := [(1, 4097)] |}
    /\ parse_pmt_packet (pack_pmt v a)
       = Some {| pmt_ts_pid := 4097; pmt_program := 1; pmt_pcr_pid := 256; pmt_streams_of := expected_streams v a |}
    /\ (forall v' a' k, parse_pmt_packet (pack_pmt_ver v' a' k)
          = Some {| pmt_ts_pid := 4097; pmt_program := 1; pmt_pcr_pid := 256; pmt_streams_of := expected_streams v' a' |}).
Proof.
  intros O dec app pp acts o x' o' outs H.
  destruct (run_invariant O dec app pp acts o x' o' outs H) as (_ & _ & Hf).
  destruct (fq_done (x_filter x')).
  - right. destruct Hf as (v & a & rest & -> & Hr). exists v, a, rest.
    split; [reflexivity|]. split; [exact Hr|]. split; [exact (proj2 pack_pat_ok)|].
    split; [exact (proj2 (pack_pmt_ok v a))|]. intros v' a' k. exact (proj2 (pack_pmt_ver_ok v' a' k)).
  - left. exact (proj1 Hf).
Qed.
Print Assumptions c06_patpmt_first.

(* the late track: after the probe, the first AAC / Opus message of a stream
   whose audio codec is still unknown (resp. the first AVC / HEVC message when
   the video codec is unknown) is preceded by PAT + a PMT of the NEXT version
   that announces it on PID 0x101 (0x100); the codec is then known, so it is
   announced once *)
Theorem c06_ts_late_track_announced : forall O (dec : O -> tsev -> bool) (app : O -> tsev -> list tsev -> O) (pp : O -> bytes -> O)
    x o m,
  fq_done (x_filter x) = true ->
  (rm_type m = type_audio /\ fq_acodec (x_filter x) = (-1)%Z /\ rm_payload m <> []
   /\ (pb m 0 / 16 = 10 \/ pb m 0 / 16 = 13)
   \/ rm_type m = type_video /\ fq_vcodec (x_filter x) = (-1)%Z
      /\ (video_codec_id m = 7 \/ video_codec_id m = 12)) ->
  exists x' o' rest v a,
    feed_rtmp_message O dec app pp x o m
    = (x', o', OutPatPmt (pack_pat ++ pack_pmt_ver v a (u8 (fq_version (x_filter x) + 1))) :: rest)
    /\ Forall is_ts rest
    /\ fq_vcodec (x_filter x') = v /\ fq_acodec (x_filter x') = a
    /\ (rm_type m = type_audio -> a = Z.of_N (pb m 0 / 16) /\ v = fq_vcodec (x_filter x)
          /\ In 257 (map es_pid (expected_streams v a)))
    /\ (rm_type m = type_video -> v = Z.of_N (video_codec_id m) /\ a = fq_acodec (x_filter x)
          /\ In 256 (map es_pid (expected_streams v a))).
Proof.
  intros O dec app pp x o m Hd Hc. unfold feed_rtmp_message. rewrite Hd. unfold late_track.
  destruct Hc as [(Hty & Ha & Hne & Hco)|(Hty & Hv & Hco)].
  - rewrite Hty, Ha. change (type_audio =? type_audio) with true. cbv iota.
    replace (lenN (rm_payload m) =? 0) with false
      by (destruct (rm_payload m); [congruence|reflexivity]).
    change (negb (-1 =? -1)%Z) with false. cbn [orb].
    replace ((Z.of_N (pb m 0 / 16) =? 10)%Z || (Z.of_N (pb m 0 / 16) =? 13)%Z) with true
      by (destruct Hco as [-> | ->]; reflexivity).
    cbn [fq_data fq_acodec fq_vcodec fq_done fq_version].
    cbv beta iota zeta.
    match goal with |- context [on_pop ?a ?b ?c ?d ?e ?g] => destruct (on_pop a b c d e g) as [[s1 o1] evs] end.
    eexists _, _, _, _, _. split; [reflexivity|]. split; [apply is_ts_map|]. cbn [x_filter fq_vcodec fq_acodec].
    split; [reflexivity|]. split; [reflexivity|]. split.
    + intros _. split; [reflexivity|]. split; [reflexivity|]. unfold expected_streams.
      destruct Hco as [-> | ->]; cbn [Z.of_N Z.eqb Pos.eqb];
        destruct (Z.eqb _ 7); [| destruct (Z.eqb _ 12) | | destruct (Z.eqb _ 12)]; cbn; tauto.
    + intros H. discriminate H.
  - rewrite Hty, Hv. change (type_video =? type_audio) with false. change (type_video =? type_video) with true. cbv iota.
    change (negb (-1 =? -1)%Z) with false. cbv iota.
    replace ((Z.of_N (video_codec_id m) =? 7)%Z || (Z.of_N (video_codec_id m) =? 12)%Z) with true
      by (destruct Hco as [-> | ->]; reflexivity).
    cbn [fq_data fq_acodec fq_vcodec fq_done fq_version].
    cbv beta iota zeta.
    match goal with |- context [on_pop ?a ?b ?c ?d ?e ?g] => destruct (on_pop a b c d e g) as [[s1 o1] evs] end.
    eexists _, _, _, _, _. split; [reflexivity|]. split; [apply is_ts_map|]. cbn [x_filter fq_vcodec fq_acodec].
    split; [reflexivity|]. split; [reflexivity|]. split.
    + intros H. discriminate H.
    + intros _. split; [reflexivity|]. split; [reflexivity|]. unfold expected_streams.
      destruct Hco as [-> | ->]; cbn; tauto.
Qed.
Print Assumptions c06_ts_late_track_announced.

(* ... where the pinned tree sent only the PMT of the probe window, which names
   no audio (video) stream for an unknown codec id: the late track stayed on a
   PID no PMT announced *)
Theorem c06_ts_late_track_pinned_refuted :
  (forall v, ~ In 257 (map es_pid (expected_streams v (-1)))) /\
  (forall a, ~ In 256 (map es_pid (expected_streams (-1) a))).
Proof.
  split; intro z; unfold expected_streams.
  - destruct (Z.eqb z 7); [|destruct (Z.eqb z 12)]; cbn; intuition discriminate.
  - destruct (Z.eqb z 10); [|destruct (Z.eqb z 13)]; cbn; intuition discriminate.
Qed.
Print Assumptions c06_ts_late_track_pinned_refuted.

(* the transport stream as a whole: all packets of all frames of a run, audio
   and video interleaved in whatever way; the packets of one PID through C09's
   reference demultiplexer (which does not know the frame boundaries) give one
   access unit per emitted frame of the track, in order: PID, stream id, PTS /
   DTS + 63000 mod 2^33, random-access mark, byte-identical payload
   ([expected_units]) and continuous counters.  First for well-formed frames
   (a lemma), then unconditionally: the frames of a run over byte-string
   payloads ARE well-formed (RemuxWfProofs: time stamps below 2^64, non-empty
   byte-string buffers through the AVCC splitter, the sequence-header
   converters, the NAL loop, the ADTS writer and the audio cache). *)
Theorem c06_ts_stream_of_wf_frames : forall O (dec : O -> tsev -> bool) (app : O -> tsev -> list tsev -> O) (pp : O -> bytes -> O)
    acts o x' o' outs (audio : bool),
  run_actions O dec app pp remuxer_init o acts = (x', o', outs) ->
  Forall (fun e => frame_wf_nocc (te_frame e)) (ts_events outs) ->
  demux_pid (if audio then pid_audio else pid_video) (ev_packets (ts_events outs))
  = Some (expected_units 0 (map te_frame (track_evs audio (ts_events outs)))).
Proof.
  intros O dec app pp acts o x' o' outs audio H Hwf.
  destruct (run_invariant O dec app pp acts o x' o' outs H) as (Hc & _).
  pose proof (chained_track _ _ audio Hc) as Hch.
  destruct Hc as ((Ha & _) & (Hv & _) & Hids).
  unfold demux_pid. rewrite filter_pid_packets.
  - assert (Ef : filter (fun e => f_pid (te_frame e) =? (if audio then pid_audio else pid_video)) (ts_events outs)
                 = track_evs audio (ts_events outs)).
    { unfold track_evs. apply filter_ext_in. intros e He. rewrite Forall_forall in Hids.
      destruct audio; unfold is_audio_ev, is_video_ev, ev_sid;
        destruct (Hids e He) as [(Hs & Hp & _)|(Hs & Hp)]; rewrite Hs, Hp; reflexivity. }
    rewrite Ef. apply (chain_demux _ max_u64 0); [reflexivity|exact Hch|].
    unfold track_evs. rewrite Forall_forall in Hwf |- *. intros e He. apply filter_In in He. apply Hwf, He.
  - rewrite Forall_forall in Hwf |- *. intros e He. split.
    + (* packets = Pack frame: from the chain of the event's track *)
      rewrite Forall_forall in Hids.
      assert (Hin : In e (track_evs true (ts_events outs)) \/ In e (track_evs false (ts_events outs))).
      { unfold track_evs, is_audio_ev, is_video_ev, ev_sid.
        destruct (Hids e He) as [(Hs & _)|(Hs & _)]; [left|right]; apply filter_In; (split; [exact He|now rewrite Hs]). }
      assert (Hk : forall l b cc, chain b cc l -> In e l -> pack (te_frame e) = (te_packets e, te_cc e)).
      { induction l as [|x t IH]; intros b cc Hcl Hi; [destruct Hi|].
        cbn [chain] in Hcl. destruct Hcl as (_ & Hp & _ & _ & Ht). destruct Hi as [<-|Hi]; [exact Hp|exact (IH _ _ Ht Hi)]. }
      destruct Hin as [Hin|Hin]; [exact (Hk _ _ _ Ha Hin)|exact (Hk _ _ _ Hv Hin)].
    + destruct (Hwf e He) as (_ & _ & Hp & _). exact Hp.
Qed.
Print Assumptions c06_ts_stream_of_wf_frames.

Theorem c06_ts_stream : forall O (dec : O -> tsev -> bool) (app : O -> tsev -> list tsev -> O) (pp : O -> bytes -> O)
    acts o x' o' outs (audio : bool),
  run_actions O dec app pp remuxer_init o acts = (x', o', outs) ->
  Forall (fun m => bytes_ok (rm_payload m)) (msgs_of acts) ->
  demux_pid (if audio then pid_audio else pid_video) (ev_packets (ts_events outs))
  = Some (expected_units 0 (map te_frame (track_evs audio (ts_events outs)))).
Proof.
  intros O dec app pp acts o x' o' outs audio H Hm.
  apply (c06_ts_stream_of_wf_frames O dec app pp acts o x' o' outs audio H).
  exact (run_frames_wf O dec app pp acts o x' o' outs Hm H).
Qed.
Print Assumptions c06_ts_stream.

(* ======================================================================== *)
(* (4) HLS.  First the remuxer output fed, in order, to hls.Muxer without an
   observer (C10's model: one publication, any configuration, any clock
   readings): the data written to the segment files (PAT/PMT writes excluded)
   are the packets of all frames from the first boundary frame on - nothing
   lost, repeated or reordered (c10_no_loss). *)
Definition hls_event (clk : tsev -> Z) (o : tsout) : event :=
  match o with
  | OutPatPmt b => EvPatPmt b
  | OutTs e => EvFeed (f_sid (te_frame e) =? sid_audio) (Z.of_N (f_pts (te_frame e))) (Z.of_N (f_dts (te_frame e)))
                      (te_boundary e) (clk e) (concat (te_packets e))
  end.

Fixpoint from_first_boundary (evs : list tsev) : list tsev :=
  match evs with
  | [] => []
  | e :: t => if te_boundary e then e :: t else from_first_boundary t
  end.

Theorem c06_hls_concat : forall c clk (outs : list tsout),
  fst (fws false (run c (EvNew :: map (hls_event clk) outs ++ [EvDispose])))
  = map (fun e => concat (te_packets e)) (from_first_boundary (ts_events outs)).
Proof.
  intros c clk outs. rewrite no_loss. cbn [accepted].
  assert (Ho : forall l, accepted true true (map (hls_event clk) l ++ [EvDispose])
                         = map (fun e => concat (te_packets e)) (ts_events l)).
  { induction l as [|o t IH]; [reflexivity|]. destruct o as [b|e]; cbn [map app hls_event accepted ts_events flat_map].
    - exact IH.
    - fold (ts_events t). cbn [app map]. now rewrite IH. }
  induction outs as [|o t IH]; [reflexivity|].
  destruct o as [b|e]; cbn [map app hls_event accepted ts_events flat_map]; [exact IH|].
  fold (ts_events t). cbn [app from_first_boundary orb].
  destruct (te_boundary e); [cbn [map]; now rewrite Ho|exact IH].
Qed.
Print Assumptions c06_hls_concat.

(* ... then hls.Muxer as logic.Group wires it: observer of the remuxer, calling
   FlushAudio back from inside openFragment (RemuxGroup.v, tied to the real
   Group by the c06.e2e correspondence op).  For EVERY event history (messages,
   subscribers joining, any configuration) the data in the segment files are,
   callback by callback from the first boundary frame on, the packets of the
   re-entrantly flushed audio frames followed by the frame's own packets
   ([written] over the callbacks [parse_cbs] reads off the remuxer's output by
   the te_nested marks): nothing lost, nothing twice, delivery order kept. *)
Theorem c06_hls_group : forall c evs g' outs,
  group_run_outs c true evs = (g', outs) ->
  exists h, g_hls g' = Some h
    /\ fst (fws false (h_ops h)) = written false (parse_cbs [] outs).
Proof. exact group_hls_no_loss. Qed.
Print Assumptions c06_hls_group.

(* an HTTP-TS subscriber of that group (fresh, waiting for a boundary, PAT/PMT
   [pp] known), over any further callbacks: it gets PAT/PMT with the first frame
   that is fed and then every frame from the first BOUNDARY frame on, nested
   frames in front of the frame whose callback they were flushed in - each
   once, nothing in between (the join-point clause at byte level; which frames
   are boundaries is onFrame's rule: key frames, or audio when there is no video) *)
Theorem c06_httpts_join : forall c pp cbs g u,
  g_patpmt g = Some pp -> only_ts cbs -> In u (g_subs g) ->
  u_fresh u = true -> u_wait u = true -> u_out u = [] ->
  exists u', In u' (g_subs (replay gstate (g_apply c) g_onpatpmt g cbs))
    /\ u_id u' = u_id u
    /\ u_out u' = ((match cb_evs cbs with [] => [] | _ => pp end)
                   ++ concat (map ev_bytes (from_boundary (cb_evs cbs))))%list.
Proof.
  intros c pp cbs g u Hp Ho Hin Hf Hw He.
  destruct (replay_subs c pp cbs g Hp Ho) as [Hs _].
  exists (fold_left (fun v ev => sub_feed (Some pp) ev v) (cb_evs cbs) u). split.
  - rewrite Hs. now apply in_map.
  - destruct (sub_feed_fold pp (cb_evs cbs) u Hw) as [H1 H2]. split; [exact H1|]. rewrite H2, He, Hf. reflexivity.
Qed.
Print Assumptions c06_httpts_join.

(* whatever the observer, its view is that callback sequence: its final state
   is the callbacks replayed, nested frames only where it asked for FlushAudio *)
Theorem c06_observer_view : forall O (dec : O -> tsev -> bool) (app : O -> tsev -> list tsev -> O) (pp : O -> bytes -> O)
    x o m x' o' outs,
  feed_rtmp_message O dec app pp x o m = (x', o', outs) ->
  exists cbs, o' = replay O app pp o cbs /\ cb_valid O dec app pp o cbs /\ outs = cb_outs cbs /\ Forall cb_flags cbs.
Proof. exact feed_rtmp_message_traced. Qed.
Print Assumptions c06_observer_view.

(* ======================================================================== *)
(* (5) RTSP, steady state (analysis over).  One video message: the payloads
   through the RFC 6184 / RFC 7798 reference depacketiser are the published
   units without access unit delimiters; payloads <= 1200 bytes; sequence
   numbers consecutive from the packer's; marker on the last packet only; RTP
   time stamp = floor(ms * 90000 / 1000) mod 2^32; payload type of the SDP *)
Theorem c06_rtp_video : forall rtsp_fixed s m c seq nals,
  rm_type m = type_video -> q_sps s <> None ->
  (q_vpacker s = Some (c, seq) \/ (q_vpacker s = None /\ seq = 0 /\ c = if (q_vpt s =? pt_avc)%Z then Avc else Hevc)) ->
  seq < 65536 -> enhanced_too_short m = false ->
  iterate_nalu_avcc (if (video_codec_id m =? codec_id_hevc) && is_enhanced_hevc_nalu m
                     then skipn (enhanced_nalu_index m) (rm_payload m) else skipn 5 (rm_payload m)) = (nals, None) ->
  Forall (fun u => is_aud c u = false -> rtp_unit_ok c u) nals ->
  exists s' pk,
    remux rtsp_fixed s m = (s', map (RRtp false) pk)
    /\ rfc_depack c (map rp_payload pk) = Some (filter (not_aud c) nals)
    /\ Forall (fun p => lenN (rp_payload p) <= rtp_max_payload) pk
    /\ seq_chain seq pk /\ marks_ok pk
    /\ Forall (fun p => rp_ts p = (rm_ts m * 90000 / 1000) mod 4294967296 /\ rp_pt p = u8z (q_vpt s)) pk
    /\ q_vpacker s' = Some (c, if lenN pk =? 0 then seq else seq_add seq (lenN pk)).
Proof. exact remux_video. Qed.
Print Assumptions c06_rtp_video.

(* [not_aud] is the specification's "not an access unit delimiter" *)
Theorem c06_rtp_not_aud : forall c u, nth 0 u 0 < 256 -> not_aud c u = rtp_payload_unit c u.
Proof. exact not_aud_is_rtp_payload. Qed.
Print Assumptions c06_rtp_not_aud.

Theorem c06_rtp_aac : forall rtsp_fixed s m rate seq,
  rm_type m = type_audio -> audio_codec_id m = sound_aac ->
  q_apacker s = Some (KAac, rate, seq) -> lenN (skipn 2 (rm_payload m)) < 8192 ->
  exists s' p,
    remux rtsp_fixed s m = (s', [RRtp true p])
    /\ rfc3640_depack [rp_payload p] = Some [skipn 2 (rm_payload m)]
    /\ rp_seq p = seq /\ rp_mark p = 1 /\ rp_pt p = u8z (q_apt s)
    /\ rp_ts p = (rm_ts m * Z.to_N rate / 1000) mod 4294967296
    /\ q_apacker s' = Some (KAac, rate, seq_succ seq).
Proof. exact remux_aac. Qed.
Print Assumptions c06_rtp_aac.

Theorem c06_rtp_raw : forall rtsp_fixed s m k rate seq,
  rm_type m = type_audio ->
  (audio_codec_id m = sound_g711a \/ audio_codec_id m = sound_g711u \/ audio_codec_id m = sound_opus) ->
  q_apacker s = Some (k, rate, seq) -> k <> KAac ->
  exists s' p,
    remux rtsp_fixed s m = (s', [RRtp true p])
    /\ rp_payload p = skipn 1 (rm_payload m)
    /\ rp_seq p = seq /\ rp_mark p = 1 /\ rp_pt p = u8z (q_apt s)
    /\ rp_ts p = (rm_ts m * Z.to_N rate / 1000) mod 4294967296.
Proof. exact remux_raw. Qed.
Print Assumptions c06_rtp_raw.

(* the analysis phase: whatever the input (any order of headers, metadata,
   frames), the remuxer emits nothing at all, or the SDP exactly once followed
   by RTP packets only *)
Theorem c06_rtsp_sdp_first : forall b64 hex tool rtsp_fixed l,
  let outs := run_rtsp_gen b64 hex tool rtsp_fixed l in
  outs = [] \/ exists r rest, outs = RSdp r :: rest /\ Forall is_rtp rest.
Proof.
  intros b64 hex tool rtsp_fixed l outs. subst outs. unfold run_rtsp_gen.
  pose proof (rtsp_sdp_first b64 hex tool rtsp_fixed l r2r_init) as H. cbn [r2r_init q_done sdp_first] in H.
  destruct H as [[H _]|(r & rest & H & Hr & _)]; [now left|right; now exists r, rest].
Qed.
Print Assumptions c06_rtsp_sdp_first.

(* an AVC sequence header with SEVERAL SPS / PPS (ISO 14496-15 allows up to 31 /
   255) in the analysis phase: the first SPS and the first PPS become the
   remuxer's parameter sets - sdp.Pack announces them (c19_sdp), the video
   packer exists (c06_rtp_video applies) ... *)
Theorem c06_rtsp_avc_several_parameter_sets : forall b64 hex tool s m sps spss pps ppss,
  q_done s = false -> rm_type m = type_video -> (lenN (rm_payload m) <=? 5) = false ->
  is_avc_key_seq_header m = true ->
  avc_parse_seq_header_list (rm_payload m) = Ok (sps :: spss, pps :: ppss) -> sps <> [] -> pps <> [] ->
  (forall a b, avc_parse_seq_header (rm_payload m) = Ok (a, b) -> a = sps /\ b = pps) ->
  feed_rtmp_msg b64 hex tool true s (RMsg m)
  = do_analyze b64 hex tool true (set_params s (q_vps s) (Some sps) (Some pps)).
Proof. exact feed_avc_header_list. Qed.
Print Assumptions c06_rtsp_avc_several_parameter_sets.

(* ... where the pinned tree (avc.ParseSpsPpsFromSeqHeader only: "exactly one of
   each") kept no parameter set at all: AAC header, a sequence header with two
   SPS and two PPS, a key frame - the pinned model never leaves the analysis
   phase (and after 16 messages sends an SDP without video), the current one
   sends the SDP and the frame's packet *)
Definition two_ps_vsh : rmsg :=
  mk_rmsg 9 0 [23;0;0;0;0; 1;100;0;31;255; 226; 0;4; 103;100;0;31; 0;4; 103;77;64;30; 2; 0;2; 104;238; 0;2; 104;206].
Definition two_ps_witness : list rin :=
  [RMsg f23_ash; RMsg two_ps_vsh; RMsg (mk_rmsg 9 0 [23;1;0;0;0; 0;0;0;2; 101;136])].
Theorem c06_rtsp_avc_several_parameter_sets_pinned_refuted :
  run_rtsp_pinned (fun x => x) (fun x => x) [] two_ps_witness = []
  /\ exists sdp p, run_rtsp (fun x => x) (fun x => x) [] two_ps_witness = [RSdp (Some sdp); RRtp false p]
                   /\ rp_payload p = [101; 136].
Proof. split; [vm_compute; reflexivity|]. eexists. eexists. split; vm_compute; reflexivity. Qed.
Print Assumptions c06_rtsp_avc_several_parameter_sets_pinned_refuted.

(* floor(ms * rate / 1000) is within one tick of the published time at the clock rate *)
Theorem c06_rtp_tick : forall ms rate, rate <> 0 ->
  let x := ms * rate / 1000 in 1000 * x <= ms * rate /\ ms * rate < 1000 * (x + 1).
Proof. exact rtp_ts_within_tick. Qed.
Print Assumptions c06_rtp_tick.

(* the Opus packer of the pinned tree ran at the metadata's audiosamplerate
   although sdp.Pack announces opus/48000: metadata says 16000 Hz, a frame at
   20 ms goes out with RTP time stamp 320 instead of 960 (fixed in lal; the
   current model gives 960) *)
Definition opus_witness : list rin :=
  [RMeta (Some 13) (Some 16000%Z); RMsg f23_vsh; RMsg (mk_rmsg 8 0 [223; 1; 2; 3]); RMsg (mk_rmsg 8 20 [223; 4; 5; 6])].
Definition last_rtp_ts (l : list rout) : option N :=
  match rev l with RRtp _ p :: _ => Some (rp_ts p) | _ => None end.
Theorem c06_rtp_opus_clock_pinned_refuted :
  last_rtp_ts (run_rtsp_pinned (fun x => x) (fun x => x) [] opus_witness) = Some 320
  /\ last_rtp_ts (run_rtsp (fun x => x) (fun x => x) [] opus_witness) = Some 960.
Proof. split; vm_compute; reflexivity. Qed.
Print Assumptions c06_rtp_opus_clock_pinned_refuted.

(* onMetaData only guides the analysis: once the SDP has been handed out a metadata message changes nothing - in
   particular not the payload type and the clock rate the audio packer, created at the first audio frame, is given
   (so every RTP time stamp runs at the rate the SDP announces: c06_rtp_aac / c06_rtp_raw with the rate of the SDP) *)
Theorem c06_rtsp_metadata_after_sdp : forall b64 hex tool s a r,
  q_done s = true -> feed_rtmp_msg b64 hex tool true s (RMeta a r) = (s, []).
Proof. intros b64 hex tool s a r H. cbn [feed_rtmp_msg andb]. now rewrite H. Qed.
Print Assumptions c06_rtsp_metadata_after_sdp.

(* ... where the pinned tree took it at any time: metadata names G.711 A-law at 8000 Hz, the video sequence header ends
   the analysis (SDP: PCMA/8000), a second onMetaData says 44100, then the first audio frame creates the packer: the
   frame at 23 ms went out with RTP time stamp 1014 (44100 Hz) instead of 184; likewise a later audiocodecid switched
   the payload type away from the one the SDP announces *)
Definition meta_after_sdp_witness : list rin :=
  [RMeta (Some 7) (Some 8000%Z); RMsg f23_vsh; RMeta (Some 7) (Some 44100%Z);
   RMsg (mk_rmsg 8 0 [114; 1; 2; 3]); RMsg (mk_rmsg 8 23 [114; 4; 5; 6])].
Theorem c06_rtsp_metadata_after_sdp_pinned_refuted :
  last_rtp_ts (run_rtsp_pinned (fun x => x) (fun x => x) [] meta_after_sdp_witness) = Some 1014
  /\ last_rtp_ts (run_rtsp (fun x => x) (fun x => x) [] meta_after_sdp_witness) = Some 184.
Proof. split; vm_compute; reflexivity. Qed.
Print Assumptions c06_rtsp_metadata_after_sdp_pinned_refuted.

(* ======================================================================== *)
(* non-vacuity: a stream of an AVC sequence header, an AAC sequence header, a
   key frame with an in-band AUD, two AAC frames and Dispose meets the
   hypotheses; PAT/PMT first, the video buffer splits into AUD, SPS, PPS, IDR,
   the two AAC frames come out in one PES *)
Definition ex_key : rmsg := mk_rmsg 9 1000 [23;1;0;0;40; 0;0;0;2; 9;240; 0;0;0;3; 101;136;128].
Definition ex_a1 : rmsg := mk_rmsg 8 1000 [175; 1; 33; 17; 69].
Definition ex_a2 : rmsg := mk_rmsg 8 1023 [175; 1; 1; 2].
Example c06_nonvacuous :
  let outs := run_scripted [] [AMsg f23_vsh; AMsg f23_ash; AMsg ex_key; AMsg ex_a1; AMsg ex_a2; ADispose] in
  Forall aac_only [f23_vsh; f23_ash; ex_key; ex_a1; ex_a2]
  /\ length outs = 3%nat
  /\ (exists v a e1 e2, outs = [OutPatPmt (pack_pat ++ pack_pmt v a); OutTs e1; OutTs e2]
        /\ iterate_nalu_annexb (f_raw (te_frame e1)) = ([[9; 240]; [103; 100; 0; 31]; [104; 238]; [101; 136; 128]], None)
        /\ f_pts (te_frame e1) = 3600 /\ f_dts (te_frame e1) = 0 /\ te_boundary e1 = true
        /\ option_map (map snd) (split_adts 2 (f_raw (te_frame e2))) = Some [[33; 17; 69]; [1; 2]]).
Proof.
  cbv zeta. split.
  - repeat constructor; try discriminate; try reflexivity; cbn; intros; discriminate.
  - split; [vm_compute; reflexivity|]. exists 7%Z, 10%Z. eexists. eexists.
    split; [vm_compute; reflexivity|]. repeat split; vm_compute; reflexivity.
Qed.

(* ======================================================================== *)
(* (7) JOIN POINTS ON BYTES, through the real fan-out.  Remux/RemuxFanout.v
   turns one publication - the events of the end-to-end op c06.e2e: messages,
   HTTP-TS subscribers and RTSP players joining anywhere - into what happens at
   the group ([outs]: the callbacks of the two remuxers in the order
   broadcastByRtmpMsg makes them), runs the fan-out model of C01 / C02
   (Group/GroupFanout.v: HTTP-TS GOP cache, RtspConfig.OutWaitKeyFrameFlag) on
   that history and reads every label a consumer was sent as the bytes it stands
   for ([fo_items]).  That composition is what ./check C06 compares with
   logic.Group byte for byte.  The theorems below are about it. *)
From Lal Require Group.GroupFanout Group.GroupFanoutProofs Group.GroupFanoutRtspProofs
  Remux.RemuxFanout Remux.RemuxFanoutTsProofs Remux.RemuxFanoutProofs Remux.RemuxFanoutRunProofs.
Module GF := Lal.Group.GroupFanout.
Module GP := Lal.Group.GroupFanoutProofs.
Module GR := Lal.Group.GroupFanoutRtspProofs.
Module RF := Lal.Remux.RemuxFanout.
Module RFP := Lal.Remux.RemuxFanoutProofs.
Module RFR := Lal.Remux.RemuxFanoutRunProofs.

(* An HTTP-TS subscriber that joins at ANY point ([ob] before it, any later
   events [o1] without a frame, then the frame [e], then [o2]; no cap on a
   cached GOP), admitted at [e] because a GOP is cached or [e] is a boundary:
   - BYTES: it is sent the PAT/PMT in force, the cached frames, then every
     frame and every later PAT/PMT block in order;
   - the frames it is sent ([L]) are consecutive frames of the publication up
     to its end - none missing, none twice - and the first one is a boundary;
   - a demultiplexer (C09's reference) recovers from them, per track, exactly
     those frames of the remuxer: what c06_video_message / c06_audio_frames say
     of each frame holds of the consumer's stream from its starting point on. *)
Theorem c06_httpts_any_join : forall b64 hex tool hc rtsp hls evs g' outs cf ob id o1 e o2,
  RF.fan_outs b64 hex tool hc rtsp hls evs = (g', outs) -> Forall msg_ok (RFR.fev_msgs evs) ->
  GF.cf_ts_max cf = 0%nat ->
  outs = RF.FoIn true :: (ob ++ RF.FoJoin GF.KTs id :: o1) ++ RF.FoTs e :: o2 ->
  RFP.fo_ts_evs o1 = [] ->
  existsb (fun x => GF.c_id x =? id) (GF.g_subs (GF.run cf (RF.fan_hist (RF.FoIn true :: ob)))) = false ->
  let body := ob ++ RF.FoJoin GF.KTs id :: o1 in
  (0 < RFP.cached_gops cf body)%nat \/ te_boundary e = true ->
  let L := RFP.cache_evs cf body ++ RFP.fo_ts_evs (RF.FoTs e :: o2) in
  exists c', GP.find_sub (GF.run cf (RF.fan_hist outs)) id = Some c' /\ GF.admitted c' = true /\
    RF.fo_items outs (GF.c_out c')
      = RFP.pat_in_force body ++ map (fun x => RF.ITs (ev_bytes x)) (RFP.cache_evs cf body) ++ RFP.ts_items (RF.FoTs e :: o2)
    /\ (exists pre, RFP.fo_ts_evs outs = pre ++ L)
    /\ (exists e0 rest, L = e0 :: rest /\ te_boundary e0 = true)
    /\ forall audio : bool, exists cc,
         demux_pid (if audio then pid_audio else pid_video) (ev_packets L)
         = Some (expected_units cc (map te_frame (track_evs audio L))).
Proof.
  intros b64 hex tool hc rtsp hls evs g' outs cf ob id o1 e o2 Hrun Hm Hmax Hout Hq Hnew body Hadm L.
  destruct (RFR.fan_outs_run b64 hex tool hc rtsp hls evs g' _ Hrun Hm) as (mid & x' & Hout2 & Hnin & Hinv & Hwf & _).
  (* the shape of [outs]: o2 ends with the end of the input *)
  assert (Hsplit : exists o2', o2 = o2' ++ [RF.FoIn false] /\ mid = body ++ RF.FoTs e :: o2').
  { rewrite Hout in Hout2. injection Hout2 as Hout2. fold body in Hout2.
    destruct (exists_last (l := o2)) as (o2' & last & ->).
    { intro E. subst o2. assert (Hl : body ++ [RF.FoTs e] = mid ++ [RF.FoIn false]) by exact Hout2.
      apply app_inj_tail in Hl. destruct Hl as [_ Hl]. discriminate. }
    exists o2'. replace (body ++ RF.FoTs e :: o2' ++ [last]) with ((body ++ RF.FoTs e :: o2') ++ [last]) in Hout2
      by (rewrite <- app_assoc; reflexivity).
    apply app_inj_tail in Hout2. destruct Hout2 as [-> ->]. split; reflexivity. }
  destruct Hsplit as (o2' & Ho2 & Hmid).
  assert (Hbody : RFP.no_in_out body).
  { unfold RFP.no_in_out in *. rewrite Hmid in Hnin. apply Forall_app in Hnin. exact (proj1 Hnin). }
  assert (Hob : RFP.no_in_out ob /\ RFP.no_in_out o1).
  { unfold RFP.no_in_out, body in *. apply Forall_app in Hbody. destruct Hbody as [A B]. inversion B; subst. now split. }
  destruct Hob as [Hob Ho1].
  destruct (RFP.httpts_join_items cf ob id o1 Hob Ho1 Hq Hnew e o2 Hadm) as (c' & Hf & _ & Ha & Hitems).
  cbv zeta in Hf, Hitems. rewrite <- Hout in Hf, Hitems. fold body in Hitems.
  exists c'. split; [exact Hf|]. split; [exact Ha|]. split; [exact Hitems|].
  destruct (RFP.cache_evs_suffix cf body Hmax) as (pre & Hpre & Hhead & Hne).
  assert (HL : RFP.fo_ts_evs outs = pre ++ L).
  { rewrite Hout. fold body. unfold L.
    change (RFP.fo_ts_evs (RF.FoIn true :: body ++ RF.FoTs e :: o2)) with (RFP.fo_ts_evs (body ++ RF.FoTs e :: o2)).
    unfold RFP.fo_ts_evs at 1. rewrite RFP.tab_app. fold (RFP.fo_ts_evs body). fold (RFP.fo_ts_evs (RF.FoTs e :: o2)).
    rewrite Hpre, <- app_assoc. reflexivity. }
  split; [exists pre; exact HL|]. split.
  - destruct Hhead as [Hnil|(e0 & rest & Hc & Hb)].
    + destruct Hadm as [Hpos|Hb].
      * exfalso. exact (Hne Hpos Hnil).
      * unfold L. rewrite Hnil. cbn [app RFP.fo_ts_evs flat_map]. exists e, (RFP.fo_ts_evs o2). split; [reflexivity|exact Hb].
    + unfold L. rewrite Hc. cbn [app]. exists e0, (rest ++ RFP.fo_ts_evs (RF.FoTs e :: o2)). split; [reflexivity|exact Hb].
  - intro audio. destruct Hinv as (Hch & _). rewrite RFR.ts_events_outs in Hch.
    assert (Hall : RFP.fo_ts_evs mid = pre ++ L).
    { rewrite <- HL, Hout2. unfold RFP.fo_ts_evs. cbn [flat_map app]. rewrite RFP.tab_app. cbn [flat_map]. now rewrite !app_nil_r. }
    destruct (RFR.suffix_demux _ _ pre L audio Hch Hwf Hall) as (cc & _ & Hd). exists cc. exact Hd.
Qed.
Print Assumptions c06_httpts_any_join.

(* ... and when nothing is cached and the first frame after the join is no
   boundary: the PAT/PMT in force, the PAT/PMT blocks that follow, and from the
   first boundary frame [e3] on every frame - again consecutive frames of the
   publication up to its end, starting at a boundary, demultiplexing per track
   to the remuxer's frames *)
Theorem c06_httpts_any_join_waiting : forall b64 hex tool hc rtsp hls evs g' outs cf ob id o1 e o2 e3 o3,
  RF.fan_outs b64 hex tool hc rtsp hls evs = (g', outs) -> Forall msg_ok (RFR.fev_msgs evs) ->
  outs = RF.FoIn true :: (ob ++ RF.FoJoin GF.KTs id :: o1) ++ RF.FoTs e :: o2 ++ RF.FoTs e3 :: o3 ->
  RFP.fo_ts_evs o1 = [] ->
  existsb (fun x => GF.c_id x =? id) (GF.g_subs (GF.run cf (RF.fan_hist (RF.FoIn true :: ob)))) = false ->
  let body := ob ++ RF.FoJoin GF.KTs id :: o1 in
  RFP.cached_gops cf body = 0%nat -> te_boundary e = false ->
  Forall (fun x => te_boundary x = false) (RFP.fo_ts_evs o2) -> te_boundary e3 = true ->
  let L := RFP.fo_ts_evs (RF.FoTs e3 :: o3) in
  exists c', GP.find_sub (GF.run cf (RF.fan_hist outs)) id = Some c' /\ GF.admitted c' = true /\
    RF.fo_items outs (GF.c_out c') = RFP.pat_in_force body ++ RFP.pat_items o2 ++ RFP.ts_items (RF.FoTs e3 :: o3)
    /\ (exists pre, RFP.fo_ts_evs outs = pre ++ L)
    /\ forall audio : bool, exists cc,
         demux_pid (if audio then pid_audio else pid_video) (ev_packets L)
         = Some (expected_units cc (map te_frame (track_evs audio L))).
Proof.
  intros b64 hex tool hc rtsp hls evs g' outs cf ob id o1 e o2 e3 o3 Hrun Hm Hout Hq Hnew body Hcnt He Hq2 He3 L.
  destruct (RFR.fan_outs_run b64 hex tool hc rtsp hls evs g' _ Hrun Hm) as (mid & x' & Hout2 & Hnin & Hinv & Hwf & _).
  assert (Hsplit : exists o3', o3 = o3' ++ [RF.FoIn false] /\ mid = body ++ RF.FoTs e :: o2 ++ RF.FoTs e3 :: o3').
  { rewrite Hout in Hout2. injection Hout2 as Hout2. fold body in Hout2.
    destruct (exists_last (l := o3)) as (o3' & last & ->).
    { intro E. subst o3. assert (Hl : (body ++ RF.FoTs e :: o2) ++ [RF.FoTs e3] = mid ++ [RF.FoIn false]) by (rewrite <- app_assoc; exact Hout2).
      apply app_inj_tail in Hl. destruct Hl as [_ Hl]. discriminate. }
    exists o3'.
    assert (E : body ++ RF.FoTs e :: o2 ++ RF.FoTs e3 :: o3' ++ [last] = (body ++ RF.FoTs e :: o2 ++ RF.FoTs e3 :: o3') ++ [last]).
    { symmetry. rewrite <- app_assoc. cbn [app]. rewrite <- app_assoc. reflexivity. }
    rewrite E in Hout2.
    apply app_inj_tail in Hout2. destruct Hout2 as [-> ->]. split; reflexivity. }
  destruct Hsplit as (o3' & Ho3 & Hmid).
  assert (Hbody : RFP.no_in_out body).
  { unfold RFP.no_in_out in *. rewrite Hmid in Hnin. apply Forall_app in Hnin. exact (proj1 Hnin). }
  assert (Hob : RFP.no_in_out ob /\ RFP.no_in_out o1).
  { unfold RFP.no_in_out, body in *. apply Forall_app in Hbody. destruct Hbody as [A B]. inversion B; subst. now split. }
  destruct Hob as [Hob Ho1].
  destruct (RFP.httpts_join_items_waiting cf ob id o1 Hob Ho1 Hq Hnew e o2 e3 o3 Hcnt He Hq2 He3) as (c' & Hf & _ & Ha & Hitems).
  cbv zeta in Hf, Hitems. rewrite <- Hout in Hf, Hitems. fold body in Hitems.
  exists c'. split; [exact Hf|]. split; [exact Ha|]. split; [exact Hitems|].
  assert (HL : RFP.fo_ts_evs outs = (RFP.fo_ts_evs (body ++ RF.FoTs e :: o2)) ++ L).
  { rewrite Hout. fold body. unfold L.
    replace (RF.FoIn true :: body ++ RF.FoTs e :: o2 ++ RF.FoTs e3 :: o3) with ((RF.FoIn true :: body ++ RF.FoTs e :: o2) ++ RF.FoTs e3 :: o3)
      by (cbn [app]; rewrite <- app_assoc; reflexivity).
    unfold RFP.fo_ts_evs at 1. rewrite RFP.tab_app. reflexivity. }
  split; [eexists; exact HL|].
  intro audio. destruct Hinv as (Hch & _). rewrite RFR.ts_events_outs in Hch.
  assert (Hall : RFP.fo_ts_evs mid = RFP.fo_ts_evs (body ++ RF.FoTs e :: o2) ++ L).
  { rewrite <- HL, Hout2. unfold RFP.fo_ts_evs. cbn [flat_map app]. rewrite RFP.tab_app. cbn [flat_map]. now rewrite !app_nil_r. }
  destruct (RFR.suffix_demux _ _ _ L audio Hch Hwf Hall) as (cc & _ & Hd). exists cc. exact Hd.
Qed.
Print Assumptions c06_httpts_any_join_waiting.

(* An RTSP player that joins at ANY point (DESCRIBE is answered once the
   remuxer has announced its SDP; SETUP; PLAY), without OutWaitKeyFrameFlag or
   while the group knows no video codec: it is sent the SDP in force and then
   every packet the remuxer hands the group from PLAY on - a tail of the
   remuxer's packet stream over the published messages ([run_rtsp]: what
   c06_rtp_video / c06_rtp_aac / c06_rtp_raw say of each message's packets
   holds of the player's stream from its starting point on). *)
Theorem c06_rtsp_any_join : forall b64 hex tool hc hls evs g' outs cf ob id o1,
  RF.fan_outs b64 hex tool hc true hls evs = (g', outs) -> Forall msg_ok (RFR.fev_msgs evs) ->
  outs = (RF.FoIn true :: ob ++ [RF.FoJoin GF.KRtsp id; RF.FoPlay id]) ++ o1 ->
  existsb (fun x => GF.c_id x =? id) (GF.g_subs (GF.run cf (RF.fan_hist (RF.FoIn true :: ob)))) = false ->
  GF.g_sdp (GF.run cf (RF.fan_hist (RF.FoIn true :: ob))) <> None ->
  GF.cf_rtsp_wait cf && GF.g_video_known (GF.run cf (RF.fan_hist (RF.FoIn true :: ob))) = false ->
  exists c', GP.find_sub (GF.run cf (RF.fan_hist outs)) id = Some c' /\
    RF.fo_items outs (GF.c_out c') = RFP.sdp_in_force ob ++ RFP.rtp_items o1
    /\ exists pre, RFR.rout_rtps (run_rtsp b64 hex tool (RFR.fev_rins evs)) = pre ++ RFR.fo_rtps o1.
Proof.
  intros b64 hex tool hc hls evs g' outs cf ob id o1 Hrun Hm Hout Hnew Hsdp Hw.
  destruct (RFR.fan_outs_run b64 hex tool hc true hls evs g' outs Hrun Hm) as (mid & x' & Hout2 & Hnin & _ & _ & Hr).
  specialize (Hr eq_refl).
  assert (Hsplit : exists o1', o1 = o1' ++ [RF.FoIn false] /\ mid = (ob ++ [RF.FoJoin GF.KRtsp id; RF.FoPlay id]) ++ o1').
  { rewrite Hout in Hout2. cbn [app] in Hout2. injection Hout2 as Hout2.
    destruct (exists_last (l := o1)) as (o1' & last & ->).
    { intro E. subst o1. rewrite app_nil_r in Hout2.
      replace (ob ++ [RF.FoJoin GF.KRtsp id; RF.FoPlay id]) with ((ob ++ [RF.FoJoin GF.KRtsp id]) ++ [RF.FoPlay id]) in Hout2
        by (rewrite <- app_assoc; reflexivity).
      apply app_inj_tail in Hout2. destruct Hout2 as [_ Hl]. discriminate. }
    exists o1'. rewrite app_assoc in Hout2. apply app_inj_tail in Hout2. destruct Hout2 as [-> ->]. split; reflexivity. }
  destruct Hsplit as (o1' & Ho1 & Hmid).
  assert (Hob : RFP.no_in_out ob).
  { unfold RFP.no_in_out in *. rewrite Hmid in Hnin. apply Forall_app in Hnin. destruct Hnin as [A _]. apply Forall_app in A. exact (proj1 A). }
  destruct (RFP.rtsp_join_items_open cf ob id Hob Hnew Hsdp o1 Hw) as (c' & Hf & _ & Hitems).
  rewrite <- Hout in Hf, Hitems. exists c'. split; [exact Hf|]. split; [exact Hitems|].
  rewrite <- Hr, Hmid, Ho1. rewrite !RFR.fo_rtps_app. unfold RFR.fo_rtps at 2 4. cbn [flat_map app]. rewrite !app_nil_r. eexists. reflexivity.
Qed.
Print Assumptions c06_rtsp_any_join.

(* ... and with OutWaitKeyFrameFlag once the group knows a video codec: nothing
   during [q] - no packet of it passes lal's GOP-start test (C13's model of
   IsAvcBoundary / IsHevcBoundary, on packets of the video track) -, then the
   first packet that does, [p], and every packet after it: again a tail of the
   remuxer's packet stream, beginning at a packet that starts a GOP. *)
Theorem c06_rtsp_any_join_gate : forall b64 hex tool hc hls evs g' outs cf ob id q a p pt o2,
  RF.fan_outs b64 hex tool hc true hls evs = (g', outs) -> Forall msg_ok (RFR.fev_msgs evs) ->
  let pre := RF.FoIn true :: ob ++ [RF.FoJoin GF.KRtsp id; RF.FoPlay id] in
  outs = pre ++ q ++ RF.FoRtp a p :: o2 ->
  existsb (fun x => GF.c_id x =? id) (GF.g_subs (GF.run cf (RF.fan_hist (RF.FoIn true :: ob)))) = false ->
  GF.g_sdp (GF.run cf (RF.fan_hist (RF.FoIn true :: ob))) <> None ->
  GF.cf_rtsp_wait cf = true -> GF.g_video_known (GF.run cf (RF.fan_hist (RF.FoIn true :: ob))) = true ->
  GR.quiet cf (GF.run cf (RF.fan_hist pre)) (RF.fan_hist q) ->
  GF.rtp_pt (RF.fan_raw a p) = Some pt -> GR.rtp_boundary_at (GF.run cf (RF.fan_hist (pre ++ q))) (RF.fan_raw a p) = true ->
  exists c', GP.find_sub (GF.run cf (RF.fan_hist outs)) id = Some c' /\ GR.rtsp_admitted cf c' = true /\
    RF.fo_items outs (GF.c_out c') = RFP.sdp_in_force ob ++ RFP.rtp_items (RF.FoRtp a p :: o2)
    /\ exists before, RFR.rout_rtps (run_rtsp b64 hex tool (RFR.fev_rins evs)) = before ++ (a, p) :: RFR.fo_rtps o2.
Proof.
  intros b64 hex tool hc hls evs g' outs cf ob id q a p pt o2 Hrun Hm pre Hout Hnew Hsdp Hw Hvk Hq Hpt Hb.
  destruct (RFR.fan_outs_run b64 hex tool hc true hls evs g' outs Hrun Hm) as (mid & x' & Hout2 & Hnin & _ & _ & Hr).
  specialize (Hr eq_refl).
  assert (Hsplit : exists o2', o2 = o2' ++ [RF.FoIn false] /\ mid = (ob ++ [RF.FoJoin GF.KRtsp id; RF.FoPlay id]) ++ q ++ RF.FoRtp a p :: o2').
  { rewrite Hout in Hout2. unfold pre in Hout2. cbn [app] in Hout2. injection Hout2 as Hout2.
    destruct (exists_last (l := o2)) as (o2' & last & ->).
    { intro E. subst o2.
      replace ((ob ++ [RF.FoJoin GF.KRtsp id; RF.FoPlay id]) ++ q ++ [RF.FoRtp a p])
        with (((ob ++ [RF.FoJoin GF.KRtsp id; RF.FoPlay id]) ++ q) ++ [RF.FoRtp a p]) in Hout2 by (rewrite <- app_assoc; reflexivity).
      apply app_inj_tail in Hout2. destruct Hout2 as [_ Hl]. discriminate. }
    exists o2'.
    assert (E : (ob ++ [RF.FoJoin GF.KRtsp id; RF.FoPlay id]) ++ q ++ RF.FoRtp a p :: o2' ++ [last]
                = ((ob ++ [RF.FoJoin GF.KRtsp id; RF.FoPlay id]) ++ q ++ RF.FoRtp a p :: o2') ++ [last]).
    { symmetry. rewrite <- app_assoc. f_equal. rewrite <- app_assoc. reflexivity. }
    rewrite E in Hout2. apply app_inj_tail in Hout2. destruct Hout2 as [-> ->]. split; reflexivity. }
  destruct Hsplit as (o2' & Ho2 & Hmid).
  assert (Hob : RFP.no_in_out ob).
  { unfold RFP.no_in_out in *. rewrite Hmid in Hnin. apply Forall_app in Hnin. destruct Hnin as [A _]. apply Forall_app in A. exact (proj1 A). }
  destruct (RFP.rtsp_join_items_gate cf ob id Hob Hnew Hsdp q a p pt o2 Hw Hvk Hq Hpt Hb) as (c' & Hf & Ha & Hitems).
  cbv zeta in Hf, Hitems. fold pre in Hf, Hitems. rewrite <- Hout in Hf, Hitems.
  exists c'. split; [exact Hf|]. split; [exact Ha|]. split; [exact Hitems|].
  rewrite <- Hr, Hmid, Ho2.
  replace (RF.FoRtp a p :: o2') with ([RF.FoRtp a p] ++ o2') by reflexivity. rewrite !RFR.fo_rtps_app.
  change (RFR.fo_rtps [RF.FoRtp a p]) with [(a, p)]. change (RFR.fo_rtps [RF.FoIn false]) with (@nil (bool * rtp_packet)).
  rewrite !app_nil_r. cbn [app].
  exists ((RFR.fo_rtps ob ++ RFR.fo_rtps [RF.FoJoin GF.KRtsp id; RF.FoPlay id]) ++ RFR.fo_rtps q). rewrite <- !app_assoc. reflexivity.
Qed.
Print Assumptions c06_rtsp_any_join_gate.

(* the GOP-start test looks at packets of the VIDEO track only (lal fix 871e5a0; the same defect as C02's F-34,
   found independently when c06.e2e started to run with OutWaitKeyFrameFlag): on the pinned tree
   ([rtp_is_boundary false], [run_pinned] of Group/GroupFanout.v) an Opus packet whose first payload byte reads as an
   IRAP slice header (0xae = H.265 type 23) ended the wait, and the player was sent the video from the middle of a GOP *)
Definition opus_like_irap : bytes := [128; 97; 0; 1; 0; 0; 3; 192; 0; 0; 0; 0; 174; 1; 2].
Definition hevc_non_irap : bytes := [128; 96; 0; 2; 0; 0; 46; 224; 17; 34; 51; 68; 2; 1; 208; 9].
Definition hevc_vsh_msg : rmsg := mk_rmsg 9 0 [28; 0; 0; 0; 0; 1].
Theorem c06_rtsp_wait_audio_pinned_refuted :
  GF.rtp_pt opus_like_irap = Some 97 /\ GF.rtp_is_video 97 = false /\
  GF.rtp_is_boundary false GF.VHevc 97 opus_like_irap = true /\ GF.rtp_is_boundary true GF.VHevc 97 opus_like_irap = false /\
  (forall v raw, GF.rtp_is_boundary true v 96 raw = GF.rtp_is_boundary false v 96 raw) /\
  let cf := RF.fan_cfg 0 true in
  let h := [GF.EvInStart; GF.EvPublish hevc_vsh_msg; GF.EvSdp GF.VHevc; GF.EvJoin GF.KRtsp 1; GF.EvPlay 1;
            GF.EvRtp opus_like_irap; GF.EvRtp hevc_non_irap] in
  option_map GF.c_out (GP.find_sub (GF.run_pinned cf h) 1) = Some [GF.LSdp 0; GF.LRtp 0; GF.LRtp 1] /\
  option_map GF.c_out (GP.find_sub (GF.run cf h) 1) = Some [GF.LSdp 0].
Proof.
  split; [vm_compute; reflexivity|]. split; [reflexivity|]. split; [vm_compute; reflexivity|]. split; [vm_compute; reflexivity|].
  split; [intros v raw; destruct v; reflexivity|]. vm_compute. split; reflexivity.
Qed.
Print Assumptions c06_rtsp_wait_audio_pinned_refuted.

(* non-vacuity of (7): sequence headers, a key frame, audio, an inter frame; then an
   HTTP-TS subscriber (GOP cache of 1) and an RTSP player (OutWaitKeyFrameFlag)
   join; audio, a key frame, an inter frame follow.  The HTTP-TS subscriber is
   sent PAT/PMT, the cached GOP (two frames) and the three frames
   that follow; the RTSP player the SDP and the video packets from the next key
   frame on - the AAC packet in between is withheld. *)
Definition ex_hc : HlsMuxer.cfg := {| c_stream := [115]; c_ms := 1000%Z; c_num := 6%Z; c_thr := 6%Z; c_mode := 0%Z |}.
Definition ex_k2 : rmsg := mk_rmsg 9 1080 [23;1;0;0;0; 0;0;0;3; 101;136;129].
Definition ex_p1 : rmsg := mk_rmsg 9 1040 [39;1;0;0;0; 0;0;0;3; 65;154;2].
Definition ex_p2 : rmsg := mk_rmsg 9 1120 [39;1;0;0;0; 0;0;0;3; 65;154;3].
Definition ex_join_evs : list RF.fevent :=
  [RF.FMsg f23_vsh; RF.FMsg f23_ash; RF.FMsg ex_key; RF.FMsg ex_a1; RF.FMsg ex_p1; RF.FJoinTs 1; RF.FJoinRtsp 2;
   RF.FMsg ex_a2; RF.FMsg ex_k2; RF.FMsg ex_p2].
Definition item_kind (i : RF.fitem) : N :=
  match i with RF.ITs _ => 3 | RF.IPat _ => 2 | RF.ISdp _ => 4 | RF.IRtp a _ => 50 + (if a then 1 else 0) | RF.INone => 9 end.
Example c06_join_nonvacuous :
  let outs := snd (RF.fan_outs (fun x => x) (fun x => x) [108] ex_hc true false ex_join_evs) in
  map (fun x => (fst x, map item_kind (snd x))) (RF.fan_consumers (RF.fan_cfg 1 true) outs)
  = [(1, GF.KTs, [2; 3; 3; 3; 3; 3]); (2, GF.KRtsp, [4; 50; 50])]
  /\ map te_boundary (RFP.fo_ts_evs outs) = [true; false; true; false; false].
Proof. vm_compute. split; reflexivity. Qed.

(* ======================================================================== *)
(* (8) HLS AT EVERY INSTANT, under the group's wiring (hls.Muxer as observer of
   the remuxer, FlushAudio re-entering it from inside openFragment).  The file
   system operations of hls.Muxer over ANY sequence of events form a chain of
   C10's invariant from Muxer.Start on (RemuxHlsObsProofs / RemuxHlsRunProofs:
   the observer version is closeFragment / openFragment / FeedMpegts / the
   duration update / the write of C10 composed, so C10's step lemmas compose),
   hence C10's trace theorems hold of every prefix of them - not of the final
   state only; since any prefix of the events is itself a sequence of events,
   c06_hls_group holds after every event as well. *)
From Lal Require Hls.HlsInv Hls.HlsParse Hls.HlsFs Hls.HlsRunProofs Remux.RemuxHlsRunProofs.
Module RHR := Lal.Remux.RemuxHlsRunProofs.

(* C10's trace theorems at EVERY instant (one statement, three clauses; j, k count file system operations):
   - c10_inv_every_prefix: after every operation the live play list (if there is one) is the text of a structured
     play list that parses back to it, lists only segments whose files exist, are closed, are whole TS packets and
     begin with PAT/PMT, with durations that round to at most the target duration;
   - c10_parsed_playlist_consistent: the same in terms of the parse result alone;
   - c10_media_sequence_monotone: between any two instants EXT-X-MEDIA-SEQUENCE does not decrease. *)
Theorem c06_hls_c10_every_instant : forall c evs x g outs,
  HlsInv.cfg_ok c -> g_run c remuxer_init (g_init c true) evs = (x, g, outs) -> Forall msg_ok (RHR.gmsgs evs) ->
  exists h, g_hls g = Some h /\
    let st k := HlsFs.apply_all [] (firstn k (h_ops h)) in
    (forall k, live_ok c (st k)) /\
    (forall k f t, HlsFs.fs_lookup HlsFs.PLive (st k) = Some f -> HlsParse.parse_live (HlsFs.fdata f) = Some t ->
       forall ts, In ts (HlsParse.t_segs t) ->
         ((HlsParse.t_ms ts + 500) / 1000 <= HlsParse.t_target t)%Z /\
         exists sg, HlsParse.t_uri ts = HlsPlaylist.seg_name (c_stream c) sg /\ seg_file_ok (st k) sg) /\
    (forall j k fj fk tj tk, (j <= k)%nat ->
       HlsRunProofs.no_removeall (skipn j (firstn k (h_ops h))) ->
       HlsFs.fs_lookup HlsFs.PLive (st j) = Some fj -> HlsFs.fs_lookup HlsFs.PLive (st k) = Some fk ->
       HlsParse.parse_live (HlsFs.fdata fj) = Some tj -> HlsParse.parse_live (HlsFs.fdata fk) = Some tk ->
       (HlsParse.t_seq tj <= HlsParse.t_seq tk)%Z).
Proof.
  intros c evs x g outs Hc H Hm. destruct (RHR.group_hls_chain c Hc evs x g outs H Hm) as (h & Hh & Hch).
  exists h. split; [exact Hh|]. cbv zeta. split; [|split].
  - exact (RHR.chain_live_ok c (h_ops h) (h_mux h) Hc Hch).
  - intros k f t. exact (RHR.chain_parsed c (h_ops h) (h_mux h) Hc Hch k f t).
  - intros j k fj fk tj tk Hjk HN. exact (RHR.chain_media_sequence c (h_ops h) (h_mux h) Hc Hch j k fj fk tj tk Hjk HN).
Qed.
Print Assumptions c06_hls_c10_every_instant.

(* ... and c06_hls_group after every event: the frame data written to the segment files so far are, callback by
   callback from the first boundary frame on, the handed-over audio frames followed by the frame itself *)
Theorem c06_hls_no_loss_every_instant : forall c evs x g outs,
  g_run c remuxer_init (g_init c true) evs = (x, g, outs) ->
  exists h, g_hls g = Some h /\ fst (fws false (h_ops h)) = written false (parse_cbs [] outs).
Proof.
  intros c evs x g outs H.
  assert (Hi0 : hinv (g_init c true) [] false) by (eexists; split; [reflexivity|]; split; reflexivity).
  destruct (g_run_hinv c evs _ _ _ _ _ _ _ Hi0 H) as (cbs & -> & F & (h & Hh & Hw & _)).
  exists h. split; [exact Hh|]. rewrite Hw. cbn [fst app]. now rewrite parse_cb_outs.
Qed.
Print Assumptions c06_hls_no_loss_every_instant.

(* ======================================================================== *)
(* (9) THE WHOLE STREAM IN ONE FORMULA PER TRACK.  For a publication - any
   messages with byte-string payloads, ANY observer, FlushAudio calls anywhere,
   Dispose at the end, the probe filter drained - C09's reference demultiplexer
   applied to all packets of the run returns
     VIDEO  the frames [track_frames] makes of the video walk over the published
            messages ([video_walk], NAL-unit level: one frame per NAL-unit
            message with a non-empty plan, its buffer the rendering of the plan
            c06_video_nals describes, parameter sets from the last sequence
            header / in-band set), and
     AUDIO  the frames [track_frames] makes of a partition of the published AAC
            frames into PES packets ([aac_walk]; which partition depends on when
            the observer asked for FlushAudio - every frame is in exactly one
            group, in order),
   each as the access unit [expected_units] spells out: PID, stream id, PTS / DTS
   = 90 * (time stamp [+ composition offset]) rebased on the first frame of the
   track on the 33-bit clock, + 63000, random-access mark = key flag, payload
   byte for byte, continuous counters. *)
From Lal Require Remux.RemuxVideoWalkProofs Remux.RemuxVideoRunProofs Remux.RemuxWholeStreamProofs.
Module RVW := Lal.Remux.RemuxVideoWalkProofs.
Module RWS := Lal.Remux.RemuxWholeStreamProofs.

Theorem c06_ts_whole_stream : forall O (dec : O -> tsev -> bool) (app : O -> tsev -> list tsev -> O) (pp : O -> bytes -> O)
    acts o x' o' outs,
  run_actions O dec app pp remuxer_init o (acts ++ [ADispose]) = (x', o', outs) ->
  fq_done (x_filter x') = true ->
  Forall (fun m => bytes_ok (rm_payload m)) (msgs_of acts) -> Forall aac_only (msgs_of acts) ->
  Forall (fun e => te_dts0 e <> max_u64) (ts_events outs) ->
  demux_pid pid_video (ev_packets (ts_events outs))
  = Some (expected_units 0 (RWS.track_frames false (snd (RVW.video_walk (msgs_of acts)))))
  /\ exists groups,
       snd (aac_walk (msgs_of acts)) = concat groups /\ Forall (fun g => g <> []) groups
       /\ demux_pid pid_audio (ev_packets (ts_events outs))
          = Some (expected_units 0 (RWS.track_frames true (map RWS.group_view groups))).
Proof.
  intros O dec app pp acts o x' o' outs H Hd Hm Ha Hmax.
  assert (Hmsgs : msgs_of (acts ++ [ADispose]) = msgs_of acts) by (rewrite msgs_of_app; cbn; now rewrite app_nil_r).
  assert (Hm' : Forall (fun m => bytes_ok (rm_payload m)) (msgs_of (acts ++ [ADispose]))) by now rewrite Hmsgs.
  pose proof (c06_ts_stream O dec app pp _ o x' o' outs false H Hm') as Hv.
  pose proof (c06_ts_stream O dec app pp _ o x' o' outs true H Hm') as Hau.
  destruct (run_invariant O dec app pp _ o x' o' outs H) as (Hch & _ & _).
  assert (Hmaxt : forall audio, Forall (fun e => te_dts0 e <> max_u64) (track_evs audio (ts_events outs))).
  { intro audio. unfold track_evs. rewrite Forall_forall in *. intros e He. apply filter_In in He. apply Hmax, He. }
  split.
  - rewrite Hv. f_equal.
    rewrite (RWS.expected_units_ext _ _ 0 (RWS.track_frames_of_evs _ _ false Hch (Hmaxt false))). f_equal. f_equal.
    pose proof (RemuxVideoRunProofs.run_video_walk O dec app pp _ o x' o' outs H) as Hw.
    unfold popped in Hw. rewrite Hd, Hmsgs in Hw. exact Hw.
  - destruct (run_audio_complete O dec app pp acts o x' o' outs H Hd Ha) as (groups & G1 & G2 & G3 & G4).
    exists groups. split; [exact G1|]. split; [exact G4|].
    rewrite Hau. f_equal.
    rewrite (RWS.expected_units_ext _ _ 0 (RWS.track_frames_of_evs _ _ true Hch (Hmaxt true))). f_equal. f_equal.
    destruct Hch as (_ & _ & Hids). exact (RWS.audio_views _ groups Hids G2 G3).
Qed.
Print Assumptions c06_ts_whole_stream.

(* non-vacuity of (9): the stream of c06_nonvacuous - the walk yields one video frame (AUD, SPS, PPS, IDR;
   DTS0 = 90000, offset 40 ms, key) and the audio partition one PES of two frames *)
Example c06_whole_stream_nonvacuous :
  let ms := [f23_vsh; f23_ash; ex_key; ex_a1; ex_a2] in
  (exists v, snd (RVW.video_walk ms) = [v]
     /\ iterate_nalu_annexb (RVW.vv_raw v) = ([[9; 240]; [103; 100; 0; 31]; [104; 238]; [101; 136; 128]], None)
     /\ RVW.vv_dts0 v = 90000 /\ RVW.vv_cts v = 40 /\ RVW.vv_key v = true
     /\ f_dts (RWS.track_frame false 90000 v) = 0 /\ f_pts (RWS.track_frame false 90000 v) = 3600)
  /\ length (snd (aac_walk ms)) = 2%nat.
Proof. cbv zeta. split; [eexists; split; [vm_compute; reflexivity|repeat split; vm_compute; reflexivity]|vm_compute; reflexivity]. Qed.
