(* C03 - a stream has one input; foreign arrivals and departures never disturb it.
   Only property statements here; each is closed by [exact] (or a two-line proof). *)
From Coq Require Import NArith ZArith List Bool.
From Lal Require Import Group.GroupAdmission Group.GroupAdmissionProofs Group.GroupInvariantProofs Group.GroupAttemptProofs Group.GroupDeliveryProofs.
Import ListNotations.
Open Scope N_scope.

(* In every state the repaired server can reach, by any history of callbacks, API
   calls, ticks, connection ends and relay outcomes over any number of streams,
   every stream has at most one of its six input slots occupied. *)
Theorem c03_single_input : forall cf st, reachable fixed_tree cf st ->
  forall s g, get_group st s = Some g -> (occupied g <= 1)%nat.
Proof. intros cf st H. exact (single_input fixed_tree cf st eq_refl eq_refl H). Qed.
Print Assumptions c03_single_input.

(* F-09: on the pinned tree StartRtpPub accepts a second input *)
Theorem c03_single_input_refuted :
  exists cf h s g, get_group (fst (run pinned_tree cf init_state h)) s = Some g /\ occupied g = 2%nat.
Proof. exact single_input_refuted_pinned. Qed.
Print Assumptions c03_single_input_refuted.

(* An input that arrives (publish / ANNOUNCE / customize / start_rtp_pub / start_relay_pull /
   a relay pull that connects) while another session is the accepted input of the stream
   is refused - RRef = the publisher is disconnected, RCode = the API call reports failure,
   for a connecting pull the session is dropped - and the accepted input, its pipeline and the
   Group object stay as they were ([keeps]). *)
Theorem c03_refuse_when_busy : forall cf st e s g,
  arrival_stream e = Some s -> get_group st s = Some g -> has_in g = true ->
  (forall x, subject_of e = Some x -> occupies x s g = false) ->
  refusal e (snd (fst (step fixed_tree cf st e))) /\ keeps s g (fst (fst (step fixed_tree cf st e))).
Proof. intros cf st e s g. exact (refuse_when_busy fixed_tree cf st e s g eq_refl eq_refl). Qed.
Print Assumptions c03_refuse_when_busy.

(* Every event about a session other than the accepted input - its arrival and refusal, its
   departure, its kick, the success / failure / end of a relay pull that is not attached,
   subscribers coming and going, media of another session - leaves the input slots, the
   per-input pipeline and the Group object of the stream unchanged. *)
Theorem c03_noninterference : forall cf st e x s g,
  subject_of e = Some x -> get_group st s = Some g -> has_in g = true -> occupies x s g = false ->
  keeps s g (fst (fst (step fixed_tree cf st e))).
Proof. exact (foreign_event_step fixed_tree eq_refl eq_refl). Qed.
Print Assumptions c03_noninterference.

(* ... and delivery: in any reachable state, an event about an INPUT session other than the accepted
   input (a refused publisher or start_rtp_pub, the departure or kick of a session that is not the
   input, the success / failure / end of a relay pull that is not attached, media of another
   session) leaves in addition the subscriber set and the set of http-flv subscribers the accepted
   input's media is written to exactly as they were. *)
Theorem c03_noninterference_delivery : forall cf h e x s g,
  let st := fst (run fixed_tree cf init_state h) in
  input_event st e = true -> subject_of e = Some x ->
  get_group st s = Some g -> has_in g = true -> occupies x s g = false ->
  exists g', get_group (fst (fst (step fixed_tree cf st e))) s = Some g' /\ sim g g' /\ g_subs g' = g_subs g /\
             receivers (fst (fst (step fixed_tree cf st e))) g' = receivers st g.
Proof. exact input_event_delivery. Qed.
Print Assumptions c03_noninterference_delivery.

(* ... and for any number of them: the accepted input after the history h ++ es is the accepted input
   after h (same slots, pipeline, Group object, subscribers, media receivers) whenever every event
   of es is, when it happens, about an input session other than the accepted input of the stream -
   the history without those events. *)
Theorem c03_noninterference_history : forall cf es h s g,
  let st := fst (run fixed_tree cf init_state h) in
  get_group st s = Some g -> all_foreign cf st s es ->
  let st' := fst (run fixed_tree cf init_state (h ++ es)) in
  exists g', get_group st' s = Some g' /\ sim g g' /\ g_subs g' = g_subs g /\ receivers st' g' = receivers st g.
Proof. exact foreign_events_delivery. Qed.
Print Assumptions c03_noninterference_history.

(* F-10: on the pinned tree the end of a pull that never attached clears the accepted publisher *)
Theorem c03_noninterference_refuted :
  exists cf st e x s g,
    reachable pinned_tree cf st /\ subject_of e = Some x /\ get_group st s = Some g /\ has_in g = true /\
    occupies x s g = false /\ ~ keeps s g (fst (fst (step pinned_tree cf st e))).
Proof. exact foreign_event_refuted_pinned. Qed.
Print Assumptions c03_noninterference_refuted.

(* Start/stop notifications, per connection, after ANY history (events about any number of
   streams): the notifications carrying the id of connection n are - in this order - nothing if n
   was never seen or was refused; its start if it was admitted and is still there; its start then
   its stop once it has gone.  RTMP/RTSP publishers get publisher start/stop, RTMP/RTSP/HTTP-FLV/
   HTTP-TS subscribers subscriber start/stop, customize and PS publishers none.
   ([vsess st n] = kind, stream, admitted?, gone? of connection n.) *)
Theorem c03_notifications : forall cf h n,
  let '(st, log) := run fixed_tree cf init_state h in
  word log (WConn n) = conn_word (vsess st n).
Proof. exact notifications_conn. Qed.
Print Assumptions c03_notifications.

(* F-11: on the pinned tree a refused RTSP ANNOUNCE is reported as a departed publisher *)
Theorem c03_notifications_refuted :
  exists cf h n, word (snd (run pinned_tree cf init_state h)) (WConn n)
                 <> conn_word (vsess (fst (run pinned_tree cf init_state h)) n).
Proof. exact notifications_conn_refuted_pinned. Qed.
Print Assumptions c03_notifications_refuted.

(* The stat API after any history: the publisher it lists sits in a publisher slot of that group
   and is an admitted connection of that very stream that has not gone; every subscriber it lists
   is in the group's subscriber set and is an admitted, not yet gone subscriber of that stream. *)
Theorem c03_stat_attached : forall cf h s g,
  let st := fst (run fixed_tree cf init_state h) in
  get_group st s = Some g ->
  (forall n, stat_pub g = Some n ->
     exists kd, vsess st n = Some (kd, s, true, false) /\ (g_rtmp g = Some n \/ g_rtsp g = Some n \/ g_ps g = Some n)) /\
  (forall n, In n (stat_subs g) -> exists kd k, subk_of kd = Some k /\ In (k, n) (g_subs g) /\ vsess st n = Some (kd, s, true, false)).
Proof. exact stat_lists_attached. Qed.
Print Assumptions c03_stat_attached.

(* Relay notifications per pull attempt, after any history: none while the attempt is in flight;
   its start while it is attached; once it has ended exactly one stop, preceded by a start iff the
   attempt had attached. *)
Theorem c03_notifications_pull : forall cf h s i,
  let '(st, log) := run fixed_tree cf init_state h in
  att_word_ok (vatt st s i) (word log (WAtt s i)).
Proof. exact notifications_pull. Qed.
Print Assumptions c03_notifications_pull.

(* the pull session the stat API lists is an attached attempt of that stream *)
Theorem c03_stat_pull_attached : forall cf h s g i,
  let st := fst (run fixed_tree cf init_state h) in
  get_group st s = Some g -> stat_pull g = Some i -> vatt st s i = Some AAttached.
Proof. exact stat_pull_attached. Qed.
Print Assumptions c03_stat_pull_attached.

(* non-vacuity: a history with a publisher, a refused second publisher, a pull overtaken by the
   publisher, a subscriber, a kick and a departure reaches a state the theorems talk about *)
Example c03_nonvacuous :
  let h := [EStartPull 1 0 (-1) true; ERtmpPub 1 1 false; EFlvSub 1 2 false; ERtspPub 1 3 false; EPsPub 1 4 true;
            EPullSucc 1 1; EKick 1 (KConn 1); EGone 1; ETick 1] in
  let '(st, log) := run fixed_tree (mk_config false 1) init_state h in
  map n_kind log = [NPubStart; NSubStart; NPullStop; NPubStop] /\
  (exists g, get_group st 1 = Some g /\ occupied g = 0%nat /\ stat_subs g = [2]) /\
  vsess st 3 = Some (KRtspPub, 1, false, true) /\ vatt st 1 1 = Some AFinished.
Proof. vm_compute. split; [reflexivity|]. split; [eexists; split; [reflexivity|split; reflexivity]|split; reflexivity]. Qed.

(* ---- several commands on one RTSP command connection (GroupRtspShell.v) ------------------------------------
   An RTSP connection is not a session: every ANNOUNCE / DESCRIBE on it creates a new session object.
   [crun] runs histories in which connections receive further ANNOUNCE / DESCRIBE commands, PLAY, and
   end; every such history is a history of admission events, so the theorems above speak about it: *)
From Lal Require Import Group.GroupRtspShell Group.GroupRtspShellProofs.

Theorem c03_rtsp_conn_histories : forall fsh cf h,
  exists es, run fixed_tree cf init_state es =
             (cs_base (fst (crun fsh fixed_tree cf init_cstate h)), snd (crun fsh fixed_tree cf init_cstate h)).
Proof. exact shell_history. Qed.
Print Assumptions c03_rtsp_conn_histories.

(* ... for instance one input at most, notifications exactly start / start;stop per session, the stat view *)
Theorem c03_rtsp_conn_single_input : forall fsh cf h s g,
  get_group (cs_base (fst (crun fsh fixed_tree cf init_cstate h))) s = Some g -> (occupied g <= 1)%nat.
Proof. exact shell_single_input. Qed.
Print Assumptions c03_rtsp_conn_single_input.

Theorem c03_rtsp_conn_notifications : forall fsh cf h n,
  word (snd (crun fsh fixed_tree cf init_cstate h)) (WConn n)
  = conn_word (vsess (cs_base (fst (crun fsh fixed_tree cf init_cstate h))) n).
Proof. exact shell_notifications. Qed.
Print Assumptions c03_rtsp_conn_notifications.

(* What those theorems cannot say is whether the shell ever REPORTS the departure of a session.  On the
   repaired tree (a connection that carries a publish or play session answers a further ANNOUNCE /
   DESCRIBE with an error and ends), after any connection-level history: no session created on a
   connection that has ended is still admitted - so by the theorems above it occupies no input slot,
   is in no subscriber set, is not listed by stat and has got its stop notification -, and every
   admitted RTSP session is the one session of an open connection, held in the field whose departure
   handleTcpConnect reports when that connection ends. *)
Theorem c03_rtsp_conn_end : forall cf h,
  let cs := fst (crun true fixed_tree cf init_cstate h) in
  (forall c m kd s, In c (cs_conns cs) -> cn_open c = false -> In m (cn_members c) ->
                    vsess (cs_base cs) m <> Some (kd, s, true, false)) /\
  (forall n kd s, vsess (cs_base cs) n = Some (kd, s, true, false) -> rtsp_kind kd ->
     exists c, In c (cs_conns cs) /\ cn_open c = true /\ cn_members c = [n] /\
               ((kd = KRtspPub /\ cn_pub c = Some n /\ cn_sub c = None) \/ (kd = KRtspSub /\ cn_pub c = None /\ cn_sub c = Some n))).
Proof. exact conn_end_complete. Qed.
Print Assumptions c03_rtsp_conn_end.

(* F-C03-2, the tree before that repair: ANNOUNCE twice on one connection - the connection has ended, its
   first publisher is still admitted and still the publisher the stat view lists *)
Theorem c03_rtsp_conn_end_pinned_refuted :
  exists cf h c m kd s,
    let cs := fst (crun false fixed_tree cf init_cstate h) in
    In c (cs_conns cs) /\ cn_open c = false /\ In m (cn_members c) /\ vsess (cs_base cs) m = Some (kd, s, true, false) /\
    exists g, get_group (cs_base cs) s = Some g /\ stat_pub g = Some m.
Proof. exact conn_end_refuted_unrepaired. Qed.
Print Assumptions c03_rtsp_conn_end_pinned_refuted.

(* An RTMP connection is one session, and a session publishes or plays once.  A further publish / play
   command on the connection of an admitted RTMP session is refused; its whole effect is the departure
   of that session from the stream it was admitted to - the stream and the kind of the refused command
   play no part (pkg/rtmp/server_session.go doPublish / doPlay: the guard comes before anything of the
   command is recorded). *)
Theorem c03_rtmp_second_command : forall fsh fx cf cs s pb n x,
  find_sess n (st_sess (cs_base cs)) = Some x -> (s_kind x = KRtmpPub \/ s_kind x = KRtmpSub) ->
  s_acc x = true -> s_gone x = false -> s_closed x = false ->
  let '(cs1, r, ns) := cstep fsh fx cf cs (CRtmpCmd s n pb) in
  r = RRef /\
  cs_base cs1 = fst (fst (step fx cf (cs_base cs) (EGone n))) /\ ns = snd (step fx cf (cs_base cs) (EGone n)) /\
  cs_conns cs1 = cs_conns cs /\
  vsess (cs_base cs1) n = Some (s_kind x, s_stream x, true, true).
Proof. exact rtmp_cmd_departs. Qed.
Print Assumptions c03_rtmp_second_command.

(* ... so after any history such a command leaves the session listed by the stat of no stream (and,
   by c03_rtsp_conn_notifications, with its stop notified: its word is start;stop) *)
Theorem c03_rtmp_second_command_unlisted : forall fsh cf h s pb n x,
  let cs := fst (crun fsh fixed_tree cf init_cstate h) in
  find_sess n (st_sess (cs_base cs)) = Some x -> (s_kind x = KRtmpPub \/ s_kind x = KRtmpSub) ->
  s_acc x = true -> s_gone x = false -> s_closed x = false ->
  let cs1 := fst (crun fsh fixed_tree cf init_cstate (h ++ [CRtmpCmd s n pb])) in
  vsess (cs_base cs1) n = Some (s_kind x, s_stream x, true, true) /\
  forall s' g, get_group (cs_base cs1) s' = Some g -> stat_pub g <> Some n /\ ~ In n (stat_subs g).
Proof. exact rtmp_cmd_unlisted. Qed.
Print Assumptions c03_rtmp_second_command_unlisted.
(* ===================================================================================================== *)
(* Extension E3: ticks with the liveness sweep, removal of groups, byte counters (Group/GroupServerTick.v).
   Keep this block at the END of the file. *)
From Lal Require Import Group.GroupServerTick Group.GroupServerTickProofs.

(* Every history of the server WITH its one-second tick (removal of inactive groups, Group.Tick, the
   liveness sweep on tick counts that are multiples of 120) and with byte-counter events is a history
   of the admission / relay machine: same state, same notifications.  (The disposal of an idle network
   session is what kick_session does to it, the disposal of an idle relay session is followed by the
   Del its own goroutine reports.) *)
Theorem c03_srv_refines : forall cf h,
  exists bh, run fixed_tree cf init_state bh =
             (t_st (fst (trun fixed_tree cf tinit h)), snd (trun fixed_tree cf tinit h)).
Proof. exact trun_is_run. Qed.
Print Assumptions c03_srv_refines.

(* ... hence the theorems above hold over all those histories as well; the two state-wide ones: *)
Theorem c03_srv_single_input : forall cf h s g,
  get_group (t_st (fst (trun fixed_tree cf tinit h))) s = Some g -> (occupied g <= 1)%nat.
Proof. exact srv_single_input. Qed.
Print Assumptions c03_srv_single_input.

Theorem c03_srv_notifications : forall cf h n,
  word (snd (trun fixed_tree cf tinit h)) (WConn n) = conn_word (vsess (t_st (fst (trun fixed_tree cf tinit h))) n).
Proof. exact srv_notifications. Qed.
Print Assumptions c03_srv_notifications.

(* Ticks never disturb an accepted publisher: after any history, a tick with any count - whatever it
   removes, whatever relay pulls and pushes it starts or stops, whichever sessions (of this or of other
   streams, the publisher itself included) its sweep disposes - leaves the publisher the accepted input
   of its stream, with its pipeline and its Group object.  (An idle publisher is only disconnected; it
   leaves the slot when its shell reports the end, c16_idle_input_dropped_history.) *)
Theorem c03_tick_noninterference : forall cf h c s g,
  let ts := fst (trun fixed_tree cf tinit h) in
  get_group (t_st ts) s = Some g -> has_pub g = true ->
  keeps s g (t_st (fst (fst (tstep fixed_tree cf ts (TEv (ETick c)))))).
Proof. intros cf h c s g ts. exact (tick_keeps_publisher cf ts _ c s g (trun_inv_s cf h)). Qed.
Print Assumptions c03_tick_noninterference.

(* ... and byte-counter events do not touch the server at all *)
Theorem c03_bytes_noninterference : forall cf ts n k s i,
  t_st (fst (fst (tstep fixed_tree cf ts (TBytes n k)))) = t_st ts /\
  t_st (fst (fst (tstep fixed_tree cf ts (TAttBytes s i k)))) = t_st ts.
Proof. intros. split; [apply bytes_keep_state|apply att_bytes_keep_state]. Qed.
Print Assumptions c03_bytes_noninterference.

(* non-vacuity: two streams; the publisher of stream 1 is active, the one of stream 2 and the subscriber
   of stream 1 are idle: the sweep at tick 240 disconnects sessions 2 and 3 and nobody else, the accepted
   inputs stay in their slots *)
Example c03_srv_nonvacuous :
  let h := [TEv (ERtmpPub 1 1 false); TEv (ERtmpPub 2 2 false); TEv (EFlvSub 1 3 false); TEv (ETick 120);
            TBytes 1 16; TEv (ETick 239); TEv (ETick 240)] in
  let '(ts, log) := trun fixed_tree (mk_config false 0) tinit h in
  closed_waiting (t_st ts) = [2; 3] /\
  (exists g, get_group (t_st ts) 1 = Some g /\ g_rtmp g = Some 1) /\
  (exists g, get_group (t_st ts) 2 = Some g /\ g_rtmp g = Some 2) /\
  map n_kind log = [NPubStart; NPubStart; NSubStart].
Proof. vm_compute. split; [reflexivity|]. split; [eexists; split; reflexivity|]. split; [eexists; split; reflexivity|reflexivity]. Qed.

(* ---- what of an input's CONTENT reaches the group (GroupInputContent.v) --------------------------------------
   "neither that refusal nor ... changes the accepted input, its delivery to subscribers or the stream's outputs;
   media from a refused or departed input is never forwarded".  Besides slots, pipeline and media receivers the
   group holds the SDP of its RTSP input: an RTSP DESCRIBE of the stream is answered with it, RTSP subscribers
   waiting for it are fed it, the rtsp->rtmp remuxer derives the sequence headers from it. *)
From Lal Require Import Group.GroupInputContent Group.GroupInputContentProofs.

(* every content-level history is a connection-level history (hence an admission history): all theorems above apply *)
Theorem c03_content_histories : forall fsdp fsh fx cf h ds,
  crun fsh fx cf (ds_shell ds) (flat_map erase h) =
  (ds_shell (fst (drun fsdp fsh fx cf ds h)), snd (drun fsdp fsh fx cf ds h)).
Proof. exact drun_shell. Qed.
Print Assumptions c03_content_histories.

(* After ANY history on the repaired tree: if the group of stream s holds an SDP at all, it is that of the RTSP publisher
   or RTSP relay pull that IS its accepted input - the SDP of an input that was refused (a relay pull overtaken by a
   publisher, or stopped while connecting) or has departed is never there, nor any SDP when the input is of another
   kind or absent. *)
Theorem c03_sdp_is_of_accepted_input : forall fsh fx cf h s,
  let ds := fst (drun true fsh fx cf init_dstate h) in
  snd (fst (dstep true fsh fx cf ds (DSdp s))) = DRSdp None \/
  snd (fst (dstep true fsh fx cf ds (DSdp s))) = DRSdp (source_of (cs_base (ds_shell ds)) s).
Proof. exact sdp_is_of_accepted_input. Qed.
Print Assumptions c03_sdp_is_of_accepted_input.

(* "none" while an RTSP input is accepted happens only after ServerManager.Dispose (Group.Dispose ends with delIn, which
   drops SDP and pipeline, but leaves an attached relay pull in its slot): until then the group holds exactly the SDP of
   its accepted RTSP input *)
Theorem c03_sdp_exact_until_dispose : forall fsh fx cf h s, forallb not_dispose h = true ->
  let ds := fst (drun true fsh fx cf init_dstate h) in
  snd (fst (dstep true fsh fx cf ds (DSdp s))) = DRSdp (source_of (cs_base (ds_shell ds)) s).
Proof. exact sdp_exact_until_dispose. Qed.
Print Assumptions c03_sdp_exact_until_dispose.

(* one step, any state and any SDP table: an event other than Dispose that leaves the input slots of a group alone leaves its SDP alone;
   with the foreign-event theorem: an event whose subject is not the accepted input of s - a refused arrival, the
   end of a refused session, a relay pull that is overtaken - does not change the SDP of s *)
Theorem c03_unchanged_slots_keep_sdp : forall st st1 ce tbl s gb ga, is_dispose ce = false ->
  get_group st s = Some gb -> get_group st1 s = Some ga -> slots ga = slots gb ->
  lookup_sdp s (sdp_table true st st1 ce tbl) = lookup_sdp s tbl.
Proof. exact unchanged_slots_keep_sdp. Qed.
Print Assumptions c03_unchanged_slots_keep_sdp.

Theorem c03_foreign_event_keeps_sdp : forall cf st e x s g tbl,
  get_group st s = Some g -> has_in g = true ->
  subject_of e = Some x -> occupies x s g = false ->
  lookup_sdp s (sdp_table true st (fst (fst (step fixed_tree cf st e))) (CE e) tbl) = lookup_sdp s tbl.
Proof. exact foreign_event_keeps_sdp. Qed.
Print Assumptions c03_foreign_event_keeps_sdp.

(* media that the origin sends right behind its answer to play: nothing of it is written to any subscriber unless the
   group attached the pull *)
Theorem c03_unattached_pull_forwards_nothing : forall fsdp fsh fx cf ds s i,
  let '(ds1, r, _) := dstep fsdp fsh fx cf ds (DPullSuccMedia s i) in
  (forall a, find_att s i (st_atts (cs_base (ds_shell ds1))) = Some a -> a_state a <> AAttached) ->
  exists r0, r = DRMedia r0 [].
Proof. exact unattached_pull_forwards_nothing. Qed.
Print Assumptions c03_unattached_pull_forwards_nothing.

(* F-C03-4, the tree before the repair: an RTSP relay pull is connecting, an RTSP publisher is accepted, the origin
   answers DESCRIBE - the pull is refused and finished, the publisher is the input, and the group holds the SDP of
   the refused pull *)
Theorem c03_sdp_is_of_accepted_input_pinned_refuted :
  exists cf h g,
    let ds := fst (drun false true fixed_tree cf init_dstate h) in
    get_group (cs_base (ds_shell ds)) 1 = Some g /\ g_rtsp g = Some 1 /\ pp_rtsp (g_pp g) = None /\
    vatt (cs_base (ds_shell ds)) 1 1 = Some AFinished /\
    lookup_sdp 1 (ds_sdp ds) = Some (OAtt 1 1).
Proof. exact sdp_of_refused_pull_unrepaired. Qed.
Print Assumptions c03_sdp_is_of_accepted_input_pinned_refuted.

(* ---- start_rtp_pub whose port cannot be bound ------------------------------------------------------------------
   Group.StartRtpPub registers the new session as the stream's input and runs addIn BEFORE PubSession.Listen; when Listen
   fails it must take the session out again (delPsPubSession).  The event EPsPub carries the outcome of Listen, like the
   observer verdicts of the network arrivals.  A call that fails to listen is a REFUSED input: its whole effect is the
   state of a refusal (the group exists, the name is that of a refused, ended session), nothing is notified, the answer
   is an error; every group that existed is exactly what it was.  All theorems above quantify over all events, so they
   hold for this one: one input at most, foreign events keep the accepted input, no notification and no stat entry
   for the refused session. *)
From Lal Require Import Group.GroupListenFailProofs.

Theorem c03_listen_failure_is_refusal : forall fx cf st s n, fresh st n = true ->
  let '(st1, r, ns) := step fx cf st (EPsPub s n false) in
  st1 = add_sess (fst (get_or_create cf st s)) (refused_sess n KPsPub s) /\ ns = [] /\
  (r = RCode code_listen_fail RsNone None \/ r = RCode code_start_rtp_pub_fail RsDup None).
Proof. exact listen_fail_step. Qed.
Print Assumptions c03_listen_failure_is_refusal.

Theorem c03_listen_failure_keeps_groups : forall fx cf st s n s' g,
  get_group st s' = Some g -> get_group (fst (fst (step fx cf st (EPsPub s n false)))) s' = Some g.
Proof. exact listen_fail_keeps_groups. Qed.
Print Assumptions c03_listen_failure_keeps_groups.

(* the slot is free afterwards: the stream's group has the slots it had, none if the call created it *)
Theorem c03_listen_failure_leaves_slot_free : forall cf st s n, fresh st n = true ->
  match get_group (fst (fst (step fixed_tree cf st (EPsPub s n false)))) s with
  | Some g1 => slots g1 = match get_group st s with Some g0 => slots g0 | None => (None, None, None, None, None, None) end
  | None => False
  end.
Proof. exact listen_fail_no_input. Qed.
Print Assumptions c03_listen_failure_leaves_slot_free.

(* ---- server shells whose writes fail (GroupShellWrites.v) ----------------------------------------------------------
   "start/stop notifications are emitted exactly once per accepted network session, as matching pairs ... none for refused
   publishers".  The connection may break while the shell answers: "the w-th write fails" is a parameter of the arrival, and
   what it amounts to is a list of events of the layers below (which callbacks have fired is what the code does): an RTMP
   shell ends at the failed write, before the observer has seen the session when the write is one of the replies up to the
   answer to publish / play; an RTSP response that cannot be written closes the connection, the shell ends with it. *)
From Lal Require Import Group.GroupShellWrites Group.GroupShellWritesProofs.

(* RTMP, any write up to and including the answer to publish (7) / play (9): the observer never sees the session - the step
   notifies nothing (no stop without a start), creates and changes no group, and leaves the name that of a refused session *)
Theorem c03_rtmp_write_fail_silent : forall fsh fx cf cs pub s n w,
  (w <= rtmp_writes pub)%nat -> fresh (cs_base cs) n = true -> reserved cs n = false ->
  let e := if pub then ERtmpPub s n true else ERtmpSub s n true in
  write_fail_events (cs_base cs) (if pub then WRtmpPub else WRtmpSub) s n w = [CE e] /\
  let '(cs1, r, ns) := cstep fsh fx cf cs (CE e) in
  r = RRef /\ ns = [] /\ st_groups (cs_base cs1) = st_groups (cs_base cs) /\ cs_conns cs1 = cs_conns cs /\
  vsess (cs_base cs1) n = Some (if pub then KRtmpPub else KRtmpSub, s, false, true).
Proof. exact rtmp_write_fail_silent. Qed.
Print Assumptions c03_rtmp_write_fail_silent.

(* every failing-write position on every shell, after any history: the notifications of every connection are start (once
   admitted) then stop (once gone) - a stop only after a start, nothing for a session that was never admitted -, and a
   stream has one input at most *)
Theorem c03_write_fail_notifications : forall fsh cf h k s n w m,
  let st := cs_base (fst (crun fsh fixed_tree cf init_cstate h)) in
  let h' := h ++ write_fail_events st k s n w in
  word (snd (crun fsh fixed_tree cf init_cstate h')) (WConn m)
  = conn_word (vsess (cs_base (fst (crun fsh fixed_tree cf init_cstate h'))) m).
Proof. exact write_fail_notifications. Qed.
Print Assumptions c03_write_fail_notifications.

Theorem c03_write_fail_single_input : forall fsh cf h k s n w s' g,
  let st := cs_base (fst (crun fsh fixed_tree cf init_cstate h)) in
  let h' := h ++ write_fail_events st k s n w in
  get_group (cs_base (fst (crun fsh fixed_tree cf init_cstate h'))) s' = Some g -> (occupied g <= 1)%nat.
Proof. exact write_fail_single_input. Qed.
Print Assumptions c03_write_fail_single_input.
