(* C03 - a stream has one input; foreign arrivals and departures never disturb it.
   Only property statements here; each is closed by [exact] (or a two-line proof). *)
From Coq Require Import NArith ZArith List Bool.
From Lal Require Import Group.GroupAdmission Group.GroupAdmissionProofs.
Import ListNotations.
Open Scope N_scope.

(* In every state the repaired server can reach, by any history of callbacks, API
   calls, ticks, connection ends and relay outcomes over any number of streams,
   every stream has at most one of its six input slots occupied. *)
Theorem c03_single_input : forall cf st, reachable fixed_tree cf st ->
  forall s g, get_group st s = Some g -> (occupied g <= 1)%nat.
Proof. intros cf st H. exact (single_input fixed_tree cf st eq_refl eq_refl H). Qed.
Print Assumptions c03_single_input.

(* F-09: on the pinned tree StartRtpPub accepts a second input *)
Theorem c03_single_input_refuted :
  exists cf h s g, get_group (fst (run pinned_tree cf init_state h)) s = Some g /\ occupied g = 2%nat.
Proof. exact single_input_refuted_pinned. Qed.
Print Assumptions c03_single_input_refuted.
