(* C20 - concurrent sessions, API calls, ticks and shutdown are deadlock-free
   as far as mutexes are concerned, and the state behind Group.mutex /
   ServerManager.mutex is only touched with the mutex held.

   PARTIAL: decided here = (1) no reachable state of the lock machine is a
   deadlock, for any number of goroutines and steps, given that every
   "acquire b while holding a" lal can perform is an edge of [lock_graph];
   (2) the guarded-field facts.  [lock_graph], [unguarded_accesses] ... are
   produced from the Go source by the translator harness/cmd/lockgraph on every
   run (this file is re-checked against the regenerated Gen/LockGraph.v; the
   committed one is the baseline).  Not decided: data races in general,
   channel operations, blocking I/O under a lock.

   Only property statements here. *)
From Coq Require Import List NArith Bool.
From Lal Require Import Lock.LockOrder Lock.LockMachine Lock.LockOrderProofs Lock.LockProgress Lock.LockFacts.
From Lal Require Import Lock.PubOrder Lock.PubOrderProofs Lock.ChanOrder Lock.ChanProofs.
From Lal Require Import Gen.LockGraph.
Import ListNotations.
Open Scope N_scope.

(* ---- general theorem: any graph, any number of threads, any programs ------ *)

(* every thread runs a finite sequence of lock / unlock actions whose nested
   acquisitions follow edges of g; g passes the acyclicity check: then no
   reachable state contains a set of threads that wait for each other *)
Theorem c20_lock_order_general : forall g s0 s,
  acyclicb g = true -> pinit g s0 -> preach s0 s -> ~ pdeadlock s.
Proof. exact program_no_deadlock. Qed.
Print Assumptions c20_lock_order_general.

(* the same without programs: threads may request any lock at any time as long
   as each request follows an edge from every lock the thread holds *)
Theorem c20_lock_order_general_free : forall g s0 s,
  acyclicb g = true -> finit s0 -> freach g s0 s -> ~ fdeadlock s.
Proof. exact free_no_deadlock. Qed.
Print Assumptions c20_lock_order_general_free.

(* the boolean check means what it says *)
Theorem c20_acyclicb_sound : forall g, acyclicb g = true -> forall a, ~ path g a a.
Proof. exact acyclicb_sound. Qed.
Print Assumptions c20_acyclicb_sound.

(* progress: if moreover every program releases exactly what it acquires,
   then as long as some thread is unfinished some thread can take a step *)
Theorem c20_progress_general : forall g s0 s t,
  acyclicb g = true -> pinit g s0 -> (forall u, balanced (progs s0 u)) -> preach s0 s ->
  progs s t <> [] -> exists s', pstep s s'.
Proof. exact program_progress. Qed.
Print Assumptions c20_progress_general.

(* ---- instance: the graph extracted from lal -------------------------------- *)

Theorem c20_acyclic : acyclicb lock_graph = true.
Proof. vm_compute. reflexivity. Qed.
Print Assumptions c20_acyclic.

Theorem c20_no_lock_deadlock : forall s0 s,
  pinit lock_graph s0 -> preach s0 s -> ~ pdeadlock s.
Proof. intros s0 s. exact (program_no_deadlock lock_graph s0 s c20_acyclic). Qed.
Print Assumptions c20_no_lock_deadlock.

Theorem c20_no_lock_deadlock_free : forall s0 s,
  finit s0 -> freach lock_graph s0 s -> ~ fdeadlock s.
Proof. intros s0 s. exact (free_no_deadlock lock_graph s0 s c20_acyclic). Qed.
Print Assumptions c20_no_lock_deadlock_free.

(* no goroutine ever asks for a lock class it already holds (sync.Mutex is not
   reentrant; two Groups count as one class, so this also covers "lock group A
   then group B") *)
Theorem c20_no_self_deadlock : forall s0 s t l,
  pinit lock_graph s0 -> preach s0 s -> pwants s t l -> powner s l <> Some t.
Proof. intros s0 s t l. exact (program_no_self_deadlock lock_graph s0 s t l c20_acyclic). Qed.
Print Assumptions c20_no_self_deadlock.

Theorem c20_progress : forall s0 s t,
  pinit lock_graph s0 -> (forall u, balanced (progs s0 u)) -> preach s0 s ->
  progs s t <> [] -> exists s', pstep s s'.
Proof. intros s0 s t. exact (program_progress lock_graph s0 s t c20_acyclic). Qed.
Print Assumptions c20_progress.

(* the balance hypothesis on the code side: no function of lal / naza returns
   holding a lock it took, except the listed known finding (nazalog Out) *)
Theorem c20_no_lock_leak : lock_leak_sites = 0.
Proof. reflexivity. Qed.
Print Assumptions c20_no_lock_leak.

(* guarded fields ([guarded_by]): for every struct with a mutex, the sibling
   fields that are accessed at least once under that mutex and written after
   construction (plus the configured ones: all of logic.Group).  Every access of
   such a field that a goroutine can perform without holding the mutex is
   covered by the reviewed whitelist (immutable after construction: reads only;
   self-synchronised) *)
Theorem c20_fields_guarded : field_violations exempt_fields unguarded_accesses = [].
Proof. vm_compute. reflexivity. Qed.
Print Assumptions c20_fields_guarded.

(* the discipline above is evaluated for EVERY mutex class that is a struct field
   in lal or naza (Group, ServerManager, IpBlacklist, hls.ServerHandler,
   rtsp.BaseInSession, base.PeriodRecord, naza's logger / task pool ...): each
   class guards at least one inferred or configured field of its struct, or is
   listed as guarding none *)
Theorem c20_guard_classes_covered :
  classes_covered mutex_field_classes guarded_by mutex_classes_without_guarded_fields = true.
Proof. vm_compute. reflexivity. Qed.
Print Assumptions c20_guard_classes_covered.

(* the translator attributed every Lock / Unlock / Once.Do in lal and naza to a class *)
Theorem c20_lock_sites_resolved : unresolved_lock_sites = 0.
Proof. reflexivity. Qed.
Print Assumptions c20_lock_sites_resolved.

(* ---- publication order -------------------------------------------------------- *)

(* general: the boolean check on an abstract construction trace (write f |
   publish t | call bag) excludes, for every linearisation of the trace, an
   unsynchronised write of a shared field after a publication that covers the
   field's owner *)
Theorem c20_publication_check_sound : forall owner shared covers exempt tr l,
  lin tr l -> safeb owner shared covers exempt [] tr = true ->
  ~ races_at owner shared covers exempt [] l.
Proof. intros owner shared covers exempt tr l Hl Hs. exact (safeb_sound owner shared covers exempt tr l Hl [] Hs). Qed.
Print Assumptions c20_publication_check_sound.

(* instance: the traces the translator extracted from the construction paths
   of lal's sessions and connections (rtmp / rtsp / http-flv / http-ts / hls /
   gb28181 sessions, pull and push sessions, naza connections) *)
Definition pub_owner (f : N) : N := assoc_default pub_field_owner f 0.
Definition pub_sharedb (t f : N) : bool := mem_pair pub_shared t f.
Definition pub_coversb (t t' : N) : bool := mem_pair pub_covers t t'.
Definition pub_exemptb (t f : N) : bool := mem_pair pub_exempt t f.

Theorem c20_publication_order :
  forallb (safeb pub_owner pub_sharedb pub_coversb pub_exemptb []) pub_traces = true.
Proof. vm_compute. reflexivity. Qed.
Print Assumptions c20_publication_order.

Theorem c20_publication_no_race : forall tr l,
  In tr pub_traces -> lin tr l -> ~ races_at pub_owner pub_sharedb pub_coversb pub_exemptb [] l.
Proof.
  intros tr l Hin Hl. apply (safeb_sound pub_owner pub_sharedb pub_coversb pub_exemptb tr l Hl []).
  pose proof c20_publication_order as H. rewrite forallb_forall in H. exact (H tr Hin).
Qed.
Print Assumptions c20_publication_no_race.

(* the same property as decided by the translator's context-sensitive walk, which carries the
   set of published types through calls, returns and loops (order across activations) *)
Theorem c20_publication_walk : pub_walk_violations = 0.
Proof. reflexivity. Qed.
Print Assumptions c20_publication_walk.

(* the order matters: publish-then-write is rejected and has a racing linearisation *)
Theorem c20_publication_refuted :
  safeb (fun _ => 0) (fun _ _ => true) (fun _ _ => true) (fun _ _ => false) [] [PPub 0; PWr 0] = false /\
  exists l, lin [PPub 0; PWr 0] l /\ races_at (fun _ => 0) (fun _ _ => true) (fun _ _ => true) (fun _ _ => false) [] l.
Proof.
  split; [reflexivity|].
  apply (safeb_complete_simple (fun _ => 0) (fun _ _ => true) (fun _ _ => true) (fun _ _ => false)); [|reflexivity].
  intros e [<-|[<-|[]]]; exact I.
Qed.
Print Assumptions c20_publication_refuted.

(* ---- channel discipline --------------------------------------------------------- *)

(* general: for one channel that is closed somewhere, any number of threads running the actions
   of a recognised protocol never panic (no send on the closed channel, no second close), in any
   interleaving:
   (a) every send and the close run as sections under one mutex that test / set a closed flag *)
Theorem c20_chan_mutex_flag_safe : forall s0, proto_a s0 -> ~ cpanics s0.
Proof. exact proto_a_safe. Qed.
Print Assumptions c20_chan_mutex_flag_safe.

(* (b) the closer is the only sender and closes after its last send *)
Theorem c20_chan_unique_sender_safe : forall s0 owner, proto_b s0 owner -> ~ cpanics s0.
Proof. exact proto_b_safe. Qed.
Print Assumptions c20_chan_unique_sender_safe.

(* (d) every sender goroutine is joined (WaitGroup) before the close *)
Theorem c20_chan_joined_safe : forall s0 closer senders, proto_d s0 closer senders -> ~ cpanics s0.
Proof. exact proto_d_safe. Qed.
Print Assumptions c20_chan_joined_safe.

(* without a protocol - a flag tested before the send, but not atomically with it - an
   interleaving panics: the seeded HttpNotify.Dispose shape *)
Theorem c20_chan_unprotected_refuted : cpanics unprotected_start.
Proof. exact unprotected_send_panics. Qed.
Print Assumptions c20_chan_unprotected_refuted.

(* instance: every send site of a channel that lal or naza closes somewhere is justified by one of
   the protocols (channels that are never closed need nothing: [chan_closed] lists the closed ones) *)
Theorem c20_channel_discipline : sends_justified chan_send_sites = true.
Proof. vm_compute. reflexivity. Qed.
Print Assumptions c20_channel_discipline.

(* double close: closers that go through a test-and-set section (sync.Once.Do, a flag under a mutex)
   never close twice, in any interleaving; two plain closes do *)
Theorem c20_chan_close_once_safe : forall s0,
  closed s0 = false -> flag s0 = false ->
  (forall t, only (fun a => match a with CFlagClose => true | _ => false end) (cprogs s0 t)) ->
  ~ cpanics s0.
Proof. exact once_close_safe. Qed.
Print Assumptions c20_chan_close_once_safe.

Theorem c20_chan_double_close_refuted : cpanics double_close_start.
Proof. exact double_close_panics. Qed.
Print Assumptions c20_chan_double_close_refuted.

(* instance: every close site in lal and naza is shown to run at most once per channel *)
Theorem c20_channel_close_once : closes_justified chan_close_sites = true.
Proof. vm_compute. reflexivity. Qed.
Print Assumptions c20_channel_close_once.

(* instance: every slice / map header of guarded memory that a function hands out (return, send, callback,
   interface method) is fresh, handed over, or reviewed *)
Theorem c20_escapes_justified : escapes_justified escape_sites = true.
Proof. vm_compute. reflexivity. Qed.
Print Assumptions c20_escapes_justified.

(* ---- the hypotheses matter -------------------------------------------------- *)

(* an inverted order (a then b, and b then a) is rejected by the check and does deadlock *)
Theorem c20_inverted_order_refuted :
  acyclicb inverted_graph = false /\
  exists s, pinit inverted_graph inverted_start /\ preach inverted_start s /\ pdeadlock s.
Proof. exact inverted_order_deadlocks. Qed.
Print Assumptions c20_inverted_order_refuted.

(* known finding C20-naza-log-lock-leak, in the abstract: a goroutine that
   returns holding a lock and takes it again is deadlocked on its own *)
Theorem c20_lock_leak_refuted : exists s, preach leak_start s /\ pdeadlock s.
Proof. exact leaked_lock_self_deadlock. Qed.
Print Assumptions c20_lock_leak_refuted.

(* ---- non-vacuity -------------------------------------------------------------- *)

(* lal really nests locks, and every edge is realised by a program the theorem covers *)
Example c20_graph_not_empty : lock_graph <> [].
Proof. discriminate. Qed.

Example c20_edges_are_programs : forall a b,
  In (a, b) lock_graph -> respects lock_graph (fun _ => False) [Acq a; Acq b; Rel b; Rel a].
Proof. exact (edge_program_respects lock_graph). Qed.
