(* C14 - access control admits exactly the authorised requests.
   Only property statements here; each is closed by [exact] / a one-line proof.
   The models are Auth/AuthSimple.v, AuthRtsp.v, AuthPaths.v, AuthBlacklist.v (tied to
   the Go code by the correspondence check); the vocabulary of the statements is
   Auth/AuthSpec.v.  MD5, base64, url.ParseQuery and non-ASCII lower-casing are
   universally quantified functions (no law is needed except where stated). *)
From Lal Require Import Common.LBytes Auth.AuthStr Auth.AuthSimple Auth.AuthRtsp Auth.AuthPaths Auth.AuthBlacklist Auth.AuthGate
  Auth.AuthServeHls Auth.AuthSpec Auth.AuthSimpleProofs Auth.AuthRtspProofs Auth.AuthPathsProofs Auth.AuthBlacklistProofs
  Auth.AuthServeHlsProofs.
Open Scope N_scope.

(* ---- simple auth ---------------------------------------------------------- *)

(* a publish (dir 0), play (dir 1) or playlist (dir 2) request is admitted <-> the flag
   of its protocol and direction is off, or its URL carries (first lal_secret value,
   either letter case) md5(key+stream) or the configured override secret *)
Theorem c14_simple_iff : forall md5raw parse_query lower_uni cfg dir proto stream param,
  sa_decide md5raw parse_query lower_uni cfg dir proto stream param = SaOk <->
  (flag_for cfg dir proto = false \/ carries_secret md5raw parse_query lower_uni cfg stream param).
Proof. exact simple_iff. Qed.
Print Assumptions c14_simple_iff.

(* protocols whose flag is off are admitted whatever the other flags and the URL are,
   and the decision for one protocol/direction depends on its own flag only *)
Theorem c14_flags_independent : forall md5raw parse_query lower_uni cfg cfg' dir proto stream param,
  (flag_for cfg dir proto = false ->
   sa_decide md5raw parse_query lower_uni cfg dir proto stream param = SaOk) /\
  (sa_key cfg = sa_key cfg' -> sa_override cfg = sa_override cfg' ->
   flag_for cfg dir proto = flag_for cfg' dir proto ->
   sa_decide md5raw parse_query lower_uni cfg dir proto stream param =
   sa_decide md5raw parse_query lower_uni cfg' dir proto stream param).
Proof. intros. split; [apply flag_off_admits|apply flags_independent]. Qed.
Print Assumptions c14_flags_independent.

(* the secret is accepted in either letter case: any ASCII value that lower-cases to it *)
Theorem c14_simple_either_case : forall md5raw parse_query lower_uni cfg dir proto stream param q v,
  parse_query param = Some q -> v = query_get q secret_name ->
  is_ascii v = true -> map ascii_lower v = md5hex md5raw (sa_key cfg ++ stream) ->
  md5raw (sa_key cfg ++ stream) <> [] ->
  sa_decide md5raw parse_query lower_uni cfg dir proto stream param = SaOk.
Proof. exact either_case_admitted. Qed.
Print Assumptions c14_simple_either_case.

(* a rejected play request gets an error back, is not listed by the stat API and has
   nothing written to its connection; a session that a kick request finds is disconnected
   (admission step of ServerManager.OnNew*SubSession;
   driven end to end for HTTP-FLV and HTTP-TS subscribers) *)
Theorem c14_rejected_no_session : forall md5raw parse_query lower_uni cfg proto stream param,
  let d := sa_decide md5raw parse_query lower_uni cfg 1 proto stream param in
  (d <> SaOk -> go_code (sm_on_new_http_sub d) <> 0 /\ go_listed (sm_on_new_http_sub d) = 0 /\ go_wrote (sm_on_new_http_sub d) = false)
  /\ (d = SaOk -> sm_on_new_http_sub d = mk_gate_out 0 1 true true true)
  /\ (go_kicked (sm_on_new_http_sub d) = true -> go_closed (sm_on_new_http_sub d) = true).
Proof.
  intros. split; [destruct d; intros H; try congruence; repeat split; discriminate|].
  split; [intros ->; reflexivity|destruct d; cbn; congruence].
Qed.
Print Assumptions c14_rejected_no_session.

(* F-19, pinned tree: a request carrying the configured override secret is rejected
   when that secret has an upper-case letter *)
Theorem c14_simple_pinned_refuted :
  exists md5raw parse_query lower_uni cfg dir proto stream param,
    flag_for cfg dir proto = true /\
    carries_secret md5raw parse_query lower_uni cfg stream param /\
    sa_decide_gen md5raw parse_query lower_uni false cfg dir proto stream param <> SaOk.
Proof. exact simple_pinned_refuted. Qed.
Print Assumptions c14_simple_pinned_refuted.

(* ---- RTSP ----------------------------------------------------------------- *)

(* with RTSP authentication on, a DESCRIBE is answered with the stream description
   <-> its Authorization header carries valid Basic (method 0) / Digest (method 1)
   credentials of the configured method - whatever earlier requests of the connection
   left in the session's Auth context [a].  (A user name with a colon cannot be
   expressed in Basic credentials, RFC 7617.) *)
Theorem c14_rtsp_iff : forall md5raw b64dec c a hdr,
  rc_enable c = true -> ~ In colon (rc_user c) ->
  (snd (handle_describe md5raw b64dec c a hdr) = DrSdp <-> valid_credentials md5raw b64dec c hdr).
Proof. exact rtsp_iff. Qed.
Print Assumptions c14_rtsp_iff.

(* a whole command connection - any sequence of DESCRIBE / ANNOUNCE requests, replays
   included.  One command connection carries at most one play / publish session, so for
   the i-th processed request:
   - while the connection carries no session (no earlier request was admitted) a DESCRIBE
     is answered with the description exactly when its own header is valid (challenge or
     close otherwise), and an ANNOUNCE (not subject to RTSP authentication in lal) is
     accepted exactly when the observer accepts the publisher;
   - once a request was admitted every later DESCRIBE / ANNOUNCE closes the connection,
     whatever it carries (refused for that reason, not for its credentials). *)
Theorem c14_rtsp_session : forall md5raw b64dec c,
  rc_enable c = true -> ~ In colon (rc_user c) ->
  forall reqs a has i r,
    nth_error (rtsp_conn md5raw b64dec c a has reqs) i = Some r ->
    exists q, nth_error reqs i = Some q /\
      if has || existsb is_admitted (firstn i (rtsp_conn md5raw b64dec c a has reqs)) then r = DrClosed
      else match q with
           | RqDescribe h => (r = DrSdp <-> valid_credentials md5raw b64dec c h)
           | RqAnnounce ok => (r = DrAnnounced <-> ok = true)
           end.
Proof. exact rtsp_conn_spec. Qed.
Print Assumptions c14_rtsp_session.

(* valid ones are always accepted, client side: the Basic header lal's own client
   builds for the configured user is accepted (law: base64 decode after encode) *)
Theorem c14_rtsp_basic_client_accepted : forall md5raw b64dec b64enc,
  (forall x, b64dec (b64enc x) = Some x) ->
  forall c a cl,
  rc_enable c = true -> rc_method c = 0%Z -> ~ In colon (rc_user c) -> rc_user c <> [] ->
  au_typ cl = s_basic -> au_username cl = rc_user c -> au_password cl = rc_pass c ->
  forall method uri,
  snd (handle_describe md5raw b64dec c a (make_authorization md5raw b64enc cl method uri)) = DrSdp.
Proof. intros md5raw b64dec b64enc H. exact (rtsp_basic_client_accepted md5raw b64dec b64enc H). Qed.
Print Assumptions c14_rtsp_basic_client_accepted.

(* F-17, pinned tree: valid Basic credentials are rejected *)
Theorem c14_rtsp_pinned_refuted :
  exists md5raw b64dec c hdr,
    rc_enable c = true /\ ~ In colon (rc_user c) /\ valid_credentials md5raw b64dec c hdr /\
    snd (handle_describe_gen md5raw b64dec false false c auth_zero hdr) <> DrSdp.
Proof. exact rtsp_pinned_basic_refuted. Qed.
Print Assumptions c14_rtsp_pinned_refuted.

(* F-17b, tree before "fix: rtsp DESCRIBE auth starts from a fresh Auth per request":
   a header without valid credentials is answered when it follows a valid request *)
Theorem c14_rtsp_stale_refuted :
  exists md5raw b64dec c h1 h2,
    rc_enable c = true /\ ~ In colon (rc_user c) /\ ~ valid_credentials md5raw b64dec c h2 /\
    describe_session_gen md5raw b64dec true false c auth_zero [h1; h2] = [DrSdp; DrSdp].
Proof. exact rtsp_pinned_stale_refuted. Qed.
Print Assumptions c14_rtsp_stale_refuted.

(* ---- black-list ----------------------------------------------------------- *)

(* after Add(ip, dur) at time now, every Has(ip) - hence every HLS request of that
   address - is refused for any history of other operations as long as the clock has
   not passed now+dur (the clock does not run backwards, ip is not added again) *)
Theorem c14_blacklist : forall t ip dur now ops,
  Forall (op_ok ip) ops -> (total_sleep ops <= dur)%Z ->
  Forall (fun kb => fst kb = ip -> snd kb = true) (bl_run_tagged (bl_add t ip dur now) now ops)
  /\ map snd (bl_run_tagged (bl_add t ip dur now) now ops) = bl_run (bl_add t ip dur now) now ops.
Proof.
  intros t ip dur now ops H1 H2. split; [|apply bl_run_tagged_snd].
  apply (blacklist_until_expiry ops _ now ip (now + dur)%Z); [apply lookup_add_same|exact H1|].
  apply Zplus_le_compat_l. exact H2.
Qed.
Print Assumptions c14_blacklist.

(* and it is served again once the expiry has passed / when it was never listed *)
Theorem c14_blacklist_expiry : forall t ip now,
  (forall u, bl_uniq t -> bl_lookup ip t = Some u -> (u < now)%Z -> snd (bl_has t ip now) = false) /\
  (bl_lookup ip t = None -> snd (bl_has t ip now) = false) /\
  (forall k d n, bl_uniq t -> bl_uniq (bl_add t k d n) /\ bl_uniq (fst (bl_has t k n))).
Proof.
  intros t ip now. split; [intros u; apply blacklist_expired|]. split; [apply blacklist_absent|].
  intros k d n H. split; [now apply uniq_add|now apply uniq_has].
Qed.
Print Assumptions c14_blacklist_expiry.

(* ---- paths ---------------------------------------------------------------- *)

(* the HLS file server: for every request path the file handed to ReadFile is the
   cleaned output root followed by ordinary path elements (never "..") *)
Theorem c14_serve_confined : forall root path file,
  root <> [] -> hls_serve_file path root = Some file -> inside root file.
Proof. exact serve_confined. Qed.
Print Assumptions c14_serve_confined.

(* every stream name: the HLS directory, live playlist, record playlist and fragment
   file derived for it lie inside the HLS root; the flv / mpegts record file lies
   inside the record root *)
Theorem c14_write_confined : forall root name idx ts stamp ext,
  root <> [] ->
  Forall (inside root) (muxer_paths root name idx ts) /\
  (~ In slash stamp -> ~ In slash ext -> inside root (record_file root name stamp ext)).
Proof. intros. split; [now apply write_confined|now apply record_confined]. Qed.
Print Assumptions c14_write_confined.

(* F-18, pinned tree: GetMuxerOutPath("/data/hls/", "../../etc") = "/etc", and the
   request /hls/..-1-2.ts is served from /data/..-1-2.ts *)
Theorem c14_confined_pinned_refuted :
  (exists root name, root <> [] /\ ~ inside root (get_muxer_out_path_gen false root name)
                     /\ get_muxer_out_path_gen false root name = [47; 101; 116; 99]) /\
  (exists root path file, root <> [] /\ hls_serve_file_gen false path root = Some file /\ ~ inside root file).
Proof. split; [exact write_pinned_refuted|exact serve_pinned_refuted]. Qed.
Print Assumptions c14_confined_pinned_refuted.

(* ---- composition in ServerManager -------------------------------------------- *)

(* serveHls, one request, EVERY query string: the request gets past the gates (is seen by
   hls.ServerHandler) <-> (playlist request: hls_m3u8_enable is off or the URL carries the
   secret) and its address is not black-listed.  The right-hand side mentions nothing else:
   session_id or any other parameter, the session table, the sub-session switch [sub] and
   the clock play no part; a fragment request needs no secret (lal's design). *)
Theorem c14_hls_admission : forall md5raw parse_query lower_uni parse_query_all cfg sub root st now_ms ip path q,
  reaches_handler (snd (serve_hls md5raw parse_query lower_uni parse_query_all cfg sub root st now_ms ip path q)) <->
  ((beq (snd (filename_and_type (last_item_of_path path))) s_m3u8 = true ->
    sa_hls_m3u8 cfg = false \/
    carries_secret md5raw parse_query lower_uni cfg (ri_stream (get_request_info path root)) q)
   /\ snd (bl_has (hs_bl st) ip (now_ms / 1000)%Z) = false).
Proof. exact hls_admission. Qed.
Print Assumptions c14_hls_admission.

(* ... and "carries the secret" looks at the first lal_secret value only: query strings
   whose parses agree on it are treated alike whatever else they contain (extra parameters
   in any position, session_id, duplicates, order) *)
Theorem c14_secret_first_value : forall md5raw parse_query lower_uni cfg stream q1 q2 l1 l2,
  parse_query q1 = Some l1 -> parse_query q2 = Some l2 ->
  query_get l1 secret_name = query_get l2 secret_name ->
  (carries_secret md5raw parse_query lower_uni cfg stream q1 <-> carries_secret md5raw parse_query lower_uni cfg stream q2).
Proof. exact carries_secret_first_value. Qed.
Print Assumptions c14_secret_first_value.

(* serveHls, whole histories (requests of any address, add_ip_blacklist, kick_session, stat,
   clock advances with the handler's sweeps): after add_ip_blacklist(ip, dur) at time now, NO
   request of that address - playlist or fragment, either URL form, any query, simple auth
   and sub-session feature on or off - is answered with HLS content or given a session
   until now+dur has passed *)
Theorem c14_hls_blacklisted_no_content : forall md5raw parse_query lower_uni parse_query_all cfg sub root timeout_ms phase st ip dur now_ms ops,
  let st1 := mk_hls_state (bl_add (hs_bl st) ip dur (now_ms / 1000)%Z) (hs_sessions st) (hs_next st) in
  Forall (sh_op_ok ip) ops -> (sh_total_sleep ops <= dur)%Z ->
  Forall (from_ip ip no_content)
         (sh_trace md5raw parse_query lower_uni parse_query_all cfg sub root timeout_ms phase st1 now_ms ops)
  /\ map snd (sh_trace md5raw parse_query lower_uni parse_query_all cfg sub root timeout_ms phase st1 now_ms ops)
     = sh_run md5raw parse_query lower_uni parse_query_all cfg sub root timeout_ms phase st1 now_ms ops.
Proof.
  intros. split; [|apply trace_snd].
  apply (hls_blacklisted_no_content md5raw parse_query lower_uni parse_query_all cfg sub root timeout_ms phase ops _ now_ms ip (now_ms / 1000 + dur)%Z);
    [apply lookup_add_same|assumption|]. now apply Zplus_le_compat_l.
Qed.
Print Assumptions c14_hls_blacklisted_no_content.

(* whatever serveHls serves lies inside the root and got past both gates *)
Theorem c14_hls_served_confined : forall md5raw parse_query lower_uni parse_query_all cfg sub root st now_ms ip path q st' p,
  root <> [] -> serve_hls md5raw parse_query lower_uni parse_query_all cfg sub root st now_ms ip path q = (st', HrFile p) ->
  inside root p /\
  reaches_handler (snd (serve_hls md5raw parse_query lower_uni parse_query_all cfg sub root st now_ms ip path q)).
Proof. exact hls_served_confined. Qed.
Print Assumptions c14_hls_served_confined.

(* a kick of an HLS sub session cannot be undone.  [sid] is any session id handed out so
   far.  After kick_session(sid), whatever arrives in the window before the handler's next
   sweep - requests carrying sid included: the handler still answers those (its lookup does
   not consult the disposed flag; a window of at most one sweep period) but their keep-alive
   does not clear the flag - once the clock has advanced by one second or more (>= one
   sweep) sid is registered nowhere, and in every later history no request that carries sid
   is served a file.  Any timeout, any ticker phase. *)
Theorem c14_hls_kick_final : forall md5raw parse_query lower_uni parse_query_all cfg root timeout_ms phase sid st now_ms window s later,
  issued sid st -> (1 <= s)%Z ->
  let after := sh_exec md5raw parse_query lower_uni parse_query_all cfg true root timeout_ms phase st now_ms
                       (ShKick sid :: window ++ [ShSleep s]) in
  absent sid (hs_sessions (fst after)) /\
  Forall (carrying parse_query_all sid)
         (sh_trace md5raw parse_query lower_uni parse_query_all cfg true root timeout_ms phase (fst after) (snd after) later).
Proof. exact hls_kick_final. Qed.
Print Assumptions c14_hls_kick_final.

(* expiry: a session whose entries are all idle for longer than the timeout (or disposed)
   when the next sweep runs is removed by it, and no later request carrying its id is served *)
Theorem c14_hls_expiry_final : forall md5raw parse_query lower_uni parse_query_all cfg root timeout_ms phase sid st now_ms s later,
  issued sid st -> (1 <= s)%Z ->
  (forall y, In y (hs_sessions st) -> hx_id y = sid ->
             hx_disposed y = true \/ (hx_last y + timeout_ms < next_tick phase now_ms)%Z) ->
  let after := sh_exec md5raw parse_query lower_uni parse_query_all cfg true root timeout_ms phase st now_ms [ShSleep s] in
  absent sid (hs_sessions (fst after)) /\
  Forall (carrying parse_query_all sid)
         (sh_trace md5raw parse_query lower_uni parse_query_all cfg true root timeout_ms phase (fst after) (snd after) later).
Proof. exact hls_expiry_final. Qed.
Print Assumptions c14_hls_expiry_final.

(* the six session callbacks of ServerManager: each consults the flag of its own
   protocol and direction, and attaches the session iff the request is authorised *)
Theorem c14_callbacks : forall md5raw parse_query lower_uni cfg stream param,
  (forall cb, sm_callback cb (sa_decide md5raw parse_query lower_uni cfg (callback_dir cb) (callback_proto cb) stream param) = (0, true)
     <-> (flag_for cfg (callback_dir cb) (callback_proto cb) = false
          \/ carries_secret md5raw parse_query lower_uni cfg stream param))
  /\ flag_for cfg (callback_dir 0) (callback_proto 0) = sa_pub_rtmp cfg
  /\ flag_for cfg (callback_dir 1) (callback_proto 1) = sa_sub_rtmp cfg
  /\ flag_for cfg (callback_dir 2) (callback_proto 2) = sa_sub_flv cfg
  /\ flag_for cfg (callback_dir 3) (callback_proto 3) = sa_sub_ts cfg
  /\ flag_for cfg (callback_dir 4) (callback_proto 4) = sa_pub_rtsp cfg
  /\ flag_for cfg (callback_dir 5) (callback_proto 5) = sa_sub_rtsp cfg.
Proof.
  intros. split; [|repeat split].
  intros cb. rewrite <- simple_iff. unfold sm_callback.
  destruct (sa_decide md5raw parse_query lower_uni cfg (callback_dir cb) (callback_proto cb) stream param);
    split; intros H; try reflexivity; try discriminate.
Qed.
Print Assumptions c14_callbacks.

(* ---- non-vacuity ---------------------------------------------------------- *)
(* the hypotheses are met by concrete inputs: an admitted and a rejected request with
   the flag on, valid credentials that exist, a path that is inside *)
Example c14_nonvacuous :
  (* secret of key "k", stream "s" under a toy digest; flag pub_rtmp on *)
  let md5raw := fun x : bytes => x in
  let cfg := mk_sa_config [107] [] true false false false false false false in
  sa_decide md5raw (fun _ => Some [(secret_name, [54; 98; 55; 51])]) (fun s => s) cfg 0 proto_rtmp [115] [] = SaOk
  /\ sa_decide md5raw (fun _ => Some [(secret_name, [54; 98; 55; 52])]) (fun s => s) cfg 0 proto_rtmp [115] [] = SaErrFailed
  /\ flag_for cfg 0 proto_rtmp = true
  /\ valid_credentials md5raw (fun _ => Some [117; 58; 112]) (mk_rtsp_conf true 0 [117] [112]) (s_basic_sp ++ [100; 84; 112; 119])
  /\ snd (handle_describe md5raw (fun _ => Some [117; 58; 112]) (mk_rtsp_conf true 0 [117] [112]) auth_zero (s_basic_sp ++ [100; 84; 112; 119])) = DrSdp
  /\ hls_serve_file [47; 104; 108; 115; 47; 115; 49; 46; 109; 51; 117; 56] [47; 100; 47] = Some [47; 100; 47; 115; 49; 47; 112; 108; 97; 121; 108; 105; 115; 116; 46; 109; 51; 117; 56]
  /\ hls_serve_file [47; 104; 108; 115; 47; 46; 46; 46; 109; 51; 117; 56] [47; 100; 47] = None
  /\ muxer_paths [47; 100] [46; 46] 0 1 = [[47; 100; 47; 95; 95]; [47; 100; 47; 95; 95; 47; 112; 108; 97; 121; 108; 105; 115; 116; 46; 109; 51; 117; 56];
       [47; 100; 47; 95; 95; 47; 114; 101; 99; 111; 114; 100; 46; 109; 51; 117; 56]; [47; 100; 47; 95; 95; 47; 95; 95; 45; 49; 45; 48; 46; 116; 115]].
Proof.
  repeat split; try (vm_compute; reflexivity).
  left. split; [reflexivity|]. exists [100; 84; 112; 119]. split; reflexivity.
Qed.
