(* C16 - when an input ends every output is finalised once and the name starts
   clean.  Statements only; the fan-out model of C01/C02. *)
From Lal Require Import Common.LBytes Group.GroupMsg Group.GroupGopCache Group.GroupFanout
  Group.GroupGopCacheProofs Group.GroupFanoutProofs Group.GroupFanoutCacheProofs Group.GroupFanoutAdmitProofs
  Group.GroupFanoutRestartProofs Group.GroupFanoutHookProofs Group.GroupIdle Group.GroupIdleProofs.
Open Scope N_scope.

(* Teardown (delIn): the input is gone, the FLV recording is closed with its
   content unchanged, every relay-push session is detached (and kept only for
   observation - it receives nothing afterwards), all other consumers stay
   attached untouched. *)
Theorem c16_finalises : forall cf s, g_in s = true ->
  let s' := step cf s EvInStop in
  g_in s' = false /\ g_rec_open s' = false /\ g_rec s' = g_rec s /\
  (forall c, In c (g_subs s') <-> In c (g_subs s) /\ c_kind c <> KPush) /\
  (forall c, In c (g_subs s) -> c_kind c = KPush -> In c (g_gone s')).
Proof. exact in_stop_finalises. Qed.
Print Assumptions c16_finalises.

(* ... exactly once: a second end-of-input changes nothing *)
Theorem c16_once : forall cf s, step cf (step cf s EvInStop) EvInStop = step cf s EvInStop.
Proof. exact in_stop_idempotent. Qed.
Print Assumptions c16_once.

(* ... and it wipes codec information, PAT/PMT and all three caches *)
Theorem c16_clears : forall cf s, g_in s = true ->
  let s' := step cf s EvInStop in
  g_video_known s' = false /\ g_patpmt s' = None /\
  prologue (g_rtmp_cache s') false = [] /\ prologue (g_rtmp_cache s') true = [] /\
  prologue (g_flv_cache s') false = [] /\ gc_all (g_ts_cache s') = [] /\ gc_count (g_ts_cache s') = 0%nat /\
  g_sdp s' = None.
Proof. exact in_stop_clears. Qed.
Print Assumptions c16_clears.

(* Clean restart, over all histories: whatever the predecessor published (h1)
   and whatever happens afterwards (h2: new inputs, joins, leaves, messages),
   the start-up prologue served from the RTMP and HTTP-FLV caches consists only
   of messages published after the predecessor ended. *)
Theorem c16_clean_restart : forall cf h1 h2 w,
  g_in (run cf h1) = true ->
  let s := run cf (h1 ++ EvInStop :: h2) in
  let n1 := g_next (run cf h1) in
  Forall (label_ge n1) (prologue (g_rtmp_cache s) w) /\ Forall (label_ge n1) (prologue (g_flv_cache s) w).
Proof. exact restart_prologue_fresh. Qed.
Print Assumptions c16_clean_restart.

(* The stream hook, over all histories.  What the hook has been told is a
   function of the history alone ([hrun]: one entry per input, holding the
   indices of exactly the non-empty messages published while that input was
   attached, in order, each once), and OnStop was called exactly once for every
   input that has ended and not yet for the one still attached ([hook_ok]).
   The teardown is what calls it, and a repeated teardown does not call it again. *)
Theorem c16_hook_once : forall cf h,
  g_hook (run cf h) = hs_hook (hrun cf h) /\ hook_ok cf (g_in (run cf h)) (g_hook (run cf h)).
Proof. intros cf h. split; [apply hook_follows_history|apply hook_once_run]. Qed.
Print Assumptions c16_hook_once.

Theorem c16_hook_stop : forall cf s, g_in s = true -> cf_hook cf = true ->
  g_hook (step cf s EvInStop) = hook_stop (g_hook s) /\
  g_hook (step cf (step cf s EvInStop) EvInStop) = hook_stop (g_hook s).
Proof. exact in_stop_hook. Qed.
Print Assumptions c16_hook_stop.

(* The MPEG-TS recording, over all histories: one file per input, holding
   exactly the PAT/PMT and TS blobs handed to the group while that input was
   attached, in order ([trun] is a function of the history alone); the teardown
   closes the file with its content unchanged and nothing is appended to any
   file while no input is attached. *)
Theorem c16_ts_record : forall cf h,
  g_trec (run cf h) = tp_rec (trun cf h) /\
  (forall s, g_trec (step cf s EvInStop) = g_trec s) /\
  (forall s e, g_in s = false -> e <> EvInStart -> g_trec (step cf s e) = g_trec s).
Proof.
  intros cf h. split; [apply trec_follows_history|]. split; [apply in_stop_trec|apply no_input_no_trec].
Qed.
Print Assumptions c16_ts_record.

(* Server shutdown (Group.Dispose): every sub session is disposed holding
   exactly what it had received (all move to the detached set, nothing is sent),
   and the input - if there is one - is finalised as by delIn: recordings closed
   with their content, the hook told to stop, caches, codec information, SDP and
   PAT/PMT wiped.  Exactly once here too: after an input that had already ended,
   or a second Dispose, the hook is not told again. *)
Theorem c16_finalises_dispose : forall cf s,
  let s' := step cf s EvDispose in
  g_in s' = false /\ g_subs s' = [] /\ g_gone s' = g_gone s ++ g_subs s /\
  g_rec_open s' = false /\ g_rec s' = g_rec s /\ g_trec s' = g_trec s /\
  g_hook s' = (if g_in s && cf_hook cf then hook_stop (g_hook s) else g_hook s) /\
  g_video_known s' = false /\ g_patpmt s' = None /\ g_sdp s' = None /\
  prologue (g_rtmp_cache s') false = [] /\ prologue (g_rtmp_cache s') true = [] /\
  prologue (g_flv_cache s') false = [] /\ gc_all (g_ts_cache s') = [].
Proof. exact dispose_finalises. Qed.
Print Assumptions c16_finalises_dispose.

Theorem c16_dispose_once : forall cf s,
  g_hook (step cf (step cf s EvInStop) EvDispose) = g_hook (step cf s EvInStop) /\
  g_hook (step cf (step cf s EvDispose) EvDispose) = g_hook (step cf s EvDispose) /\
  g_hook (step cf (step cf s EvDispose) EvInStop) = g_hook (step cf s EvDispose).
Proof. exact dispose_after_stop. Qed.
Print Assumptions c16_dispose_once.

(* Idle check (Group.disposeInactiveSessions + BasicSessionStat.isAlive): at a
   sweep (every 120th tick) a publisher whose connection read nothing since the
   previous sweep is disposed, one that read something is kept; subscribers
   likewise by written bytes; nobody at the first look, relay-push sessions
   never, and nothing happens on other ticks.  All byte-counter values < 2^64. *)
Theorem c16_idle_input_dropped : forall s r0 w0 k,
  (k = SPubRtmp \/ k = SPubRtsp) -> ss_kind s = k ->
  st_stale (ss_stat s) = Some (r0, w0) ->
  ss_r s < 18446744073709551616 -> ss_w s < 18446744073709551616 -> r0 < 18446744073709551616 -> w0 < 18446744073709551616 ->
  ss_closed (sweep_one s) = ss_closed s || (ss_r s =? r0).
Proof. exact idle_input_dropped. Qed.
Print Assumptions c16_idle_input_dropped.

Theorem c16_stalled_subscriber_dropped : forall s r0 w0,
  (ss_kind s = SSubRtmp \/ ss_kind s = SSubRtsp \/ ss_kind s = SSubFlv \/ ss_kind s = SSubTs) ->
  st_stale (ss_stat s) = Some (r0, w0) ->
  ss_r s < 18446744073709551616 -> ss_w s < 18446744073709551616 -> r0 < 18446744073709551616 -> w0 < 18446744073709551616 ->
  ss_closed (sweep_one s) = ss_closed s || (ss_w s =? w0).
Proof. exact stalled_subscriber_dropped. Qed.
Print Assumptions c16_stalled_subscriber_dropped.

Theorem c16_sweep_only_then : forall n l s,
  (n mod check_interval <> 0 -> tick n l = l) /\
  (st_stale (ss_stat s) = None -> ss_closed (sweep_one s) = ss_closed s) /\
  (ss_kind s = SPush -> sweep_one s = s).
Proof. intros n l s. split; [apply off_ticks_do_nothing|]. split; [apply first_sweep_keeps|apply push_never_swept]. Qed.
Print Assumptions c16_sweep_only_then.

(* a group is removable (ServerManager's tick disposes it) exactly when it has
   no input, no output session and no relay pull pending *)
Theorem c16_group_reaped : forall i o p, group_inactive i o p = true <-> i = false /\ o = false /\ p = false.
Proof. exact group_inactive_iff. Qed.
Print Assumptions c16_group_reaped.

(* the recording of an input holds exactly its non-empty messages: every step
   of an admitted consumer theorem of C01 applies to it as well; here the
   concrete non-vacuity check with a restart *)
Definition c16_cfg : cfg :=
  {| cf_rtmp_enable := true; cf_rtmp_gop := 2; cf_rtmp_max := 0; cf_flv_enable := true; cf_flv_gop := 2; cf_flv_max := 0;
     cf_ts_gop := 1; cf_ts_max := 0; cf_merge := 0; cf_record_flv := true; cf_chunk := 4096; cf_ext_at_limit := false;
     cf_rtsp_wait := true; cf_hook := true; cf_record_ts := true |}.
Definition c16_v (b0 b1 t : N) : rmsg := {| rm_type := 9; rm_ts := 0; rm_payload := [b0; b1; 0; 0; 0; t] |}.
Example c16_hook_nonvacuous :
  let h := [EvPublish (c16_v 23 0 9); EvInStart; EvPublish (c16_v 23 0 1); EvPublish {| rm_type := 8; rm_ts := 0; rm_payload := [] |};
            EvPublish (c16_v 23 1 2); EvInStop; EvInStop; EvInStart; EvPublish (c16_v 23 1 3)] in
  g_hook (run c16_cfg h) = [([4%nat], 0%nat); ([1%nat; 3%nat], 1%nat)].
Proof. vm_compute. reflexivity. Qed.

Example c16_ts_record_nonvacuous :
  let h := [EvTs true; EvInStart; EvPatPmt; EvTs true; EvTs false; EvInStop; EvTs true; EvPatPmt; EvInStart; EvPatPmt; EvTs true] in
  g_trec (run c16_cfg h) = [[LPat 2; LTs 4]; [LPat 0; LTs 1; LTs 2]].
Proof. vm_compute. reflexivity. Qed.

Example c16_dispose_nonvacuous :
  let h := [EvInStart; EvJoin KFlv 1; EvJoin KRtmp 2; EvJoin KPush 7; EvPublish (c16_v 23 0 1); EvPublish (c16_v 23 1 2); EvPatPmt; EvDispose] in
  let s := run c16_cfg h in
  g_subs s = [] /\ length (g_gone s) = 3%nat /\ g_hook s = [([0%nat; 1%nat], 1%nat)] /\ g_rec s = [[LT 0; LT 1]] /\ g_trec s = [[LPat 0]] /\
  option_map c_out (find (fun c => c_id c =? 1) (g_gone s)) = Some [LT 0; LT 1].
Proof. vm_compute. repeat split; reflexivity. Qed.

Example c16_nonvacuous :
  let h1 := [EvInStart; EvJoin KPush 7; EvPublish (c16_v 23 0 1); EvPublish (c16_v 23 1 2)] in
  let h2 := [EvInStart; EvPublish (c16_v 23 0 3); EvJoin KFlv 1; EvPublish (c16_v 23 1 4)] in
  g_in (run c16_cfg h1) = true /\
  g_rec (run c16_cfg (h1 ++ EvInStop :: h2)) = [[LT 2; LT 3]; [LT 0; LT 1]] /\
  option_map c_out (find_sub (run c16_cfg (h1 ++ EvInStop :: h2)) 1) = Some [LT 2; LT 3].
Proof. vm_compute. repeat split; reflexivity. Qed.

(* ===================================================================================================== *)
(* Extension E3: "a stream with no sessions left is eventually removed, an input that stops sending is
   disconnected by the idle check" at the level of the SERVER: ServerManager's tick over all groups,
   with the liveness sweep (Group/GroupServerTick.v over the admission machine of C03 / C17).
   Keep this block at the END of the file.  From here on [step], [run], [sess] ... are those of
   Group.GroupAdmission (they shadow the fan-out model's). *)
From Coq Require Import ZArith List Bool.
From Lal Require Import Group.GroupAdmission Group.GroupAdmissionProofs Group.GroupInvariantProofs
  Group.GroupServerTick Group.GroupServerTickProofs.
From Lal Require Group.GroupServerKeysProofs.
Import ListNotations.

(* Removal of groups, over every history: at every tick of a running server - whatever its count - the
   groups that disappear are exactly those with no input, no output session and no relay pull pending
   (Group.IsInactive = group_inactive of c16_group_reaped). *)
Theorem c16_group_reaped_history : forall cf h c s,
  let ts := fst (trun fixed_tree cf tinit h) in
  st_disposed (t_st ts) = false ->
  get_group (t_st (fst (fst (tstep fixed_tree cf ts (TEv (ETick c)))))) s = None <->
  (get_group (t_st ts) s = None \/
   exists g, get_group (t_st ts) s = Some g /\
             has_in g = false /\ has_out g = false /\ pull_alive g (st_now (t_st ts)) = false).
Proof.
  intros cf h c s ts Hd.
  rewrite (tick_removes_inactive fixed_tree cf ts c s (inv_keys _ _ (trun_inv_s cf h)) Hd).
  split; (intros [H|[g [Hg Hi]]]; [left; exact H|right; exists g; split; [exact Hg|]]).
  - rewrite inactive_is_group_inactive in Hi. apply group_inactive_iff in Hi. exact Hi.
  - rewrite inactive_is_group_inactive. apply group_inactive_iff. exact Hi.
Qed.
Print Assumptions c16_group_reaped_history.

(* A removed name can be reused and starts clean: the next session that asks for the group of a name
   that has none (getOrCreateGroup) gets a new Group object - the next identity - in the initial state:
   no input, no subscribers, no pipeline, relay pull / push as configured. *)
Theorem c16_removed_name_fresh : forall cf st s, get_group st s = None ->
  let g := new_group cf (st_gid st + 1) (st_now st) in
  snd (get_or_create cf st s) = g /\ get_group (fst (get_or_create cf st s)) s = Some g /\
  has_in g = false /\ g_subs g = [] /\ g_pipe g = None /\ has_out g = false /\ g_disposed g = false.
Proof.
  intros cf st s H g. rewrite (removed_name_fresh cf st s H). cbn [fst snd]. split; [reflexivity|]. split.
  - unfold get_group. cbn. apply lookup_update_same.
  - subst g. unfold has_out, has_sub, has_push, new_group. cbn. repeat split; try reflexivity.
    induction (cf_npush cf); [reflexivity|assumption].
Qed.
Print Assumptions c16_removed_name_fresh.

(* The idle check, over every history: for every history h1, a sweep tick c1, every history h2 without
   a sweep tick, and a sweep tick c2 - if session n is the accepted RTMP / RTSP publisher of stream s at
   both sweeps and its connection has read nothing in between (its read counter is where the first
   sweep saw it), the second sweep disconnects it; nothing else happens to it: it stays the accepted
   input of s until its shell reports the end, and the tick emits no notification about it.  Its stop
   notification is the one its departure produces - exactly one (c03_srv_notifications: the
   notifications of n are [start] until it has gone and [start; stop] afterwards, over all histories). *)
Theorem c16_idle_input_dropped_history : forall cf h1 c1 h2 c2 s n,
  let ts0 := fst (trun fixed_tree cf tinit h1) in
  let ts1 := fst (trun fixed_tree cf tinit (h1 ++ [TEv (ETick c1)])) in
  let ts2 := fst (trun fixed_tree cf tinit (h1 ++ [TEv (ETick c1)] ++ h2)) in
  c1 mod sweep_interval = 0 -> c2 mod sweep_interval = 0 -> Forall no_sweep_ev h2 ->
  st_disposed (t_st ts0) = false -> st_disposed (t_st ts2) = false ->
  accepted_pub (t_st ts0) s n -> accepted_pub (t_st ts2) s n ->
  c_r (get_ctr (CConn n) (t_ctr ts2)) = c_r (get_ctr (CConn n) (t_ctr ts1)) ->
  let r := tstep fixed_tree cf ts2 (TEv (ETick c2)) in
  (exists x, find_sess n (st_sess (t_st (fst (fst r)))) = Some x /\ s_closed x = true) /\
  accepted_pub (t_st (fst (fst r))) s n /\
  word (snd r) (WConn n) = [].
Proof. exact idle_input_dropped_history. Qed.
Print Assumptions c16_idle_input_dropped_history.

(* ... in any state of the invariant: a publisher whose stale stat equals its read counter is closed by
   the next sweep, and the input side of its group (slots, pipeline, Group object) stays as it was *)
Theorem c16_idle_input_only_closed : forall cf h c s g n,
  let ts := fst (trun fixed_tree cf tinit h) in
  st_disposed (t_st ts) = false -> c mod sweep_interval = 0 ->
  get_group (t_st ts) s = Some g -> (g_rtmp g = Some n \/ g_rtsp g = Some n) ->
  read_idle (get_ctr (CConn n) (t_ctr ts)) ->
  let r := tstep fixed_tree cf ts (TEv (ETick c)) in
  (exists x, find_sess n (st_sess (t_st (fst (fst r)))) = Some x /\ s_closed x = true) /\
  keeps s g (t_st (fst (fst r))) /\ word (snd r) (WConn n) = [].
Proof. intros cf h c s g n ts. exact (idle_publisher_closed cf ts _ c s g n (trun_inv_s cf h)). Qed.
Print Assumptions c16_idle_input_only_closed.

(* the verdict of one look (byte counters < 2^64): never at the first look; afterwards a publisher or
   relay pull is condemned iff its read counter is where the previous look saw it, a subscriber or
   relay-push session iff its write counter is *)
Theorem c16_idle_verdict : forall kd c,
  (stale_of c = None -> fst (look kd c) = false) /\
  (forall r0 w0, stale_of c = Some (r0, w0) -> ctr_bounded c ->
     (judged_read kd = true -> fst (look kd c) = (c_r c =? r0)) /\
     (judged_write kd = true -> fst (look kd c) = (c_w c =? w0))).
Proof.
  intros kd c. split; [apply look_first|]. intros r0 w0 Hs Hb. split; intro Hk;
    [eapply look_read|eapply look_write]; eassumption.
Qed.
Print Assumptions c16_idle_verdict.

(* No event other than a tick removes a group or replaces the Group object of a name (all events of
   the server: arrivals, departures, kicks, relay outcomes, API calls, dispose, media, byte counters). *)
Theorem c16_only_ticks_remove : forall cf ts te s g,
  (forall c, te <> TEv (ETick c)) -> get_group (t_st ts) s = Some g ->
  exists g', get_group (t_st (fst (fst (tstep fixed_tree cf ts te)))) s = Some g' /\ g_id g' = g_id g.
Proof.
  intros cf ts te s g Hnt Hg. destruct te as [e0|n k|s0 i k].
  - assert (H0 : forall c, e0 <> ETick c) by (intros c Hc; apply (Hnt c); rewrite Hc; reflexivity).
    rewrite (tstep_TEv_state fixed_tree cf ts e0 H0). apply GroupServerKeysProofs.only_ticks_remove; assumption.
  - destruct (bytes_keep_state fixed_tree cf ts n k) as [E _]. rewrite E. exists g. split; [exact Hg|reflexivity].
  - destruct (att_bytes_keep_state fixed_tree cf ts s0 i k) as [E _]. rewrite E. exists g. split; [exact Hg|reflexivity].
Qed.
Print Assumptions c16_only_ticks_remove.

(* ... and the identity of the Group a removed (or new) name gets - the next one, c16_removed_name_fresh -
   is larger than the identity of every Group registered after any history: a new Group object. *)
Theorem c16_new_group_identity_fresh : forall cf h s g,
  let st := t_st (fst (trun fixed_tree cf tinit h)) in
  get_group st s = Some g -> g_id g < st_gid st + 1.
Proof. intros cf h s g st. exact (GroupServerKeysProofs.new_group_identity_fresh fixed_tree cf st s g (trun_reachable cf h)). Qed.
Print Assumptions c16_new_group_identity_fresh.

(* non-vacuity: a publisher attaches and sends nothing for two sweeps: disconnected at the second one,
   one stop when its shell reports, the group removed at the following tick, and the next publisher of
   the name gets a new Group (identity 2) and a new pipeline *)
Example c16_srv_nonvacuous :
  let h1 := [TEv (ERtmpPub 1 1 false); TEv (ETick 120); TEv (ETick 239); TEv (ETick 240)] in
  let h2 := h1 ++ [TEv (EGone 1); TEv (ETick 241)] in
  let h3 := h2 ++ [TEv (ERtmpPub 1 2 false)] in
  closed_waiting (t_st (fst (trun fixed_tree (mk_config false 0) tinit h1))) = [1] /\
  map n_kind (snd (trun fixed_tree (mk_config false 0) tinit h2)) = [NPubStart; NPubStop] /\
  get_group (t_st (fst (trun fixed_tree (mk_config false 0) tinit h2))) 1 = None /\
  option_map (fun g => (g_id g, g_rtmp g, g_pipe g)) (get_group (t_st (fst (trun fixed_tree (mk_config false 0) tinit h3))) 1)
    = Some (2, Some 2, Some 2).
Proof. vm_compute. repeat split; reflexivity. Qed.
