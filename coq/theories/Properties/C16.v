(* C16 - when an input ends every output is finalised once and the name starts
   clean.  Statements only; the fan-out model of C01/C02. *)
From Lal Require Import Common.LBytes Group.GroupMsg Group.GroupGopCache Group.GroupFanout
  Group.GroupGopCacheProofs Group.GroupFanoutProofs Group.GroupFanoutCacheProofs Group.GroupFanoutAdmitProofs
  Group.GroupFanoutRestartProofs Group.GroupFanoutHookProofs Group.GroupIdle Group.GroupIdleProofs.
Open Scope N_scope.

(* Teardown (delIn): the input is gone, the FLV recording is closed with its
   content unchanged, every relay-push session is detached (and kept only for
   observation - it receives nothing afterwards), all other consumers stay
   attached untouched. *)
Theorem c16_finalises : forall cf s, g_in s = true ->
  let s' := step cf s EvInStop in
  g_in s' = false /\ g_rec_open s' = false /\ g_rec s' = g_rec s /\
  (forall c, In c (g_subs s') <-> In c (g_subs s) /\ c_kind c <> KPush) /\
  (forall c, In c (g_subs s) -> c_kind c = KPush -> In c (g_gone s')).
Proof. exact in_stop_finalises. Qed.
Print Assumptions c16_finalises.

(* ... exactly once: a second end-of-input changes nothing *)
Theorem c16_once : forall cf s, step cf (step cf s EvInStop) EvInStop = step cf s EvInStop.
Proof. exact in_stop_idempotent. Qed.
Print Assumptions c16_once.

(* ... and it wipes codec information, PAT/PMT and all three caches *)
Theorem c16_clears : forall cf s, g_in s = true ->
  let s' := step cf s EvInStop in
  g_video_known s' = false /\ g_patpmt s' = None /\
  prologue (g_rtmp_cache s') false = [] /\ prologue (g_rtmp_cache s') true = [] /\
  prologue (g_flv_cache s') false = [] /\ gc_all (g_ts_cache s') = [] /\ gc_count (g_ts_cache s') = 0%nat /\
  g_sdp s' = None.
Proof. exact in_stop_clears. Qed.
Print Assumptions c16_clears.

(* Clean restart, over all histories: whatever the predecessor published (h1)
   and whatever happens afterwards (h2: new inputs, joins, leaves, messages),
   the start-up prologue served from the RTMP and HTTP-FLV caches consists only
   of messages published after the predecessor ended. *)
Theorem c16_clean_restart : forall cf h1 h2 w,
  g_in (run cf h1) = true ->
  let s := run cf (h1 ++ EvInStop :: h2) in
  let n1 := g_next (run cf h1) in
  Forall (label_ge n1) (prologue (g_rtmp_cache s) w) /\ Forall (label_ge n1) (prologue (g_flv_cache s) w).
Proof. exact restart_prologue_fresh. Qed.
Print Assumptions c16_clean_restart.

(* The stream hook, over all histories.  What the hook has been told is a
   function of the history alone ([hrun]: one entry per input, holding the
   indices of exactly the non-empty messages published while that input was
   attached, in order, each once), and OnStop was called exactly once for every
   input that has ended and not yet for the one still attached ([hook_ok]).
   The teardown is what calls it, and a repeated teardown does not call it again. *)
Theorem c16_hook_once : forall cf h,
  g_hook (run cf h) = hs_hook (hrun cf h) /\ hook_ok cf (g_in (run cf h)) (g_hook (run cf h)).
Proof. intros cf h. split; [apply hook_follows_history|apply hook_once_run]. Qed.
Print Assumptions c16_hook_once.

Theorem c16_hook_stop : forall cf s, g_in s = true -> cf_hook cf = true ->
  g_hook (step cf s EvInStop) = hook_stop (g_hook s) /\
  g_hook (step cf (step cf s EvInStop) EvInStop) = hook_stop (g_hook s).
Proof. exact in_stop_hook. Qed.
Print Assumptions c16_hook_stop.

(* The MPEG-TS recording, over all histories: one file per input, holding
   exactly the PAT/PMT and TS blobs handed to the group while that input was
   attached, in order ([trun] is a function of the history alone); the teardown
   closes the file with its content unchanged and nothing is appended to any
   file while no input is attached. *)
Theorem c16_ts_record : forall cf h,
  g_trec (run cf h) = tp_rec (trun cf h) /\
  (forall s, g_trec (step cf s EvInStop) = g_trec s) /\
  (forall s e, g_in s = false -> e <> EvInStart -> g_trec (step cf s e) = g_trec s).
Proof.
  intros cf h. split; [apply trec_follows_history|]. split; [apply in_stop_trec|apply no_input_no_trec].
Qed.
Print Assumptions c16_ts_record.

(* Server shutdown (Group.Dispose): every sub session is disposed holding
   exactly what it had received (all move to the detached set, nothing is sent),
   and the input - if there is one - is finalised as by delIn: recordings closed
   with their content, the hook told to stop, caches, codec information, SDP and
   PAT/PMT wiped.  Exactly once here too: after an input that had already ended,
   or a second Dispose, the hook is not told again. *)
Theorem c16_finalises_dispose : forall cf s,
  let s' := step cf s EvDispose in
  g_in s' = false /\ g_subs s' = [] /\ g_gone s' = g_gone s ++ g_subs s /\
  g_rec_open s' = false /\ g_rec s' = g_rec s /\ g_trec s' = g_trec s /\
  g_hook s' = (if g_in s && cf_hook cf then hook_stop (g_hook s) else g_hook s) /\
  g_video_known s' = false /\ g_patpmt s' = None /\ g_sdp s' = None /\
  prologue (g_rtmp_cache s') false = [] /\ prologue (g_rtmp_cache s') true = [] /\
  prologue (g_flv_cache s') false = [] /\ gc_all (g_ts_cache s') = [].
Proof. exact dispose_finalises. Qed.
Print Assumptions c16_finalises_dispose.

Theorem c16_dispose_once : forall cf s,
  g_hook (step cf (step cf s EvInStop) EvDispose) = g_hook (step cf s EvInStop) /\
  g_hook (step cf (step cf s EvDispose) EvDispose) = g_hook (step cf s EvDispose) /\
  g_hook (step cf (step cf s EvDispose) EvInStop) = g_hook (step cf s EvDispose).
Proof. exact dispose_after_stop. Qed.
Print Assumptions c16_dispose_once.

(* Idle check (Group.disposeInactiveSessions + BasicSessionStat.isAlive): at a
   sweep (every 120th tick) a publisher whose connection read nothing since the
   previous sweep is disposed, one that read something is kept; subscribers
   likewise by written bytes; nobody at the first look, relay-push sessions
   never, and nothing happens on other ticks.  All byte-counter values < 2^64. *)
Theorem c16_idle_input_dropped : forall s r0 w0 k,
  (k = SPubRtmp \/ k = SPubRtsp) -> ss_kind s = k ->
  st_stale (ss_stat s) = Some (r0, w0) ->
  ss_r s < 18446744073709551616 -> ss_w s < 18446744073709551616 -> r0 < 18446744073709551616 -> w0 < 18446744073709551616 ->
  ss_closed (sweep_one s) = ss_closed s || (ss_r s =? r0).
Proof. exact idle_input_dropped. Qed.
Print Assumptions c16_idle_input_dropped.

Theorem c16_stalled_subscriber_dropped : forall s r0 w0,
  (ss_kind s = SSubRtmp \/ ss_kind s = SSubRtsp \/ ss_kind s = SSubFlv \/ ss_kind s = SSubTs) ->
  st_stale (ss_stat s) = Some (r0, w0) ->
  ss_r s < 18446744073709551616 -> ss_w s < 18446744073709551616 -> r0 < 18446744073709551616 -> w0 < 18446744073709551616 ->
  ss_closed (sweep_one s) = ss_closed s || (ss_w s =? w0).
Proof. exact stalled_subscriber_dropped. Qed.
Print Assumptions c16_stalled_subscriber_dropped.

Theorem c16_sweep_only_then : forall n l s,
  (n mod check_interval <> 0 -> tick n l = l) /\
  (st_stale (ss_stat s) = None -> ss_closed (sweep_one s) = ss_closed s) /\
  (ss_kind s = SPush -> sweep_one s = s).
Proof. intros n l s. split; [apply off_ticks_do_nothing|]. split; [apply first_sweep_keeps|apply push_never_swept]. Qed.
Print Assumptions c16_sweep_only_then.

(* a group is removable (ServerManager's tick disposes it) exactly when it has
   no input, no output session and no relay pull pending *)
Theorem c16_group_reaped : forall i o p, group_inactive i o p = true <-> i = false /\ o = false /\ p = false.
Proof. exact group_inactive_iff. Qed.
Print Assumptions c16_group_reaped.

(* the recording of an input holds exactly its non-empty messages: every step
   of an admitted consumer theorem of C01 applies to it as well; here the
   concrete non-vacuity check with a restart *)
Definition c16_cfg : cfg :=
  {| cf_rtmp_enable := true; cf_rtmp_gop := 2; cf_rtmp_max := 0; cf_flv_enable := true; cf_flv_gop := 2; cf_flv_max := 0;
     cf_ts_gop := 1; cf_ts_max := 0; cf_merge := 0; cf_record_flv := true; cf_chunk := 4096; cf_ext_at_limit := false;
     cf_rtsp_wait := true; cf_hook := true; cf_record_ts := true |}.
Definition c16_v (b0 b1 t : N) : rmsg := {| rm_type := 9; rm_ts := 0; rm_payload := [b0; b1; 0; 0; 0; t] |}.
Example c16_hook_nonvacuous :
  let h := [EvPublish (c16_v 23 0 9); EvInStart; EvPublish (c16_v 23 0 1); EvPublish {| rm_type := 8; rm_ts := 0; rm_payload := [] |};
            EvPublish (c16_v 23 1 2); EvInStop; EvInStop; EvInStart; EvPublish (c16_v 23 1 3)] in
  g_hook (run c16_cfg h) = [([4%nat], 0%nat); ([1%nat; 3%nat], 1%nat)].
Proof. vm_compute. reflexivity. Qed.

Example c16_ts_record_nonvacuous :
  let h := [EvTs true; EvInStart; EvPatPmt; EvTs true; EvTs false; EvInStop; EvTs true; EvPatPmt; EvInStart; EvPatPmt; EvTs true] in
  g_trec (run c16_cfg h) = [[LPat 2; LTs 4]; [LPat 0; LTs 1; LTs 2]].
Proof. vm_compute. reflexivity. Qed.

Example c16_dispose_nonvacuous :
  let h := [EvInStart; EvJoin KFlv 1; EvJoin KRtmp 2; EvJoin KPush 7; EvPublish (c16_v 23 0 1); EvPublish (c16_v 23 1 2); EvPatPmt; EvDispose] in
  let s := run c16_cfg h in
  g_subs s = [] /\ length (g_gone s) = 3%nat /\ g_hook s = [([0%nat; 1%nat], 1%nat)] /\ g_rec s = [[LT 0; LT 1]] /\ g_trec s = [[LPat 0]] /\
  option_map c_out (find (fun c => c_id c =? 1) (g_gone s)) = Some [LT 0; LT 1].
Proof. vm_compute. repeat split; reflexivity. Qed.

Example c16_nonvacuous :
  let h1 := [EvInStart; EvJoin KPush 7; EvPublish (c16_v 23 0 1); EvPublish (c16_v 23 1 2)] in
  let h2 := [EvInStart; EvPublish (c16_v 23 0 3); EvJoin KFlv 1; EvPublish (c16_v 23 1 4)] in
  g_in (run c16_cfg h1) = true /\
  g_rec (run c16_cfg (h1 ++ EvInStop :: h2)) = [[LT 2; LT 3]; [LT 0; LT 1]] /\
  option_map c_out (find_sub (run c16_cfg (h1 ++ EvInStop :: h2)) 1) = Some [LT 2; LT 3].
Proof. vm_compute. repeat split; reflexivity. Qed.
