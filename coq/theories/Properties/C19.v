(* C19 - codec configuration survives every re-encoding; SDP and SPS info are
   right.  Only property statements here; each is closed by [exact] or a
   one/two line proof from the lemmas of Codec/*Proofs.v. *)
From Lal Require Import Common.LBytes Common.Res
  Codec.CodecBits Codec.CodecGolomb Codec.CodecRdM
  Codec.CodecSpsAvc Codec.CodecSpsAvcSpec Codec.CodecAvcSeqHeader
  Codec.CodecSpsHevc Codec.CodecHevcSeqHeader
  Codec.CodecGolombProofs Codec.CodecEpbProofs Codec.CodecAvcSeqHeaderProofs
  Codec.CodecHevcSeqHeaderProofs Codec.CodecSpsAvcProofs.
Open Scope N_scope.

(* ---- part A: sequence headers ---- *)

(* lal's parser returns exactly the SPS and PPS a sequence header was built
   from, for every parameter-set length the record can carry (1..65535; the
   bytes are arbitrary: emulation-prevention bytes are just bytes here) *)
Theorem c19_seqheader_avc : forall sps pps h,
  lenN sps < 65536 -> lenN pps < 65536 ->
  avc_build_seq_header sps pps = Ok h ->
  avc_parse_seq_header h = Ok (sps, pps).
Proof. exact avc_seq_header_roundtrip. Qed.
Print Assumptions c19_seqheader_avc.

(* the header is built exactly when ParseSps accepts the SPS (profile and level
   are copied from it); ParseSps may also panic, see c19_sps_end_of_buffer_panic *)
Theorem c19_seqheader_avc_built : forall sps pps,
  (exists h, avc_build_seq_header sps pps = Ok h) <-> (exists ctx, parse_sps_avc sps = Ok ctx).
Proof. exact avc_build_ok_iff. Qed.
Print Assumptions c19_seqheader_avc_built.

(* Annex-B form of the header = start code, SPS, start code, PPS *)
Theorem c19_annexb_of_header : forall sps pps h,
  lenN sps < 65536 -> lenN pps < 65536 ->
  avc_build_seq_header sps pps = Ok h ->
  avc_seq_header2annexb h = Ok ([0; 0; 0; 1] ++ sps ++ [0; 0; 0; 1] ++ pps)
  /\ avc_build_sps_pps2annexb sps pps = [0; 0; 0; 1] ++ sps ++ [0; 0; 0; 1] ++ pps.
Proof. exact avc_annexb_of_header. Qed.
Print Assumptions c19_annexb_of_header.

Theorem c19_seqheader_hevc : forall vps sps pps h,
  lenN vps < 65536 -> lenN sps < 65536 -> lenN pps < 65536 ->
  hevc_build_seq_header vps sps pps = Ok h ->
  hevc_parse_seq_header h = Ok (vps, sps, pps)
  /\ hevc_seq_header2annexb h = Ok ([0; 0; 0; 1] ++ vps ++ [0; 0; 0; 1] ++ sps ++ [0; 0; 0; 1] ++ pps).
Proof. exact hevc_seq_header_roundtrip. Qed.
Print Assumptions c19_seqheader_hevc.

(* ---- part D: SPS fields and picture size ---- *)

(* the nazabits Exp-Golomb reader returns every value the standard's ue(v)
   writer produces and stops right behind it *)
Theorem c19_read_ue_write_ue : forall v r,
  v + 1 < 4294967296 -> (v = 0 -> r <> []) ->
  read_ue (mk_bitrd (write_ue v ++ r) false) = Ok (Some v, mk_bitrd r false).
Proof. exact read_ue_written. Qed.
Print Assumptions c19_read_ue_write_ue.

(* ... and panics (index out of range in naza) when a value-0 code word is the
   very last bit of the buffer: DESIGN F-13, reachable through ParseSps and
   BuildSeqHeaderFromSpsPps; every theorem below is about inputs where the
   code word is followed by at least the RBSP stop bit *)
Theorem c19_sps_end_of_buffer_panic :
  read_ue (mk_bitrd (write_ue 0) false) = Panic site_nazabits_zero_read
  /\ parse_sps_avc [103; 66; 0; 30; 255] = Panic site_nazabits_zero_read
  /\ avc_build_seq_header [103; 66; 0; 30; 255] [104; 206; 60; 128] = Panic site_nazabits_zero_read.
Proof. repeat split; vm_compute; reflexivity. Qed.
Print Assumptions c19_sps_end_of_buffer_panic.

(* removing 00 00 03 -> 00 00 (what ParseSps now does first) undoes the
   emulation prevention of H.264 7.4.1 on every byte string *)
Theorem c19_epb_roundtrip : forall rbsp, nal2rbsp (epb_insert rbsp) = rbsp.
Proof. exact nal2rbsp_epb. Qed.
Print Assumptions c19_epb_roundtrip.

(* for EVERY SPS the H.264 7.3.2.1 encoder model can produce (profiles with and
   without chroma info, scaling lists, three POC types, cropping, frame/field,
   VUI aspect ratio, any further VUI bits), lal's ParseSps succeeds and reports
   profile, level and the picture size of 7.4.2.1.1 *)
Theorem c19_dims_avc : forall s, sps_ok s ->
  exists ctx,
    parse_sps_avc (sps_nal s) = Ok ctx /\
    ac_profile ctx = ss_profile_idc s /\ ac_level ctx = ss_level_idc s /\
    Z.of_N (ac_width ctx) = spec_width s /\ Z.of_N (ac_height ctx) = spec_height s.
Proof. exact dims_avc. Qed.
Print Assumptions c19_dims_avc.

(* hence such an SPS always yields a sequence header, from which it comes back *)
Theorem c19_seqheader_of_encoded_sps : forall s pps,
  sps_ok s -> lenN (sps_nal s) < 65536 -> lenN pps < 65536 ->
  exists h, avc_build_seq_header (sps_nal s) pps = Ok h /\ avc_parse_seq_header h = Ok (sps_nal s, pps).
Proof.
  intros s pps Hok Hs Hp. destruct (dims_avc s Hok) as (ctx & Hctx & _).
  destruct (proj2 (avc_build_ok_iff (sps_nal s) pps) (ex_intro _ ctx Hctx)) as [h Hh].
  exists h. split; [exact Hh|]. exact (avc_seq_header_roundtrip _ _ _ Hs Hp Hh).
Qed.
Print Assumptions c19_seqheader_of_encoded_sps.

(* the pinned tree failed c19_dims_avc in two ways (DESIGN F-06); both were
   repaired in lal (fix commits), the witnesses stay *)
Theorem c19_dims_avc_pinned_refuted :
  exists s ctx, sps_ok s /\ parse_sps_avc (sps_nal s) = Ok ctx /\
                spec_height s = 1080%Z /\ avc_height_pinned (ac_sps ctx) = 1084 /\ ac_height ctx = 1080.
Proof. exact dims_avc_pinned_refuted. Qed.
Print Assumptions c19_dims_avc_pinned_refuted.

Theorem c19_dims_avc_raw_epb_refuted :
  exists s ctx, sps_ok s /\ parse_sps_avc_raw (sps_nal s) = Ok ctx /\
                spec_width s = 1920%Z /\ spec_height s = 1080%Z /\
                (ac_width ctx, ac_height ctx) <> (1920, 1080).
Proof. exact dims_avc_raw_epb_refuted. Qed.
Print Assumptions c19_dims_avc_raw_epb_refuted.

(* non-vacuity: the encoder model reproduces lal's test vector goldenSps2 byte
   for byte, it satisfies sps_ok, and the sequence header built from it parses back *)
Example c19_nonvacuous_ps :
  sps_ok sps_golden2 /\ sps_nal sps_golden2 = [39; 100; 0; 31; 172; 86; 128; 180; 10; 25]
  /\ spec_width sps_golden2 = 720%Z /\ spec_height sps_golden2 = 1280%Z
  /\ avc_build_seq_header (sps_nal sps_golden2) [40; 238; 60; 176]
     = Ok [23; 0; 0; 0; 0; 1; 100; 0; 31; 255; 225; 0; 10; 39; 100; 0; 31; 172; 86; 128; 180; 10; 25; 1; 0; 4; 40; 238; 60; 176].
Proof. repeat split; vm_compute; reflexivity. Qed.

(* ---- part D (HEVC): picture size of the basic H.265 SPS ---- *)
From Lal Require Import Codec.CodecSpsHevcSpec Codec.CodecSpsHevcProofs.

(* for every SPS of the H.265 7.3.2.2.1 encoder model (any profile_tier_level
   with up to 6 sub-layers, chroma formats, conformance window, sub-layer
   ordering info, any continuation), hevc.ParseSps succeeds from any context and
   reports the coded size and the size inside the conformance window
   (7.4.3.2.1, offsets in units of SubWidthC / SubHeightC) *)
Theorem c19_dims_hevc : forall s c0, hevc_sps_ok s ->
  exists c,
    hevc_parse_sps (hevc_sps_nal s) c0 = Ok c /\
    sps_get H_width c = hs_width s /\ sps_get H_height c = hs_height s /\
    Z.of_N (sps_get H_outw c) = hspec_width s /\ Z.of_N (sps_get H_outh c) = hspec_height s.
Proof. intros s c0 H. exact (dims_hevc s c0 H). Qed.
Print Assumptions c19_dims_hevc.

(* 1920x1088 coded, conformance window bottom offset 4 (4:2:0 -> 8 lines): 1920x1080;
   the pinned tree reported the coded 1088 (fixed in lal) *)
Example c19_nonvacuous_hevc :
  let s := mk_hevc_sps_syntax 0 true (mk_ptl_syntax 0 false 1 1610612736 158329674399744 93 [])
             0 1 false 1920 1088 (Some (0, 0, 0, 4)) 0 0 4 true [(4, 2, 0)] [0; 3; 0; 3; 0; 0] [false; true; true] in
  hevc_sps_ok s /\ hspec_width s = 1920%Z /\ hspec_height s = 1080%Z
  /\ exists c, hevc_parse_sps (hevc_sps_nal s) [] = Ok c /\ sps_get H_outh c = 1080 /\ sps_get H_height c = 1088.
Proof. cbv zeta. repeat split; try (vm_compute; reflexivity). eexists. repeat split; vm_compute; reflexivity. Qed.
