(* C19 - codec configuration survives every re-encoding (work in progress:
   theorems are added part by part) *)
From Lal Require Import Common.LBytes Common.Res Codec.CodecBits.
Open Scope N_scope.

Theorem c19_placeholder_bits_of_byte_length : forall b, length (bits_of_byte b) = 8%nat.
Proof. reflexivity. Qed.
Print Assumptions c19_placeholder_bits_of_byte_length.

(* ---- part E: SDP ---- *)
(* sdp.Pack -> text -> ParseSdp2LogicContext.  base64.StdEncoding and
   encoding/hex are external code: the theorems quantify over any functions
   that obey the five laws `codec_laws` (trusted base, exercised by the
   correspondence check with python's base64 / binascii). *)
From Lal Require Import Codec.CodecSdpText Codec.CodecSdp Codec.CodecSdpProofs.

Definition codec_laws (b64_dec hex_dec : bytes -> bytes * bool) (b64_enc hex_enc : bytes -> bytes) : Prop :=
  (forall x, bytes_ok x -> b64_dec (b64_enc x) = (x, true)) /\
  (forall x, bytes_ok x -> hex_dec (hex_enc x) = (x, true)) /\
  (forall x, bytes_ok x -> clean (b64_enc x) = true) /\     (* no ';' ',' or ASCII white space (incl. CR, LF) *)
  (forall x, bytes_ok x -> clean (hex_enc x) = true) /\
  (forall x, bytes_ok x -> lenN (hex_enc x) = 2 * lenN x).

(* the full statement: for every VideoInfo / AudioInfo (byte strings, int64
   sampling frequency, a=tool text without CR/LF): Pack refuses exactly when
   neither track is usable, and otherwise the context it returns has, per
   accepted track, base and origin payload type = the packed type, clock rate
   90000 / the sampling frequency (48000 for Opus), control streamid=0 / 1 (audio
   gets 0 when there is no video), Vps/Sps/Pps byte for byte, and Asc byte for
   byte when it has at least 2 bytes (None when shorter: ParseAsc wants 4 hex
   digits); a missing track reads as has=false, type unknown. *)
Theorem c19_sdp : forall b64_dec hex_dec b64_enc hex_enc, codec_laws b64_dec hex_dec b64_enc hex_enc ->
  forall tool v a, nocrlf tool = true -> vinfo_ok v -> ainfo_ok a -> int64 (ai_rate a) ->
  match video_kind v, audio_kind a with
  | None, None => sdp_pack b64_dec hex_dec b64_enc hex_enc tool v a = Err err_other
  | vk, ak => exists raw, sdp_pack_text b64_enc hex_enc tool v a = Some raw /\
                          sdp_pack b64_dec hex_dec b64_enc hex_enc tool v a = Ok (exp_ctx raw vk ak)
  end.
Proof. intros ? ? ? ? (H1 & H2 & H3 & H4 & H5). exact (sdp_pack_roundtrip _ _ _ _ H1 H2 H3 H4 H5). Qed.
Print Assumptions c19_sdp.

Theorem c19_sdp_video : forall b64_dec hex_dec b64_enc hex_enc, codec_laws b64_dec hex_dec b64_enc hex_enc ->
  forall tool v a pt vp s p, nocrlf tool = true -> vinfo_ok v -> ainfo_ok a -> int64 (ai_rate a) ->
  video_kind v = Some (pt, vp, s, p) ->
  exists ctx, sdp_pack b64_dec hex_dec b64_enc hex_enc tool v a = Ok ctx /\
              lc_video ctx = {| tk_has := true; tk_rate := 90000; tk_base := pt; tk_orig := pt; tk_ctl := q_streamid0 |} /\
              lc_vps ctx = vp /\ lc_sps ctx = Some s /\ lc_pps ctx = Some p.
Proof. intros ? ? ? ? (H1 & H2 & H3 & H4 & H5). exact (sdp_pack_video _ _ _ _ H1 H2 H3 H4 H5). Qed.
Print Assumptions c19_sdp_video.

Theorem c19_sdp_audio : forall b64_dec hex_dec b64_enc hex_enc, codec_laws b64_dec hex_dec b64_enc hex_enc ->
  forall tool v a pt rate asc, nocrlf tool = true -> vinfo_ok v -> ainfo_ok a -> int64 (ai_rate a) ->
  audio_kind a = Some (pt, rate, asc) ->
  exists ctx, sdp_pack b64_dec hex_dec b64_enc hex_enc tool v a = Ok ctx /\
              lc_audio ctx = {| tk_has := true; tk_rate := rate; tk_base := pt; tk_orig := pt;
                                tk_ctl := q_sid ++ fmt_d (match video_kind v with Some _ => 1 | None => 0 end) |} /\
              lc_asc ctx = match asc with Some c => if 2 <=? lenN c then Some c else None | None => None end.
Proof. intros ? ? ? ? (H1 & H2 & H3 & H4 & H5). exact (sdp_pack_audio _ _ _ _ H1 H2 H3 H4 H5). Qed.
Print Assumptions c19_sdp_audio.

(* Pack refuses exactly the streams without a usable track (no law needed) *)
Theorem c19_sdp_refuses : forall b64_dec hex_dec b64_enc hex_enc tool v a,
  video_kind v = None -> audio_kind a = None ->
  sdp_pack b64_dec hex_dec b64_enc hex_enc tool v a = Err err_other.
Proof. exact sdp_pack_refuses. Qed.
Print Assumptions c19_sdp_refuses.

(* the line parsers on the templates, with symbolic encoded values *)
Theorem c19_sdp_fmtp_avc : forall S P, clean S = true -> clean P = true ->
  parse_a_fmtp (t_fmtp_avc_1 ++ S ++ [44] ++ P ++ t_fmtp_avc_2)
  = Ok {| fp_format := 96; fp_params := [(q_pm_k, q_one); (k_sprop, S ++ [44] ++ P); (q_pli_k, q_pli_v)] |}.
Proof. exact fmtp_avc_line. Qed.
Print Assumptions c19_sdp_fmtp_avc.

Theorem c19_sdp_fmtp_hevc : forall S P V, clean S = true -> clean P = true -> clean V = true ->
  parse_a_fmtp (t_fmtp_hevc_1 ++ S ++ t_fmtp_hevc_2 ++ P ++ t_fmtp_hevc_3 ++ V)
  = Ok {| fp_format := 98; fp_params := [(q_pid_k, q_one); (k_sprop_sps, S); (k_sprop_pps, P); (k_sprop_vps, V)] |}.
Proof. exact fmtp_hevc_line. Qed.
Print Assumptions c19_sdp_fmtp_hevc.

Theorem c19_sdp_fmtp_aac : forall H, clean H = true ->
  parse_a_fmtp (t_fmtp ++ fmt_d pt_aac ++ t_fmtp_aac ++ H)
  = Ok {| fp_format := 97; fp_params := q_aac_params ++ [(k_config, H)] |}.
Proof. exact fmtp_aac_line. Qed.
Print Assumptions c19_sdp_fmtp_aac.

Theorem c19_sdp_rtpmap : forall rate, int64 rate ->
  parse_a_rtpmap (t_rtpmap ++ fmt_d pt_aac ++ t_aac_1 ++ fmt_d rate ++ t_aac_2)
  = Ok {| rm_pt := 97; rm_name := k_aac; rm_rate := rate; rm_params := q_two |}.
Proof. exact rtpmap_aac_line. Qed.
Print Assumptions c19_sdp_rtpmap.

(* strconv.Atoi (fmt.Sprintf "%d" z) = z on the whole int64 range *)
Theorem c19_sdp_atoi_fmt : forall z, int64 z -> atoi (fmt_d z) = (z, 0).
Proof. exact atoi_fmt_d. Qed.
Print Assumptions c19_sdp_atoi_fmt.

(* "\n" -> "\r\n" and Split on "\r\n" give back the template lines *)
Theorem c19_sdp_lines : forall lines, forallb nocrlf lines = true ->
  split_crlf (replace_nl (join_nl lines)) = lines ++ [[]].
Proof. intros l H. rewrite (replace_nl_join l H). exact (split_crlf_join l H). Qed.
Print Assumptions c19_sdp_lines.

(* non-vacuity: the laws are satisfiable (a hexadecimal codec meets them), and
   on a concrete H264 + AAC stream the statement is about a non-trivial text *)
Example c19_sdp_laws_satisfiable : codec_laws w_dec w_dec w_enc w_enc.
Proof. repeat split; [exact w_rt | exact w_rt | exact w_clean | exact w_clean | exact w_len]. Qed.

Example c19_sdp_nonvacuous :
  let v := {| vi_pt := 96; vi_vps := None; vi_sps := Some [103; 100; 0; 31]; vi_pps := Some [104; 235; 236] |} in
  let a := {| ai_pt := 97; ai_rate := 44100; ai_asc := Some [18; 16] |} in
  video_kind v = Some (96%Z, None, [103; 100; 0; 31], [104; 235; 236]) /\
  audio_kind a = Some (97%Z, 44100%Z, Some [18; 16]) /\
  match sdp_pack w_dec w_dec w_enc w_enc [108; 97; 108] v a with
  | Ok ctx => lc_sps ctx = Some [103; 100; 0; 31] /\ lc_asc ctx = Some [18; 16] /\
              tk_rate (lc_audio ctx) = 44100%Z /\ (300 <? lenN (lc_raw ctx)) = true
  | _ => False
  end.
Proof. vm_compute. repeat split. Qed.
