(* C19 - codec configuration survives every re-encoding (work in progress:
   theorems are added part by part) *)
From Lal Require Import Common.LBytes Common.Res Codec.CodecBits.
Open Scope N_scope.

Theorem c19_placeholder_bits_of_byte_length : forall b, length (bits_of_byte b) = 8%nat.
Proof. reflexivity. Qed.
Print Assumptions c19_placeholder_bits_of_byte_length.

(* ---- part B: framing ---- *)
(* NAL unit streams between start-code framing (H.264 Annex B) and 4-byte
   length framing (ISO 14496-15, "AVCC"): avc.IterateNaluAnnexb /
   IterateNaluAvcc / Annexb2Avcc / Avcc2Annexb / IterateNaluStartCode and
   h2645.JoinNaluAvcc.  A stream is [join_annexb l ++ repeat 0 z]: every unit u
   comes with the number k >= 2 of zero bytes of its start code (k = 2: 00 00 01,
   k = 3: 00 00 00 01, larger k: leading_zero_8bits / the trailing_zero_8bits of
   the unit in front), z zero bytes follow the last unit.  [sc_ok (k, u)] is
   2 <= k and nal_wf u = what emulation prevention guarantees: no 00 00 01
   inside u and the last byte of u is not 00. *)
From Lal Require Import Codec.CodecNalFraming Codec.CodecNalFramingProofs.

(* the unit list survives Annex B -> units, Annex B -> AVCC, AVCC -> units,
   AVCC -> Annex B (4-byte codes) -> units, for every mix of start code lengths
   and any number of trailing zero bytes (the code after the
   c19_annexb_trailing_zeros fix) *)
Theorem c19_framing : forall (l : list (nat * bytes)) (z : nat),
  l <> [] -> Forall sc_ok l -> Forall len32_ok l ->
  let nals := map snd l in
  let s := join_annexb l ++ repeat 0 z in
  iterate_nalu_annexb s = (nals, None)
  /\ annexb2avcc s = (join_nalu_avcc nals, None)
  /\ iterate_nalu_avcc (join_nalu_avcc nals) = (nals, None)
  /\ avcc2annexb (join_nalu_avcc nals) = (annexb_join4 nals, None)
  /\ iterate_nalu_annexb (annexb_join4 nals) = (nals, None).
Proof. exact framing_all. Qed.
Print Assumptions c19_framing.

(* trailing_zero_8bits after EVERY unit: they are absorbed into the next start
   code (or dropped after the last unit) *)
Theorem c19_framing_zeros_after_every_unit : forall l : list (nat * bytes * nat),
  l <> [] -> Forall sc_tz_ok l ->
  iterate_nalu_annexb (join_annexb_tz l) = (map (fun x => snd (fst x)) l, None).
Proof. exact iterate_annexb_join_tz. Qed.
Print Assumptions c19_framing_zeros_after_every_unit.

(* length framing needs nothing of the unit contents: non-empty, below 2^32 *)
Theorem c19_framing_avcc : forall nals : list bytes,
  nals <> [] -> Forall avcc_ok nals ->
  iterate_nalu_avcc (join_nalu_avcc nals) = (nals, None)
  /\ avcc2annexb (join_nalu_avcc nals) = (annexb_join4 nals, None).
Proof. intros nals H1 H2. split; [apply iterate_avcc_join|apply avcc2annexb_join]; assumption. Qed.
Print Assumptions c19_framing_avcc.

(* the pinned tree handed nals[start:] to the handler for the last unit:
   trailing zero bytes ended up inside the unit (and in its AVCC length) *)
Theorem c19_framing_trailing_zeros_refuted :
  exists l z, l <> [] /\ Forall sc_ok l /\
    iterate_nalu_annexb_pinned (join_annexb l ++ repeat 0 z) <> (map snd l, None).
Proof. exact iterate_annexb_pinned_refuted. Qed.
Print Assumptions c19_framing_trailing_zeros_refuted.

(* ... and was right exactly when nothing follows the last unit *)
Theorem c19_framing_pinned_without_trailing_zeros : forall l : list (nat * bytes),
  l <> [] -> Forall sc_ok l -> iterate_nalu_annexb_pinned (join_annexb l) = (map snd l, None).
Proof. exact iterate_annexb_pinned_join. Qed.
Print Assumptions c19_framing_pinned_without_trailing_zeros.

(* IterateNaluStartCode: position and length (zero bytes + 01) of the first start code *)
Theorem c19_framing_start_code : forall u k r, nal_wf u -> (2 <= k)%nat ->
  iterate_nalu_start_code (u ++ repeat 0 k ++ 1 :: r) 0 = Some (lenN u, N.of_nat (S k)).
Proof. exact start_code_found. Qed.
Print Assumptions c19_framing_start_code.

(* the loops of the model never run out of fuel: the results above and the
   correspondence runs are about the real control flow, for every input *)
Theorem c19_framing_total : forall nals,
  snd (iterate_nalu_annexb nals) <> Some err_out_of_fuel
  /\ snd (iterate_nalu_avcc nals) <> Some err_out_of_fuel.
Proof. intros nals. split; [apply iterate_annexb_total|apply iterate_avcc_total]. Qed.
Print Assumptions c19_framing_total.

(* non-vacuity: a stream with 3-, 4- and 6-byte start codes, an emulation
   prevention byte, and three trailing zero bytes *)
Example c19_framing_nonvacuous :
  (example_units <> [] /\ Forall sc_ok example_units /\ Forall len32_ok example_units)
  /\ join_annexb example_units ++ repeat 0 3
     = [0;0;0;1; 103;100;0;40; 0;0;1; 104;0;0;3;1;0;1;238; 0;0;0;0;0;1; 101; 0;0;0]
  /\ iterate_nalu_annexb (join_annexb example_units ++ repeat 0 3)
     = ([[103;100;0;40]; [104;0;0;3;1;0;1;238]; [101]], None)
  /\ fst (annexb2avcc (join_annexb example_units ++ repeat 0 3))
     = [0;0;0;4; 103;100;0;40; 0;0;0;8; 104;0;0;3;1;0;1;238; 0;0;0;1; 101].
Proof. split; [exact example_units_ok|]. repeat split. Qed.
(* ---- end of part B ---- *)
