(* C19 - codec configuration survives every re-encoding (work in progress:
   theorems are added part by part) *)
From Lal Require Import Common.LBytes Common.Res Codec.CodecBits.
Open Scope N_scope.

Theorem c19_placeholder_bits_of_byte_length : forall b, length (bits_of_byte b) = 8%nat.
Proof. reflexivity. Qed.
Print Assumptions c19_placeholder_bits_of_byte_length.
