(* C19 - codec configuration survives every re-encoding (work in progress:
   theorems are added part by part) *)
From Lal Require Import Common.LBytes Common.Res Codec.CodecBits.
Open Scope N_scope.

Theorem c19_placeholder_bits_of_byte_length : forall b, length (bits_of_byte b) = 8%nat.
Proof. reflexivity. Qed.
Print Assumptions c19_placeholder_bits_of_byte_length.

(* ---- part B: framing ---- *)
(* NAL unit streams between start-code framing (H.264 Annex B) and 4-byte
   length framing (ISO 14496-15, "AVCC"): avc.IterateNaluAnnexb /
   IterateNaluAvcc / Annexb2Avcc / Avcc2Annexb / IterateNaluStartCode and
   h2645.JoinNaluAvcc.  A stream is [join_annexb l ++ repeat 0 z]: every unit u
   comes with the number k >= 2 of zero bytes of its start code (k = 2: 00 00 01,
   k = 3: 00 00 00 01, larger k: leading_zero_8bits / the trailing_zero_8bits of
   the unit in front), z zero bytes follow the last unit.  [sc_ok (k, u)] is
   2 <= k and nal_wf u = what emulation prevention guarantees: no 00 00 01
   inside u and the last byte of u is not 00. *)
From Lal Require Import Codec.CodecNalFraming Codec.CodecNalFramingProofs.

(* the unit list survives Annex B -> units, Annex B -> AVCC, AVCC -> units,
   AVCC -> Annex B (4-byte codes) -> units, for every mix of start code lengths
   and any number of trailing zero bytes (the code after the
   c19_annexb_trailing_zeros fix) *)
Theorem c19_framing : forall (l : list (nat * bytes)) (z : nat),
  l <> [] -> Forall sc_ok l -> Forall len32_ok l ->
  let nals := map snd l in
  let s := join_annexb l ++ repeat 0 z in
  iterate_nalu_annexb s = (nals, None)
  /\ annexb2avcc s = (join_nalu_avcc nals, None)
  /\ iterate_nalu_avcc (join_nalu_avcc nals) = (nals, None)
  /\ avcc2annexb (join_nalu_avcc nals) = (annexb_join4 nals, None)
  /\ iterate_nalu_annexb (annexb_join4 nals) = (nals, None).
Proof. exact framing_all. Qed.
Print Assumptions c19_framing.

(* trailing_zero_8bits after EVERY unit: they are absorbed into the next start
   code (or dropped after the last unit) *)
Theorem c19_framing_zeros_after_every_unit : forall l : list (nat * bytes * nat),
  l <> [] -> Forall sc_tz_ok l ->
  iterate_nalu_annexb (join_annexb_tz l) = (map (fun x => snd (fst x)) l, None).
Proof. exact iterate_annexb_join_tz. Qed.
Print Assumptions c19_framing_zeros_after_every_unit.

(* length framing needs nothing of the unit contents: non-empty, below 2^32 *)
Theorem c19_framing_avcc : forall nals : list bytes,
  nals <> [] -> Forall avcc_ok nals ->
  iterate_nalu_avcc (join_nalu_avcc nals) = (nals, None)
  /\ avcc2annexb (join_nalu_avcc nals) = (annexb_join4 nals, None).
Proof. intros nals H1 H2. split; [apply iterate_avcc_join|apply avcc2annexb_join]; assumption. Qed.
Print Assumptions c19_framing_avcc.

(* the pinned tree handed nals[start:] to the handler for the last unit:
   trailing zero bytes ended up inside the unit (and in its AVCC length) *)
Theorem c19_framing_trailing_zeros_refuted :
  exists l z, l <> [] /\ Forall sc_ok l /\
    iterate_nalu_annexb_pinned (join_annexb l ++ repeat 0 z) <> (map snd l, None).
Proof. exact iterate_annexb_pinned_refuted. Qed.
Print Assumptions c19_framing_trailing_zeros_refuted.

(* ... and was right exactly when nothing follows the last unit *)
Theorem c19_framing_pinned_without_trailing_zeros : forall l : list (nat * bytes),
  l <> [] -> Forall sc_ok l -> iterate_nalu_annexb_pinned (join_annexb l) = (map snd l, None).
Proof. exact iterate_annexb_pinned_join. Qed.
Print Assumptions c19_framing_pinned_without_trailing_zeros.

(* IterateNaluStartCode: position and length (zero bytes + 01) of the first start code *)
Theorem c19_framing_start_code : forall u k r, nal_wf u -> (2 <= k)%nat ->
  iterate_nalu_start_code (u ++ repeat 0 k ++ 1 :: r) 0 = Some (lenN u, N.of_nat (S k)).
Proof. exact start_code_found. Qed.
Print Assumptions c19_framing_start_code.

(* the loops of the model never run out of fuel: the results above and the
   correspondence runs are about the real control flow, for every input *)
Theorem c19_framing_total : forall nals,
  snd (iterate_nalu_annexb nals) <> Some err_out_of_fuel
  /\ snd (iterate_nalu_avcc nals) <> Some err_out_of_fuel.
Proof. intros nals. split; [apply iterate_annexb_total|apply iterate_avcc_total]. Qed.
Print Assumptions c19_framing_total.

(* non-vacuity: a stream with 3-, 4- and 6-byte start codes, an emulation
   prevention byte, and three trailing zero bytes *)
Example c19_framing_nonvacuous :
  (example_units <> [] /\ Forall sc_ok example_units /\ Forall len32_ok example_units)
  /\ join_annexb example_units ++ repeat 0 3
     = [0;0;0;1; 103;100;0;40; 0;0;1; 104;0;0;3;1;0;1;238; 0;0;0;0;0;1; 101; 0;0;0]
  /\ iterate_nalu_annexb (join_annexb example_units ++ repeat 0 3)
     = ([[103;100;0;40]; [104;0;0;3;1;0;1;238]; [101]], None)
  /\ fst (annexb2avcc (join_annexb example_units ++ repeat 0 3))
     = [0;0;0;4; 103;100;0;40; 0;0;0;8; 104;0;0;3;1;0;1;238; 0;0;0;1; 101].
Proof. split; [exact example_units_ok|]. repeat split. Qed.
(* ---- end of part B ---- *)

(* ---- part C: audio (AAC) ---- *)
(* aac.AscContext (the first 13 bits of the ISO 14496-3 AudioSpecificConfig:
   object type, sampling frequency index, channel configuration), the ADTS
   header lal writes/reads, and the FLV/RTMP AAC sequence header af 00 + ASC.
   [adts_carried c]: 1 <= object type <= 4, sampling index < 16, channel
   configuration < 8 - what the ADTS header has bits for.
   [asc_carried c]: object type < 32, index < 16, channels < 16 (no escape). *)
From Lal Require Import Codec.CodecAac Codec.CodecAacProofs.

(* ASC -> context -> ADTS header -> context -> ASC: object type, sampling index
   and channels agree, the frame length field is 7 + payload length, for every
   carried context, EVERY payload length below 8192 - 7 and any payload bytes
   behind the header *)
Theorem c19_asc_adts : forall c n payload, adts_carried c -> n + 7 < 8192 ->
  adts_unpack (adts_pack c n ++ payload) = Ok (c, n + 7)
  /\ asc_of_adts (adts_pack c n) = Ok (asc_pack c)
  /\ asc_unpack (asc_pack c) = Ok c.
Proof.
  intros c n payload Hc Hn. split; [apply adts_unpack_pack; assumption|].
  apply (asc_adts_asc (asc_pack c) c n); try assumption.
  rewrite <- (app_nil_r (asc_pack c)). apply asc_unpack_pack, adts_carried_asc, Hc.
Qed.
Print Assumptions c19_asc_adts.

(* ADTS header -> ASC -> ADTS header, for EVERY byte string lal accepts as a
   header: what Unpack reports is carried, survives MakeAscWithAdtsHeader and
   the way back *)
Theorem c19_adts_asc_adts : forall h c len, adts_unpack h = Ok (c, len) ->
  (adts_carried c /\ len < 8192)
  /\ asc_of_adts h = Ok (asc_pack c)
  /\ asc_unpack (asc_pack c) = Ok c
  /\ (7 <= len -> adts_unpack (adts_pack c (len - 7)) = Ok (c, len)).
Proof. intros h c len E. split; [exact (adts_unpack_carried h c len E)|exact (adts_asc_adts h c len E)]. Qed.
Print Assumptions c19_adts_asc_adts.

(* Pack / Unpack of the context itself; bytes behind the first two do not matter *)
Theorem c19_asc_pack_unpack : forall c ext, asc_carried c -> asc_unpack (asc_pack c ++ ext) = Ok c.
Proof. exact asc_unpack_pack. Qed.
Print Assumptions c19_asc_pack_unpack.

(* what is LOST, exactly: Unpack then Pack keeps the first 13 bits of the
   config and nothing else (GASpecificConfig flags, SBR/PS extension, ...) *)
Theorem c19_asc_keeps_13_bits : forall b0 b1 rest c, b0 < 256 -> b1 < 256 ->
  asc_unpack (b0 :: b1 :: rest) = Ok c -> asc_pack c = [b0; b1 - b1 mod 8].
Proof. exact asc_pack_unpack. Qed.
Print Assumptions c19_asc_keeps_13_bits.

Theorem c19_asc_extension_refuted :
  exists asc c n, asc_unpack asc = Ok c /\ adts_carried c /\ n + 7 < 8192 /\
    asc_of_adts (adts_pack c n) = Ok [18; 16] /\ asc <> [18; 16].
Proof. exact asc_extension_refuted. Qed.
Print Assumptions c19_asc_extension_refuted.

(* outside what ADTS carries the header silently says something else: object
   type 5 (SBR) reads back as 1, channel configuration 8 as 0, a payload of
   8185 bytes as frame length 0 *)
Theorem c19_adts_loss_refuted :
  (exists c n, asc_carried c /\ n + 7 < 8192 /\ asc_aot c = 5 /\
     adts_unpack (adts_pack c n) = Ok (mk_asc 1 (asc_sfi c) (asc_chan c), n + 7))
  /\ (exists c n, asc_carried c /\ n + 7 < 8192 /\ asc_chan c = 8 /\
     adts_unpack (adts_pack c n) = Ok (mk_asc (asc_aot c) (asc_sfi c) 0, n + 7))
  /\ (exists c n, adts_carried c /\ n + 7 = 8192 /\ adts_unpack (adts_pack c n) = Ok (c, 0)).
Proof. exact (conj adts_object_type_refuted (conj adts_channels_refuted adts_frame_length_refuted)). Qed.
Print Assumptions c19_adts_loss_refuted.

(* the sequence header is af 00 + the config bytes, for every config of 2 bytes
   and more; lal reads its tag header back as AAC / sequence header *)
Theorem c19_aac_seq_header :
  (forall asc, (2 <= length asc)%nat ->
     aac_seqh_of_asc asc = Ok (175 :: 0 :: asc)
     /\ skipn 2 (175 :: 0 :: asc) = asc
     /\ aac_seqh_unpack (175 :: 0 :: asc) = [10; 3; 1; 1; 0])
  /\ (forall h c len, adts_unpack h = Ok (c, len) -> aac_seqh_of_adts h = Ok (175 :: 0 :: asc_pack c)).
Proof. exact (conj aac_seqh_of_asc_ok aac_seqh_of_adts_ok). Qed.
Print Assumptions c19_aac_seq_header.

(* non-vacuity: AAC-LC 44.1 kHz stereo with an SBR extension, a 376 byte frame *)
Example c19_aac_nonvacuous :
  asc_unpack [18; 16; 86; 229; 0] = Ok (mk_asc 2 4 2) /\ adts_carried (mk_asc 2 4 2)
  /\ adts_pack (mk_asc 2 4 2) 376 = [255; 241; 80; 128; 47; 255; 252]
  /\ adts_unpack ([255; 241; 80; 128; 47; 255; 252] ++ [33; 0]) = Ok (mk_asc 2 4 2, 383)
  /\ asc_of_adts [255; 241; 80; 128; 47; 255; 252] = Ok [18; 16]
  /\ aac_seqh_of_adts [255; 241; 80; 128; 47; 255; 252] = Ok [175; 0; 18; 16].
Proof. exact aac_example_ok. Qed.
(* ---- end of part C ---- *)
