(* C19 - codec configuration survives every re-encoding; SDP and SPS info are
   right.  Only property statements here; each is closed by [exact] or a
   one/two line proof from the lemmas of Codec/*Proofs.v. *)
From Lal Require Import Common.LBytes Common.Res
  Codec.CodecBits Codec.CodecGolomb Codec.CodecRdM
  Codec.CodecSpsAvc Codec.CodecSpsAvcSpec Codec.CodecAvcSeqHeader
  Codec.CodecSpsHevc Codec.CodecHevcSeqHeader
  Codec.CodecGolombProofs Codec.CodecEpbProofs Codec.CodecAvcSeqHeaderProofs
  Codec.CodecHevcSeqHeaderProofs Codec.CodecSpsAvcProofs
  Codec.CodecSeqHeaderMulti Codec.CodecSeqHeaderMultiProofs.
Open Scope N_scope.

(* ---- part A: sequence headers ---- *)

(* lal's parser returns exactly the SPS and PPS a sequence header was built
   from, for every parameter-set length the record can carry (1..65535; the
   bytes are arbitrary: emulation-prevention bytes are just bytes here) *)
Theorem c19_seqheader_avc : forall sps pps h,
  lenN sps < 65536 -> lenN pps < 65536 ->
  avc_build_seq_header sps pps = Ok h ->
  avc_parse_seq_header h = Ok (sps, pps).
Proof. exact avc_seq_header_roundtrip. Qed.
Print Assumptions c19_seqheader_avc.

(* the header is built exactly when ParseSps accepts the SPS (profile and level
   are copied from it); ParseSps could also panic before the F-13 repair, see c19_sps_end_of_buffer_panic_pinned *)
Theorem c19_seqheader_avc_built : forall sps pps,
  (exists h, avc_build_seq_header sps pps = Ok h) <-> (exists ctx, parse_sps_avc sps = Ok ctx).
Proof. exact avc_build_ok_iff. Qed.
Print Assumptions c19_seqheader_avc_built.

(* Annex-B form of the header = start code, SPS, start code, PPS *)
Theorem c19_annexb_of_header : forall sps pps h,
  lenN sps < 65536 -> lenN pps < 65536 ->
  avc_build_seq_header sps pps = Ok h ->
  avc_seq_header2annexb h = Ok ([0; 0; 0; 1] ++ sps ++ [0; 0; 0; 1] ++ pps)
  /\ avc_build_sps_pps2annexb sps pps = [0; 0; 0; 1] ++ sps ++ [0; 0; 0; 1] ++ pps.
Proof. exact avc_annexb_of_header. Qed.
Print Assumptions c19_annexb_of_header.

Theorem c19_seqheader_hevc : forall vps sps pps h,
  lenN vps < 65536 -> lenN sps < 65536 -> lenN pps < 65536 ->
  hevc_build_seq_header vps sps pps = Ok h ->
  hevc_parse_seq_header h = Ok (vps, sps, pps)
  /\ hevc_seq_header2annexb h = Ok ([0; 0; 0; 1] ++ vps ++ [0; 0; 0; 1] ++ sps ++ [0; 0; 0; 1] ++ pps).
Proof. exact hevc_seq_header_roundtrip. Qed.
Print Assumptions c19_seqheader_hevc.

(* SEVERAL parameter sets.  An AVCDecoderConfigurationRecord written as ISO/IEC
   14496-15 5.2.4.1.1 says (avc_record_multi: any profile / compatibility /
   level bytes, up to 31 SPS - 5-bit count - and 255 PPS - 8-bit count -, every
   set shorter than 65536 bytes, arbitrary bytes): lal's list parser returns
   every set, in order, byte for byte, and the Annex-B form is exactly a start
   code in front of every set. *)
Theorem c19_seqheader_avc_all_sets : forall prof compat lvl spss ppss,
  (length spss < 32)%nat -> (length ppss < 256)%nat ->
  Forall (fun x => lenN x < 65536) spss -> Forall (fun x => lenN x < 65536) ppss ->
  avc_parse_seq_header_list (avc_record_multi prof compat lvl spss ppss) = Ok (spss, ppss)
  /\ avc_seq_header2annexb (avc_record_multi prof compat lvl spss ppss)
     = Ok (concat (map (fun x => [0; 0; 0; 1] ++ x) spss) ++ concat (map (fun x => [0; 0; 0; 1] ++ x) ppss)).
Proof. intros; split; [apply avc_multi_parse_list|apply avc_multi_annexb]; assumption. Qed.
Print Assumptions c19_seqheader_avc_all_sets.

(* from seven sets on that Annex-B form is longer than the sequence header it
   came from (2-byte length -> 4-byte start code against 12 bytes of record
   overhead): the conversion cannot be done in a buffer of the input's size *)
Theorem c19_annexb_longer_than_header : forall prof compat lvl spss ppss,
  (7 <= length spss + length ppss)%nat ->
  lenN (avc_record_multi prof compat lvl spss ppss)
  < lenN (concat (map (fun x => [0; 0; 0; 1] ++ x) spss) ++ concat (map (fun x => [0; 0; 0; 1] ++ x) ppss)).
Proof. exact avc_multi_annexb_longer. Qed.
Print Assumptions c19_annexb_longer_than_header.

Example c19_nonvacuous_multi :
  avc_seq_header2annexb (avc_record_multi 100 0 31 [[103; 100]; [103; 77; 1]] [[104; 1]; []; [104; 2; 3]])
  = Ok [0; 0; 0; 1; 103; 100; 0; 0; 0; 1; 103; 77; 1; 0; 0; 0; 1; 104; 1; 0; 0; 0; 1; 0; 0; 0; 1; 104; 2; 3]
  /\ avc_hdr_sdp (avc_record_multi 100 0 31 [[103; 100]; [103; 77; 1]] [[104; 1]; []; [104; 2; 3]]) = Some ([103; 100], [104; 1]).
Proof. vm_compute. split; reflexivity. Qed.

(* ---- part D: SPS fields and picture size ---- *)

(* the nazabits Exp-Golomb reader returns every value the standard's ue(v)
   writer produces and stops right behind it *)
Theorem c19_read_ue_write_ue : forall v r,
  v + 1 < 4294967296 -> (v = 0 -> r <> []) ->
  read_ue (mk_bitrd (write_ue v ++ r) false) = Ok (Some v, mk_bitrd r false).
Proof. exact read_ue_written. Qed.
Print Assumptions c19_read_ue_write_ue.

(* ... and panics (index out of range in naza) when a value-0 code word is the
   very last bit of the buffer: DESIGN F-13.  On the pinned tree that was reachable
   through ParseSps and BuildSeqHeaderFromSpsPps; since the lal-side repair (C05)
   ParseSps hands the reader the RBSP copy with one zero byte appended, so the code
   word is never at the end of the buffer: the same SPS now parses (to an error or a
   value), see CodecPadProofs.parse_sps_avc_total / hevc_parse_sps_total *)
Theorem c19_sps_end_of_buffer_panic_pinned :
  read_ue (mk_bitrd (write_ue 0) false) = Panic site_nazabits_zero_read
  /\ parse_sps_avc_pinned [103; 66; 0; 30; 255] = Panic site_nazabits_zero_read
  /\ (forall s, parse_sps_avc [103; 66; 0; 30; 255] <> Panic s)
  /\ (forall s, avc_build_seq_header [103; 66; 0; 30; 255] [104; 206; 60; 128] <> Panic s).
Proof. repeat split; try (vm_compute; reflexivity); intro s; vm_compute; discriminate. Qed.
Print Assumptions c19_sps_end_of_buffer_panic_pinned.

(* removing 00 00 03 -> 00 00 (what ParseSps now does first) undoes the
   emulation prevention of H.264 7.4.1 on every byte string *)
Theorem c19_epb_roundtrip : forall rbsp, nal2rbsp (epb_insert rbsp) = rbsp.
Proof. exact nal2rbsp_epb. Qed.
Print Assumptions c19_epb_roundtrip.

(* for EVERY SPS the H.264 7.3.2.1 encoder model can produce (profiles with and
   without chroma info, scaling lists, three POC types, cropping, frame/field,
   VUI aspect ratio, any further VUI bits), lal's ParseSps succeeds and reports
   profile, level and the picture size of 7.4.2.1.1 *)
Theorem c19_dims_avc : forall s, sps_ok s ->
  exists ctx,
    parse_sps_avc (sps_nal s) = Ok ctx /\
    ac_profile ctx = ss_profile_idc s /\ ac_level ctx = ss_level_idc s /\
    Z.of_N (ac_width ctx) = spec_width s /\ Z.of_N (ac_height ctx) = spec_height s.
Proof. exact dims_avc. Qed.
Print Assumptions c19_dims_avc.

(* hence such an SPS always yields a sequence header, from which it comes back *)
Theorem c19_seqheader_of_encoded_sps : forall s pps,
  sps_ok s -> lenN (sps_nal s) < 65536 -> lenN pps < 65536 ->
  exists h, avc_build_seq_header (sps_nal s) pps = Ok h /\ avc_parse_seq_header h = Ok (sps_nal s, pps).
Proof.
  intros s pps Hok Hs Hp. destruct (dims_avc s Hok) as (ctx & Hctx & _).
  destruct (proj2 (avc_build_ok_iff (sps_nal s) pps) (ex_intro _ ctx Hctx)) as [h Hh].
  exists h. split; [exact Hh|]. exact (avc_seq_header_roundtrip _ _ _ Hs Hp Hh).
Qed.
Print Assumptions c19_seqheader_of_encoded_sps.

(* the pinned tree failed c19_dims_avc in two ways (DESIGN F-06); both were
   repaired in lal (fix commits), the witnesses stay *)
Theorem c19_dims_avc_pinned_refuted :
  exists s ctx, sps_ok s /\ parse_sps_avc (sps_nal s) = Ok ctx /\
                spec_height s = 1080%Z /\ avc_height_pinned (ac_sps ctx) = 1084 /\ ac_height ctx = 1080.
Proof. exact dims_avc_pinned_refuted. Qed.
Print Assumptions c19_dims_avc_pinned_refuted.

Theorem c19_dims_avc_raw_epb_refuted :
  exists s ctx, sps_ok s /\ parse_sps_avc_raw (sps_nal s) = Ok ctx /\
                spec_width s = 1920%Z /\ spec_height s = 1080%Z /\
                (ac_width ctx, ac_height ctx) <> (1920, 1080).
Proof. exact dims_avc_raw_epb_refuted. Qed.
Print Assumptions c19_dims_avc_raw_epb_refuted.

(* non-vacuity: the encoder model reproduces lal's test vector goldenSps2 byte
   for byte, it satisfies sps_ok, and the sequence header built from it parses back *)
Example c19_nonvacuous_ps :
  sps_ok sps_golden2 /\ sps_nal sps_golden2 = [39; 100; 0; 31; 172; 86; 128; 180; 10; 25]
  /\ spec_width sps_golden2 = 720%Z /\ spec_height sps_golden2 = 1280%Z
  /\ avc_build_seq_header (sps_nal sps_golden2) [40; 238; 60; 176]
     = Ok [23; 0; 0; 0; 0; 1; 100; 0; 31; 255; 225; 0; 10; 39; 100; 0; 31; 172; 86; 128; 180; 10; 25; 1; 0; 4; 40; 238; 60; 176].
Proof. repeat split; vm_compute; reflexivity. Qed.

(* ---- part D (HEVC): picture size of the basic H.265 SPS ---- *)
From Lal Require Import Codec.CodecSpsHevcSpec Codec.CodecSpsHevcProofs.

(* for every SPS of the H.265 7.3.2.2.1 encoder model (any profile_tier_level
   with up to 6 sub-layers, chroma formats, conformance window, sub-layer
   ordering info, any continuation), hevc.ParseSps succeeds from any context and
   reports the coded size and the size inside the conformance window
   (7.4.3.2.1, offsets in units of SubWidthC / SubHeightC) *)
Theorem c19_dims_hevc : forall s c0, hevc_sps_ok s ->
  exists c,
    hevc_parse_sps (hevc_sps_nal s) c0 = Ok c /\
    sps_get H_width c = hs_width s /\ sps_get H_height c = hs_height s /\
    Z.of_N (sps_get H_outw c) = hspec_width s /\ Z.of_N (sps_get H_outh c) = hspec_height s.
Proof. intros s c0 H. exact (dims_hevc s c0 H). Qed.
Print Assumptions c19_dims_hevc.

(* 1920x1088 coded, conformance window bottom offset 4 (4:2:0 -> 8 lines): 1920x1080;
   the pinned tree reported the coded 1088 (fixed in lal) *)
Example c19_nonvacuous_hevc :
  let s := mk_hevc_sps_syntax 0 true (mk_ptl_syntax 0 false 1 1610612736 158329674399744 93 [])
             0 1 false 1920 1088 (Some (0, 0, 0, 4)) 0 0 4 true [(4, 2, 0)] [0; 3; 0; 3; 0; 0] [false; true; true] in
  hevc_sps_ok s /\ hspec_width s = 1920%Z /\ hspec_height s = 1080%Z
  /\ exists c, hevc_parse_sps (hevc_sps_nal s) [] = Ok c /\ sps_get H_outh c = 1080 /\ sps_get H_height c = 1088.
Proof.
  cbv zeta. split; [vm_compute; reflexivity|]. split; [vm_compute; reflexivity|]. split; [vm_compute; reflexivity|].
  eexists. split; [vm_compute; reflexivity|]. split; vm_compute; reflexivity.
Qed.

(* ---- part B: framing ---- *)
(* NAL unit streams between start-code framing (H.264 Annex B) and 4-byte
   length framing (ISO 14496-15, "AVCC"): avc.IterateNaluAnnexb /
   IterateNaluAvcc / Annexb2Avcc / Avcc2Annexb / IterateNaluStartCode and
   h2645.JoinNaluAvcc.  A stream is [join_annexb l ++ repeat 0 z]: every unit u
   comes with the number k >= 2 of zero bytes of its start code (k = 2: 00 00 01,
   k = 3: 00 00 00 01, larger k: leading_zero_8bits / the trailing_zero_8bits of
   the unit in front), z zero bytes follow the last unit.  [sc_ok (k, u)] is
   2 <= k and nal_wf u = what emulation prevention guarantees: no 00 00 01
   inside u and the last byte of u is not 00. *)
From Lal Require Import Codec.CodecNalFraming Codec.CodecNalFramingProofs.

(* the unit list survives Annex B -> units, Annex B -> AVCC, AVCC -> units,
   AVCC -> Annex B (4-byte codes) -> units, for every mix of start code lengths
   and any number of trailing zero bytes (the code after the
   c19_annexb_trailing_zeros fix) *)
Theorem c19_framing : forall (l : list (nat * bytes)) (z : nat),
  l <> [] -> Forall sc_ok l -> Forall len32_ok l ->
  let nals := map snd l in
  let s := join_annexb l ++ repeat 0 z in
  iterate_nalu_annexb s = (nals, None)
  /\ annexb2avcc s = (join_nalu_avcc nals, None)
  /\ iterate_nalu_avcc (join_nalu_avcc nals) = (nals, None)
  /\ avcc2annexb (join_nalu_avcc nals) = (annexb_join4 nals, None)
  /\ iterate_nalu_annexb (annexb_join4 nals) = (nals, None).
Proof. exact framing_all. Qed.
Print Assumptions c19_framing.

(* trailing_zero_8bits after EVERY unit: they are absorbed into the next start
   code (or dropped after the last unit) *)
Theorem c19_framing_zeros_after_every_unit : forall l : list (nat * bytes * nat),
  l <> [] -> Forall sc_tz_ok l ->
  iterate_nalu_annexb (join_annexb_tz l) = (map (fun x => snd (fst x)) l, None).
Proof. exact iterate_annexb_join_tz. Qed.
Print Assumptions c19_framing_zeros_after_every_unit.

(* length framing needs nothing of the unit contents: non-empty, below 2^32 *)
Theorem c19_framing_avcc : forall nals : list bytes,
  nals <> [] -> Forall avcc_ok nals ->
  iterate_nalu_avcc (join_nalu_avcc nals) = (nals, None)
  /\ avcc2annexb (join_nalu_avcc nals) = (annexb_join4 nals, None).
Proof. intros nals H1 H2. split; [apply iterate_avcc_join|apply avcc2annexb_join]; assumption. Qed.
Print Assumptions c19_framing_avcc.

(* the pinned tree handed nals[start:] to the handler for the last unit:
   trailing zero bytes ended up inside the unit (and in its AVCC length) *)
Theorem c19_framing_trailing_zeros_refuted :
  exists l z, l <> [] /\ Forall sc_ok l /\
    iterate_nalu_annexb_pinned (join_annexb l ++ repeat 0 z) <> (map snd l, None).
Proof. exact iterate_annexb_pinned_refuted. Qed.
Print Assumptions c19_framing_trailing_zeros_refuted.

(* ... and was right exactly when nothing follows the last unit *)
Theorem c19_framing_pinned_without_trailing_zeros : forall l : list (nat * bytes),
  l <> [] -> Forall sc_ok l -> iterate_nalu_annexb_pinned (join_annexb l) = (map snd l, None).
Proof. exact iterate_annexb_pinned_join. Qed.
Print Assumptions c19_framing_pinned_without_trailing_zeros.

(* IterateNaluStartCode: position and length (zero bytes + 01) of the first start code *)
Theorem c19_framing_start_code : forall u k r, nal_wf u -> (2 <= k)%nat ->
  iterate_nalu_start_code (u ++ repeat 0 k ++ 1 :: r) 0 = Some (lenN u, N.of_nat (S k)).
Proof. exact start_code_found. Qed.
Print Assumptions c19_framing_start_code.

(* the loops of the model never run out of fuel: the results above and the
   correspondence runs are about the real control flow, for every input *)
Theorem c19_framing_total : forall nals,
  snd (iterate_nalu_annexb nals) <> Some err_out_of_fuel
  /\ snd (iterate_nalu_avcc nals) <> Some err_out_of_fuel.
Proof. intros nals. split; [apply iterate_annexb_total|apply iterate_avcc_total]. Qed.
Print Assumptions c19_framing_total.

(* non-vacuity: a stream with 3-, 4- and 6-byte start codes, an emulation
   prevention byte, and three trailing zero bytes *)
Example c19_framing_nonvacuous :
  (example_units <> [] /\ Forall sc_ok example_units /\ Forall len32_ok example_units)
  /\ join_annexb example_units ++ repeat 0 3
     = [0;0;0;1; 103;100;0;40; 0;0;1; 104;0;0;3;1;0;1;238; 0;0;0;0;0;1; 101; 0;0;0]
  /\ iterate_nalu_annexb (join_annexb example_units ++ repeat 0 3)
     = ([[103;100;0;40]; [104;0;0;3;1;0;1;238]; [101]], None)
  /\ fst (annexb2avcc (join_annexb example_units ++ repeat 0 3))
     = [0;0;0;4; 103;100;0;40; 0;0;0;8; 104;0;0;3;1;0;1;238; 0;0;0;1; 101].
Proof. split; [exact example_units_ok|]. repeat split. Qed.
(* ---- end of part B ---- *)

(* ---- part C: audio (AAC) ---- *)
(* aac.AscContext (the first 13 bits of the ISO 14496-3 AudioSpecificConfig:
   object type, sampling frequency index, channel configuration), the ADTS
   header lal writes/reads, and the FLV/RTMP AAC sequence header af 00 + ASC.
   [adts_carried c]: 1 <= object type <= 4, sampling index < 16, channel
   configuration < 8 - what the ADTS header has bits for.
   [asc_carried c]: object type < 32, index < 16, channels < 16 (no escape). *)
From Lal Require Import Codec.CodecAac Codec.CodecAacProofs.

(* ASC -> context -> ADTS header -> context -> ASC: object type, sampling index
   and channels agree, the frame length field is 7 + payload length, for every
   carried context, EVERY payload length below 8192 - 7 and any payload bytes
   behind the header *)
Theorem c19_asc_adts : forall c n payload, adts_carried c -> n + 7 < 8192 ->
  adts_unpack (adts_pack c n ++ payload) = Ok (c, n + 7)
  /\ asc_of_adts (adts_pack c n) = Ok (asc_pack c)
  /\ asc_unpack (asc_pack c) = Ok c.
Proof.
  intros c n payload Hc Hn. split; [apply adts_unpack_pack; assumption|].
  apply (asc_adts_asc (asc_pack c) c n); try assumption.
  rewrite <- (app_nil_r (asc_pack c)). apply asc_unpack_pack, adts_carried_asc, Hc.
Qed.
Print Assumptions c19_asc_adts.

(* ADTS header -> ASC -> ADTS header, for EVERY byte string lal accepts as a
   header: what Unpack reports is carried, survives MakeAscWithAdtsHeader and
   the way back *)
Theorem c19_adts_asc_adts : forall h c len, adts_unpack h = Ok (c, len) ->
  (adts_carried c /\ len < 8192)
  /\ asc_of_adts h = Ok (asc_pack c)
  /\ asc_unpack (asc_pack c) = Ok c
  /\ (7 <= len -> adts_unpack (adts_pack c (len - 7)) = Ok (c, len)).
Proof. intros h c len E. split; [exact (adts_unpack_carried h c len E)|exact (adts_asc_adts h c len E)]. Qed.
Print Assumptions c19_adts_asc_adts.

(* Pack / Unpack of the context itself; bytes behind the first two do not matter *)
Theorem c19_asc_pack_unpack : forall c ext, asc_carried c -> asc_unpack (asc_pack c ++ ext) = Ok c.
Proof. exact asc_unpack_pack. Qed.
Print Assumptions c19_asc_pack_unpack.

(* what is LOST, exactly: Unpack then Pack keeps the first 13 bits of the
   config and nothing else (GASpecificConfig flags, SBR/PS extension, ...) *)
Theorem c19_asc_keeps_13_bits : forall b0 b1 rest c, b0 < 256 -> b1 < 256 ->
  asc_unpack (b0 :: b1 :: rest) = Ok c -> asc_pack c = [b0; b1 - b1 mod 8].
Proof. exact asc_pack_unpack. Qed.
Print Assumptions c19_asc_keeps_13_bits.

Theorem c19_asc_extension_refuted :
  exists asc c n, asc_unpack asc = Ok c /\ adts_carried c /\ n + 7 < 8192 /\
    asc_of_adts (adts_pack c n) = Ok [18; 16] /\ asc <> [18; 16].
Proof. exact asc_extension_refuted. Qed.
Print Assumptions c19_asc_extension_refuted.

(* outside what ADTS carries the header silently says something else: object
   type 5 (SBR) reads back as 1, channel configuration 8 as 0, a payload of
   8185 bytes as frame length 0 *)
Theorem c19_adts_loss_refuted :
  (exists c n, asc_carried c /\ n + 7 < 8192 /\ asc_aot c = 5 /\
     adts_unpack (adts_pack c n) = Ok (mk_asc 1 (asc_sfi c) (asc_chan c), n + 7))
  /\ (exists c n, asc_carried c /\ n + 7 < 8192 /\ asc_chan c = 8 /\
     adts_unpack (adts_pack c n) = Ok (mk_asc (asc_aot c) (asc_sfi c) 0, n + 7))
  /\ (exists c n, adts_carried c /\ n + 7 = 8192 /\ adts_unpack (adts_pack c n) = Ok (c, 0)).
Proof. exact (conj adts_object_type_refuted (conj adts_channels_refuted adts_frame_length_refuted)). Qed.
Print Assumptions c19_adts_loss_refuted.

(* the sequence header is af 00 + the config bytes, for every config of 2 bytes
   and more; lal reads its tag header back as AAC / sequence header *)
Theorem c19_aac_seq_header :
  (forall asc, (2 <= length asc)%nat ->
     aac_seqh_of_asc asc = Ok (175 :: 0 :: asc)
     /\ skipn 2 (175 :: 0 :: asc) = asc
     /\ aac_seqh_unpack (175 :: 0 :: asc) = [10; 3; 1; 1; 0])
  /\ (forall h c len, adts_unpack h = Ok (c, len) -> aac_seqh_of_adts h = Ok (175 :: 0 :: asc_pack c)).
Proof. exact (conj aac_seqh_of_asc_ok aac_seqh_of_adts_ok). Qed.
Print Assumptions c19_aac_seq_header.

(* non-vacuity: AAC-LC 44.1 kHz stereo with an SBR extension, a 376 byte frame *)
Example c19_aac_nonvacuous :
  asc_unpack [18; 16; 86; 229; 0] = Ok (mk_asc 2 4 2) /\ adts_carried (mk_asc 2 4 2)
  /\ adts_pack (mk_asc 2 4 2) 376 = [255; 241; 80; 128; 47; 255; 252]
  /\ adts_unpack ([255; 241; 80; 128; 47; 255; 252] ++ [33; 0]) = Ok (mk_asc 2 4 2, 383)
  /\ asc_of_adts [255; 241; 80; 128; 47; 255; 252] = Ok [18; 16]
  /\ aac_seqh_of_adts [255; 241; 80; 128; 47; 255; 252] = Ok [175; 0; 18; 16].
Proof. exact aac_example_ok. Qed.
(* ---- end of part C ---- *)

(* ---- part E: SDP ---- *)
(* sdp.Pack -> text -> ParseSdp2LogicContext.  base64.StdEncoding and
   encoding/hex are external code: the theorems quantify over any functions
   that obey the five laws `codec_laws` (trusted base, exercised by the
   correspondence check with python's base64 / binascii). *)
From Lal Require Import Codec.CodecSdpText Codec.CodecSdp Codec.CodecSdpProofs.

Definition codec_laws (b64_dec hex_dec : bytes -> bytes * bool) (b64_enc hex_enc : bytes -> bytes) : Prop :=
  (forall x, bytes_ok x -> b64_dec (b64_enc x) = (x, true)) /\
  (forall x, bytes_ok x -> hex_dec (hex_enc x) = (x, true)) /\
  (forall x, bytes_ok x -> clean (b64_enc x) = true) /\     (* no ';' ',' or ASCII white space (incl. CR, LF) *)
  (forall x, bytes_ok x -> clean (hex_enc x) = true) /\
  (forall x, bytes_ok x -> lenN (hex_enc x) = 2 * lenN x).

(* the full statement: for every VideoInfo / AudioInfo (byte strings, int64
   sampling frequency, a=tool text without CR/LF): Pack refuses exactly when
   neither track is usable, and otherwise the context it returns has, per
   accepted track, base and origin payload type = the packed type, clock rate
   90000 / the sampling frequency (48000 for Opus), control streamid=0 / 1 (audio
   gets 0 when there is no video), Vps/Sps/Pps byte for byte, and Asc byte for
   byte when it has at least 2 bytes (None when shorter: ParseAsc wants 4 hex
   digits); a missing track reads as has=false, type unknown. *)
Theorem c19_sdp : forall b64_dec hex_dec b64_enc hex_enc, codec_laws b64_dec hex_dec b64_enc hex_enc ->
  forall tool v a, nocrlf tool = true -> vinfo_ok v -> ainfo_ok a -> int64 (ai_rate a) ->
  match video_kind v, audio_kind a with
  | None, None => sdp_pack b64_dec hex_dec b64_enc hex_enc tool v a = Err err_other
  | vk, ak => exists raw, sdp_pack_text b64_enc hex_enc tool v a = Some raw /\
                          sdp_pack b64_dec hex_dec b64_enc hex_enc tool v a = Ok (exp_ctx raw vk ak)
  end.
Proof. intros ? ? ? ? (H1 & H2 & H3 & H4 & H5). exact (sdp_pack_roundtrip _ _ _ _ H1 H2 H3 H4 H5). Qed.
Print Assumptions c19_sdp.

Theorem c19_sdp_video : forall b64_dec hex_dec b64_enc hex_enc, codec_laws b64_dec hex_dec b64_enc hex_enc ->
  forall tool v a pt vp s p, nocrlf tool = true -> vinfo_ok v -> ainfo_ok a -> int64 (ai_rate a) ->
  video_kind v = Some (pt, vp, s, p) ->
  exists ctx, sdp_pack b64_dec hex_dec b64_enc hex_enc tool v a = Ok ctx /\
              lc_video ctx = {| tk_has := true; tk_rate := 90000; tk_base := pt; tk_orig := pt; tk_ctl := q_streamid0 |} /\
              lc_vps ctx = vp /\ lc_sps ctx = Some s /\ lc_pps ctx = Some p.
Proof. intros ? ? ? ? (H1 & H2 & H3 & H4 & H5). exact (sdp_pack_video _ _ _ _ H1 H2 H3 H4 H5). Qed.
Print Assumptions c19_sdp_video.

Theorem c19_sdp_audio : forall b64_dec hex_dec b64_enc hex_enc, codec_laws b64_dec hex_dec b64_enc hex_enc ->
  forall tool v a pt rate asc, nocrlf tool = true -> vinfo_ok v -> ainfo_ok a -> int64 (ai_rate a) ->
  audio_kind a = Some (pt, rate, asc) ->
  exists ctx, sdp_pack b64_dec hex_dec b64_enc hex_enc tool v a = Ok ctx /\
              lc_audio ctx = {| tk_has := true; tk_rate := rate; tk_base := pt; tk_orig := pt;
                                tk_ctl := q_sid ++ fmt_d (match video_kind v with Some _ => 1 | None => 0 end) |} /\
              lc_asc ctx = match asc with Some c => if 2 <=? lenN c then Some c else None | None => None end.
Proof. intros ? ? ? ? (H1 & H2 & H3 & H4 & H5). exact (sdp_pack_audio _ _ _ _ H1 H2 H3 H4 H5). Qed.
Print Assumptions c19_sdp_audio.

(* Pack refuses exactly the streams without a usable track (no law needed) *)
Theorem c19_sdp_refuses : forall b64_dec hex_dec b64_enc hex_enc tool v a,
  video_kind v = None -> audio_kind a = None ->
  sdp_pack b64_dec hex_dec b64_enc hex_enc tool v a = Err err_other.
Proof. exact sdp_pack_refuses. Qed.
Print Assumptions c19_sdp_refuses.

(* the line parsers on the templates, with symbolic encoded values *)
Theorem c19_sdp_fmtp_avc : forall S P, clean S = true -> clean P = true ->
  parse_a_fmtp (t_fmtp_avc_1 ++ S ++ [44] ++ P ++ t_fmtp_avc_2)
  = Ok {| fp_format := 96; fp_params := [(q_pm_k, q_one); (k_sprop, S ++ [44] ++ P); (q_pli_k, q_pli_v)] |}.
Proof. exact fmtp_avc_line. Qed.
Print Assumptions c19_sdp_fmtp_avc.

Theorem c19_sdp_fmtp_hevc : forall S P V, clean S = true -> clean P = true -> clean V = true ->
  parse_a_fmtp (t_fmtp_hevc_1 ++ S ++ t_fmtp_hevc_2 ++ P ++ t_fmtp_hevc_3 ++ V)
  = Ok {| fp_format := 98; fp_params := [(q_pid_k, q_one); (k_sprop_sps, S); (k_sprop_pps, P); (k_sprop_vps, V)] |}.
Proof. exact fmtp_hevc_line. Qed.
Print Assumptions c19_sdp_fmtp_hevc.

Theorem c19_sdp_fmtp_aac : forall H, clean H = true ->
  parse_a_fmtp (t_fmtp ++ fmt_d pt_aac ++ t_fmtp_aac ++ H)
  = Ok {| fp_format := 97; fp_params := q_aac_params ++ [(k_config, H)] |}.
Proof. exact fmtp_aac_line. Qed.
Print Assumptions c19_sdp_fmtp_aac.

Theorem c19_sdp_rtpmap : forall rate, int64 rate ->
  parse_a_rtpmap (t_rtpmap ++ fmt_d pt_aac ++ t_aac_1 ++ fmt_d rate ++ t_aac_2)
  = Ok {| rm_pt := 97; rm_name := k_aac; rm_rate := rate; rm_params := q_two |}.
Proof. exact rtpmap_aac_line. Qed.
Print Assumptions c19_sdp_rtpmap.

(* strconv.Atoi (fmt.Sprintf "%d" z) = z on the whole int64 range *)
Theorem c19_sdp_atoi_fmt : forall z, int64 z -> atoi (fmt_d z) = (z, 0).
Proof. exact atoi_fmt_d. Qed.
Print Assumptions c19_sdp_atoi_fmt.

(* "\n" -> "\r\n" and Split on "\r\n" give back the template lines *)
Theorem c19_sdp_lines : forall lines, forallb nocrlf lines = true ->
  split_crlf (replace_nl (join_nl lines)) = lines ++ [[]].
Proof. intros l H. rewrite (replace_nl_join l H). exact (split_crlf_join l H). Qed.
Print Assumptions c19_sdp_lines.

(* non-vacuity: the laws are satisfiable (a hexadecimal codec meets them), and
   on a concrete H264 + AAC stream the statement is about a non-trivial text *)
Example c19_sdp_laws_satisfiable : codec_laws w_dec w_dec w_enc w_enc.
Proof. repeat split; [exact w_rt | exact w_rt | exact w_clean | exact w_clean | exact w_len]. Qed.

Example c19_sdp_nonvacuous :
  let v := {| vi_pt := 96; vi_vps := None; vi_sps := Some [103; 100; 0; 31]; vi_pps := Some [104; 235; 236] |} in
  let a := {| ai_pt := 97; ai_rate := 44100; ai_asc := Some [18; 16] |} in
  video_kind v = Some (96%Z, None, [103; 100; 0; 31], [104; 235; 236]) /\
  audio_kind a = Some (97%Z, 44100%Z, Some [18; 16]) /\
  match sdp_pack w_dec w_dec w_enc w_enc [108; 97; 108] v a with
  | Ok ctx => lc_sps ctx = Some [103; 100; 0; 31] /\ lc_asc ctx = Some [18; 16] /\
              tk_rate (lc_audio ctx) = 44100%Z /\ (300 <? lenN (lc_raw ctx)) = true
  | _ => False
  end.
Proof. vm_compute. repeat split. Qed.
