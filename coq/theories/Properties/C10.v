(* C10 - HLS playlists and segments are consistent at every instant.
   Only property statements here.  Vocabulary:
     run c evs            the sequence of file-system-layer calls hls.Muxer makes for the history evs (HlsMuxer.v)
     state_at c evs k     the file system after the first k calls (a crash point); ver_at = playlist versions published so far
     wf_evs c Clean 0 evs histories from an empty stream directory in which a 376-byte PAT/PMT is fed before the first
                          frame of each publication and frames are whole 188-byte packets.  A stream may be published
                          again over the directory of its previous publication (no cleanup in between) provided fewer
                          than 2^31 fragments have been closed since the directory was last empty (the counter argument
                          of wf_evs: a frame closes at most two fragments, Dispose one; calcNextSeqInM3u8 refuses a
                          larger media sequence and the numbering would start at 0 again)
     cfg_ok c             fragment_num >= 1, delete_threshold >= 0, 0 <= fragment_duration_ms <= 2^35, and the stream name
                          contains no LF and does not start with '#'
     parse_live           a strict parser for media playlists (HlsParse.v); a result means "parses completely" *)
From Coq Require Import ZArith Bool List Lia.
From Lal Require Import Common.LBytes Hls.HlsFloat Hls.HlsFs Hls.HlsPlaylist Hls.HlsParse Hls.HlsMuxer Hls.HlsConsistent
  Hls.HlsInv Hls.HlsRunProofs Hls.HlsTraceProofs Hls.HlsFinalProofs Hls.HlsLossProofs Hls.HlsRecordProofs
  Hls.HlsInvProofs Hls.HlsServer Hls.HlsServerProofs.
Open Scope Z_scope.

(* At EVERY prefix of the operation sequence: the live playlist, if present, is a complete playlist (it parses
   completely, to the structured playlist it is the text of); its target duration is at least every listed duration
   (as listed, "%.3f") rounded to the nearest second; every listed segment exists, is closed, is a whole number of
   188-byte packets and begins with a PAT/PMT. *)
Theorem c10_inv_every_prefix : forall c evs k,
  cfg_ok c -> wf_evs c Clean 0 evs -> live_ok c (state_at c evs k).
Proof. exact every_prefix_live_ok. Qed.
Print Assumptions c10_inv_every_prefix.

(* The same in terms of the parse result alone: every URI listed names a file that exists, is closed, is whole TS
   packets and begins with PAT/PMT, and its listed duration rounded to the nearest second is at most the target. *)
Theorem c10_parsed_playlist_consistent : forall c evs k f t,
  cfg_ok c -> wf_evs c Clean 0 evs ->
  fs_lookup PLive (state_at c evs k) = Some f -> parse_live (fdata f) = Some t ->
  forall ts, In ts (t_segs t) ->
    (t_ms ts + 500) / 1000 <= t_target t /\
    exists sg, t_uri ts = seg_name (c_stream c) sg /\ seg_file_ok (state_at c evs k) sg.
Proof. exact every_prefix_parsed. Qed.
Print Assumptions c10_parsed_playlist_consistent.

(* The media sequence number never decreases from one instant to a later one (as long as the directory is not
   removed in between): whatever the two texts parse to.  Also ACROSS re-publications of the stream name: Muxer.Start
   (resumeSeq) carries on with the numbering of the live playlist it finds. *)
Theorem c10_media_sequence_monotone : forall c evs j k fj fk tj tk,
  cfg_ok c -> wf_evs c Clean 0 evs -> (j <= k)%nat ->
  no_removeall (skipn j (firstn k (run c evs))) ->
  fs_lookup PLive (state_at c evs j) = Some fj -> fs_lookup PLive (state_at c evs k) = Some fk ->
  parse_live (fdata fj) = Some tj -> parse_live (fdata fk) = Some tk -> t_seq tj <= t_seq tk.
Proof. exact media_sequence_parsed. Qed.
Print Assumptions c10_media_sequence_monotone.

(* Segments listed by the playlist at instant j are still present, closed and well-formed at every later instant k
   by which at most delete_threshold further playlist versions have been published - also when the stream has been
   published again in between: a muxer only ever touches files it numbers itself. *)
Theorem c10_listed_segments_stay : forall c evs j k fj,
  cfg_ok c -> wf_evs c Clean 0 evs -> (j <= k)%nat ->
  no_removeall (skipn j (firstn k (run c evs))) ->
  ver_at c evs k - ver_at c evs j <= c_thr c ->
  fs_lookup PLive (state_at c evs j) = Some fj ->
  exists pj, fdata fj = print_live (c_stream c) pj /\ parse_live (fdata fj) = Some (abs_pl (c_stream c) pj) /\
             Forall (seg_file_ok (state_at c evs k)) (pl_segs pj).
Proof. exact listed_segments_stay. Qed.
Print Assumptions c10_listed_segments_stay.

(* Nothing is lost, nothing is written twice (no hypothesis at all): the data written to segment files, PAT/PMT
   writes excluded, are exactly the frames fed from the first boundary frame of each publication on, in order. *)
Theorem c10_no_loss : forall c evs, fst (fws false (run c evs)) = accepted false false evs.
Proof. exact no_loss. Qed.
Print Assumptions c10_no_loss.

(* ... and they are in sequence order: segment ids are consecutive within a publication (from 0 when Start found no
   live playlist; otherwise from wherever Start carried on) and every Write / Close goes to the segment created last
   (wrs checks exactly that while scanning the operation sequence). *)
Theorem c10_segments_in_sequence : forall c evs, exists r, wrs None None (run c evs) = Some r.
Proof. exact segments_in_sequence. Qed.
Print Assumptions c10_segments_in_sequence.

(* A segment is opened either at a boundary frame (with video: a key frame) or by a forced split, in which case
   it carries the discontinuity flag that every playlist listing it prints.  (updateFragment is the only place
   where segments are created; the frame it is called for is the first one written to the new segment.) *)
Theorem c10_segment_start : forall c m s ts b now,
  Inv c m s -> good_pp (m_patpmt m) ->
  let r := update_fragment c m s ts b now in
  existsb is_create (snd r) = true -> b = true \/ cur_discont c (fst r) = true.
Proof. exact segment_start. Qed.
Print Assumptions c10_segment_start.

(* When the stream ends (Dispose) the live playlist, if there is one, carries the end marker. *)
Theorem c10_final_live : forall c evs,
  cfg_ok c -> wf_evs c Clean 0 (evs ++ [EvDispose]) -> ended c (apply_all [] (run c (evs ++ [EvDispose]))).
Proof. exact final_live_ended. Qed.
Print Assumptions c10_final_live.

(* ... and, unless cleanup is immediate (cleanup_mode 0 or 1), the record playlist is a complete playlist with the end
   marker that lists, in order, every segment created since the directory was last removed (by this publication and
   by the ones before it). *)
Theorem c10_final_record : forall c evs,
  cfg_ok c -> mode01 c -> wf_evs c Clean 0 (evs ++ [EvDispose]) ->
  let ops := run c (evs ++ [EvDispose]) in
  created_from [] ops <> [] ->
  exists T segs, fs_lookup PRec (apply_all [] ops) = Some (mkfile (print_record (c_stream c) (mkpl T 0 segs true)) true)
                 /\ map seg_key segs = created_from [] ops.
Proof. exact final_record. Qed.
Print Assumptions c10_final_record.

(* Re-publishing over the directory of the previous publication (no cleanup in between, e.g. cleanup mode 0) on the
   PINNED tree (run_orig: Muxer.Start = ensureDir only): the media sequence goes from 2 back to 0.  Fixed in lal
   (resumeSeq / calcNextSeqInM3u8); run models the fixed code, for which c10_media_sequence_monotone holds across
   re-publications - on the same history the sequence goes from 2 to 3 (c10_republish_seq_witness). *)
Definition rp_cfg : cfg := mkcfg [115%N] 1000 1 0 0.
Definition rp_evs : list event :=
  [EvNew; EvPatPmt []; EvFeed false 0 0 true 5 []; EvFeed false 0 90000 true 6 []; EvFeed false 0 180000 true 7 [];
   EvDispose; EvNew; EvPatPmt []; EvFeed false 0 0 true 9 []; EvFeed false 0 90000 true 10 []].

Theorem c10_republish_seq_orig_refuted :
  exists j k fj fk tj tk,
    cfg_ok rp_cfg /\ (j <= k)%nat /\ no_removeall (skipn j (firstn k (run_orig rp_cfg rp_evs))) /\
    fs_lookup PLive (apply_all [] (firstn j (run_orig rp_cfg rp_evs))) = Some fj /\
    fs_lookup PLive (apply_all [] (firstn k (run_orig rp_cfg rp_evs))) = Some fk /\
    parse_live (fdata fj) = Some tj /\ parse_live (fdata fk) = Some tk /\ t_seq tj = 2 /\ t_seq tk = 0.
Proof.
  exists 30%nat, 36%nat.
  do 4 eexists.
  split; [unfold cfg_ok, stream_ok, no_nl; cbn; intuition (try lia; try discriminate)|].
  split; [lia|].
  split; [vm_compute; repeat constructor|].
  split; [vm_compute; reflexivity|].
  split; [vm_compute; reflexivity|].
  split; [vm_compute; reflexivity|].
  split; [vm_compute; reflexivity|split; vm_compute; reflexivity].
Qed.
Print Assumptions c10_republish_seq_orig_refuted.

Example c10_republish_seq_witness :
  exists fj fk tj tk,
    fs_lookup PLive (state_at rp_cfg rp_evs 31) = Some fj /\ fs_lookup PLive (state_at rp_cfg rp_evs 38) = Some fk /\
    parse_live (fdata fj) = Some tj /\ parse_live (fdata fk) = Some tk /\ t_seq tj = 2 /\ t_seq tk = 3 /\
    no_removeall (skipn 31 (firstn 38 (run rp_cfg rp_evs))).
Proof.
  do 4 eexists.
  split; [vm_compute; reflexivity|].
  split; [vm_compute; reflexivity|].
  split; [vm_compute; reflexivity|].
  split; [vm_compute; reflexivity|].
  split; [vm_compute; reflexivity|]. split; [vm_compute; reflexivity|vm_compute; repeat constructor].
Qed.

(* F-16 and its sibling, on the pinned tree's computation (live_target_orig): the target duration is smaller
   than a listed duration rounded to the nearest second.
   (a) fragment_duration_ms = 3900, one segment of 3.8 s;  (b) fragment_duration_ms = 3000, segments of 3.2 s then 3.6 s.
   Fixed in lal by 2d98dbf (calcTargetDuration); live_target models the fixed code and c10_inv_every_prefix holds for it. *)
Theorem c10_target_orig_refuted :
  (exists c l f, In f l /\ live_target_orig c l < listed_seconds (seg_of f) /\ c_ms c = 3900 /\ length l = 1%nat) /\
  (exists c l f, In f l /\ live_target_orig c l < listed_seconds (seg_of f) /\ c_ms c = 3000).
Proof.
  split.
  - exists (mkcfg [] 3900 3 1 0), [mkfi 0 (f_div (f_of_Z 342000) (f_of_Z 90000)) true true 0], (mkfi 0 (f_div (f_of_Z 342000) (f_of_Z 90000)) true true 0).
    vm_compute. intuition congruence.
  - exists (mkcfg [] 3000 3 1 0),
      [mkfi 0 (f_div (f_of_Z 288000) (f_of_Z 90000)) true true 0; mkfi 1 (f_div (f_of_Z 324000) (f_of_Z 90000)) false true 0],
      (mkfi 1 (f_div (f_of_Z 324000) (f_of_Z 90000)) false true 0).
    vm_compute. intuition congruence.
Qed.
Print Assumptions c10_target_orig_refuted.

(* ---- the server level: ServerManager / Group / the delayed cleanup (HlsServer.v) ----
     srv_exec true c srv0 [] sevs   per event of the server history sevs (publish, PAT/PMT, frame, stop, housekeeping
                                    tick, a delayed cleanup firing): (was a muxer alive for the stream name at that
                                    instant, the layer calls the event made)
     srv_run c sevs                 all the calls;  lower c sevs = the same history as HlsMuxer.run sees it *)

(* For EVERY interleaving of publish / stop (arms the delayed cleanup) / tick (erases the idle group) / re-publish
   (fresh group) / fire: an event removes the stream directory only at an instant at which no muxer is alive for the
   stream name - a delayed cleanup never removes the files of a live muxer ... *)
Theorem c10_cleanup_spares_live_muxer : forall c sevs, Forall spares_live (srv_exec true c srv0 [] sevs).
Proof. intros c sevs. apply cleanup_spares_live_from. Qed.
Print Assumptions c10_cleanup_spares_live_muxer.

(* ... and the only event that ever removes it is a firing delayed cleanup. *)
Theorem c10_only_delayed_cleanup_removes : forall c sevs k e r,
  nth_error sevs k = Some e -> nth_error (srv_exec true c srv0 [] sevs) k = Some r ->
  existsb is_removeall (snd r) = true -> e = SvFire.
Proof. intros c sevs. apply only_fire_removes. Qed.
Print Assumptions c10_only_delayed_cleanup_removes.

(* The server makes exactly the calls of the muxer-level history `lower c sevs`: the trace theorems above hold for
   server histories (here: the consistency of every prefix). *)
Theorem c10_server_refines_muxer : forall c sevs, srv_run c sevs = run c (lower c sevs).
Proof. exact srv_refines. Qed.
Print Assumptions c10_server_refines_muxer.

Theorem c10_server_inv_every_prefix : forall c sevs k,
  cfg_ok c -> wf_evs c Clean 0 (lower c sevs) -> live_ok c (apply_all [] (firstn k (srv_run c sevs))).
Proof. intros c sevs k Hc Hw. rewrite srv_refines. now apply every_prefix_live_ok. Qed.
Print Assumptions c10_server_inv_every_prefix.

(* hls.enable / hls.enable_https are tested in three places (Group.startHlsIfNeeded, Group.stopHlsIfNeeded,
   ServerManager.CleanupHlsIfNeeded).  For EVERY configuration in which a muxer is started, ending the input finalises
   it: the group keeps no muxer, the calls made are exactly those of Muxer.Dispose (close_fragment .. true: the open
   segment is closed, the playlist written with it listed and with the end marker - c10_dispose_finalises), and the
   delayed cleanup is armed exactly when the cleanup mode says so. *)
Theorem c10_stop_finalises : forall g c id m gen tm s,
  hls_start_guard g = true ->
  let r := srv_step true (hls_stop_guard g) (hls_cleanup_guard g) c (mksrv (Some (id, Some m)) gen tm) s SvStop in
  live_mux (fst r) = None /\ snd r = snd (close_fragment c m s true) /\
  sv_timers (fst r) = (tm ++ (if arms c then [id] else []))%list.
Proof. exact stop_finalises. Qed.
Print Assumptions c10_stop_finalises.

Theorem c10_dispose_finalises : forall c m s m' ops,
  Inv c m s -> m_opened m = true -> close_fragment c m s true = (m', ops) ->
  m_opened m' = false /\ nclosed m' = nclosed m + 1 /\
  fs_lookup PLive (apply_all s ops) = Some (mkfile (print_live (c_stream c) (live_playlist c m' true)) true).
Proof.
  intros c m s m' ops HI Ho E.
  destruct (HlsInvProofs.close_ok c m s true m' ops HI Ho E) as (_ & _ & A & B & _ & _ & _ & C). auto.
Qed.
Print Assumptions c10_dispose_finalises.

(* Every configuration that starts a muxer makes the calls of the default one (so all theorems above apply to it);
   with both switches off no call is made at all. *)
Theorem c10_switches_equivalent : forall g c sevs,
  (hls_start_guard g = true -> srv_exec_sw g c sevs = srv_exec true c srv0 [] sevs) /\
  (hls_start_guard g = false -> concat (srv_run_ev_sw g c sevs) = []).
Proof. intros g c sevs. split; [apply srv_exec_sw_started|apply srv_exec_sw_off]. Qed.
Print Assumptions c10_switches_equivalent.

(* As shipped, CleanupHlsIfNeeded tested hls.enable alone: with hls on the https port only a muxer is started but its
   cleanup is never armed (fixed in lal; hls_cleanup_guard models the fixed code).  And the stop guard of seed C16r5-2
   (hls.enable alone) never disposes that muxer. *)
Theorem c10_guards_orig_refuted :
  (exists g, hls_start_guard g = true /\ hls_cleanup_guard_orig g = false) /\
  (forall c id m gen tm s,
     srv_step true (sw_http (mksw false true)) (hls_cleanup_guard (mksw false true)) c (mksrv (Some (id, Some m)) gen tm) s SvStop
     = (mksrv (Some (id, Some m)) gen tm, [])).
Proof. split; [exact cleanup_guard_orig_inconsistent|intros; reflexivity]. Qed.
Print Assumptions c10_guards_orig_refuted.

(* The design in which the fired closure consults the Group object it found when the timer was ARMED (seeded change
   C10r2-2) is refuted: publish, stop, tick (that group is erased), publish (fresh group), fire removes the directory
   while the second publication's muxer is alive; the faithful lookup by name spares it on the same history. *)
Theorem c10_cleanup_captured_group_refuted :
  exists c r, In r (srv_exec false c srv0 [] [SvPub; SvStop; SvTick; SvPub; SvFire]) /\
              existsb is_removeall (snd r) = true /\ fst r = true /\
              Forall spares_live (srv_exec true c srv0 [] [SvPub; SvStop; SvTick; SvPub; SvFire]).
Proof. exact captured_group_removes_live. Qed.
Print Assumptions c10_cleanup_captured_group_refuted.

(* ---- non-vacuity: a history that meets the hypotheses and publishes playlists ---- *)
Definition ex_pp : bytes := ([71; 64; 0] ++ repeat 0 185 ++ [71; 80; 1] ++ repeat 0 185)%N%list.
Definition ex_pk (k : N) : bytes := ([71; 65; 0; k] ++ repeat 0 184)%N%list.
Definition ex_cfg : cfg := mkcfg [115%N] 1000 1 0 2.
Definition ex_evs : list event :=
  [EvNew; EvPatPmt ex_pp; EvFeed false 0 0 true 5 (ex_pk 1); EvFeed false 0 90000 true 6 (ex_pk 2);
   EvFeed false 0 180000 true 7 (ex_pk 3); EvDispose; EvCleanup; EvNew; EvPatPmt ex_pp].

Example c10_hypotheses_satisfiable :
  cfg_ok ex_cfg /\ wf_evs ex_cfg Clean 0 ex_evs /\
  length (run ex_cfg ex_evs) = 25%nat /\
  (exists f, fs_lookup PLive (state_at ex_cfg ex_evs 16) = Some f /\
     fdata f = print_live [115%N] (mkpl 1 1 [mkseg 6 1 (f_div (f_of_Z 90000) (f_of_Z 90000)) false] false)) /\
  ver_at ex_cfg ex_evs 16 = 2.
Proof.
  split; [unfold cfg_ok, stream_ok, no_nl; cbn; intuition (try lia; try discriminate)|].
  split; [cbn; unfold good_pp, whole_pkts; repeat split; reflexivity|].
  split; [vm_compute; reflexivity|].
  split; [eexists; split; vm_compute; reflexivity|vm_compute; reflexivity].
Qed.

(* ... and one that publishes the stream again over the directory of the previous publication (cleanup mode 0):
   the hypotheses hold, and the first playlist of the second publication shows media sequence 3 after 2 *)
Definition ex_cfg0 : cfg := mkcfg [115%N] 1000 1 0 0.
Definition ex_evs_rp : list event :=
  [EvNew; EvPatPmt ex_pp; EvFeed false 0 0 true 5 (ex_pk 1); EvFeed false 0 90000 true 6 (ex_pk 2);
   EvFeed false 0 180000 true 7 (ex_pk 3); EvDispose; EvNew; EvPatPmt ex_pp;
   EvFeed false 0 0 true 9 (ex_pk 4); EvFeed false 0 90000 true 10 (ex_pk 5)].

Example c10_hypotheses_satisfiable_republish :
  cfg_ok ex_cfg0 /\ wf_evs ex_cfg0 Clean 0 ex_evs_rp /\
  (exists fj fk tj tk,
     fs_lookup PLive (state_at ex_cfg0 ex_evs_rp 31) = Some fj /\ fs_lookup PLive (state_at ex_cfg0 ex_evs_rp 38) = Some fk /\
     parse_live (fdata fj) = Some tj /\ parse_live (fdata fk) = Some tk /\ t_seq tj = 2 /\ t_seq tk = 3).
Proof.
  split; [unfold cfg_ok, stream_ok, no_nl; cbn; intuition (try lia; try discriminate)|].
  split; [cbn; unfold good_pp, whole_pkts, max_int32; repeat split; try reflexivity; lia|].
  do 4 eexists.
  split; [vm_compute; reflexivity|].
  split; [vm_compute; reflexivity|].
  split; [vm_compute; reflexivity|].
  split; [vm_compute; reflexivity|]. split; vm_compute; reflexivity.
Qed.
