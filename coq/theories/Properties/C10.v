(* C10 - HLS playlists and segments are consistent at every instant.
   Only property statements here. *)
From Lal Require Import Common.LBytes Hls.HlsFloat Hls.HlsFs Hls.HlsPlaylist Hls.HlsMuxer Hls.HlsConsistent.
Open Scope Z_scope.

(* F-16 and its sibling, on the pinned tree's computation (live_target_orig): the target duration is smaller
   than a listed duration rounded to the nearest second.
   (a) fragment_duration_ms = 3900, one segment of 3.8 s;  (b) fragment_duration_ms = 3000, segments of 3.2 s then 3.6 s. *)
Theorem c10_target_orig_refuted :
  (exists c l f, In f l /\ live_target_orig c l < listed_seconds (seg_of f) /\ c_ms c = 3900 /\ length l = 1%nat) /\
  (exists c l f, In f l /\ live_target_orig c l < listed_seconds (seg_of f) /\ c_ms c = 3000).
Proof.
  split.
  - exists (mkcfg [] 3900 3 1 0), [mkfi 0 (f_div (f_of_Z 342000) (f_of_Z 90000)) true true 0], (mkfi 0 (f_div (f_of_Z 342000) (f_of_Z 90000)) true true 0).
    vm_compute. intuition congruence.
  - exists (mkcfg [] 3000 3 1 0),
      [mkfi 0 (f_div (f_of_Z 288000) (f_of_Z 90000)) true true 0; mkfi 1 (f_div (f_of_Z 324000) (f_of_Z 90000)) false true 0],
      (mkfi 1 (f_div (f_of_Z 324000) (f_of_Z 90000)) false true 0).
    vm_compute. intuition congruence.
Qed.
Print Assumptions c10_target_orig_refuted.
