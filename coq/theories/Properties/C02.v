(* C02 - every consumer starts decodable: headers, then a key frame, bounded
   GOP replay.  Statements only (labels as in C01). *)
From Lal Require Import Common.LBytes Group.GroupMsg Group.GroupGopCache Group.GroupFanout
  Group.GroupGopCacheProofs Group.GroupFanoutProofs Group.GroupFanoutCacheProofs Group.GroupFanoutAdmitProofs
  Group.GroupFanoutMergeProofs Group.GroupFanoutRtspProofs Group.GroupFanoutHeaderProofs.
Open Scope N_scope.

(* After ANY history the RTMP and HTTP-FLV caches hold exactly what the
   history-only specification [srun] says: the latest metadata / video / AAC
   sequence header of the current input and the queue of its GOPs (a GOP opens
   at a key frame, frames before the first key frame are not cached, a GOP
   stops growing at the cap); the end of the input resets it. *)
Theorem c02_caches_follow_history : forall cf h, sstate_rel cf (run cf h) (srun cf h).
Proof. exact caches_follow_history. Qed.
Print Assumptions c02_caches_follow_history.

(* ... and what a fresh consumer is sent from such a cache is: metadata, video
   header, audio header, then the most recent min(gop_num, #GOPs) GOPs, oldest
   first - the ring indexing of gop_cache.go refines that queue. *)
Theorem c02_prologue_is_recent_gops : forall gop_num max g sp w,
  cache_rel gop_num max g sp ->
  prologue g w = opt_list (if w then sp_meta_w sp else sp_meta_wo sp) ++ opt_list (sp_vsh sp) ++ opt_list (sp_ash sp)
                 ++ concat (lastn gop_num (sp_gops sp))
  /\ gc_count g = Nat.min (length (sp_gops sp)) gop_num.
Proof. intros. split; [now apply (prologue_spec gop_num max)|now apply (gop_count_spec gop_num max)]. Qed.
Print Assumptions c02_prologue_is_recent_gops.

(* every cached GOP starts with a key frame and holds at most cap+1 entries *)
Theorem c02_gop_shape : forall (is_key : label -> Prop) max G c b,
  (c = MKey -> is_key b) ->
  Forall (gop_ok label is_key max) G -> Forall (gop_ok label is_key max) (gops_feed max G c b).
Proof. exact (gops_feed_shape label). Qed.
Print Assumptions c02_gop_shape.

(* the ring keeps representing the queue under every feed, for every ring
   size; a sequence header with new content empties the queue (fix F-08ii) *)
Theorem c02_ring_refines_queue : forall g G c b p,
  ring_inv label g G ->
  ring_inv label (fst (gc_feed g c b p)) (gops_after label g G c b p).
Proof. exact (ring_inv_feed label). Qed.
Print Assumptions c02_ring_refines_queue.

(* admission of a fresh session, per protocol: prologue, then the live message
   unless it has to wait for a key frame (boundary for TS) *)
Theorem c02_fresh_flv : forall cache key hdr lt c,
  c_kind c = KFlv -> c_fresh c = true ->
  let wait1 := if Nat.ltb 0 (gc_count cache) then false else c_wait c in
  let c' := flv_step cache key hdr lt c in
  c_fresh c' = false /\ c_wait c' = (wait1 && negb key) /\
  c_out c' = c_out c ++ prologue cache false ++ (if wait1 && negb key && negb hdr then [] else [lt]).
Proof. exact flv_fresh_visit. Qed.
Print Assumptions c02_fresh_flv.

Theorem c02_fresh_rtmp : forall cache key hdr lc c,
  c_fresh c = true ->
  let wait1 := if Nat.ltb 0 (gc_count cache) then false else c_wait c in
  let '(c', flushed) := rtmp_visit cache key hdr lc c in
  flushed = true /\ c_fresh c' = false /\ c_wait c' = (wait1 && negb key) /\
  c_out c' = c_out c ++ prologue cache false ++ (if wait1 && negb key && hdr then [lc] else []).
Proof. exact rtmp_fresh_visit. Qed.
Print Assumptions c02_fresh_rtmp.

Theorem c02_fresh_push : forall cache lw c,
  c_kind c = KPush -> c_fresh c = true ->
  let c' := push_step cache lw c in
  c_fresh c' = false /\ c_out c' = c_out c ++ prologue cache true ++ [lw].
Proof. exact push_fresh_visit. Qed.
Print Assumptions c02_fresh_push.

Theorem c02_fresh_ts : forall cache pat boundary lt c,
  c_kind c = KTs -> c_fresh c = true ->
  let wait1 := if Nat.ltb 0 (gc_count cache) then false else c_wait c in
  let c' := ts_step cache pat boundary lt c in
  c_fresh c' = false /\ c_wait c' = (wait1 && negb boundary) /\
  c_out c' = c_out c ++ (opt_list pat ++ gc_all cache) ++ (if wait1 && negb boundary then [] else [lt]).
Proof. exact ts_fresh_visit. Qed.
Print Assumptions c02_fresh_ts.

(* a session that waits for a key frame receives no FRAME until one comes, and then that key
   frame; metadata and sequence headers ([hdr]) reach it at once and leave it waiting (fix F-08i) *)
Theorem c02_waiting_flv : forall cache key hdr lt c,
  c_kind c = KFlv -> c_fresh c = false -> c_wait c = true ->
  let c' := flv_step cache key hdr lt c in
  c_fresh c' = false /\ c_wait c' = negb key /\ c_out c' = c_out c ++ (if key || hdr then [lt] else []).
Proof. exact flv_waiting_visit. Qed.
Print Assumptions c02_waiting_flv.

(* RTMP: the key frame itself follows through the broadcast writer / merge writer once the wait is over *)
Theorem c02_waiting_rtmp : forall cache key hdr lc c,
  c_fresh c = false -> c_wait c = true ->
  let '(c', flushed) := rtmp_visit cache key hdr lc c in
  flushed = key /\ c_fresh c' = false /\ c_wait c' = negb key /\
  c_out c' = c_out c ++ (if negb key && hdr then [lc] else []).
Proof. exact rtmp_waiting_visit. Qed.
Print Assumptions c02_waiting_rtmp.

(* a joiner waits for a key frame only when the current input has announced video;
   the end of an input forgets that (fix F-07), together with every cached header and GOP *)
Theorem c02_no_video_no_wait : forall cf s k id,
  (c_wait (new_consumer s k id) = match k with KRtmp | KFlv => g_video_known s | KPush => false | KTs | KRtsp => true end) /\
  (g_in s = true -> g_video_known (step cf s EvInStop) = false /\ g_patpmt (step cf s EvInStop) = None /\
     prologue (g_rtmp_cache (step cf s EvInStop)) false = [] /\ prologue (g_flv_cache (step cf s EvInStop)) false = [] /\
     gc_all (g_ts_cache (step cf s EvInStop)) = []).
Proof.
  intros cf s k id. split; [apply join_wait_rule|]. intro Hin.
  destruct (in_stop_clears cf s Hin) as (H1 & H2 & H3 & _ & H5 & H6 & _). repeat split; assumption.
Qed.
Print Assumptions c02_no_video_no_wait.

(* ---------------------------------------------------------------------- *)
(* Where the full property is FALSE of the faithful model (and of lal): the
   witnesses below are replayed on the implementation by the check; they are
   the listed known findings of C02. *)
Definition cfg0 (gop : nat) : cfg :=
  {| cf_rtmp_enable := true; cf_rtmp_gop := gop; cf_rtmp_max := 0; cf_flv_enable := true; cf_flv_gop := gop; cf_flv_max := 0;
     cf_ts_gop := gop; cf_ts_max := 0; cf_merge := 0; cf_record_flv := false; cf_chunk := 4096; cf_ext_at_limit := false;
     cf_rtsp_wait := true; cf_hook := true; cf_record_ts := true |}.
Definition vmsg (b0 b1 tail : N) : rmsg := {| rm_type := 9; rm_ts := 0; rm_payload := [b0; b1; 0; 0; 0; tail] |}.
Definition amsg (b0 b1 tail : N) : rmsg := {| rm_type := 8; rm_ts := 0; rm_payload := [b0; b1; 0; 0; 0; tail] |}.
Definition out_of (cf : cfg) (h : list ev) (id : N) : option (list label) :=
  option_map c_out (find_sub (run cf h) id).

(* ---------------------------------------------------------------------- *)
(* Header in force (F-08i repaired in lal; F-08ii repaired earlier).

   "In force" is a function of the history alone ([irun], Group/GroupFanoutHeaderProofs.v):
   the content of the latest video (AAC) sequence header published since the
   current input started; the end of the input (or Dispose) forgets it. *)
Definition vsh_in_force (h : list ev) : option bytes := is_v (irun h).
Definition ash_in_force (h : list ev) : option bytes := is_a (irun h).
(* the content of the last video / AAC sequence header in a stream of units of history h *)
Definition last_hdrs (h : list ev) (out : list label) : option bytes * option bytes := hdrs (is_log (irun h)) hd0 out.

Theorem c02_in_force_def : forall h,
  (forall m, vsh_in_force (h ++ [EvPublish m]) =
     if Nat.eqb (length (rm_payload m)) 0 then vsh_in_force h
     else match mclass_of m with MVsh => Some (rm_payload m) | _ => vsh_in_force h end) /\
  (forall m, ash_in_force (h ++ [EvPublish m]) =
     if Nat.eqb (length (rm_payload m)) 0 then ash_in_force h
     else match mclass_of m with MAsh => Some (rm_payload m) | _ => ash_in_force h end) /\
  (is_in (irun h) = true -> vsh_in_force (h ++ [EvInStop]) = None /\ ash_in_force (h ++ [EvInStop]) = None) /\
  (vsh_in_force (h ++ [EvDispose]) = None /\ ash_in_force (h ++ [EvDispose]) = None) /\
  (forall k id, vsh_in_force (h ++ [EvJoin k id]) = vsh_in_force h /\ ash_in_force (h ++ [EvJoin k id]) = ash_in_force h) /\
  map (fun e : entry => fst (fst e)) (is_log (irun h)) = pubs h.
Proof.
  intro h. unfold vsh_in_force, ash_in_force.
  split; [intro m; rewrite irun_app; cbn [fold_left istep]; destruct (Nat.eqb _ 0); reflexivity|].
  split; [intro m; rewrite irun_app; cbn [fold_left istep]; destruct (Nat.eqb _ 0); reflexivity|].
  split; [intro Hi; rewrite !irun_app; cbn [fold_left istep]; rewrite Hi; split; reflexivity|].
  split; [rewrite !irun_app; split; reflexivity|].
  split; [intros k id; rewrite !irun_app; split; reflexivity|apply irun_log_pubs].
Qed.
Print Assumptions c02_in_force_def.

(* ANY history, split at the publication of any frame m (neither metadata nor a
   sequence header); any RTMP / HTTP-FLV consumer that ever existed (attached or
   gone; the cache of its protocol being fed, i.e. the protocol enabled); its
   stream split at the unit of m: the last video (AAC) sequence header it had
   received before that unit has the content of the one in force when m was
   published.  No exclusion: headers that change while the consumer waits for a
   key frame, while GOPs are cached, across inputs, with the merge writer on. *)
Theorem c02_header_in_force : forall cf h1 m h2 c a l b,
  let h := h1 ++ EvPublish m :: h2 in
  In c (all_consumers (run cf h)) ->
  (c_kind c = KRtmp /\ cf_rtmp_enable cf = true) \/ (c_kind c = KFlv /\ cf_flv_enable cf = true) ->
  c_out c = a ++ l :: b -> label_idx l = Some (length (pubs h1)) -> is_hdr_msg m = false ->
  (rm_type m = type_video -> forall p, vsh_in_force h1 = Some p -> fst (last_hdrs h a) = Some p) /\
  (rm_type m = type_audio -> forall p, ash_in_force h1 = Some p -> snd (last_hdrs h a) = Some p).
Proof. exact header_in_force. Qed.
Print Assumptions c02_header_in_force.

(* ... and at every moment every attached consumer past its prologue - admitted
   or still waiting for a key frame - holds the headers in force as the last ones
   it was sent (counting, for an admitted RTMP session, what the merge writer still
   keeps for it): what the repair of F-08i establishes. *)
Theorem c02_headers_in_step : forall cf h c,
  In c (g_subs (run cf h)) ->
  (c_kind c = KRtmp /\ cf_rtmp_enable cf = true) \/ (c_kind c = KFlv /\ cf_flv_enable cf = true) ->
  c_fresh c = false ->
  (forall p, vsh_in_force h = Some p -> fst (last_hdrs h (vout (run cf h) c)) = Some p) /\
  (forall p, ash_in_force h = Some p -> snd (last_hdrs h (vout (run cf h) c)) = Some p).
Proof. intros cf h c Hin Hs Hf. exact (proj2 (headers_in_step cf h c Hin Hs Hf)). Qed.
Print Assumptions c02_headers_in_step.

(* F-08(i), FIXED (lal): an AAC sequence header published while the consumers wait
   for a key frame is delivered at once, the wait goes on (the inter frame 2 is withheld) *)
Lemma c02_header_while_waiting_delivered :
  let h := [EvInStart; EvPublish (vmsg 23 0 1); EvJoin KFlv 1; EvJoin KRtmp 2; EvPublish (amsg 175 0 2);
            EvPublish (vmsg 39 1 5); EvPublish (vmsg 23 1 3); EvPublish (amsg 175 1 4)] in
  mclass_of (amsg 175 0 2) = MAsh /\ out_of (cfg0 0) h 1 = Some [LT 0; LT 1; LT 3; LT 4] /\
  out_of (cfg0 0) h 2 = Some [LC 0; LC 1; LC 3; LC 4].
Proof. vm_compute. repeat split; reflexivity. Qed.

(* the pinned wait rule (before the repair), as a variant of the HTTP-FLV visit: a
   waiting session is skipped for everything but a key frame - the header is lost *)
Definition flv_step_pinned (cache : gop_cache label) (key : bool) (lt : label) (c : consumer) : consumer :=
  if negb (ckind_eqb (c_kind c) KFlv) then c
  else
    let c1 := if c_fresh c then
                let c' := c_append c (prologue cache false) in
                c_set c' false (if Nat.ltb 0 (gc_count cache) then false else c_wait c')
              else c in
    if c_wait c1 then (if key then c_set (c_append c1 [lt]) (c_fresh c1) false else c1) else c_append c1 [lt].
Lemma c02_header_while_waiting_pinned_refuted : forall cache lt c,
  c_kind c = KFlv -> c_fresh c = false -> c_wait c = true ->
  flv_step_pinned cache false lt c = c /\ c_out (flv_step cache false true lt c) = c_out c ++ [lt].
Proof.
  intros cache lt c Hk Hf Hw. unfold flv_step_pinned, flv_step. rewrite Hk, Hf, Hw. split; reflexivity.
Qed.

(* non-vacuity of c02_header_in_force: the video sequence header changes (content 9 instead
   of 1) while an HTTP-FLV and an RTMP consumer (merge writer on) wait for a key frame; the
   key frame that ends the wait was published under the new header, and that is the last
   header both had received before it *)
Example c02_header_in_force_nonvacuous :
  let cf := {| cf_rtmp_enable := true; cf_rtmp_gop := 0; cf_rtmp_max := 0; cf_flv_enable := true; cf_flv_gop := 0; cf_flv_max := 0;
               cf_ts_gop := 0; cf_ts_max := 0; cf_merge := 30; cf_record_flv := false; cf_chunk := 4096; cf_ext_at_limit := true;
               cf_rtsp_wait := true; cf_hook := false; cf_record_ts := false |} in
  let h1 := [EvInStart; EvPublish (vmsg 23 0 1); EvJoin KFlv 1; EvJoin KRtmp 2; EvPublish (vmsg 39 1 5); EvPublish (vmsg 23 0 9)] in
  let m := vmsg 23 1 3 in
  let h2 := [EvPublish (vmsg 39 1 4); EvPublish (vmsg 39 1 6)] in
  let h := h1 ++ EvPublish m :: h2 in
  vsh_in_force h1 = Some [23; 0; 0; 0; 0; 9] /\ is_hdr_msg m = false /\ length (pubs h1) = 3%nat /\
  out_of cf h 1 = Some ([LT 0; LT 2] ++ LT 3 :: [LT 4; LT 5]) /\ fst (last_hdrs h [LT 0; LT 2]) = Some [23; 0; 0; 0; 0; 9] /\
  out_of cf h 2 = Some ([LC 0; LC 2] ++ LC 3 :: [LC 4]) /\ fst (last_hdrs h [LC 0; LC 2]) = Some [23; 0; 0; 0; 0; 9].
Proof. vm_compute. repeat split; reflexivity. Qed.

(* F-08(ii), FIXED (lal): GOPs cached under the first sequence header are
   dropped when a header with other content arrives; an identical header keeps them *)
Lemma c02_stale_gop_dropped :
  let h := [EvInStart; EvPublish (vmsg 23 0 1); EvPublish (vmsg 23 1 2); EvPublish (vmsg 23 0 9);
            EvJoin KFlv 1; EvPublish (vmsg 39 1 3)] in
  out_of (cfg0 1) h 1 = Some [LT 2] /\
  let h' := [EvInStart; EvPublish (vmsg 23 0 1); EvPublish (vmsg 23 1 2); EvPublish (vmsg 23 0 1);
             EvJoin KFlv 1; EvPublish (vmsg 39 1 3)] in
  out_of (cfg0 1) h' 1 = Some [LT 2; LT 1; LT 3].
Proof. vm_compute. split; reflexivity. Qed.

(* F-08(iii), FIXED (lal c48c20c): a TS consumer that stays attached across a
   re-publish receives the new PAT/PMT before the new input's TS data *)
Lemma c02_ts_patpmt_after_republish :
  let h := [EvInStart; EvPatPmt; EvJoin KTs 1; EvTs true; EvInStop; EvInStart; EvPatPmt; EvTs true] in
  out_of (cfg0 0) h 1 = Some [LPat 0; LTs 0; LPat 1; LTs 1].
Proof. vm_compute. reflexivity. Qed.

(* in general: OnPatPmt reaches every TS session that is past its prologue, and only those *)
Theorem c02_patpmt_resent : forall cf s c,
  In c (g_subs s) ->
  In (if ckind_eqb (c_kind c) KTs && negb (c_fresh c) then c_append c [LPat (g_next_pat s)] else c)
     (g_subs (step cf s EvPatPmt))
  /\ g_patpmt (step cf s EvPatPmt) = Some (LPat (g_next_pat s)).
Proof. intros cf s c Hin. cbn [step g_subs g_patpmt]. split; [|reflexivity]. now apply (in_map (fun c => if ckind_eqb (c_kind c) KTs && negb (c_fresh c) then c_append c [LPat (g_next_pat s)] else c)). Qed.
Print Assumptions c02_patpmt_resent.

(* F-27: joined before the video codec was known, stream starts with a non-key frame *)
Lemma c02_first_frame_not_key_refuted :
  let h := [EvJoin KFlv 1; EvInStart; EvPublish (vmsg 23 0 1); EvPublish (vmsg 39 1 2)] in
  is_video_key_nalu (vmsg 39 1 2) = false /\ out_of (cfg0 0) h 1 = Some [LT 0; LT 1].
Proof. vm_compute. split; reflexivity. Qed.

(* F-28: still waiting for a key frame when an audio-only input replaces the video one *)
Lemma c02_waiting_across_republish_refuted :
  let h := [EvInStart; EvPublish (vmsg 23 0 1); EvJoin KFlv 1; EvPublish (vmsg 39 1 5); EvInStop; EvInStart; EvPublish (amsg 114 0 2)] in
  out_of (cfg0 0) h 1 = Some [LT 0].
Proof. vm_compute. reflexivity. Qed.

(* non-vacuity of the cache theorems: a history whose caches hold two GOPs *)
Example c02_nonvacuous :
  let h := [EvInStart; EvPublish (vmsg 23 0 1); EvPublish (vmsg 23 1 2); EvPublish (vmsg 39 1 3); EvPublish (vmsg 23 1 4)] in
  sp_gops (ss_flv (srun (cfg0 3) h)) = [[LT 1; LT 2]; [LT 3]] /\
  prologue (g_flv_cache (run (cfg0 3) h)) false = [LT 0; LT 1; LT 2; LT 3].
Proof. vm_compute. split; reflexivity. Qed.

(* ---------------------------------------------------------------------- *)
(* RTSP subscribers.  EvJoin KRtsp = DESCRIBE (HandleNewRtspSubSessionDescribe),
   EvPlay = SETUP + PLAY (HandleNewRtspSubSessionPlay), EvRtp raw = OnRtpPacket
   of the packet rtprtcp.ParseRtpPacket makes of raw; LSdp k = the DESCRIBE
   response carrying the k-th SDP, LRtp j = the j-th packet (interleaved). *)

(* The SDP comes first.  A DESCRIBE is answered with the SDP in force - with
   nothing when there is none, in particular after the input ended; a session
   left waiting gets the next SDP that is announced; and over ALL histories,
   whatever an RTSP session ever received is one SDP followed by RTP packets only. *)
Theorem c02_rtsp_sdp_first : forall cf : cfg,
  (forall s id, c_out (new_consumer s KRtsp id) = opt_list (g_sdp s) /\ c_fresh (new_consumer s KRtsp id) = true) /\
  (forall s id, g_in s = true -> c_out (new_consumer (step cf s EvInStop) KRtsp id) = []) /\
  (forall l c, c_kind c = KRtsp -> c_fresh c = true -> c_out c = [] -> c_out (sdp_step l c) = [l]) /\
  (forall h c, In c (all_consumers (run cf h)) -> c_kind c = KRtsp ->
     c_out c = [] \/ exists k rest, c_out c = LSdp k :: rest /\ Forall is_rtp rest).
Proof.
  intro cf. split; [intros; split; reflexivity|]. split.
  - intros s id Hin. destruct (in_stop_clears cf s Hin) as (_ & _ & _ & _ & _ & _ & _ & H). unfold new_consumer. cbn [c_out]. now rewrite H.
  - split; [|apply rtsp_sdp_first].
    intros l c Hk Hf Ho. unfold sdp_step, no_sdp_yet. rewrite Hk, Hf, Ho. cbn. now rewrite Ho.
Qed.
Print Assumptions c02_rtsp_sdp_first.

(* PLAY admits the session; it waits for a GOP start exactly when the group knows a
   video codec.  Until PLAY no packet touches the session - in particular it cannot
   lose its wait to a key frame it never receives (fix F-32). *)
Theorem c02_fresh_rtsp : forall vk id c,
  c_kind c = KRtsp -> c_id c = id -> c_fresh c = true -> c_out c <> [] ->
  (let c' := play_step vk id c in c_fresh c' = false /\ c_wait c' = (vk && c_wait c) /\ c_out c' = c_out c) /\
  (forall waitcfg boundary written l, rtsp_step waitcfg boundary written l c = c).
Proof.
  intros vk id c Hk Hid Hf Ho. split; [now apply rtsp_play_visit|].
  intros. now apply rtsp_not_playing_visit.
Qed.
Print Assumptions c02_fresh_rtsp.

(* a playing session that waits receives nothing from a packet that is no GOP
   start, and exactly that packet from one that is (when its payload type is one
   the SDP announces); without OutWaitKeyFrameFlag, or once admitted, every packet *)
Theorem c02_waiting_rtsp : forall boundary written l c,
  c_kind c = KRtsp -> c_fresh c = false -> c_wait c = true ->
  let c' := rtsp_step true boundary written l c in
  c_kind c' = KRtsp /\ c_fresh c' = false /\ c_wait c' = negb boundary /\
  c_out c' = c_out c ++ (if boundary && written then [l] else []).
Proof. exact rtsp_waiting_visit. Qed.
Print Assumptions c02_waiting_rtsp.

Theorem c02_open_rtsp : forall waitcfg boundary written l c,
  c_kind c = KRtsp -> c_fresh c = false -> negb waitcfg || negb (c_wait c) = true ->
  let c' := rtsp_step waitcfg boundary written l c in
  c_kind c' = KRtsp /\ c_fresh c' = false /\ c_wait c' = c_wait c /\
  c_out c' = c_out c ++ (if written then [l] else []).
Proof. exact rtsp_open_visit. Qed.
Print Assumptions c02_open_rtsp.

(* Lifted to histories (as c01_contiguous): after ANY history h0 in which the
   session plays and waits, nothing during any h1 without a GOP start ([quiet]:
   every packet of h1 fails the boundary test of the SDP in force when it
   arrives - joins, leaves of others, publishes, new inputs allowed), then the
   first GOP-start packet itself, then one unit per forwarded packet of any h2:
   one contiguous run that ends only when the session leaves. *)
Theorem c02_rtsp_gate_run : forall cf h0 h1 raw pt h2 id c,
  cf_rtsp_wait cf = true ->
  find_sub (run cf h0) id = Some c -> c_kind c = KRtsp -> c_fresh c = false -> c_wait c = true ->
  attached id KRtsp (h1 ++ EvRtp raw :: h2) ->
  quiet cf (run cf h0) h1 ->
  rtp_pt raw = Some pt -> rtp_boundary_at (run cf (h0 ++ h1)) raw = true ->
  exists c', find_sub (run cf (h0 ++ h1 ++ EvRtp raw :: h2)) id = Some c' /\ rtsp_admitted cf c' = true /\
             c_out c' = c_out c ++ rtp_units (g_next_rtp (run cf (h0 ++ h1))) (EvRtp raw :: h2).
Proof. exact rtsp_gate_run. Qed.
Print Assumptions c02_rtsp_gate_run.

Theorem c02_rtsp_contiguous : forall cf h0 h id c,
  find_sub (run cf h0) id = Some c -> c_kind c = KRtsp -> rtsp_admitted cf c = true -> attached id KRtsp h ->
  exists c', find_sub (run cf (h0 ++ h)) id = Some c' /\ c_kind c' = KRtsp /\ rtsp_admitted cf c' = true /\
             c_out c' = c_out c ++ rtp_units (g_next_rtp (run cf h0)) h.
Proof. exact rtsp_contiguous_run. Qed.
Print Assumptions c02_rtsp_contiguous.

(* concrete packets: 12-byte RTP header (PT 96) + an IDR slice / a non-IDR slice / PT 97 *)
Definition rtp_idr (seq : N) : bytes := [128; 96; 0; seq; 0; 0; 35; 40; 17; 34; 51; 68; 101; 136; 132; 0].
Definition rtp_non (seq : N) : bytes := [128; 96; 0; seq; 0; 0; 46; 224; 17; 34; 51; 68; 65; 154; 2; 5].
Definition rtp_aud (seq : N) : bytes := [128; 97; 0; seq; 0; 0; 46; 224; 17; 34; 51; 68; 0; 16; 10; 64].

(* F-32, FIXED (lal e05e681): a key frame that passes between DESCRIBE and PLAY leaves the wait in place;
   F-33, FIXED (lal 6e14665): a packet that arrives after the input ended reaches no waiting session (and panics nothing) *)
Lemma c02_rtsp_wait_kept_before_play :
  let h := [EvInStart; EvPublish (vmsg 23 0 1); EvSdp VAvc; EvJoin KRtsp 1; EvRtp (rtp_idr 1); EvPlay 1;
            EvRtp (rtp_non 2); EvRtp (rtp_aud 3); EvRtp (rtp_idr 4); EvRtp (rtp_non 5)] in
  out_of (cfg0 0) h 1 = Some [LSdp 0; LRtp 3; LRtp 4] /\
  let h' := [EvInStart; EvPublish (vmsg 23 0 1); EvSdp VAvc; EvJoin KRtsp 1; EvPlay 1; EvInStop; EvRtp (rtp_idr 1); EvRtp (rtp_non 2)] in
  out_of (cfg0 0) h' 1 = Some [LSdp 0].
Proof. vm_compute. split; reflexivity. Qed.

(* F-34.  The classifier (IsAvcBoundary / IsHevcBoundary) judges payload bytes only: on the tree before the fix
   its verdict alone opened the gate, also for AUDIO packets.  Witness: a G.711 packet (PT 97) whose first sample
   byte is 0x65 (reads as an IDR slice header), resp. an Opus packet with TOC 0x26 under H.265 (reads as IDR_W_RADL):
   the waiting session is released mid-GOP and receives the audio packet and the inter frames that follow;
   on the fixed tree (lal 871e5a0) it keeps waiting for the key frame. *)
Definition rtp_audio (seq b0 : N) : bytes := [128; 97; 0; seq; 0; 0; 46; 224; 17; 34; 51; 68; b0; 213; 85; 213].
Definition rtp_hnon (seq : N) : bytes := [128; 96; 0; seq; 0; 0; 46; 224; 17; 34; 51; 68; 2; 1; 208; 9].
Definition rtp_hidr (seq : N) : bytes := [128; 96; 0; seq; 0; 0; 46; 224; 17; 34; 51; 68; 38; 1; 175; 8].
Lemma c02_rtsp_audio_opens_gate_pinned_refuted :
  let a := rtp_audio 1 101 in
  rtp_pt a = Some 97 /\ rtp_is_video 97 = false /\ rtp_verdict VAvc a = true /\
  let h := [EvInStart; EvPublish (vmsg 23 0 1); EvSdp VAvc; EvJoin KRtsp 1; EvPlay 1;
            EvRtp a; EvRtp (rtp_non 2); EvRtp (rtp_idr 3); EvRtp (rtp_non 4)] in
  option_map c_out (find_sub (run_pinned (cfg0 0) h) 1) = Some [LSdp 0; LRtp 0; LRtp 1; LRtp 2; LRtp 3] /\
  out_of (cfg0 0) h 1 = Some [LSdp 0; LRtp 2; LRtp 3] /\
  let o := rtp_audio 1 38 in
  rtp_verdict VHevc o = true /\
  let h' := [EvInStart; EvPublish (vmsg 28 0 1); EvSdp VHevc; EvJoin KRtsp 1; EvPlay 1;
             EvRtp o; EvRtp (rtp_hnon 2); EvRtp (rtp_hidr 3)] in
  option_map c_out (find_sub (run_pinned (cfg0 0) h') 1) = Some [LSdp 0; LRtp 0; LRtp 1; LRtp 2] /\
  out_of (cfg0 0) h' 1 = Some [LSdp 0; LRtp 2].
Proof. vm_compute. repeat split; reflexivity. Qed.

(* With the fix, over ALL histories.  A packet is a GOP start only if it belongs to the video track and the
   classifier says so (when the SDP in force announces H.264 / H.265); an audio packet never is, whatever its bytes. *)
Theorem c02_rtsp_gate_is_video : forall s raw pt,
  rtp_pt raw = Some pt -> g_vcodec s <> VOther ->
  (rtp_is_video pt = false -> rtp_boundary_at s raw = false) /\
  (rtp_boundary_at s raw = true -> rtp_is_video pt = true /\ rtp_verdict (g_vcodec s) raw = true).
Proof.
  intros s raw pt Hpt Hv. split; [intro Ha; now apply (audio_never_boundary s raw pt)|].
  intro Hb. destruct (boundary_at_inv s raw Hb) as (pt' & Hpt' & _ & H). rewrite Hpt in Hpt'. inversion Hpt'; subst pt'. now apply H.
Qed.
Print Assumptions c02_rtsp_gate_is_video.

(* For every history h0 after which an RTSP session plays and waits (PLAY while the group knows a video codec,
   c02_fresh_rtsp) and EVERY continuation h in which it stays attached: either it has received nothing at all -
   audio included - and still waits, or h splits at the first packet that passed the gate: nothing before it, that
   packet first, then one unit per forwarded packet; and when the SDP in force announces H.264 / H.265 that first
   packet is a packet of the video track that the classifier judged a GOP start (and it was delivered).
   So the first video-track packet the session receives starts a GOP and nothing precedes it. *)
Theorem c02_rtsp_first_video_is_gop_start : forall cf h0 h id c,
  cf_rtsp_wait cf = true ->
  find_sub (run cf h0) id = Some c -> c_kind c = KRtsp -> c_fresh c = false -> c_wait c = true ->
  attached id KRtsp h ->
  find_sub (run cf (h0 ++ h)) id = Some c \/
  exists h1 raw pt h2,
    h = h1 ++ EvRtp raw :: h2 /\ quiet cf (run cf h0) h1 /\ rtp_pt raw = Some pt /\
    let s1 := run cf (h0 ++ h1) in
    g_sdp s1 <> None /\
    (g_vcodec s1 <> VOther ->
       rtp_is_video pt = true /\ rtp_verdict (g_vcodec s1) raw = true /\ rtp_unit (g_next_rtp s1) raw = [LRtp (g_next_rtp s1)]) /\
    exists c', find_sub (run cf (h0 ++ h)) id = Some c' /\ rtsp_admitted cf c' = true /\
               c_out c' = c_out c ++ rtp_unit (g_next_rtp s1) raw ++ rtp_units (S (g_next_rtp s1)) h2.
Proof. exact rtsp_first_received. Qed.
Print Assumptions c02_rtsp_first_video_is_gop_start.

(* non-vacuity of the RTSP theorems: a session that plays and waits, a quiet stretch, a GOP start *)
Example c02_rtsp_nonvacuous :
  let h0 := [EvJoin KRtsp 1; EvInStart; EvPublish (vmsg 23 0 1); EvSdp VAvc; EvPlay 1] in
  let h1 := [EvRtp (rtp_non 1); EvJoin KFlv 2; EvRtp (rtp_aud 2)] in
  (exists c, find_sub (run (cfg0 0) h0) 1 = Some c /\ c_kind c = KRtsp /\ c_fresh c = false /\ c_wait c = true /\ c_out c = [LSdp 0]) /\
  quiet (cfg0 0) (run (cfg0 0) h0) h1 /\ rtp_pt (rtp_idr 3) = Some 96 /\
  rtp_boundary_at (run (cfg0 0) (h0 ++ h1)) (rtp_idr 3) = true /\
  out_of (cfg0 0) (h0 ++ h1 ++ [EvRtp (rtp_idr 3); EvRtp (rtp_non 4)]) 1 = Some [LSdp 0; LRtp 2; LRtp 3].
Proof.
  split; [eexists; vm_compute; repeat split; reflexivity|].
  vm_compute. repeat split; reflexivity.
Qed.
