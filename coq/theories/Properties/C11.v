(* C11 - FLV output (HTTP-FLV, WebSocket-FLV, recordings) is a valid FLV byte
   stream.  Only property statements here; each is closed by [exact]. *)
From Lal Require Import Common.LBytes Common.Res Flv.FlvTag Flv.FlvWs Flv.FlvProofs.
Open Scope N_scope.

(* lal's reader on every tag lal packs: type, data size, 24+8-bit timestamp
   and raw bytes come back; the rest of the input is untouched. *)
Theorem c11_tag_roundtrip : forall t ts p r,
  t < 256 -> ts < 4294967296 -> lenN p < 16777216 ->
  read_tag (pack_tag t ts p ++ r)
  = Ok ({| tg_header := {| th_type := t; th_size := lenN p; th_ts := ts |};
           tg_raw := pack_tag t ts p |}, r)
  /\ tag_payload {| tg_header := {| th_type := t; th_size := lenN p; th_ts := ts |};
                    tg_raw := pack_tag t ts p |} = p.
Proof. intros t ts p r H1 H2 H3. split; [apply read_tag_pack; repeat split; assumption|apply tag_payload_pack]. Qed.
Print Assumptions c11_tag_roundtrip.

(* the serialised tag has the layout the FLV specification prescribes *)
Theorem c11_tag_layout : forall t ts p,
  t < 256 -> ts < 4294967296 -> lenN p < 16777216 ->
  pack_tag t ts p =
    [t; (lenN p / 65536) mod 256; (lenN p / 256) mod 256; lenN p mod 256;
     (ts / 65536) mod 256; (ts / 256) mod 256; ts mod 256; (ts / 16777216) mod 256; 0; 0; 0]
    ++ p ++ be_put 4 (11 + lenN p).
Proof. intros t ts p H1 H2 H3. apply pack_tag_layout; repeat split; assumption. Qed.
Print Assumptions c11_tag_layout.

(* Tag.ModTagTimestamp: a re-stamped tag is byte for byte the tag packed with the new timestamp *)
Theorem c11_mod_timestamp : forall t ts ts' p,
  t < 256 -> ts < 4294967296 -> lenN p < 16777216 -> ts' < 4294967296 ->
  mod_tag_timestamp {| tg_header := {| th_type := t; th_size := lenN p; th_ts := ts |}; tg_raw := pack_tag t ts p |} ts'
  = {| tg_header := {| th_type := t; th_size := lenN p; th_ts := ts' |}; tg_raw := pack_tag t ts' p |}.
Proof. intros t ts ts' p H1 H2 H3 H4. apply mod_tag_timestamp_pack; [repeat split; assumption|exact H4]. Qed.
Print Assumptions c11_mod_timestamp.

(* a conforming FLV parser reads header + any tag sequence back (recordings,
   HTTP-FLV bodies): same tags, same order, nothing else *)
Theorem c11_stream_valid : forall tags,
  Forall spec_tag_wf tags ->
  spec_parse_flv (flv_file (map pack_spec_tag tags)) = Some tags.
Proof. exact spec_parse_flv_file. Qed.
Print Assumptions c11_stream_valid.

(* a recording written over an existing file of the same name (re-publish within one second) is the new
   stream and nothing else: no byte of the old file survives behind the last tag *)
Theorem c11_record_replaces : forall old tags,
  Forall spec_tag_wf tags ->
  spec_parse_flv (flv_record old (map pack_spec_tag tags)) = Some tags.
Proof. intros old tags H. rewrite flv_record_is_file. exact (spec_parse_flv_file tags H). Qed.
Print Assumptions c11_record_replaces.

(* lal's own file reader on lal's file writer *)
Theorem c11_file_roundtrip : forall tags,
  Forall spec_tag_wf tags ->
  flv_file_read (flv_file (map pack_spec_tag tags)) = map mk_read_tag tags.
Proof. exact flv_file_read_write. Qed.
Print Assumptions c11_file_roundtrip.

(* each WebSocket write is one complete unmasked final binary frame whose
   declared length equals its payload length *)
Theorem c11_ws_frame : forall p r,
  lenN p < 9223372036854775808 ->
  ws_parse (ws_write p ++ r) = Some (binary_final p, r).
Proof. exact ws_parse_write. Qed.
Print Assumptions c11_ws_frame.

(* 7-bit / 16-bit / 64-bit length form *)
Theorem c11_ws_length_form : forall n, n < 18446744073709551616 ->
  sub_ws_header n =
    if n <? 126 then [130; n]
    else if n <=? 65535 then 130 :: 126 :: be_put 2 n
    else 130 :: 127 :: be_put 8 n.
Proof. exact ws_header_form. Qed.
Print Assumptions c11_ws_length_form.

(* concatenated frame payloads of the WebSocket stream = the plain stream *)
Theorem c11_ws_stream : forall hdr tags,
  Forall (fun p => lenN p < 9223372036854775808) (hdr :: tags) ->
  exists frames,
    ws_parse_all (length (sub_stream true hdr tags)) (sub_stream true hdr tags) = Some frames /\
    Forall (fun f => wf_fin f = true /\ wf_opcode f = 2 /\ wf_masked f = false /\ wf_rsv f = 0) frames /\
    map wf_payload frames = hdr :: tags /\
    concat (map wf_payload frames) = sub_stream false hdr tags.
Proof. exact ws_stream_is_flv_stream. Qed.
Print Assumptions c11_ws_stream.

(* non-vacuity: the hypotheses are met by concrete non-trivial inputs *)
Example c11_nonvacuous :
  Forall spec_tag_wf [(9, 16777216, [23; 1; 0; 0; 0]); (8, 4294967295, [175; 1]); (18, 0, [])]
  /\ spec_parse_flv (flv_file (map pack_spec_tag [(9, 16777216, [23; 1; 0; 0; 0]); (8, 4294967295, [175; 1])]))
     = Some [(9, 16777216, [23; 1; 0; 0; 0]); (8, 4294967295, [175; 1])].
Proof. split; [repeat constructor|vm_compute; reflexivity]. Qed.
