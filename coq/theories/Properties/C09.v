(* C09 - MPEG-TS packetisation is well-formed and lossless for every frame.
   Only property statements here.  [pack] is the Gallina model of
   mpegts.Frame.Pack (tied to the working tree byte for byte by ./check C09),
   [demux_unit] / [parse_pat_packet] / [parse_pmt_packet] are the reference
   ISO/IEC 13818-1 demultiplexer of Mpegts/TsDemux.v. *)
From Lal Require Import Common.LBytes Mpegts.TsPack Mpegts.TsPsi Mpegts.TsDemux
  Mpegts.TsPackProofs Mpegts.TsPsiProofs Mpegts.TsStreamProofs Mpegts.TsCrcProofs.
Open Scope N_scope.

(* Every frame with at least one byte, any length, key or not, PTS = DTS or
   not, any 13-bit PID, any stream id that carries a PES header, any incoming
   counter: all packets are 188 bytes, and the reference demultiplexer returns
   the PID, the stream id, PTS and DTS (+ lal's constant 63000-tick lead,
   modulo 2^33; DTS only when it differs from PTS), the random-access mark, the
   PCR (key frames: one PCR of base max(DTS-63000,0) mod 2^33, extension 0;
   otherwise none), the counter of the first packet and a byte-identical
   payload.  (demux_unit also checks PUSI on the first packet only, one PID,
   counters advancing by one, 0xFF stuffing, PES_packet_length.) *)
Theorem c09_pack_wellformed_lossless : forall f : frame,
  f_pts f < 18446744073709551616 -> f_dts f < 18446744073709551616 -> f_cc f < 256 ->
  f_pid f < 8192 -> f_sid f < 256 -> sid_without_header (f_sid f) = false ->
  bytes_ok (f_raw f) -> f_raw f <> [] ->
  Forall (fun p => length p = 188%nat /\ bytes_ok p) (fst (pack f)) /\
  demux_unit (fst (pack f))
  = Some {| au_pid := f_pid f; au_sid := f_sid f;
            au_pts := Some ((f_pts f + 63000) mod 8589934592);
            au_dts := if f_dts f =? f_pts f then None else Some ((f_dts f + 63000) mod 8589934592);
            au_rai := f_key f;
            au_pcrs := if f_key f
                       then [(if 63000 <? f_dts f then f_dts f - 63000 else 0) mod 8589934592 * 300]
                       else [];
            au_cc_first := (f_cc f + 1) mod 16;
            au_payload := f_raw f |}.
Proof. intros f H1 H2 H3 H4 H5 H6 H7 H8. apply pack_wellformed_lossless. repeat split; assumption. Qed.
Print Assumptions c09_pack_wellformed_lossless.

(* packet i of a frame carries (cc + 1 + i) mod 16; Frame.Cc afterwards is
   cc + number of packets, modulo 256 *)
Theorem c09_cc : forall f : frame, f_cc f < 256 ->
  (forall i p, nth_error (fst (pack f)) i = Some p -> pkt_cc p = (f_cc f + 1 + N.of_nat i) mod 16)
  /\ snd (pack f) = (f_cc f + N.of_nat (length (fst (pack f)))) mod 256.
Proof. exact pack_cc. Qed.
Print Assumptions c09_cc.

(* hence continuity over any sequence of frames of one PID when the counter is
   carried from frame to frame (as Rtmp2MpegtsRemuxer does with audioCc/videoCc) *)
Theorem c09_cc_seq : forall (fs : list frame) (cc : N), cc < 256 ->
  (forall i p, nth_error (concat (fst (pack_seq cc fs))) i = Some p -> pkt_cc p = (cc + 1 + N.of_nat i) mod 16)
  /\ snd (pack_seq cc fs) = (cc + N.of_nat (length (concat (fst (pack_seq cc fs))))) mod 256.
Proof. exact pack_seq_cc. Qed.
Print Assumptions c09_cc_seq.

(* stream level: the packets of ANY sequence of frames (the counter carried
   from frame to frame) form a stream that the reference demultiplexer, which
   does not know the frame boundaries, splits again at
   payload_unit_start_indicator, finds continuous counters over, and decodes to
   exactly one unit per frame, in order: [expected_units cc fs] is
   [expected_unit] (the record of the first theorem) of every frame with the
   counter it inherits *)
Theorem c09_stream_lossless : forall (fs : list frame) (cc : N), cc < 256 ->
  Forall (fun f => f_pts f < 18446744073709551616 /\ f_dts f < 18446744073709551616 /\
                   f_pid f < 8192 /\ f_sid f < 256 /\ sid_without_header (f_sid f) = false /\
                   bytes_ok (f_raw f) /\ f_raw f <> []) fs ->
  demux_stream (concat (fst (pack_seq cc fs))) = Some (expected_units cc fs)
  /\ length (expected_units cc fs) = length fs.
Proof.
  intros fs cc Hcc Hall. split; [exact (pack_seq_stream_lossless fs cc Hcc Hall)|].
  clear. revert cc. induction fs as [|f t IH]; intro cc; [reflexivity|]. cbn [expected_units length]. now rewrite IH.
Qed.
Print Assumptions c09_stream_lossless.

(* PAT and PMT: 188 bytes, one complete current section whose CRC-32 (annex A,
   bit by bit) verifies, 0xFF stuffing; the PAT maps program 1 to PID 0x1001;
   the PMT on PID 0x1001 declares PCR PID 0x100 and, for ALL Go ints v a,
   exactly the streams of the codecs (7 AVC 0x1B, 12 HEVC 0x24 on PID 0x100;
   10 AAC 0x0F, 13 Opus 0x06 + registration 'Opus' on PID 0x101; nothing else) *)
Theorem c09_psi : forall v a : Z,
  (length pack_pat = 188%nat /\
   parse_pat_packet pack_pat = Some {| pat_ts_pid := 0; pat_tsid := 1; pat_programs := [(1, 4097)] |})
  /\
  (length (pack_pmt v a) = 188%nat /\
   parse_pmt_packet (pack_pmt v a)
   = Some {| pmt_ts_pid := 4097; pmt_program := 1; pmt_pcr_pid := 256;
             pmt_streams_of := expected_streams v a |})
  /\
  map es_stream_type (expected_streams v a)
  = (if Z.eqb v 7 then [27] else if Z.eqb v 12 then [36] else [])
    ++ (if Z.eqb a 10 then [15] else if Z.eqb a 13 then [6] else []).
Proof. intros v a. split; [exact pack_pat_ok|]. split; [exact (pack_pmt_ok v a)|exact (expected_streams_exact v a)]. Qed.
Print Assumptions c09_psi.

(* lal's literal CRC table is the byte-swapped CRC-32/MPEG-2 table *)
Theorem c09_crc_table : forall i, i < 256 ->
  nth (N.to_nat i) crc32_table 0 = bswap32 (crc_byte (i * 16777216) 0).
Proof. exact crc32_table_correct. Qed.
Print Assumptions c09_crc_table.

(* CalcCrc32 for EVERY buffer: the four bytes Psi.Pack stores (LePutUint32 of
   the table-driven, byte-swapped register started at 0xffffffff) are the
   big-endian CRC_32 of annex A computed bit by bit, and the residue over
   data ++ CRC_32 is zero *)
Theorem c09_crc : forall buf, bytes_ok buf ->
  le_put 4 (calc_crc32 4294967295 buf) = be_put 4 (spec_crc32 buf)
  /\ spec_crc32 (buf ++ le_put 4 (calc_crc32 4294967295 buf)) = 0.
Proof. intros buf H. split; [exact (calc_crc32_is_annex_a buf H)|exact (calc_crc32_residue buf H)]. Qed.
Print Assumptions c09_crc.

(* hence every section PsiSection.Pack emits, whatever its table content
   (any PAT / PMT entries and descriptors), carries a verifying CRC_32 *)
Theorem c09_psi_any_section : forall p : psi, 0 < calc_psi_section_length p ->
  spec_crc32 (skipn 1 (psi_pack p)) = 0.
Proof. exact psi_pack_crc_valid. Qed.
Print Assumptions c09_psi_any_section.

(* The arithmetic of the pinned tree (kept executable as [pack_pinned]) does
   NOT have the property; both witnesses were replayed on the Go code before
   the two fix: commits (see design.d/C09.md). *)
(* F-04: a 5-byte key frame yields a packet no conforming demultiplexer accepts *)
Theorem c09_pack_refuted_f04 :
  exists f, frame_wf f /\ demux_unit (fst (pack_pinned f)) = None.
Proof. exact pack_pinned_refuted_f04. Qed.
Print Assumptions c09_pack_refuted_f04.

(* PTS bit 30: a frame stamped 2^30 is demultiplexed with PTS 63000 instead of 2^30 + 63000 *)
Theorem c09_pack_refuted_pts30 :
  exists f, frame_wf f /\
    exists u, demux_unit (fst (pack_pinned f)) = Some u /\ au_pts u = Some 63000
              /\ au_pts (expected_unit f) = Some 1073804824.
Proof. exact pack_pinned_refuted_pts30. Qed.
Print Assumptions c09_pack_refuted_pts30.

(* non-vacuity: a key frame of 400 bytes with PTS <> DTS meets the hypotheses,
   spans three packets and is recovered *)
Example c09_nonvacuous :
  let f := {| f_pts := 8589934592 + 7; f_dts := 8589934592; f_cc := 254; f_pid := 256; f_sid := 224;
              f_key := true; f_raw := repeat 71 400 |} in
  frame_wf f /\ length (fst (pack f)) = 3%nat /\ snd (pack f) = 1 /\
  option_map au_payload (demux_unit (fst (pack f))) = Some (repeat 71 400) /\
  option_map au_pts (demux_unit (fst (pack f))) = Some (Some 63007).
Proof.
  cbv zeta. split.
  - unfold frame_wf; cbn [f_pts f_dts f_cc f_pid f_sid f_raw]. repeat split; try reflexivity; try discriminate.
    unfold bytes_ok. apply Forall_forall. intros x Hx. apply repeat_spec in Hx. subst x. reflexivity.
  - repeat split; vm_compute; reflexivity.
Qed.
