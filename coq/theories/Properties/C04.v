(* C04 - no byte sequence from an RTMP peer can terminate the server.
   Only property statements here.

   [run_session hmac v env input] is ServerSession.RunLoop (handshake, chunk
   composer, doMsg and every handler, replies) over the finite byte list a peer
   sent; [handle_tcp_connect] is the goroutine Server.RunLoop starts for the
   connection.  The input is a byte list, not a list of TCP segments: every
   stage of the session asks its (blocking) connection reader for an exact
   number of bytes, so how the peer fragments its bytes is not observable;
   input exhausted = the session is blocked in a read ([OContinue]).

   [sv_fixed] is the tree after the C04 repairs, [sv_pinned] the tree before
   them (refutation witnesses).  [hmac] is HMAC-SHA256 and may be any function.
   [env]: the two lal constants the replies and the handshake embed, the
   clock, the upper layer's answer to OnNewRtmpPubSession /
   OnNewRtmpSubSession, whether the configured log level is trace (RunLoop then
   runs the payload helpers of base/t_rtmp.go on every completed message), and
   the acknowledgement counters the session starts with (0 in production).
   Hypotheses on [env]:
     e_install = true      an observer that accepts a publisher installs the
                           media observer (SetPubSessionObserver), as
                           logic.Group.AddRtmpPubSession does;
     lenN e_ver <= 32      base.LalRtmpConnectResultVersion ("0,37,4") fits the
                           256-byte reply buffer with the rest of _result. *)
From Lal Require Import Common.LBytes Common.Res Rtmp.RtmpChunk Rtmp.RtmpComposer Rtmp.RtmpAmf0
  Rtmp.RtmpHandshake Rtmp.RtmpSession
  Rtmp.RtmpHandshakeProofs Rtmp.RtmpSessionProofs Rtmp.RtmpSessionMemProofs Rtmp.RtmpSessionPinnedProofs.
From Lal Require Media.MediaMsgChecked.
Open Scope N_scope.

(* --- no panic ------------------------------------------------------------------ *)

(* whatever bytes arrive - before, during or after the handshake, connect,
   publish or play - the session neither panics nor runs out of fuel: it is
   either blocked reading (io.EOF = 1 at a chunk boundary, io.ErrUnexpectedEOF
   = 2 inside a chunk or inside the handshake) or RunLoop returned an error *)
Theorem c04_no_panic : forall hmac env input,
  e_install env = true -> lenN (e_ver env) <= 32 ->
  match r_out (run_session hmac sv_fixed env input) with
  | OContinue e => e = err_eof \/ e = err_unexpected_eof
  | OClose _ => True
  | OPanic _ => False
  | OFuel => False
  end.
Proof. intros hmac env input H1 H2. exact (proj1 (run_session_good hmac env H1 H2 input)). Qed.
Print Assumptions c04_no_panic.

(* the handshake alone: no hypothesis at all (any HMAC, any filler, any clock) *)
Theorem c04_handshake_no_panic : forall hmac now rnd input s,
  run_handshake hmac now rnd input <> HsPanic s.
Proof. intros. apply run_handshake_no_panic. Qed.
Print Assumptions c04_handshake_no_panic.

(* --- bounded recursion ------------------------------------------------------------- *)

(* the only recursion on peer data is the AMF0 container reader (connect's
   command object); its depth never exceeds Amf0MaxNestingDepth = 32 - for every
   variant, every environment and every input, on every path *)
Theorem c04_bounded_depth : forall hmac v env input,
  r_depth (run_session hmac v env input) <= max_nesting.
Proof. intros. apply run_session_depth. Qed.
Print Assumptions c04_bounded_depth.

(* --- only this connection ---------------------------------------------------------- *)

(* the model has no state shared between connections; what a connection can do
   to the rest of the server is (1) end its goroutine other than by returning
   and (2) what it tells the upper layer.  (1): every outcome that is not
   "blocked reading" is an orderly close of this connection. *)
Theorem c04_only_this_conn : forall hmac env input,
  e_install env = true -> lenN (e_ver env) <= 32 ->
  (exists e, r_out (run_session hmac sv_fixed env input) = OContinue e) \/
  (exists e, r_out (run_session hmac sv_fixed env input) = OClose e).
Proof.
  intros hmac env input H1 H2. pose proof (proj1 (run_session_good hmac env H1 H2 input)) as H.
  cbv zeta in H. destruct (r_out (run_session hmac sv_fixed env input)); cbn in H; try contradiction; eauto.
Qed.
Print Assumptions c04_only_this_conn.

(* (2): handleTcpConnect always returns, and the observer calls it made form a
   run of the specification automaton [shell_ok]: connect notifications only
   before the session has a role, at most
   one OnNewRtmpPubSession / OnNewRtmpSubSession, media only after an accepted
   publish, OnDelRtmp*Session exactly once and exactly when the matching
   OnNew was accepted, nothing afterwards *)
Theorem c04_shell_callbacks : forall hmac env input,
  e_install env = true -> lenN (e_ver env) <= 32 ->
  exists evs, handle_tcp_connect hmac sv_fixed env input = Some evs /\ shell_ok evs = true.
Proof. intros hmac env input H1 H2. exact (shell_good hmac env H1 H2 input). Qed.
Print Assumptions c04_shell_callbacks.

(* a connect after publish (the F-C04-4 scenario): the pinned tree accepts it and
   notifies the upper layer about a connect on a session that already is a
   publisher; since C20's repair of doConnect the connection is closed *)
Theorem c04_shell_callbacks_pinned_refuted : forall hmac,
  (exists evs, handle_tcp_connect hmac sv_pinned w_env (w_handshake ++ w_pub ++ w_conn) = Some evs /\ shell_ok evs = false) /\
  r_out (run_session hmac sv_fixed w_env (w_handshake ++ w_pub ++ w_conn)) = OClose e_unexpected_msg.
Proof. intro hmac. exact (pinned_connect_after_publish hmac). Qed.
Print Assumptions c04_shell_callbacks_pinned_refuted.

(* --- the pinned tree ---------------------------------------------------------------- *)

(* DESIGN F-20: an audio message before publish (13 bytes after a simple
   handshake), or from a subscriber, calls the nil avObserver *)
Theorem c04_no_panic_pinned_refuted_av : forall hmac,
  r_out (run_session hmac sv_pinned w_env (w_handshake ++ w_av)) = OPanic site_av_nil /\
  r_out (run_session hmac sv_pinned w_env (w_handshake ++ w_conn ++ w_play ++ w_aud)) = OPanic site_av_nil.
Proof.
  intro hmac. split.
  - exact (proj1 (pinned_av_before_publish hmac)).
  - exact (proj1 (pinned_av_from_subscriber hmac)).
Qed.
Print Assumptions c04_no_panic_pinned_refuted_av.

(* a user control message of 1 byte, a ping request of 3 bytes *)
Theorem c04_no_panic_pinned_refuted_user_control : forall hmac,
  r_out (run_session hmac sv_pinned w_env (w_handshake ++ w_uc1)) = OPanic site_uc_be16 /\
  r_out (run_session hmac sv_pinned w_env (w_handshake ++ w_ping3)) = OPanic site_uc_be32.
Proof.
  intro hmac. split.
  - exact (proj1 (pinned_short_user_control hmac)).
  - exact (proj1 (pinned_short_ping hmac)).
Qed.
Print Assumptions c04_no_panic_pinned_refuted_user_control.

(* publish twice, or publish then play, on one session *)
Theorem c04_no_panic_pinned_refuted_publish_twice : forall hmac,
  r_out (run_session hmac sv_pinned w_env (w_handshake ++ w_pub ++ w_pub)) = OPanic site_mod_wchan /\
  r_out (run_session hmac sv_pinned w_env (w_handshake ++ w_pub ++ w_play)) = OPanic site_mod_wchan.
Proof.
  intro hmac. destruct (pinned_publish_twice hmac) as (H1 & H2 & _). split; assumption.
Qed.
Print Assumptions c04_no_panic_pinned_refuted_publish_twice.

(* the repaired tree closes the connection on each of these inputs *)
Theorem c04_witnesses_closed_when_fixed : forall hmac,
  r_out (run_session hmac sv_fixed w_env (w_handshake ++ w_av)) = OClose e_unexpected_msg /\
  r_out (run_session hmac sv_fixed w_env (w_handshake ++ w_conn ++ w_play ++ w_aud)) = OClose e_unexpected_msg /\
  r_out (run_session hmac sv_fixed w_env (w_handshake ++ w_uc1)) = OClose e_short_buffer /\
  r_out (run_session hmac sv_fixed w_env (w_handshake ++ w_ping3)) = OClose e_short_buffer /\
  r_out (run_session hmac sv_fixed w_env (w_handshake ++ w_pub ++ w_pub)) = OClose e_unexpected_msg /\
  r_out (run_session hmac sv_fixed w_env (w_handshake ++ w_pub ++ w_play)) = OClose e_unexpected_msg.
Proof.
  intro hmac.
  destruct (pinned_publish_twice hmac) as (_ & _ & H5 & H6).
  exact (conj (proj2 (pinned_av_before_publish hmac)) (conj (proj2 (pinned_av_from_subscriber hmac))
        (conj (proj2 (pinned_short_user_control hmac)) (conj (proj2 (pinned_short_ping hmac)) (conj H5 H6))))).
Qed.
Print Assumptions c04_witnesses_closed_when_fixed.

(* --- memory ------------------------------------------------------------------------ *)

(* what the chunk composer's message buffers hold when the session stands still
   (blocked reading or closed), for every input: at most 3 bytes per byte the
   peer sent plus 8 KiB per chunk stream id it used (each costs the peer at least
   one byte), hence never more than 8192 times the bytes received - whatever
   message lengths and chunk sizes the peer declared.  No hypothesis on [env];
   any variant whose composer grows its buffers with the bytes that arrive. *)
Theorem c04_memory_bounded : forall hmac v env input,
  sv_rv v = rv_fixed ->
  let m := r_mem (run_session hmac v env input) in
  mem_reserved m <= 3 * lenN input + 8192 * mem_streams m /\
  mem_streams m <= lenN input /\
  mem_reserved m <= 8192 * lenN input.
Proof. intros. apply run_session_mem. assumption. Qed.
Print Assumptions c04_memory_bounded.

(* the rule before the repair (declared length reserved when the header
   arrives; remaining length computed in uint32 without a check): 64 MiB for
   3633 bytes, and 4 GiB in one piece after Set Chunk Size 0xFFFFFFFF and a
   header that shrinks a message in progress; the repaired tree holds 16 KiB /
   closes the connection *)
Theorem c04_memory_bounded_pinned_refuted : forall hmac,
  (let input := w_handshake ++ w_decl4 in
   8192 * lenN input < mem_reserved (r_mem (run_session hmac sv_premem w_env input)) /\
   mem_reserved (r_mem (run_session hmac sv_fixed w_env input)) = 16384) /\
  4294967296 <= mem_reserved (r_mem (run_session hmac sv_premem w_env (w_handshake ++ w_shrink))) /\
  r_out (run_session hmac sv_fixed w_env (w_handshake ++ w_shrink)) = OClose err_len_bigger.
Proof.
  intro hmac. destruct (premem_declared_length hmac) as (H1 & H2 & H3).
  destruct (premem_shrinking_header hmac) as (H4 & _ & _ & H5).
  cbv zeta in *. split; [split; [rewrite H1, H2; reflexivity|exact H3]|]. split; assumption.
Qed.
Print Assumptions c04_memory_bounded_pinned_refuted.

(* --- trace logging ------------------------------------------------------------------- *)

(* with "log": {"level": 0} RunLoop runs IsVideoKeySeqHeader / IsAacSeqHeader on
   every completed message; before C05's repairs of those helpers an empty
   video message or a 1-byte audio message - before any publish - indexed past
   the payload.  [c04_no_panic] above covers [e_trace env = true] on the
   repaired tree. *)
Theorem c04_no_panic_pinned_refuted_trace : forall hmac,
  r_out (run_session hmac sv_pinned w_env_trace (w_handshake ++ w_video0)) = OPanic MediaMsgChecked.s_avcsh /\
  r_out (run_session hmac sv_pinned w_env_trace (w_handshake ++ w_audio1)) = OPanic MediaMsgChecked.s_aacsh /\
  r_out (run_session hmac sv_fixed w_env_trace (w_handshake ++ w_video0)) = OClose e_unexpected_msg.
Proof.
  intro hmac. destruct (pinned_trace_logging hmac) as (H1 & H2 & H3 & _). split; [|split]; assumption.
Qed.
Print Assumptions c04_no_panic_pinned_refuted_trace.

(* --- non-vacuity --------------------------------------------------------------------- *)

(* [w_env] meets the hypotheses, and a well-formed session (simple handshake,
   connect, publish, one audio message) is followed: the observer sees connect,
   the new publisher and the audio message, 386 reply bytes are written, the
   session is blocked reading, and the shell reports its end once *)
Example c04_nonvacuous : forall hmac,
  e_install w_env = true /\ lenN (e_ver w_env) <= 32 /\
  let input := w_handshake ++ w_conn ++ w_pub ++ w_aud in
  let r := run_session hmac sv_fixed w_env input in
  r_out r = OContinue err_eof /\
  r_ev r = [EvConnect 1 [108; 105; 118; 101];
            EvNewPub RPub [108; 105; 118; 101] [115] [] [47; 115] true;
            EvAv (mk_rmsg (mk_hdr 6 3 8 1 0) [175; 1; 2] 0)] /\
  lenN (concat (r_wr r)) = 386 /\
  handle_tcp_connect hmac sv_fixed w_env input = Some (r_ev r ++ [EvDelPub]).
Proof.
  intro hmac. split; [reflexivity|]. split; [cbv; discriminate|]. exact (fixed_valid_session hmac).
Qed.
Print Assumptions c04_nonvacuous.
