(* C07 - RTSP, GB28181 and customize ingest reach RTMP/FLV consumers with the
   same frames.  Only property statements here; each is closed by [exact] or a
   short proof from the lemmas of Remux/*Proofs.v (and of C12 / C19).

   The end-to-end statement, for reference (proved in the parts below):

     for every elementary stream published over RTSP (any arrival order the
     reorder window admits), GB28181 PS (any PES packing) or the customize API,
     the RTMP messages lal hands to its consumers are: sequence headers built
     from the publisher's parameter sets, then per track the publisher's NAL
     units / audio frames byte for byte, in order, each once (access unit
     delimiters and in-band parameter sets removed), key frames flagged, with
     timestamps = source timestamps in milliseconds minus one constant per
     track and never more than 1 ms off, whatever the clock rate.

   Parts: (1) timestamps c07_ts_*; (2) interleave queue c07_queue_*;
   (3) remuxer c07_av2rtmp_*; (4) reordering c07_reorder (C12 instantiated) and
   the RTSP video composition c07_rtsp_video_partial; (5) GB28181
   c07_ps_frame_nals, c07_ps_frames; (6) customize c07_customize.  What is NOT linked by a
   theorem is said at each _partial. *)
From Lal Require Import Common.LBytes Common.Res
  Codec.CodecNalFraming Codec.CodecNalFramingProofs Codec.CodecAvcSeqHeader Codec.CodecHevcSeqHeader Codec.CodecAac
  Remux.RemuxAv2Rtmp Remux.RemuxAvQueue Remux.RemuxAv2RtmpProofs Remux.RemuxAvQueueProofs Remux.RemuxTsProofs
  Remux.RemuxRtspIngestProofs.
From Lal Require Net.NetPs Remux.RemuxPsIngestProofs Remux.RemuxPsPesProofs Remux.RemuxPsIngest.
From Lal Require Rtp.RtpPacker Rtp.RtpUnpacker Rtp.RtpReorder Rtp.RtpFrames Rtp.RtpReorderAbs Rtp.RtpStreamProofs
  Rtp.RtpRoundtripProofs Net.NetUnpack Codec.CodecAvcSeqHeaderProofs.
Open Scope N_scope.

(* ======================================================================== *)
(* (1) RTP timestamp -> milliseconds *)

(* the unpackers' conversion (both model copies: C12's out_ts, C13's ts_ms) is
   rtp_ms rate ts = ts * 1000 / rate ... *)
Theorem c07_ts_models_agree : forall site rate ts, 0 < rate -> rate < 9223372036854775808 ->
  RtpUnpacker.out_ts site rate ts = Ok (rtp_ms rate ts) /\
  NetUnpack.ts_ms true site (Z.of_N rate) ts = Ok (Z.of_N (rtp_ms rate ts)).
Proof. exact ts_models_agree. Qed.
Print Assumptions c07_ts_models_agree.

(* ... which is the floor of the exact value, for EVERY rtp timestamp and EVERY
   clock rate (8000 .. 96000, 44100, 22050, 11025 included): no drift *)
Theorem c07_ts_no_drift : forall rate ts, 0 < rate ->
  rtp_ms rate ts * rate <= ts * 1000 /\ ts * 1000 < (rtp_ms rate ts + 1) * rate.
Proof. exact rtp_ms_floor. Qed.
Print Assumptions c07_ts_no_drift.

(* the same relative to the first frame of a track (what the interleave queue
   subtracts): distance in ms within 1 of the exact distance, unboundedly far *)
Theorem c07_ts_no_drift_rebased : forall rate t0 t, 0 < rate -> t0 <= t ->
  (rtp_ms rate t - rtp_ms rate t0) * rate < (t - t0) * 1000 + rate /\
  (t - t0) * 1000 < (rtp_ms rate t - rtp_ms rate t0 + 1) * rate.
Proof. exact rtp_ms_delta. Qed.
Print Assumptions c07_ts_no_drift_rebased.

(* the pinned tree divided by uint32(clockRate/1000) = 44 at 44.1 kHz: the error
   grows by 100 ms every 44 s, without bound (DESIGN F-24); witness inside the
   32-bit range: one hour of audio is 8181 ms late *)
Theorem c07_ts_no_drift_pinned_refuted :
  (forall k, rtp_ms_pinned 44100 (1940400 * k) = rtp_ms 44100 (1940400 * k) + 100 * k) /\
  (158760000 < 4294967296 /\ rtp_ms 44100 158760000 = 3600000 /\ rtp_ms_pinned 44100 158760000 = 3608181).
Proof. split; [exact pinned_drift_44100|exact pinned_drift_one_hour]. Qed.
Print Assumptions c07_ts_no_drift_pinned_refuted.

(* it was right exactly for the clock rates that are multiples of 1000 Hz *)
Theorem c07_ts_pinned_exact_for_khz : forall k ts, 0 < k -> rtp_ms_pinned (1000 * k) ts = rtp_ms (1000 * k) ts.
Proof. exact pinned_exact_for_khz. Qed.
Print Assumptions c07_ts_pinned_exact_for_khz.

(* ======================================================================== *)
(* (2) rtsp.AvPacketQueue, both timestamp modes *)

(* for EVERY input sequence (any payload types, any timestamps): what came out
   so far, followed by what is still queued, is per track the input of that
   track in order, each packet once, payload and type untouched (only the
   timestamp is re-stamped); fewer than 128 packets are withheld per track *)
Theorem c07_queue_merge : forall rot l s' outs, aq_run rot aq_init l = (s', outs) ->
  let adj := adjusted rot aq_init l in
  map av_pt adj = map av_pt l /\ map av_payload adj = map av_payload l /\
  vs (concat outs) ++ q_v s' = vs adj /\ as_ (concat outs) ++ q_a s' = as_ adj /\
  (length (q_v s') < max_queue_size)%nat /\ (length (q_a s') < max_queue_size)%nat.
Proof. exact queue_merge. Qed.
Print Assumptions c07_queue_merge.

(* when the caller keeps its side of the contract (per track: timestamps >= 0,
   never below the first one, never more than 1000 ms backwards) the new stamp is
   the old one minus ONE constant per track: the first timestamp of that track *)
Theorem c07_queue_rebase : forall rot l s' outs, stream_ok TNone TNone l -> aq_run rot aq_init l = (s', outs) ->
  vs (concat outs) ++ q_v s' = map (fun p => with_ts p (av_ts p - track_first TNone (vs l))%Z) (vs l) /\
  as_ (concat outs) ++ q_a s' = map (fun p => with_ts p (av_ts p - track_first TNone (as_ l))%Z) (as_ l).
Proof. exact queue_rebase. Qed.
Print Assumptions c07_queue_rebase.

(* ======================================================================== *)
(* (3) remux.AvPacket2RtmpRemuxer.FeedAvPacket *)

(* one video AvPacket, AVC or HEVC, AVCC or Annex-B framing (whatever the
   stream option says, [framed_as]), from ANY remuxer state: the audio/video
   messages are zero or more sequence headers - each built by the C19 builder
   from parameter sets that are in this packet or were buffered - followed by
   at most one frame message ... *)
Theorem c07_av2rtmp_frames : forall hevc st ts payload nals st' msgs,
  framed_as st payload nals -> Forall (fun n => n <> []) nals ->
  feed_video true hevc st ts payload = Ok (st', msgs) ->
  exists hdrs, av_msgs msgs = hdrs ++ frame_msg hevc ts nals /\
               Forall (seq_hdr_msg hevc ts ([] :: cands_of st nals)) hdrs /\
               rs_vfmt st' = rs_vfmt st.
Proof. exact feed_video_frames. Qed.
Print Assumptions c07_av2rtmp_frames.

(* ... and the frame message reads back (lal's AVCC reader = the ISO 14496-15
   reader, c19_framing_avcc) as exactly the units of the packet without access
   unit delimiters and parameter sets, byte for byte, in order, each once; its
   frame type is "key" iff one of them is an IDR / IRAP slice; composition time 0 *)
Theorem c07_av2rtmp_frame_reads_back : forall hevc ts nals, Forall avcc_ok nals ->
  match frame_msg hevc ts nals with
  | [] => filter (keep_nal hevc) nals = []
  | [RAv false t (f :: pt :: c0 :: c1 :: c2 :: body)] =>
      t = ts32 ts /\ pt = 1 /\ c0 = 0 /\ c1 = 0 /\ c2 = 0 /\
      f = (if existsb (key_nal hevc) (filter (keep_nal hevc) nals) then flag_key hevc else flag_inter hevc) /\
      iterate_nalu_avcc body = (filter (keep_nal hevc) nals, None)
  | _ => False
  end.
Proof. exact frame_msg_reads_back. Qed.
Print Assumptions c07_av2rtmp_frame_reads_back.

(* a sequence header message of an AVC stream parses back (lal's own parser,
   C19) to the parameter sets it was built from *)
Theorem c07_av2rtmp_seq_header_avc : forall ts cands m, seq_hdr_msg false ts cands m ->
  exists h sps pps, m = RAv false (ts32 ts) h /\ In sps cands /\ In pps cands /\
    (lenN sps < 65536 -> lenN pps < 65536 -> avc_parse_seq_header h = Ok (sps, pps)).
Proof.
  intros ts cands m (h & vps & sps & pps & E & I1 & I2 & _ & B). exists h, sps, pps.
  repeat split; auto. intros L1 L2. apply (CodecAvcSeqHeaderProofs.avc_seq_header_roundtrip sps pps h L1 L2 B).
Qed.
Print Assumptions c07_av2rtmp_seq_header_avc.

(* a whole video track through one remuxer: reading the NAL units out of all
   its messages gives the concatenation of the kept units of all packets - same
   units, same order, each exactly once, nothing else *)
Theorem c07_av2rtmp_track : forall hevc (l : list (avpkt * list bytes)) st st' msgs,
  Forall (vpkt_ok (rs_vfmt st) hevc) l ->
  feed_all_av true st (map fst l) = Ok (st', msgs) ->
  read_video_nals (av_msgs msgs) = concat (map (fun x => filter (keep_nal hevc) (snd x)) l).
Proof. exact video_track_nals. Qed.
Print Assumptions c07_av2rtmp_track.

(* audio: raw AAC, G.711 A/u-law, Opus - one message per frame, tag header + the frame *)
Theorem c07_av2rtmp_audio : forall st (p : avpkt) st' msgs,
  feed_av_packet true st p = Ok (st', msgs) ->
  (av_pt p = pt_aac -> rs_afmt st = afmt_raw -> av_msgs msgs = [RAv true (ts32 (av_ts p)) (175 :: 1 :: av_payload p)]) /\
  (av_pt p = pt_g711a -> av_msgs msgs = [RAv true (ts32 (av_ts p)) (114 :: av_payload p)]) /\
  (av_pt p = pt_g711u -> av_msgs msgs = [RAv true (ts32 (av_ts p)) (130 :: av_payload p)]) /\
  (av_pt p = pt_opus -> av_msgs msgs = [RAv true (ts32 (av_ts p)) (223 :: av_payload p)]).
Proof. exact feed_audio_raw. Qed.
Print Assumptions c07_av2rtmp_audio.

(* ADTS AAC (GB28181, customize): every frame with at least one byte behind the
   7-byte header comes out without the header; the first one behind the sequence
   header made from its own ADTS header (c19_aac_seq_header: af 00 + ASC) *)
Theorem c07_av2rtmp_audio_adts : forall st (p : avpkt) st' msgs,
  av_pt p = pt_aac -> rs_afmt st = afmt_adts -> 7 < lenN (av_payload p) ->
  feed_av_packet true st p = Ok (st', msgs) ->
  rs_adts st' = true /\ rs_afmt st' = afmt_adts /\
  (rs_adts st = true -> av_msgs msgs = [RAv true (ts32 (av_ts p)) (175 :: 1 :: skipn 7 (av_payload p))]) /\
  (rs_adts st = false -> forall h, aac_seqh_of_adts (av_payload p) = Ok h ->
     av_msgs msgs = [RAv true (ts32 (av_ts p)) h; RAv true (ts32 (av_ts p)) (175 :: 1 :: skipn 7 (av_payload p))]).
Proof. exact feed_audio_adts. Qed.
Print Assumptions c07_av2rtmp_audio_adts.

(* the tree before the C07 fixes: an IDR slice followed by an SEI (or filler
   data) unit was sent as an INTER frame (the last unit decided), and an ADTS
   frame with fewer than 5 raw bytes was dropped *)
Theorem c07_av2rtmp_keyflag_pinned_refuted :
  frame_msg false 0 [[101; 136]; [6; 5]] = [RAv false 0 (23 :: 1 :: 0 :: 0 :: 0 :: idr_then_sei)] /\
  feed_av_packet true (set_meta rs_new) (mk_av pt_avc 0 idr_then_sei) = Ok (set_meta rs_new, [RAv false 0 (23 :: 1 :: 0 :: 0 :: 0 :: idr_then_sei)]) /\
  feed_av_packet false (set_meta rs_new) (mk_av pt_avc 0 idr_then_sei) = Ok (set_meta rs_new, [RAv false 0 (39 :: 1 :: 0 :: 0 :: 0 :: idr_then_sei)]).
Proof. exact keyflag_pinned_refuted. Qed.
Print Assumptions c07_av2rtmp_keyflag_pinned_refuted.

Theorem c07_av2rtmp_adts_small_pinned_refuted :
  feed_av_packet true (set_adts (set_meta (rs_with_option rs_new vfmt_avcc afmt_adts))) (mk_av pt_aac 23 adts_4)
    = Ok (set_adts (set_meta (rs_with_option rs_new vfmt_avcc afmt_adts)), [RAv true 23 [175; 1; 1; 2; 3; 4]]) /\
  feed_av_packet false (set_adts (set_meta (rs_with_option rs_new vfmt_avcc afmt_adts))) (mk_av pt_aac 23 adts_4)
    = Ok (set_adts (set_meta (rs_with_option rs_new vfmt_avcc afmt_adts)), []).
Proof. exact adts_small_pinned_refuted. Qed.
Print Assumptions c07_av2rtmp_adts_small_pinned_refuted.

(* ======================================================================== *)
(* (4) reordering: arrival perturbations inside the window do not change the
   result.  c12_reorder_video instantiated and composed with the remuxer: the
   RTP packets of any list of (rtp timestamp, NAL unit) - single packets and FU
   fragments, any sizes, sequence numbers wrapping at 2^16 - fed to the
   container in ANY admissible order (duplicates, stale repeats, swaps within
   the window w / 2^14) give the AvPackets of the in-order run, with
   timestamps rtp_ms, and the remuxer turns them into messages whose NAL units
   read back as the publisher's, AUD / parameter sets removed.
   PARTIAL: the container here is the C12 model; the RTSP in-session around it
   (RTP header parsing, payload-type dispatch, two tracks + interleave queue) is
   the C13 model Net/NetInSess.v, related to the same Go code by the
   correspondence runs c07.rtsp / c07.e2e_rtsp, not by a lemma; the Group
   fan-out behind the remuxer is C01, chunk / tag serialisation C08 / C11. *)
Theorem c07_rtsp_video_partial : forall c maxp rate w d (nals : list (N * bytes)) sched st st' msgs,
  RtpPacker.fu_hdr_size c < maxp -> RtpFrames.rate_ok rate -> d < 65536 ->
  Forall (fun tn => RtpRoundtripProofs.nal_ok c (snd tn)) nals ->
  Forall (fun tn => lenN (snd tn) < 4294967296) nals ->
  let s := RtpRoundtripProofs.unit_stream (RtpFrames.proto_of_codec c) (RtpSeqArith.seq_succ d)
             (map (RtpRoundtripProofs.video_unit c maxp rate) nals) in
  RtpReorderAbs.sched_ok w (RtpStreamProofs.init_astate s) sched ->
  (forall i, (i < length (RtpStreamProofs.pkts s))%nat -> In i sched) ->
  rs_vfmt st = vfmt_avcc ->
  exists cs outs,
    RtpReorder.feed_all (RtpFrames.proto_of_codec c) rate w (RtpStreamProofs.primed d)
      (map (fun i => RtpStreamProofs.upkt_arrival (RtpStreamProofs.pkt_at s i)) sched) = Ok (cs, outs) /\
    outs = map (fun tn => (RtpUnpacker.rtp_ms rate (fst tn), RtpUnpacker.avcc (snd tn))) nals /\
    (feed_all_av true st (map (av_of_out (pt_of_codec c)) outs) = Ok (st', msgs) ->
     read_video_nals (av_msgs msgs) = filter (keep_nal (hevc_of_codec c)) (map snd nals)).
Proof. exact rtsp_video_track. Qed.
Print Assumptions c07_rtsp_video_partial.

(* two admissible arrival orders of the same packets: the same AvPackets, hence the same RTMP messages *)
Theorem c07_reorder : forall c maxp rate w d (nals : list (N * bytes)) sched1 sched2,
  RtpPacker.fu_hdr_size c < maxp -> RtpFrames.rate_ok rate -> d < 65536 ->
  Forall (fun tn => RtpRoundtripProofs.nal_ok c (snd tn)) nals ->
  let s := RtpRoundtripProofs.unit_stream (RtpFrames.proto_of_codec c) (RtpSeqArith.seq_succ d)
             (map (RtpRoundtripProofs.video_unit c maxp rate) nals) in
  let run sched := RtpReorder.feed_all (RtpFrames.proto_of_codec c) rate w (RtpStreamProofs.primed d)
                     (map (fun i => RtpStreamProofs.upkt_arrival (RtpStreamProofs.pkt_at s i)) sched) in
  RtpReorderAbs.sched_ok w (RtpStreamProofs.init_astate s) sched1 -> (forall i, (i < length (RtpStreamProofs.pkts s))%nat -> In i sched1) ->
  RtpReorderAbs.sched_ok w (RtpStreamProofs.init_astate s) sched2 -> (forall i, (i < length (RtpStreamProofs.pkts s))%nat -> In i sched2) ->
  run sched1 = run sched2.
Proof. exact reorder_same. Qed.
Print Assumptions c07_reorder.

(* HEVC filler data / end of sequence / reserved types: the pinned tree gave such a
   packet no position (it then blocked the queue until 1024 packets had piled up) *)
Theorem c07_hevc_single_types_pinned_refuted :
  RtpUnpacker.hevc_type_known_pinned 38 = false /\ RtpUnpacker.hevc_type_known 38 = true /\
  RtpUnpacker.calc_position_hevc [76; 1; 255] = Ok RtpUnpacker.pos_single /\
  (forall t, t < 48 -> RtpUnpacker.hevc_type_known t = true).
Proof. repeat split. intros t H. unfold RtpUnpacker.hevc_type_known. apply N.ltb_lt. exact H. Qed.
Print Assumptions c07_hevc_single_types_pinned_refuted.

(* ======================================================================== *)
(* (5) GB28181.  The C13 and C19 models of IterateNaluStartCode are one function;
   an access unit in Annex-B form with 4-byte start codes (what GB28181 devices
   send) is split by iterateNaluByStartCode into its NAL units, each once, in
   order, start code included, stamped dts/90, pts/90 - after the "wait for
   parameter sets" gate (units before the first SPS/PPS (VPS) are dropped).
   This is what flush_all in c07_ps_frames below does with every reassembled
   frame; the remuxer behind it is (3) with Annex-B / ADTS framing. *)
Theorem c07_ps_start_code_models_agree : forall nalu start,
  NetPs.iterate_nalu_start_code nalu start = CodecNalFraming.iterate_nalu_start_code nalu start.
Proof. exact RemuxPsIngestProofs.iterate_nalu_start_code_agree. Qed.
Print Assumptions c07_ps_start_code_models_agree.

Theorem c07_ps_frame_nals : forall vpt pts dts wait nals, ((vpt =? 96) || (vpt =? 98))%Z = true ->
  nals <> [] -> Forall nal_wf nals ->
  NetPs.iterate_nalu_by_start_code true (RemuxPsIngestProofs.join4 nals) vpt pts dts wait =
  Ok (fst (RemuxPsIngestProofs.gate vpt wait nals),
      map (RemuxPsIngestProofs.ev_of vpt pts dts) (snd (RemuxPsIngestProofs.gate vpt wait nals))).
Proof. exact RemuxPsIngestProofs.iterate_nalu_by_start_code_spec. Qed.
Print Assumptions c07_ps_frame_nals.

(* reassembly: the buffer holds any number of whole video PES packets written
   by the reference writer (PTS on some of them: first of each frame, all, ...;
   a packet without PTS continues the running frame).  FeedRtpBody's loop
   consumes them all; every frame whose successor has started is handed to
   iterateNaluByStartCode exactly once, in order, stamped with its own PTS; the
   last frame stays buffered (lal flushes a frame only when the next one
   starts - also at the end of a stream).
   PARTIAL (what is not covered by a theorem): pack / system headers and the
   program stream map between the PES packets, audio PES packets interleaved
   with video ones, RTP boundaries that fall inside a PES packet, streams
   without any PTS (rtp-timestamp mode) - all modelled in Net/NetPs.v and
   compared on the python muxer's packings (c07.ps, c07.e2e_ps). *)
Theorem c07_ps_frames : forall vpt l st rtpts acc fuel cur,
  Forall RemuxPsPesProofs.pes_ok l -> RemuxPsPesProofs.none_ok (fst cur) l ->
  NetPs.ps_vpt st = vpt -> NetPs.ps_pre_vpts st = fst cur -> NetPs.ps_vbuf st = snd cur ->
  NetPs.ps_buf st = RemuxPsPesProofs.pes_bytes l -> (length l < fuel)%nat ->
  forall w evs, RemuxPsPesProofs.flush_all vpt (NetPs.ps_wait_sps st) (fst (RemuxPsPesProofs.regroup cur l)) = Ok (w, evs) ->
  exists st', NetPs.feed_body_loop true fuel st rtpts acc = Ok (false, st', acc ++ evs) /\
              NetPs.ps_buf st' = [] /\ NetPs.ps_vpt st' = vpt /\
              NetPs.ps_pre_vpts st' = fst (snd (RemuxPsPesProofs.regroup cur l)) /\
              NetPs.ps_vbuf st' = snd (snd (RemuxPsPesProofs.regroup cur l)) /\ NetPs.ps_wait_sps st' = w.
Proof. exact RemuxPsPesProofs.video_pes_run. Qed.
Print Assumptions c07_ps_frames.

(* ======================================================================== *)
(* (6) customize pub API: the same remuxer, nothing in between; after Dispose
   (or removal from the group) nothing is forwarded any more *)
Theorem c07_customize : forall c o,
  (cs_disposed c = false ->
   customize_step true c o =
   match o with
   | COption v a => Ok (mk_cs false (rs_with_option (cs_r c) v a), [], false)
   | CAsc asc => let* (r, ms) := init_with_av_config (cs_r c) asc None None None in Ok (mk_cs false r, ms, false)
   | CPacket p => let* (r, ms) := feed_av_packet true (cs_r c) p in Ok (mk_cs false r, ms, false)
   | CRtmp m => Ok (c, [m], false)
   | CDispose => Ok (mk_cs true (cs_r c), [], false)
   end) /\
  (cs_disposed c = true ->
   match o with
   | COption _ _ | CDispose => True
   | _ => customize_step true c o = Ok (c, [], true)
   end).
Proof. intros c o. split; [apply customize_is_remuxer|apply customize_disposed]. Qed.
Print Assumptions c07_customize.

(* ======================================================================== *)
(* non-vacuity *)
Definition ex_sps : bytes := [103; 66; 0; 30; 171; 64; 80; 30; 200].      (* 67 42 00 1e ab 40 50 1e c8 *)
Definition ex_pps : bytes := [104; 206; 56; 128].
Definition ex_idr : bytes := [101; 136; 128; 16].
Definition ex_aud : bytes := [9; 240].
Definition ex_frame : bytes := join_nalu_avcc [ex_aud; ex_sps; ex_pps; ex_idr].

(* an AVCC access unit AUD, SPS, PPS, IDR through a fresh remuxer: metadata,
   sequence header that parses back to (SPS, PPS), key frame message with the
   IDR slice only *)
Definition ex_hdr : bytes :=
  [23; 0; 0; 0; 0; 1; 66; 0; 30; 255; 225; 0; 9; 103; 66; 0; 30; 171; 64; 80; 30; 200; 1; 0; 4; 104; 206; 56; 128].
Example c07_nonvacuous :
  let st' := set_meta rs_new in let h := ex_hdr in
    feed_av_packet true rs_new (mk_av pt_avc 40 ex_frame)
      = Ok (st', [RMeta (-1) (-1); RAv false 40 h; RAv false 40 (23 :: 1 :: 0 :: 0 :: 0 :: join_nalu_avcc [ex_idr])]) /\
    avc_parse_seq_header h = Ok (ex_sps, ex_pps) /\
    framed_as rs_new ex_frame [ex_aud; ex_sps; ex_pps; ex_idr] /\
    frame_msg false 40 [ex_aud; ex_sps; ex_pps; ex_idr] = [RAv false 40 (23 :: 1 :: 0 :: 0 :: 0 :: join_nalu_avcc [ex_idr])].
Proof. vm_compute. split; [reflexivity|]. split; [reflexivity|]. split; reflexivity. Qed.

(* the interleave queue on A(1000) V(500) A(1020) V(540): audio 0, video 0, audio 20 out, video 40 still queued *)
Example c07_queue_nonvacuous :
  let l := [mk_av pt_aac 1000 [1]; mk_av pt_avc 500 [2]; mk_av pt_aac 1020 [3]; mk_av pt_avc 540 [4]] in
  stream_ok TNone TNone l /\
  concat (snd (aq_run true aq_init l)) = [mk_av pt_aac 0 [1]; mk_av pt_avc 0 [2]; mk_av pt_aac 20 [3]] /\
  q_v (fst (aq_run true aq_init l)) = [mk_av pt_avc 40 [4]].
Proof. vm_compute. split; [repeat split; discriminate|split; reflexivity]. Qed.
