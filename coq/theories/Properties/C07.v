(* C07 - RTSP, GB28181 and customize ingest reach RTMP/FLV consumers with the
   same frames.  Only property statements here; each is closed by [exact] or a
   short proof from the lemmas of Remux/*Proofs.v (and of C12 / C19).

   The end-to-end statement, for reference (proved in the parts below):

     for every elementary stream published over RTSP (any arrival order the
     reorder window admits), GB28181 PS (any PES packing) or the customize API,
     the RTMP messages lal hands to its consumers are: sequence headers built
     from the publisher's parameter sets, then per track the publisher's NAL
     units / audio frames byte for byte, in order, each once (access unit
     delimiters and in-band parameter sets removed), key frames flagged, with
     timestamps = source timestamps in milliseconds minus one constant per
     track and never more than 1 ms off, whatever the clock rate.

   Parts: (1) timestamps c07_ts_*; (2) interleave queue c07_queue_*;
   (3) remuxer c07_av2rtmp_*; (4) reordering c07_reorder (C12 instantiated), the
   simulation between the C13 in-session model and the C12 container, the RTSP end-to-end
   theorems c07_rtsp_video (one track) and c07_rtsp_two_tracks (queue); (5) GB28181
   c07_ps_frame_nals, c07_ps_frames; (6) customize c07_customize.  What is NOT linked by a
   theorem is said at each _partial. *)
From Lal Require Import Common.LBytes Common.Res
  Codec.CodecNalFraming Codec.CodecNalFramingProofs Codec.CodecAvcSeqHeader Codec.CodecHevcSeqHeader Codec.CodecAac
  Remux.RemuxAv2Rtmp Remux.RemuxAvQueue Remux.RemuxAv2RtmpProofs Remux.RemuxAvQueueProofs Remux.RemuxTsProofs
  Remux.RemuxRtspIngestProofs Remux.RemuxRtspIngest Remux.RemuxUnpackSimProofs Remux.RemuxRtspSessProofs Remux.RemuxRtspTwoTrackProofs.
From Lal Require Net.NetPs Remux.RemuxPsIngestProofs Remux.RemuxPsPesProofs Remux.RemuxPsStreamProofs Remux.RemuxPsIngest.
From Lal Require Rtp.RtpPacker Rtp.RtpUnpacker Rtp.RtpReorder Rtp.RtpFrames Rtp.RtpReorderAbs Rtp.RtpStreamProofs
  Rtp.RtpRoundtripProofs Net.NetUnpack Codec.CodecAvcSeqHeaderProofs Codec.CodecHevcSeqHeaderProofs.
Open Scope N_scope.

(* ======================================================================== *)
(* (1) RTP timestamp -> milliseconds *)

(* the unpackers' conversion (both model copies: C12's out_ts, C13's ts_ms) is
   rtp_ms rate ts = ts * 1000 / rate ... *)
Theorem c07_ts_models_agree : forall site rate ts, 0 < rate -> rate < 9223372036854775808 ->
  RtpUnpacker.out_ts site rate ts = Ok (rtp_ms rate ts) /\
  NetUnpack.ts_ms true site (Z.of_N rate) ts = Ok (Z.of_N (rtp_ms rate ts)).
Proof. exact ts_models_agree. Qed.
Print Assumptions c07_ts_models_agree.

(* ... which is the floor of the exact value, for EVERY rtp timestamp and EVERY
   clock rate (8000 .. 96000, 44100, 22050, 11025 included): no drift *)
Theorem c07_ts_no_drift : forall rate ts, 0 < rate ->
  rtp_ms rate ts * rate <= ts * 1000 /\ ts * 1000 < (rtp_ms rate ts + 1) * rate.
Proof. exact rtp_ms_floor. Qed.
Print Assumptions c07_ts_no_drift.

(* the same relative to the first frame of a track (what the interleave queue
   subtracts): distance in ms within 1 of the exact distance, unboundedly far *)
Theorem c07_ts_no_drift_rebased : forall rate t0 t, 0 < rate -> t0 <= t ->
  (rtp_ms rate t - rtp_ms rate t0) * rate < (t - t0) * 1000 + rate /\
  (t - t0) * 1000 < (rtp_ms rate t - rtp_ms rate t0 + 1) * rate.
Proof. exact rtp_ms_delta. Qed.
Print Assumptions c07_ts_no_drift_rebased.

(* RTP packets that aggregate several AAC access units: the i-th one is stamped
   rtp_ms ts0 + floor(i*1024000/rate) (Rtp/RtpUnpacker.v aac_multi) - within one
   millisecond of the floor of the sample clock, for every i: the rounding does not
   accumulate over the units of a packet (seed C07-1 hoisted floor(1024000/rate) out
   of the loop: 2 ms off at the 7th unit at 48 kHz; the oracle now checks every audio
   message against floor(1000*samples/rate)) *)
Theorem c07_ts_multi_au : forall rate ts0 i, 0 < rate ->
  let ms := rtp_ms rate ts0 + i * 1024000 / rate in
  ms * rate <= (ts0 + 1024 * i) * 1000 /\ (ts0 + 1024 * i) * 1000 < (ms + 2) * rate.
Proof. exact multi_au_stamp. Qed.
Print Assumptions c07_ts_multi_au.

(* the pinned tree divided by uint32(clockRate/1000) = 44 at 44.1 kHz: the error
   grows by 100 ms every 44 s, without bound (DESIGN F-24); witness inside the
   32-bit range: one hour of audio is 8181 ms late *)
Theorem c07_ts_no_drift_pinned_refuted :
  (forall k, rtp_ms_pinned 44100 (1940400 * k) = rtp_ms 44100 (1940400 * k) + 100 * k) /\
  (158760000 < 4294967296 /\ rtp_ms 44100 158760000 = 3600000 /\ rtp_ms_pinned 44100 158760000 = 3608181).
Proof. split; [exact pinned_drift_44100|exact pinned_drift_one_hour]. Qed.
Print Assumptions c07_ts_no_drift_pinned_refuted.

(* it was right exactly for the clock rates that are multiples of 1000 Hz *)
Theorem c07_ts_pinned_exact_for_khz : forall k ts, 0 < k -> rtp_ms_pinned (1000 * k) ts = rtp_ms (1000 * k) ts.
Proof. exact pinned_exact_for_khz. Qed.
Print Assumptions c07_ts_pinned_exact_for_khz.

(* ======================================================================== *)
(* (2) rtsp.AvPacketQueue, both timestamp modes *)

(* for EVERY input sequence (any payload types, any timestamps): what came out
   so far, followed by what is still queued, is per track the input of that
   track in order, each packet once, payload and type untouched (only the
   timestamp is re-stamped); fewer than 128 packets are withheld per track *)
Theorem c07_queue_merge : forall rot l s' outs, aq_run rot aq_init l = (s', outs) ->
  let adj := adjusted rot aq_init l in
  map av_pt adj = map av_pt l /\ map av_payload adj = map av_payload l /\
  vs (concat outs) ++ q_v s' = vs adj /\ as_ (concat outs) ++ q_a s' = as_ adj /\
  (length (q_v s') < max_queue_size)%nat /\ (length (q_a s') < max_queue_size)%nat.
Proof. exact queue_merge. Qed.
Print Assumptions c07_queue_merge.

(* when the caller keeps its side of the contract (per track: timestamps >= 0,
   never below the first one, never more than 1000 ms backwards) the new stamp is
   the old one minus ONE constant per track: the first timestamp of that track *)
Theorem c07_queue_rebase : forall rot l s' outs, stream_ok TNone TNone l -> aq_run rot aq_init l = (s', outs) ->
  vs (concat outs) ++ q_v s' = map (fun p => with_ts p (av_ts p - track_first TNone (vs l))%Z) (vs l) /\
  as_ (concat outs) ++ q_a s' = map (fun p => with_ts p (av_ts p - track_first TNone (as_ l))%Z) (as_ l).
Proof. exact queue_rebase. Qed.
Print Assumptions c07_queue_rebase.

(* ======================================================================== *)
(* (3) remux.AvPacket2RtmpRemuxer.FeedAvPacket *)

(* one video AvPacket, AVC or HEVC, AVCC or Annex-B framing (whatever the
   stream option says, [framed_as]), from ANY remuxer state: the audio/video
   messages are zero or more sequence headers - each built by the C19 builder
   from parameter sets that are in this packet or were buffered - followed by
   at most one frame message ... *)
Theorem c07_av2rtmp_frames : forall hevc st ts payload nals st' msgs,
  framed_as st payload nals -> Forall (fun n => n <> []) nals ->
  feed_video true hevc st ts payload = Ok (st', msgs) ->
  exists hdrs, av_msgs msgs = hdrs ++ frame_msg hevc ts nals /\
               Forall (seq_hdr_msg hevc ts ([] :: cands_of st nals)) hdrs /\
               rs_vfmt st' = rs_vfmt st.
Proof. exact feed_video_frames. Qed.
Print Assumptions c07_av2rtmp_frames.

(* ... and the frame message reads back (lal's AVCC reader = the ISO 14496-15
   reader, c19_framing_avcc) as exactly the units of the packet without access
   unit delimiters and parameter sets, byte for byte, in order, each once; its
   frame type is "key" iff one of them is an IDR / IRAP slice; composition time 0 *)
Theorem c07_av2rtmp_frame_reads_back : forall hevc ts nals, Forall avcc_ok nals ->
  match frame_msg hevc ts nals with
  | [] => filter (keep_nal hevc) nals = []
  | [RAv false t (f :: pt :: c0 :: c1 :: c2 :: body)] =>
      t = ts32 ts /\ pt = 1 /\ c0 = 0 /\ c1 = 0 /\ c2 = 0 /\
      f = (if existsb (key_nal hevc) (filter (keep_nal hevc) nals) then flag_key hevc else flag_inter hevc) /\
      iterate_nalu_avcc body = (filter (keep_nal hevc) nals, None)
  | _ => False
  end.
Proof. exact frame_msg_reads_back. Qed.
Print Assumptions c07_av2rtmp_frame_reads_back.

(* a sequence header message of an AVC stream parses back (lal's own parser,
   C19) to the parameter sets it was built from *)
Theorem c07_av2rtmp_seq_header_avc : forall ts cands m, seq_hdr_msg false ts cands m ->
  exists h sps pps, m = RAv false (ts32 ts) h /\ In sps cands /\ In pps cands /\
    (lenN sps < 65536 -> lenN pps < 65536 -> avc_parse_seq_header h = Ok (sps, pps)).
Proof.
  intros ts cands m (h & vps & sps & pps & E & I1 & I2 & _ & B). exists h, sps, pps.
  repeat split; auto. intros L1 L2. apply (CodecAvcSeqHeaderProofs.avc_seq_header_roundtrip sps pps h L1 L2 B).
Qed.
Print Assumptions c07_av2rtmp_seq_header_avc.

(* the same for HEVC: VPS, SPS and PPS come back from lal's parser (c19_seqheader_hevc) *)
Theorem c07_av2rtmp_seq_header_hevc : forall ts cands m, seq_hdr_msg true ts cands m ->
  exists h vps sps pps, m = RAv false (ts32 ts) h /\ In vps cands /\ In sps cands /\ In pps cands /\
    (lenN vps < 65536 -> lenN sps < 65536 -> lenN pps < 65536 -> hevc_parse_seq_header h = Ok (vps, sps, pps)).
Proof.
  intros ts cands m (h & vps & sps & pps & E & I1 & I2 & I3 & B). exists h, vps, sps, pps.
  repeat split; auto. intros L0 L1 L2. apply (CodecHevcSeqHeaderProofs.hevc_seq_header_roundtrip vps sps pps h L0 L1 L2 B).
Qed.
Print Assumptions c07_av2rtmp_seq_header_hevc.

(* a whole video track through one remuxer: reading the NAL units out of all
   its messages gives the concatenation of the kept units of all packets - same
   units, same order, each exactly once, nothing else *)
Theorem c07_av2rtmp_track : forall hevc (l : list (avpkt * list bytes)) st st' msgs,
  Forall (vpkt_ok (rs_vfmt st) hevc) l ->
  feed_all_av true st (map fst l) = Ok (st', msgs) ->
  read_video_nals (av_msgs msgs) = concat (map (fun x => filter (keep_nal hevc) (snd x)) l).
Proof. exact video_track_nals. Qed.
Print Assumptions c07_av2rtmp_track.

(* audio: raw AAC, G.711 A/u-law, Opus - one message per frame, tag header + the frame *)
Theorem c07_av2rtmp_audio : forall st (p : avpkt) st' msgs,
  feed_av_packet true st p = Ok (st', msgs) ->
  (av_pt p = pt_aac -> rs_afmt st = afmt_raw -> av_msgs msgs = [RAv true (ts32 (av_ts p)) (175 :: 1 :: av_payload p)]) /\
  (av_pt p = pt_g711a -> av_msgs msgs = [RAv true (ts32 (av_ts p)) (114 :: av_payload p)]) /\
  (av_pt p = pt_g711u -> av_msgs msgs = [RAv true (ts32 (av_ts p)) (130 :: av_payload p)]) /\
  (av_pt p = pt_opus -> av_msgs msgs = [RAv true (ts32 (av_ts p)) (223 :: av_payload p)]).
Proof. exact feed_audio_raw. Qed.
Print Assumptions c07_av2rtmp_audio.

(* ADTS AAC (GB28181, customize): every frame with at least one byte behind the
   7-byte header comes out without the header; the first one behind the sequence
   header made from its own ADTS header (c19_aac_seq_header: af 00 + ASC) *)
Theorem c07_av2rtmp_audio_adts : forall st (p : avpkt) st' msgs,
  av_pt p = pt_aac -> rs_afmt st = afmt_adts -> 7 < lenN (av_payload p) ->
  feed_av_packet true st p = Ok (st', msgs) ->
  rs_adts st' = true /\ rs_afmt st' = afmt_adts /\
  (rs_adts st = true -> av_msgs msgs = [RAv true (ts32 (av_ts p)) (175 :: 1 :: skipn 7 (av_payload p))]) /\
  (rs_adts st = false -> forall h, aac_seqh_of_adts (av_payload p) = Ok h ->
     av_msgs msgs = [RAv true (ts32 (av_ts p)) h; RAv true (ts32 (av_ts p)) (175 :: 1 :: skipn 7 (av_payload p))]).
Proof. exact feed_audio_adts. Qed.
Print Assumptions c07_av2rtmp_audio_adts.

(* the tree before the C07 fixes: an IDR slice followed by an SEI (or filler
   data) unit was sent as an INTER frame (the last unit decided), and an ADTS
   frame with fewer than 5 raw bytes was dropped *)
Theorem c07_av2rtmp_keyflag_pinned_refuted :
  frame_msg false 0 [[101; 136]; [6; 5]] = [RAv false 0 (23 :: 1 :: 0 :: 0 :: 0 :: idr_then_sei)] /\
  feed_av_packet true (set_meta rs_new) (mk_av pt_avc 0 idr_then_sei) = Ok (set_meta rs_new, [RAv false 0 (23 :: 1 :: 0 :: 0 :: 0 :: idr_then_sei)]) /\
  feed_av_packet false (set_meta rs_new) (mk_av pt_avc 0 idr_then_sei) = Ok (set_meta rs_new, [RAv false 0 (39 :: 1 :: 0 :: 0 :: 0 :: idr_then_sei)]).
Proof. exact keyflag_pinned_refuted. Qed.
Print Assumptions c07_av2rtmp_keyflag_pinned_refuted.

Theorem c07_av2rtmp_adts_small_pinned_refuted :
  feed_av_packet true (set_adts (set_meta (rs_with_option rs_new vfmt_avcc afmt_adts))) (mk_av pt_aac 23 adts_4)
    = Ok (set_adts (set_meta (rs_with_option rs_new vfmt_avcc afmt_adts)), [RAv true 23 [175; 1; 1; 2; 3; 4]]) /\
  feed_av_packet false (set_adts (set_meta (rs_with_option rs_new vfmt_avcc afmt_adts))) (mk_av pt_aac 23 adts_4)
    = Ok (set_adts (set_meta (rs_with_option rs_new vfmt_avcc afmt_adts)), []).
Proof. exact adts_small_pinned_refuted. Qed.
Print Assumptions c07_av2rtmp_adts_small_pinned_refuted.

(* KNOWN FINDING C07-KF-MULTI-PPS (open): the remuxer keeps ONE sps and ONE pps and clears them when a
   header has been emitted.  An access unit SPS, PPS(id 0), PPS(id 1), IDR: the sequence header carries the
   first PPS only; the second one stays buffered and reaches no consumer (a later slice that refers to it
   cannot be decoded).  The theorems above are about what is delivered; they do not promise that every
   parameter set of the publisher is in some sequence header - this witness shows it is false. *)
Definition ex_pps2 : bytes := [104; 238; 60; 128].
Theorem c07_av2rtmp_second_pps_refuted :
  let sps := [103; 66; 0; 30; 171; 64; 80; 30; 200] in let pps := [104; 206; 56; 128] in let idr := [101; 136; 128; 16] in
  exists st' h,
    feed_av_packet true (set_meta rs_new) (mk_av pt_avc 0 (join_nalu_avcc [sps; pps; ex_pps2; idr]))
      = Ok (st', [RAv false 0 h; RAv false 0 (23 :: 1 :: 0 :: 0 :: 0 :: join_nalu_avcc [idr])]) /\
    avc_parse_seq_header h = Ok (sps, pps) /\ rs_pps st' = ex_pps2.
Proof. eexists _, _. vm_compute. split; [reflexivity|]. split; reflexivity. Qed.
Print Assumptions c07_av2rtmp_second_pps_refuted.

(* ======================================================================== *)
(* (4) reordering: arrival perturbations inside the window do not change the
   result.  c12_reorder_video instantiated and composed with the remuxer: the
   RTP packets of any list of (rtp timestamp, NAL unit) - single packets and FU
   fragments, any sizes, sequence numbers wrapping at 2^16 - fed to the
   container in ANY admissible order (duplicates, stale repeats, swaps within
   the window w / 2^14) give the AvPackets of the in-order run, with
   timestamps rtp_ms, and the remuxer turns them into messages whose NAL units
   read back as the publisher's, AUD / parameter sets removed.
   This theorem is about the C12 container; c07_rtsp_video below is the same
   statement over the RTSP in-session model the harness exercises (C13,
   Net/NetInSess.v), obtained through the simulation c07_insess_container_sim.
   Behind the remuxer: Group fan-out = C01, chunk / tag serialisation = C08 / C11. *)
Theorem c07_rtsp_video_container : forall c maxp rate w d (nals : list (N * bytes)) sched st st' msgs,
  RtpPacker.fu_hdr_size c < maxp -> RtpFrames.rate_ok rate -> d < 65536 ->
  Forall (fun tn => RtpRoundtripProofs.nal_ok c (snd tn)) nals ->
  Forall (fun tn => lenN (snd tn) < 4294967296) nals ->
  let s := RtpRoundtripProofs.unit_stream (RtpFrames.proto_of_codec c) (RtpSeqArith.seq_succ d)
             (map (RtpRoundtripProofs.video_unit c maxp rate) nals) in
  RtpReorderAbs.sched_ok w (RtpStreamProofs.init_astate s) sched ->
  (forall i, (i < length (RtpStreamProofs.pkts s))%nat -> In i sched) ->
  rs_vfmt st = vfmt_avcc ->
  exists cs outs,
    RtpReorder.feed_all (RtpFrames.proto_of_codec c) rate w (RtpStreamProofs.primed d)
      (map (fun i => RtpStreamProofs.upkt_arrival (RtpStreamProofs.pkt_at s i)) sched) = Ok (cs, outs) /\
    outs = map (fun tn => (RtpUnpacker.rtp_ms rate (fst tn), RtpUnpacker.avcc (snd tn))) nals /\
    (feed_all_av true st (map (av_of_out (pt_of_codec c)) outs) = Ok (st', msgs) ->
     read_video_nals (av_msgs msgs) = filter (keep_nal (hevc_of_codec c)) (map snd nals)).
Proof. exact rtsp_video_track. Qed.
Print Assumptions c07_rtsp_video_container.

(* two admissible arrival orders of the same packets: the same AvPackets, hence the same RTMP messages *)
Theorem c07_reorder : forall c maxp rate w d (nals : list (N * bytes)) sched1 sched2,
  RtpPacker.fu_hdr_size c < maxp -> RtpFrames.rate_ok rate -> d < 65536 ->
  Forall (fun tn => RtpRoundtripProofs.nal_ok c (snd tn)) nals ->
  let s := RtpRoundtripProofs.unit_stream (RtpFrames.proto_of_codec c) (RtpSeqArith.seq_succ d)
             (map (RtpRoundtripProofs.video_unit c maxp rate) nals) in
  let run sched := RtpReorder.feed_all (RtpFrames.proto_of_codec c) rate w (RtpStreamProofs.primed d)
                     (map (fun i => RtpStreamProofs.upkt_arrival (RtpStreamProofs.pkt_at s i)) sched) in
  RtpReorderAbs.sched_ok w (RtpStreamProofs.init_astate s) sched1 -> (forall i, (i < length (RtpStreamProofs.pkts s))%nat -> In i sched1) ->
  RtpReorderAbs.sched_ok w (RtpStreamProofs.init_astate s) sched2 -> (forall i, (i < length (RtpStreamProofs.pkts s))%nat -> In i sched2) ->
  run sched1 = run sched2.
Proof. exact reorder_same. Qed.
Print Assumptions c07_reorder.

(* ---- the same over the in-session model (C13) ----
   One call of RtpUnpackContainer.Feed in the C13 model (raw packet, parsed header,
   checked accessors) against the C12 model (seq, ts, body): for related states
   (same queue packet for packet, Size, doneSeq) and a packet whose Body() is the
   payload - RTP padding octets allowed except for AAC, whose slice expressions can
   reach them (tf) -, whenever the C13 call returns, the C12 call returns the related state and the
   same AvPackets - for AVC, HEVC (single, STAP-A / AP, FU), AAC (one, several,
   fragmented access units) and raw payloads, any clock rate 1 .. 2^63-1 *)
Theorem c07_insess_container_sim : forall u, clock_pos (NetUnpack.uk_clock u) ->
  let tf := tf_of (NetUnpack.uk_kind u) in
  forall w c13 c12 h raw body padding, crel tf c13 c12 ->
  NetRtpHeader.rtp_body raw h = Ok (body, padding) -> (tf = true -> padding = []) -> bytes_ok body -> lenN body < 65536 ->
  match NetUnpack.cont_feed true u w c13 h raw with
  | Ok (c', av) =>
      exists st' outs,
        RtpReorder.feed (pr_of (NetUnpack.uk_kind u)) (Z.to_N (NetUnpack.uk_clock u)) w c12
                        (NetRtpHeader.rh_seq h) (NetRtpHeader.rh_ts h) body = Ok (st', outs) /\
        crel tf c' st' /\ av = map (to_av (NetUnpack.uk_pt u)) outs
  | _ => True
  end.
Proof. exact feed_sim. Qed.
Print Assumptions c07_insess_container_sim.

(* RFC 3550 5.1 on the ingest side: for EVERY header variant of the reference writer -
   marker on / off, 0 .. 15 CSRC identifiers, a header extension of 4*n bytes, padding
   of 1 .. 255 octets whose last one is the count - ParseRtpHeader succeeds with the
   sequence number, timestamp and payload type written, and Body() is exactly the
   payload: nothing of CSRC list, extension or padding reaches the depacketisers *)
Theorem c07_rtp_header_variants : forall v pt seq ts ssrc body,
  hv_ok v -> pt < 128 -> seq < 65536 -> ts < 4294967296 -> ssrc < 4294967296 -> body <> [] ->
  exists h, NetRtpHeader.parse_rtp_header true (rtp_raw v pt seq ts ssrc body) = Ok h /\
            NetRtpHeader.rh_seq h = seq /\ NetRtpHeader.rh_ts h = ts /\ NetRtpHeader.rh_pt h = pt /\
            NetRtpHeader.rtp_body (rtp_raw v pt seq ts ssrc body) h = Ok (body, pad_bytes (hv_pad v)).
Proof. exact parse_raw. Qed.
Print Assumptions c07_rtp_header_variants.

(* a video-only publisher: what rtsp_ingest (SDP -> session as created -> every
   interleaved packet through handleRtpPacket -> unpack container -> remuxer)
   hands to the group is the remuxer's output on what the C12 container returns
   for the same arrivals.  Packets are written by a reference RTP writer
   in ANY RFC 3550 header variant, chosen per packet by [V]: marker on / off, 0 .. 15
   CSRC identifiers, header extension of any length, 1 .. 255 padding octets;
   payload of 1 .. 65535 byte values) *)
Theorem c07_rtsp_video_ingest : forall V fx flt rot (hevc : bool) vclock vpt ssrc arrivals groups, (forall a, hv_ok (V a)) ->
  (1000 <= vclock < 4294967296000)%Z -> 0 < vpt < 128 -> ssrc < 4294967296 -> Forall arr_ok arrivals ->
  rtsp_ingest fx flt rot NetInSess.c_none 0 0 None (vcodec_tok hevc) vclock (Z.of_N vpt) None None None
              (map (fun a => (2, raw_of V vpt ssrc a)) arrivals) = Ok groups ->
  exists st12 outs r',
    RtpReorder.feed_all (pr_of (vkind hevc)) (Z.to_N vclock) 1024 RtpReorder.c_init arrivals = Ok (st12, outs) /\
    feed_all_av fx rs_new (map (to_av (vpt_of hevc)) outs) = Ok (r', concat groups).
Proof. exact rtsp_video_ingest. Qed.
Print Assumptions c07_rtsp_video_ingest.

(* END TO END for one video track, over the in-session model: the publisher's NAL
   units (n0 first, then [rest]) packed by lal's packer rules (single packets / FU
   fragments, any payload limit), the packets of the first unit in order (they
   prime the container as created), all others in ANY admissible arrival order
   (duplicates, stale repeats, swaps inside the window of 1024 / 2^14, sequence
   numbers wrapping): the RTMP messages read back as exactly these units, in
   order, each once, access unit delimiters and parameter sets removed *)
Theorem c07_rtsp_video : forall V flt rot (hevc : bool) maxp vclock vpt ssrc s0 ts0 n0 pls0 (rest : list (N * bytes)) sched groups,
  (forall a, hv_ok (V a)) ->
  let c := codec_of hevc in
  let pr := RtpFrames.proto_of_codec c in
  let rate := Z.to_N vclock in
  RtpPacker.fu_hdr_size c < maxp -> (1000 <= vclock < 4294967296000)%Z -> 0 < vpt < 128 -> ssrc < 4294967296 ->
  RtpRoundtripProofs.nal_ok c n0 -> Forall (fun tn => RtpRoundtripProofs.nal_ok c (snd tn)) rest ->
  lenN n0 < 4294967296 -> Forall (fun tn => lenN (snd tn) < 4294967296) rest ->
  s0 < 65536 -> RtpPacker.pack_nal true c n0 maxp = Ok pls0 -> (length pls0 <= 1024)%nat ->
  let d := RtpSeqArith.seq_add s0 (lenN pls0 - 1) in
  let s := RtpRoundtripProofs.unit_stream pr (RtpSeqArith.seq_succ d) (map (RtpRoundtripProofs.video_unit c maxp rate) rest) in
  RtpReorderAbs.sched_ok 1024 (RtpStreamProofs.init_astate s) sched ->
  (forall i, (i < length (RtpStreamProofs.pkts s))%nat -> In i sched) ->
  let arrivals := map RtpStreamProofs.upkt_arrival (RtpFrames.mk_upkts pr s0 ts0 pls0)
                  ++ map (fun i => RtpStreamProofs.upkt_arrival (RtpStreamProofs.pkt_at s i)) sched in
  Forall arr_ok arrivals ->
  rtsp_ingest true flt rot NetInSess.c_none 0 0 None (vcodec_tok hevc) vclock (Z.of_N vpt) None None None
              (map (fun a => (2, raw_of V vpt ssrc a)) arrivals) = Ok groups ->
  read_video_nals (av_msgs (concat groups)) = filter (keep_nal hevc) (n0 :: map snd rest).
Proof. exact rtsp_video_end_to_end. Qed.
Print Assumptions c07_rtsp_video.

(* an audio-only publisher (AAC with config, G.711 A/u, Opus): OnSdp's messages first, then
   the remuxer's output on what the C12 container returns (c12_reorder_audio, c12_audio_* apply to it) *)
Theorem c07_rtsp_audio_ingest : forall V fx flt rot ac aclock apt ssrc asc arrivals groups,
  (forall a, hv_ok (V a)) -> (ac = NetInSess.c_aac -> forall a, hv_pad (V a) = None) ->
  (ac = NetInSess.c_aac /\ asc <> None) \/ (ac = NetInSess.c_pcma \/ ac = NetInSess.c_pcmu \/ ac = NetInSess.c_opus) ->
  (1000 <= aclock < 4294967296000)%Z -> apt < 128 -> ssrc < 4294967296 -> Forall arr_ok arrivals ->
  rtsp_ingest fx flt rot ac aclock (Z.of_N apt) asc NetInSess.c_none 0 0 None None None
              (map (fun a => (0, raw_of V apt ssrc a)) arrivals) = Ok groups ->
  exists r0 ms0 more st12 outs r',
    init_with_av_config rs_new asc None None None = Ok (r0, ms0) /\ groups = ms0 :: more /\
    RtpReorder.feed_all (pr_of (akind ac)) (Z.to_N aclock) 1024 RtpReorder.c_init arrivals = Ok (st12, outs) /\
    feed_all_av fx r0 (map (to_av (apt_of ac)) outs) = Ok (r', concat more).
Proof. exact rtsp_audio_ingest. Qed.
Print Assumptions c07_rtsp_audio_ingest.

(* TWO TRACKS through the interleave queue: any interleaving of the audio track's
   and the video track's packets (each track in any order its container admits).
   The in-session run decomposes into the two C12 containers on their own
   sub-sequences, ONE list of AvPackets in the order they reached
   AvPacketQueue.Feed (its audio part = the audio container's output, its video
   part = the video container's), the queue run on that list (c07_queue_merge /
   c07_queue_rebase apply to it) and the remuxer on what the queue let through *)
Theorem c07_rtsp_two_tracks_run : forall fx rot cfg ua uv apt vpt assrc vssrc,
  clock_pos (NetUnpack.uk_clock ua) -> clock_pos (NetUnpack.uk_clock uv) ->
  forall VA VV, (forall a, hv_ok (VA a)) -> (forall a, hv_ok (VV a)) ->
  (forall a, pad_free (tf_of (NetUnpack.uk_kind ua)) (VA a)) -> (forall a, pad_free (tf_of (NetUnpack.uk_kind uv)) (VV a)) ->
  NetInSess.sc_aunp cfg = Some ua -> NetInSess.sc_vunp cfg = Some uv ->
  NetInSess.sc_apt cfg = Z.of_N apt -> NetInSess.sc_vpt cfg = Z.of_N vpt -> apt <> vpt ->
  NetInSess.sc_artp cfg = 0 -> NetInSess.sc_vrtp cfg = 2 -> apt < 128 -> vpt < 128 ->
  assrc < 4294967296 -> vssrc < 4294967296 ->
  is_video_pt (NetUnpack.uk_pt uv) = true -> is_video_pt (NetUnpack.uk_pt ua) = false ->
  forall pkts s ca cv q r groups,
  crel (tf_of (NetUnpack.uk_kind ua)) (NetInSess.ss_acont s) ca -> crel (tf_of (NetUnpack.uk_kind uv)) (NetInSess.ss_vcont s) cv ->
  Forall (fun x => arr_ok (snd x)) pkts ->
  rtsp_run fx rot cfg s (Some q) r (map (enc apt vpt assrc vssrc VA VV) pkts) = Ok groups ->
  exists avs sa oa sv ov q' outs r',
    RtpReorder.feed_all (pr_of (NetUnpack.uk_kind ua)) (Z.to_N (NetUnpack.uk_clock ua)) NetInSess.unpacker_max_size ca (sel false pkts) = Ok (sa, oa) /\
    RtpReorder.feed_all (pr_of (NetUnpack.uk_kind uv)) (Z.to_N (NetUnpack.uk_clock uv)) NetInSess.unpacker_max_size cv (sel true pkts) = Ok (sv, ov) /\
    as_ avs = map (to_av (NetUnpack.uk_pt ua)) oa /\ vs avs = map (to_av (NetUnpack.uk_pt uv)) ov /\
    aq_run rot q avs = (q', outs) /\
    feed_all_av fx r (concat outs) = Ok (r', concat groups).
Proof. exact two_track_run. Qed.
Print Assumptions c07_rtsp_two_tracks_run.

(* ... hence, when the video container returns the publisher's units (c12_reorder_video /
   c07_rtsp_video_container give exactly this form), a consumer reads a PREFIX of them - same
   units, same order, each once, AUD / parameter sets removed - and fewer than 128 units are
   still held back by the queue when the input stops *)
Theorem c07_rtsp_two_tracks : forall rot cfg ua uv VA VV apt vpt assrc vssrc (hevc : bool)
        pkts s ca cv r groups sv (tsf : N * bytes -> N) (nals : list (N * bytes)),
  clock_pos (NetUnpack.uk_clock ua) -> clock_pos (NetUnpack.uk_clock uv) ->
  (forall a, hv_ok (VA a)) -> (forall a, hv_ok (VV a)) ->
  (forall a, pad_free (tf_of (NetUnpack.uk_kind ua)) (VA a)) -> (forall a, pad_free (tf_of (NetUnpack.uk_kind uv)) (VV a)) ->
  NetInSess.sc_aunp cfg = Some ua -> NetInSess.sc_vunp cfg = Some uv ->
  NetInSess.sc_apt cfg = Z.of_N apt -> NetInSess.sc_vpt cfg = Z.of_N vpt ->
  apt <> vpt -> NetInSess.sc_artp cfg = 0 -> NetInSess.sc_vrtp cfg = 2 -> apt < 128 -> vpt < 128 ->
  assrc < 4294967296 -> vssrc < 4294967296 ->
  NetUnpack.uk_pt uv = (if hevc then pt_hevc else pt_avc) -> is_video_pt (NetUnpack.uk_pt ua) = false ->
  rs_vfmt r = vfmt_avcc -> crel (tf_of (NetUnpack.uk_kind ua)) (NetInSess.ss_acont s) ca -> crel (tf_of (NetUnpack.uk_kind uv)) (NetInSess.ss_vcont s) cv ->
  Forall (fun x => arr_ok (snd x)) pkts ->
  rtsp_run true rot cfg s (Some aq_init) r (map (enc apt vpt assrc vssrc VA VV) pkts) = Ok groups ->
  RtpReorder.feed_all (pr_of (NetUnpack.uk_kind uv)) (Z.to_N (NetUnpack.uk_clock uv)) NetInSess.unpacker_max_size cv (sel true pkts)
    = Ok (sv, map (fun tn => (tsf tn, RtpUnpacker.avcc (snd tn))) nals) ->
  Forall (fun tn => avcc_ok (snd tn)) nals ->
  exists k, (k <= length nals)%nat /\ (length nals - k < 128)%nat /\
            read_video_nals (av_msgs (concat groups)) = filter (keep_nal hevc) (map snd (firstn k nals)).
Proof. exact two_tracks_video_nals. Qed.
Print Assumptions c07_rtsp_two_tracks.

(* HEVC filler data / end of sequence / reserved types: the pinned tree gave such a
   packet no position (it then blocked the queue until 1024 packets had piled up) *)
Theorem c07_hevc_single_types_pinned_refuted :
  RtpUnpacker.hevc_type_known_pinned 38 = false /\ RtpUnpacker.hevc_type_known 38 = true /\
  RtpUnpacker.calc_position_hevc [76; 1; 255] = Ok RtpUnpacker.pos_single /\
  (forall t, t < 48 -> RtpUnpacker.hevc_type_known t = true).
Proof. repeat split. intros t H. unfold RtpUnpacker.hevc_type_known. apply N.ltb_lt. exact H. Qed.
Print Assumptions c07_hevc_single_types_pinned_refuted.

(* ======================================================================== *)
(* (5) GB28181.  The C13 and C19 models of IterateNaluStartCode are one function;
   an access unit in Annex-B form with 4-byte start codes (what GB28181 devices
   send) is split by iterateNaluByStartCode into its NAL units, each once, in
   order, start code included, stamped dts/90, pts/90 - after the "wait for
   parameter sets" gate (units before the first SPS/PPS (VPS) are dropped).
   This is what flush_all in c07_ps_frames below does with every reassembled
   frame; the remuxer behind it is (3) with Annex-B / ADTS framing. *)
Theorem c07_ps_start_code_models_agree : forall nalu start,
  NetPs.iterate_nalu_start_code nalu start = CodecNalFraming.iterate_nalu_start_code nalu start.
Proof. exact RemuxPsIngestProofs.iterate_nalu_start_code_agree. Qed.
Print Assumptions c07_ps_start_code_models_agree.

Theorem c07_ps_frame_nals : forall vpt pts dts wait nals, ((vpt =? 96) || (vpt =? 98))%Z = true ->
  nals <> [] -> Forall nal_wf nals ->
  NetPs.iterate_nalu_by_start_code true (RemuxPsIngestProofs.join4 nals) vpt pts dts wait =
  Ok (fst (RemuxPsIngestProofs.gate vpt wait nals),
      map (RemuxPsIngestProofs.ev_of vpt pts dts) (snd (RemuxPsIngestProofs.gate vpt wait nals))).
Proof. exact RemuxPsIngestProofs.iterate_nalu_by_start_code_spec. Qed.
Print Assumptions c07_ps_frame_nals.

(* reassembly: the buffer holds any number of whole video PES packets written
   by the reference writer (PTS on some of them: first of each frame, all, ...;
   a packet without PTS continues the running frame).  FeedRtpBody's loop
   consumes them all; every frame whose successor has started is handed to
   iterateNaluByStartCode exactly once, in order, stamped with its own PTS; the
   last frame stays buffered (lal flushes a frame only when the next one
   starts - also at the end of a stream).
   c07_ps_stream below generalises this to whole streams (headers, program stream
   map, audio, arbitrary RTP cuts).  Not covered by a theorem: streams without any
   PTS (rtp-timestamp mode) and the reorder list in front of FeedRtpBody - modelled
   in Net/NetPs.v and compared on the python muxer's packings (c07.ps, c07.e2e_ps). *)
Theorem c07_ps_frames : forall vpt l st rtpts acc fuel cur,
  Forall RemuxPsPesProofs.pes_ok l -> RemuxPsPesProofs.none_ok (fst cur) l ->
  NetPs.ps_vpt st = vpt -> NetPs.ps_pre_vpts st = fst cur -> NetPs.ps_vbuf st = snd cur ->
  NetPs.ps_buf st = RemuxPsPesProofs.pes_bytes l -> (length l < fuel)%nat ->
  forall w evs, RemuxPsPesProofs.flush_all vpt (NetPs.ps_wait_sps st) (fst (RemuxPsPesProofs.regroup cur l)) = Ok (w, evs) ->
  exists st', NetPs.feed_body_loop true fuel st rtpts acc = Ok (false, st', acc ++ evs) /\
              NetPs.ps_buf st' = [] /\ NetPs.ps_vpt st' = vpt /\
              NetPs.ps_pre_vpts st' = fst (snd (RemuxPsPesProofs.regroup cur l)) /\
              NetPs.ps_vbuf st' = snd (snd (RemuxPsPesProofs.regroup cur l)) /\ NetPs.ps_wait_sps st' = w.
Proof. exact RemuxPsPesProofs.video_pes_run. Qed.
Print Assumptions c07_ps_frames.

(* THE WHOLE PROGRAM STREAM, cut anywhere.  A stream is a list of elements of a
   reference muxer (RemuxPsStreamProofs.elem: pack header with 0..7 stuffing bytes,
   system header and the other length-prefixed packets lal skips, program stream
   map with any elementary stream entries, video / audio PES packets with or
   without PTS, program end code).  Its bytes reach FeedRtpBody cut into RTP bodies
   at ARBITRARY positions (inside start codes, length fields, headers, stuffing,
   payloads), each body with its own rtp timestamp.  Provided the element-by-element
   semantics [arun] succeeds (every frame's iterateNaluByStartCode returns, and a
   PES packet without PTS only continues a frame that has one), the unpacker ends
   with an empty buffer in the state [arun] computes and has called back with
   exactly the events [arun] lists - the same for every way of cutting.  With
   c07_ps_frame_nals for what each video frame yields and (3) for the remuxer this is
   the GB28181 path from the wire to the RTMP messages; the last frame of each track
   stays buffered (known finding C07-KF-PS-LAST-FRAME). *)
Theorem c07_ps_stream : forall chunks els st k' evs,
  Forall RemuxPsStreamProofs.elem_ok els -> RemuxPsStreamProofs.proper_prefix (NetPs.ps_buf st) els ->
  NetPs.ps_buf st ++ concat (map fst chunks) = concat (map RemuxPsStreamProofs.ebytes els) ->
  RemuxPsStreamProofs.arun (RemuxPsStreamProofs.core_of st) els = Ok (k', evs) ->
  exists st', RemuxPsStreamProofs.feed_chunks st chunks = Ok (st', evs) /\ NetPs.ps_buf st' = [] /\
              RemuxPsStreamProofs.core_of st' = k' /\ RemuxPsStreamProofs.same_queue st st'.
Proof. exact RemuxPsStreamProofs.chunked_stream. Qed.
Print Assumptions c07_ps_stream.

(* KNOWN FINDING C07-KF-PS-LAST-FRAME (open): a frame is handed out only when a PES packet with another
   PTS arrives.  A stream that ends (program end code included) after its last frame leaves that frame in
   the unpacker: here one video frame was muxed, none was delivered, the frame sits in the buffer. *)
Theorem c07_ps_last_frame_refuted :
  let frame := [0; 0; 0; 1; 103; 66; 0; 30; 0; 0; 0; 1; 104; 206; 0; 0; 0; 1; 101; 136; 128] in
  let els := [RemuxPsStreamProofs.EPsm 224 255 [] [(27, 224, [])] [69; 189; 220; 244];
              RemuxPsStreamProofs.EPes true (Some 9000) frame; RemuxPsStreamProofs.EEnd] in
  exists k', RemuxPsStreamProofs.arun (RemuxPsStreamProofs.core_of NetPs.ps_init) els = Ok (k', []) /\
             RemuxPsStreamProofs.k_vbuf k' = frame.
Proof. eexists. vm_compute. split; reflexivity. Qed.
Print Assumptions c07_ps_last_frame_refuted.

(* B frames: PES packets with PTS and DTS, the stream in decoding order I P B B P, so the PTS goes DOWN from the
   P frame (19800) to the B frame behind it (12600).  A frame ends where the PTS changes - not where it grows -,
   and every NAL unit is stamped with the PTS of its own frame (100, 220, 140, 180 ms); the last frame stays
   buffered.  The bytes are cut in the middle of the first PES packet. *)
Definition ex_ps_bframes : bytes :=
  [0; 0; 1; 186; 68; 0; 4; 0; 4; 1; 1; 137; 195; 248; 0; 0; 1; 187; 0; 12; 128; 4; 225; 4; 225; 127; 224; 224; 128; 192; 192; 8;
   0; 0; 1; 188; 0; 14; 224; 255; 0; 0; 0; 4; 27; 224; 0; 0; 69; 189; 220; 244;
   0; 0; 1; 224; 0; 34; 140; 192; 10; 49; 0; 1; 70; 81; 17; 0; 1; 42; 49; 0; 0; 0; 1; 103; 66; 0; 30; 0; 0; 0; 1; 104; 206; 0; 0; 0; 1; 101; 136; 128;
   0; 0; 1; 224; 0; 20; 140; 192; 10; 49; 0; 1; 154; 177; 17; 0; 1; 70; 81; 0; 0; 0; 1; 65; 154; 2;
   0; 0; 1; 224; 0; 15; 140; 128; 5; 33; 0; 1; 98; 113; 0; 0; 0; 1; 1; 158; 4;
   0; 0; 1; 224; 0; 15; 140; 128; 5; 33; 0; 1; 126; 145; 0; 0; 0; 1; 1; 158; 6;
   0; 0; 1; 224; 0; 20; 140; 192; 10; 49; 0; 1; 239; 17; 17; 0; 1; 154; 177; 0; 0; 0; 1; 65; 154; 8].
Example c07_ps_bframe_order :
  exists st', RemuxPsStreamProofs.feed_chunks NetPs.ps_init [(firstn 70 ex_ps_bframes, 5400); (skipn 70 ex_ps_bframes, 9000)]
    = Ok (st', [NetPs.mk_psev 96 100 100 [0; 0; 0; 1; 103; 66; 0; 30]; NetPs.mk_psev 96 100 100 [0; 0; 0; 1; 104; 206];
                NetPs.mk_psev 96 100 100 [0; 0; 0; 1; 101; 136; 128];
                NetPs.mk_psev 96 220 220 [0; 0; 0; 1; 65; 154; 2];
                NetPs.mk_psev 96 140 140 [0; 0; 0; 1; 1; 158; 4];
                NetPs.mk_psev 96 180 180 [0; 0; 0; 1; 1; 158; 6]]) /\
    NetPs.ps_vbuf st' = [0; 0; 0; 1; 65; 154; 8].
Proof. eexists. vm_compute. split; reflexivity. Qed.

(* the two facts it rests on: a complete element at the head of the buffer is consumed in one
   iteration with the effect [astep] describes, whatever follows it; a proper prefix of an element
   makes FeedRtpBody wait without touching anything (this is what the pack-header fix 446939e restored) *)
Theorem c07_ps_element_step : forall e st rest rtpts acc f k' evs,
  RemuxPsStreamProofs.elem_ok e -> NetPs.ps_buf st = RemuxPsStreamProofs.ebytes e ++ rest ->
  RemuxPsStreamProofs.astep (RemuxPsStreamProofs.core_of st) e = Ok (k', evs) ->
  RemuxPsStreamProofs.stepped f st rtpts acc rest k' evs.
Proof. exact RemuxPsStreamProofs.step_elem. Qed.
Print Assumptions c07_ps_element_step.

Theorem c07_ps_prefix_waits : forall e st P Q rtpts acc f,
  RemuxPsStreamProofs.elem_ok e -> P ++ Q = RemuxPsStreamProofs.ebytes e -> Q <> [] -> NetPs.ps_buf st = P ->
  NetPs.feed_body_loop true (S f) st rtpts acc = Ok (false, st, acc).
Proof. exact RemuxPsStreamProofs.prefix_waits. Qed.
Print Assumptions c07_ps_prefix_waits.

(* ======================================================================== *)
(* (6) customize pub API: the same remuxer, nothing in between; after Dispose
   (or removal from the group) nothing is forwarded any more *)
Theorem c07_customize : forall c o,
  (cs_disposed c = false ->
   customize_step true c o =
   match o with
   | COption v a => Ok (mk_cs false (rs_with_option (cs_r c) v a), [], false)
   | CAsc asc => let* (r, ms) := init_with_av_config (cs_r c) asc None None None in Ok (mk_cs false r, ms, false)
   | CPacket p => let* (r, ms) := feed_av_packet true (cs_r c) p in Ok (mk_cs false r, ms, false)
   | CRtmp m => Ok (c, [m], false)
   | CDispose => Ok (mk_cs true (cs_r c), [], false)
   end) /\
  (cs_disposed c = true ->
   match o with
   | COption _ _ | CDispose => True
   | _ => customize_step true c o = Ok (c, [], true)
   end).
Proof. intros c o. split; [apply customize_is_remuxer|apply customize_disposed]. Qed.
Print Assumptions c07_customize.

(* ======================================================================== *)
(* non-vacuity *)
Definition ex_sps : bytes := [103; 66; 0; 30; 171; 64; 80; 30; 200].      (* 67 42 00 1e ab 40 50 1e c8 *)
Definition ex_pps : bytes := [104; 206; 56; 128].
Definition ex_idr : bytes := [101; 136; 128; 16].
Definition ex_aud : bytes := [9; 240].
Definition ex_frame : bytes := join_nalu_avcc [ex_aud; ex_sps; ex_pps; ex_idr].

(* an AVCC access unit AUD, SPS, PPS, IDR through a fresh remuxer: metadata,
   sequence header that parses back to (SPS, PPS), key frame message with the
   IDR slice only *)
Definition ex_hdr : bytes :=
  [23; 0; 0; 0; 0; 1; 66; 0; 30; 255; 225; 0; 9; 103; 66; 0; 30; 171; 64; 80; 30; 200; 1; 0; 4; 104; 206; 56; 128].
Example c07_nonvacuous :
  let st' := set_meta rs_new in let h := ex_hdr in
    feed_av_packet true rs_new (mk_av pt_avc 40 ex_frame)
      = Ok (st', [RMeta (-1) (-1); RAv false 40 h; RAv false 40 (23 :: 1 :: 0 :: 0 :: 0 :: join_nalu_avcc [ex_idr])]) /\
    avc_parse_seq_header h = Ok (ex_sps, ex_pps) /\
    framed_as rs_new ex_frame [ex_aud; ex_sps; ex_pps; ex_idr] /\
    frame_msg false 40 [ex_aud; ex_sps; ex_pps; ex_idr] = [RAv false 40 (23 :: 1 :: 0 :: 0 :: 0 :: join_nalu_avcc [ex_idr])].
Proof. vm_compute. split; [reflexivity|]. split; [reflexivity|]. split; reflexivity. Qed.

(* a program stream: pack header with 2 stuffing bytes, system header, program stream map (H.264 on e0,
   AAC on c0), a video frame (PTS 9000) in two PES packets - SPS, PPS, IDR slice -, an audio frame, the next
   video frame (PTS 12600), the next audio frame, end code; cut into bodies of 1, 16, 3, 40 and the remaining
   bytes: the first video frame comes out as three NAL units stamped 100 ms, the first audio frame 100 ms *)
Definition ex_ps_els : list RemuxPsStreamProofs.elem :=
  [RemuxPsStreamProofs.EPack [68; 0; 4; 0; 4; 1; 1; 137; 195] 31 [255; 255];
   RemuxPsStreamProofs.EOther 187 [128; 4; 225; 127];
   RemuxPsStreamProofs.EPsm 224 255 [] [(27, 224, []); (15, 192, [1; 2])] [69; 189; 220; 244];
   RemuxPsStreamProofs.EPes true (Some 9000) ([0; 0; 0; 1; 103; 66; 0; 30] ++ [0; 0; 0; 1; 104; 206]);
   RemuxPsStreamProofs.EPes true None [0; 0; 0; 1; 101; 136; 128];
   RemuxPsStreamProofs.EPes false (Some 9000) [255; 241; 80; 128; 1; 63; 252; 33; 16];
   RemuxPsStreamProofs.EPes true (Some 12600) [0; 0; 0; 1; 65; 154; 2];
   RemuxPsStreamProofs.EPes false (Some 11089) [255; 241; 80; 128; 1; 63; 252; 33; 17];
   RemuxPsStreamProofs.EEnd].
Definition ex_ps_bytes : bytes := concat (map RemuxPsStreamProofs.ebytes ex_ps_els).
Definition ex_ps_chunks : list (bytes * N) :=
  [(firstn 1 ex_ps_bytes, 9000); (firstn 16 (skipn 1 ex_ps_bytes), 9000); (firstn 3 (skipn 17 ex_ps_bytes), 9000);
   (firstn 40 (skipn 20 ex_ps_bytes), 9000); (skipn 60 ex_ps_bytes, 12600)].
Example c07_ps_stream_nonvacuous :
  forallb (fun e => match e with
                    | RemuxPsStreamProofs.EPack f _ s => (lenN f =? 9) && (lenN s <? 8)
                    | RemuxPsStreamProofs.EOther c b => RemuxPsStreamProofs.other_code c && (lenN b <? 65536)
                    | _ => true end) ex_ps_els = true /\
  concat (map fst ex_ps_chunks) = ex_ps_bytes /\
  (exists k', RemuxPsStreamProofs.arun (RemuxPsStreamProofs.core_of NetPs.ps_init) ex_ps_els
     = Ok (k', [NetPs.mk_psev 96 100 100 [0; 0; 0; 1; 103; 66; 0; 30]; NetPs.mk_psev 96 100 100 [0; 0; 0; 1; 104; 206];
                NetPs.mk_psev 96 100 100 [0; 0; 0; 1; 101; 136; 128]; NetPs.mk_psev 97 100 100 [255; 241; 80; 128; 1; 63; 252; 33; 16]])) /\
  (exists st', RemuxPsStreamProofs.feed_chunks NetPs.ps_init ex_ps_chunks
     = Ok (st', [NetPs.mk_psev 96 100 100 [0; 0; 0; 1; 103; 66; 0; 30]; NetPs.mk_psev 96 100 100 [0; 0; 0; 1; 104; 206];
                 NetPs.mk_psev 96 100 100 [0; 0; 0; 1; 101; 136; 128]; NetPs.mk_psev 97 100 100 [255; 241; 80; 128; 1; 63; 252; 33; 16]])).
Proof. split; [vm_compute; reflexivity|]. split; [vm_compute; reflexivity|]. split; eexists; vm_compute; reflexivity. Qed.

(* the interleave queue on A(1000) V(500) A(1020) V(540): audio 0, video 0, audio 20 out, video 40 still queued *)
Example c07_queue_nonvacuous :
  let l := [mk_av pt_aac 1000 [1]; mk_av pt_avc 500 [2]; mk_av pt_aac 1020 [3]; mk_av pt_avc 540 [4]] in
  stream_ok TNone TNone l /\
  concat (snd (aq_run true aq_init l)) = [mk_av pt_aac 0 [1]; mk_av pt_avc 0 [2]; mk_av pt_aac 20 [3]] /\
  q_v (fst (aq_run true aq_init l)) = [mk_av pt_avc 40 [4]].
Proof. vm_compute. split; [repeat split; discriminate|split; reflexivity]. Qed.
