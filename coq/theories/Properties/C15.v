(* C15 - a stalled consumer cannot delay others or corrupt its own framing.
   LOGICAL part only (the latency bound and the firing of the OS write
   deadline are runtime behaviour: measured by the harness, no theorem).
   Only property statements here; each is closed by [exact] or two lines. *)
From Lal Require Import Common.LBytes Flv.FlvTag Flv.FlvWs Flv.FlvProofs
  Queue.QueueSubseq Queue.QueueWrite Queue.QueueWriteProofs Queue.QueueRtspSweepProofs Queue.QueueInboundProofs.
Open Scope N_scope.

(* --- nobody waits -------------------------------------------------------- *)

(* One fan-out step with the behaviour lal's server sessions use
   (WriteChanFullBehaviorReturnError) always completes, whatever the queue
   occupancy / closed state of every consumer: the publisher is never parked. *)
Theorem c15_never_waits : forall bufs st,
  fanout_b BehError bufs st = Some (map (fun s => s_conn (fst (sess_write false bufs s))) st).
Proof. exact fanout_never_waits. Qed.
Print Assumptions c15_never_waits.

(* Non-interference: take ANY two schedules that differ only in what consumer
   i does (when its writer dequeues, when it reads, whether its writes fail,
   when it is disposed), arbitrarily interleaved with the same publishes,
   sweeps and events of the other consumers.  Every other consumer j ends in
   the same state (queue, bytes received, closed flag) and the publisher got
   the same results from its writes to j. *)
Theorem c15_nonblocking : forall i evs evs' st j s,
  filter (fun ev => negb (about i ev)) evs = filter (fun ev => negb (about i ev)) evs' ->
  nth_error st j = Some s -> s_id s <> i ->
  nth_error (fst (run evs st)) j = nth_error (fst (run evs' st)) j /\
  pub_codes j evs st = pub_codes j evs' st.
Proof. exact noninterference. Qed.
Print Assumptions c15_nonblocking.

(* --- whole units ---------------------------------------------------------- *)

(* For EVERY schedule of publishes, writer dequeues, reads, write failures
   after any number of bytes, disposals and sweeps, from fresh connections of
   any capacities: what consumer j has received is a concatenation of whole
   connection-write units, in the order they were offered, followed by at
   most the progress of ONE unit (the one being written, or the one cut by
   the write failure / disposal that closed the connection); with no write in
   progress and the connection open there is no such tail. *)
Theorem c15_whole_units : forall specs evs j k cap s,
  nth_error specs j = Some (k, cap) ->
  nth_error (fst (run evs (init_state specs))) j = Some s ->
  exists del tail,
    c_wire (s_conn s) = concat (map ubytes del) ++ tail /\
    subseq del (offered k evs) /\
    (tail = [] \/ exists u, In u (offered k evs) /\ prefix_of tail (ubytes u)) /\
    (c_hand (s_conn s) = None -> c_closed (s_conn s) = false -> tail = []).
Proof.
  intros specs evs j k cap s Hk Hs. rewrite (run_session specs evs j k cap Hk) in Hs.
  inversion Hs; subst. apply whole_units.
Qed.
Print Assumptions c15_whole_units.

(* HTTP-FLV: the received stream is read by the FLV-specification tag parser,
   tag after tag, as a sub-sequence of the published tags. *)
Theorem c15_framing_flv : forall specs evs j cap s,
  nth_error specs j = Some (KFlv, cap) ->
  nth_error (fst (run evs (init_state specs))) j = Some s ->
  (forall b, In b (pub_payloads evs) -> exists t, spec_tag_wf t /\ b = pack_spec_tag t) ->
  exists tags tail,
    c_wire (s_conn s) = concat (map pack_spec_tag tags) ++ tail /\
    Forall spec_tag_wf tags /\
    subseq (map pack_spec_tag tags) (pub_payloads evs) /\
    parses flv_parse1 (concat (map pack_spec_tag tags)) tags /\
    tail_ok KFlv evs s tail.
Proof.
  intros specs evs j cap s Hk Hs Hp. rewrite (run_session specs evs j KFlv cap Hk) in Hs.
  inversion Hs; subst. apply flv_stream. exact Hp.
Qed.
Print Assumptions c15_framing_flv.

(* HTTP-TS: the received stream is a sequence of 188-byte packets that start
   with 0x47, made of whole published frames. *)
Theorem c15_framing_ts : forall specs evs j cap s,
  nth_error specs j = Some (KTs, cap) ->
  nth_error (fst (run evs (init_state specs))) j = Some s ->
  (forall b, In b (pub_payloads evs) -> exists pkts, Forall ts_pkt pkts /\ b = concat pkts) ->
  exists whole tail frames,
    c_wire (s_conn s) = concat whole ++ tail /\
    subseq whole (pub_payloads evs) /\
    parses ts_parse1 (concat whole) frames /\
    tail_ok KTs evs s tail.
Proof.
  intros specs evs j cap s Hk Hs Hp. rewrite (run_session specs evs j KTs cap Hk) in Hs.
  inversion Hs; subst. apply ts_stream. exact Hp.
Qed.
Print Assumptions c15_framing_ts.

(* RTSP interleaved, for EVERY set-up state [su] of the player (each track with
   or without an interleaved channel, with or without UDP sockets): '$'-framed
   packets, each a published RTP packet of a track that HAS an interleaved
   channel, on the channel of that track. *)
Theorem c15_framing_rtp : forall specs evs j su cap s,
  nth_error specs j = Some (KRtp su, cap) ->
  nth_error (fst (run evs (init_state specs))) j = Some s ->
  no_replies (KRtp su) evs ->     (* any inbound traffic but OPTIONS, whose reply is RTSP text between the frames
                                     (a whole unit by c15_whole_units; read by the python oracle's mixed parser) *)
  (forall b, In b (pub_payloads evs) -> lenN b < 65536) ->
  exists pkts tail,
    c_wire (s_conn s) = concat (map (fun x => pack_interleaved (fst x) (snd x)) pkts) ++ tail /\
    Forall (fun x => (fst x = 0 /\ su_vtcp su = true \/ fst x = 2 /\ su_atcp su = true) /\
                     In (snd x) (pub_payloads evs)) pkts /\
    parses rtp_parse1 (concat (map (fun x => pack_interleaved (fst x) (snd x)) pkts)) pkts /\
    tail_ok (KRtp su) evs s tail.
Proof.
  intros specs evs j su cap s Hk Hs Hn Hp. rewrite (run_session specs evs j (KRtp su) cap Hk) in Hs.
  inversion Hs; subst. apply rtp_stream; assumption.
Qed.
Print Assumptions c15_framing_rtp.

(* ... and WITH OPTIONS keep-alives: the stream is '$' frames and the replies;
   the RFC 2326 section 10.12 reader ([rtsp_parse1]: '$' -> binary frame, 'R' ->
   header block up to the first empty line) reads all of its whole-unit part,
   provided every reply text is a header block ([resp_ok]; lal's is). *)
Theorem c15_framing_rtp_keepalive : forall specs evs j su cap s,
  nth_error specs j = Some (KRtp su, cap) ->
  nth_error (fst (run evs (init_state specs))) j = Some s ->
  (forall b, In b (pub_payloads evs) -> lenN b < 65536) ->
  (forall i size resp, In (EvIn i size (InOptions resp)) evs -> resp_ok resp) ->
  exists whole tail frames,
    c_wire (s_conn s) = concat whole ++ tail /\
    subseq whole (map ubytes (offered (KRtp su) evs)) /\
    parses rtsp_parse1 (concat whole) frames /\
    tail_ok (KRtp su) evs s tail.
Proof.
  intros specs evs j su cap s Hk Hs Hp Hr. rewrite (run_session specs evs j (KRtp su) cap Hk) in Hs.
  inversion Hs; subst. apply rtp_stream_mixed; assumption.
Qed.
Print Assumptions c15_framing_rtp_keepalive.

(* RTMP, Write and Writev: any message-stream reader that reads each published
   unit (the chunks of whole messages) as a self-contained piece reads the
   whole received stream. *)
Theorem c15_framing_rtmp : forall (F : Type) (p1 : bytes -> option (F * bytes)) specs evs j k cap s,
  k = KRtmp \/ k = KRtmpV ->
  nth_error specs j = Some (k, cap) ->
  nth_error (fst (run evs (init_state specs))) j = Some s ->
  (forall b, In b (pub_payloads evs) -> exists fs, unit_law p1 b fs) ->
  (forall ts, exists fs, unit_law p1 (rtmp_pong ts) fs) ->   (* the reader also reads a ping response: the read loop's
                                                               replies to the player's pings share the queue *)
  exists whole tail frames,
    c_wire (s_conn s) = concat whole ++ tail /\
    subseq whole (map ubytes (offered k evs)) /\
    (forall u, In u (offered k evs) ->
       (exists b, In b (pub_payloads evs) /\ ubytes u = b) \/ (exists ts, ubytes u = rtmp_pong ts)) /\
    parses p1 (concat whole) frames /\
    tail_ok k evs s tail.
Proof.
  intros F p1 specs evs j k cap s Hkk Hk Hs Hp Hpong. rewrite (run_session specs evs j k cap Hk) in Hs.
  inversion Hs; subst.
  destruct (rtmp_stream p1 evs j k cap Hkk Hp Hpong) as [whole [tail [frames [H1 [H2 [H3 H4]]]]]].
  exists whole, tail, frames. split; [exact H1|split; [exact H2|split; [|split; [exact H3|exact H4]]]].
  intros u Hu. apply (in_offered_rtmp k evs u Hkk Hu).
Qed.
Print Assumptions c15_framing_rtmp.

(* WebSocket (FLV, TS, interleaved RTP), after the repair of F-25: the
   received stream is a sequence of complete FIN/binary/unmasked RFC 6455
   frames, each carrying one published unit. *)
Theorem c15_framing_ws : forall specs evs j k cap s,
  k = KWsFlv \/ k = KWsTs \/ (exists su, k = KWsRtp su) ->
  nth_error specs j = Some (k, cap) ->
  nth_error (fst (run evs (init_state specs))) j = Some s ->
  (forall b, In b (pub_payloads evs) -> lenN b < (if is_rtp k then 65536 else 9223372036854775808)) ->
  (forall i size resp, In (EvIn i size (InOptions resp)) evs -> lenN resp < 9223372036854775808) ->
  exists payloads tail,
    c_wire (s_conn s) = concat (map ws_write payloads) ++ tail /\
    subseq (map ws_write payloads) (map ubytes (offered k evs)) /\
    parses ws_parse1 (concat (map ws_write payloads)) payloads /\
    tail_ok k evs s tail.
Proof.
  intros specs evs j k cap s Hkk Hk Hs Hp Hr. rewrite (run_session specs evs j k cap Hk) in Hs.
  inversion Hs; subst. apply ws_stream.
  destruct Hkk as [-> | [-> | [su ->]]]; cbn [is_rtp] in Hp;
    [apply ws_units_flv_ts; auto|apply ws_units_flv_ts; auto|apply ws_units_rtp; assumption].
Qed.
Print Assumptions c15_framing_ws.

(* The property was FALSE of the code as it stood (DESIGN F-25): with header
   and payload as two queue units, a queue of capacity 2 whose consumer stalls
   receives, after it resumes, [82 02 01 02 82 02]: a second frame header that
   announces two bytes which were dropped.  No RFC 6455 parser reads that. *)
Theorem c15_whole_units_ws_split_refuted :
  c_wire f25_conn = [130; 2; 1; 2; 130; 2] /\
  ws_parse_all 10 (c_wire f25_conn) = None /\
  parse_all ws_parse1 10 (c_wire f25_conn) = None.
Proof. exact ws_split_refuted. Qed.
Print Assumptions c15_whole_units_ws_split_refuted.

(* and "never waits" is a property of the ReturnError behaviour only *)
Theorem c15_block_would_wait :
  exists bufs st, fanout_b BehBlock bufs st = None /\ fanout_b BehError bufs st <> None.
Proof. exact block_would_wait. Qed.
Print Assumptions c15_block_would_wait.

(* --- liveness sweep -------------------------------------------------------- *)

(* decision: byte counter unchanged since the previous sweep -> disposed;
   changed -> untouched; the first sweep only records the counter *)
Theorem c15_sweep : forall s,
  (forall w0, s_stale s = Some w0 -> sess_wrote s = w0 -> c_closed (s_conn (sweep_one s)) = true) /\
  (forall w0, s_stale s = Some w0 -> sess_wrote s <> w0 -> s_conn (sweep_one s) = s_conn s) /\
  (s_stale s = None -> s_conn (sweep_one s) = s_conn s) /\
  s_stale (sweep_one s) = Some (sess_wrote s).
Proof.
  intros s. repeat split; [apply sweep_dispose|apply sweep_keep|apply sweep_first|apply sweep_stale].
Qed.
Print Assumptions c15_sweep.

(* a consumer (RTMP / HTTP-FLV / HTTP-TS, plain or WebSocket) that completes
   no write between two sweeps is closed after the second one, whatever is
   published to it and whatever the other consumers do meanwhile *)
Theorem c15_sweep_stalled : forall evs s,
  is_rtp (s_kind s) = false -> Forall (quiet (s_id s)) evs ->
  c_closed (s_conn (sweep_one (srun evs (sweep_one s)))) = true.
Proof. exact sweep_stalled. Qed.
Print Assumptions c15_sweep_stalled.

(* one completed non-empty write after a sweep keeps the consumer at the next *)
Theorem c15_sweep_progress : forall evs s u k,
  is_rtp (s_kind s) = false ->
  s_stale s = Some (c_wrote (s_conn s)) ->
  c_hand (s_conn s) = Some (u, k) -> S k = length u -> concat u <> [] ->
  Forall not_sweep evs ->
  let s1 := srun evs (on_conn wdone (s_id s) s) in
  s_conn (sweep_one s1) = s_conn s1.
Proof. exact sweep_progress. Qed.
Print Assumptions c15_sweep_progress.

(* --- liveness sweep, rtsp subscribers ------------------------------------- *)
(* The sweep looks at the session's own counter (BaseOutSession.sessionStat),
   increased by WriteRtpPacket.  Stated for EVERY set-up state of the player. *)

(* A subscriber, plain or WebSocket, whose tracks - both, one of the two, or
   none - are interleaved on the command connection (no UDP socket) and that
   does not read: once its queue is full at a sweep ([jammed]: the writer is
   parked in conn.Write holding a message and the queue is at capacity, or the
   connection is closed), the next sweep closes it, whatever is published in
   between (packets of the tracks it set up AND of the track it did not) and
   whatever the other consumers do. *)
Theorem c15_sweep_rtsp_stalled : forall evs s,
  is_rtp (s_kind s) = true -> su_no_udp (kind_setup (s_kind s)) = true ->
  jammed (s_conn s) -> Forall (quiet (s_id s)) evs ->
  c_closed (s_conn (sweep_one (srun evs (sweep_one s)))) = true.
Proof. exact sweep_stalled_rtp. Qed.
Print Assumptions c15_sweep_rtsp_stalled.

(* Every set-up state (UDP sockets included), every state of the queue, and
   whatever the consumer itself does (reads, write failures): packets that are
   handed to none of its connections - a track without transport, a payload
   type outside the SDP - do not keep it alive. *)
Theorem c15_sweep_rtsp_unrouted : forall evs s,
  is_rtp (s_kind s) = true -> Forall (idle_ev (kind_setup (s_kind s))) evs ->
  c_closed (s_conn (sweep_one (srun evs (sweep_one s)))) = true.
Proof. exact sweep_idle_rtp. Qed.
Print Assumptions c15_sweep_rtsp_unrouted.

(* ... and a packet that IS handed over (interleaved: open connection and room
   in the queue; UDP socket: open) after a sweep keeps it at the next one *)
Theorem c15_sweep_rtsp_progress : forall evs s eager bufs t,
  is_rtp (s_kind s) = true -> s_stale s = Some (s_acc s) ->
  rtp_track (concat bufs) = Some t -> concat bufs <> [] ->
  rtp_handed (kind_setup (s_kind s)) t = true -> c_closed (s_conn s) = false ->
  (su_tcp (kind_setup (s_kind s)) t = true -> (length (c_chan (s_conn s)) < c_cap (s_conn s))%nat) ->
  Forall not_sweep evs ->
  let s1 := srun evs (fst (sess_write eager bufs s)) in
  s_conn (sweep_one s1) = s_conn s1.
Proof. exact sweep_progress_rtp. Qed.
Print Assumptions c15_sweep_rtsp_progress.

(* The property was FALSE of the code as it stood (F-34): WriteRtpPacket counted
   a packet as written when its track was never SETUP (no write made, err
   nil).  Player with the video track interleaved only, queue capacity 1, two
   video packets then it stops reading, one sweep [f34_start]; then per sweep
   interval a video packet (rejected: queue full) and an audio packet (goes
   nowhere).  It satisfies the hypotheses of c15_sweep_rtsp_stalled, yet with
   the accounting of the pinned tree it is still connected after ANY number of
   sweeps; with the repaired accounting the next sweep closes it. *)
Theorem c15_sweep_rtsp_pinned_refuted :
  is_rtp (s_kind f34_start) = true /\ su_no_udp (kind_setup (s_kind f34_start)) = true /\
  jammed (s_conn f34_start) /\
  (forall n, c_closed (s_conn (f34_rounds sess_write_pinned n f34_start)) = false) /\
  c_closed (s_conn (f34_rounds sess_write 1 f34_start)) = true.
Proof. exact sweep_rtp_pinned_refuted. Qed.
Print Assumptions c15_sweep_rtsp_pinned_refuted.

(* --- inbound traffic ------------------------------------------------------------ *)
(* What the PLAYER sends while it is a subscriber ([EvIn]): RTCP receiver reports
   / RTP / anything on the interleaved connection, datagrams to lal's sockets,
   RTSP keep-alives (OPTIONS: answered through the queue; GET_PARAMETER and other
   unknown requests: ignored), RTMP acks and pings (ping: answered through the
   queue), bytes on an HTTP / WebSocket subscription (its one-Read RunLoop ends).
   [quiet] and [idle_ev] admit every such event, so c15_sweep_stalled,
   c15_sweep_rtsp_stalled and c15_sweep_rtsp_unrouted above already quantify
   over all inbound schedules; c15_nonblocking counts them as the sender's own
   events.  Stated here on their own: *)

(* any input, any kind, any set-up state, any state of the queue: the session's
   write counter and the recorded stale value are untouched; the counter the
   sweep compares is unchanged or the session is closed (read loop ended) *)
Theorem c15_inbound_no_write_progress : forall size x s,
  s_acc (in_local size x s) = s_acc s /\ s_stale (in_local size x s) = s_stale s /\
  (c_closed (s_conn (in_local size x s)) = true \/ sess_wrote (in_local size x s) = sess_wrote s).
Proof. exact in_local_no_progress. Qed.
Print Assumptions c15_inbound_no_write_progress.

(* input that is neither answered nor ends the read loop - interleaved RTCP /
   RTP, datagrams, GET_PARAMETER, RTMP acks - changes the connection's READ
   counter and nothing else *)
Theorem c15_inbound_read_counter_only : forall size x s,
  in_reply (s_kind s) x = None -> in_ends (s_kind s) = false ->
  in_local size x s = s \/ in_local size x s = add_crd size s.
Proof. exact in_local_pure. Qed.
Print Assumptions c15_inbound_read_counter_only.

(* liveness of an out-session is decided by write progress only: a consumer to
   which nothing is written between two sweeps (byte-counter kinds: no completed
   write; rtsp interleaved in any set-up state: queue jammed) is closed by the
   second sweep for EVERY schedule of inbound traffic in between *)
Theorem c15_inbound_never_keeps_alive : forall evs s,
  Forall (quiet (s_id s)) evs ->
  is_rtp (s_kind s) = false \/
  (is_rtp (s_kind s) = true /\ su_no_udp (kind_setup (s_kind s)) = true /\ jammed (s_conn s)) ->
  c_closed (s_conn (sweep_one (srun evs (sweep_one s)))) = true.
Proof. exact inbound_never_keeps_alive. Qed.
Print Assumptions c15_inbound_never_keeps_alive.

(* the hypotheses admit inbound events of every kind, from anybody *)
Theorem c15_inbound_is_quiet : forall id su i size x, quiet id (EvIn i size x) /\ idle_ev su (EvIn i size x).
Proof. intros. split; [apply quiet_in|apply idle_in]. Qed.
Print Assumptions c15_inbound_is_quiet.

(* The property was FALSE of the code as it stood (F-35): a reply of an rtsp-over-
   WebSocket session (to the OPTIONS keep-alive of a playing subscriber, among
   others) was a header write and a text write; a media frame of the forwarding
   goroutine between the two breaks the player's frame stream - reproduced on Go
   with a reading player within a few hundred frames. *)
Theorem c15_ws_reply_split_refuted :
  parse_all ws_parse1 20
    (f35_wire [[make_ws_frame_header true false false false 2 (lenN f35_resp) false 0]; [f35_media]; [f35_resp]]) = None /\
  parse_all ws_parse1 20 (f35_wire [[f35_media]; [ws_write f35_resp]]) = Some [pack_interleaved 0 [128; 96]; f35_resp] /\
  parse_all ws_parse1 20 (f35_wire [[ws_write f35_resp]; [f35_media]]) = Some [f35_resp; pack_interleaved 0 [128; 96]].
Proof. exact ws_reply_split_refuted. Qed.
Print Assumptions c15_ws_reply_split_refuted.

(* --- no retry --------------------------------------------------------------- *)
(* A session-level write of any kind, in any state of its queue (room, full,
   closed), calls connection.Write/Writev at most once - exactly once per unit:
   a rejected write is dropped, never retried or waited for. *)
Theorem c15_one_attempt : forall eager bufs s,
  s_att (fst (sess_write eager bufs s)) <= s_att s + 1 /\
  (forall us, sess_units (s_kind s) bufs = Some us -> s_att (fst (sess_write eager bufs s)) = s_att s + lenN us).
Proof. exact one_attempt. Qed.
Print Assumptions c15_one_attempt.

(* --- non-vacuity ----------------------------------------------------------- *)
(* two HTTP-FLV consumers with queue capacity 1; consumer 0 stalls, consumer 1
   reads.  Three well-formed tags are published.  Consumer 1 gets all three,
   consumer 0 (after it resumes) the first two, both parse; the hypotheses of
   c15_framing_flv hold for this schedule. *)
Definition c15_ex_tags : list spec_tag := [(9, 0, [23; 1; 0; 0; 0; 7]); (8, 40, [175; 1; 9]); (9, 80, [39; 1; 0; 0; 0])].
Definition c15_ex_evs : list event :=
  [EvPub true [pack_spec_tag (9, 0, [23; 1; 0; 0; 0; 7])]; EvDone 1; EvTake 1;
   EvPub true [pack_spec_tag (8, 40, [175; 1; 9])]; EvDone 1; EvTake 1;
   EvPub true [pack_spec_tag (9, 80, [39; 1; 0; 0; 0])]; EvDone 1; EvTake 1;
   EvDone 0; EvTake 0; EvDone 0; EvTake 0; EvDone 0].
Example c15_nonvacuous :
  Forall spec_tag_wf c15_ex_tags /\
  pub_payloads c15_ex_evs = map pack_spec_tag c15_ex_tags /\
  map (fun s => parse_all flv_parse1 100 (c_wire (s_conn s)))
      (fst (run c15_ex_evs (init_state [(KFlv, 1%nat); (KFlv, 1%nat)])))
  = [Some (firstn 2 c15_ex_tags); Some c15_ex_tags].
Proof.
  split; [|split; vm_compute; reflexivity].
  unfold c15_ex_tags. repeat constructor; vm_compute; reflexivity.
Qed.
