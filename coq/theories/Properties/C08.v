(* C08 - RTMP chunk stream encode/decode is exact for every size, timestamp and
   chunking.  Only property statements here; each is closed by [exact].

   Models:  Rtmp/RtmpChunk.v     calcHeader, message2Chunks, writeSingleChunkHeader   (lal writer)
            Rtmp/RtmpComposer.v  ChunkComposer.RunLoop, rtmp.Stream                   (lal reader)
            Rtmp/RtmpChunkSpec.v reference reader ref_decode and reference writer
                                 enc_run / legal_chunking, written from RTMP 1.0
                                 5.3.1, 5.4.1, 7.1.6 (independent of lal)
   The models follow the working tree, i.e. the code after the five C08 repairs;
   the behaviour of the pinned snapshot is kept as the *_pinned variants and is
   the subject of the ..._refuted theorems at the end. *)
From Lal Require Import Common.LBytes Common.Res Common.NAssoc
  Rtmp.RtmpChunk Rtmp.RtmpComposer Rtmp.RtmpChunkSpec Rtmp.RtmpChunkSpecProofs
  Rtmp.RtmpLegalProofs Rtmp.RtmpRoundtripProofs Rtmp.RtmpPinnedProofs
  Rtmp.RtmpMsgPackerBuf Rtmp.RtmpMsgPackerBufProofs Rtmp.RtmpMsgPacker Rtmp.RtmpMsgPackerProofs.
Open Scope N_scope.

(* (1) lal's reader on lal's writer, one message.
   For every chunk size >= 1, every header with 2 <= csid <= 65599, length
   < 2^24, timestamp < 2^32, every payload of that length and EVERY reader
   state in which that chunk stream is idle (other chunk streams may be in the
   middle of a message, the stream may remember any earlier header): RunLoop
   delivers exactly that message - same header (csid, length, type, stream id,
   absolute timestamp), same payload - ends with io.EOF, leaves the chunk
   stream idle with the header as its memory and touches nothing else.
   (Message types 1 = Set Chunk Size and 22 = aggregate are never sent through
   Message2Chunks; they are covered by (5).) *)
Theorem c08_write_read_lal : forall c h p st,
  0 < c -> hdr_ok h -> lenN p = h_len h -> bytes_ok p -> h_type h <> 1 -> h_type h <> 22 ->
  cs_chunk st = c -> idle_at st (h_csid h) ->
  exists bs raw,
    message2chunks c h None p = Ok bs /\
    run_composer st bs
    = (mk_cstate c (nset (h_csid h) (done_stream h) (cs_streams st)), [mk_rmsg h p raw], err_eof) /\
    idle_at (mk_cstate c (nset (h_csid h) (done_stream h) (cs_streams st))) (h_csid h).
Proof. exact write_read_lal. Qed.
Print Assumptions c08_write_read_lal.

(* (2) ... lifted to any sequence of messages (any mix of chunk streams,
   lengths, timestamps), from any state whose chunk streams are all idle:
   the same headers and payloads come back in order, all streams idle again. *)
Theorem c08_write_read_seq : forall c l st,
  0 < c -> Forall hp_ok l -> cs_chunk st = c -> all_idle st ->
  exists st' out,
    run_composer st (m2c_all (N.to_nat c) l) = (st', out, err_eof) /\
    map m_hdr out = map fst l /\ map m_payload out = map snd l /\ all_idle st' /\ cs_chunk st' = c.
Proof. exact write_read_seq. Qed.
Print Assumptions c08_write_read_seq.

(* (3) a specification-conforming reader on lal's writer: one message ... *)
Theorem c08_write_read_spec : forall c h p,
  0 < c < 4294967296 -> hdr_ok h -> lenN p = h_len h -> bytes_ok p -> h_type h <> 1 -> h_type h <> 22 ->
  exists bs, message2chunks c h None p = Ok bs /\ ref_decode c bs = Some [msg_of h p].
Proof. exact write_read_spec_one. Qed.
Print Assumptions c08_write_read_spec.

(* ... and any sequence *)
Theorem c08_write_read_spec_seq : forall c l,
  0 < c < 4294967296 -> Forall hp_ok l ->
  ref_decode c (m2c_all (N.to_nat c) l) = Some (msgs_of l).
Proof. exact write_read_spec. Qed.
Print Assumptions c08_write_read_spec_seq.

(* (4) what lal writes is a legal chunking in the sense of the reference writer *)
Theorem c08_writer_legal : forall c l,
  (0 < c)%nat -> Forall hp_ok l -> legal_chunking (N.of_nat c) (msgs_of l) (m2c_all c l).
Proof. exact writer_legal. Qed.
Print Assumptions c08_writer_legal.

(* (5) lal's reader reconstructs the messages of ANY legal chunking: all four
   header formats (deltas below 0xFFFFFF), 1/2/3-byte basic headers, extended
   absolute timestamps (repeated in type 3 chunks), chunk streams interleaved
   at chunk granularity, Set Chunk Size at any point of the stream (also
   between two chunks of a message on another chunk stream), aggregate
   messages (delivered as their sub-messages, 7.1.6).  [rview] forgets only
   lal's bookkeeping field; [rlen_ok] says MsgLen = len(payload). *)
Theorem c08_read_any_legal : forall chunk msgs cs,
  chunk < 4294967296 -> legal_chunking chunk msgs cs ->
  exists st' out,
    run_composer (init_cstate chunk) cs = (st', out, err_eof) /\
    map rview out = deliver_all msgs /\ Forall rlen_ok out.
Proof. exact lal_reads_legal. Qed.
Print Assumptions c08_read_any_legal.

(* the same step by step: the simulation invariant of DESIGN A.4 is kept by
   every chunk, so the statement also holds from every reachable reader state *)
Theorem c08_read_any_legal_from : forall script enc rd enc' bs msgs,
  estate_wf enc -> rinv enc rd -> enc_run enc script = Some (enc', bs, msgs) ->
  exists rd' out,
    run_composer rd bs = (rd', out, err_eof) /\ rinv enc' rd' /\
    map rview out = deliver_all msgs /\ Forall rlen_ok out.
Proof. exact run_composer_enc. Qed.
Print Assumptions c08_read_any_legal_from.

(* (6) the reference reader decodes every legal chunking: reference writer and
   reference reader agree with each other (the specification side is consistent) *)
Theorem c08_ref_reads_legal : forall chunk msgs cs,
  chunk < 4294967296 -> legal_chunking chunk msgs cs -> ref_decode chunk cs = Some (deliver_all msgs).
Proof. exact ref_decode_legal. Qed.
Print Assumptions c08_ref_reads_legal.

(* (7) aggregate messages, writer side of 7.1.6: an aggregate built from
   sub-messages is delivered as exactly those sub-messages, on the aggregate's
   message stream id whatever the sub headers say, timestamps shifted by
   (aggregate timestamp - first sub timestamp) *)
Theorem c08_aggregate_delivery : forall csid msid ts subs,
  Forall sub_ok subs ->
  spec_deliver (mk_smsg csid aggregate_type msid ts (agg_body subs))
  = Some (map (agg_norm csid msid ts (match subs with (m, _) :: _ => g_ts m | [] => 0 end)) subs).
Proof. exact spec_deliver_agg_body. Qed.
Print Assumptions c08_aggregate_delivery.

(* (8) MessagePacker's hand-written single chunk header is what the chunk
   divider produces for the same message (csid <= 63, timestamp 0, body fits one chunk) *)
Theorem c08_packer_header : forall csid ty msid p c,
  2 <= csid <= 63 -> ty < 256 -> msid < 4294967296 -> lenN p < 16777216 -> (length p <= c)%nat -> (0 < c)%nat ->
  exists hb, single_chunk_header csid (lenN p) ty msid = Ok hb /\
             hb ++ p = message2chunks_core wv_fixed c (mk_hdr csid (lenN p) ty msid 0) None p.
Proof. exact packer_header_eq. Qed.
Print Assumptions c08_packer_header.

(* (9) MessagePacker (signalling): whatever ChunkAndWrite is called with - any
   body length, also > LocalChunkSize (Message2Chunks path), csid 2..63, type,
   message stream id - the wire carries a legal chunking of exactly
   (csid, type, msid, timestamp 0, body); the reference reader and lal's reader
   (peer chunk size 4096, that chunk stream idle, anything else arbitrary) decode
   that message. *)
Theorem c08_packer_message : forall body csid ty msid,
  2 <= csid <= 63 -> ty < 256 -> msid < 4294967296 -> lenN body < 16777216 -> bytes_ok body ->
  ty <> 1 -> ty <> 22 ->
  let h := packer_hdr body csid ty msid in
  exists bs,
    packer_emit body csid ty msid = Ok bs /\
    legal_chunking 4096 [msg_of h body] bs /\
    ref_decode 4096 bs = Some [msg_of h body] /\
    forall st, cs_chunk st = 4096 -> idle_at st csid ->
      exists raw,
        run_composer st bs = (mk_cstate 4096 (nset csid (done_stream h) (cs_streams st)), [mk_rmsg h body raw], err_eof).
Proof. exact packer_message. Qed.
Print Assumptions c08_packer_message.

(* every writer of the packer (connect, _result, createStream, play, publish,
   onStatus, user control, ack, window / bandwidth, raw ChunkAndWrite) on a packer
   whose buffer has been through any earlier messages: never panics, leaves the
   buffer ready, and emits (9) for its own csid / type / msid / AMF0 body *)
Theorem c08_packer_writer : forall b c,
  idle b -> pcmd_args_ok c -> lenN (pcmd_body c) < 16777216 -> bytes_ok (pcmd_body c) ->
  pcmd_type c <> 1 -> pcmd_type c <> 22 ->
  let h := packer_hdr (pcmd_body c) (pcmd_csid c) (pcmd_type c) (pcmd_msid c) in
  exists out b',
    packer_step b c = Ok (out, b') /\ idle b' /\
    legal_chunking 4096 [msg_of h (pcmd_body c)] out /\
    ref_decode 4096 out = Some [msg_of h (pcmd_body c)] /\
    forall st, cs_chunk st = 4096 -> idle_at st (pcmd_csid c) ->
      exists raw,
        run_composer st out
        = (mk_cstate 4096 (nset (pcmd_csid c) (done_stream h) (cs_streams st)), [mk_rmsg h (pcmd_body c) raw], err_eof).
Proof. exact packer_writer. Qed.
Print Assumptions c08_packer_writer.

(* writeChunkSize: the message comes back and the reader's chunk size becomes the value *)
Theorem c08_packer_set_chunk_size : forall v st,
  1 <= v < 2147483648 -> cs_chunk st = 4096 -> idle_at st 2 ->
  let h := mk_hdr 2 4 1 0 0 in
  exists bs raw,
    packer_emit (be_put 4 v) 2 1 0 = Ok bs /\
    legal_chunking 4096 [msg_of h (be_put 4 v)] bs /\
    ref_decode 4096 bs = Some [msg_of h (be_put 4 v)] /\
    run_composer st bs = (mk_cstate v (nset 2 (done_stream h) (cs_streams st)), [mk_rmsg h (be_put 4 v) raw], err_eof).
Proof. exact packer_set_chunk_size. Qed.
Print Assumptions c08_packer_set_chunk_size.

(* ------------------------------------------------------------------------
   What was false of the pinned snapshot (models of the pinned code; every
   witness was replayed on the Go code before the repair). *)

(* F-01: a message stamped exactly 0xFFFFFF cannot be read back, neither by
   lal's reader nor by a conforming one *)
Theorem c08_write_read_pinned_refuted :
  exists c h p bs,
    0 < c /\ hdr_ok h /\ lenN p = h_len h /\ bytes_ok p /\ h_type h <> 1 /\ h_type h <> 22 /\
    message2chunks_pinned c h None p = Ok bs /\
    delivered (run_composer_pinned (init_cstate c) bs) = [] /\
    delivered (run_composer (init_cstate c) bs) = [] /\
    ref_decode c bs = None.
Proof. exact f01_pinned_refuted. Qed.
Print Assumptions c08_write_read_pinned_refuted.

(* a zero-length message was not written at all *)
Theorem c08_write_empty_pinned_refuted :
  exists c h, 0 < c /\ hdr_ok h /\ h_len h = 0 /\ message2chunks_pinned c h None [] = Ok [].
Proof. exact empty_pinned_refuted. Qed.
Print Assumptions c08_write_empty_pinned_refuted.

(* aggregate sub-messages were delivered with an empty payload ... *)
Theorem c08_aggregate_payload_pinned_refuted :
  legal_chunking 128 [agg_witness] agg_witness_bytes /\
  delivered (run_composer_v (mk_rv true false true) (init_cstate 128) agg_witness_bytes)
  = [mk_smsg 3 9 7 100 []].
Proof. exact agg_payload_pinned_refuted. Qed.
Print Assumptions c08_aggregate_payload_pinned_refuted.

(* ... and on the stream id of their own header instead of the aggregate's *)
Theorem c08_aggregate_msid_pinned_refuted :
  legal_chunking 128 [agg_witness] agg_witness_bytes /\
  delivered (run_composer_v (mk_rv true true false) (init_cstate 128) agg_witness_bytes)
  = [mk_smsg 3 9 1 100 [170; 187; 204]].
Proof. exact agg_msid_pinned_refuted. Qed.
Print Assumptions c08_aggregate_msid_pinned_refuted.

(* a Set Chunk Size between two chunks of a message on another chunk stream
   made the reader take too many bytes *)
Theorem c08_chunk_size_change_pinned_refuted :
  legal_chunking 2 [scs_msg_b; scs_msg_a] scs_witness_bytes /\
  delivered (run_composer_v (mk_rv false true true) (init_cstate 2) scs_witness_bytes) = [scs_msg_b] /\
  end_error (run_composer_v (mk_rv false true true) (init_cstate 2) scs_witness_bytes) = err_unexpected_eof /\
  delivered (run_composer (init_cstate 2) scs_witness_bytes) = [scs_msg_b; scs_msg_a].
Proof. exact needed_size_pinned_refuted. Qed.
Print Assumptions c08_chunk_size_change_pinned_refuted.

Theorem c08_read_any_legal_pinned_refuted :
  exists chunk msgs cs,
    legal_chunking chunk msgs cs /\ delivered (run_composer_pinned (init_cstate chunk) cs) <> deliver_all msgs.
Proof. exact pinned_reader_refuted. Qed.
Print Assumptions c08_read_any_legal_pinned_refuted.

(* ------------------------------------------------------------------------
   Non-vacuity: the hypotheses are met by concrete non-trivial inputs. *)

(* a header at the 0xFFFFFF boundary on a 3-byte chunk stream id, chunk size 2:
   three chunks, extended timestamp repeated, read back *)
Example c08_nonvacuous_writer :
  hp_ok (mk_hdr 65599 5 9 1 16777215, [1; 2; 3; 4; 5]) /\
  message2chunks 2 (mk_hdr 65599 5 9 1 16777215) None [1; 2; 3; 4; 5]
  = Ok [1; 255; 255; 255; 255; 255; 0; 0; 5; 9; 1; 0; 0; 0; 0; 255; 255; 255; 1; 2;
        193; 255; 255; 0; 255; 255; 255; 3; 4;  193; 255; 255; 0; 255; 255; 255; 5] /\
  delivered (run_composer (init_cstate 2)
     [1; 255; 255; 255; 255; 255; 0; 0; 5; 9; 1; 0; 0; 0; 0; 255; 255; 255; 1; 2;
      193; 255; 255; 0; 255; 255; 255; 3; 4;  193; 255; 255; 0; 255; 255; 255; 5])
  = [mk_smsg 65599 9 1 16777215 [1; 2; 3; 4; 5]].
Proof.
  split; [|split; vm_compute; reflexivity].
  unfold hp_ok, hdr_ok. cbn. repeat split; try (vm_compute; congruence). repeat constructor.
Qed.

(* a legal chunking using type 0, 1, 2 and 3 headers, two interleaved chunk
   streams, a Set Chunk Size in the middle of a message and an aggregate *)
Definition nv_script : list eact :=
  [EStart 0 false (mk_smsg 4 9 1 1000 [1; 2; 3; 4; 5]);             (* type 0, 5 bytes at chunk size 2 *)
   EStart 0 true (mk_smsg 64 8 1 16777216 [9]);                       (* other stream, extended timestamp, 3-byte basic header *)
   ECont 4 false;
   EStart 0 false (mk_smsg 2 1 0 0 [0; 0; 0; 3]); ECont 2 false;      (* Set Chunk Size 3 while csid 4 is open *)
   ECont 4 false;                                                     (* last byte of the first message *)
   EStart 1 false (mk_smsg 4 9 1 1040 [6]);                           (* type 1: delta 40, new length *)
   EStart 2 false (mk_smsg 4 9 1 1080 [7]);                           (* type 2: delta 40 *)
   EStart 3 false (mk_smsg 4 9 1 1120 [8]);                           (* type 3: same delta *)
   EStart 0 false agg_witness;                                        (* aggregate: 18 bytes in 6 chunks of 3 *)
   ECont 3 false; ECont 3 false; ECont 3 false; ECont 3 false; ECont 3 false].

Example c08_nonvacuous_legal :
  exists st cs msgs,
    enc_run (init_estate 2) nv_script = Some (st, cs, msgs) /\
    length msgs = 7%nat /\
    delivered (run_composer (init_cstate 2) cs) = deliver_all msgs /\
    length (deliver_all msgs) = 7%nat /\
    ref_decode 2 cs = Some (deliver_all msgs).
Proof. eexists. eexists. eexists. split; [vm_compute; reflexivity|]. repeat split; vm_compute; reflexivity. Qed.

(* play with a 4100-byte stream name on message stream 1, after SetChunkSize on
   the same packer: two chunks, and the message stream id survives the chunked path *)
Example c08_nonvacuous_packer :
  match packer_run new_packer [PChunkSize 4096; PPlay (repeat 107 4100) 1] with
  | [Ok _; Ok out] =>
      length out = 4133%nat /\ firstn 12 out = [5; 0; 0; 0; 0; 16; 24; 20; 1; 0; 0; 0] /\
      nth 4108 out 0 = 197 /\
      match ref_decode 4096 out with
      | Some [m] => g_csid m = 5 /\ g_type m = 20 /\ g_msid m = 1 /\ g_ts m = 0 /\ lenN (g_payload m) = 4120
      | _ => False
      end
  | _ => False
  end.
Proof. vm_compute. repeat split; reflexivity. Qed.
