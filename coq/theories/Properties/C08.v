(* C08 - placeholder while the model is being validated *)
From Lal Require Import Common.LBytes Rtmp.RtmpChunk.
Open Scope N_scope.
Theorem c08_placeholder : max_ts = 16777215.
Proof. reflexivity. Qed.
Print Assumptions c08_placeholder.
