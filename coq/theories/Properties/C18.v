(* C18 - AMF0 encode/decode is exact, total and bounded; @setDataFrame
   handling; BuildMetadata read back.  Only property statements here.

   [cfg_fixed] is the tree after the two fix commits (long-string marker
   accepted inside containers, nesting limit 32); [cfg_pinned] is the tree as
   pinned, kept for the two refutations. *)
From Lal Require Import Common.LBytes Common.Res Rtmp.RtmpAmf0 Rtmp.RtmpMetadata
  Rtmp.RtmpAmf0Proofs Rtmp.RtmpAmf0SpecProofs Rtmp.RtmpMetadataProofs Rtmp.RtmpAmf0FloatProofs.
From Coq Require Import Lia.
Open Scope N_scope.

(* --- exact ------------------------------------------------------------------- *)

(* every scalar lal writes is read back with its value and exactly its
   encoded length, whatever bytes follow.  Strings: any length below 2^32,
   i.e. both the short (< 65536) and the long form. *)
Theorem c18_roundtrip_scalar : forall rest,
  (forall bits, bits < 18446744073709551616 ->
     read_number (write_number bits ++ rest) = Ok (bits, lenN (write_number bits), rest)) /\
  (forall s, lenN s < 4294967296 ->
     read_string (write_string s ++ rest) = Ok (s, lenN (write_string s), rest)) /\
  (forall v, read_boolean (write_boolean v ++ rest) = Ok (v, lenN (write_boolean v), rest)) /\
  read_null (write_null ++ rest) = Ok (lenN write_null, rest).
Proof.
  intro rest. split; [|split; [|split]].
  - intros bits H. rewrite read_number_write by exact H. reflexivity.
  - exact (fun s H => read_string_write s rest H).
  - intro v. rewrite read_boolean_write. destruct v; reflexivity.
  - reflexivity.
Qed.
Print Assumptions c18_roundtrip_scalar.

(* every object WriteObject can write (keys below 2^16 bytes; values: strings
   of any length below 2^32 - long form included -, numbers, Go ints, booleans)
   is read back by ReadObject pair for pair, consuming exactly what was
   written; the recursion depth reached is 1 *)
Theorem c18_roundtrip : forall l rest,
  Forall (fun kv => lenN (fst kv) < 65536 /\ wval_dom (snd kv)) l ->
  read_object cfg_fixed (write_object l ++ rest)
  = (Ok (map (fun kv => (fst kv, aval_of_wval (snd kv))) l, lenN (write_object l), rest), 1).
Proof. exact read_object_write_fixed. Qed.
Print Assumptions c18_roundtrip.

(* on the pinned tree the same statement is false: a string value of 65536
   bytes or more is written with marker 0x0c, which the container reader
   refuses (F-02).  Concrete witness by computation, and the general form. *)
Theorem c18_roundtrip_refuted :
  exists l, Forall (fun kv => lenN (fst kv) < 65536 /\ wval_dom (snd kv)) l /\
            fst (read_object cfg_pinned (write_object l)) = Err (e_type 12).
Proof.
  exists [([107], WStr (repeat 97 (N.to_nat 65536)))]. split.
  - constructor; [|constructor]. split; vm_compute; reflexivity.
  - vm_compute. reflexivity.
Qed.
Print Assumptions c18_roundtrip_refuted.

Theorem c18_roundtrip_refuted_general : forall k s rest,
  lenN k < 65536 -> 65536 <= lenN s -> lenN s < 4294967296 ->
  fst (read_object cfg_pinned (write_object [(k, WStr s)] ++ rest)) = Err (e_type 12).
Proof. exact pinned_long_string_refused. Qed.
Print Assumptions c18_roundtrip_refuted_general.

(* every AMF0 value tree as the AMF0 specification encodes it (reference
   encoder [enc]: number, boolean, string short/long, object, ECMA array,
   strict array, null, undefined, unsupported; any width, nesting up to the
   limit) is read back by the exported container readers as [interp] of the
   tree, consuming exactly the encoded length *)
Theorem c18_roundtrip_tree : forall l rest,
  (swf (SObj l) = true -> sdepth (SObj l) <= max_nesting ->
   fst (read_object cfg_fixed (enc (SObj l) ++ rest)) = Ok (interp_pairs l, lenN (enc (SObj l)), rest)) /\
  (swf (SEcma l) = true -> sdepth (SEcma l) <= max_nesting ->
   fst (read_array cfg_fixed (enc (SEcma l) ++ rest)) = Ok (interp_pairs l, lenN (enc (SEcma l)), rest)).
Proof.
  intros l rest. split.
  - exact (read_object_enc cfg_fixed max_nesting eq_refl eq_refl l rest).
  - exact (read_array_enc cfg_fixed max_nesting eq_refl eq_refl l rest).
Qed.
Print Assumptions c18_roundtrip_tree.

Theorem c18_roundtrip_tree_strict : forall l rest,
  swf (SStrict l) = true -> sdepth (SStrict l) <= max_nesting ->
  fst (read_strict_array cfg_fixed (enc (SStrict l) ++ rest)) = Ok (interp_list l, lenN (enc (SStrict l)), rest).
Proof. exact (read_strict_array_enc cfg_fixed max_nesting eq_refl eq_refl). Qed.
Print Assumptions c18_roundtrip_tree_strict.

(* --- total --------------------------------------------------------------------- *)

(* every exported reader, on every byte string (no well-formedness assumed):
   terminates with a value or an ordinary error - never a Go panic (index /
   slice out of range), never out of fuel - and a value comes with a consumed
   length between 1 and the input length and the untouched rest of the input.
   Holds for the pinned and the fixed configuration alike. *)
Theorem c18_total : forall cfg e b,
  fst (decode cfg e b) <> Err err_out_of_fuel /\
  (forall s, fst (decode cfg e b) <> Panic s) /\
  (forall v n rest, fst (decode cfg e b) = Ok (v, n, rest) ->
     1 <= n /\ n <= lenN b /\ rest = skipn (N.to_nat n) b).
Proof. exact decode_total. Qed.
Print Assumptions c18_total.

Theorem c18_total_metadata : forall cfg b,
  fst (parse_metadata cfg b) <> Err err_out_of_fuel /\ (forall s, fst (parse_metadata cfg b) <> Panic s).
Proof. exact parse_metadata_no_crash. Qed.
Print Assumptions c18_total_metadata.

(* --- bounded ------------------------------------------------------------------- *)

(* the recursion depth (one level = Amf0.read + one container reader on the Go
   stack) never exceeds the nesting limit, on any input, on every path *)
Theorem c18_bounded_stack : forall e b,
  snd (decode cfg_fixed e b) <= max_nesting /\ snd (parse_metadata cfg_fixed b) <= max_nesting.
Proof.
  intros e b. split.
  - exact (decode_depth cfg_fixed max_nesting eq_refl e b).
  - exact (parse_metadata_depth cfg_fixed max_nesting b eq_refl).
Qed.
Print Assumptions c18_bounded_stack.

(* on the pinned tree there is no bound at all: 3 bytes of input per level (F-03) *)
Theorem c18_bounded_stack_refuted : forall bound,
  exists b, lenN b = 1 + 3 * bound /\ bound < snd (decode cfg_pinned EObject b).
Proof. exact pinned_stack_unbounded. Qed.
Print Assumptions c18_bounded_stack_refuted.

(* --- @setDataFrame ------------------------------------------------------------- *)

(* neither function can panic; adding returns the input unchanged or unchanged
   behind the 16 prefix bytes; stripping returns the input unchanged or exactly
   the bytes that followed one leading AMF0 string "@setDataFrame";
   with (with b) = with b; without (with b) = without b;
   without (prefix ++ b) = b *)
Theorem c18_sdf : forall b,
  (exists out e, metadata_ensure_with_sdf b = Ok (out, e)) /\
  (exists out e, metadata_ensure_without_sdf b = Ok (out, e)) /\
  (forall out e, metadata_ensure_with_sdf b = Ok (out, e) ->
     (out = b \/ (out = sdf_prefix ++ b /\ e = None)) /\
     metadata_ensure_with_sdf out = Ok (out, e) /\
     metadata_ensure_without_sdf out = metadata_ensure_without_sdf b) /\
  (forall out e, metadata_ensure_without_sdf b = Ok (out, e) ->
     out = b \/ (e = None /\ exists pre, b = pre ++ out /\ read_string b = Ok (sdf_name, lenN pre, out))) /\
  metadata_ensure_without_sdf (sdf_prefix ++ b) = Ok (b, None).
Proof.
  intro b. split; [apply ensure_with_total|]. split; [apply ensure_without_total|].
  split; [|split; [apply ensure_without_shape|apply ensure_without_added]].
  intros out e H. split; [apply (ensure_with_shape _ _ _ H)|].
  split; [apply (ensure_with_idem _ _ _ H)|apply (ensure_without_with _ _ _ H)].
Qed.
Print Assumptions c18_sdf.

(* --- BuildMetadata ------------------------------------------------------------- *)

(* ParseMetadata (BuildMetadata w h a v) returns exactly the fields it was
   built from, in order: width/height/audiocodecid/videocodecid when not -1
   (as float64(int)), then version and lal *)
Theorem c18_metadata_readback : forall enc ver w h a v,
  lenN enc < 4294967296 -> lenN ver < 4294967296 ->
  int64_ok w -> int64_ok h -> int64_ok a -> int64_ok v ->
  parse_metadata cfg_fixed (build_metadata enc ver w h a v)
  = (Ok (map (fun kv => (fst kv, aval_of_wval (snd kv))) (metadata_fields enc ver w h a v)), 1).
Proof. exact parse_build_metadata. Qed.
Print Assumptions c18_metadata_readback.

(* the number written for an int field (width, height, codec ids, ...) denotes
   that very integer: float64(int) is exact below 2^53 (IEEE-754 binary64
   decoding [f64_int_value] of the written bit pattern) *)
Theorem c18_int_fields_exact : forall z,
  (- 9007199254740992 < z < 9007199254740992)%Z -> f64_int_value (f64_of_Z z) = Some z.
Proof. exact f64_of_Z_exact. Qed.
Print Assumptions c18_int_fields_exact.

(* command bodies as MessagePacker builds them (name, transaction id, object,
   e.g. connect / _result / onStatus) are read back field by field: the
   round-trip theorems hold in front of arbitrary following bytes, so they chain *)
Theorem c18_roundtrip_command : forall name tid l rest,
  lenN name < 4294967296 -> tid < 18446744073709551616 ->
  Forall (fun kv => lenN (fst kv) < 65536 /\ wval_dom (snd kv)) l ->
  let body := write_string name ++ write_number tid ++ write_object l ++ rest in
  exists b1 b2,
    read_string body = Ok (name, lenN (write_string name), b1) /\
    read_number b1 = Ok (tid, 9, b2) /\
    fst (read_object cfg_fixed b2) = Ok (map (fun kv => (fst kv, aval_of_wval (snd kv))) l, lenN (write_object l), rest).
Proof.
  intros name tid l rest Hn Ht Hl body. subst body.
  exists (write_number tid ++ write_object l ++ rest), (write_object l ++ rest).
  split; [apply read_string_write, Hn|]. split; [apply read_number_write, Ht|].
  now rewrite read_object_write_fixed.
Qed.
Print Assumptions c18_roundtrip_command.

(* --- non-vacuity ----------------------------------------------------------------- *)
Example c18_nonvacuous :
  Forall (fun kv => lenN (fst kv) < 65536 /\ wval_dom (snd kv))
         [([97; 112; 112], WStr [108; 105; 118; 101]); ([], WInt (-3)); ([107], WNum 4607182418800017408); ([102], WBool false)]
  /\ swf (SObj [([107], SStrict [SNull; SEcma [([], SStr [1; 2])]; SNum 7])]) = true
  /\ sdepth (SObj [([107], SStrict [SNull; SEcma [([], SStr [1; 2])]; SNum 7])]) = 3
  /\ fst (read_object cfg_fixed (enc (SObj [([107], SStrict [SNull; SEcma [([], SStr [1; 2])]; SNum 7])]) ++ [5]))
     = Ok ([([107], APairs [([], APairs [([], AStr [1; 2])]); ([], ANum 7)])], 37, [5])
  /\ fst (decode cfg_fixed EObject [3; 0; 0; 3; 0; 0; 3]) = Err e_short
  /\ int64_ok 1920 /\ (f64_of_Z 1920 = 4656159064747671552).
Proof.
  split.
  - repeat constructor; cbn [fst snd wval_dom]; try (vm_compute; reflexivity); try lia.
  - repeat split; first [vm_compute; reflexivity | vm_compute; intro; discriminate | idtac].
Qed.
