(* Facts about the exact float64 model (HlsFloat.v) that the target-duration clause needs:
   a value computed by rnd53 from n/d (below 2^51) lies on the same side of every
   half-integer as n/d itself. *)
From Coq Require Import ZArith Bool List Lia.
From Lal Require Import Common.LBytes Hls.HlsFloat.
Open Scope Z_scope.

Lemma f_den_pos a : 0 < f_den a.
Proof. unfold f_den. destruct (0 <=? fe a) eqn:E; [lia|]. apply Z.pow_pos_nonneg; lia. Qed.

(* ---- rne ---- *)
Lemma rne_ge q r den : q <= rne q r den.
Proof. unfold rne. destruct (_ || _); lia. Qed.

Lemma rne_le q r den : rne q r den <= q + 1.
Proof. unfold rne. destruct (_ || _); lia. Qed.

Lemma rne_exact q den : 0 < den -> rne q 0 den = q.
Proof.
  intros H. unfold rne.
  assert (E1 : (den <? 2 * 0) = false) by (apply Z.ltb_ge; lia).
  assert (E2 : (den =? 2 * 0) = false) by (apply Z.eqb_neq; lia).
  now rewrite E1, E2.
Qed.

(* rounding N/d: the result is at most half a unit above N/d *)
Lemma rne_frac_lower N d : 0 < d -> (2 * rne (N / d) (N mod d) d - 1) * d <= 2 * N.
Proof.
  intros Hd. assert (Hm := Z.mod_pos_bound N d Hd). assert (E := Z.div_mod N d ltac:(lia)).
  unfold rne. destruct ((d <? 2 * (N mod d)) || ((d =? 2 * (N mod d)) && Z.odd (N / d))) eqn:C.
  - assert (d <= 2 * (N mod d)).
    { apply orb_prop in C. destruct C as [C|C]; [apply Z.ltb_lt in C; lia|].
      apply andb_prop in C. destruct C as [C _]. apply Z.eqb_eq in C. lia. }
    nia.
  - nia.
Qed.

(* ---- rnd53 below 2^51 ---- *)
Lemma rnd53_small n d :
  0 < n -> 0 < d -> n < 2 ^ 51 * d ->
  exists t, 1 <= t /\ rnd53 n d = mkfl (rne ((n * 2 ^ t) / d) ((n * 2 ^ t) mod d) d) (- t).
Proof.
  intros Hn Hd Hb. unfold rnd53.
  assert (E0 : (n <=? 0) = false) by (apply Z.leb_gt; lia). rewrite E0.
  assert (Hs0 : Z.log2 n - Z.log2 d - 52 <= -1).
  { assert (H1 := Z.log2_spec d Hd). assert (H0 := Z.log2_nonneg d).
    assert (H2 : n < 2 ^ (Z.log2 d + 52)).
    { replace (Z.log2 d + 52) with (51 + Z.succ (Z.log2 d)) by lia.
      rewrite Z.pow_add_r by lia. nia. }
    apply Z.log2_lt_pow2 in H2; lia. }
  set (s0 := Z.log2 n - Z.log2 d - 52) in *.
  assert (Esc : forall s, s <= -1 -> scale_frac n d s = (n * 2 ^ (- s), d)).
  { intros s Hs. unfold scale_frac. assert (E : (0 <=? s) = false) by (apply Z.leb_gt; lia). now rewrite E. }
  rewrite (Esc s0 Hs0).
  destruct (n * 2 ^ (- s0) / d <? 2 ^ 52).
  - rewrite (Esc (s0 - 1)) by lia. exists (- (s0 - 1)). split; [lia|]. now rewrite Z.opp_involutive.
  - rewrite (Esc s0 Hs0). exists (- s0). split; [lia|]. now rewrite Z.opp_involutive.
Qed.

(* a faithfully rounds n/d on the grid of half-integers *)
Definition approx (a : fl) (n d : Z) : Prop :=
  (forall h, h * d <= 2 * n -> h * f_den a <= 2 * f_num a) /\
  (forall h, 2 * n <= h * d -> 2 * f_num a <= h * f_den a) /\
  0 <= f_num a.

Lemma num_den_neg m t : 1 <= t -> f_num (mkfl m (- t)) = m /\ f_den (mkfl m (- t)) = 2 ^ t.
Proof.
  intros Ht. unfold f_num, f_den. cbn [fe fm].
  assert (E : (0 <=? - t) = false) by (apply Z.leb_gt; lia). rewrite E. now rewrite Z.opp_involutive.
Qed.

Lemma rnd53_approx n d : 0 <= n -> 0 < d -> n < 2 ^ 51 * d -> approx (rnd53 n d) n d.
Proof.
  intros Hn Hd Hb. destruct (Z.eq_dec n 0) as [->|Hne].
  - unfold rnd53. cbn. unfold approx, f_num, f_den. cbn. repeat split; intros; nia.
  - destruct (rnd53_small n d ltac:(lia) Hd Hb) as (t & Ht & ->). unfold approx.
    destruct (num_den_neg (rne (n * 2 ^ t / d) ((n * 2 ^ t) mod d) d) t Ht) as [-> ->].
    set (N := n * 2 ^ t). set (q := N / d). set (r := N mod d).
    assert (Hp : 0 < 2 ^ t) by (apply Z.pow_pos_nonneg; lia).
    assert (Hp2 : 2 ^ t = 2 * 2 ^ (t - 1)).
    { replace t with (1 + (t - 1)) at 1 by lia. rewrite Z.pow_add_r by lia. reflexivity. }
    assert (Hp1 : 0 < 2 ^ (t - 1)) by (apply Z.pow_pos_nonneg; lia).
    assert (Hm := Z.mod_pos_bound N d Hd). fold r in Hm.
    assert (E := Z.div_mod N d ltac:(lia)). fold q r in E.
    assert (HN : 0 <= N) by (unfold N; nia).
    assert (Hq : 0 <= q) by (apply Z.div_pos; lia).
    repeat split.
    + intros h Hh. set (k := h * 2 ^ (t - 1)).
      assert (Hk : k * d <= N) by (unfold k, N; rewrite Hp2; nia).
      assert (k <= q).
      { apply Z.div_le_lower_bound; lia. }
      pose proof (rne_ge q r d). unfold k in *. rewrite Hp2. nia.
    + intros h Hh. set (k := h * 2 ^ (t - 1)).
      assert (Hk : N <= k * d) by (unfold k, N; rewrite Hp2; nia).
      assert (Hqk : q <= k) by (apply Z.div_le_upper_bound; lia).
      assert (rne q r d <= k).
      { destruct (Z.eq_dec q k) as [Eq|Nq].
        - assert (r = 0) by nia. subst r. rewrite H. rewrite rne_exact by lia. lia.
        - pose proof (rne_le q r d). lia. }
      unfold k in *. rewrite Hp2. nia.
    + pose proof (rne_ge q r d). lia.
Qed.

(* ---- the operations the muxer performs ---- *)
Lemma f_of_Z_exact z : 0 <= z < 2 ^ 51 -> f_num (f_of_Z z) = z * f_den (f_of_Z z) /\ 0 <= f_num (f_of_Z z).
Proof.
  intros Hz. unfold f_of_Z. destruct (rnd53_approx z 1 ltac:(lia) ltac:(lia) ltac:(lia)) as (L & U & P).
  specialize (L (2 * z) ltac:(lia)). specialize (U (2 * z) ltac:(lia)). split; [lia|exact P].
Qed.

Lemma dur_ok_fl0 : dur_ok fl0.
Proof. unfold dur_ok, fl0, f_num, f_den. cbn. lia. Qed.

Lemma f_div_Z_approx a b :
  0 <= a < 2 ^ 51 -> 0 < b < 2 ^ 51 -> a < 2 ^ 51 * b ->
  approx (f_div (f_of_Z a) (f_of_Z b)) a b.
Proof.
  intros Ha Hb Hab. unfold f_div.
  destruct (f_of_Z_exact a Ha) as [Ea Pa]. destruct (f_of_Z_exact b ltac:(lia)) as [Eb Pb].
  pose proof (f_den_pos (f_of_Z a)) as Da. pose proof (f_den_pos (f_of_Z b)) as Db.
  set (A := f_of_Z a) in *. set (B := f_of_Z b) in *.
  assert (HQ : 0 < f_den A * f_num B) by nia.
  destruct (rnd53_approx (f_num A * f_den B) (f_den A * f_num B)) as (L & U & P); [nia|exact HQ|rewrite Ea, Eb; nia|].
  repeat split; [| |exact P].
  - intros h Hh. apply L. rewrite Ea, Eb. nia.
  - intros h Hh. apply U. rewrite Ea, Eb. nia.
Qed.

Lemma dur_of_ticks_ok d : 0 <= d <= 2 ^ 45 -> dur_ok (f_div (f_of_Z d) (f_of_Z 90000)).
Proof.
  intros Hd. destruct (f_div_Z_approx d 90000) as (L & U & P); [lia|lia|lia|].
  split; [exact P|]. specialize (U (2 * 2 ^ 40)). lia.
Qed.

Lemma frag_target_ok ms : 0 <= ms <= 2 ^ 40 -> dur_ok (f_div (f_of_Z ms) (f_of_Z 1000)).
Proof.
  intros Hd. destruct (f_div_Z_approx ms 1000) as (L & U & P); [lia|lia|lia|].
  split; [exact P|]. specialize (U (2 * 2 ^ 40)). lia.
Qed.

(* calcTargetDuration of a value that is not below x is at least x as listed ("%.3f") rounded to the nearest second *)
Lemma calc_target_ge x mx :
  dur_ok x -> dur_ok mx -> f_ltb mx x = false ->
  (f_millis x + 500) / 1000 <= (f_round (f_mul mx (f_of_Z 1000)) + 500) / 1000.
Proof.
  intros [Px Bx] [Pm Bm] Hle. unfold f_ltb in Hle. apply Z.ltb_ge in Hle.
  pose proof (f_den_pos x) as Dx. pose proof (f_den_pos mx) as Dm.
  apply Z.div_le_mono; [lia|]. apply Z.add_le_mono_r.
  set (n := f_millis x).
  assert (Hn : (2 * n - 1) * f_den x <= 2 * (f_num x * 1000)) by (apply rne_frac_lower; exact Dx).
  unfold f_mul.
  destruct (f_of_Z_exact 1000 ltac:(lia)) as [E1 P1]. pose proof (f_den_pos (f_of_Z 1000)) as D1.
  set (K := f_of_Z 1000) in *.
  destruct (rnd53_approx (f_num mx * f_num K) (f_den mx * f_den K)) as (L & _ & P); [nia|nia|rewrite E1; nia|].
  set (y := rnd53 (f_num mx * f_num K) (f_den mx * f_den K)) in *.
  pose proof (f_den_pos y) as Dy.
  assert (Hy : (2 * n - 1) * f_den y <= 2 * f_num y).
  { apply L. rewrite E1.
    assert ((2 * n - 1) * f_den mx <= 2000 * f_num mx).
    { assert ((2 * n - 1) * f_den x * f_den mx <= 2000 * f_num mx * f_den x) by nia. nia. }
    nia. }
  unfold f_round. apply Z.div_le_lower_bound; [lia|]. nia.
Qed.

Lemma rnd53_nonneg n d : 0 <= n -> 0 < d -> 0 <= f_num (rnd53 n d).
Proof.
  intros Hn Hd. unfold rnd53. destruct (n <=? 0); [cbn; lia|].
  set (s0 := Z.log2 n - Z.log2 d - 52).
  assert (Hsc : forall s, 0 <= fst (scale_frac n d s) /\ 0 < snd (scale_frac n d s)).
  { intros s. unfold scale_frac. destruct (0 <=? s) eqn:E; cbn.
    - apply Z.leb_le in E. split; [lia|]. apply Z.mul_pos_pos; [lia|]. apply Z.pow_pos_nonneg; lia.
    - apply Z.leb_gt in E. split; [|lia]. apply Z.mul_nonneg_nonneg; [lia|]. apply Z.pow_nonneg. lia. }
  destruct (scale_frac n d s0) as [n1 d1].
  set (s := if n1 / d1 <? 2 ^ 52 then s0 - 1 else s0).
  specialize (Hsc s). destruct (scale_frac n d s) as [n2 d2]. cbn [fst snd] in Hsc.
  assert (Hq : 0 <= rne (n2 / d2) (n2 mod d2) d2).
  { pose proof (rne_ge (n2 / d2) (n2 mod d2) d2). assert (0 <= n2 / d2) by (apply Z.div_pos; lia). lia. }
  unfold f_num. cbn [fm fe]. destruct (0 <=? s); [|exact Hq].
  apply Z.mul_nonneg_nonneg; [exact Hq|]. apply Z.pow_nonneg. lia.
Qed.

