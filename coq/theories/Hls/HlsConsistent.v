(* What C10 asks of the file system at one instant and of the sequence of
   instants (the prefixes of the operation sequence).  Definitions only. *)
From Coq Require Import ZArith Bool List.
From Lal Require Import Common.LBytes Hls.HlsFloat Hls.HlsFs Hls.HlsPlaylist Hls.HlsParse Hls.HlsMuxer.
Open Scope Z_scope.

(* ---- inputs ---- *)
(* a PAT/PMT as mpegts produces it: two 188-byte packets, sync byte 0x47, the first with PID 0 *)
Definition good_pp (b : bytes) : Prop :=
  length b = 376%nat /\ nth 0 b 0%N = 71%N /\ (nth 1 b 0%N mod 32 = 0)%N /\ nth 2 b 0%N = 0%N /\ nth 188 b 0%N = 71%N.
Definition whole_pkts (b : bytes) : Prop := (length b mod 188 = 0)%nat.

(* ---- the trace ---- *)
Definition state_at (c : cfg) (evs : list event) (k : nat) : fs := apply_all [] (firstn k (run c evs)).

Definition is_live_replace (o : op) : bool :=
  match o with ORename _ PLive => true | OWriteFile PLive _ => true | _ => false end.
(* number of versions of the live playlist published during the first k operations *)
Definition ver_at (c : cfg) (evs : list event) (k : nat) : Z :=
  Z.of_nat (length (filter is_live_replace (firstn k (run c evs)))).

(* ---- one instant ---- *)
Definition live_is (c : cfg) (s : fs) (pl : playlist) : Prop :=
  exists f, fs_lookup PLive s = Some f /\ fdata f = print_live (c_stream c) pl.

(* a listed segment: the file exists, is closed, is a whole number of TS packets and begins with PAT/PMT *)
Definition seg_file_ok (s : fs) (sg : seg) : Prop :=
  exists f pp rest, fs_lookup (PTs (s_now sg) (s_id sg)) s = Some f /\ fclosed f = true /\
    whole_pkts (fdata f) /\ fdata f = (pp ++ rest)%list /\ good_pp pp.

(* RFC 8216 4.3.3.1: the EXTINF duration (as listed, "%.3f") rounded to the nearest integer *)
Definition listed_seconds (sg : seg) : Z := (f_millis (s_dur sg) + 500) / 1000.

Definition live_ok (c : cfg) (s : fs) : Prop :=
  forall f, fs_lookup PLive s = Some f ->
  exists pl, fdata f = print_live (c_stream c) pl                      (* the text of a structured playlist ... *)
    /\ parse_live (fdata f) = Some (abs_pl (c_stream c) pl)           (* ... which parses completely, to that playlist *)
    /\ Forall (fun sg => listed_seconds sg <= pl_target pl) (pl_segs pl)
    /\ Forall (seg_file_ok s) (pl_segs pl).

(* ---- the end of a publication ---- *)
Definition ended (c : cfg) (s : fs) : Prop :=
  forall f, fs_lookup PLive s = Some f -> exists pl, fdata f = print_live (c_stream c) pl /\ pl_end pl = true.

(* ---- what is written into segments, read off the operation sequence ---- *)
(* frame data = every IFile.Write except the one that directly follows the Create of its file (the PAT/PMT);
   the boolean is "the previous operation was a Create" *)
Fixpoint fws (after_create : bool) (ops : list op) : list bytes * bool :=
  match ops with
  | [] => ([], after_create)
  | OCreate _ :: t => fws true t
  | OWrite _ b :: t => if after_create then fws false t else let '(l, st) := fws false t in (b :: l, st)
  | _ :: t => fws false t
  end.

(* the frames the muxer has to store: in each publication, everything from the first boundary frame on *)
Fixpoint accepted (alive opened : bool) (evs : list event) : list bytes :=
  match evs with
  | [] => []
  | EvNew :: t => if alive then accepted alive opened t else accepted true false t
  | EvFeed _ _ _ b _ pk :: t =>
      if alive then (if opened || b then pk :: accepted true true t else accepted true false t)
      else accepted alive opened t
  | EvDispose :: t => accepted false false t
  | _ :: t => accepted alive opened t
  end.


(* ---- segments are created in sequence; data only ever goes to the newest one ---- *)
(* state: the file created last, and the id the next segment must have (None: any - a muxer has just started and
   carries on with the numbering of the live playlist it found; when it found none it starts at 0) *)
Fixpoint wrs (cur : option path) (next : option Z) (ops : list op) : option (option path * option Z) :=
  match ops with
  | [] => Some (cur, next)
  | OMkdirAll _ :: t => wrs cur None t                   (* Muxer.Start *)
  | OReadFile PLive false :: t => wrs cur (match next with None => Some 0 | _ => next end) t
  | OCreate (PTs now id) :: t =>
      if match next with Some n => id =? n | None => true end then wrs (Some (PTs now id)) (Some (id + 1)) t else None
  | OCreate _ :: t => None
  | OWrite p _ :: t | OClose p :: t =>
      match cur with Some q => if path_eqb p q then wrs cur next t else None | None => None end
  | _ :: t => wrs cur next t
  end.


(* ---- how a segment starts ---- *)
Definition is_create (o : op) : bool := match o with OCreate _ => true | _ => false end.
Definition cur_discont (c : cfg) (m : mux) : bool := fi_discont (get_frag c m (m_nfrags m)).


(* ---- the record playlist ---- *)
Definition seg_key (sg : seg) : Z * Z := (s_now sg, s_id sg).
(* segments created since the directory was last removed: (clock, id) of every Create, in order *)
Definition created_step (acc : list (Z * Z)) (o : op) : list (Z * Z) :=
  match o with
  | ORemoveAll _ => []
  | OCreate (PTs now id) => (acc ++ [(now, id)])%list
  | _ => acc
  end.
Definition created_from (acc : list (Z * Z)) (ops : list op) : list (Z * Z) := fold_left created_step ops acc.

