(* Lemmas about the file-system model (HlsFs.v). *)
From Coq Require Import ZArith Bool List Lia.
From Lal Require Import Common.LBytes Hls.HlsFs.
Open Scope Z_scope.

Lemma path_eqb_refl p : path_eqb p p = true.
Proof. destruct p; cbn; try reflexivity. now rewrite !Z.eqb_refl. Qed.

Lemma path_eqb_eq p q : path_eqb p q = true <-> p = q.
Proof.
  split.
  - destruct p, q; cbn; try discriminate; try reflexivity.
    intro H. apply andb_prop in H. destruct H as [H1 H2].
    apply Z.eqb_eq in H1, H2. now subst.
  - intros ->. apply path_eqb_refl.
Qed.

Lemma path_eqb_neq p q : path_eqb p q = false <-> p <> q.
Proof.
  split.
  - intros H E. apply path_eqb_eq in E. congruence.
  - intros H. destruct (path_eqb p q) eqn:E; [|reflexivity]. apply path_eqb_eq in E. contradiction.
Qed.

Lemma path_eqb_sym p q : path_eqb p q = path_eqb q p.
Proof.
  destruct (path_eqb p q) eqn:E.
  - apply path_eqb_eq in E. subst. symmetry. apply path_eqb_refl.
  - symmetry. apply path_eqb_neq. apply path_eqb_neq in E. congruence.
Qed.

Lemma lookup_remove p q s :
  fs_lookup p (fs_remove q s) = if path_eqb p q then None else fs_lookup p s.
Proof.
  induction s as [|[r f] s IH]; cbn.
  - now destruct (path_eqb p q).
  - destruct (path_eqb q r) eqn:Eqr.
    + rewrite IH. apply path_eqb_eq in Eqr. subst r.
      destruct (path_eqb p q); reflexivity.
    + cbn. rewrite IH. destruct (path_eqb p r) eqn:Epr; [|reflexivity].
      apply path_eqb_eq in Epr. subst r.
      rewrite path_eqb_sym in Eqr. now rewrite Eqr.
Qed.

Lemma lookup_set p q f s :
  fs_lookup p (fs_set q f s) = if path_eqb p q then Some f else fs_lookup p s.
Proof.
  unfold fs_set. cbn. destruct (path_eqb p q) eqn:E; [reflexivity|].
  rewrite lookup_remove. now rewrite E.
Qed.

(* the effect of one call, seen through lookup *)
Lemma lookup_apply p s o :
  fs_lookup p (apply s o) =
  match o with
  | OMkdirAll _ | OReadFile _ _ => fs_lookup p s
  | OCreate q => if path_eqb p q then Some (mkfile [] false) else fs_lookup p s
  | OWrite q b =>
      match fs_lookup q s with
      | Some f => if path_eqb p q then Some (mkfile (fdata f ++ b) (fclosed f)) else fs_lookup p s
      | None => fs_lookup p s
      end
  | OClose q =>
      match fs_lookup q s with
      | Some f => if path_eqb p q then Some (mkfile (fdata f) true) else fs_lookup p s
      | None => fs_lookup p s
      end
  | OWriteFile q b => if path_eqb p q then Some (mkfile b true) else fs_lookup p s
  | ORename a b =>
      match fs_lookup a s with
      | Some f => if path_eqb p b then Some f else if path_eqb p a then None else fs_lookup p s
      | None => fs_lookup p s
      end
  | ORemove q => if path_eqb p q then None else fs_lookup p s
  | ORemoveAll _ => None
  end.
Proof.
  destruct o; cbn [apply]; try reflexivity.
  - apply lookup_set.
  - destruct (fs_lookup p0 s); [apply lookup_set|reflexivity].
  - destruct (fs_lookup p0 s); [apply lookup_set|reflexivity].
  - apply lookup_set.
  - destruct (fs_lookup src s); [|reflexivity]. rewrite lookup_set, lookup_remove. reflexivity.
  - apply lookup_remove.
Qed.

Lemma apply_all_app s a b : apply_all (apply_all s a) b = apply_all s (a ++ b).
Proof. unfold apply_all. now rewrite fold_left_app. Qed.

Lemma apply_all_cons s o l : apply_all s (o :: l) = apply_all (apply s o) l.
Proof. reflexivity. Qed.

Lemma apply_all_nil s : apply_all s [] = s.
Proof. reflexivity. Qed.

(* a prefix of a ++ b is a prefix of a, or a followed by a prefix of b *)
Lemma firstn_app_cases {A} (k : nat) (a b : list A) :
  (k <= length a /\ firstn k (a ++ b) = firstn k a)%nat \/
  (exists j, k = (length a + j)%nat /\ firstn k (a ++ b) = a ++ firstn j b).
Proof.
  destruct (Nat.le_gt_cases k (length a)) as [H|H].
  - left. split; [exact H|]. rewrite firstn_app. replace (k - length a)%nat with 0%nat by lia.
    cbn. now rewrite app_nil_r.
  - right. exists (k - length a)%nat. split; [lia|].
    rewrite firstn_app. rewrite firstn_all2 by lia. reflexivity.
Qed.
