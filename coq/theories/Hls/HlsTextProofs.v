(* Facts about the text helpers: decimal printing, strconv.Atoi, bytes.Index, bytes.TrimSuffix. *)
From Coq Require Import ZArith Bool List Lia.
From Lal Require Import Common.LBytes Hls.HlsFloat Hls.HlsPlaylist.
Open Scope Z_scope.

Definition digit (b : N) : Prop := (48 <= b <= 57)%N.
(* value of a digit string read after the prefix value a *)
Definition dval (ds : bytes) (a : Z) : Z := fold_left (fun acc c => acc * 10 + Z.of_N (c - 48)) ds a.

Lemma dval_app x y a : dval (x ++ y) a = dval y (dval x a).
Proof. unfold dval. apply fold_left_app. Qed.

Lemma atoi_digits_dval ds : Forall digit ds -> forall a, atoi_digits ds a = Some (dval ds a).
Proof.
  induction 1 as [|c ds Hc Hds IH]; intros a; cbn [atoi_digits dval fold_left]; [reflexivity|].
  unfold digit in Hc.
  assert (E : ((48 <=? c) && (c <=? 57))%N = true).
  { apply andb_true_intro. split; apply N.leb_le; lia. }
  rewrite E. apply IH.
Qed.

Lemma dec_go_spec fuel : forall n acc, (1 <= fuel)%nat -> 0 <= n < 10 ^ Z.of_nat fuel ->
  exists ds, dec_go fuel n acc = (ds ++ acc)%list /\ Forall digit ds /\ ds <> [] /\
             forall a, dval ds a = a * 10 ^ Z.of_nat (length ds) + n.
Proof.
  induction fuel as [|f IH]; intros n acc Hfuel Hn.
  - lia.
  - cbn [dec_go].
    assert (Hm := Z.mod_pos_bound n 10 ltac:(lia)).
    set (d0 := (48 + Z.to_N (n mod 10))%N).
    assert (Hd0 : digit d0) by (unfold digit, d0; lia).
    assert (Hv : Z.of_N (d0 - 48) = n mod 10) by (unfold d0; lia).
    destruct (n <? 10) eqn:E.
    + apply Z.ltb_lt in E. exists [d0]. repeat split.
      * constructor; [exact Hd0|constructor].
      * discriminate.
      * intros a. unfold dval. cbn [fold_left length]. rewrite Hv, Z.mod_small by lia. cbn. lia.
    + apply Z.ltb_ge in E.
      assert (Hf : 0 <= n / 10 < 10 ^ Z.of_nat f).
      { split; [apply Z.div_pos; lia|]. apply Z.div_lt_upper_bound; [lia|].
        rewrite Nat2Z.inj_succ, Z.pow_succ_r in Hn by lia. lia. }
      assert (Hf1 : (1 <= f)%nat).
      { destruct f; [|lia]. cbn in Hf. assert (1 <= n / 10) by (apply Z.div_le_lower_bound; lia). lia. }
      destruct (IH (n / 10) (d0 :: acc) Hf1 Hf) as (ds & E1 & F1 & N1 & V1).
      exists (ds ++ [d0])%list. repeat split.
      * rewrite E1. now rewrite <- app_assoc.
      * apply Forall_app. split; [exact F1|]. constructor; [exact Hd0|constructor].
      * destruct ds; discriminate.
      * intros a. rewrite dval_app, V1. unfold dval at 1. cbn [fold_left]. rewrite Hv.
        rewrite app_length. cbn [length]. rewrite Nat.add_1_r, Nat2Z.inj_succ, Z.pow_succ_r by lia.
        pose proof (Z.div_mod n 10 ltac:(lia)). lia.
Qed.

Lemma dec_spec n : 0 <= n ->
  Forall digit (dec n) /\ dec n <> [] /\ dval (dec n) 0 = n.
Proof.
  intros Hn. unfold dec. assert (E : (n <? 0) = false) by (apply Z.ltb_ge; lia). rewrite E.
  assert (Hb : 0 <= n < 10 ^ Z.of_nat (S (Z.to_nat (Z.log2 n)))).
  { split; [lia|]. rewrite Nat2Z.inj_succ, Z2Nat.id by apply Z.log2_nonneg.
    destruct (Z.eq_dec n 0) as [->|Hne]; [cbn; lia|].
    pose proof (Z.log2_spec n ltac:(lia)) as [_ H2].
    eapply Z.lt_le_trans; [exact H2|]. apply Z.pow_le_mono_l. pose proof (Z.log2_nonneg n). lia. }
  destruct (dec_go_spec (S (Z.to_nat (Z.log2 n))) n [] ltac:(lia) Hb) as (ds & E1 & F1 & N1 & V1).
  rewrite E1, app_nil_r. repeat split; auto. rewrite V1. lia.
Qed.

Lemma atoi_dec n : 0 <= n -> atoi (dec n) = Some n.
Proof.
  intros Hn. destruct (dec_spec n Hn) as (F & NE & V).
  destruct (dec n) as [|c t] eqn:E; [congruence|].
  assert (Hc : digit c) by (inversion F; assumption).
  unfold atoi.
  assert (c <> 43%N /\ c <> 45%N) as [H1 H2] by (unfold digit in Hc; lia).
  replace (match c with 43%N => _ | _ => _ end) with (atoi_digits (c :: t) 0).
  - rewrite atoi_digits_dval by exact F. now rewrite V.
  - destruct c as [|p]; [reflexivity|].
    do 6 (destruct p as [p|p|]; try reflexivity); try congruence.
Qed.

(* ---------- bytes.TrimSuffix, bytes.Index ---------- *)
Lemma bytes_eqb_refl a : bytes_eqb a a = true.
Proof. induction a as [|x a IH]; cbn; [reflexivity|]. now rewrite N.eqb_refl, IH. Qed.

Lemma trim_suffix_app x suf : trim_suffix (x ++ suf) suf = x.
Proof.
  unfold trim_suffix. rewrite app_length.
  replace (length x + length suf - length suf)%nat with (length x) by lia.
  assert (E : (length suf <=? length x + length suf)%nat = true) by (apply Nat.leb_le; lia).
  rewrite E. rewrite skipn_app, skipn_all, Nat.sub_diag. cbn [skipn app].
  rewrite bytes_eqb_refl. cbn [andb].
  rewrite firstn_app, firstn_all, Nat.sub_diag. cbn. now rewrite app_nil_r.
Qed.

Lemma has_prefix_app pat tl : has_prefix pat (pat ++ tl) = true.
Proof. induction pat as [|x p IH]; cbn; [reflexivity|]. now rewrite N.eqb_refl, IH. Qed.

Lemma bytes_index_here pat s : has_prefix pat s = true -> bytes_index pat s = Some O.
Proof. intros H. destruct s; cbn [bytes_index]; now rewrite H. Qed.

Lemma bytes_index_skip pat x s :
  has_prefix pat (x :: s) = false ->
  bytes_index pat (x :: s) = match bytes_index pat s with Some i => Some (S i) | None => None end.
Proof. intros H. cbn [bytes_index]. now rewrite H. Qed.

(* a single byte that does not occur before *)
Lemma bytes_index_byte c xs rest :
  ~ In c xs -> bytes_index [c] (xs ++ c :: rest) = Some (length xs).
Proof.
  induction xs as [|x xs IH]; intros Hn.
  - cbn [app length]. apply bytes_index_here. cbn. now rewrite N.eqb_refl.
  - cbn [app length]. rewrite bytes_index_skip.
    + rewrite IH; [reflexivity|]. intros Hc. apply Hn. now right.
    + cbn. assert (E : (c =? x)%N = false) by (apply N.eqb_neq; intros ->; apply Hn; now left). now rewrite E.
Qed.

(* the first 25 bytes of a record playlist *)
Definition rec_pre : bytes :=
  ([35; 69; 88; 84; 77; 51; 85; 10; 35; 69; 88; 84; 45; 88; 45; 86; 69; 82; 83; 73; 79; 78; 58; 51; 10])%N.

Lemma index_target_in_record tl : bytes_index target_tag (rec_pre ++ target_tag ++ tl) = Some 25%nat.
Proof.
  unfold rec_pre. cbn [app].
  do 25 (rewrite bytes_index_skip by reflexivity).
  rewrite bytes_index_here by apply has_prefix_app. reflexivity.
Qed.

Lemma digit_not_nl ds : Forall digit ds -> ~ In 10%N ds.
Proof. intros F H. rewrite Forall_forall in F. apply F in H. unfold digit in H. lia. Qed.

Lemma target_tag_no_nl : ~ In 10%N target_tag.
Proof. unfold target_tag. cbn. intuition discriminate. Qed.

(* updateTargetDurationInM3u8 on the text this muxer wrote *)
Lemma update_target_record T cur rest :
  0 <= T ->
  update_target (rec_pre ++ target_tag ++ dec T ++ 10%N :: rest) cur =
  Some (rec_pre ++ target_tag ++ dec (Z.max T cur) ++ 10%N :: rest)%list.
Proof.
  intros HT. unfold update_target. rewrite index_target_in_record.
  assert (Hsk : skipn 25 (rec_pre ++ target_tag ++ dec T ++ 10%N :: rest) = (target_tag ++ dec T ++ 10%N :: rest)%list).
  { change 25%nat with (length rec_pre). rewrite skipn_app, skipn_all, Nat.sub_diag. reflexivity. }
  rewrite Hsk.
  destruct (dec_spec T HT) as (FT & _ & _).
  assert (Hi : bytes_index [10%N] (target_tag ++ dec T ++ 10%N :: rest) = Some (length (target_tag ++ dec T))).
  { rewrite app_assoc. apply bytes_index_byte. intros H. apply in_app_or in H.
    destruct H as [H|H]; [now apply target_tag_no_nl|now apply (digit_not_nl _ FT)]. }
  rewrite Hi.
  assert (Hold : skipn (length target_tag) (firstn (length (target_tag ++ dec T)) (target_tag ++ dec T ++ 10%N :: rest)) = dec T).
  { rewrite app_assoc. rewrite firstn_app, firstn_all, Nat.sub_diag. cbn [firstn]. rewrite app_nil_r.
    rewrite skipn_app, skipn_all, Nat.sub_diag. reflexivity. }
  rewrite Hold, atoi_dec by exact HT.
  destruct (T <? cur) eqn:E.
  - apply Z.ltb_lt in E. rewrite Z.max_r by lia. f_equal.
    change 25%nat with (length rec_pre). rewrite firstn_app, firstn_all, Nat.sub_diag. cbn [firstn]. rewrite app_nil_r.
    f_equal. f_equal. f_equal.
    rewrite skipn_app. rewrite skipn_all2 by lia.
    replace (length rec_pre + length (target_tag ++ dec T) - length rec_pre)%nat with (length (target_tag ++ dec T)) by lia.
    cbn [app]. rewrite app_assoc. rewrite skipn_app, skipn_all, Nat.sub_diag. reflexivity.
  - apply Z.ltb_ge in E. rewrite Z.max_l by lia. reflexivity.
Qed.
