(* The invariant that ties the muxer's ring to the file system (DESIGN appendix A.2),
   the order on muxer states and the notion of an annotated operation sequence.
   Definitions only; proofs are in HlsInvProofs.v. *)
From Coq Require Import ZArith Bool List.
From Lal Require Import Common.LBytes Hls.HlsFloat Hls.HlsFs Hls.HlsPlaylist Hls.HlsParse Hls.HlsMuxer Hls.HlsConsistent.
Open Scope Z_scope.

(* number of fragments closed so far = id of the next / the open fragment *)
Definition nclosed (m : mux) : Z := m_frag m + m_nfrags m.
(* ring slot that holds fragment i *)
Definition sl (c : cfg) (m : mux) (i : Z) : finfo := get_slot m (Z.to_nat (i mod cap c)).
(* hls.Clock value at which fragment i was opened (ghost history) *)
Definition hnow (m : mux) (i : Z) : Z := nth (Z.to_nat i) (m_hist m) 0.
Definition b2z (b : bool) : Z := if b then 1 else 0.

Definition good_data (d : bytes) : Prop :=
  whole_pkts d /\ exists pp rest, d = (pp ++ rest)%list /\ good_pp pp.

Definition slot_is (c : cfg) (m : mux) (k i : Z) : Prop :=
  fi_id (sl c m k) = i /\ fi_named (sl c m k) = true /\ fi_now (sl c m k) = hnow m i.

Record Inv (c : cfg) (m : mux) (s : fs) : Prop := mkInv {
  inv_cfg : 1 <= c_num c /\ 0 <= c_thr c /\ 0 <= c_ms c <= 2 ^ 35 /\ stream_ok (c_stream c);
  inv_cnt : 0 <= m_frag m /\ 0 <= m_nfrags m <= c_num c /\ (m_nfrags m < c_num c -> m_frag m = 0);
  inv_len : length (m_frags m) = Z.to_nat (cap c);
  inv_hist : Z.of_nat (length (m_hist m)) = nclosed m + b2z (m_opened m);
  (* slot i mod cap holds fragment i for the last cap-1 closed fragments ... *)
  inv_ring : forall i, 0 <= i -> nclosed m - cap c < i < nclosed m -> slot_is c m i i;
  (* ... and for the open one *)
  inv_open : m_opened m = true -> slot_is c m (nclosed m) (nclosed m) /\ m_cur m = PTs (hnow m (nclosed m)) (nclosed m);
  (* between close and open the next slot still holds the fragment that left the window: getDeleteFrag *)
  inv_old : m_opened m = false -> cap c <= nclosed m -> slot_is c m (nclosed m) (nclosed m - cap c);
  (* slots never used have no file name *)
  inv_fresh : forall j : nat, nclosed m + b2z (m_opened m) <= Z.of_nat j < cap c -> fi_named (get_slot m j) = false;
  (* the last cap-1 closed fragments are on disk, closed, whole packets, PAT/PMT first *)
  inv_files : forall i, 0 <= i -> nclosed m - cap c < i < nclosed m ->
              exists f, fs_lookup (PTs (hnow m i) i) s = Some f /\ fclosed f = true /\ good_data (fdata f);
  inv_cur : m_opened m = true -> exists f, fs_lookup (m_cur m) s = Some f /\ good_data (fdata f);
  (* the live playlist is the one written at the last close *)
  inv_live0 : nclosed m = 0 -> fs_lookup PLive s = None;
  inv_live : 0 < nclosed m ->
             exists e, fs_lookup PLive s = Some (mkfile (print_live (c_stream c) (live_playlist c m e)) true);
  (* every duration in the ring is a sane float *)
  inv_dur : forall j : nat, dur_ok (fi_dur (get_slot m j))
}.

(* order on muxer states within one directory life *)
Definition mle (m1 m2 : mux) : Prop :=
  nclosed m1 <= nclosed m2 /\ m_frag m1 <= m_frag m2 /\ exists l, m_hist m2 = (m_hist m1 ++ l)%list.

(* one operation moves the logical muxer state from m to m1 *)
Definition rstep (c : cfg) (m : mux) (o : op) (m1 : mux) : Prop :=
  match o with
  | ORemoveAll _ => m1 = new_mux c
  | _ => mle m m1 /\ nclosed m1 = nclosed m + (if is_live_replace o then 1 else 0)
  end.

(* an operation sequence every prefix of which is described by some muxer state *)
Inductive chain (c : cfg) : mux -> fs -> list op -> mux -> Prop :=
| ch_nil m s : chain c m s [] m
| ch_cons m s o m1 ops m2 :
    rstep c m o m1 -> Inv c m1 (apply s o) -> chain c m1 (apply s o) ops m2 -> chain c m s (o :: ops) m2
| ch_silent m s m1 ops m2 :
    mle m m1 -> nclosed m1 = nclosed m -> Inv c m1 s -> chain c m1 s ops m2 -> chain c m s ops m2.

(* configurations the theorems are about *)
Definition cfg_ok (c : cfg) : Prop := 1 <= c_num c /\ 0 <= c_thr c /\ 0 <= c_ms c <= 2 ^ 35 /\ stream_ok (c_stream c).

(* ---- well-formed histories ---- *)
Inductive phase := Clean | Alive (ready : bool) | Dirty.

Definition in_u64 (z : Z) : Prop := 0 <= z < 18446744073709551616.

Fixpoint wf_evs (c : cfg) (st : phase) (evs : list event) : Prop :=
  match evs with
  | [] => True
  | e :: t =>
      match st, e with
      | Clean, EvNew => wf_evs c (Alive false) t
      | Clean, _ => wf_evs c Clean t
      | Alive r, EvNew => wf_evs c (Alive r) t
      | Alive r, EvCleanup => wf_evs c (Alive r) t
      | Alive r, EvPatPmt b => good_pp b /\ wf_evs c (Alive true) t
      | Alive r, EvFeed _ _ _ _ _ pk => r = true /\ whole_pkts pk /\ wf_evs c (Alive r) t
      | Alive r, EvDispose => wf_evs c Dirty t
      | Dirty, EvCleanup => wf_evs c (if (c_mode c =? 1) || (c_mode c =? 2) then Clean else Dirty) t
      | Dirty, EvNew => False            (* re-publish over the old directory: see c10_republish_seq_refuted *)
      | Dirty, _ => wf_evs c Dirty t
      end
  end.
