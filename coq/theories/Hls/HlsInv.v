(* The invariant that ties the muxer's ring to the file system (DESIGN appendix A.2),
   the order on muxer states and the notion of an annotated operation sequence.
   Definitions only; proofs are in HlsInvProofs.v. *)
From Coq Require Import ZArith Bool List.
From Lal Require Import Common.LBytes Hls.HlsFloat Hls.HlsFs Hls.HlsPlaylist Hls.HlsParse Hls.HlsMuxer Hls.HlsConsistent.
Open Scope Z_scope.

(* number of fragments closed so far = id of the next / the open fragment *)
Definition nclosed (m : mux) : Z := m_frag m + m_nfrags m.
(* ring slot that holds fragment i *)
Definition sl (c : cfg) (m : mux) (i : Z) : finfo := get_slot m (Z.to_nat (i mod cap c)).
(* hls.Clock value at which fragment i was opened (ghost history of THIS muxer: fragments m_base, m_base+1, ...) *)
Definition hnow (m : mux) (i : Z) : Z := nth (Z.to_nat (i - m_base m)) (m_hist m) 0.
Definition b2z (b : bool) : Z := if b then 1 else 0.

Definition good_data (d : bytes) : Prop :=
  whole_pkts d /\ exists pp rest, d = (pp ++ rest)%list /\ good_pp pp.

Definition slot_is (c : cfg) (m : mux) (k i : Z) : Prop :=
  fi_id (sl c m k) = i /\ fi_named (sl c m k) = true /\ fi_now (sl c m k) = hnow m i.

(* ---- the live playlist a previous publication left in the directory (re-publish without cleanup) ---- *)
Definition pl_sane (p : playlist) : Prop :=
  0 <= pl_target p /\ 0 <= pl_seq p /\ Forall (fun s => 0 <= f_num (s_dur s)) (pl_segs p).

(* a segment it lists: numbered below everything this muxer will create, on disk and well-formed *)
Definition prev_seg_ok (m : mux) (s : fs) (T : Z) (sg : seg) : Prop :=
  listed_seconds sg <= T /\ s_id sg < m_base m /\ seg_file_ok s sg.

(* until this muxer publishes its first playlist: either there is no live playlist (then Start began at 0), or it is
   the complete, consistent playlist of a previous publication whose numbering Start carried on with *)
Definition prev_ok (c : cfg) (m : mux) (s : fs) : Prop :=
  match fs_lookup PLive s with
  | None => m_base m = 0 /\ m_pfrag m = 0
  | Some f => exists pl, f = mkfile (print_live (c_stream c) pl) true /\ pl_sane pl /\ pl_seq pl = m_pfrag m /\
                         pl_seq pl + Z.of_nat (length (pl_segs pl)) = m_base m /\
                         Forall (prev_seg_ok m s (pl_target pl)) (pl_segs pl)
  end.

Record Inv (c : cfg) (m : mux) (s : fs) : Prop := mkInv {
  inv_cfg : 1 <= c_num c /\ 0 <= c_thr c /\ 0 <= c_ms c <= 2 ^ 35 /\ stream_ok (c_stream c);
  inv_cnt : 0 <= m_pfrag m <= m_base m /\ m_base m <= m_frag m /\ 0 <= m_nfrags m <= c_num c /\
            (m_nfrags m < c_num c -> m_frag m = m_base m);
  inv_len : length (m_frags m) = Z.to_nat (cap c);
  inv_hist : Z.of_nat (length (m_hist m)) = nclosed m - m_base m + b2z (m_opened m);
  (* slot i mod cap holds fragment i for the last cap-1 closed fragments of this muxer ... *)
  inv_ring : forall i, m_base m <= i -> nclosed m - cap c < i < nclosed m -> slot_is c m i i;
  (* ... and for the open one *)
  inv_open : m_opened m = true -> slot_is c m (nclosed m) (nclosed m) /\ m_cur m = PTs (hnow m (nclosed m)) (nclosed m);
  (* between close and open the next slot still holds the fragment that left the window: getDeleteFrag *)
  inv_old : m_opened m = false -> m_base m + cap c <= nclosed m -> slot_is c m (nclosed m) (nclosed m - cap c);
  (* slots not used yet (first lap of the ring) have no file name *)
  inv_fresh : forall i, nclosed m + b2z (m_opened m) <= i < m_base m + cap c -> fi_named (sl c m i) = false;
  (* the last cap-1 closed fragments are on disk, closed, whole packets, PAT/PMT first *)
  inv_files : forall i, m_base m <= i -> nclosed m - cap c < i < nclosed m ->
              exists f, fs_lookup (PTs (hnow m i) i) s = Some f /\ fclosed f = true /\ good_data (fdata f);
  inv_cur : m_opened m = true -> exists f, fs_lookup (m_cur m) s = Some f /\ good_data (fdata f);
  (* before the first close: whatever Start found *)
  inv_live0 : nclosed m = m_base m -> prev_ok c m s;
  (* afterwards the live playlist is the one written at the last close *)
  inv_live : m_base m < nclosed m ->
             exists e, fs_lookup PLive s = Some (mkfile (print_live (c_stream c) (live_playlist c m e)) true);
  (* every duration in the ring is a sane float *)
  inv_dur : forall j : nat, dur_ok (fi_dur (get_slot m j))
}.

(* the media sequence number the live playlist shows (if there is one) *)
Definition shown (m : mux) : Z := if nclosed m =? m_base m then m_pfrag m else m_frag m.

(* order on muxer states within one directory life (across publications) *)
Definition mle (m1 m2 : mux) : Prop := nclosed m1 <= nclosed m2 /\ shown m1 <= shown m2 /\ m_base m1 <= m_base m2.
(* ... and within one publication *)
Definition same_pub (m1 m2 : mux) : Prop := m_base m1 = m_base m2 /\ exists l, m_hist m2 = (m_hist m1 ++ l)%list.

(* the paths an operation can change *)
Definition op_paths (o : op) : list path :=
  match o with
  | OMkdirAll _ | OReadFile _ _ => []
  | OCreate q | OWrite q _ | OClose q | OWriteFile q _ | ORemove q => [q]
  | ORename a b => [a; b]
  | ORemoveAll _ => []
  end.
(* it touches no segment numbered below b (= no file of a previous publication) *)
Definition touch_ok (b : Z) (o : op) : Prop :=
  forall p, In p (op_paths o) -> match p with PTs _ id => b <= id | _ => True end.

(* one operation moves the logical muxer state from m to m1 *)
Definition rstep (c : cfg) (m : mux) (o : op) (m1 : mux) : Prop :=
  match o with
  | ORemoveAll _ => m1 = new_mux c
  | OMkdirAll _ => mle m m1 /\ nclosed m1 = nclosed m /\ m_base m1 = nclosed m1   (* Muxer.Start: a publication begins *)
  | _ => mle m m1 /\ same_pub m m1 /\ nclosed m1 = nclosed m + (if is_live_replace o then 1 else 0) /\ touch_ok (m_base m) o
  end.

(* an operation sequence every prefix of which is described by some muxer state *)
Inductive chain (c : cfg) : mux -> fs -> list op -> mux -> Prop :=
| ch_nil m s : chain c m s [] m
| ch_cons m s o m1 ops m2 :
    rstep c m o m1 -> Inv c m1 (apply s o) -> chain c m1 (apply s o) ops m2 -> chain c m s (o :: ops) m2
| ch_silent m s m1 ops m2 :
    mle m m1 -> same_pub m m1 -> nclosed m1 = nclosed m -> Inv c m1 s -> chain c m1 s ops m2 -> chain c m s ops m2.

(* configurations the theorems are about *)
Definition cfg_ok (c : cfg) : Prop := 1 <= c_num c /\ 0 <= c_thr c /\ 0 <= c_ms c <= 2 ^ 35 /\ stream_ok (c_stream c).

(* ---- well-formed histories ---- *)
Inductive phase := Clean | Alive (ready : bool) | Dirty.

Definition in_u64 (z : Z) : Prop := 0 <= z < 18446744073709551616.

(* n: an upper bound of the number of fragments closed since the directory was last empty (a frame closes at most
   two, Dispose one).  Re-publishing over the directory of the previous publication carries on with its numbering
   provided that number is below 2^31 (calcNextSeqInM3u8 refuses larger values). *)
Fixpoint wf_evs (c : cfg) (st : phase) (n : Z) (evs : list event) : Prop :=
  match evs with
  | [] => True
  | e :: t =>
      match st, e with
      | Clean, EvNew => wf_evs c (Alive false) n t
      | Clean, _ => wf_evs c Clean n t
      | Alive r, EvNew => wf_evs c (Alive r) n t
      | Alive r, EvCleanup => wf_evs c (Alive r) n t
      | Alive r, EvPatPmt b => good_pp b /\ wf_evs c (Alive true) n t
      | Alive r, EvFeed _ _ _ _ _ pk => r = true /\ whole_pkts pk /\ wf_evs c (Alive r) (n + 2) t
      | Alive r, EvDispose => wf_evs c Dirty (n + 1) t
      | Dirty, EvCleanup => if (c_mode c =? 1) || (c_mode c =? 2) then wf_evs c Clean 0 t else wf_evs c Dirty n t
      | Dirty, EvNew => n <= max_int32 /\ wf_evs c (Alive false) n t
      | Dirty, _ => wf_evs c Dirty n t
      end
  end.
