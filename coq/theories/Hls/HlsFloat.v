(* Exact model of the float64 arithmetic hls.Muxer performs on durations:
   a value is a non-negative dyadic rational m * 2^e; every operation computes
   the exact result and rounds it to 53 significant bits, ties to even (IEEE 754
   binary64; subnormals, overflow and negative values cannot arise here:
   all values are 0 or lie between 1/90000 and 2^63).  No proofs in this file. *)
From Coq Require Import ZArith Bool List.
From Lal Require Import Common.LBytes.
Open Scope Z_scope.

Record fl := mkfl { fm : Z; fe : Z }.          (* value = fm * 2^fe, fm >= 0 *)

Definition fl0 : fl := mkfl 0 0.

(* nearest, ties to even, of q + r/den *)
Definition rne (q r den : Z) : Z :=
  if (den <? 2 * r) || ((den =? 2 * r) && Z.odd q) then q + 1 else q.

Definition scale_frac (n d s : Z) : Z * Z :=
  if 0 <=? s then (n, d * 2 ^ s) else (n * 2 ^ (- s), d).

(* n / d  (n >= 0, d > 0) rounded to 53 significant bits *)
Definition rnd53 (n d : Z) : fl :=
  if n <=? 0 then fl0 else
  let s0 := Z.log2 n - Z.log2 d - 52 in
  let '(n1, d1) := scale_frac n d s0 in
  let s := if n1 / d1 <? 2 ^ 52 then s0 - 1 else s0 in
  let '(n2, d2) := scale_frac n d s in
  mkfl (rne (n2 / d2) (n2 mod d2) d2) s.

(* float64(int) / float64(uint64) conversion *)
Definition f_of_Z (z : Z) : fl := rnd53 z 1.

(* the value as a fraction num/den *)
Definition f_num (a : fl) : Z := if 0 <=? fe a then fm a * 2 ^ fe a else fm a.
Definition f_den (a : fl) : Z := if 0 <=? fe a then 1 else 2 ^ (- fe a).

Definition f_div (a b : fl) : fl := rnd53 (f_num a * f_den b) (f_den a * f_num b).
Definition f_add (a b : fl) : fl := rnd53 (f_num a * f_den b + f_num b * f_den a) (f_den a * f_den b).
Definition f_ltb (a b : fl) : bool := f_num a * f_den b <? f_num b * f_den a.
(* Go int(x): truncation *)
Definition f_trunc (a : fl) : Z := f_num a / f_den a.

Definition f_half : fl := mkfl 1 (-1).
Definition f_mul (a b : fl) : fl := rnd53 (f_num a * f_num b) (f_den a * f_den b).
(* Go int(math.Round(x)), x >= 0: nearest integer, halves away from zero (exact) *)
Definition f_round (a : fl) : Z := (2 * f_num a + f_den a) / (2 * f_den a).

(* the value in 1/1000 units, rounded to nearest, ties to even: the digits "%.3f" prints *)
Definition f_millis (a : fl) : Z :=
  let n := f_num a * 1000 in
  rne (n / f_den a) (n mod f_den a) (f_den a).

(* durations the muxer stores: non-negative and not above 2^40 seconds (stated on the fraction) *)
Definition dur_ok (a : fl) : Prop := (0 <= f_num a /\ f_num a <= 2 ^ 40 * f_den a)%Z.

(* ---- decimal text ---- *)
Open Scope N_scope.
Fixpoint dec_go (fuel : nat) (n : Z) (acc : bytes) : bytes :=
  match fuel with
  | O => acc
  | S f =>
      let acc' := (48 + Z.to_N (n mod 10)%Z) :: acc in
      if (n <? 10)%Z then acc' else dec_go f (n / 10)%Z acc'
  end.
(* fmt "%d" *)
Definition dec (n : Z) : bytes :=
  if (n <? 0)%Z then 45 :: dec_go (S (Z.to_nat (Z.log2 (- n)))) (- n)%Z []
  else dec_go (S (Z.to_nat (Z.log2 n))) n [].

(* fmt "%.3f" of a non-negative value *)
Definition fmt3 (a : fl) : bytes :=
  let q := f_millis a in
  dec (q / 1000)%Z ++ [46; 48 + Z.to_N (q / 100 mod 10)%Z; 48 + Z.to_N (q / 10 mod 10)%Z; 48 + Z.to_N (q mod 10)%Z].
