(* Model of pkg/hls/muxer.go (hls.Muxer) together with the way logic.Group and
   ServerManager.CleanupHlsIfNeeded drive it.  The OUTPUT of the model is the
   sequence of file-system-layer calls.  Time stamps are 90 kHz ticks (Z,
   uint64 in Go); durations are float64 (HlsFloat).  No proofs in this file. *)
From Coq Require Import ZArith Bool List.
From Lal Require Import Common.LBytes Hls.HlsFloat Hls.HlsFs Hls.HlsPlaylist.
Open Scope Z_scope.

Record cfg := mkcfg {
  c_stream : bytes;      (* stream name *)
  c_ms : Z;              (* fragment_duration_ms *)
  c_num : Z;             (* fragment_num *)
  c_thr : Z;             (* delete_threshold *)
  c_mode : Z             (* cleanup_mode: 0 never, 1 in the end, 2 asap *)
}.

(* fragmentInfo; filename = "" is fi_named = false, else <stream>-<fi_now>-<fi_id>.ts *)
Record finfo := mkfi { fi_id : Z; fi_dur : fl; fi_discont : bool; fi_named : bool; fi_now : Z }.
Definition fi0 : finfo := mkfi 0 fl0 false false 0.

Record mux := mkmux {
  m_opened : bool;
  m_fragts : Z;
  m_recmax : fl;         (* recordMaxFragDuration *)
  m_nfrags : Z;
  m_frag : Z;
  m_frags : list finfo;  (* ring of fragsCapacity() slots *)
  m_patpmt : bytes;
  m_cur : path;          (* Fragment.fp: the file the open handle refers to *)
  m_hist : list Z;       (* GHOST (never read by the model): hls.Clock value of every fragment this muxer opened so far, oldest first *)
  m_base : Z;            (* GHOST: the value frag was started with (Muxer.Start / resumeSeq) *)
  m_pfrag : Z            (* GHOST: EXT-X-MEDIA-SEQUENCE of the live playlist Start found (0 when there was none) *)
}.

Definition cap (c : cfg) : Z := c_num c + c_thr c + 1.

(* NewMuxer *)
Definition new_mux (c : cfg) : mux :=
  mkmux false 0 fl0 0 0 (repeat fi0 (Z.to_nat (cap c))) [] PDir [] 0 0.

(* Muxer.Start: ensureDir, then resumeSeq (added by the re-publish fix): when the directory holds a live playlist
   with a sane EXT-X-MEDIA-SEQUENCE, frag carries on after the last segment it lists.  s = file system on entry *)
Definition start_mux (c : cfg) (s : fs) : mux * list op :=
  match fs_lookup PLive s with
  | Some f =>
      (match next_seq (fdata f) with
       | Some (q, n) => mkmux false 0 fl0 0 (q + n) (repeat fi0 (Z.to_nat (cap c))) [] PDir [] (q + n) q
       | None => new_mux c
       end, [OMkdirAll PDir; OReadFile PLive true])
  | None => (new_mux c, [OMkdirAll PDir; OReadFile PLive false])
  end.

Definition slot (c : cfg) (m : mux) (n : Z) : nat := Z.to_nat ((m_frag m + n) mod cap c).
Definition get_slot (m : mux) (i : nat) : finfo := nth i (m_frags m) fi0.
Definition get_frag (c : cfg) (m : mux) (n : Z) : finfo := get_slot m (slot c m n).

Fixpoint set_nth {A} (i : nat) (x : A) (l : list A) : list A :=
  match l, i with
  | [], _ => []
  | _ :: t, O => x :: t
  | h :: t, S k => h :: set_nth k x t
  end.

Definition with_frags (m : mux) (fr : list finfo) : mux :=
  mkmux (m_opened m) (m_fragts m) (m_recmax m) (m_nfrags m) (m_frag m) fr (m_patpmt m) (m_cur m) (m_hist m) (m_base m) (m_pfrag m).
Definition set_slot (m : mux) (i : nat) (f : finfo) : mux := with_frags m (set_nth i f (m_frags m)).

(* incrFrag *)
Definition incr_frag (c : cfg) (m : mux) : mux :=
  if m_nfrags m =? c_num c
  then mkmux (m_opened m) (m_fragts m) (m_recmax m) (m_nfrags m) (m_frag m + 1) (m_frags m) (m_patpmt m) (m_cur m) (m_hist m) (m_base m) (m_pfrag m)
  else mkmux (m_opened m) (m_fragts m) (m_recmax m) (m_nfrags m + 1) (m_frag m) (m_frags m) (m_patpmt m) (m_cur m) (m_hist m) (m_base m) (m_pfrag m).

Definition seg_of (f : finfo) : seg := mkseg (fi_now f) (fi_id f) (fi_dur f) (fi_discont f).
Definition fi_path (f : finfo) : path := PTs (fi_now f) (fi_id f).

(* iterateFragsInPlaylist: slots frag .. frag+nfrags-1 *)
Definition frags_in_playlist (c : cfg) (m : mux) : list finfo :=
  map (fun k => get_frag c m (Z.of_nat k)) (seq 0 (Z.to_nat (m_nfrags m))).

Definition frag_target (c : cfg) : fl := f_div (f_of_Z (c_ms c)) (f_of_Z 1000).

(* writePlaylist as shipped (pinned tree): the running maximum carries the +0.5
   and the result is truncated.  Kept for c10_target_orig_refuted (F-16). *)
Definition live_target_orig (c : cfg) (l : list finfo) : Z :=
  f_trunc (fold_left (fun mx f => if f_ltb mx (fi_dur f) then f_add (fi_dur f) f_half else mx) l (frag_target c)).

(* calcTargetDuration (added by the fix): (int(math.Round(maxDuration*1000)) + 500) / 1000 *)
Definition calc_target (mx : fl) : Z := (f_round (f_mul mx (f_of_Z 1000)) + 500) / 1000.

(* writePlaylist after the fix: plain maximum of fragment_duration_ms/1000 and the listed durations *)
Definition max_dur (l : list finfo) (init : fl) : fl :=
  fold_left (fun mx f => if f_ltb mx (fi_dur f) then fi_dur f else mx) l init.
Definition live_target (c : cfg) (l : list finfo) : Z := calc_target (max_dur l (frag_target c)).

Definition live_playlist (c : cfg) (m : mux) (is_last : bool) : playlist :=
  let l := frags_in_playlist c m in
  mkpl (live_target c l) (m_frag m) (map seg_of l) is_last.

Definition with_recmax (m : mux) (r : fl) : mux :=
  mkmux (m_opened m) (m_fragts m) r (m_nfrags m) (m_frag m) (m_frags m) (m_patpmt m) (m_cur m) (m_hist m) (m_base m) (m_pfrag m).

(* writeRecordPlaylist; s = file system at the moment of the ReadFile *)
Definition write_record (c : cfg) (m : mux) (s : fs) : mux * list op :=
  let cur := get_frag c m (m_nfrags m - 1) in
  let m1 := if f_ltb (m_recmax m) (fi_dur cur) then with_recmax m (fi_dur cur) else m in
  let tgt := calc_target (m_recmax m1) in
  let sg := seg_of cur in
  match fs_lookup PRec s with
  | Some f =>
      let content := trim_suffix (fdata f) endlist in
      match update_target content tgt with
      | None => (m1, [OReadFile PRec true])
      | Some content' =>
          (m1, [OReadFile PRec true;
                OWriteFile PRecBak (content' ++ seg_lines (c_stream c) sg ++ endlist)%list;
                ORename PRecBak PRec])
      end
  | None =>
      (m1, [OReadFile PRec false;
            OWriteFile PRecBak (print_record (c_stream c) (mkpl tgt 0 [sg] true));
            ORename PRecBak PRec])
  end.

(* closeFragment; s = file system on entry *)
Definition close_fragment (c : cfg) (m : mux) (s : fs) (is_last : bool) : mux * list op :=
  if negb (m_opened m) then (m, []) else
  let m1 := incr_frag c (mkmux false (m_fragts m) (m_recmax m) (m_nfrags m) (m_frag m) (m_frags m) (m_patpmt m) (m_cur m) (m_hist m) (m_base m) (m_pfrag m)) in
  let ops1 := [OClose (m_cur m);
               OWriteFile PLiveBak (print_live (c_stream c) (live_playlist c m1 is_last));
               ORename PLiveBak PLive] in
  let '(m2, ops2) :=
    if (c_mode c =? 0) || (c_mode c =? 1) then write_record c m1 (apply_all s ops1) else (m1, []) in
  let ops3 :=
    if c_mode c =? 2 then
      let d := get_frag c m2 (m_nfrags m2) in          (* getDeleteFrag *)
      if fi_named d then [ORemove (fi_path d)] else []
    else [] in
  (m2, ops1 ++ ops2 ++ ops3)%list.

(* openFragment (only ever called with opened = false) *)
Definition open_fragment (c : cfg) (m : mux) (ts : Z) (discont : bool) (now : Z) : mux * list op :=
  let id := m_frag m + m_nfrags m in
  let p := PTs now id in
  let fr := set_nth (slot c m (m_nfrags m)) (mkfi id fl0 discont true now) (m_frags m) in
  (mkmux true ts (m_recmax m) (m_nfrags m) (m_frag m) fr (m_patpmt m) p (m_hist m ++ [now])%list (m_base m) (m_pfrag m),
   [OCreate p; OWrite p (m_patpmt m)]).

Definition neg_max_fraglen : Z := 1000 * 90.

(* closeFragment(false) followed by openFragment(ts, discont), when the caller says so *)
Definition reopen (c : cfg) (m0 : mux) (s0 : fs) (ts : Z) (doit discont : bool) (now : Z) : mux * list op :=
  if doit then
    let '(m1, o1) := close_fragment c m0 s0 false in
    let '(m2, o2) := open_fragment c m1 ts discont now in
    (m2, o1 ++ o2)%list
  else (m0, []).

(* "force fragment split": more than 10 target durations ahead of, or more than 1 s behind, the fragment's first time stamp *)
Definition force_split (c : cfg) (m : mux) (ts : Z) : bool :=
  ((m_fragts m <? ts) && (c_ms c * 90 * 10 <? ts - m_fragts m)) || ((ts <? m_fragts m) && (neg_max_fraglen <? m_fragts m - ts)).

(* f.duration = max(f.duration, (ts - fragTs)/90000), f = the ring slot taken BEFORE a forced split *)
Definition upd_dur (m1 : mux) (fslot : nat) (ts : Z) : mux :=
  if m_fragts m1 <? ts then
    let d := f_div (f_of_Z (ts - m_fragts m1)) (f_of_Z 90000) in
    let f := get_slot m1 fslot in
    if f_ltb (fi_dur f) d
    then set_slot m1 fslot (mkfi (fi_id f) d (fi_discont f) (fi_named f) (fi_now f))
    else m1
  else m1.

(* updateFragment *)
Definition update_fragment (c : cfg) (m : mux) (s : fs) (ts : Z) (boundary : bool) (now : Z) : mux * list op :=
  if m_opened m then
    let fslot := slot c m (m_nfrags m) in               (* f := m.getCurrFrag(), a pointer into the ring *)
    let '(m1, o1) := if force_split c m ts then reopen c m s ts true true now else (m, []) in
    let m2 := upd_dur m1 fslot ts in
    if f_ltb (fi_dur (get_slot m2 fslot)) (frag_target c) then (m2, o1)
    else
      let '(m3, o3) := reopen c m2 (apply_all s o1) ts boundary false now in
      (m3, o1 ++ o3)%list
  else reopen c m s ts boundary true now.

Inductive event :=
| EvNew                                            (* Group.startHlsIfNeeded: NewMuxer + Start *)
| EvPatPmt (b : bytes)                             (* FeedPatPmt *)
| EvFeed (audio : bool) (pts dts : Z) (boundary : bool) (now : Z) (pk : bytes)   (* FeedMpegts; hls.Clock reads now (ms) *)
| EvDispose                                        (* Group.stopHlsIfNeeded: Dispose; hlsMuxer = nil *)
| EvCleanup.                                       (* the moment the deferred task of ServerManager.CleanupHlsIfNeeded would fire *)

Record world := mkworld { w_mux : option mux; w_fs : fs }.

Definition with_patpmt (m : mux) (b : bytes) : mux :=
  mkmux (m_opened m) (m_fragts m) (m_recmax m) (m_nfrags m) (m_frag m) (m_frags m) b (m_cur m) (m_hist m) (m_base m) (m_pfrag m).

(* FeedMpegts *)
Definition feed (c : cfg) (m : mux) (s : fs) (audio : bool) (pts dts : Z) (boundary : bool) (now : Z) (pk : bytes) : mux * list op :=
  let ts := if audio then pts else dts in
  let '(m1, o1) := update_fragment c m s ts boundary now in
  if m_opened m1 then (m1, o1 ++ [OWrite (m_cur m1) pk])%list else (m1, o1).

Definition step (c : cfg) (w : world) (e : event) : option mux * list op :=
  match e, w_mux w with
  | EvNew, None => let '(m, o) := start_mux c (w_fs w) in (Some m, o)
  | EvNew, Some m => (Some m, [])
  | EvPatPmt b, Some m => (Some (with_patpmt m b), [])
  | EvFeed a p d b n pk, Some m => let '(m1, o) := feed c m (w_fs w) a p d b n pk in (Some m1, o)
  | EvDispose, Some m => let '(_, o) := close_fragment c m (w_fs w) true in (None, o)
  | EvCleanup, None =>                              (* no muxer alive: hls.RemoveAll(outPath); scheduled in modes 1 and 2 only *)
      (None, if (c_mode c =? 1) || (c_mode c =? 2) then [ORemoveAll PDir] else [])
  | EvCleanup, Some m => (Some m, [])               (* "cancel cleanup ... since hls muxer still alive" *)
  | _, None => (None, [])
  end.

Fixpoint run_from (c : cfg) (w : world) (evs : list event) : list op :=
  match evs with
  | [] => []
  | e :: t =>
      let '(m, o) := step c w e in
      (o ++ run_from c (mkworld m (apply_all (w_fs w) o)) t)%list
  end.

Definition world0 : world := mkworld None [].
Definition run (c : cfg) (evs : list event) : list op := run_from c world0 evs.

(* the pinned tree (before the re-publish fix): Muxer.Start = ensureDir only, every muxer numbers from 0.
   Kept for c10_republish_seq_orig_refuted; not extracted. *)
Definition step_orig (c : cfg) (w : world) (e : event) : option mux * list op :=
  match e, w_mux w with
  | EvNew, None => (Some (new_mux c), [OMkdirAll PDir])
  | _, _ => step c w e
  end.
Fixpoint run_from_orig (c : cfg) (w : world) (evs : list event) : list op :=
  match evs with
  | [] => []
  | e :: t =>
      let '(m, o) := step_orig c w e in
      (o ++ run_from_orig c (mkworld m (apply_all (w_fs w) o)) t)%list
  end.
Definition run_orig (c : cfg) (evs : list event) : list op := run_from_orig c world0 evs.

(* ---- rendering for the correspondence check ---- *)
Definition render_dir (root : bytes) (c : cfg) : bytes := (root ++ [47%N] ++ c_stream c)%list.
Definition render_path (root : bytes) (c : cfg) (p : path) : bytes :=
  match p with
  | PDir => render_dir root c
  | PLive => (render_dir root c ++ (* "/playlist.m3u8" *) [47; 112; 108; 97; 121; 108; 105; 115; 116; 46; 109; 51; 117; 56]%N)%list
  | PLiveBak => (render_dir root c ++ (* "/playlist.m3u8.bak" *) [47; 112; 108; 97; 121; 108; 105; 115; 116; 46; 109; 51; 117; 56; 46; 98; 97; 107]%N)%list
  | PRec => (render_dir root c ++ (* "/record.m3u8" *) [47; 114; 101; 99; 111; 114; 100; 46; 109; 51; 117; 56]%N)%list
  | PRecBak => (render_dir root c ++ (* "/record.m3u8.bak" *) [47; 114; 101; 99; 111; 114; 100; 46; 109; 51; 117; 56; 46; 98; 97; 107]%N)%list
  | PTs now id => (render_dir root c ++ [47%N] ++ ts_name (c_stream c) now id)%list
  end.
