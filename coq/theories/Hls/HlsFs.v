(* The file system the HLS muxer writes to, as seen through
   naza filesystemlayer.IFileSystemLayer: paths of one stream directory,
   files = (content, closed?), and the effect of every layer call.
   Calls are assumed to succeed (DESIGN appendix A.2).  No proofs here. *)
From Coq Require Import ZArith Bool List.
From Lal Require Import Common.LBytes.
Open Scope Z_scope.

Inductive path :=
| PDir                    (* <root>/<stream> *)
| PLive | PLiveBak        (* playlist.m3u8, playlist.m3u8.bak *)
| PRec | PRecBak          (* record.m3u8, record.m3u8.bak *)
| PTs (now id : Z).       (* <stream>-<now>-<id>.ts *)

Definition path_eqb (a b : path) : bool :=
  match a, b with
  | PDir, PDir | PLive, PLive | PLiveBak, PLiveBak | PRec, PRec | PRecBak, PRecBak => true
  | PTs n i, PTs n' i' => (n =? n') && (i =? i')
  | _, _ => false
  end.

Record file := mkfile { fdata : bytes; fclosed : bool }.
Definition fs := list (path * file).

Fixpoint fs_lookup (p : path) (s : fs) : option file :=
  match s with
  | [] => None
  | (q, f) :: t => if path_eqb p q then Some f else fs_lookup p t
  end.

Fixpoint fs_remove (p : path) (s : fs) : fs :=
  match s with
  | [] => []
  | (q, f) :: t => if path_eqb p q then fs_remove p t else (q, f) :: fs_remove p t
  end.

Definition fs_set (p : path) (f : file) (s : fs) : fs := (p, f) :: fs_remove p s.

Inductive op :=
| OMkdirAll (p : path)
| OCreate (p : path)
| OWrite (p : path) (b : bytes)       (* IFile.Write on the handle Create(p) returned *)
| OClose (p : path)                   (* IFile.Close *)
| OWriteFile (p : path) (b : bytes)
| ORename (src dst : path)
| ORemove (p : path)
| OReadFile (p : path) (found : bool)
| ORemoveAll (p : path).

Definition apply (s : fs) (o : op) : fs :=
  match o with
  | OMkdirAll _ => s
  | OCreate p => fs_set p (mkfile [] false) s
  | OWrite p b => match fs_lookup p s with Some f => fs_set p (mkfile (fdata f ++ b) (fclosed f)) s | None => s end
  | OClose p => match fs_lookup p s with Some f => fs_set p (mkfile (fdata f) true) s | None => s end
  | OWriteFile p b => fs_set p (mkfile b true) s
  | ORename a b => match fs_lookup a s with Some f => fs_set b f (fs_remove a s) | None => s end
  | ORemove p => fs_remove p s
  | OReadFile _ _ => s
  | ORemoveAll _ => []               (* every modelled path lies under the stream directory *)
  end.

Definition apply_all (s : fs) (l : list op) : fs := fold_left apply l s.
