(* Proofs about the end of a publication: after Dispose the live playlist carries the end marker. *)
From Coq Require Import ZArith Bool List Lia.
From Lal Require Import Common.LBytes Hls.HlsFloat Hls.HlsFs Hls.HlsPlaylist Hls.HlsMuxer Hls.HlsConsistent
  Hls.HlsFsProofs Hls.HlsFloatProofs Hls.HlsInv Hls.HlsInvProofs Hls.HlsRunProofs Hls.HlsTraceProofs.
Open Scope Z_scope.

(* once a fragment has been opened the muxer stays "opened" until Dispose *)
Lemma open_opened c m ts d now : m_opened (fst (open_fragment c m ts d now)) = true.
Proof. reflexivity. Qed.

Lemma reopen_opened c m s ts doit d now :
  m_opened (fst (reopen c m s ts doit d now)) = true \/ (doit = false /\ reopen c m s ts doit d now = (m, [])).
Proof.
  unfold reopen. destruct doit; [left|right; auto].
  destruct (close_fragment c m s false) as [m1 o1]. destruct (open_fragment c m1 ts d now) as [m2 o2] eqn:E.
  cbn. change m2 with (fst (m2, o2)). rewrite <- E. reflexivity.
Qed.

Lemma upd_dur_opened m k ts : m_opened (upd_dur m k ts) = m_opened m.
Proof. unfold upd_dur. destruct (_ <? _); [|reflexivity]. destruct (f_ltb _ _); reflexivity. Qed.

Lemma update_opened c m s ts b now :
  m_opened (fst (update_fragment c m s ts b now)) = true \/
  (m_opened m = false /\ update_fragment c m s ts b now = (m, [])).
Proof.
  unfold update_fragment. destruct (m_opened m) eqn:Ho.
  - left. destruct (force_split c m ts).
    + destruct (reopen c m s ts true true now) as [m1 o1] eqn:E1.
      assert (Ho1 : m_opened m1 = true).
      { destruct (reopen_opened c m s ts true true now) as [H|[H _]]; [|discriminate]. now rewrite E1 in H. }
      destruct (f_ltb _ _); [cbn; now rewrite upd_dur_opened|].
      destruct (reopen c _ _ ts b false now) as [m3 o3] eqn:E3. cbn.
      destruct (reopen_opened c (upd_dur m1 (slot c m (m_nfrags m)) ts) (apply_all s o1) ts b false now) as [H|[_ H]].
      * now rewrite E3 in H.
      * rewrite E3 in H. injection H as -> _. now rewrite upd_dur_opened.
    + destruct (f_ltb _ _); [cbn; now rewrite upd_dur_opened|].
      destruct (reopen c _ _ ts b false now) as [m3 o3] eqn:E3. cbn.
      destruct (reopen_opened c (upd_dur m (slot c m (m_nfrags m)) ts) (apply_all s []) ts b false now) as [H|[_ H]].
      * now rewrite E3 in H.
      * rewrite E3 in H. injection H as -> _. now rewrite upd_dur_opened.
  - destruct (reopen_opened c m s ts b true now) as [H|[_ H]]; [now left|right; auto].
Qed.

Lemma feed_opened c m s a pts dts b now pk :
  m_opened (fst (feed c m s a pts dts b now pk)) = true \/
  (m_opened m = false /\ feed c m s a pts dts b now pk = (m, [])).
Proof.
  unfold feed. destruct (update_opened c m s (if a then pts else dts) b now) as [H|[Ho H]].
  - destruct (update_fragment c m s _ b now) as [m1 o1]. cbn in H. rewrite H. now left.
  - rewrite H, Ho. now right.
Qed.

(* ---------- the end of a publication ---------- *)
(* a publication that has not opened a fragment (yet) has left the live playlist alone: it is the one the previous
   publication finalised, if any *)
Definition winvE (c : cfg) (st : phase) (w : world) : Prop :=
  match st with
  | Clean => True
  | Alive _ => forall m, w_mux w = Some m -> m_opened m = false -> ended c (w_fs w)
  | Dirty => ended c (w_fs w)
  end.

Fixpoint final_world (c : cfg) (w : world) (evs : list event) : world :=
  match evs with
  | [] => w
  | e :: t => let '(m, o) := step c w e in final_world c (mkworld m (apply_all (w_fs w) o)) t
  end.
Fixpoint final_phase (c : cfg) (st : phase) (evs : list event) : phase :=
  match evs with [] => st | e :: t => final_phase c (next_phase c st e) t end.

Fixpoint final_n (c : cfg) (st : phase) (n : Z) (evs : list event) : Z :=
  match evs with [] => n | e :: t => final_n c (next_phase c st e) (next_n c st n e) t end.

Lemma final_world_fs c evs : forall w, w_fs (final_world c w evs) = apply_all (w_fs w) (run_from c w evs).
Proof.
  induction evs as [|e t IH]; intros w; cbn [final_world run_from]; [reflexivity|].
  destruct (step c w e) as [m o]. rewrite IH. cbn [w_fs]. now rewrite apply_all_app.
Qed.

Lemma start_mux_fs c s : apply_all s (snd (start_mux c s)) = s.
Proof. unfold start_mux. destruct (fs_lookup PLive s); reflexivity. Qed.

Lemma start_mux_closed c s : m_opened (fst (start_mux c s)) = false.
Proof. unfold start_mux. destruct (fs_lookup PLive s) as [f|]; [|reflexivity]. cbn. destruct (next_seq _) as [[q n]|]; reflexivity. Qed.

Lemma stepE_ok c st n w m e mx o :
  cfg_ok c -> winv c st n w m -> winvE c st w -> wf_head c st n e -> step c w e = (mx, o) ->
  winvE c (next_phase c st e) (mkworld mx (apply_all (w_fs w) o)).
Proof.
  intros Hc HW HE Hh E. destruct w as [wm s]. cbn [w_fs] in *.
  destruct st as [|r|].
  - destruct HW as (Hm & Hs & -> & _). cbn in Hm, Hs. subst wm s.
    destruct e; cbn in E; injection E as <- <-; cbn [next_phase winvE]; auto.
    intros m Hm _ f Hf. cbn in Hf. discriminate.
  - destruct HW as (Hm & HI & Hr & _). cbn in Hm, HI. subst wm. cbn [winvE w_mux w_fs] in HE.
    specialize (HE m eq_refl).
    destruct e; cbn [step w_mux w_fs] in E; cbn [next_phase].
    + injection E as <- <-. cbn. intros m0 Hm0. injection Hm0 as <-. exact HE.
    + injection E as <- <-. cbn. intros m0 Hm0. injection Hm0 as <-. exact HE.
    + destruct (feed c m s audio pts dts boundary now pk) as [m1 o1] eqn:E1. injection E as <- <-.
      cbn. intros m0 Hm0 Ho0. injection Hm0 as <-.
      destruct (feed_opened c m s audio pts dts boundary now pk) as [H|[Ho H]]; rewrite E1 in H.
      * cbn in H. congruence.
      * injection H as -> ->. now apply HE.
    + destruct (close_fragment c m s true) as [m1 o1] eqn:E1. injection E as <- <-.
      cbn [winvE w_fs]. destruct (m_opened m) eqn:Ho.
      * intros f Hf. destruct (close_ok c m s true m1 o1 HI Ho E1) as (_ & _ & _ & _ & _ & _ & _ & Hl).
        rewrite Hl in Hf. injection Hf as <-. exists (live_playlist c m1 true). split; reflexivity.
      * unfold close_fragment in E1. rewrite Ho in E1. cbn in E1. injection E1 as <- <-. cbn. now apply HE.
    + injection E as <- <-. cbn. intros m0 Hm0. injection Hm0 as <-. exact HE.
  - destruct HW as (Hm & HI & _). cbn in Hm, HI. subst wm. cbn [winvE w_fs] in HE.
    destruct e; cbn [step w_mux w_fs] in E; cbn [next_phase].
    + destruct (start_mux c s) as [m1 o1] eqn:E1. injection E as <- <-.
      pose proof (start_mux_fs c s) as Hs. rewrite E1 in Hs. cbn [snd] in Hs.
      cbn [winvE w_mux w_fs]. intros m0 _ _. rewrite Hs. exact HE.
    + injection E as <- <-. exact HE.
    + injection E as <- <-. exact HE.
    + injection E as <- <-. exact HE.
    + injection E as <- <-. destruct ((c_mode c =? 1) || (c_mode c =? 2)); cbn; [exact I|exact HE].
Qed.

Lemma run_final c : cfg_ok c -> forall evs st n w m,
  winv c st n w m -> winvE c st w -> wf_evs c st n evs ->
  winvE c (final_phase c st evs) (final_world c w evs).
Proof.
  intros Hc. induction evs as [|e t IH]; intros st n w m HW HE Hwf; [exact HE|].
  apply wf_evs_cons in Hwf. destruct Hwf as [Hh Ht].
  cbn [final_world final_phase]. destruct (step c w e) as [mx o] eqn:E.
  destruct (step_ok c st n w m e mx o Hc HW Hh E) as (m1 & _ & B).
  eapply IH; [exact B| |exact Ht].
  eapply stepE_ok; eauto.
Qed.

Lemma final_phase_app c evs : forall st e, final_phase c st (evs ++ [e]) = next_phase c (final_phase c st evs) e.
Proof. induction evs as [|x t IH]; intros st e; cbn; [reflexivity|apply IH]. Qed.

Lemma final_clean_fs c : cfg_ok c -> forall evs st n w m,
  winv c st n w m -> wf_evs c st n evs -> final_phase c st evs = Clean -> w_fs (final_world c w evs) = [].
Proof.
  intros Hc. induction evs as [|e t IH]; intros st n w m HW Hwf Hf.
  - cbn in Hf. subst st. destruct HW as (_ & Hs & _). exact Hs.
  - apply wf_evs_cons in Hwf. destruct Hwf as [Hh Ht]. cbn [final_world final_phase] in *.
    destruct (step c w e) as [mx o] eqn:E.
    destruct (step_ok c st n w m e mx o Hc HW Hh E) as (m1 & _ & B). eapply IH; eauto.
Qed.

Theorem final_live_ended c evs :
  cfg_ok c -> wf_evs c Clean 0 (evs ++ [EvDispose]) ->
  ended c (apply_all [] (run c (evs ++ [EvDispose]))).
Proof.
  intros Hc Hwf.
  assert (HW : winv c Clean 0 world0 (new_mux c)) by (cbn; repeat split; lia).
  pose proof (run_final c Hc _ Clean 0 world0 (new_mux c) HW I Hwf) as HE.
  unfold run. change [] with (w_fs world0) at 1. rewrite <- final_world_fs.
  destruct (final_phase c Clean (evs ++ [EvDispose])) as [|r|] eqn:Ep.
  - rewrite (final_clean_fs c Hc _ Clean 0 world0 (new_mux c) HW Hwf Ep). intros f Hf. discriminate.
  - exfalso. rewrite final_phase_app in Ep. destruct (final_phase c Clean evs); cbn in Ep; discriminate.
  - exact HE.
Qed.
