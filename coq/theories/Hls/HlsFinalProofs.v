(* Proofs about the end of a publication: after Dispose the live playlist carries the end marker. *)
From Coq Require Import ZArith Bool List Lia.
From Lal Require Import Common.LBytes Hls.HlsFloat Hls.HlsFs Hls.HlsPlaylist Hls.HlsMuxer Hls.HlsConsistent
  Hls.HlsFsProofs Hls.HlsFloatProofs Hls.HlsInv Hls.HlsInvProofs Hls.HlsRunProofs Hls.HlsTraceProofs.
Open Scope Z_scope.

(* once a fragment has been opened the muxer stays "opened" until Dispose *)
Lemma open_opened c m ts d now : m_opened (fst (open_fragment c m ts d now)) = true.
Proof. reflexivity. Qed.

Lemma reopen_opened c m s ts doit d now :
  m_opened (fst (reopen c m s ts doit d now)) = true \/ (doit = false /\ reopen c m s ts doit d now = (m, [])).
Proof.
  unfold reopen. destruct doit; [left|right; auto].
  destruct (close_fragment c m s false) as [m1 o1]. destruct (open_fragment c m1 ts d now) as [m2 o2] eqn:E.
  cbn. change m2 with (fst (m2, o2)). rewrite <- E. reflexivity.
Qed.

Lemma upd_dur_opened m k ts : m_opened (upd_dur m k ts) = m_opened m.
Proof. unfold upd_dur. destruct (_ <? _); [|reflexivity]. destruct (f_ltb _ _); reflexivity. Qed.

Lemma update_opened c m s ts b now :
  m_opened (fst (update_fragment c m s ts b now)) = true \/
  (m_opened m = false /\ update_fragment c m s ts b now = (m, [])).
Proof.
  unfold update_fragment. destruct (m_opened m) eqn:Ho.
  - left. destruct (force_split c m ts).
    + destruct (reopen c m s ts true true now) as [m1 o1] eqn:E1.
      assert (Ho1 : m_opened m1 = true).
      { destruct (reopen_opened c m s ts true true now) as [H|[H _]]; [|discriminate]. now rewrite E1 in H. }
      destruct (f_ltb _ _); [cbn; now rewrite upd_dur_opened|].
      destruct (reopen c _ _ ts b false now) as [m3 o3] eqn:E3. cbn.
      destruct (reopen_opened c (upd_dur m1 (slot c m (m_nfrags m)) ts) (apply_all s o1) ts b false now) as [H|[_ H]].
      * now rewrite E3 in H.
      * rewrite E3 in H. injection H as -> _. now rewrite upd_dur_opened.
    + destruct (f_ltb _ _); [cbn; now rewrite upd_dur_opened|].
      destruct (reopen c _ _ ts b false now) as [m3 o3] eqn:E3. cbn.
      destruct (reopen_opened c (upd_dur m (slot c m (m_nfrags m)) ts) (apply_all s []) ts b false now) as [H|[_ H]].
      * now rewrite E3 in H.
      * rewrite E3 in H. injection H as -> _. now rewrite upd_dur_opened.
  - destruct (reopen_opened c m s ts b true now) as [H|[_ H]]; [now left|right; auto].
Qed.

Lemma feed_opened c m s a pts dts b now pk :
  m_opened (fst (feed c m s a pts dts b now pk)) = true \/
  (m_opened m = false /\ feed c m s a pts dts b now pk = (m, [])).
Proof.
  unfold feed. destruct (update_opened c m s (if a then pts else dts) b now) as [H|[Ho H]].
  - destruct (update_fragment c m s _ b now) as [m1 o1]. cbn in H. rewrite H. now left.
  - rewrite H, Ho. now right.
Qed.

(* ---------- the end of a publication ---------- *)
Definition winvE (c : cfg) (st : phase) (w : world) : Prop :=
  match st with
  | Clean => True
  | Alive _ => forall m, w_mux w = Some m -> m_opened m = false -> nclosed m = 0
  | Dirty => ended c (w_fs w)
  end.

Fixpoint final_world (c : cfg) (w : world) (evs : list event) : world :=
  match evs with
  | [] => w
  | e :: t => let '(m, o) := step c w e in final_world c (mkworld m (apply_all (w_fs w) o)) t
  end.
Fixpoint final_phase (c : cfg) (st : phase) (evs : list event) : phase :=
  match evs with [] => st | e :: t => final_phase c (next_phase c st e) t end.

Lemma final_world_fs c evs : forall w, w_fs (final_world c w evs) = apply_all (w_fs w) (run_from c w evs).
Proof.
  induction evs as [|e t IH]; intros w; cbn [final_world run_from]; [reflexivity|].
  destruct (step c w e) as [m o]. rewrite IH. cbn [w_fs]. now rewrite apply_all_app.
Qed.

Lemma stepE_ok c st w m e mx o :
  cfg_ok c -> winv c st w m -> winvE c st w -> wf_head c st e -> step c w e = (mx, o) ->
  winvE c (next_phase c st e) (mkworld mx (apply_all (w_fs w) o)).
Proof.
  intros Hc HW HE Hh E. destruct w as [wm s]. cbn [w_fs] in *.
  destruct st as [|r|].
  - destruct HW as (Hm & Hs & ->). cbn in Hm, Hs. subst wm s.
    destruct e; cbn in E; injection E as <- <-; cbn [next_phase winvE]; auto.
    intros m Hm _. cbn in Hm. injection Hm as <-. reflexivity.
  - destruct HW as (Hm & HI & Hr). cbn in Hm, HI. subst wm. cbn [winvE w_mux] in HE.
    specialize (HE m eq_refl).
    destruct e; cbn [step w_mux w_fs] in E; cbn [next_phase].
    + injection E as <- <-. cbn. intros m0 Hm0. injection Hm0 as <-. exact HE.
    + injection E as <- <-. cbn. intros m0 Hm0. injection Hm0 as <-. exact HE.
    + destruct (feed c m s audio pts dts boundary now pk) as [m1 o1] eqn:E1. injection E as <- <-.
      cbn. intros m0 Hm0 Ho0. injection Hm0 as <-.
      destruct (feed_opened c m s audio pts dts boundary now pk) as [H|[Ho H]]; rewrite E1 in H.
      * cbn in H. congruence.
      * injection H as -> _. now apply HE.
    + destruct (close_fragment c m s true) as [m1 o1] eqn:E1. injection E as <- <-.
      cbn [winvE w_fs]. intros f Hf. destruct (m_opened m) eqn:Ho.
      * destruct (close_ok c m s true m1 o1 HI Ho E1) as (_ & _ & _ & _ & _ & _ & _ & Hl).
        rewrite Hl in Hf. injection Hf as <-. exists (live_playlist c m1 true). split; reflexivity.
      * unfold close_fragment in E1. rewrite Ho in E1. cbn in E1. injection E1 as <- <-. cbn in Hf.
        destruct HI as [_ _ _ _ _ _ _ _ _ _ H11 _ _]. rewrite H11 in Hf by (now apply HE). discriminate.
    + injection E as <- <-. cbn. intros m0 Hm0. injection Hm0 as <-. exact HE.
  - destruct HW as (Hm & HI). cbn in Hm, HI. subst wm. cbn [winvE w_fs] in HE.
    destruct e; cbn in E; try (injection E as <- <-); cbn [next_phase].
    + destruct Hh.
    + exact HE.
    + exact HE.
    + exact HE.
    + destruct ((c_mode c =? 1) || (c_mode c =? 2)); cbn; [exact I|exact HE].
Qed.

Lemma run_final c : cfg_ok c -> forall evs st w m,
  winv c st w m -> winvE c st w -> wf_evs c st evs ->
  winvE c (final_phase c st evs) (final_world c w evs).
Proof.
  intros Hc. induction evs as [|e t IH]; intros st w m HW HE Hwf; [exact HE|].
  apply wf_evs_cons in Hwf. destruct Hwf as [Hh Ht].
  cbn [final_world final_phase]. destruct (step c w e) as [mx o] eqn:E.
  destruct (step_ok c st w m e mx o Hc HW Hh E) as (m1 & _ & B).
  eapply IH; [exact B| |exact Ht].
  eapply stepE_ok; eauto.
Qed.

Lemma final_phase_app c evs : forall st e, final_phase c st (evs ++ [e]) = next_phase c (final_phase c st evs) e.
Proof. induction evs as [|x t IH]; intros st e; cbn; [reflexivity|apply IH]. Qed.

Lemma final_clean_fs c : cfg_ok c -> forall evs st w m,
  winv c st w m -> wf_evs c st evs -> final_phase c st evs = Clean -> w_fs (final_world c w evs) = [].
Proof.
  intros Hc. induction evs as [|e t IH]; intros st w m HW Hwf Hf.
  - cbn in Hf. subst st. destruct HW as (_ & Hs & _). exact Hs.
  - apply wf_evs_cons in Hwf. destruct Hwf as [Hh Ht]. cbn [final_world final_phase] in *.
    destruct (step c w e) as [mx o] eqn:E.
    destruct (step_ok c st w m e mx o Hc HW Hh E) as (m1 & _ & B). eapply IH; eauto.
Qed.

Theorem final_live_ended c evs :
  cfg_ok c -> wf_evs c Clean (evs ++ [EvDispose]) ->
  ended c (apply_all [] (run c (evs ++ [EvDispose]))).
Proof.
  intros Hc Hwf.
  assert (HW : winv c Clean world0 (new_mux c)) by (cbn; auto).
  pose proof (run_final c Hc _ Clean world0 (new_mux c) HW I Hwf) as HE.
  unfold run. change [] with (w_fs world0) at 1. rewrite <- final_world_fs.
  destruct (final_phase c Clean (evs ++ [EvDispose])) as [|r|] eqn:Ep.
  - rewrite (final_clean_fs c Hc _ Clean world0 (new_mux c) HW Hwf Ep). intros f Hf. discriminate.
  - exfalso. rewrite final_phase_app in Ep. destruct (final_phase c Clean evs); cbn in Ep; discriminate.
  - exact HE.
Qed.
