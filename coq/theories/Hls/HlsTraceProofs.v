(* Proofs of the trace-level clauses of C10: every prefix of the operation sequence leaves a
   consistent live playlist; the media sequence never decreases; segments listed by one of the
   last delete_threshold+1 playlist versions are still there. *)
From Coq Require Import ZArith Bool List Lia.
From Lal Require Import Common.LBytes Hls.HlsFloat Hls.HlsFs Hls.HlsPlaylist Hls.HlsMuxer Hls.HlsConsistent
  Hls.HlsParse Hls.HlsFsProofs Hls.HlsFloatProofs Hls.HlsTextProofs Hls.HlsParseProofs Hls.HlsInv Hls.HlsInvProofs Hls.HlsRunProofs.
Open Scope Z_scope.

(* ---------- target duration ---------- *)
Definition le_val (a b : fl) : Prop := f_ltb b a = false.

Lemma le_val_spec a b : le_val a b <-> f_num a * f_den b <= f_num b * f_den a.
Proof. unfold le_val, f_ltb. rewrite Z.ltb_ge. lia. Qed.

Lemma le_val_refl a : le_val a a.
Proof. apply le_val_spec. lia. Qed.

Lemma le_val_trans a b d : le_val a b -> le_val b d -> le_val a d.
Proof.
  rewrite !le_val_spec. intros H1 H2.
  pose proof (f_den_pos a). pose proof (f_den_pos b). pose proof (f_den_pos d).
  assert (f_num a * f_den d * f_den b <= f_num d * f_den a * f_den b) by nia. nia.
Qed.

Lemma le_val_total a b : f_ltb a b = true -> le_val a b.
Proof. unfold le_val, f_ltb. rewrite Z.ltb_lt, Z.ltb_ge. lia. Qed.

Lemma max_dur_spec l : forall init,
  le_val init (max_dur l init) /\ (forall f, In f l -> le_val (fi_dur f) (max_dur l init)) /\
  (max_dur l init = init \/ exists f, In f l /\ max_dur l init = fi_dur f).
Proof.
  induction l as [|g l IH]; intros init; cbn [max_dur fold_left].
  - split; [apply le_val_refl|]. split; [intros f []|now left].
  - set (init' := if f_ltb init (fi_dur g) then fi_dur g else init).
    destruct (IH init') as (A & B & C). fold (max_dur l init') in *.
    assert (Hi : le_val init init' /\ le_val (fi_dur g) init').
    { unfold init'. destruct (f_ltb init (fi_dur g)) eqn:E.
      - split; [now apply le_val_total|apply le_val_refl].
      - split; [apply le_val_refl|exact E]. }
    destruct Hi as [Hi1 Hi2].
    split; [eapply le_val_trans; eauto|]. split.
    + intros f [<-|Hf]; [eapply le_val_trans; eauto|now apply B].
    + destruct C as [C|(f & Hf & C)].
      * unfold init' in C. destruct (f_ltb init (fi_dur g)); [right; exists g; split; [now left|exact C]|now left].
      * right. exists f. split; [now right|exact C].
Qed.

Lemma live_target_ge c l f :
  0 <= c_ms c <= 2 ^ 35 -> (forall g, In g l -> dur_ok (fi_dur g)) -> In f l ->
  listed_seconds (seg_of f) <= live_target c l.
Proof.
  intros Hms Hd Hf. unfold listed_seconds, live_target, calc_target. cbn [s_dur seg_of].
  destruct (max_dur_spec l (frag_target c)) as (A & B & C).
  apply calc_target_ge; [now apply Hd| |now apply B].
  destruct C as [-> | (g & Hg & ->)]; [|now apply Hd].
  unfold frag_target. apply frag_target_ok. lia.
Qed.

Lemma calc_target_nonneg x : 0 <= f_num x -> 0 <= calc_target x.
Proof.
  intros Hx. unfold calc_target. apply Z.div_pos; [|lia].
  assert (0 <= f_round (f_mul x (f_of_Z 1000))); [|lia].
  unfold f_round. pose proof (f_den_pos (f_mul x (f_of_Z 1000))).
  apply Z.div_pos; [|lia].
  assert (0 <= f_num (f_mul x (f_of_Z 1000))); [|lia].
  unfold f_mul. apply rnd53_nonneg.
  - apply Z.mul_nonneg_nonneg; [exact Hx|]. unfold f_of_Z. apply rnd53_nonneg; lia.
  - apply Z.mul_pos_pos; apply f_den_pos.
Qed.


(* ---------- the invariant gives the instantaneous clauses ---------- *)
Lemma in_frags_in_playlist c m f :
  In f (frags_in_playlist c m) -> exists k, 0 <= k < m_nfrags m /\ f = get_frag c m k.
Proof.
  unfold frags_in_playlist. intros H. apply in_map_iff in H. destruct H as (k & <- & Hk).
  apply in_seq in Hk. exists (Z.of_nat k). split; [lia|reflexivity].
Qed.

Lemma inv_listed_ok c m s k :
  Inv c m s -> 0 <= k < m_nfrags m -> seg_file_ok s (seg_of (get_frag c m k)).
Proof.
  intros [H1 H2 H3 H4 H5 H6 H7 H8 H9 H10 H11 H12 H13] Hk.
  rewrite get_frag_sl. set (i := m_frag m + k).
  assert (Hw : nclosed m - cap c < i < nclosed m) by (unfold i, nclosed, cap; lia).
  assert (Hi : 0 <= i) by (unfold i; lia).
  destruct (H5 i Hi Hw) as (A & B & C). destruct (H9 i Hi Hw) as (f & Hf & Hc & Hw188 & pp & rest & Hd & Hp).
  unfold seg_file_ok, seg_of. cbn [s_now s_id]. rewrite A, C.
  exists f, pp, rest. auto.
Qed.

Lemma max_dur_nonneg l init :
  0 <= f_num init -> (forall g, In g l -> 0 <= f_num (fi_dur g)) -> 0 <= f_num (max_dur l init).
Proof.
  intros Hi Hl. destruct (max_dur_spec l init) as (_ & _ & [-> | (g & Hg & ->)]); auto.
Qed.

Lemma inv_live_wf c m s e : Inv c m s -> pl_wf (live_playlist c m e).
Proof.
  intros [H1 H2 H3 H4 H5 H6 H7 H8 H9 H10 H11 H12 H13]. unfold pl_wf, live_playlist. cbn [pl_target pl_seq pl_segs].
  assert (Hd : forall g, In g (frags_in_playlist c m) -> dur_ok (fi_dur g)).
  { intros g Hg. apply in_frags_in_playlist in Hg. destruct Hg as (k & _ & ->). apply H13. }
  split; [|split; [lia|]].
  - unfold live_target. apply calc_target_nonneg. apply max_dur_nonneg.
    + unfold frag_target. apply (frag_target_ok (c_ms c)). lia.
    + intros g Hg. apply Hd. exact Hg.
  - apply Forall_forall. intros sg Hsg. apply in_map_iff in Hsg. destruct Hsg as (g & <- & Hg). cbn. now apply Hd.
Qed.

Lemma inv_parse c m s e : Inv c m s ->
  parse_live (print_live (c_stream c) (live_playlist c m e)) = Some (abs_pl (c_stream c) (live_playlist c m e)).
Proof.
  intros HI. apply parse_print_live; [|now apply (inv_live_wf c m s)].
  destruct HI as [H1 _ _ _ _ _ _ _ _ _ _ _ _]. apply H1.
Qed.

Lemma inv_live_ok c m s : Inv c m s -> live_ok c s.
Proof.
  intros HI f Hf.
  destruct (Z_le_gt_dec (nclosed m) 0) as [Hz|Hz].
  - destruct HI as [H1 H2 H3 H4 H5 H6 H7 H8 H9 H10 H11 H12 H13].
    assert (nclosed m = 0) by (unfold nclosed in *; lia). rewrite H11 in Hf by assumption. discriminate.
  - pose proof HI as [H1 H2 H3 H4 H5 H6 H7 H8 H9 H10 H11 H12 H13].
    destruct (H12 ltac:(lia)) as [e He]. rewrite He in Hf. injection Hf as <-.
    exists (live_playlist c m e). split; [reflexivity|]. split; [now apply (inv_parse c m s)|]. cbn [pl_segs pl_target live_playlist].
    split; apply Forall_forall; intros sg Hsg; apply in_map_iff in Hsg; destruct Hsg as (g & <- & Hg).
    + apply live_target_ge; [lia| |exact Hg].
      intros g' Hg'. apply in_frags_in_playlist in Hg'. destruct Hg' as (k & _ & ->). apply H13.
    + apply in_frags_in_playlist in Hg. destruct Hg as (k & Hk & ->). now apply inv_listed_ok.
Qed.

(* ---------- the three trace theorems ---------- *)
Theorem every_prefix_live_ok c evs k :
  cfg_ok c -> wf_evs c Clean evs -> live_ok c (state_at c evs k).
Proof.
  intros Hc Hwf. destruct (run_is_chain c evs Hc Hwf) as (m' & Hch).
  destruct (chain_point c _ _ _ _ k Hch (inv_new c Hc)) as (mk & HI).
  eapply inv_live_ok. exact HI.
Qed.

(* the same, read off the parse result: every URI the playlist lists names a good segment file *)
Theorem every_prefix_parsed c evs k f t :
  cfg_ok c -> wf_evs c Clean evs ->
  fs_lookup PLive (state_at c evs k) = Some f -> parse_live (fdata f) = Some t ->
  forall ts, In ts (t_segs t) ->
    (t_ms ts + 500) / 1000 <= t_target t /\
    exists sg, t_uri ts = seg_name (c_stream c) sg /\ seg_file_ok (state_at c evs k) sg.
Proof.
  intros Hc Hwf Hf Hp ts Hts.
  destruct (every_prefix_live_ok c evs k Hc Hwf f Hf) as (pl & E & P & HT & HS).
  rewrite P in Hp. injection Hp as <-. cbn [t_segs abs_pl] in Hts.
  apply in_map_iff in Hts. destruct Hts as (sg & <- & Hsg).
  rewrite Forall_forall in HT, HS. split.
  - cbn. apply (HT sg Hsg).
  - exists sg. split; [reflexivity|now apply HS].
Qed.

Lemma inv_live_content c m s f :
  Inv c m s -> fs_lookup PLive s = Some f ->
  0 < nclosed m /\ exists e, fdata f = print_live (c_stream c) (live_playlist c m e).
Proof.
  intros [H1 H2 H3 H4 H5 H6 H7 H8 H9 H10 H11 H12 H13] Hf.
  destruct (Z_le_gt_dec (nclosed m) 0) as [Hz|Hz].
  - assert (nclosed m = 0) by (unfold nclosed in *; lia). rewrite H11 in Hf by assumption. discriminate.
  - split; [lia|]. destruct (H12 ltac:(lia)) as [e He]. rewrite He in Hf. injection Hf as <-. now exists e.
Qed.

Lemma ver_at_diff c evs j k : (j <= k)%nat ->
  ver_at c evs k - ver_at c evs j = count_live (skipn j (firstn k (run c evs))).
Proof.
  intros Hjk. unfold ver_at, count_live.
  assert (E : firstn k (run c evs) = (firstn j (run c evs) ++ skipn j (firstn k (run c evs)))%list).
  { rewrite <- (firstn_skipn j (firstn k (run c evs))) at 1. f_equal. rewrite firstn_firstn. f_equal. lia. }
  rewrite E at 1. rewrite filter_app, app_length. lia.
Qed.

Theorem media_sequence_parsed c evs j k fj fk tj tk :
  cfg_ok c -> wf_evs c Clean evs -> (j <= k)%nat ->
  no_removeall (skipn j (firstn k (run c evs))) ->
  fs_lookup PLive (state_at c evs j) = Some fj -> fs_lookup PLive (state_at c evs k) = Some fk ->
  parse_live (fdata fj) = Some tj -> parse_live (fdata fk) = Some tk -> t_seq tj <= t_seq tk.
Proof.
  intros Hc Hwf Hjk HN Hfj Hfk Pj Pk. destruct (run_is_chain c evs Hc Hwf) as (m' & Hch).
  destruct (chain_two_points c _ _ _ _ j k Hch (inv_new c Hc) Hjk HN) as (mj & mk & HIj & HIk & (_ & Hle & _) & _).
  destruct (inv_live_content c mj _ fj HIj Hfj) as (_ & ej & Ej).
  destruct (inv_live_content c mk _ fk HIk Hfk) as (_ & ek & Ek).
  rewrite Ej, (inv_parse c mj _ ej HIj) in Pj. rewrite Ek, (inv_parse c mk _ ek HIk) in Pk.
  injection Pj as <-. injection Pk as <-. cbn. exact Hle.
Qed.

Theorem media_sequence_monotone c evs j k fj fk :
  cfg_ok c -> wf_evs c Clean evs -> (j <= k)%nat ->
  no_removeall (skipn j (firstn k (run c evs))) ->
  fs_lookup PLive (state_at c evs j) = Some fj -> fs_lookup PLive (state_at c evs k) = Some fk ->
  exists pj pk, fdata fj = print_live (c_stream c) pj /\ fdata fk = print_live (c_stream c) pk /\ pl_seq pj <= pl_seq pk.
Proof.
  intros Hc Hwf Hjk HN Hfj Hfk. destruct (run_is_chain c evs Hc Hwf) as (m' & Hch).
  destruct (chain_two_points c _ _ _ _ j k Hch (inv_new c Hc) Hjk HN) as (mj & mk & HIj & HIk & (_ & Hle & _) & _).
  destruct (inv_live_content c mj _ fj HIj Hfj) as (_ & ej & Ej).
  destruct (inv_live_content c mk _ fk HIk Hfk) as (_ & ek & Ek).
  exists (live_playlist c mj ej), (live_playlist c mk ek). cbn. auto.
Qed.

Theorem listed_segments_stay c evs j k fj :
  cfg_ok c -> wf_evs c Clean evs -> (j <= k)%nat ->
  no_removeall (skipn j (firstn k (run c evs))) ->
  ver_at c evs k - ver_at c evs j <= c_thr c ->
  fs_lookup PLive (state_at c evs j) = Some fj ->
  exists pj, fdata fj = print_live (c_stream c) pj /\ parse_live (fdata fj) = Some (abs_pl (c_stream c) pj) /\
             Forall (seg_file_ok (state_at c evs k)) (pl_segs pj).
Proof.
  intros Hc Hwf Hjk HN Hver Hfj. destruct (run_is_chain c evs Hc Hwf) as (m' & Hch).
  destruct (chain_two_points c _ _ _ _ j k Hch (inv_new c Hc) Hjk HN) as (mj & mk & HIj & HIk & (Hn & _ & l & Hh) & Hcnt).
  rewrite <- ver_at_diff in Hcnt by exact Hjk.
  destruct (inv_live_content c mj _ fj HIj Hfj) as (Hpos & ej & Ej).
  exists (live_playlist c mj ej). split; [exact Ej|]. split; [rewrite Ej; now apply (inv_parse c mj _ ej HIj)|]. cbn [pl_segs live_playlist].
  apply Forall_forall. intros sg Hsg. apply in_map_iff in Hsg. destruct Hsg as (g & <- & Hg).
  apply in_frags_in_playlist in Hg. destruct Hg as (t & Ht & ->).
  pose proof HIj as [J1 J2 J3 J4 J5 J6 J7 J8 J9 J10 J11 J12 J13].
  pose proof HIk as [K1 K2 K3 K4 K5 K6 K7 K8 K9 K10 K11 K12 K13].
  rewrite get_frag_sl. set (i := m_frag mj + t).
  assert (Hwj : nclosed mj - cap c < i < nclosed mj) by (unfold i, nclosed, cap; lia).
  assert (Hi : 0 <= i) by (unfold i; lia).
  destruct (J5 i Hi Hwj) as (A & B & C).
  assert (Hwk : nclosed mk - cap c < i < nclosed mk) by (unfold i, nclosed, cap in *; lia).
  destruct (K9 i Hi Hwk) as (f & Hf & Hcl & Hw188 & pp & rest & Hd & Hp).
  assert (Hnow : hnow mk i = hnow mj i).
  { unfold hnow. rewrite Hh. apply app_nth1.
    assert (0 <= b2z (m_opened mj)) by (destruct (m_opened mj); cbn; lia). lia. }
  unfold seg_file_ok, seg_of. cbn [s_now s_id]. rewrite A, C, <- Hnow.
  exists f, pp, rest. auto.
Qed.
