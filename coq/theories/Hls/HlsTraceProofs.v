(* Proofs of the trace-level clauses of C10: every prefix of the operation sequence leaves a
   consistent live playlist; the media sequence never decreases; segments listed by one of the
   last delete_threshold+1 playlist versions are still there. *)
From Coq Require Import ZArith Bool List Lia.
From Lal Require Import Common.LBytes Hls.HlsFloat Hls.HlsFs Hls.HlsPlaylist Hls.HlsMuxer Hls.HlsConsistent
  Hls.HlsParse Hls.HlsFsProofs Hls.HlsFloatProofs Hls.HlsTextProofs Hls.HlsParseProofs Hls.HlsInv Hls.HlsInvProofs Hls.HlsLiveProofs Hls.HlsRunProofs.
Open Scope Z_scope.

(* ---------- the three trace theorems ---------- *)
Theorem every_prefix_live_ok c evs k :
  cfg_ok c -> wf_evs c Clean 0 evs -> live_ok c (state_at c evs k).
Proof.
  intros Hc Hwf. destruct (run_is_chain c evs Hc Hwf) as (m' & Hch).
  destruct (chain_point c _ _ _ _ k Hch (inv_new c Hc)) as (mk & HI).
  eapply inv_live_ok. exact HI.
Qed.

(* the same, read off the parse result: every URI the playlist lists names a good segment file *)
Theorem every_prefix_parsed c evs k f t :
  cfg_ok c -> wf_evs c Clean 0 evs ->
  fs_lookup PLive (state_at c evs k) = Some f -> parse_live (fdata f) = Some t ->
  forall ts, In ts (t_segs t) ->
    (t_ms ts + 500) / 1000 <= t_target t /\
    exists sg, t_uri ts = seg_name (c_stream c) sg /\ seg_file_ok (state_at c evs k) sg.
Proof.
  intros Hc Hwf Hf Hp ts Hts.
  destruct (every_prefix_live_ok c evs k Hc Hwf f Hf) as (pl & E & P & HT & HS).
  rewrite P in Hp. injection Hp as <-. cbn [t_segs abs_pl] in Hts.
  apply in_map_iff in Hts. destruct Hts as (sg & <- & Hsg).
  rewrite Forall_forall in HT, HS. split.
  - cbn. apply (HT sg Hsg).
  - exists sg. split; [reflexivity|now apply HS].
Qed.

Lemma ver_at_diff c evs j k : (j <= k)%nat ->
  ver_at c evs k - ver_at c evs j = count_live (skipn j (firstn k (run c evs))).
Proof.
  intros Hjk. unfold ver_at, count_live.
  assert (E : firstn k (run c evs) = (firstn j (run c evs) ++ skipn j (firstn k (run c evs)))%list).
  { rewrite <- (firstn_skipn j (firstn k (run c evs))) at 1. f_equal. rewrite firstn_firstn. f_equal. lia. }
  rewrite E at 1. rewrite filter_app, app_length. lia.
Qed.

Lemma inv_parse_shown c m s f t :
  Inv c m s -> fs_lookup PLive s = Some f -> parse_live (fdata f) = Some t -> t_seq t = shown m.
Proof.
  intros HI Hf Hp. destruct (inv_live_content c m s f HI Hf) as (pl & A & B & C & _).
  rewrite A, parse_print_live in Hp; [|destruct HI as [H1 _ _ _ _ _ _ _ _ _ _ _ _]; apply H1|exact B].
  injection Hp as <-. exact C.
Qed.

(* across re-publications too: Muxer.Start carries on with the numbering of the playlist it finds *)
Theorem media_sequence_parsed c evs j k fj fk tj tk :
  cfg_ok c -> wf_evs c Clean 0 evs -> (j <= k)%nat ->
  no_removeall (skipn j (firstn k (run c evs))) ->
  fs_lookup PLive (state_at c evs j) = Some fj -> fs_lookup PLive (state_at c evs k) = Some fk ->
  parse_live (fdata fj) = Some tj -> parse_live (fdata fk) = Some tk -> t_seq tj <= t_seq tk.
Proof.
  intros Hc Hwf Hjk HN Hfj Hfk Pj Pk. destruct (run_is_chain c evs Hc Hwf) as (m' & Hch).
  destruct (chain_two_points c _ _ _ _ j k Hch (inv_new c Hc) Hjk HN) as (mj & mk & HIj & HIk & (_ & Hle & _) & _).
  rewrite (inv_parse_shown c mj _ fj tj HIj Hfj Pj), (inv_parse_shown c mk _ fk tk HIk Hfk Pk). exact Hle.
Qed.

Theorem media_sequence_monotone c evs j k fj fk :
  cfg_ok c -> wf_evs c Clean 0 evs -> (j <= k)%nat ->
  no_removeall (skipn j (firstn k (run c evs))) ->
  fs_lookup PLive (state_at c evs j) = Some fj -> fs_lookup PLive (state_at c evs k) = Some fk ->
  exists pj pk, fdata fj = print_live (c_stream c) pj /\ fdata fk = print_live (c_stream c) pk /\ pl_seq pj <= pl_seq pk.
Proof.
  intros Hc Hwf Hjk HN Hfj Hfk. destruct (run_is_chain c evs Hc Hwf) as (m' & Hch).
  destruct (chain_two_points c _ _ _ _ j k Hch (inv_new c Hc) Hjk HN) as (mj & mk & HIj & HIk & (_ & Hle & _) & _).
  destruct (inv_live_content c mj _ fj HIj Hfj) as (pj & Aj & _ & Cj & _).
  destruct (inv_live_content c mk _ fk HIk Hfk) as (pk & Ak & _ & Ck & _).
  exists pj, pk. split; [exact Aj|]. split; [exact Ak|]. lia.
Qed.

(* ---------- listed segments stay, across re-publications too ---------- *)
(* files numbered below the base of the current publication are never touched again *)
Lemma chain_keeps_old c m s ops m' : chain c m s ops m' -> no_removeall ops ->
  forall now id, id < m_base m -> fs_lookup (PTs now id) (apply_all s ops) = fs_lookup (PTs now id) s.
Proof.
  induction 1 as [m s|m s o m1 ops m3 Hr Hi Hc IH|m s m1 ops m3 Hl Hsp Hn Hi Hc IH]; intros HN now id Hid.
  - reflexivity.
  - inversion HN as [|? ? Ho HN']; subst. cbn [apply_all fold_left]. fold (apply_all (apply s o) ops).
    assert (Hb : m_base m <= m_base m1 /\ fs_lookup (PTs now id) (apply s o) = fs_lookup (PTs now id) s).
    { destruct o; cbn in Ho; try contradiction; cbn [rstep] in Hr;
        try (destruct Hr as (_ & (Eb & _) & _ & Ht); split; [lia|];
             apply lookup_apply_other; [exact I|]; intros Hin; specialize (Ht _ Hin); cbn in Ht; lia).
      destruct Hr as ((_ & _ & Hb) & _). split; [exact Hb|reflexivity]. }
    destruct Hb as [Hb El]. rewrite IH; [exact El|exact HN'|lia].
  - apply IH; [exact HN|]. destruct Hsp as [Eb _]. lia.
Qed.

(* fragment i, opened at clock value now0: either a fragment of the current publication (the ring knows it),
   or one of an earlier publication whose file is there *)
Definition tracked (i now0 : Z) (m : mux) (s : fs) : Prop :=
  (m_base m <= i < nclosed m /\ hnow m i = now0) \/
  (i < m_base m /\ exists f, fs_lookup (PTs now0 i) s = Some f /\ fclosed f = true /\ good_data (fdata f)).

Lemma tracked_same_pub c i now0 m m1 s :
  Inv c m s -> same_pub m m1 -> nclosed m <= nclosed m1 -> m_base m <= i < nclosed m -> hnow m i = now0 ->
  m_base m1 <= i < nclosed m1 /\ hnow m1 i = now0.
Proof.
  intros HI (Eb & l & Eh) Hn Hi Hh. rewrite <- Eb. split; [lia|].
  destruct HI as [_ _ _ H4 _ _ _ _ _ _ _ _ _].
  unfold hnow in *. rewrite <- Eb, Eh. rewrite app_nth1; [exact Hh|].
  assert (0 <= b2z (m_opened m)) by (destruct (m_opened m); cbn; lia). lia.
Qed.

Lemma stay_chain c i now0 m s ops m' :
  chain c m s ops m' -> no_removeall ops -> Inv c m s -> tracked i now0 m s -> nclosed m' - cap c < i ->
  exists f, fs_lookup (PTs now0 i) (apply_all s ops) = Some f /\ fclosed f = true /\ good_data (fdata f).
Proof.
  induction 1 as [m s|m s o m1 ops m3 Hr Hi Hc IH|m s m1 ops m3 Hl Hsp Hn Hi Hc IH]; intros HN HI HT Hw.
  - destruct HT as [[Hi <-]|[_ Hf]]; [|exact Hf].
    destruct HI as [_ _ _ _ _ _ _ _ H9 _ _ _ _]. apply H9; lia.
  - inversion HN as [|? ? Ho HN']; subst. cbn [apply_all fold_left]. fold (apply_all (apply s o) ops).
    destruct (chain_mle c _ _ _ _ Hc HN') as [(Hle & _) _].
    apply IH; [exact HN'|exact Hi| |exact Hw].
    destruct o; cbn in Ho; try contradiction; cbn [rstep] in Hr.
    + (* Muxer.Start *)
      destruct Hr as ((_ & _ & Hb) & Hn1 & Hb1). cbn [apply]. right.
      destruct HT as [[Hir <-]|[Hlt Hf]].
      * split; [lia|]. destruct HI as [_ _ _ _ _ _ _ _ H9 _ _ _ _]. apply H9; lia.
      * split; [lia|exact Hf].
    + destruct Hr as ((Hn1 & _) & Hsp & _ & Ht). destruct HT as [[Hir Hh]|[Hlt (f & Hf & Hg)]].
      * left. eapply tracked_same_pub; eauto.
      * right. destruct Hsp as [Eb _]. split; [lia|]. exists f. split; [|exact Hg]. rewrite <- Hf.
        apply lookup_apply_other; [exact I|]. intros Hin. specialize (Ht _ Hin). cbn in Ht. lia.
    + destruct Hr as ((Hn1 & _) & Hsp & _ & Ht). destruct HT as [[Hir Hh]|[Hlt (f & Hf & Hg)]].
      * left. eapply tracked_same_pub; eauto.
      * right. destruct Hsp as [Eb _]. split; [lia|]. exists f. split; [|exact Hg]. rewrite <- Hf.
        apply lookup_apply_other; [exact I|]. intros Hin. specialize (Ht _ Hin). cbn in Ht. lia.
    + destruct Hr as ((Hn1 & _) & Hsp & _ & Ht). destruct HT as [[Hir Hh]|[Hlt (f & Hf & Hg)]].
      * left. eapply tracked_same_pub; eauto.
      * right. destruct Hsp as [Eb _]. split; [lia|]. exists f. split; [|exact Hg]. rewrite <- Hf.
        apply lookup_apply_other; [exact I|]. intros Hin. specialize (Ht _ Hin). cbn in Ht. lia.
    + destruct Hr as ((Hn1 & _) & Hsp & _ & Ht). destruct HT as [[Hir Hh]|[Hlt (f & Hf & Hg)]].
      * left. eapply tracked_same_pub; eauto.
      * right. destruct Hsp as [Eb _]. split; [lia|]. exists f. split; [|exact Hg]. rewrite <- Hf.
        apply lookup_apply_other; [exact I|]. intros Hin. specialize (Ht _ Hin). cbn in Ht. lia.
    + destruct Hr as ((Hn1 & _) & Hsp & _ & Ht). destruct HT as [[Hir Hh]|[Hlt (f & Hf & Hg)]].
      * left. eapply tracked_same_pub; eauto.
      * right. destruct Hsp as [Eb _]. split; [lia|]. exists f. split; [|exact Hg]. rewrite <- Hf.
        apply lookup_apply_other; [exact I|]. intros Hin. specialize (Ht _ Hin). cbn in Ht. lia.
    + destruct Hr as ((Hn1 & _) & Hsp & _ & Ht). destruct HT as [[Hir Hh]|[Hlt (f & Hf & Hg)]].
      * left. eapply tracked_same_pub; eauto.
      * right. destruct Hsp as [Eb _]. split; [lia|]. exists f. split; [|exact Hg]. rewrite <- Hf.
        apply lookup_apply_other; [exact I|]. intros Hin. specialize (Ht _ Hin). cbn in Ht. lia.
    + destruct Hr as ((Hn1 & _) & Hsp & _ & Ht). destruct HT as [[Hir Hh]|[Hlt (f & Hf & Hg)]].
      * left. eapply tracked_same_pub; eauto.
      * right. destruct Hsp as [Eb _]. split; [lia|]. exists f. split; [|exact Hg]. exact Hf.
  - apply IH; [exact HN|exact Hi| |exact Hw].
    destruct HT as [[Hir Hh]|[Hlt Hf]].
    + left. eapply tracked_same_pub; eauto. lia.
    + right. destruct Hsp as [Eb _]. split; [lia|exact Hf].
Qed.

Lemma chain_between c m s ops m' j k :
  chain c m s ops m' -> Inv c m s -> (j <= k)%nat ->
  exists mj mk, Inv c mj (apply_all s (firstn j ops)) /\ Inv c mk (apply_all s (firstn k ops)) /\
    chain c mj (apply_all s (firstn j ops)) (skipn j (firstn k ops)) mk /\
    apply_all s (firstn k ops) = apply_all (apply_all s (firstn j ops)) (skipn j (firstn k ops)).
Proof.
  intros Hch HI Hjk.
  assert (E1 : ops = (firstn k ops ++ skipn k ops)%list) by (symmetry; apply firstn_skipn).
  destruct (chain_split c m s ops m' Hch _ _ E1) as (mk & A1 & _).
  assert (E2 : firstn k ops = (firstn j ops ++ skipn j (firstn k ops))%list).
  { rewrite <- (firstn_skipn j (firstn k ops)) at 1. f_equal. rewrite firstn_firstn. f_equal. lia. }
  destruct (chain_split c m s _ mk A1 _ _ E2) as (mj & B1 & B2).
  pose proof (chain_inv_end _ _ _ _ _ B1 HI) as HIj.
  pose proof (chain_inv_end _ _ _ _ _ B2 HIj) as HIk.
  assert (Es : apply_all s (firstn k ops) = apply_all (apply_all s (firstn j ops)) (skipn j (firstn k ops))).
  { rewrite apply_all_app, <- E2. reflexivity. }
  exists mj, mk. split; [exact HIj|]. split; [rewrite Es; exact HIk|]. split; [exact B2|exact Es].
Qed.

(* Segments listed by the playlist at instant j (written by the current or by a previous publication) are still
   there at instant k if at most delete_threshold further versions have been published and the directory has not
   been removed: within a publication by the ring invariant, across a re-publication because the new muxer only
   ever touches files it numbers itself. *)
Theorem listed_segments_stay c evs j k fj :
  cfg_ok c -> wf_evs c Clean 0 evs -> (j <= k)%nat ->
  no_removeall (skipn j (firstn k (run c evs))) ->
  ver_at c evs k - ver_at c evs j <= c_thr c ->
  fs_lookup PLive (state_at c evs j) = Some fj ->
  exists pj, fdata fj = print_live (c_stream c) pj /\ parse_live (fdata fj) = Some (abs_pl (c_stream c) pj) /\
             Forall (seg_file_ok (state_at c evs k)) (pl_segs pj).
Proof.
  intros Hc Hwf Hjk HN Hver Hfj. destruct (run_is_chain c evs Hc Hwf) as (m' & Hch).
  destruct (chain_between c _ _ _ _ j k Hch (inv_new c Hc) Hjk) as (mj & mk & HIj & HIk & Hjk_ch & Esk).
  fold (state_at c evs j) in HIj, Hjk_ch, Esk. fold (state_at c evs k) in HIk, Esk.
  destruct (chain_mle c _ _ _ _ Hjk_ch HN) as [_ Hcnt].
  rewrite <- ver_at_diff in Hcnt by exact Hjk.
  pose proof HIj as [J1 J2 J3 J4 J5 J6 J7 J8 J9 J10 J11 J12 J13].
  destruct (Z.eqb_spec (nclosed mj) (m_base mj)) as [Hz|Hz].
  - (* the playlist at instant j is the one a previous publication left: its files are never touched again *)
    pose proof (J11 Hz) as Hp. unfold prev_ok in Hp. rewrite Hfj in Hp.
    destruct Hp as (pl & -> & A & B & C & D). cbn [fdata]. exists pl. split; [reflexivity|].
    split; [apply parse_print_live; [apply J1|exact A]|].
    eapply Forall_impl; [|exact D]. intros sg (_ & Hid & Hok).
    eapply seg_file_ok_ext; [|exact Hok]. rewrite Esk. now apply (chain_keeps_old c mj _ _ mk Hjk_ch HN).
  - assert (Hlt : m_base mj < nclosed mj) by (unfold nclosed in *; lia).
    destruct (J12 Hlt) as [ej Ej]. rewrite Ej in Hfj. injection Hfj as <-. cbn [fdata].
    exists (live_playlist c mj ej). split; [reflexivity|]. split; [now apply (inv_parse c mj _ ej HIj)|].
    cbn [pl_segs live_playlist].
    apply Forall_forall. intros sg Hsg. apply in_map_iff in Hsg. destruct Hsg as (g & <- & Hg).
    apply in_frags_in_playlist in Hg. destruct Hg as (t & Ht & ->).
    rewrite get_frag_sl. set (i := m_frag mj + t).
    assert (Hwj : nclosed mj - cap c < i < nclosed mj) by (unfold i, nclosed, cap; lia).
    assert (Hi : m_base mj <= i) by (unfold i; lia).
    destruct (J5 i Hi Hwj) as (A & B & C).
    destruct (stay_chain c i (hnow mj i) mj _ _ mk Hjk_ch HN HIj) as (f & Hf & Hcl & Hw188 & pp & rest & Hd & Hp).
    + left. split; [lia|reflexivity].
    + unfold i, nclosed, cap in *. lia.
    + unfold seg_file_ok, seg_of. cbn [s_now s_id]. rewrite A, C, Esk.
      exists f, pp, rest. auto.
Qed.
