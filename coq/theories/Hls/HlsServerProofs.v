(* Proofs about the server level (HlsServer.v):
   - the faithful server makes exactly the layer calls of the muxer-level history `lower` (refinement), so every
     trace theorem about HlsMuxer.run holds for server histories;
   - a delayed cleanup removes the directory only at an instant at which no muxer is alive for the name, and
     nothing else ever removes it: for every interleaving of publish / feed / stop / tick / fire;
   - the design that keeps the group found when the timer was armed (by_name = false) does remove the directory
     of a live muxer: stop, tick (group erased), publish (fresh group), fire. *)
From Coq Require Import ZArith Bool List Lia.
From Lal Require Import Common.LBytes Hls.HlsFloat Hls.HlsFs Hls.HlsPlaylist Hls.HlsMuxer Hls.HlsServer.
Open Scope Z_scope.

Definition alive_b (v : srv) : bool := match live_mux v with Some _ => true | None => false end.
Definition timers_ok (c : cfg) (v : srv) : Prop := sv_timers v <> [] -> arms c = true.

Definition is_removeall (o : op) : bool := match o with ORemoveAll _ => true | _ => false end.

(* ---------- the muxer itself never removes the directory ---------- *)
Lemma write_record_no_ra c m s : existsb is_removeall (snd (write_record c m s)) = false.
Proof.
  unfold write_record.
  destruct (fs_lookup PRec s); [|reflexivity].
  destruct (update_target _ _); reflexivity.
Qed.

Lemma existsb_app_false {A} (f : A -> bool) a b :
  existsb f a = false -> existsb f b = false -> existsb f (a ++ b) = false.
Proof. intros Ha Hb. rewrite existsb_app, Ha, Hb. reflexivity. Qed.

Lemma close_no_ra c m s l : existsb is_removeall (snd (close_fragment c m s l)) = false.
Proof.
  unfold close_fragment. destruct (negb (m_opened m)); [reflexivity|].
  match goal with |- context [if ?b then write_record ?c ?m ?s else ?x] =>
    pose proof (write_record_no_ra c m s) as Hw; destruct b end.
  - destruct (write_record _ _ _) as [m2 o2]. cbn [snd] in *.
    apply existsb_app_false; [reflexivity|]. apply existsb_app_false; [exact Hw|].
    destruct (c_mode c =? 2); [|reflexivity]. destruct (fi_named _); reflexivity.
  - cbn [snd]. apply existsb_app_false; [reflexivity|]. cbn [app].
    destruct (c_mode c =? 2); [|reflexivity]. destruct (fi_named _); reflexivity.
Qed.

Lemma reopen_no_ra c m s ts d1 d2 now : existsb is_removeall (snd (reopen c m s ts d1 d2 now)) = false.
Proof.
  unfold reopen. destruct d1; [|reflexivity].
  pose proof (close_no_ra c m s false) as Hc. destruct (close_fragment c m s false) as [m1 o1].
  unfold open_fragment. cbn [snd] in *. apply existsb_app_false; [exact Hc|reflexivity].
Qed.

Lemma update_no_ra c m s ts b now : existsb is_removeall (snd (update_fragment c m s ts b now)) = false.
Proof.
  unfold update_fragment. destruct (m_opened m); [|apply reopen_no_ra].
  assert (H1 : existsb is_removeall (snd (if force_split c m ts then reopen c m s ts true true now else (m, []))) = false).
  { destruct (force_split c m ts); [apply reopen_no_ra|reflexivity]. }
  destruct (if force_split c m ts then reopen c m s ts true true now else (m, [])) as [m1 o1]. cbn [snd] in H1.
  destruct (f_ltb _ _); [exact H1|].
  pose proof (reopen_no_ra c (upd_dur m1 (slot c m (m_nfrags m)) ts) (apply_all s o1) ts b false now) as H3.
  destruct (reopen _ _ _ _ _ _ _) as [m3 o3]. cbn [snd] in *. now apply existsb_app_false.
Qed.

Lemma feed_no_ra c m s a p d b n pk : existsb is_removeall (snd (feed c m s a p d b n pk)) = false.
Proof.
  unfold feed. pose proof (update_no_ra c m s (if a then p else d) b n) as H.
  destruct (update_fragment _ _ _ _ _ _) as [m1 o1]. cbn [snd] in H.
  destruct (m_opened m1); cbn [snd]; [|exact H]. now apply existsb_app_false.
Qed.

Lemma step_no_ra c w e : e <> EvCleanup -> existsb is_removeall (snd (step c w e)) = false.
Proof.
  intros He. destruct w as [[m|] s]; destruct e; try congruence; cbn [step w_mux w_fs snd]; try reflexivity.
  - pose proof (feed_no_ra c m s audio pts dts boundary now pk) as H.
    destruct (feed _ _ _ _ _ _ _ _ _) as [m1 o]. exact H.
  - pose proof (close_no_ra c m s true) as H. destruct (close_fragment _ _ _ _) as [m1 o]. exact H.
  - unfold start_mux. destruct (fs_lookup PLive s); reflexivity.
Qed.

Lemma step_dispose_none c m s : fst (step c (mkworld (Some m) s) EvDispose) = None.
Proof. cbn. destruct (close_fragment _ _ _ _). reflexivity. Qed.

(* ---------- refinement: the server's calls are the muxer-level run of the lowered history ---------- *)
Lemma to_mux_step c id m gen tm s e :
  to_mux c (mksrv (Some (id, Some m)) gen tm) s e =
  (mksrv (Some (id, fst (step c (mkworld (Some m) s) e))) gen tm, snd (step c (mkworld (Some m) s) e)).
Proof. unfold to_mux. cbn. destruct (step _ _ _). reflexivity. Qed.

Lemma srv_refines_from c : forall evs v s, timers_ok c v ->
  concat (map snd (srv_exec_g true true true c v s evs)) =
  run_from c (mkworld (live_mux v) s) (lower_from c (alive_b v) (length (sv_timers v)) evs).
Proof.
  induction evs as [|e t IH]; intros v s Hok; [reflexivity|].
  destruct v as [g gen tm]. unfold timers_ok in Hok. cbn [sv_timers] in Hok.
  destruct g as [[id [m|]]|].
  - (* a muxer is alive *)
    destruct e; cbn [srv_exec_g srv_step sv_group lower_from].
    + (* publish: refused *)
      cbn [map snd concat app]. rewrite IH by exact Hok. reflexivity.
    + rewrite to_mux_step. cbn [map snd concat]. rewrite IH by exact Hok.
      cbn [run_from step live_mux alive_b sv_group sv_timers w_mux w_fs fst snd apply_all fold_left]. reflexivity.
    + rewrite to_mux_step. cbn [map snd concat]. rewrite IH by exact Hok.
      cbn [live_mux alive_b sv_group sv_timers run_from].
      destruct (step c _ (EvFeed audio pts dts boundary now pk)) as [mx o] eqn:E. cbn [fst snd].
      assert (Hx : exists m1, mx = Some m1).
      { cbn in E. destruct (feed _ _ _ _ _ _ _ _ _). injection E as <- _. eauto. }
      destruct Hx as [m1 ->]. reflexivity.
    + rewrite to_mux_step. pose proof (step_dispose_none c m s) as Hn.
      cbn [run_from]. destruct (step c _ EvDispose) as [mx o] eqn:E. cbn [fst snd] in *. subst mx.
      cbn [map snd concat sv_group sv_gen sv_timers]. rewrite IH.
      * cbn [live_mux alive_b sv_group sv_timers andb]. rewrite app_length.
        destruct (arms c); cbn [length]; rewrite ?Nat.add_0_r, ?Nat.add_1_r; reflexivity.
      * unfold timers_ok. cbn [sv_timers]. destruct (arms c) eqn:Ea; [reflexivity|]. rewrite app_nil_r. exact Hok.
    + cbn [map snd concat app]. rewrite IH by exact Hok. reflexivity.
    + destruct tm as [|t0 rest]; cbn [map snd concat app length sv_timers].
      * rewrite IH by exact Hok. reflexivity.
      * unfold fire_sees_alive. cbn [sv_group orb]. cbn [app]. rewrite IH.
        -- cbn [live_mux alive_b sv_group sv_timers run_from step w_mux w_fs apply_all fold_left app]. reflexivity.
        -- unfold timers_ok. cbn [sv_timers]. intros _. apply Hok. discriminate.
  - (* the group is registered, no muxer *)
    destruct e; cbn [srv_exec_g srv_step sv_group lower_from to_mux].
    + cbn [run_from live_mux sv_group]. destruct (step c (mkworld None s) EvNew) as [mx o] eqn:E.
      cbn [map snd concat]. rewrite IH by exact Hok.
      assert (Hx : exists m1, mx = Some m1) by (cbn in E; destruct (start_mux c s); injection E as <- _; eauto).
      destruct Hx as [m1 ->]. reflexivity.
    + cbn [map snd concat app]. rewrite IH by exact Hok. reflexivity.
    + cbn [map snd concat app]. rewrite IH by exact Hok. reflexivity.
    + cbn [map snd concat app]. rewrite IH by exact Hok. reflexivity.
    + cbn [map snd concat app]. rewrite IH by exact Hok. reflexivity.
    + destruct tm as [|t0 rest]; cbn [map snd concat app length sv_timers].
      * rewrite IH by exact Hok. reflexivity.
      * unfold fire_sees_alive. cbn [sv_group]. rewrite IH.
        -- cbn [live_mux alive_b sv_group sv_timers run_from step w_mux w_fs].
           assert (Ha : arms c = true) by (apply Hok; discriminate). unfold arms in Ha. rewrite Ha. reflexivity.
        -- unfold timers_ok. cbn [sv_timers]. intros _. apply Hok. discriminate.
  - (* no group *)
    destruct e; cbn [srv_exec_g srv_step sv_group lower_from to_mux].
    + cbn [run_from live_mux sv_group]. destruct (step c (mkworld None s) EvNew) as [mx o] eqn:E.
      cbn [map snd concat]. rewrite IH by exact Hok.
      assert (Hx : exists m1, mx = Some m1) by (cbn in E; destruct (start_mux c s); injection E as <- _; eauto).
      destruct Hx as [m1 ->]. reflexivity.
    + cbn [map snd concat app]. rewrite IH by exact Hok. reflexivity.
    + cbn [map snd concat app]. rewrite IH by exact Hok. reflexivity.
    + cbn [map snd concat app]. rewrite IH by exact Hok. reflexivity.
    + cbn [map snd concat app]. rewrite IH by exact Hok. reflexivity.
    + destruct tm as [|t0 rest]; cbn [map snd concat app length sv_timers].
      * rewrite IH by exact Hok. reflexivity.
      * unfold fire_sees_alive. cbn [sv_group]. rewrite IH.
        -- cbn [live_mux alive_b sv_group sv_timers run_from step w_mux w_fs].
           assert (Ha : arms c = true) by (apply Hok; discriminate). unfold arms in Ha. rewrite Ha. reflexivity.
        -- unfold timers_ok. cbn [sv_timers]. intros _. apply Hok. discriminate.
Qed.

Theorem srv_refines c evs : srv_run c evs = run c (lower c evs).
Proof.
  unfold srv_run, srv_run_ev, srv_exec, run, lower. rewrite (srv_refines_from c evs srv0 []); [reflexivity|].
  unfold timers_ok. cbn. congruence.
Qed.

(* ---------- the delayed cleanup spares a live muxer ---------- *)
(* an event's calls contain a RemoveAll only if no muxer was alive for the name at that instant *)
Definition spares_live (r : bool * list op) : Prop := existsb is_removeall (snd r) = true -> fst r = false.

Lemma srv_step_spares c v s e :
  existsb is_removeall (snd (srv_step true true true c v s e)) = true -> live_mux v = None /\ e = SvFire.
Proof.
  assert (Hs : forall w e0 r, e0 <> EvCleanup -> step c w e0 = r -> existsb is_removeall (snd r) = true -> False).
  { intros w e0 r He <- Hr. rewrite (step_no_ra c w e0 He) in Hr. discriminate. }
  destruct v as [g gen tm]. destruct e; cbn [srv_step sv_group].
  - destruct g as [[id [m|]]|]; cbn [snd]; try discriminate;
      (destruct (step c (mkworld None s) EvNew) as [mx o] eqn:E; cbn [snd]; intros Hr; exfalso;
       eapply (Hs _ EvNew _ ltac:(congruence) E); exact Hr).
  - destruct g as [[id [m|]]|]; try (cbn [to_mux sv_group snd]; discriminate);
      (rewrite to_mux_step; cbn [snd]; rewrite step_no_ra; [discriminate|congruence]).
  - destruct g as [[id [m|]]|]; try (cbn [to_mux sv_group snd]; discriminate);
      (rewrite to_mux_step; cbn [snd]; rewrite step_no_ra; [discriminate|congruence]).
  - destruct g as [[id [m|]]|]; try (cbn [snd]; discriminate);
      (rewrite to_mux_step; cbn [snd]; rewrite step_no_ra; [discriminate|congruence]).
  - destruct g as [[id [m|]]|]; cbn [snd]; discriminate.
  - destruct tm as [|t0 rest]; cbn [snd sv_timers]; [discriminate|].
    unfold fire_sees_alive, live_mux. cbn [sv_group].
    destruct g as [[id [m|]]|]; cbn [orb existsb is_removeall]; try discriminate; auto.
Qed.

Theorem cleanup_spares_live_from c : forall evs v s, Forall spares_live (srv_exec_g true true true c v s evs).
Proof.
  induction evs as [|e t IH]; intros v s; [constructor|].
  cbn [srv_exec_g]. pose proof (srv_step_spares c v s e) as H.
  destruct (srv_step true true true c v s e) as [v1 o]. cbn [snd] in H.
  constructor; [|apply IH].
  unfold spares_live. cbn [fst snd]. intros Hra. destruct (H Hra) as [-> _]. reflexivity.
Qed.

(* the only event that removes the directory is a firing timer *)
Theorem only_fire_removes c : forall evs v s k e r,
  nth_error evs k = Some e -> nth_error (srv_exec_g true true true c v s evs) k = Some r ->
  existsb is_removeall (snd r) = true -> e = SvFire.
Proof.
  induction evs as [|e0 t IH]; intros v s k e r He Hr Hra; [destruct k; discriminate|].
  cbn [srv_exec_g] in Hr. pose proof (srv_step_spares c v s e0) as H.
  destruct (srv_step true true true c v s e0) as [v1 o]. cbn [snd] in H.
  destruct k as [|k]; cbn [nth_error] in *.
  - injection He as <-. injection Hr as <-. cbn [snd] in Hra. now destruct (H Hra).
  - eapply IH; eauto.
Qed.

(* ---------- the captured-group design removes the directory of a live muxer ---------- *)
Definition captured_witness : list sev := [SvPub; SvStop; SvTick; SvPub; SvFire].

Lemma captured_group_removes_live :
  exists c r, In r (srv_exec false c srv0 [] captured_witness) /\
              existsb is_removeall (snd r) = true /\ fst r = true /\
              Forall spares_live (srv_exec true c srv0 [] captured_witness).
Proof.
  exists (mkcfg [115%N] 1000 1 0 1), (true, [ORemoveAll PDir]).
  split; [vm_compute; tauto|]. split; [reflexivity|]. split; [reflexivity|]. apply cleanup_spares_live_from.
Qed.

(* ---------- hls.enable / hls.enable_https: the start, stop and cleanup guards ---------- *)
(* whenever a muxer is started, the stop and (after the fix) the cleanup guard hold too *)
Lemma guards_consistent g : hls_start_guard g = true -> hls_stop_guard g = true /\ hls_cleanup_guard g = true.
Proof. unfold hls_start_guard, hls_stop_guard, hls_cleanup_guard. auto. Qed.

(* as shipped, CleanupHlsIfNeeded tested Enable only: with hls on the https port only a muxer is started and its
   directory is never cleaned up *)
Lemma cleanup_guard_orig_inconsistent : exists g, hls_start_guard g = true /\ hls_cleanup_guard_orig g = false.
Proof. exists (mksw false true). split; reflexivity. Qed.

(* every configuration that starts a muxer behaves as the default one; hls off: no call at all *)
Lemma srv_exec_sw_started g c evs : hls_start_guard g = true -> srv_exec_sw g c evs = srv_exec true c srv0 [] evs.
Proof.
  intros H. unfold srv_exec_sw, srv_exec. destruct (guards_consistent g H) as [-> ->]. now rewrite H.
Qed.

Lemma srv_exec_sw_off g c evs : hls_start_guard g = false -> concat (srv_run_ev_sw g c evs) = [].
Proof.
  intros H. unfold srv_run_ev_sw, srv_exec_sw. rewrite H. induction evs as [|e t IH]; [reflexivity|exact IH].
Qed.

(* ending the input of a stream whose muxer was started: the muxer is disposed (its calls are exactly those of
   Muxer.Dispose), the group keeps none, and the delayed cleanup is armed exactly when the cleanup mode says so *)
Lemma stop_finalises g c id m gen tm s :
  hls_start_guard g = true ->
  let r := srv_step true (hls_stop_guard g) (hls_cleanup_guard g) c (mksrv (Some (id, Some m)) gen tm) s SvStop in
  live_mux (fst r) = None /\ snd r = snd (close_fragment c m s true) /\
  sv_timers (fst r) = (tm ++ (if arms c then [id] else []))%list.
Proof.
  intros H. destruct (guards_consistent g H) as [-> ->]. cbn zeta. cbn [srv_step sv_group].
  rewrite to_mux_step. cbn [fst snd sv_group sv_gen sv_timers live_mux andb].
  rewrite step_dispose_none. split; [reflexivity|]. split; [|reflexivity].
  cbn. destruct (close_fragment c m s true). reflexivity.
Qed.

(* the stop guard of seed C16r5-2 (Enable alone) leaves the muxer of an https-only configuration alive for ever *)
Lemma stop_guard_http_only_never_disposes c id m gen tm s :
  let g := mksw false true in
  hls_start_guard g = true /\
  srv_step true (sw_http g) (hls_cleanup_guard g) c (mksrv (Some (id, Some m)) gen tm) s SvStop = (mksrv (Some (id, Some m)) gen tm, []).
Proof. split; reflexivity. Qed.
