(* Proofs about calcNextSeqInM3u8 (HlsPlaylist.next_seq): on the text writePlaylist prints it returns the media
   sequence number and the number of listed segments. *)
From Coq Require Import ZArith Bool List Lia.
From Lal Require Import Common.LBytes Hls.HlsFloat Hls.HlsPlaylist Hls.HlsParse Hls.HlsFloatProofs Hls.HlsTextProofs Hls.HlsParseProofs.
Open Scope Z_scope.

Lemma split_nl_line l : forall rest cur, no_nl l ->
  split_nl (l ++ 10%N :: rest) cur = (rev cur ++ l)%list :: split_nl rest [].
Proof.
  induction l as [|x l IH]; intros rest cur Hn; cbn [app split_nl].
  - rewrite N.eqb_refl, app_nil_r. reflexivity.
  - assert (E : (x =? 10)%N = false) by (apply N.eqb_neq; intros ->; apply Hn; now left).
    rewrite E, IH by (intros H; apply Hn; now right). cbn [rev]. rewrite <- app_assoc. reflexivity.
Qed.

Lemma split_nl_join ls : Forall no_nl ls -> split_nl (join ls) [] = (ls ++ [[]])%list.
Proof.
  induction 1 as [|l ls Hl HF IH]; [reflexivity|].
  cbn [join flat_map]. rewrite <- app_assoc. cbn [app]. rewrite split_nl_line by exact Hl.
  fold (join ls). rewrite IH. reflexivity.
Qed.

Lemma uri_no_tag stream s : stream_ok stream ->
  has_prefix seq_tag (seg_name stream s) = false /\ has_prefix inf_tag (seg_name stream s) = false.
Proof.
  intros [_ H]. unfold seg_name, ts_name. destruct stream as [|c t]; [split; reflexivity|].
  cbn [app has_prefix seq_tag inf_tag].
  assert (E : (35 =? c)%N = false) by (apply N.eqb_neq; congruence).
  rewrite E. split; reflexivity.
Qed.

Lemma next_seq_segs stream segs : stream_ok stream -> forall rest q n,
  next_seq_lines (flat_map (seg_line_list stream) segs ++ rest) q n =
  next_seq_lines rest q (n + Z.of_nat (length segs)).
Proof.
  intros Hs. induction segs as [|s segs IH]; intros rest q n.
  - cbn. f_equal. lia.
  - cbn [flat_map length]. unfold seg_line_list at 1. rewrite <- !app_assoc.
    destruct (uri_no_tag stream s Hs) as [U1 U2].
    destruct (s_discont s); cbn [app next_seq_lines].
    + change (has_prefix seq_tag tag_disc) with false. change (has_prefix inf_tag tag_disc) with false. cbn iota.
      change (has_prefix seq_tag (tag_inf ++ fmt3 (s_dur s) ++ [44%N])) with false.
      change (has_prefix inf_tag (tag_inf ++ fmt3 (s_dur s) ++ [44%N])) with true. cbn iota.
      rewrite U1, U2. rewrite IH. f_equal. lia.
    + change (has_prefix seq_tag (tag_inf ++ fmt3 (s_dur s) ++ [44%N])) with false.
      change (has_prefix inf_tag (tag_inf ++ fmt3 (s_dur s) ++ [44%N])) with true. cbn iota.
      rewrite U1, U2. rewrite IH. f_equal. lia.
Qed.

Theorem next_seq_print stream p :
  stream_ok stream -> pl_wf p -> pl_seq p <= max_int32 ->
  next_seq (print_live stream p) = Some (pl_seq p, Z.of_nat (length (pl_segs p))).
Proof.
  intros Hs Hw Hmax. unfold next_seq. rewrite print_live_join, split_nl_join by now apply live_lines_no_nl.
  unfold live_lines. rewrite <- !app_assoc. cbn [app next_seq_lines].
  change (has_prefix seq_tag tag_extm3u) with false. change (has_prefix inf_tag tag_extm3u) with false.
  change (has_prefix seq_tag tag_version3) with false. change (has_prefix inf_tag tag_version3) with false.
  change (has_prefix seq_tag tag_nocache) with false. change (has_prefix inf_tag tag_nocache) with false.
  change (has_prefix seq_tag (target_tag ++ dec (pl_target p))) with false.
  change (has_prefix inf_tag (target_tag ++ dec (pl_target p))) with false. cbn iota.
  change (has_prefix seq_tag (tag_seq ++ dec (pl_seq p))) with true. cbn iota.
  change (skipn (length seq_tag) (tag_seq ++ dec (pl_seq p))) with (dec (pl_seq p)).
  destruct Hw as (HT & HQ & Hd). rewrite atoi_dec by exact HQ.
  replace (pl_seq p <? 0) with false by (symmetry; apply Z.ltb_ge; lia).
  replace (max_int32 <? pl_seq p) with false by (symmetry; apply Z.ltb_ge; lia).
  cbn [orb has_prefix seq_tag inf_tag]. rewrite next_seq_segs by exact Hs.
  replace (pl_seq p <? 0) with false by (symmetry; apply Z.ltb_ge; lia).
  destruct (pl_end p); cbn [app next_seq_lines].
  - change (has_prefix seq_tag tag_endlist) with false. change (has_prefix inf_tag tag_endlist) with false. cbn.
    replace (pl_seq p <? 0) with false by (symmetry; apply Z.ltb_ge; lia). reflexivity.
  - cbn. replace (pl_seq p <? 0) with false by (symmetry; apply Z.ltb_ge; lia). reflexivity.
Qed.
