(* Proofs: the ring / deletion invariant is preserved by every phase of the muxer,
   and every phase is a chain (every prefix of its operations is described by a muxer state). *)
From Coq Require Import ZArith Bool List Lia.
From Lal Require Import Common.LBytes Hls.HlsFloat Hls.HlsFs Hls.HlsPlaylist Hls.HlsMuxer Hls.HlsConsistent
  Hls.HlsFsProofs Hls.HlsFloatProofs Hls.HlsInv.
Open Scope Z_scope.

(* ---------- lists ---------- *)
Lemma set_nth_length {A} i (x : A) l : length (set_nth i x l) = length l.
Proof. revert i; induction l as [|h t IH]; intros [|i]; cbn; auto. Qed.

Lemma nth_set_nth_eq {A} i (x d : A) l : (i < length l)%nat -> nth i (set_nth i x l) d = x.
Proof. revert i; induction l as [|h t IH]; intros [|i] H; cbn in *; try lia; auto. apply IH. lia. Qed.

Lemma nth_set_nth_neq {A} i j (x d : A) l : i <> j -> nth j (set_nth i x l) d = nth j l d.
Proof.
  revert i j; induction l as [|h t IH]; intros [|i] [|j] H; cbn; auto; try congruence.
Qed.

Lemma nth_set_nth_cases {A} i j (x d : A) l :
  nth j (set_nth i x l) d = x \/ nth j (set_nth i x l) d = nth j l d.
Proof.
  revert i j; induction l as [|h t IH]; intros [|i] [|j]; cbn; auto.
Qed.

Lemma nth_repeat_any {A} (x : A) n i : nth i (repeat x n) x = x.
Proof. revert i; induction n; intros [|i]; cbn; auto. Qed.

(* ---------- ring arithmetic ---------- *)
Lemma mod_to_nat_neq i j C : 0 < C -> i <> j -> - C < i - j < C -> Z.to_nat (i mod C) <> Z.to_nat (j mod C).
Proof.
  intros HC Hne Hd E.
  assert (Hi := Z.mod_pos_bound i C HC). assert (Hj := Z.mod_pos_bound j C HC).
  apply Z2Nat.inj in E; try lia.
  assert (Hm : (i - j) mod C = 0).
  { rewrite Zminus_mod, E, Z.sub_diag. apply Z.mod_0_l. lia. }
  apply Z.mod_divide in Hm; [|lia]. destruct Hm as [k Hk].
  assert (k = 0) by nia. subst k. lia.
Qed.

Lemma mod_shift i C : 0 < C -> (i + C) mod C = i mod C.
Proof. intros. rewrite <- (Z.mul_1_l C) at 1. apply Z.mod_add. lia. Qed.

Lemma mod_to_nat_lt i C : 0 < C -> (Z.to_nat (i mod C) < Z.to_nat C)%nat.
Proof. intros HC. assert (H := Z.mod_pos_bound i C HC). lia. Qed.

(* ---------- reading the state ---------- *)
Lemma slot_nclosed c m k : slot c m k = Z.to_nat ((m_frag m + k) mod cap c).
Proof. reflexivity. Qed.

Lemma get_frag_sl c m k : get_frag c m k = sl c m (m_frag m + k).
Proof. reflexivity. Qed.

Lemma cap_pos c : 1 <= c_num c -> 0 <= c_thr c -> 2 <= cap c.
Proof. unfold cap. lia. Qed.

(* ---------- which paths an operation can change ---------- *)
Definition not_removeall (o : op) : Prop := match o with ORemoveAll _ => False | _ => True end.

Lemma lookup_apply_other p s o :
  not_removeall o -> ~ In p (op_paths o) -> fs_lookup p (apply s o) = fs_lookup p s.
Proof.
  intros Hn Hp. rewrite lookup_apply. destruct o; cbn in *; try reflexivity; try contradiction.
  - assert (E : path_eqb p p0 = false) by (apply path_eqb_neq; intuition congruence). now rewrite E.
  - assert (E : path_eqb p p0 = false) by (apply path_eqb_neq; intuition congruence). rewrite E. now destruct (fs_lookup p0 s).
  - assert (E : path_eqb p p0 = false) by (apply path_eqb_neq; intuition congruence). rewrite E. now destruct (fs_lookup p0 s).
  - assert (E : path_eqb p p0 = false) by (apply path_eqb_neq; intuition congruence). now rewrite E.
  - assert (E1 : path_eqb p src = false) by (apply path_eqb_neq; intuition congruence).
    assert (E2 : path_eqb p dst = false) by (apply path_eqb_neq; intuition congruence).
    rewrite E1, E2. now destruct (fs_lookup src s).
  - assert (E : path_eqb p p0 = false) by (apply path_eqb_neq; intuition congruence). now rewrite E.
Qed.

(* ---------- the invariant only looks at a few paths ---------- *)
Definition relevant (c : cfg) (m : mux) (p : path) : Prop :=
  p = PLive \/
  (exists i, m_base m <= i /\ nclosed m - cap c < i < nclosed m /\ p = PTs (hnow m i) i) \/
  (m_opened m = true /\ p = m_cur m) \/
  (nclosed m = m_base m /\ exists now id, id < m_base m /\ p = PTs now id).

(* ---------- the playlist of a previous publication ---------- *)
Lemma seg_file_ok_ext s s' sg :
  fs_lookup (PTs (s_now sg) (s_id sg)) s' = fs_lookup (PTs (s_now sg) (s_id sg)) s -> seg_file_ok s sg -> seg_file_ok s' sg.
Proof. intros E (f & pp & rest & H). exists f, pp, rest. now rewrite E. Qed.

Lemma prev_ok_ext c m m' s s' :
  m_base m' = m_base m -> m_pfrag m' = m_pfrag m ->
  fs_lookup PLive s' = fs_lookup PLive s ->
  (forall now id, id < m_base m -> fs_lookup (PTs now id) s' = fs_lookup (PTs now id) s) ->
  prev_ok c m s -> prev_ok c m' s'.
Proof.
  intros Eb Ep El Et H. unfold prev_ok in *. rewrite El, Eb, Ep. destruct (fs_lookup PLive s) as [f|]; [|exact H].
  destruct H as (pl & A & B & C & D & F). exists pl.
  split; [exact A|]. split; [exact B|]. split; [exact C|]. split; [exact D|].
  eapply Forall_impl; [|exact F]. intros sg (X & Y & Z). unfold prev_seg_ok. rewrite Eb.
  split; [exact X|]. split; [exact Y|]. eapply seg_file_ok_ext; [|exact Z]. now apply Et.
Qed.

Lemma prev_ok_mux c m m' s : m_base m' = m_base m -> m_pfrag m' = m_pfrag m -> prev_ok c m s -> prev_ok c m' s.
Proof. intros Eb Ep. apply prev_ok_ext; auto. Qed.

Lemma inv_ext c m s s' :
  (forall p, relevant c m p -> fs_lookup p s' = fs_lookup p s) -> Inv c m s -> Inv c m s'.
Proof.
  intros E [H1 H2 H3 H4 H5 H6 H7 H8 H9 H10 H11 H12 H13]. constructor; try assumption.
  - intros i Hi Hw. rewrite E; [now apply H9|]. right; left. now exists i.
  - intros Ho. rewrite E; [now apply H10|]. right; right; left. now split.
  - intros Hn. eapply prev_ok_ext; [reflexivity|reflexivity| | |now apply H11].
    + apply E. now left.
    + intros now id Hid. apply E. right; right; right. split; [exact Hn|]. now exists now, id.
  - intros Hn. rewrite E; [now apply H12|]. now left.
Qed.

(* fields the invariant does not read *)
Lemma inv_irrel c o ts ts' rm rm' nf fr fs pp pp' cur h b pf s :
  Inv c (mkmux o ts rm nf fr fs pp cur h b pf) s -> Inv c (mkmux o ts' rm' nf fr fs pp' cur h b pf) s.
Proof. intros [H1 H2 H3 H4 H5 H6 H7 H8 H9 H10 H11 H12 H13]; constructor; assumption. Qed.

Lemma mle_refl m : mle m m.
Proof. unfold mle. lia. Qed.

Lemma touch_ok_nots b o : (forall p, In p (op_paths o) -> match p with PTs _ _ => False | _ => True end) -> touch_ok b o.
Proof. intros H p Hp. specialize (H p Hp). destruct p; auto. contradiction. Qed.

Lemma mle_trans a b d : mle a b -> mle b d -> mle a d.
Proof. unfold mle. lia. Qed.

Lemma mle_same_shape m m' :
  nclosed m' = nclosed m -> m_base m' = m_base m -> m_pfrag m' = m_pfrag m -> m_frag m' = m_frag m -> mle m m'.
Proof. intros A B C D. unfold mle, shown. rewrite A, B, C, D. lia. Qed.

Lemma same_pub_refl m : same_pub m m.
Proof. split; [reflexivity|]. exists []. now rewrite app_nil_r. Qed.

Lemma same_pub_trans a b d : same_pub a b -> same_pub b d -> same_pub a d.
Proof.
  intros (H1 & l1 & H3) (H4 & l2 & H6). split; [congruence|].
  exists (l1 ++ l2)%list. rewrite H6, H3. now rewrite app_assoc.
Qed.

(* the generic form of rstep for an operation that is neither RemoveAll nor MkdirAll *)
Definition not_mkdir (o : op) : Prop := match o with OMkdirAll _ => False | _ => True end.

Lemma rstep_plain c m o m1 :
  not_removeall o -> not_mkdir o -> mle m m1 -> same_pub m m1 ->
  nclosed m1 = nclosed m + (if is_live_replace o then 1 else 0) -> touch_ok (m_base m) o ->
  rstep c m o m1.
Proof.
  intros Hn Hk A B C D. destruct o; try contradiction; cbn [rstep]; auto.
Qed.

Lemma rstep_same c m o : not_removeall o -> not_mkdir o -> is_live_replace o = false -> touch_ok (m_base m) o -> rstep c m o m.
Proof.
  intros Hn Hk Hl Ht. apply rstep_plain; [exact Hn|exact Hk|apply mle_refl|apply same_pub_refl|rewrite Hl; lia|exact Ht].
Qed.

(* an operation on paths the invariant does not look at *)
Lemma chain_irrelevant_op c m s o :
  Inv c m s -> not_removeall o -> is_live_replace o = false ->
  (forall p, relevant c m p -> ~ In p (op_paths o)) ->
  not_mkdir o -> touch_ok (m_base m) o ->
  chain c m s [o] m /\ Inv c m (apply s o).
Proof.
  intros HI Hn Hl Hp Hk Ht.
  assert (HI' : Inv c m (apply s o)).
  { eapply inv_ext; [|exact HI]. intros p Hr. apply lookup_apply_other; auto. }
  split; [|exact HI'].
  eapply ch_cons; [|exact HI'|apply ch_nil].
  now apply rstep_same.
Qed.

Lemma chain_app c m s a m1 b m2 :
  chain c m s a m1 -> chain c m1 (apply_all s a) b m2 -> chain c m s (a ++ b) m2.
Proof.
  induction 1 as [m s|m s o m1 ops m3 Hr Hi Hc IH|m s m1 ops m3 Hl Hsp Hn Hi Hc IH]; intros Hb.
  - exact Hb.
  - cbn. eapply ch_cons; eauto.
  - eapply ch_silent; eauto.
Qed.

(* ---------- data ---------- *)
Lemma good_pp_data pp : good_pp pp -> good_data pp.
Proof.
  intros H. split.
  - destruct H as [L _]. unfold whole_pkts. rewrite L. reflexivity.
  - exists pp, []. split; [now rewrite app_nil_r|exact H].
Qed.

Lemma good_data_app d pk : good_data d -> whole_pkts pk -> good_data (d ++ pk).
Proof.
  intros [Hw (pp & rest & E & Hp)] Hk. split.
  - unfold whole_pkts in *. rewrite app_length.
    rewrite Nat.add_mod by lia. rewrite Hw, Hk. reflexivity.
  - exists pp, (rest ++ pk)%list. split; [|exact Hp]. subst d. now rewrite app_assoc.
Qed.

Lemma sl_other c m i k f :
  0 < cap c -> i <> k -> - cap c < i - k < cap c ->
  sl c (set_slot m (Z.to_nat (k mod cap c)) f) i = sl c m i.
Proof.
  intros HC Hne Hd. unfold sl, get_slot, set_slot, with_frags. cbn.
  apply nth_set_nth_neq. apply not_eq_sym. apply mod_to_nat_neq; auto.
Qed.

(* frags_in_playlist only reads the slots of the listed (closed) fragments *)
Lemma frags_in_playlist_ext c m m' :
  m_nfrags m' = m_nfrags m -> m_frag m' = m_frag m ->
  (forall k, 0 <= k < m_nfrags m -> get_frag c m' k = get_frag c m k) ->
  frags_in_playlist c m' = frags_in_playlist c m.
Proof.
  intros E1 E2 H. unfold frags_in_playlist. rewrite E1.
  apply map_ext_in. intros k Hk. apply in_seq in Hk. apply H. lia.
Qed.

Lemma live_playlist_ext c m m' e :
  frags_in_playlist c m' = frags_in_playlist c m -> m_frag m' = m_frag m ->
  live_playlist c m' e = live_playlist c m e.
Proof. intros E1 E2. unfold live_playlist. now rewrite E1, E2. Qed.

Lemma open_ok c m s ts discont now m' ops :
  Inv c m s -> m_opened m = false -> good_pp (m_patpmt m) ->
  open_fragment c m ts discont now = (m', ops) ->
  chain c m s ops m' /\ Inv c m' (apply_all s ops) /\ m_opened m' = true /\
  m_frag m' = m_frag m /\ m_nfrags m' = m_nfrags m /\ m_patpmt m' = m_patpmt m /\ m_fragts m' = ts.
Proof.
  intros HI Ho Hpp E. unfold open_fragment in E. injection E as <- <-.
  set (n := m_frag m + m_nfrags m). set (p := PTs now n).
  assert (Hn : nclosed m = n) by reflexivity.
  destruct HI as [H1 H2 H3 H4 H5 H6 H7 H8 H9 H10 H11 H12 H13].
  assert (HI : Inv c m s) by (constructor; assumption).
  assert (HC : 2 <= cap c) by (apply cap_pos; lia).
  rewrite Ho in H4. cbn [b2z] in H4. rewrite Hn, Z.add_0_r in H4.
  assert (Hbn : m_base m <= n) by (unfold n; lia).
  (* after Create *)
  destruct (chain_irrelevant_op c m s (OCreate p) HI I eq_refl) as [Hch1 HI1].
  { intros q [->|[(i & Hi0 & Hi & ->)|[[Hop _]|(_ & now0 & id0 & Hid & ->)]]]; cbn; [intuition discriminate| |congruence|].
    - intros [Eq|[]]. injection Eq as _ Eq. lia.
    - intros [Eq|[]]. injection Eq as _ Eq. lia. }
  { exact I. }
  { intros q [<-|[]]. exact Hbn. }
  set (s1 := apply s (OCreate p)) in *.
  set (fi' := mkfi n fl0 discont true now).
  set (m' := mkmux true ts (m_recmax m) (m_nfrags m) (m_frag m)
               (set_nth (slot c m (m_nfrags m)) fi' (m_frags m)) (m_patpmt m) p (m_hist m ++ [now]) (m_base m) (m_pfrag m)).
  assert (Hslot : slot c m (m_nfrags m) = Z.to_nat (n mod cap c)) by reflexivity.
  assert (Hsl_other : forall i, i <> n -> - cap c < i - n < cap c -> sl c m' i = sl c m i).
  { intros i Hne Hd. unfold sl, get_slot, m'. cbn [m_frags]. rewrite Hslot.
    apply nth_set_nth_neq. apply not_eq_sym. apply mod_to_nat_neq; auto; lia. }
  assert (Hsl_n : sl c m' n = fi').
  { unfold sl, get_slot, m'. cbn [m_frags]. rewrite Hslot. apply nth_set_nth_eq.
    rewrite H3. apply mod_to_nat_lt. lia. }
  assert (Hh_lt : forall i, m_base m <= i < n -> hnow m' i = hnow m i).
  { intros i Hi. unfold hnow, m'. cbn [m_hist m_base]. apply app_nth1. lia. }
  assert (Hh_n : hnow m' n = now).
  { unfold hnow, m'. cbn [m_hist m_base]. rewrite app_nth2 by lia.
    replace (Z.to_nat (n - m_base m) - length (m_hist m))%nat with 0%nat by lia. reflexivity. }
  assert (Hn' : nclosed m' = n) by reflexivity.
  assert (Hlk : fs_lookup p (apply s1 (OWrite p (m_patpmt m))) = Some (mkfile (m_patpmt m) false)).
  { rewrite lookup_apply. unfold s1. rewrite lookup_apply. rewrite !path_eqb_refl. reflexivity. }
  assert (Hlk_o : forall q, q <> p -> fs_lookup q (apply s1 (OWrite p (m_patpmt m))) = fs_lookup q s).
  { intros q Hq. rewrite lookup_apply_other; [|exact I|cbn; intuition congruence].
    unfold s1. rewrite lookup_apply_other; [reflexivity|exact I|cbn; intuition congruence]. }
  assert (HI2 : Inv c m' (apply s1 (OWrite p (m_patpmt m)))).
  { constructor; try assumption.
    - unfold m'. cbn. now rewrite set_nth_length.
    - rewrite Hn'. unfold m'. cbn [m_hist m_opened m_base b2z]. rewrite app_length. cbn [length]. lia.
    - intros i Hi Hw. rewrite Hn' in Hw. change (m_base m') with (m_base m) in Hi.
      unfold slot_is. rewrite Hsl_other, Hh_lt by lia. apply H5; lia.
    - intros _. rewrite Hn'. split; [|now rewrite Hh_n].
      unfold slot_is. rewrite Hsl_n, Hh_n. cbn. auto.
    - intros Hf. discriminate Hf.
    - intros i Hi. rewrite Hn' in Hi. cbn [m_opened m_base m' b2z] in Hi.
      rewrite Hsl_other by lia. apply H8. rewrite Ho. cbn. lia.
    - intros i Hi Hw. rewrite Hn' in Hw. change (m_base m') with (m_base m) in Hi. rewrite Hh_lt by lia.
      rewrite Hlk_o; [apply H9; lia|]. unfold p. intros Eq. injection Eq as _ Eq. lia.
    - intros _. exists (mkfile (m_patpmt m) false). split; [exact Hlk|]. cbn. now apply good_pp_data.
    - intros Hz. change (nclosed m') with n in Hz. change (m_base m') with (m_base m) in Hz.
      eapply (prev_ok_ext c m m'); [reflexivity|reflexivity| | |apply H11; lia].
      + apply Hlk_o. discriminate.
      + intros now0 id0 Hid. apply Hlk_o. unfold p. intros Eq. injection Eq as _ Eq. lia.
    - intros Hz. rewrite Hlk_o by discriminate. destruct (H12 Hz) as [e He]. exists e. rewrite He.
      f_equal. f_equal. f_equal. apply live_playlist_ext; [|reflexivity].
      apply frags_in_playlist_ext; try reflexivity.
      intros k Hk. rewrite !get_frag_sl. cbn [m_frag m']. symmetry. cbn [m_nfrags m'] in Hk. apply Hsl_other; unfold n, cap; lia.
    - intros j. unfold get_slot, m'. cbn [m_frags].
      destruct (nth_set_nth_cases (slot c m (m_nfrags m)) j fi' fi0 (m_frags m)) as [-> | ->]; [apply dur_ok_fl0|apply H13]. }
  split; [|split; [exact HI2|repeat split; reflexivity]].
  change [OCreate p; OWrite p (m_patpmt m)] with ([OCreate p] ++ [OWrite p (m_patpmt m)]).
  eapply chain_app; [exact Hch1|].
  eapply ch_cons; [|exact HI2|apply ch_nil].
  apply rstep_plain; [exact I|exact I| | |cbn; lia|].
  - apply mle_same_shape; reflexivity.
  - split; [reflexivity|]. exists [now]. reflexivity.
  - intros q [<-|[]]. exact Hbn.
Qed.

(* a list of operations on paths the invariant does not look at *)
Definition irrelevant_op (c : cfg) (m : mux) (o : op) : Prop :=
  not_removeall o /\ is_live_replace o = false /\ (forall p, relevant c m p -> ~ In p (op_paths o)) /\
  not_mkdir o /\ touch_ok (m_base m) o.

Lemma chain_irrelevant_ops c m s ops :
  Inv c m s -> Forall (irrelevant_op c m) ops -> chain c m s ops m /\ Inv c m (apply_all s ops).
Proof.
  revert s. induction ops as [|o ops IH]; intros s HI HF.
  - split; [apply ch_nil|exact HI].
  - inversion HF as [|? ? (Ha & Hb & Hc & Hd & He) HF']; subst.
    destruct (chain_irrelevant_op c m s o HI Ha Hb Hc Hd He) as [Hch HI'].
    destruct (IH (apply s o) HI' HF') as [Hch2 HI2].
    split; [|exact HI2].
    change (o :: ops) with ([o] ++ ops). eapply chain_app; eauto.
Qed.

(* closing the current file keeps the invariant *)
Lemma inv_close_cur c m s :
  Inv c m s -> m_opened m = true ->
  Inv c m (apply s (OClose (m_cur m))) /\
  exists f, fs_lookup (m_cur m) (apply s (OClose (m_cur m))) = Some f /\ fclosed f = true /\ good_data (fdata f).
Proof.
  intros HI Ho.
  destruct HI as [H1 H2 H3 H4 H5 H6 H7 H8 H9 H10 H11 H12 H13].
  destruct (H10 Ho) as (f & Hf & Hg).
  destruct (H6 Ho) as [_ Hcur].
  assert (Hlk : fs_lookup (m_cur m) (apply s (OClose (m_cur m))) = Some (mkfile (fdata f) true)).
  { rewrite lookup_apply, Hf, path_eqb_refl. reflexivity. }
  assert (Hlk_o : forall q, q <> m_cur m -> fs_lookup q (apply s (OClose (m_cur m))) = fs_lookup q s).
  { intros q Hq. apply lookup_apply_other; [exact I|cbn; intuition congruence]. }
  split.
  - constructor; try assumption.
    + intros i Hi Hw. rewrite Hlk_o; [now apply H9|]. rewrite Hcur. intros E. injection E as _ E. lia.
    + intros _. exists (mkfile (fdata f) true). split; [exact Hlk|exact Hg].
    + intros Hz. eapply (prev_ok_ext c m m); [reflexivity|reflexivity| | |now apply H11].
      * apply Hlk_o. rewrite Hcur. discriminate.
      * intros now0 id0 Hid. apply Hlk_o. rewrite Hcur. intros E. injection E as _ E. lia.
    + intros Hz. rewrite Hlk_o; [now apply H12|]. rewrite Hcur. discriminate.
  - exists (mkfile (fdata f) true). auto.
Qed.

Definition rec_op (o : op) : Prop :=
  not_removeall o /\ not_mkdir o /\ is_live_replace o = false /\ forall p, In p (op_paths o) -> p = PRec \/ p = PRecBak.

Lemma with_recmax_same m : with_recmax m (m_recmax m) = m.
Proof. now destruct m. Qed.

Lemma write_record_shape c m s m' ops :
  write_record c m s = (m', ops) -> (exists r, m' = with_recmax m r) /\ Forall rec_op ops.
Proof.
  unfold write_record. intros E.
  set (cur := get_frag c m (m_nfrags m - 1)) in *.
  assert (Hm : exists r, (if f_ltb (m_recmax m) (fi_dur cur) then with_recmax m (fi_dur cur) else m) = with_recmax m r).
  { destruct (f_ltb _ _); [eauto|]. exists (m_recmax m). now rewrite with_recmax_same. }
  assert (R1 : forall b, rec_op (OReadFile PRec b)) by (intro; repeat split; cbn; intuition).
  assert (R2 : forall b, rec_op (OWriteFile PRecBak b)) by (intro; repeat split; cbn; intuition).
  assert (R3 : rec_op (ORename PRecBak PRec)) by (repeat split; cbn; intuition).
  destruct (fs_lookup PRec s) as [f|].
  - destruct (update_target _ _); injection E as <- <-; (split; [exact Hm|]).
    + apply Forall_cons; [apply R1|]. apply Forall_cons; [apply R2|]. apply Forall_cons; [apply R3|]. apply Forall_nil.
    + apply Forall_cons; [apply R1|]. apply Forall_nil.
  - injection E as <- <-. split; [exact Hm|].
    apply Forall_cons; [apply R1|]. apply Forall_cons; [apply R2|]. apply Forall_cons; [apply R3|]. apply Forall_nil.
Qed.

Lemma rec_op_irrelevant c m o : m_opened m = false -> rec_op o -> irrelevant_op c m o.
Proof.
  intros Ho (Ha & Hk & Hb & Hc). split; [exact Ha|]. split; [exact Hb|]. split; [|split; [exact Hk|]].
  - intros p Hr Hin. apply Hc in Hin.
    destruct Hr as [->|[(i & _ & _ & ->)|[[Hp _]|(_ & now0 & id0 & _ & ->)]]].
    + destruct Hin; discriminate.
    + destruct Hin; discriminate.
    + congruence.
    + destruct Hin; discriminate.
  - apply touch_ok_nots. intros p Hin. apply Hc in Hin. destruct Hin as [-> | ->]; exact I.
Qed.

Lemma incr_frag_facts c m :
  0 <= m_pfrag m <= m_base m /\ m_base m <= m_frag m /\ 0 <= m_nfrags m <= c_num c /\ (m_nfrags m < c_num c -> m_frag m = m_base m) ->
  let m1 := incr_frag c m in
  m_opened m1 = m_opened m /\ m_frags m1 = m_frags m /\ m_hist m1 = m_hist m /\ m_cur m1 = m_cur m /\
  m_patpmt m1 = m_patpmt m /\ m_fragts m1 = m_fragts m /\ m_recmax m1 = m_recmax m /\ nclosed m1 = nclosed m + 1 /\
  m_frag m <= m_frag m1 /\
  (0 <= m_pfrag m1 <= m_base m1 /\ m_base m1 <= m_frag m1 /\ 0 <= m_nfrags m1 <= c_num c /\ (m_nfrags m1 < c_num c -> m_frag m1 = m_base m1)) /\
  m_base m1 = m_base m /\ m_pfrag m1 = m_pfrag m.
Proof.
  intros H. unfold incr_frag, nclosed. destruct (m_nfrags m =? c_num c) eqn:E; cbn.
  - apply Z.eqb_eq in E. repeat split; try reflexivity; lia.
  - apply Z.eqb_neq in E. repeat split; try reflexivity; lia.
Qed.

Lemma inv_with_recmax c m r s : Inv c m s -> Inv c (with_recmax m r) s.
Proof. destruct m. unfold with_recmax. cbn. apply inv_irrel. Qed.

Lemma inv_with_patpmt c m b s : Inv c m s -> Inv c (with_patpmt m b) s.
Proof. destruct m. unfold with_patpmt. cbn. apply inv_irrel. Qed.

Lemma close_ok c m s e m' ops :
  Inv c m s -> m_opened m = true -> close_fragment c m s e = (m', ops) ->
  chain c m s ops m' /\ Inv c m' (apply_all s ops) /\ m_opened m' = false /\ nclosed m' = nclosed m + 1 /\
  m_patpmt m' = m_patpmt m /\ m_hist m' = m_hist m /\ m_frags m' = m_frags m /\
  fs_lookup PLive (apply_all s ops) = Some (mkfile (print_live (c_stream c) (live_playlist c m' e)) true).
Proof.
  intros HI Ho E. unfold close_fragment in E. rewrite Ho in E. cbn [negb] in E.
  set (m0 := mkmux false (m_fragts m) (m_recmax m) (m_nfrags m) (m_frag m) (m_frags m) (m_patpmt m) (m_cur m) (m_hist m) (m_base m) (m_pfrag m)) in *.
  set (m1 := incr_frag c m0) in *.
  set (txt := print_live (c_stream c) (live_playlist c m1 e)) in *.
  set (ops1 := [OClose (m_cur m); OWriteFile PLiveBak txt; ORename PLiveBak PLive]) in *.
  set (n := nclosed m).
  destruct (inv_close_cur c m s HI Ho) as [HIa (fc & Hfc & Hfc_closed & Hfc_good)].
  destruct HI as [H1 H2 H3 H4 H5 H6 H7 H8 H9 H10 H11 H12 H13].
  assert (HC : 2 <= cap c) by (apply cap_pos; lia).
  destruct (H6 Ho) as [Hsn Hcur]. fold n in Hsn, Hcur.
  rewrite Ho in H4. cbn [b2z] in H4. fold n in H4.
  destruct (incr_frag_facts c m0 H2) as (F1 & F2 & F3 & F4 & F5 & F6 & F7 & F8 & F9 & F10 & F11 & F12).
  fold m1 in F1, F2, F3, F4, F5, F6, F7, F8, F9, F10, F11, F12.
  cbn [m0 m_opened m_frags m_hist m_cur m_patpmt m_fragts m_recmax m_base m_pfrag] in F1, F2, F3, F4, F5, F6, F7, F11, F12.
  change (nclosed m0) with n in F8. change (m_frag m0) with (m_frag m) in F9.
  assert (Hbn : m_base m <= n) by (unfold n, nclosed; lia).
  set (s1 := apply s (OClose (m_cur m))) in *.
  set (s3 := apply_all s ops1).
  assert (Hs3 : s3 = apply (apply s1 (OWriteFile PLiveBak txt)) (ORename PLiveBak PLive)) by reflexivity.
  assert (Hlive3 : fs_lookup PLive s3 = Some (mkfile txt true)).
  { rewrite Hs3. rewrite lookup_apply.
    assert (Hb : fs_lookup PLiveBak (apply s1 (OWriteFile PLiveBak txt)) = Some (mkfile txt true)).
    { rewrite lookup_apply. cbn. reflexivity. }
    rewrite Hb. cbn. reflexivity. }
  assert (Hts3 : forall now i, fs_lookup (PTs now i) s3 = fs_lookup (PTs now i) s1).
  { intros now i. rewrite Hs3.
    rewrite lookup_apply_other; [|exact I|cbn; intuition discriminate].
    rewrite lookup_apply_other; [reflexivity|exact I|cbn; intuition discriminate]. }
  assert (Hsl : forall i, sl c m1 i = sl c m i) by (intro i; unfold sl, get_slot; now rewrite F2).
  assert (Hhn : forall i, hnow m1 i = hnow m i) by (intro i; unfold hnow; now rewrite F3, F11).
  (* the invariant for the state after incrFrag holds once the playlist has been renamed into place *)
  assert (HI1 : forall m2, (exists r, m2 = with_recmax m1 r) -> Inv c m2 s3).
  { intros m2 [r ->]. apply inv_with_recmax.
    constructor; try assumption.
    - now rewrite F2.
    - rewrite F3, F1, F8, F11. cbn [b2z]. lia.
    - intros i Hi Hw. rewrite F8 in Hw. rewrite F11 in Hi. unfold slot_is. rewrite Hsl, Hhn.
      destruct (Z.eq_dec i n) as [->|Hne]; [exact Hsn|]. apply H5; [lia|]. fold n. lia.
    - rewrite F1. discriminate.
    - intros _ Hcap. rewrite F8, F11 in *. unfold slot_is. rewrite Hsl, Hhn.
      assert (Es : sl c m (n + 1) = sl c m (n + 1 - cap c)).
      { unfold sl. f_equal. f_equal. rewrite <- (mod_shift (n + 1 - cap c) (cap c)) by lia. f_equal. lia. }
      rewrite Es. apply H5; [lia|]. fold n. lia.
    - intros i Hi. rewrite F8, F1, F11 in Hi. cbn [b2z] in Hi. rewrite Hsl. apply H8.
      rewrite Ho. cbn [b2z]. fold n. lia.
    - intros i Hi Hw. rewrite F8 in Hw. rewrite F11 in Hi. rewrite Hhn, Hts3.
      destruct (Z.eq_dec i n) as [->|Hne].
      + rewrite <- Hcur. exists fc. auto.
      + destruct HIa as [_ _ _ _ _ _ _ _ G9 _ _ _ _]. apply G9; [lia|]. fold n. lia.
    - rewrite F1. discriminate.
    - rewrite F8, F11. intros Hz. exfalso. lia.
    - intros _. exists e. exact Hlive3.
    - intros j. unfold get_slot. rewrite F2. apply H13. }
  (* the operations up to the rename *)
  assert (Hch1 : forall m2, (exists r, m2 = with_recmax m1 r) -> chain c m s ops1 m2).
  { intros m2 Hm2. unfold ops1.
    assert (Htc : touch_ok (m_base m) (OClose (m_cur m))).
    { intros q [<-|[]]. rewrite Hcur. exact Hbn. }
    eapply ch_cons with (m1 := m); [apply rstep_same; [exact I|exact I|reflexivity|exact Htc]|exact HIa|].
    fold s1.
    assert (Hb : Inv c m (apply s1 (OWriteFile PLiveBak txt))).
    { eapply inv_ext; [|exact HIa]. intros p Hr. apply lookup_apply_other; [exact I|].
      cbn. intros [Eq|[]]. subst p.
      destruct Hr as [Hr|[(i & _ & _ & Hr)|[[_ Hr]|(_ & now0 & id0 & _ & Hr)]]]; try discriminate. rewrite Hcur in Hr. discriminate. }
    eapply ch_cons with (m1 := m); [apply rstep_same; [exact I|exact I|reflexivity|]|exact Hb|].
    { apply touch_ok_nots. intros q [<-|[]]. exact I. }
    eapply ch_cons with (m1 := m2); [| |apply ch_nil].
    - destruct Hm2 as [r ->]. apply rstep_plain; [exact I|exact I| | | |].
      + unfold mle, shown. replace (nclosed (with_recmax m1 r)) with (nclosed m1) by reflexivity.
        replace (m_frag (with_recmax m1 r)) with (m_frag m1) by reflexivity.
        replace (m_base (with_recmax m1 r)) with (m_base m1) by reflexivity.
        replace (m_pfrag (with_recmax m1 r)) with (m_pfrag m1) by reflexivity.
        rewrite F8, F11. fold n.
        replace (n + 1 =? m_base m) with false by (symmetry; apply Z.eqb_neq; lia).
        destruct (n =? m_base m); lia.
      + split; [exact (eq_sym F11)|]. exists []. replace (m_hist (with_recmax m1 r)) with (m_hist m1) by reflexivity.
        now rewrite F3, app_nil_r.
      + replace (nclosed (with_recmax m1 r)) with (nclosed m1) by reflexivity. rewrite F8. reflexivity.
      + apply touch_ok_nots. intros q [<-|[<-|[]]]; exact I.
    - rewrite <- Hs3. now apply HI1. }
  (* record playlist, then deletion *)
  destruct (if (c_mode c =? 0) || (c_mode c =? 1) then write_record c m1 (apply_all s ops1) else (m1, [])) as [m2 ops2] eqn:E2.
  assert (Hrec : (exists r, m2 = with_recmax m1 r) /\ Forall rec_op ops2).
  { destruct ((c_mode c =? 0) || (c_mode c =? 1)).
    - now apply write_record_shape in E2.
    - injection E2 as <- <-. split; [|constructor]. exists (m_recmax m1). now rewrite with_recmax_same. }
  destruct Hrec as [Hm2 Hops2].
  assert (Ho2 : m_opened m2 = false) by (destruct Hm2 as [r ->]; exact F1).
  assert (Hn2 : nclosed m2 = n + 1) by (destruct Hm2 as [r ->]; exact F8).
  assert (Hfr2 : m_frags m2 = m_frags m) by (destruct Hm2 as [r ->]; exact F2).
  assert (Hh2 : m_hist m2 = m_hist m) by (destruct Hm2 as [r ->]; exact F3).
  set (ops3 := if c_mode c =? 2 then
                 let d := get_frag c m2 (m_nfrags m2) in if fi_named d then [ORemove (fi_path d)] else []
               else []) in *.
  injection E as <- <-.
  pose proof (HI1 m2 Hm2) as HI2. fold s3 in HI2.
  destruct (chain_irrelevant_ops c m2 s3 ops2 HI2) as [Hch2 HI3].
  { eapply Forall_impl; [|exact Hops2]. intros o. now apply rec_op_irrelevant. }
  assert (Hirr3 : Forall (irrelevant_op c m2) ops3).
  { unfold ops3. destruct (c_mode c =? 2); [|constructor].
    cbn zeta. destruct (fi_named (get_frag c m2 (m_nfrags m2))) eqn:Enamed; [|constructor].
    constructor; [|constructor].
    assert (Hd : get_frag c m2 (m_nfrags m2) = sl c m2 (nclosed m2)) by reflexivity.
    rewrite Hd in *.
    assert (Hb2 : m_base m2 = m_base m) by (destruct Hm2 as [r ->]; exact F11).
    assert (Hge : m_base m2 + cap c <= nclosed m2).
    { destruct (Z_lt_le_dec (nclosed m2) (m_base m2 + cap c)) as [Hlt|Hge]; [|exact Hge].
      (* the slot was never used: no file name *)
      destruct HI2 as [_ _ _ _ _ _ _ G8 _ _ _ _ _].
      rewrite (G8 (nclosed m2)) in Enamed; [discriminate|].
      rewrite Ho2. cbn [b2z]. lia. }
    destruct HI2 as [_ _ _ _ _ _ G7 _ _ _ _ _ _]. destruct (G7 Ho2 Hge) as (Gid & _ & Gnow).
    split; [exact I|]. split; [reflexivity|]. split; [|split; [exact I|]].
    - intros p Hr [Eq|[]]. subst p.
      unfold fi_path in Hr. rewrite Gid, Gnow in Hr.
      destruct Hr as [Hr|[(i & Hi0 & Hi & Hr)|[[Hr _]|(Hr & _)]]]; [discriminate| |congruence|lia].
      injection Hr as _ Hr. lia.
    - intros p [<-|[]]. unfold fi_path. rewrite Gid. lia. }
  destruct (chain_irrelevant_ops c m2 (apply_all s3 ops2) ops3 HI3 Hirr3) as [Hch3 HI4].
  assert (Hall : apply_all s (ops1 ++ ops2 ++ ops3) = apply_all (apply_all s3 ops2) ops3).
  { unfold s3. now rewrite !apply_all_app. }
  split; [|split; [|split; [|split; [|split; [|split; [|split]]]]]].
  - change (chain c m s (ops1 ++ ops2 ++ ops3) m2).
    eapply chain_app; [apply Hch1; exact Hm2|]. fold s3.
    eapply chain_app; [exact Hch2|exact Hch3].
  - change (Inv c m2 (apply_all s (ops1 ++ ops2 ++ ops3))). rewrite Hall. exact HI4.
  - exact Ho2.
  - exact Hn2.
  - destruct Hm2 as [r ->]. exact F5.
  - exact Hh2.
  - exact Hfr2.
  - change (fs_lookup PLive (apply_all s (ops1 ++ ops2 ++ ops3)) = Some (mkfile (print_live (c_stream c) (live_playlist c m2 e)) true)).
    rewrite Hall.
    (* the playlist has not been touched since the rename *)
    assert (Hk : fs_lookup PLive (apply_all (apply_all s3 ops2) ops3) = fs_lookup PLive s3).
    { assert (Hgen : forall l s0, Forall (irrelevant_op c m2) l -> fs_lookup PLive (apply_all s0 l) = fs_lookup PLive s0).
      { induction l as [|o l IHl]; intros s0 HF; [reflexivity|].
        inversion HF as [|? ? (Ha & Hb & Hc) HF']; subst. rewrite apply_all_cons, IHl by exact HF'.
        apply lookup_apply_other; [exact Ha|]. apply Hc. now left. }
      rewrite Hgen by exact Hirr3. apply Hgen.
      eapply Forall_impl; [|exact Hops2]. intros o. now apply rec_op_irrelevant. }
    rewrite Hk, Hlive3. unfold txt. destruct Hm2 as [r ->]. reflexivity.
Qed.

(* ---------- updateFragment, FeedMpegts ---------- *)
Lemma close_any c m s e m' ops :
  Inv c m s -> close_fragment c m s e = (m', ops) ->
  chain c m s ops m' /\ Inv c m' (apply_all s ops) /\ m_opened m' = false /\ m_patpmt m' = m_patpmt m.
Proof.
  intros HI E. destruct (m_opened m) eqn:Ho.
  - destruct (close_ok c m s e m' ops HI Ho E) as (A & B & C & _ & D & _). auto.
  - unfold close_fragment in E. rewrite Ho in E. cbn in E. injection E as <- <-.
    split; [apply ch_nil|]. split; [exact HI|]. split; [exact Ho|reflexivity].
Qed.

Lemma reopen_ok c m s ts doit discont now m' ops :
  Inv c m s -> good_pp (m_patpmt m) -> reopen c m s ts doit discont now = (m', ops) ->
  chain c m s ops m' /\ Inv c m' (apply_all s ops) /\ m_patpmt m' = m_patpmt m /\
  (doit = true -> m_opened m' = true /\ m_fragts m' = ts) /\ (doit = false -> m' = m).
Proof.
  intros HI Hpp E. unfold reopen in E. destruct doit.
  - destruct (close_fragment c m s false) as [m1 o1] eqn:E1.
    destruct (open_fragment c m1 ts discont now) as [m2 o2] eqn:E2.
    injection E as <- <-.
    destruct (close_any c m s false m1 o1 HI E1) as (A1 & B1 & C1 & D1).
    rewrite <- D1 in Hpp.
    destruct (open_ok c m1 (apply_all s o1) ts discont now m2 o2 B1 C1 Hpp E2) as (A2 & B2 & C2 & _ & _ & D2 & F2).
    split; [eapply chain_app; eauto|].
    split; [now rewrite <- apply_all_app|].
    split; [congruence|]. split; [auto|discriminate].
  - injection E as <- <-. split; [apply ch_nil|]. split; [exact HI|]. split; [reflexivity|]. split; [discriminate|reflexivity].
Qed.

Lemma upd_dur_stale m k ts : m_fragts m = ts -> upd_dur m k ts = m.
Proof. intros E. unfold upd_dur. rewrite E, Z.ltb_irrefl. reflexivity. Qed.

Lemma upd_dur_cur c m s ts :
  Inv c m s -> m_opened m = true -> force_split c m ts = false ->
  let m2 := upd_dur m (slot c m (m_nfrags m)) ts in
  Inv c m2 s /\ mle m m2 /\ same_pub m m2 /\ nclosed m2 = nclosed m /\ m_patpmt m2 = m_patpmt m /\ m_opened m2 = true.
Proof.
  intros HI Ho Hforce. cbn zeta. unfold upd_dur.
  assert (Htriv : Inv c m s /\ mle m m /\ same_pub m m /\ nclosed m = nclosed m /\ m_patpmt m = m_patpmt m /\ m_opened m = true).
  { split; [exact HI|]. split; [apply mle_refl|]. split; [apply same_pub_refl|]. auto. }
  destruct (m_fragts m <? ts) eqn:Elt; [|exact Htriv].
  set (k := slot c m (m_nfrags m)). set (f := get_slot m k).
  destruct (f_ltb (fi_dur f) _); [|exact Htriv]. clear Htriv.
  set (d := f_div _ _). set (f' := mkfi (fi_id f) d (fi_discont f) (fi_named f) (fi_now f)).
  set (n := nclosed m).
  assert (Hk : k = Z.to_nat (n mod cap c)) by reflexivity.
  destruct HI as [H1 H2 H3 H4 H5 H6 H7 H8 H9 H10 H11 H12 H13].
  assert (HC : 2 <= cap c) by (apply cap_pos; lia).
  set (m2 := set_slot m k f').
  assert (Hn0 : 0 <= n) by (unfold n, nclosed; lia).
  assert (Hbn : m_base m <= n) by (unfold n, nclosed; lia).
  assert (Hsl_o : forall i, i <> n -> - cap c < i - n < cap c -> sl c m2 i = sl c m i).
  { intros i Hne Hd. unfold m2. rewrite Hk. apply sl_other; lia. }
  assert (Hsl_n : sl c m2 n = f').
  { unfold sl, get_slot, m2, set_slot, with_frags. cbn [m_frags]. rewrite <- Hk. apply nth_set_nth_eq.
    rewrite H3, Hk. apply mod_to_nat_lt. lia. }
  assert (Hf : sl c m n = f) by reflexivity.
  split; [|split; [|split; [|split; [|split]]]]; try reflexivity.
  - constructor; try assumption.
    + unfold m2, set_slot, with_frags. cbn [m_frags]. now rewrite set_nth_length.
    + intros i Hi Hw. change (nclosed m2) with n in Hw. unfold slot_is. rewrite Hsl_o by lia. apply H5; auto.
    + intros _. change (nclosed m2) with n. destruct (H6 Ho) as [(A & B & C) D]. fold n in A, B, C, D.
      split; [|exact D]. unfold slot_is. rewrite Hsl_n. rewrite Hf in A, B, C. cbn. auto.
    + intros Hf'. change (m_opened m2) with (m_opened m) in Hf'. congruence.
    + intros i Hi. change (nclosed m2) with n in Hi. change (m_opened m2) with (m_opened m) in Hi.
      change (m_base m2) with (m_base m) in Hi. rewrite Ho in Hi. cbn [b2z] in Hi.
      rewrite Hsl_o by lia. apply H8. rewrite Ho. cbn [b2z]. fold n. lia.
    + intros Hz. destruct (H12 Hz) as [e He]. exists e. rewrite He. f_equal. f_equal. f_equal.
      symmetry. apply live_playlist_ext; [|reflexivity].
      apply frags_in_playlist_ext; try reflexivity.
      intros j Hj. rewrite !get_frag_sl. change (m_frag m2) with (m_frag m). apply Hsl_o; unfold n, nclosed, cap; lia.
    + intros j. unfold get_slot, m2, set_slot, with_frags. cbn [m_frags].
      destruct (nth_set_nth_cases k j f' fi0 (m_frags m)) as [-> | ->]; [|apply H13].
      cbn [fi_dur f']. apply dur_of_ticks_ok.
      apply Z.ltb_lt in Elt. unfold force_split in Hforce. apply orb_false_elim in Hforce. destruct Hforce as [Hf1 _].
      apply andb_false_elim in Hf1. destruct Hf1 as [Hf1|Hf1]; [apply Z.ltb_ge in Hf1; lia|].
      apply Z.ltb_ge in Hf1. lia.
  - apply mle_same_shape; reflexivity.
  - split; [reflexivity|]. exists []. change (m_hist m2) with (m_hist m). now rewrite app_nil_r.
  - exact Ho.
Qed.

Lemma update_ok c m s ts b now m' ops :
  Inv c m s -> good_pp (m_patpmt m) -> update_fragment c m s ts b now = (m', ops) ->
  chain c m s ops m' /\ Inv c m' (apply_all s ops) /\ m_patpmt m' = m_patpmt m.
Proof.
  intros HI Hpp E. unfold update_fragment in E. destruct (m_opened m) eqn:Ho.
  - set (fslot := slot c m (m_nfrags m)) in *.
    destruct (force_split c m ts) eqn:Eforce.
    + destruct (reopen c m s ts true true now) as [m1 o1] eqn:E1.
      destruct (reopen_ok c m s ts true true now m1 o1 HI Hpp E1) as (A1 & B1 & C1 & D1 & _).
      destruct (D1 eq_refl) as [Ho1 Hts1].
      rewrite (upd_dur_stale m1 fslot ts Hts1) in E.
      destruct (f_ltb _ _).
      * injection E as <- <-. auto.
      * destruct (reopen c m1 (apply_all s o1) ts b false now) as [m3 o3] eqn:E3.
        injection E as <- <-. rewrite <- C1 in Hpp.
        destruct (reopen_ok c m1 (apply_all s o1) ts b false now m3 o3 B1 Hpp E3) as (A3 & B3 & C3 & _).
        split; [eapply chain_app; eauto|]. split; [now rewrite <- apply_all_app|congruence].
    + destruct (upd_dur_cur c m s ts HI Ho Eforce) as (A2 & B2 & B2' & C2 & D2 & F2). fold fslot in A2, B2, B2', C2, D2, F2.
      set (m2 := upd_dur m fslot ts) in *.
      destruct (f_ltb _ _).
      * injection E as <- <-. split; [|split; [exact A2|exact D2]].
        eapply ch_silent; [exact B2|exact B2'|exact C2|exact A2|apply ch_nil].
      * cbn [apply_all fold_left] in E.
        destruct (reopen c m2 s ts b false now) as [m3 o3] eqn:E3.
        injection E as <- <-. rewrite <- D2 in Hpp.
        destruct (reopen_ok c m2 s ts b false now m3 o3 A2 Hpp E3) as (A3 & B3 & C3 & _).
        cbn [app]. split; [|split; [exact B3|congruence]].
        eapply ch_silent; [exact B2|exact B2'|exact C2|exact A2|exact A3].
  - destruct (reopen_ok c m s ts b true now m' ops HI Hpp E) as (A & B & C & _). auto.
Qed.

Lemma feed_ok c m s a pts dts b now pk m' ops :
  Inv c m s -> good_pp (m_patpmt m) -> whole_pkts pk -> feed c m s a pts dts b now pk = (m', ops) ->
  chain c m s ops m' /\ Inv c m' (apply_all s ops) /\ m_patpmt m' = m_patpmt m.
Proof.
  intros HI Hpp Hpk E. unfold feed in E.
  destruct (update_fragment c m s (if a then pts else dts) b now) as [m1 o1] eqn:E1.
  destruct (update_ok c m s _ b now m1 o1 HI Hpp E1) as (A1 & B1 & C1).
  destruct (m_opened m1) eqn:Ho1; injection E as <- <-; [|auto].
  set (s1 := apply_all s o1) in *.
  assert (HI2 : Inv c m1 (apply s1 (OWrite (m_cur m1) pk))).
  { destruct B1 as [H1 H2 H3 H4 H5 H6 H7 H8 H9 H10 H11 H12 H13].
    destruct (H10 Ho1) as (f & Hf & Hg). destruct (H6 Ho1) as [_ Hcur].
    assert (Hlk_o : forall q, q <> m_cur m1 -> fs_lookup q (apply s1 (OWrite (m_cur m1) pk)) = fs_lookup q s1).
    { intros q Hq. apply lookup_apply_other; [exact I|cbn; intuition congruence]. }
    constructor; try assumption.
    - intros i Hi Hw. rewrite Hlk_o; [now apply H9|]. rewrite Hcur. intros Eq. injection Eq as _ Eq. lia.
    - intros _. exists (mkfile (fdata f ++ pk) (fclosed f)). split.
      + rewrite lookup_apply, Hf, path_eqb_refl. reflexivity.
      + cbn. now apply good_data_app.
    - intros Hz. eapply (prev_ok_ext c m1 m1); [reflexivity|reflexivity| | |now apply H11].
      + apply Hlk_o. rewrite Hcur. discriminate.
      + intros now0 id0 Hid. apply Hlk_o. rewrite Hcur. intros Eq. injection Eq as _ Eq. unfold nclosed in *. lia.
    - intros Hz. rewrite Hlk_o; [now apply H12|]. rewrite Hcur. discriminate. }
  split; [|split; [|exact C1]].
  - eapply chain_app; [exact A1|]. fold s1.
    eapply ch_cons; [|exact HI2|apply ch_nil]. apply rstep_same; [exact I|exact I|reflexivity|].
    destruct B1 as [_ G2 _ _ _ G6 _ _ _ _ _ _ _]. destruct (G6 Ho1) as [_ Hcur].
    intros q [<-|[]]. rewrite Hcur. unfold nclosed. lia.
  - rewrite <- apply_all_app. exact HI2.
Qed.
