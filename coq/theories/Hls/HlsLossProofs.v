(* Proofs: nothing is lost (the frame data written equal the frames accepted, in order), segments are
   created in sequence and data only goes to the newest one, and a segment starts at a boundary frame
   unless it was opened by a forced split (discontinuity). *)
From Coq Require Import ZArith Bool List Lia.
From Lal Require Import Common.LBytes Hls.HlsFloat Hls.HlsFs Hls.HlsPlaylist Hls.HlsMuxer Hls.HlsConsistent
  Hls.HlsFsProofs Hls.HlsFloatProofs Hls.HlsInv Hls.HlsInvProofs Hls.HlsRunProofs Hls.HlsFinalProofs.
Open Scope Z_scope.

Lemma fws_app a : forall st b,
  fws st (a ++ b) = let '(x, st1) := fws st a in let '(y, st2) := fws st1 b in ((x ++ y)%list, st2).
Proof.
  induction a as [|o a IH]; intros st b; cbn [app fws].
  - destruct (fws st b). reflexivity.
  - destruct o; try apply IH.
    destruct st; [apply IH|]. rewrite IH. destruct (fws false a) as [x st1]. destruct (fws st1 b) as [y st2]. reflexivity.
Qed.

Lemma fws_app_quiet a b st : fws st a = ([], false) -> fws st (a ++ b) = fws false b.
Proof. intros H. rewrite fws_app, H. destruct (fws false b). reflexivity. Qed.

Definition quiet_op (o : op) : Prop := match o with OCreate _ | OWrite _ _ => False | _ => True end.

Lemma fws_quiet l : Forall quiet_op l -> forall st, l <> [] \/ st = false -> fws st l = ([], false).
Proof.
  induction l as [|o l IH]; intros HF st Hst.
  - destruct Hst as [H| ->]; [congruence|reflexivity].
  - inversion HF as [|? ? Ho HF']; subst.
    destruct o; cbn in Ho; try contradiction; cbn [fws]; apply IH; auto.
Qed.

Lemma write_record_quiet c m s : Forall quiet_op (snd (write_record c m s)).
Proof.
  unfold write_record. destruct (fs_lookup PRec s).
  - destruct (update_target _ _); cbn; repeat constructor.
  - cbn; repeat constructor.
Qed.

Lemma close_quiet c m s e : fws false (snd (close_fragment c m s e)) = ([], false).
Proof.
  apply fws_quiet; [|now right].
  unfold close_fragment. destruct (negb (m_opened m)); [constructor|].
  set (m1 := incr_frag c _). set (ops1 := [_; _; _]).
  destruct (if (c_mode c =? 0) || (c_mode c =? 1) then write_record c m1 (apply_all s ops1) else (m1, [])) as [m2 ops2] eqn:E.
  cbn [snd]. apply Forall_app. split; [repeat constructor|]. apply Forall_app. split.
  - destruct ((c_mode c =? 0) || (c_mode c =? 1)).
    + pose proof (write_record_quiet c m1 (apply_all s ops1)) as H. rewrite E in H. exact H.
    + injection E as _ <-. constructor.
  - destruct (c_mode c =? 2); [|constructor]. cbn zeta. destruct (fi_named _); repeat constructor.
Qed.

Lemma reopen_quiet c m s ts doit d now : fws false (snd (reopen c m s ts doit d now)) = ([], false).
Proof.
  unfold reopen. destruct doit; [|reflexivity].
  pose proof (close_quiet c m s false) as H.
  destruct (close_fragment c m s false) as [m1 o1]. cbn [snd] in H.
  unfold open_fragment. cbn [snd]. rewrite fws_app_quiet by exact H. reflexivity.
Qed.

Lemma update_quiet c m s ts b now : fws false (snd (update_fragment c m s ts b now)) = ([], false).
Proof.
  unfold update_fragment. destruct (m_opened m); [|apply reopen_quiet].
  set (r1 := if force_split c m ts then reopen c m s ts true true now else (m, [])).
  assert (H1 : fws false (snd r1) = ([], false)).
  { unfold r1. destruct (force_split c m ts); [apply reopen_quiet|reflexivity]. }
  destruct r1 as [m1 o1]. cbn [snd] in H1.
  destruct (f_ltb _ _); [exact H1|].
  pose proof (reopen_quiet c (upd_dur m1 (slot c m (m_nfrags m)) ts) (apply_all s o1) ts b false now) as H3.
  destruct (reopen c _ _ ts b false now) as [m3 o3]. cbn [snd] in *.
  rewrite fws_app_quiet by exact H1. exact H3.
Qed.

(* updateFragment leaves a fragment open iff one was open or the frame is a boundary frame *)
Lemma reopen_opened_eq c m s ts doit d now :
  m_opened (fst (reopen c m s ts doit d now)) = m_opened m || doit.
Proof.
  destruct (reopen_opened c m s ts doit d now) as [H|[-> H]].
  - rewrite H. unfold reopen in *. destruct doit; [now rewrite orb_true_r|]. cbn in H. rewrite H. reflexivity.
  - rewrite H. cbn. now rewrite orb_false_r.
Qed.

Lemma update_opened_eq c m s ts b now :
  m_opened (fst (update_fragment c m s ts b now)) = m_opened m || b.
Proof.
  destruct (update_opened c m s ts b now) as [H|[Ho H]].
  - rewrite H. destruct (m_opened m) eqn:Ho; [reflexivity|].
    unfold update_fragment in *. rewrite Ho in *. rewrite reopen_opened_eq in H. rewrite Ho in H. cbn in *. congruence.
  - rewrite H. cbn. rewrite Ho. cbn.
    unfold update_fragment in H. rewrite Ho in H.
    pose proof (reopen_opened_eq c m s ts b true now) as H2. rewrite H in H2. cbn in H2. rewrite Ho in H2. cbn in H2. congruence.
Qed.

Lemma feed_fws c m s a pts dts b now pk :
  fws false (snd (feed c m s a pts dts b now pk)) = (if m_opened m || b then [pk] else [], false) /\
  m_opened (fst (feed c m s a pts dts b now pk)) = m_opened m || b.
Proof.
  unfold feed.
  pose proof (update_quiet c m s (if a then pts else dts) b now) as Hq.
  pose proof (update_opened_eq c m s (if a then pts else dts) b now) as Ho.
  destruct (update_fragment c m s _ b now) as [m1 o1]. cbn [fst snd] in *.
  rewrite <- Ho. destruct (m_opened m1) eqn:E1; cbn [fst snd]; [|auto].
  split; [|exact E1]. rewrite fws_app_quiet by exact Hq. reflexivity.
Qed.

Lemma start_mux_shape c s :
  exists rd, snd (start_mux c s) = [OMkdirAll PDir; OReadFile PLive rd] /\ m_opened (fst (start_mux c s)) = false /\
             (rd = false -> fst (start_mux c s) = new_mux c).
Proof.
  unfold start_mux. destruct (fs_lookup PLive s) as [f|].
  - exists true. cbn. split; [reflexivity|]. split; [destruct (next_seq _) as [[q n]|]; reflexivity|discriminate].
  - exists false. cbn. auto.
Qed.

Definition alive_of (w : world) : bool := match w_mux w with Some _ => true | None => false end.
Definition opened_of (w : world) : bool := match w_mux w with Some m => m_opened m | None => false end.

Lemma no_loss_from c evs : forall w,
  fws false (run_from c w evs) = (accepted (alive_of w) (opened_of w) evs, false).
Proof.
  induction evs as [|e t IH]; intros w; [reflexivity|].
  cbn [run_from]. destruct w as [[m|] s]; unfold alive_of, opened_of; cbn [w_mux w_fs].
  - destruct e; cbn [step w_mux w_fs accepted].
    + cbn [app]. rewrite IH. reflexivity.
    + cbn [app]. rewrite IH. unfold alive_of, opened_of. cbn. destruct m; reflexivity.
    + destruct (feed_fws c m s audio pts dts boundary now pk) as [Hf Ho].
      destruct (feed c m s audio pts dts boundary now pk) as [m1 o1]. cbn [fst snd] in *.
      rewrite fws_app, Hf, IH. unfold alive_of, opened_of. cbn [w_mux]. rewrite Ho.
      destruct (m_opened m || boundary); reflexivity.
    + pose proof (close_quiet c m s true) as Hq. destruct (close_fragment c m s true) as [m1 o1]. cbn [snd] in Hq.
      rewrite fws_app_quiet by exact Hq. rewrite IH. reflexivity.
    + cbn [app]. rewrite IH. reflexivity.
  - destruct e; cbn [step w_mux w_fs accepted]; try (cbn [app]; rewrite IH; reflexivity).
    + pose proof (start_mux_shape c s) as (rd & Hs & Ho & _). destruct (start_mux c s) as [m1 o1]. cbn [fst snd] in Hs, Ho. subst o1.
      cbn [app fws]. rewrite IH. unfold alive_of, opened_of. cbn [w_mux]. rewrite Ho. reflexivity.
    + destruct ((c_mode c =? 1) || (c_mode c =? 2)); cbn [app fws]; rewrite IH; reflexivity.
Qed.

Theorem no_loss c evs : fst (fws false (run c evs)) = accepted false false evs.
Proof. unfold run. rewrite no_loss_from. reflexivity. Qed.

Lemma wrs_app a : forall cur next b,
  wrs cur next (a ++ b) = match wrs cur next a with Some (c1, n1) => wrs c1 n1 b | None => None end.
Proof.
  induction a as [|o a IH]; intros cur next b; cbn [app wrs]; [reflexivity|].
  destruct o; try apply IH.
  - destruct p; try reflexivity. destruct (match next with Some n => id =? n | None => true end); [apply IH|reflexivity].
  - destruct cur as [q|]; [|reflexivity]. destruct (path_eqb p q); [apply IH|reflexivity].
  - destruct cur as [q|]; [|reflexivity]. destruct (path_eqb p q); [apply IH|reflexivity].
  - destruct p; try apply IH. destruct found; apply IH.
Qed.

Definition plain_op (o : op) : Prop :=
  match o with OCreate _ | OWrite _ _ | OClose _ | OMkdirAll _ | OReadFile PLive _ => False | _ => True end.

Lemma wrs_plain l : Forall plain_op l -> forall cur next, wrs cur next l = Some (cur, next).
Proof.
  induction l as [|o l IH]; intros HF cur next; [reflexivity|].
  inversion HF as [|? ? Ho HF']; subst. destruct o; cbn in Ho; try contradiction; cbn [wrs]; try now apply IH.
  destruct p; try contradiction; now apply IH.
Qed.

(* K: what the tracked state must say about a muxer *)
Definition tracks (m : mux) (cur : option path) (next : option Z) : Prop :=
  match next with Some n => n = nclosed m + b2z (m_opened m) | None => m_opened m = false end /\
  (m_opened m = true -> cur = Some (m_cur m) /\ exists now, m_cur m = PTs now (nclosed m)).

Lemma write_record_plain c m s : Forall plain_op (snd (write_record c m s)).
Proof.
  unfold write_record. destruct (fs_lookup PRec s).
  - destruct (update_target _ _); cbn; repeat constructor.
  - cbn; repeat constructor.
Qed.

Lemma write_record_fields c m s :
  let m' := fst (write_record c m s) in
  m_opened m' = m_opened m /\ nclosed m' = nclosed m /\ m_cur m' = m_cur m /\ m_frag m' = m_frag m /\ m_nfrags m' = m_nfrags m.
Proof.
  unfold write_record. cbn zeta.
  set (m1 := if f_ltb _ _ then _ else m).
  assert (H : m_opened m1 = m_opened m /\ nclosed m1 = nclosed m /\ m_cur m1 = m_cur m /\ m_frag m1 = m_frag m /\ m_nfrags m1 = m_nfrags m).
  { unfold m1. destruct (f_ltb _ _); repeat split; reflexivity. }
  destruct (fs_lookup PRec s); [destruct (update_target _ _)|]; exact H.
Qed.

Lemma close_tracks c m s e cur next :
  tracks m cur next ->
  let r := close_fragment c m s e in
  wrs cur next (snd r) = Some (cur, next) /\ tracks (fst r) cur next /\ m_opened (fst r) = false.
Proof.
  intros [Hn Hc]. cbn zeta. unfold close_fragment. destruct (m_opened m) eqn:Ho; cbn [negb].
  - destruct (Hc eq_refl) as [-> (now & Hcur)].
    set (m0 := mkmux false _ _ _ _ _ _ _ _ _ _). set (m1 := incr_frag c m0). set (ops1 := [_; _; _]).
    assert (Hm1 : m_opened m1 = false /\ nclosed m1 = nclosed m + 1).
    { unfold m1, incr_frag, nclosed. destruct (m_nfrags m0 =? c_num c); cbn; split; try reflexivity; lia. }
    destruct (if (c_mode c =? 0) || (c_mode c =? 1) then write_record c m1 (apply_all s ops1) else (m1, [])) as [m2 ops2] eqn:E.
    assert (Hm2 : m_opened m2 = false /\ nclosed m2 = nclosed m + 1 /\ Forall plain_op ops2).
    { destruct ((c_mode c =? 0) || (c_mode c =? 1)).
      - pose proof (write_record_fields c m1 (apply_all s ops1)) as F. pose proof (write_record_plain c m1 (apply_all s ops1)) as P.
        rewrite E in F, P. cbn [fst snd] in F, P. destruct F as (F1 & F2 & _). destruct Hm1. repeat split; [congruence|congruence|exact P].
      - injection E as <- <-. destruct Hm1. repeat split; auto. }
    destruct Hm2 as (Ho2 & Hn2 & Hp2). cbn [fst snd].
    split; [|split; [|exact Ho2]].
    + unfold ops1. cbn [app wrs]. rewrite path_eqb_refl.
      apply wrs_plain. apply Forall_app. split; [exact Hp2|].
      destruct (c_mode c =? 2); [|constructor]. cbn zeta. destruct (fi_named _); repeat constructor.
    + split; [|congruence]. destruct next as [n|]; [|congruence]. rewrite ?Ho in Hn. rewrite Ho2, Hn2, Hn. cbn [b2z]. lia.
  - cbn [fst snd]. split; [reflexivity|]. split; [split; [rewrite Ho; exact Hn|rewrite Ho; exact Hc]|exact Ho].
Qed.

Lemma open_tracks c m ts d now cur next :
  tracks m cur next -> m_opened m = false ->
  let r := open_fragment c m ts d now in
  exists cur' next', wrs cur next (snd r) = Some (cur', next') /\ tracks (fst r) cur' next'.
Proof.
  intros [Hn _] Ho. cbn zeta. unfold open_fragment. cbn [fst snd].
  rewrite Ho in Hn. cbn [b2z] in Hn.
  exists (Some (PTs now (m_frag m + m_nfrags m))), (Some (m_frag m + m_nfrags m + 1)). cbn [wrs].
  assert (E : match next with Some n => m_frag m + m_nfrags m =? n | None => true end = true).
  { destruct next as [n|]; [|reflexivity]. apply Z.eqb_eq; unfold nclosed in Hn; lia. }
  rewrite E, path_eqb_refl. split; [reflexivity|].
  split; [unfold nclosed in *; cbn; lia|]. intros _. split; [reflexivity|]. exists now. reflexivity.
Qed.

Lemma reopen_tracks c m s ts doit d now cur next :
  tracks m cur next ->
  let r := reopen c m s ts doit d now in
  exists cur' next', wrs cur next (snd r) = Some (cur', next') /\ tracks (fst r) cur' next'.
Proof.
  intros HT. cbn zeta. unfold reopen. destruct doit; [|exists cur, next; split; [reflexivity|exact HT]].
  destruct (close_tracks c m s false cur next HT) as (A & B & C).
  destruct (close_fragment c m s false) as [m1 o1]. cbn [fst snd] in *.
  destruct (open_tracks c m1 ts d now cur next B C) as (cur' & next' & A2 & B2).
  destruct (open_fragment c m1 ts d now) as [m2 o2]. cbn [fst snd] in *.
  exists cur', next'. split; [|exact B2]. rewrite wrs_app, A. exact A2.
Qed.

Lemma upd_dur_tracks m k ts cur next : tracks m cur next -> tracks (upd_dur m k ts) cur next.
Proof.
  unfold upd_dur. destruct (_ <? _); [|auto]. destruct (f_ltb _ _); auto.
Qed.

Lemma update_tracks c m s ts b now cur next :
  tracks m cur next ->
  let r := update_fragment c m s ts b now in
  exists cur' next', wrs cur next (snd r) = Some (cur', next') /\ tracks (fst r) cur' next'.
Proof.
  intros HT. cbn zeta. unfold update_fragment. destruct (m_opened m); [|now apply reopen_tracks].
  assert (H1 : exists cur1 next1, wrs cur next (snd (if force_split c m ts then reopen c m s ts true true now else (m, []))) = Some (cur1, next1)
               /\ tracks (fst (if force_split c m ts then reopen c m s ts true true now else (m, []))) cur1 next1).
  { destruct (force_split c m ts); [now apply reopen_tracks|exists cur, next; split; [reflexivity|exact HT]]. }
  destruct (if force_split c m ts then reopen c m s ts true true now else (m, [])) as [m1 o1].
  destruct H1 as (cur1 & next1 & A1 & B1). cbn [fst snd] in *.
  apply (upd_dur_tracks m1 (slot c m (m_nfrags m)) ts) in B1.
  destruct (f_ltb _ _); [exists cur1, next1; auto|].
  destruct (reopen_tracks c _ (apply_all s o1) ts b false now cur1 next1 B1) as (cur3 & next3 & A3 & B3).
  destruct (reopen c _ _ ts b false now) as [m3 o3]. cbn [fst snd] in *.
  exists cur3, next3. split; [|exact B3]. rewrite wrs_app, A1. exact A3.
Qed.

Lemma feed_tracks c m s a pts dts b now pk cur next :
  tracks m cur next ->
  let r := feed c m s a pts dts b now pk in
  exists cur' next', wrs cur next (snd r) = Some (cur', next') /\ tracks (fst r) cur' next'.
Proof.
  intros HT. cbn zeta. unfold feed.
  destruct (update_tracks c m s (if a then pts else dts) b now cur next HT) as (cur1 & next1 & A1 & B1).
  destruct (update_fragment c m s _ b now) as [m1 o1]. cbn [fst snd] in *.
  destruct (m_opened m1) eqn:Ho; cbn [fst snd]; [|exists cur1, next1; auto].
  exists cur1, next1. split; [|exact B1]. rewrite wrs_app, A1. cbn [wrs].
  destruct B1 as [_ Hc]. destruct (Hc Ho) as [-> _]. now rewrite path_eqb_refl.
Qed.

Definition wtracks (w : world) (cur : option path) (next : option Z) : Prop :=
  forall m, w_mux w = Some m -> tracks m cur next.

Lemma tracks_patpmt m b cur next : tracks m cur next -> tracks (with_patpmt m b) cur next.
Proof. destruct m. auto. Qed.

Lemma sequence_from c evs : forall w cur next, wtracks w cur next ->
  exists r, wrs cur next (run_from c w evs) = Some r.
Proof.
  induction evs as [|e t IH]; intros w cur next HT; [eexists; reflexivity|].
  cbn [run_from]. destruct w as [[m|] s]; cbn [w_mux w_fs].
  - specialize (HT m eq_refl). destruct e; cbn [step w_mux w_fs].
    + cbn [app]. apply IH. intros m0 E. injection E as <-. exact HT.
    + cbn [app]. apply IH. intros m0 E. injection E as <-. now apply tracks_patpmt.
    + destruct (feed_tracks c m s audio pts dts boundary now pk cur next HT) as (cur' & next' & A & B).
      destruct (feed c m s audio pts dts boundary now pk) as [m1 o1]. cbn [fst snd] in *.
      rewrite wrs_app, A. apply IH. intros m0 E. injection E as <-. exact B.
    + destruct (close_tracks c m s true cur next HT) as (A & _).
      destruct (close_fragment c m s true) as [m1 o1]. cbn [fst snd] in *.
      rewrite wrs_app, A. apply IH. intros m0 E. discriminate.
    + cbn [app]. apply IH. intros m0 E. injection E as <-. exact HT.
  - destruct e; cbn [step w_mux w_fs]; try (cbn [app]; apply IH; intros m0 E; discriminate).
    + pose proof (start_mux_shape c s) as (rd & Hs & Ho & Hnew). destruct (start_mux c s) as [m1 o1]. cbn [fst snd] in Hs, Ho, Hnew. subst o1.
      cbn [app wrs]. destruct rd.
      * apply IH. intros m0 E. cbn in E. injection E as <-. split; [exact Ho|congruence].
      * apply IH. intros m0 E. cbn in E. injection E as <-. rewrite (Hnew eq_refl).
        unfold tracks, new_mux, nclosed. cbn. split; [reflexivity|discriminate].
    + destruct ((c_mode c =? 1) || (c_mode c =? 2)); cbn [app wrs]; apply IH; intros m0 E; discriminate.
Qed.

Theorem segments_in_sequence c evs : exists r, wrs None None (run c evs) = Some r.
Proof. unfold run. apply sequence_from. intros m E. discriminate. Qed.

Lemma open_discont c m s ts d now :
  Inv c m s -> cur_discont c (fst (open_fragment c m ts d now)) = d.
Proof.
  intros HI. unfold cur_discont, open_fragment, get_frag, get_slot. cbn [fst m_frags m_nfrags].
  change (slot c (mkmux true ts (m_recmax m) (m_nfrags m) (m_frag m) _ (m_patpmt m) _ _ _ _) (m_nfrags m)) with (slot c m (m_nfrags m)).
  rewrite nth_set_nth_eq; [reflexivity|].
  destruct HI as [H1 _ H3 _ _ _ _ _ _ _ _ _ _]. rewrite H3. unfold slot. apply mod_to_nat_lt.
  assert (2 <= cap c) by (apply cap_pos; lia). lia.
Qed.

Lemma close_no_create c m s e : existsb is_create (snd (close_fragment c m s e)) = false.
Proof.
  unfold close_fragment. destruct (negb (m_opened m)); [reflexivity|].
  set (m1 := incr_frag c _). set (ops1 := [_; _; _]).
  destruct (if (c_mode c =? 0) || (c_mode c =? 1) then write_record c m1 (apply_all s ops1) else (m1, [])) as [m2 ops2] eqn:E.
  cbn [snd]. rewrite !existsb_app. cbn [ops1 existsb is_create orb].
  assert (H2 : existsb is_create ops2 = false).
  { destruct ((c_mode c =? 0) || (c_mode c =? 1)); [|injection E as _ <-; reflexivity].
    unfold write_record in E. destruct (fs_lookup PRec _); [destruct (update_target _ _)|]; injection E as _ <-; reflexivity. }
  rewrite H2. cbn [orb]. destruct (c_mode c =? 2); [|reflexivity]. cbn zeta. destruct (fi_named _); reflexivity.
Qed.

(* a forced split marks the new fragment as discontinuous; every other open happens at a boundary frame *)
Lemma reopen_start c m s ts doit d now :
  Inv c m s -> good_pp (m_patpmt m) ->
  let r := reopen c m s ts doit d now in
  existsb is_create (snd r) = doit /\ (doit = true -> cur_discont c (fst r) = d).
Proof.
  intros HI Hpp. cbn zeta. unfold reopen. destruct doit; [|split; [reflexivity|discriminate]].
  pose proof (close_no_create c m s false) as Hn.
  destruct (close_fragment c m s false) as [m1 o1] eqn:E1. cbn [snd] in Hn.
  destruct (close_any c m s false m1 o1 HI E1) as (_ & B1 & _).
  pose proof (open_discont c m1 (apply_all s o1) ts d now B1) as Hd.
  destruct (open_fragment c m1 ts d now) as [m2 o2] eqn:E2. cbn [fst snd] in *.
  split; [|intros _; exact Hd].
  rewrite existsb_app, Hn. unfold open_fragment in E2. injection E2 as _ <-. reflexivity.
Qed.

Theorem segment_start c m s ts b now :
  Inv c m s -> good_pp (m_patpmt m) ->
  let r := update_fragment c m s ts b now in
  existsb is_create (snd r) = true -> b = true \/ cur_discont c (fst r) = true.
Proof.
  intros HI Hpp. cbn zeta. unfold update_fragment. destruct (m_opened m) eqn:Ho.
  - destruct (force_split c m ts) eqn:Ef.
    + destruct (reopen_start c m s ts true true now HI Hpp) as (A1 & B1).
      destruct (reopen c m s ts true true now) as [m1 o1] eqn:E1. cbn [fst snd] in *.
      destruct (reopen_ok c m s ts true true now m1 o1 HI Hpp E1) as (_ & I1 & P1 & D1 & _).
      destruct (D1 eq_refl) as [_ Hts1]. rewrite (upd_dur_stale m1 _ ts Hts1).
      destruct (f_ltb _ _); [intros _; right; now apply B1|].
      rewrite <- P1 in Hpp.
      destruct (reopen_start c m1 (apply_all s o1) ts b false now I1 Hpp) as (A3 & B3).
      pose proof (reopen_ok c m1 (apply_all s o1) ts b false now) as R3.
      destruct (reopen c m1 (apply_all s o1) ts b false now) as [m3 o3] eqn:E3. cbn [fst snd] in *.
      intros _. destruct b; [now left|right].
      destruct (R3 m3 o3 I1 Hpp eq_refl) as (_ & _ & _ & _ & Hsame). rewrite (Hsame eq_refl). now apply B1.
    + destruct (upd_dur_cur c m s ts HI Ho Ef) as (A2 & _ & _ & _ & D2 & _).
      destruct (f_ltb _ _); [cbn; discriminate|].
      rewrite <- D2 in Hpp.
      destruct (reopen_start c _ s ts b false now A2 Hpp) as (A3 & _).
      cbn [apply_all fold_left].
      destruct (reopen c _ s ts b false now) as [m3 o3]. cbn [fst snd app] in *.
      intros H. left. congruence.
  - destruct (reopen_start c m s ts b true now HI Hpp) as (A3 & _).
    destruct (reopen c m s ts b true now) as [m3 o3]. cbn [fst snd] in *. intros H. left. congruence.
Qed.
