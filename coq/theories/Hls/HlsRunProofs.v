(* Proofs: every run from the empty directory is a chain, hence every prefix of its
   operation sequence leaves a file system described by some muxer state (Inv). *)
From Coq Require Import ZArith Bool List Lia.
From Lal Require Import Common.LBytes Hls.HlsFloat Hls.HlsFs Hls.HlsPlaylist Hls.HlsMuxer Hls.HlsConsistent
  Hls.HlsFsProofs Hls.HlsFloatProofs Hls.HlsInv Hls.HlsInvProofs.
Open Scope Z_scope.



Lemma inv_new c : cfg_ok c -> Inv c (new_mux c) [].
Proof.
  intros (Hn & Ht & Hms & Hst). unfold new_mux. constructor.
  - repeat split; try lia; apply Hst.
  - cbn. lia.
  - cbn. apply repeat_length.
  - cbn. reflexivity.
  - intros i Hi Hw. unfold nclosed in Hw. cbn in Hw. lia.
  - cbn. discriminate.
  - intros _ Hc. unfold nclosed in Hc. cbn in Hc. unfold cap in Hc. lia.
  - intros j _. unfold get_slot. cbn. now rewrite nth_repeat_any.
  - intros i Hi Hw. unfold nclosed in Hw. cbn in Hw. lia.
  - cbn. discriminate.
  - reflexivity.
  - unfold nclosed. cbn. lia.
  - intros j. unfold get_slot. cbn. rewrite nth_repeat_any. apply dur_ok_fl0.
Qed.

Definition winv (c : cfg) (st : phase) (w : world) (m : mux) : Prop :=
  match st with
  | Clean => w_mux w = None /\ w_fs w = [] /\ m = new_mux c
  | Alive r => w_mux w = Some m /\ Inv c m (w_fs w) /\ (r = true -> good_pp (m_patpmt m))
  | Dirty => w_mux w = None /\ Inv c m (w_fs w)
  end.

Definition next_phase (c : cfg) (st : phase) (e : event) : phase :=
  match st, e with
  | Clean, EvNew => Alive false
  | Clean, _ => Clean
  | Alive r, EvPatPmt _ => Alive true
  | Alive r, EvDispose => Dirty
  | Alive r, _ => Alive r
  | Dirty, EvCleanup => if (c_mode c =? 1) || (c_mode c =? 2) then Clean else Dirty
  | Dirty, _ => Dirty
  end.

Definition wf_head (c : cfg) (st : phase) (e : event) : Prop :=
  match st, e with
  | Alive r, EvPatPmt b => good_pp b
  | Alive r, EvFeed _ _ _ _ _ pk => r = true /\ whole_pkts pk
  | Dirty, EvNew => False
  | _, _ => True
  end.

Lemma wf_evs_cons c st e t : wf_evs c st (e :: t) -> wf_head c st e /\ wf_evs c (next_phase c st e) t.
Proof.
  destruct st as [|r|]; destruct e; cbn; intuition.
Qed.

Lemma removeall_chain c m s : cfg_ok c -> chain c m s [ORemoveAll PDir] (new_mux c) /\ apply s (ORemoveAll PDir) = [].
Proof.
  intros Hc. split; [|reflexivity].
  eapply ch_cons; [reflexivity| |apply ch_nil]. cbn. now apply inv_new.
Qed.

Lemma mle_with_patpmt m b : mle m (with_patpmt m b).
Proof.
  unfold mle, with_patpmt, nclosed. cbn. split; [lia|]. split; [lia|]. exists []. now rewrite app_nil_r.
Qed.

Lemma step_ok c st w m e mx o :
  cfg_ok c -> winv c st w m -> wf_head c st e -> step c w e = (mx, o) ->
  exists m1, chain c m (w_fs w) o m1 /\ winv c (next_phase c st e) (mkworld mx (apply_all (w_fs w) o)) m1.
Proof.
  intros Hc HW Hh E. destruct w as [wm s]. cbn [w_fs] in *.
  destruct st as [|r|].
  - (* Clean *)
    destruct HW as (Hm & Hs & ->). cbn in Hm, Hs. subst wm s.
    destruct e; cbn in E; injection E as <- <-; cbn [next_phase].
    + exists (new_mux c). split.
      * apply chain_irrelevant_op; [now apply inv_new|exact I|reflexivity|intros p _ []].
      * cbn. split; [reflexivity|]. split; [now apply inv_new|discriminate].
    + exists (new_mux c). split; [apply ch_nil|]. cbn. auto.
    + exists (new_mux c). split; [apply ch_nil|]. cbn. auto.
    + exists (new_mux c). split; [apply ch_nil|]. cbn. auto.
    + exists (new_mux c). destruct ((c_mode c =? 1) || (c_mode c =? 2)).
      * split; [now apply removeall_chain|]. cbn. auto.
      * split; [apply ch_nil|]. cbn. auto.
  - (* Alive *)
    destruct HW as (Hm & HI & Hr). cbn in Hm, HI. subst wm.
    destruct e; cbn [step w_mux w_fs] in E; cbn [next_phase].
    + injection E as <- <-. exists m. split; [apply ch_nil|]. cbn. auto.
    + injection E as <- <-. exists (with_patpmt m b). split.
      * eapply ch_silent; [| |apply inv_with_patpmt; exact HI|apply ch_nil].
        -- apply mle_with_patpmt.
        -- reflexivity.
      * cbn. split; [reflexivity|]. split; [now apply inv_with_patpmt|]. intros _. destruct m; exact Hh.
    + destruct (feed c m s audio pts dts boundary now pk) as [m1 o1] eqn:E1. injection E as <- <-.
      destruct Hh as [-> Hpk].
      destruct (feed_ok c m s audio pts dts boundary now pk m1 o1 HI (Hr eq_refl) Hpk E1) as (A & B & C).
      exists m1. split; [exact A|]. cbn. split; [reflexivity|]. split; [exact B|]. intros _. rewrite C. now apply Hr.
    + destruct (close_fragment c m s true) as [m1 o1] eqn:E1. injection E as <- <-.
      destruct (close_any c m s true m1 o1 HI E1) as (A & B & _).
      exists m1. split; [exact A|]. cbn. auto.
    + injection E as <- <-. exists m. split; [apply ch_nil|]. cbn. auto.
  - (* Dirty *)
    destruct HW as (Hm & HI). cbn in Hm, HI. subst wm.
    destruct e; cbn in E; try (injection E as <- <-); cbn [next_phase].
    + destruct Hh.
    + exists m. split; [apply ch_nil|]. cbn. auto.
    + exists m. split; [apply ch_nil|]. cbn. auto.
    + exists m. split; [apply ch_nil|]. cbn. auto.
    + destruct ((c_mode c =? 1) || (c_mode c =? 2)).
      * exists (new_mux c). split; [now apply removeall_chain|]. cbn. auto.
      * exists m. split; [apply ch_nil|]. cbn. auto.
Qed.

Lemma run_chain c : cfg_ok c -> forall evs st w m,
  winv c st w m -> wf_evs c st evs -> exists m', chain c m (w_fs w) (run_from c w evs) m'.
Proof.
  intros Hc. induction evs as [|e t IH]; intros st w m HW Hwf.
  - exists m. apply ch_nil.
  - apply wf_evs_cons in Hwf. destruct Hwf as [Hh Ht].
    cbn [run_from]. destruct (step c w e) as [mx o] eqn:E.
    destruct (step_ok c st w m e mx o Hc HW Hh E) as (m1 & A & B).
    destruct (IH _ _ m1 B Ht) as (m2 & C). cbn [w_fs] in C.
    exists m2. eapply chain_app; eauto.
Qed.

Theorem run_is_chain c evs : cfg_ok c -> wf_evs c Clean evs -> exists m', chain c (new_mux c) [] (run c evs) m'.
Proof.
  intros Hc Hwf. unfold run. apply (run_chain c Hc evs Clean world0 (new_mux c)); [|exact Hwf].
  cbn. auto.
Qed.

(* ---------- consequences of being a chain ---------- *)
Lemma chain_inv_end c m s ops m' : chain c m s ops m' -> Inv c m s -> Inv c m' (apply_all s ops).
Proof.
  induction 1 as [m s|m s o m1 ops m3 Hr Hi Hc IH|m s m1 ops m3 Hl Hn Hi Hc IH]; intros HI.
  - exact HI.
  - cbn. apply IH. exact Hi.
  - apply IH. exact Hi.
Qed.

Lemma chain_split c m s ops m' : chain c m s ops m' -> forall a b, ops = (a ++ b)%list ->
  exists m1, chain c m s a m1 /\ chain c m1 (apply_all s a) b m'.
Proof.
  induction 1 as [m s|m s o m1 ops m3 Hr Hi Hc IH|m s m1 ops m3 Hl Hn Hi Hc IH]; intros a b E.
  - symmetry in E. apply app_eq_nil in E. destruct E as [-> ->]. exists m. split; apply ch_nil.
  - destruct a as [|o' a].
    + cbn in E. subst b. exists m. split; [apply ch_nil|]. cbn. eapply ch_cons; eauto.
    + cbn in E. injection E as <- E. destruct (IH a b E) as (mx & A & B).
      exists mx. split; [eapply ch_cons; eauto|exact B].
  - destruct (IH a b E) as (mx & A & B). exists mx. split; [eapply ch_silent; eauto|exact B].
Qed.

Definition no_removeall (l : list op) : Prop := Forall not_removeall l.
Definition count_live (l : list op) : Z := Z.of_nat (length (filter is_live_replace l)).

Lemma chain_mle c m s ops m' :
  chain c m s ops m' -> no_removeall ops -> mle m m' /\ nclosed m' = nclosed m + count_live ops.
Proof.
  induction 1 as [m s|m s o m1 ops m3 Hr Hi Hc IH|m s m1 ops m3 Hl Hn Hi Hc IH]; intros HN.
  - split; [apply mle_refl|]. unfold count_live. cbn. lia.
  - inversion HN as [|? ? Ho HN']; subst. destruct (IH HN') as [A B].
    assert (Hr' : mle m m1 /\ nclosed m1 = nclosed m + (if is_live_replace o then 1 else 0)).
    { destruct o; cbn in Ho; try contradiction; exact Hr. }
    destruct Hr' as [C D]. split; [eapply mle_trans; eauto|].
    rewrite B, D. unfold count_live. cbn [filter]. destruct (is_live_replace o); cbn [length]; lia.
  - destruct (IH HN) as [A B]. split; [eapply mle_trans; eauto|]. lia.
Qed.

(* every prefix is described by a muxer state; two prefixes with no RemoveAll in between by ordered states *)
Lemma chain_two_points c m s ops m' j k :
  chain c m s ops m' -> Inv c m s -> (j <= k)%nat ->
  no_removeall (skipn j (firstn k ops)) ->
  exists mj mk, Inv c mj (apply_all s (firstn j ops)) /\ Inv c mk (apply_all s (firstn k ops)) /\
    mle mj mk /\ nclosed mk = nclosed mj + count_live (skipn j (firstn k ops)).
Proof.
  intros Hch HI Hjk HN.
  assert (E1 : ops = (firstn k ops ++ skipn k ops)%list) by (symmetry; apply firstn_skipn).
  destruct (chain_split c m s ops m' Hch _ _ E1) as (mk & A1 & _).
  assert (E2 : firstn k ops = (firstn j ops ++ skipn j (firstn k ops))%list).
  { rewrite <- (firstn_skipn j (firstn k ops)) at 1. f_equal. rewrite firstn_firstn. f_equal. lia. }
  destruct (chain_split c m s _ mk A1 _ _ E2) as (mj & B1 & B2).
  pose proof (chain_inv_end _ _ _ _ _ B1 HI) as HIj.
  pose proof (chain_inv_end _ _ _ _ _ B2 HIj) as HIk.
  rewrite apply_all_app, <- E2 in HIk.
  destruct (chain_mle _ _ _ _ _ B2 HN) as [C D].
  exists mj, mk. auto.
Qed.

Lemma chain_point c m s ops m' k :
  chain c m s ops m' -> Inv c m s -> exists mk, Inv c mk (apply_all s (firstn k ops)).
Proof.
  intros Hch HI.
  destruct (chain_two_points c m s ops m' k k Hch HI (Nat.le_refl k)) as (mj & mk & _ & A & _).
  - replace (skipn k (firstn k ops)) with (@nil op); [constructor|].
    symmetry. apply skipn_all2. rewrite firstn_length. lia.
  - eauto.
Qed.
