(* Proofs: every run from the empty directory is a chain, hence every prefix of its
   operation sequence leaves a file system described by some muxer state (Inv). *)
From Coq Require Import ZArith Bool List Lia.
From Lal Require Import Common.LBytes Hls.HlsFloat Hls.HlsFs Hls.HlsPlaylist Hls.HlsMuxer Hls.HlsConsistent
  Hls.HlsFsProofs Hls.HlsFloatProofs Hls.HlsInv Hls.HlsInvProofs Hls.HlsLiveProofs.
Open Scope Z_scope.



(* ---------- how many playlist versions one event can publish ---------- *)
Definition count_live (l : list op) : Z := Z.of_nat (length (filter is_live_replace l)).

Lemma count_live_app a b : count_live (a ++ b) = count_live a + count_live b.
Proof. unfold count_live. rewrite filter_app, app_length. lia. Qed.

Lemma write_record_count c m s : count_live (snd (write_record c m s)) = 0.
Proof.
  unfold write_record. destruct (fs_lookup PRec s); [|reflexivity]. destruct (update_target _ _); reflexivity.
Qed.

Lemma close_count c m s l : 0 <= count_live (snd (close_fragment c m s l)) <= 1.
Proof.
  unfold close_fragment. destruct (negb (m_opened m)); [cbn; lia|].
  match goal with |- context [if ?b then write_record ?c ?m ?s else ?x] =>
    pose proof (write_record_count c m s) as Hw; destruct b end.
  - destruct (write_record _ _ _) as [m2 o2]. cbn [snd] in *. rewrite !count_live_app, Hw.
    destruct (c_mode c =? 2); [destruct (fi_named _)|]; cbn; lia.
  - cbn [snd]. rewrite !count_live_app. destruct (c_mode c =? 2); [destruct (fi_named _)|]; cbn; lia.
Qed.

Lemma reopen_count c m s ts d1 d2 now : 0 <= count_live (snd (reopen c m s ts d1 d2 now)) <= 1.
Proof.
  unfold reopen. destruct d1; [|cbn; lia].
  pose proof (close_count c m s false) as Hc. destruct (close_fragment c m s false) as [m1 o1].
  unfold open_fragment. cbn [snd] in *. rewrite count_live_app. cbn. lia.
Qed.

Lemma update_count c m s ts b now : 0 <= count_live (snd (update_fragment c m s ts b now)) <= 2.
Proof.
  unfold update_fragment. destruct (m_opened m); [|pose proof (reopen_count c m s ts b true now); lia].
  assert (H1 : 0 <= count_live (snd (if force_split c m ts then reopen c m s ts true true now else (m, []))) <= 1).
  { destruct (force_split c m ts); [apply reopen_count|cbn; lia]. }
  destruct (if force_split c m ts then reopen c m s ts true true now else (m, [])) as [m1 o1]. cbn [snd] in H1.
  destruct (f_ltb _ _); [cbn [snd]; lia|].
  pose proof (reopen_count c (upd_dur m1 (slot c m (m_nfrags m)) ts) (apply_all s o1) ts b false now) as H3.
  destruct (reopen _ _ _ _ _ _ _) as [m3 o3]. cbn [snd] in *. rewrite count_live_app. lia.
Qed.

Lemma feed_count c m s a p d b n pk : 0 <= count_live (snd (feed c m s a p d b n pk)) <= 2.
Proof.
  unfold feed. pose proof (update_count c m s (if a then p else d) b n) as H.
  destruct (update_fragment _ _ _ _ _ _) as [m1 o1]. cbn [snd] in H.
  destruct (m_opened m1); cbn [snd]; [|exact H]. rewrite count_live_app. cbn. lia.
Qed.

(* ---------- a chain closes at most as many fragments as it publishes playlist versions ---------- *)
Lemma chain_nclosed_le c m s ops m' : chain c m s ops m' -> 0 <= nclosed m -> nclosed m' <= nclosed m + count_live ops.
Proof.
  induction 1 as [m s|m s o m1 ops m3 Hr Hi Hc IH|m s m1 ops m3 Hl Hsp Hn Hi Hc IH]; intros H0.
  - unfold count_live. cbn. lia.
  - assert (Hc1 : count_live (o :: ops) = (if is_live_replace o then 1 else 0) + count_live ops).
    { unfold count_live. cbn [filter]. destruct (is_live_replace o); cbn [length]; lia. }
    assert (H1 : nclosed m1 <= nclosed m + (if is_live_replace o then 1 else 0) /\ 0 <= nclosed m1).
    { destruct o; cbn [rstep] in Hr; try (destruct Hr as (_ & _ & -> & _); destruct (is_live_replace _); lia).
      - destruct Hr as (_ & -> & _). cbn. lia.
      - subst m1. unfold nclosed in *. cbn. lia. }
    rewrite Hc1. destruct H1 as [H1 H2]. specialize (IH H2). lia.
  - rewrite Hn in IH. apply IH. exact H0.
Qed.

Definition winv (c : cfg) (st : phase) (n : Z) (w : world) (m : mux) : Prop :=
  match st with
  | Clean => w_mux w = None /\ w_fs w = [] /\ m = new_mux c /\ 0 <= n
  | Alive r => w_mux w = Some m /\ Inv c m (w_fs w) /\ (r = true -> good_pp (m_patpmt m)) /\ 0 <= nclosed m <= n
  | Dirty => w_mux w = None /\ Inv c m (w_fs w) /\ 0 <= nclosed m <= n
  end.

Definition next_phase (c : cfg) (st : phase) (e : event) : phase :=
  match st, e with
  | Clean, EvNew => Alive false
  | Clean, _ => Clean
  | Alive r, EvPatPmt _ => Alive true
  | Alive r, EvDispose => Dirty
  | Alive r, _ => Alive r
  | Dirty, EvCleanup => if (c_mode c =? 1) || (c_mode c =? 2) then Clean else Dirty
  | Dirty, EvNew => Alive false
  | Dirty, _ => Dirty
  end.

Definition next_n (c : cfg) (st : phase) (n : Z) (e : event) : Z :=
  match st, e with
  | Alive r, EvFeed _ _ _ _ _ _ => n + 2
  | Alive r, EvDispose => n + 1
  | Dirty, EvCleanup => if (c_mode c =? 1) || (c_mode c =? 2) then 0 else n
  | _, _ => n
  end.

Definition wf_head (c : cfg) (st : phase) (n : Z) (e : event) : Prop :=
  match st, e with
  | Alive r, EvPatPmt b => good_pp b
  | Alive r, EvFeed _ _ _ _ _ pk => r = true /\ whole_pkts pk
  | Dirty, EvNew => n <= max_int32
  | _, _ => True
  end.

Lemma wf_evs_cons c st n e t : wf_evs c st n (e :: t) -> wf_head c st n e /\ wf_evs c (next_phase c st e) (next_n c st n e) t.
Proof.
  destruct st as [|r|]; destruct e; cbn; intuition.
  - destruct ((c_mode c =? 1) || (c_mode c =? 2)); assumption.
Qed.

Lemma removeall_chain c m s : cfg_ok c -> chain c m s [ORemoveAll PDir] (new_mux c) /\ apply s (ORemoveAll PDir) = [].
Proof.
  intros Hc. split; [|reflexivity].
  eapply ch_cons; [reflexivity| |apply ch_nil]. cbn. now apply inv_new.
Qed.

Lemma mle_with_patpmt m b : mle m (with_patpmt m b).
Proof. apply mle_same_shape; reflexivity. Qed.

Lemma same_pub_with_patpmt m b : same_pub m (with_patpmt m b).
Proof. split; [reflexivity|]. exists []. cbn. now rewrite app_nil_r. Qed.

Lemma inv_nclosed_nonneg c m s : Inv c m s -> 0 <= nclosed m.
Proof. intros [_ H2 _ _ _ _ _ _ _ _ _ _ _]. unfold nclosed. lia. Qed.

Lemma step_ok c st n w m e mx o :
  cfg_ok c -> winv c st n w m -> wf_head c st n e -> step c w e = (mx, o) ->
  exists m1, chain c m (w_fs w) o m1 /\ winv c (next_phase c st e) (next_n c st n e) (mkworld mx (apply_all (w_fs w) o)) m1.
Proof.
  intros Hc HW Hh E. destruct w as [wm s]. cbn [w_fs] in *.
  destruct st as [|r|].
  - (* Clean *)
    destruct HW as (Hm & Hs & -> & Hn0). cbn in Hm, Hs. subst wm s.
    destruct e; cbn [step w_mux w_fs] in E; cbn [next_phase next_n].
    + destruct (start_mux c []) as [m1 o1] eqn:E1. injection E as <- <-.
      destruct (start_ok c (new_mux c) [] m1 o1 Hc (inv_new c Hc) ltac:(unfold nclosed, max_int32; cbn; lia) E1) as (A & B & C & D).
      exists m1. split; [exact A|]. cbn. split; [reflexivity|]. split; [exact B|]. split; [discriminate|].
      rewrite C. unfold nclosed. cbn. lia.
    + injection E as <- <-. exists (new_mux c). split; [apply ch_nil|]. cbn. auto.
    + injection E as <- <-. exists (new_mux c). split; [apply ch_nil|]. cbn. auto.
    + injection E as <- <-. exists (new_mux c). split; [apply ch_nil|]. cbn. auto.
    + injection E as <- <-. exists (new_mux c). destruct ((c_mode c =? 1) || (c_mode c =? 2)).
      * split; [now apply removeall_chain|]. cbn. auto.
      * split; [apply ch_nil|]. cbn. auto.
  - (* Alive *)
    destruct HW as (Hm & HI & Hr & Hn). cbn in Hm, HI. subst wm.
    destruct e; cbn [step w_mux w_fs] in E; cbn [next_phase next_n].
    + injection E as <- <-. exists m. split; [apply ch_nil|]. cbn. auto.
    + injection E as <- <-. exists (with_patpmt m b). split.
      * eapply ch_silent; [| | |apply inv_with_patpmt; exact HI|apply ch_nil].
        -- apply mle_with_patpmt.
        -- apply same_pub_with_patpmt.
        -- reflexivity.
      * cbn. split; [reflexivity|]. split; [now apply inv_with_patpmt|]. split; [|exact Hn]. intros _. destruct m; exact Hh.
    + pose proof (feed_count c m s audio pts dts boundary now pk) as Hcnt.
      destruct (feed c m s audio pts dts boundary now pk) as [m1 o1] eqn:E1. injection E as <- <-.
      destruct Hh as [-> Hpk]. cbn [snd] in Hcnt.
      destruct (feed_ok c m s audio pts dts boundary now pk m1 o1 HI (Hr eq_refl) Hpk E1) as (A & B & C).
      pose proof (chain_nclosed_le c m s o1 m1 A ltac:(lia)) as Hle.
      exists m1. split; [exact A|]. cbn. split; [reflexivity|]. split; [exact B|]. split; [intros _; rewrite C; now apply Hr|].
      pose proof (inv_nclosed_nonneg c m1 _ B). lia.
    + pose proof (close_count c m s true) as Hcnt.
      destruct (close_fragment c m s true) as [m1 o1] eqn:E1. injection E as <- <-. cbn [snd] in Hcnt.
      destruct (close_any c m s true m1 o1 HI E1) as (A & B & _).
      pose proof (chain_nclosed_le c m s o1 m1 A ltac:(lia)) as Hle.
      exists m1. split; [exact A|]. cbn. split; [reflexivity|]. split; [exact B|].
      pose proof (inv_nclosed_nonneg c m1 _ B). lia.
    + injection E as <- <-. exists m. split; [apply ch_nil|]. cbn. auto.
  - (* Dirty *)
    destruct HW as (Hm & HI & Hn). cbn in Hm, HI. subst wm.
    destruct e; cbn [step w_mux w_fs] in E; cbn [next_phase next_n].
    + (* re-publish over the directory of the previous publication *)
      destruct (start_mux c s) as [m1 o1] eqn:E1. injection E as <- <-. cbn [wf_head] in Hh.
      destruct (start_ok c m s m1 o1 Hc HI ltac:(lia) E1) as (A & B & C & D).
      exists m1. split; [exact A|]. cbn. split; [reflexivity|]. split; [exact B|]. split; [discriminate|]. lia.
    + injection E as <- <-. exists m. split; [apply ch_nil|]. cbn. auto.
    + injection E as <- <-. exists m. split; [apply ch_nil|]. cbn. auto.
    + injection E as <- <-. exists m. split; [apply ch_nil|]. cbn. auto.
    + injection E as <- <-. destruct ((c_mode c =? 1) || (c_mode c =? 2)).
      * exists (new_mux c). split; [now apply removeall_chain|]. cbn. repeat split; lia.
      * exists m. split; [apply ch_nil|]. cbn. auto.
Qed.

Lemma run_chain c : cfg_ok c -> forall evs st n w m,
  winv c st n w m -> wf_evs c st n evs -> exists m', chain c m (w_fs w) (run_from c w evs) m'.
Proof.
  intros Hc. induction evs as [|e t IH]; intros st n w m HW Hwf.
  - exists m. apply ch_nil.
  - apply wf_evs_cons in Hwf. destruct Hwf as [Hh Ht].
    cbn [run_from]. destruct (step c w e) as [mx o] eqn:E.
    destruct (step_ok c st n w m e mx o Hc HW Hh E) as (m1 & A & B).
    destruct (IH _ _ _ m1 B Ht) as (m2 & C). cbn [w_fs] in C.
    exists m2. eapply chain_app; eauto.
Qed.

Theorem run_is_chain c evs : cfg_ok c -> wf_evs c Clean 0 evs -> exists m', chain c (new_mux c) [] (run c evs) m'.
Proof.
  intros Hc Hwf. unfold run. apply (run_chain c Hc evs Clean 0 world0 (new_mux c)); [|exact Hwf].
  cbn. repeat split; lia.
Qed.

(* ---------- consequences of being a chain ---------- *)
Lemma chain_inv_end c m s ops m' : chain c m s ops m' -> Inv c m s -> Inv c m' (apply_all s ops).
Proof.
  induction 1 as [m s|m s o m1 ops m3 Hr Hi Hc IH|m s m1 ops m3 Hl Hsp Hn Hi Hc IH]; intros HI.
  - exact HI.
  - cbn. apply IH. exact Hi.
  - apply IH. exact Hi.
Qed.

Lemma chain_split c m s ops m' : chain c m s ops m' -> forall a b, ops = (a ++ b)%list ->
  exists m1, chain c m s a m1 /\ chain c m1 (apply_all s a) b m'.
Proof.
  induction 1 as [m s|m s o m1 ops m3 Hr Hi Hc IH|m s m1 ops m3 Hl Hsp Hn Hi Hc IH]; intros a b E.
  - symmetry in E. apply app_eq_nil in E. destruct E as [-> ->]. exists m. split; apply ch_nil.
  - destruct a as [|o' a].
    + cbn in E. subst b. exists m. split; [apply ch_nil|]. cbn. eapply ch_cons; eauto.
    + cbn in E. injection E as <- E. destruct (IH a b E) as (mx & A & B).
      exists mx. split; [eapply ch_cons; eauto|exact B].
  - destruct (IH a b E) as (mx & A & B). exists mx. split; [eapply ch_silent; eauto|exact B].
Qed.

Definition no_removeall (l : list op) : Prop := Forall not_removeall l.
Definition no_mkdir (l : list op) : Prop := Forall not_mkdir l.

Lemma chain_mle c m s ops m' :
  chain c m s ops m' -> no_removeall ops -> mle m m' /\ nclosed m' = nclosed m + count_live ops.
Proof.
  induction 1 as [m s|m s o m1 ops m3 Hr Hi Hc IH|m s m1 ops m3 Hl Hsp Hn Hi Hc IH]; intros HN.
  - split; [apply mle_refl|]. unfold count_live. cbn. lia.
  - inversion HN as [|? ? Ho HN']; subst. destruct (IH HN') as [A B].
    assert (Hr' : mle m m1 /\ nclosed m1 = nclosed m + (if is_live_replace o then 1 else 0)).
    { destruct o; cbn in Ho; try contradiction; cbn [rstep] in Hr; try (destruct Hr as (X & _ & Y & _); split; assumption).
      destruct Hr as (X & Y & _). split; [exact X|]. cbn. lia. }
    destruct Hr' as [C D]. split; [eapply mle_trans; eauto|].
    rewrite B, D. unfold count_live. cbn [filter]. destruct (is_live_replace o); cbn [length]; lia.
  - destruct (IH HN) as [A B]. split; [eapply mle_trans; eauto|]. lia.
Qed.

(* within one publication (no Muxer.Start in between) the ghost history only grows *)
Lemma chain_same_pub c m s ops m' :
  chain c m s ops m' -> no_removeall ops -> no_mkdir ops -> same_pub m m'.
Proof.
  induction 1 as [m s|m s o m1 ops m3 Hr Hi Hc IH|m s m1 ops m3 Hl Hsp Hn Hi Hc IH]; intros HN HM.
  - apply same_pub_refl.
  - inversion HN as [|? ? Ho HN']; subst. inversion HM as [|? ? Ho2 HM']; subst.
    eapply same_pub_trans; [|apply IH; assumption].
    destruct o; cbn in Ho, Ho2; try contradiction; cbn [rstep] in Hr; destruct Hr as (_ & X & _); exact X.
  - eapply same_pub_trans; [exact Hsp|apply IH; assumption].
Qed.

(* every prefix is described by a muxer state; two prefixes with no RemoveAll in between by ordered states *)
Lemma chain_two_points c m s ops m' j k :
  chain c m s ops m' -> Inv c m s -> (j <= k)%nat ->
  no_removeall (skipn j (firstn k ops)) ->
  exists mj mk, Inv c mj (apply_all s (firstn j ops)) /\ Inv c mk (apply_all s (firstn k ops)) /\
    mle mj mk /\ nclosed mk = nclosed mj + count_live (skipn j (firstn k ops)).
Proof.
  intros Hch HI Hjk HN.
  assert (E1 : ops = (firstn k ops ++ skipn k ops)%list) by (symmetry; apply firstn_skipn).
  destruct (chain_split c m s ops m' Hch _ _ E1) as (mk & A1 & _).
  assert (E2 : firstn k ops = (firstn j ops ++ skipn j (firstn k ops))%list).
  { rewrite <- (firstn_skipn j (firstn k ops)) at 1. f_equal. rewrite firstn_firstn. f_equal. lia. }
  destruct (chain_split c m s _ mk A1 _ _ E2) as (mj & B1 & B2).
  pose proof (chain_inv_end _ _ _ _ _ B1 HI) as HIj.
  pose proof (chain_inv_end _ _ _ _ _ B2 HIj) as HIk.
  rewrite apply_all_app, <- E2 in HIk.
  destruct (chain_mle _ _ _ _ _ B2 HN) as [C D].
  exists mj, mk. auto.
Qed.

(* ... and, when no publication starts in between, by states of the same publication *)
Lemma chain_two_points_pub c m s ops m' j k :
  chain c m s ops m' -> Inv c m s -> (j <= k)%nat ->
  no_removeall (skipn j (firstn k ops)) -> no_mkdir (skipn j (firstn k ops)) ->
  exists mj mk, Inv c mj (apply_all s (firstn j ops)) /\ Inv c mk (apply_all s (firstn k ops)) /\
    mle mj mk /\ same_pub mj mk /\ nclosed mk = nclosed mj + count_live (skipn j (firstn k ops)).
Proof.
  intros Hch HI Hjk HN HM.
  assert (E1 : ops = (firstn k ops ++ skipn k ops)%list) by (symmetry; apply firstn_skipn).
  destruct (chain_split c m s ops m' Hch _ _ E1) as (mk & A1 & _).
  assert (E2 : firstn k ops = (firstn j ops ++ skipn j (firstn k ops))%list).
  { rewrite <- (firstn_skipn j (firstn k ops)) at 1. f_equal. rewrite firstn_firstn. f_equal. lia. }
  destruct (chain_split c m s _ mk A1 _ _ E2) as (mj & B1 & B2).
  pose proof (chain_inv_end _ _ _ _ _ B1 HI) as HIj.
  pose proof (chain_inv_end _ _ _ _ _ B2 HIj) as HIk.
  rewrite apply_all_app, <- E2 in HIk.
  destruct (chain_mle _ _ _ _ _ B2 HN) as [C D].
  pose proof (chain_same_pub _ _ _ _ _ B2 HN HM) as F.
  exists mj, mk. auto.
Qed.

Lemma skipn_firstn_split {A} (l : list A) i j k : (i <= j)%nat -> (j <= k)%nat ->
  skipn i (firstn k l) = (skipn i (firstn j l) ++ skipn j (firstn k l))%list.
Proof.
  intros Hij Hjk. destruct (Nat.le_gt_cases j (length l)) as [Hj|Hj].
  - assert (E : firstn k l = (firstn j l ++ skipn j (firstn k l))%list).
    { rewrite <- (firstn_skipn j (firstn k l)) at 1. f_equal. rewrite firstn_firstn. f_equal. lia. }
    rewrite E at 1. rewrite skipn_app.
    replace (i - length (firstn j l))%nat with 0%nat; [reflexivity|].
    rewrite firstn_length, Nat.min_l by lia. lia.
  - rewrite (firstn_all2 (n := j)) by lia. rewrite (firstn_all2 (n := k)) by lia.
    rewrite (skipn_all2 (n := j)) by lia. now rewrite app_nil_r.
Qed.

Lemma chain_point c m s ops m' k :
  chain c m s ops m' -> Inv c m s -> exists mk, Inv c mk (apply_all s (firstn k ops)).
Proof.
  intros Hch HI.
  destruct (chain_two_points c m s ops m' k k Hch HI (Nat.le_refl k)) as (mj & mk & _ & A & _).
  - replace (skipn k (firstn k ops)) with (@nil op); [constructor|].
    symmetry. apply skipn_all2. rewrite firstn_length. lia.
  - eauto.
Qed.
