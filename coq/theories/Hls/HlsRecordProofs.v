(* Proofs: in cleanup modes 0 and 1 the record playlist lists every segment created since the directory was
   last removed (invariant RecInv on the text writeRecordPlaylist maintains by bytes.Index / TrimSuffix surgery). *)
From Coq Require Import ZArith Bool List Lia.
From Lal Require Import Common.LBytes Hls.HlsFloat Hls.HlsFs Hls.HlsPlaylist Hls.HlsMuxer Hls.HlsConsistent
  Hls.HlsFsProofs Hls.HlsFloatProofs Hls.HlsTextProofs Hls.HlsInv Hls.HlsInvProofs Hls.HlsRunProofs Hls.HlsTraceProofs Hls.HlsFinalProofs.
Open Scope Z_scope.

Definition rhead (T : Z) (rest : bytes) : bytes := (rec_pre ++ target_tag ++ dec T ++ 10%N :: rest)%list.
Definition rmid : bytes :=
  ([35; 69; 88; 84; 45; 88; 45; 77; 69; 68; 73; 65; 45; 83; 69; 81; 85; 69; 78; 67; 69; 58]%N ++ dec 0 ++ [10%N; 10%N])%list.

Lemma rhead_app T x y : rhead T (x ++ y) = (rhead T x ++ y)%list.
Proof. unfold rhead. rewrite <- !app_assoc. rewrite <- app_comm_cons. reflexivity. Qed.

Lemma print_record_shape stream T segs e :
  print_record stream (mkpl T 0 segs e) =
  rhead T (rmid ++ flat_map (seg_lines stream) segs ++ (if e then endlist else [])).
Proof.
  unfold print_record, rhead, rmid, rec_pre. cbn [pl_target pl_seq pl_segs pl_end app]. rewrite <- ?app_assoc. reflexivity.
Qed.

(* appending one segment to the record playlist this muxer wrote *)
Lemma record_append stream T tgt segs sg :
  0 <= T ->
  match update_target (trim_suffix (print_record stream (mkpl T 0 segs true)) endlist) tgt with
  | Some content' => (content' ++ seg_lines stream sg ++ endlist)%list = print_record stream (mkpl (Z.max T tgt) 0 (segs ++ [sg]) true)
  | None => False
  end.
Proof.
  intros HT. rewrite !print_record_shape.
  rewrite app_assoc, rhead_app, trim_suffix_app.
  unfold rhead at 1. rewrite update_target_record by exact HT.
  fold (rhead (Z.max T tgt) (rmid ++ flat_map (seg_lines stream) segs)).
  rewrite <- rhead_app. f_equal. rewrite flat_map_app. cbn [flat_map]. rewrite app_nil_r.
  rewrite <- !app_assoc. reflexivity.
Qed.

(* ---------- the record playlist lists every segment ---------- *)
Definition keys (m : mux) (n : nat) : list (Z * Z) :=
  map (fun i => (hnow m (Z.of_nat i), Z.of_nat i)) (seq 0 n).

Definition RecInv (c : cfg) (m : mux) (s : fs) : Prop :=
  0 <= f_num (m_recmax m) /\
  (nclosed m = 0 -> fs_lookup PRec s = None) /\
  (0 < nclosed m -> exists T segs, 0 <= T /\
     fs_lookup PRec s = Some (mkfile (print_record (c_stream c) (mkpl T 0 segs true)) true) /\
     map seg_key segs = keys m (Z.to_nat (nclosed m))).

Definition R (c : cfg) (m : mux) (s : fs) (acc : list (Z * Z)) : Prop :=
  RecInv c m s /\ acc = keys m (length (m_hist m)).

Definition mode01 (c : cfg) : Prop := (c_mode c =? 0) || (c_mode c =? 1) = true.

Definition rec_stable (o : op) : Prop := not_removeall o /\ ~ In PRec (op_paths o).

Lemma lookup_rec_stable ops : Forall rec_stable ops -> forall s, fs_lookup PRec (apply_all s ops) = fs_lookup PRec s.
Proof.
  induction 1 as [|o l [Ha Hb] HF IH]; intros s; [reflexivity|].
  rewrite apply_all_cons, IH. now apply lookup_apply_other.
Qed.

Lemma created_from_app acc a b : created_from acc (a ++ b) = created_from (created_from acc a) b.
Proof. unfold created_from. apply fold_left_app. Qed.

Definition no_create (o : op) : Prop := match o with OCreate _ | ORemoveAll _ => False | _ => True end.
Lemma created_from_none ops : Forall no_create ops -> forall acc, created_from acc ops = acc.
Proof.
  induction 1 as [|o l Ho HF IH]; intros acc; [reflexivity|].
  unfold created_from in *. cbn [fold_left]. rewrite IH. destruct o; cbn in Ho; try contradiction; reflexivity.
Qed.

Lemma keys_ext m m' n :
  (forall i, (i < n)%nat -> hnow m' (Z.of_nat i) = hnow m (Z.of_nat i)) -> keys m' n = keys m n.
Proof.
  intros H. unfold keys. apply map_ext_in. intros i Hi. apply in_seq in Hi. rewrite H by lia. reflexivity.
Qed.

Lemma keys_S m n : keys m (S n) = (keys m n ++ [(hnow m (Z.of_nat n), Z.of_nat n)])%list.
Proof. unfold keys. rewrite seq_S, map_app. reflexivity. Qed.

Lemma R_open c m s ts d now acc :
  Inv c m s -> m_opened m = false -> R c m s acc ->
  let r := open_fragment c m ts d now in
  R c (fst r) (apply_all s (snd r)) (created_from acc (snd r)).
Proof.
  intros HI Ho [(Hr & H0 & Hp) Hacc]. cbn zeta. unfold open_fragment. cbn [fst snd].
  set (n := m_frag m + m_nfrags m). set (m' := mkmux true ts _ _ _ _ _ _ _).
  destruct HI as [_ _ _ H4 _ _ _ _ _ _ _ _ _]. rewrite Ho in H4. cbn [b2z] in H4. fold n in H4. unfold nclosed in H4. fold n in H4.
  assert (Hn' : nclosed m' = nclosed m) by reflexivity.
  assert (Hh : forall i, (i < length (m_hist m))%nat -> hnow m' (Z.of_nat i) = hnow m (Z.of_nat i)).
  { intros i Hi. unfold hnow, m'. cbn [m_hist]. rewrite Nat2Z.id. apply app_nth1. exact Hi. }
  assert (Hst : Forall rec_stable [OCreate (PTs now n); OWrite (PTs now n) (m_patpmt m)]).
  { repeat constructor; cbn; intuition discriminate. }
  split; [split; [exact Hr|split]|].
  - intros Hz. rewrite lookup_rec_stable by exact Hst. apply H0. now rewrite <- Hn'.
  - intros Hz. rewrite lookup_rec_stable by exact Hst. rewrite Hn' in *. destruct (Hp Hz) as (T & segs & HT & Hl & Hk).
    exists T, segs. repeat split; auto. rewrite Hk. symmetry. apply keys_ext. intros i Hi. apply Hh. unfold nclosed in *. lia.
  - unfold created_from. cbn [fold_left created_step]. rewrite Hacc.
    unfold m' at 2. cbn [m_hist]. rewrite app_length. cbn [length]. rewrite Nat.add_1_r, keys_S.
    f_equal.
    + symmetry. apply keys_ext. exact Hh.
    + f_equal. f_equal; [|lia]. unfold hnow, m'. cbn [m_hist]. rewrite Nat2Z.id, app_nth2 by lia.
      rewrite Nat.sub_diag. reflexivity.
Qed.

Lemma write_record_rec c m1 s1 T0 :
  0 <= f_num (m_recmax m1) -> dur_ok (fi_dur (get_frag c m1 (m_nfrags m1 - 1))) ->
  (fs_lookup PRec s1 = None \/
   exists T segs, 0 <= T /\ fs_lookup PRec s1 = Some (mkfile (print_record (c_stream c) (mkpl T 0 segs true)) true) /\ T0 = segs) ->
  let r := write_record c m1 s1 in
  let sg := seg_of (get_frag c m1 (m_nfrags m1 - 1)) in
  0 <= f_num (m_recmax (fst r)) /\
  exists T',
    0 <= T' /\
    fs_lookup PRec (apply_all s1 (snd r)) =
      Some (mkfile (print_record (c_stream c)
              (mkpl T' 0 ((match fs_lookup PRec s1 with Some _ => T0 | None => [] end) ++ [sg]) true)) true).
Proof.
  intros Hr Hd Hl. cbn zeta. unfold write_record.
  set (cur := get_frag c m1 (m_nfrags m1 - 1)) in *.
  set (m2 := if f_ltb (m_recmax m1) (fi_dur cur) then with_recmax m1 (fi_dur cur) else m1).
  assert (Hr2 : 0 <= f_num (m_recmax m2)).
  { unfold m2. destruct (f_ltb _ _); [destruct Hd as [Hd _]; destruct m1; exact Hd|exact Hr]. }
  set (tgt := calc_target (m_recmax m2)).
  assert (Htgt : 0 <= tgt) by (apply calc_target_nonneg; exact Hr2).
  assert (Hfin : forall x s0, fs_lookup PRec (apply_all s0 [OReadFile PRec (match fs_lookup PRec s1 with Some _ => true | None => false end); OWriteFile PRecBak x; ORename PRecBak PRec])
                 = Some (mkfile x true)).
  { intros x s0. cbn [apply_all fold_left]. rewrite lookup_apply.
    assert (Hb : fs_lookup PRecBak (apply (apply s0 (OReadFile PRec (match fs_lookup PRec s1 with Some _ => true | None => false end))) (OWriteFile PRecBak x)) = Some (mkfile x true)).
    { rewrite lookup_apply. cbn. reflexivity. }
    rewrite Hb. cbn. reflexivity. }
  destruct Hl as [Hnone|(T & segs & HT & Hsome & ->)].
  - rewrite Hnone in *. cbn [fst snd]. split; [exact Hr2|]. exists tgt. split; [exact Htgt|]. rewrite Hfin. reflexivity.
  - rewrite Hsome in *. cbn [fdata].
    pose proof (record_append (c_stream c) T tgt segs (seg_of cur) HT) as Ha.
    destruct (update_target _ tgt) as [content'|]; [|contradiction].
    cbn [fst snd]. split; [exact Hr2|]. exists (Z.max T tgt). split; [lia|]. rewrite Hfin, Ha. reflexivity.
Qed.

Lemma write_record_no_create c m s : Forall no_create (snd (write_record c m s)).
Proof.
  unfold write_record. destruct (fs_lookup PRec s).
  - destruct (update_target _ _); cbn; repeat constructor.
  - cbn; repeat constructor.
Qed.

Lemma R_close c m s e acc :
  Inv c m s -> m_opened m = true -> mode01 c -> R c m s acc ->
  let r := close_fragment c m s e in
  R c (fst r) (apply_all s (snd r)) (created_from acc (snd r)).
Proof.
  intros HI Ho Hmode [(Hr & H0 & Hp) Hacc]. cbn zeta. unfold close_fragment. rewrite Ho. cbn [negb].
  set (m0 := mkmux false (m_fragts m) (m_recmax m) (m_nfrags m) (m_frag m) (m_frags m) (m_patpmt m) (m_cur m) (m_hist m)).
  set (m1 := incr_frag c m0).
  set (ops1 := [OClose (m_cur m); OWriteFile PLiveBak (print_live (c_stream c) (live_playlist c m1 e)); ORename PLiveBak PLive]).
  unfold mode01 in Hmode. rewrite Hmode.
  assert (Hm2 : (c_mode c =? 2) = false).
  { apply orb_prop in Hmode. destruct Hmode as [H|H]; apply Z.eqb_eq in H; apply Z.eqb_neq; lia. }
  rewrite Hm2.
  destruct HI as [H1 H2 H3 H4 H5 H6 H7 H8 H9 H10 H11 H12 H13].
  destruct (H6 Ho) as [(Hid & _ & Hnow) Hcur]. set (n := nclosed m) in *.
  rewrite Ho in H4. cbn [b2z] in H4.
  destruct (incr_frag_facts c m0 H2) as (F1 & F2 & F3 & F4 & F5 & F6 & F7 & F8 & F9 & F10). fold m1 in F1, F2, F3, F4, F5, F6, F7, F8, F9, F10.
  cbn [m0 m_opened m_frags m_hist m_cur m_patpmt m_fragts m_recmax] in F1, F2, F3, F4, F5, F6, F7.
  change (nclosed m0) with n in F8.
  assert (Hst1 : Forall rec_stable ops1).
  { unfold ops1. rewrite Hcur. repeat constructor; cbn; intuition discriminate. }
  set (s1 := apply_all s ops1).
  assert (Hl1 : fs_lookup PRec s1 = fs_lookup PRec s) by (apply lookup_rec_stable; exact Hst1).
  assert (Hcurfrag : get_frag c m1 (m_nfrags m1 - 1) = sl c m n).
  { rewrite get_frag_sl. unfold sl, get_slot. rewrite F2. f_equal. f_equal. f_equal. unfold nclosed in F8. lia. }
  assert (Hn0 : 0 <= n) by (unfold n, nclosed; lia).
  destruct (Z_lt_le_dec 0 n) as [Hpos|Hz0].
  - destruct (Hp Hpos) as (T & segs & HT & Hl & Hk).
    destruct (write_record_rec c m1 s1 segs) as (Wr & T' & HT' & Wl).
    { rewrite F7. exact Hr. }
    { rewrite Hcurfrag. apply H13. }
    { right. exists T, segs. rewrite Hl1. auto. }
    destruct (write_record c m1 s1) as [m2 ops2] eqn:E2. cbn [fst snd] in *.
    rewrite Hl1, Hl in Wl.
    destruct (write_record_shape c m1 s1 m2 ops2 E2) as ([r2 ->] & Hops2).
    rewrite app_nil_r.
    split; [split; [exact Wr|split]|].
    + intros Hz. exfalso. change (nclosed (with_recmax m1 r2)) with (nclosed m1) in Hz. lia.
    + intros _. exists T', (segs ++ [seg_of (get_frag c m1 (m_nfrags m1 - 1))])%list.
      split; [exact HT'|]. split; [rewrite <- apply_all_app; exact Wl|].
      change (nclosed (with_recmax m1 r2)) with (nclosed m1). rewrite F8.
      replace (Z.to_nat (n + 1)) with (S (Z.to_nat n)) by lia. rewrite keys_S, map_app, Hk. f_equal.
      * apply keys_ext. intros i _. unfold hnow. change (m_hist (with_recmax m1 r2)) with (m_hist m1). now rewrite F3.
      * cbn [map]. rewrite Hcurfrag. unfold seg_key, seg_of. cbn [s_now s_id]. rewrite Hid, Hnow, Z2Nat.id by lia.
        unfold hnow. change (m_hist (with_recmax m1 r2)) with (m_hist m1). now rewrite F3.
    + rewrite created_from_none.
      * rewrite Hacc. change (m_hist (with_recmax m1 r2)) with (m_hist m1). rewrite F3.
        apply keys_ext. intros i _. unfold hnow. change (m_hist (with_recmax m1 r2)) with (m_hist m1). now rewrite F3.
      * apply Forall_app. split; [unfold ops1; repeat constructor|].
        pose proof (write_record_no_create c m1 s1) as Hnc. rewrite E2 in Hnc. exact Hnc.
  - assert (Hn : n = 0) by lia.
    destruct (write_record_rec c m1 s1 []) as (Wr & T' & HT' & Wl).
    { rewrite F7. exact Hr. }
    { rewrite Hcurfrag. apply H13. }
    { left. rewrite Hl1. apply H0. exact Hn. }
    destruct (write_record c m1 s1) as [m2 ops2] eqn:E2. cbn [fst snd] in *.
    rewrite Hl1, (H0 Hn) in Wl.
    destruct (write_record_shape c m1 s1 m2 ops2 E2) as ([r2 ->] & Hops2).
    rewrite app_nil_r.
    split; [split; [exact Wr|split]|].
    + intros Hz. exfalso. change (nclosed (with_recmax m1 r2)) with (nclosed m1) in Hz. lia.
    + intros _. exists T', [seg_of (get_frag c m1 (m_nfrags m1 - 1))].
      split; [exact HT'|]. split; [rewrite <- apply_all_app; exact Wl|].
      change (nclosed (with_recmax m1 r2)) with (nclosed m1). rewrite F8, Hn.
      replace (Z.to_nat (0 + 1)) with 1%nat by reflexivity. unfold keys. cbn [seq map Z.of_nat].
      rewrite Hcurfrag. unfold seg_key, seg_of. cbn [s_now s_id]. rewrite Hid, Hnow, Hn.
      unfold hnow. change (m_hist (with_recmax m1 r2)) with (m_hist m1). now rewrite F3.
    + rewrite created_from_none.
      * rewrite Hacc. change (m_hist (with_recmax m1 r2)) with (m_hist m1). rewrite F3.
        apply keys_ext. intros i _. unfold hnow. change (m_hist (with_recmax m1 r2)) with (m_hist m1). now rewrite F3.
      * apply Forall_app. split; [unfold ops1; repeat constructor|].
        pose proof (write_record_no_create c m1 s1) as Hnc. rewrite E2 in Hnc. exact Hnc.
Qed.

Lemma R_close_any c m s e acc :
  Inv c m s -> mode01 c -> R c m s acc ->
  let r := close_fragment c m s e in
  R c (fst r) (apply_all s (snd r)) (created_from acc (snd r)).
Proof.
  intros HI Hmode HR. destruct (m_opened m) eqn:Ho; [now apply R_close|].
  cbn zeta. unfold close_fragment. rewrite Ho. cbn. exact HR.
Qed.

Lemma R_reopen c m s ts doit d now acc :
  Inv c m s -> good_pp (m_patpmt m) -> mode01 c -> R c m s acc ->
  let r := reopen c m s ts doit d now in
  R c (fst r) (apply_all s (snd r)) (created_from acc (snd r)).
Proof.
  intros HI Hpp Hmode HR. cbn zeta. unfold reopen. destruct doit; [|exact HR].
  pose proof (R_close_any c m s false acc HI Hmode HR) as H1.
  destruct (close_fragment c m s false) as [m1 o1] eqn:E1. cbn [fst snd] in H1.
  destruct (close_any c m s false m1 o1 HI E1) as (_ & I1 & O1 & _).
  pose proof (R_open c m1 (apply_all s o1) ts d now _ I1 O1 H1) as H2.
  destruct (open_fragment c m1 ts d now) as [m2 o2]. cbn [fst snd] in *.
  now rewrite <- apply_all_app, created_from_app.
Qed.

Lemma R_upd_dur c m s k ts acc : R c m s acc -> R c (upd_dur m k ts) s acc.
Proof.
  unfold upd_dur. destruct (_ <? _); [|auto]. destruct (f_ltb _ _); auto.
Qed.

Lemma R_update c m s ts b now acc :
  Inv c m s -> good_pp (m_patpmt m) -> mode01 c -> R c m s acc ->
  let r := update_fragment c m s ts b now in
  R c (fst r) (apply_all s (snd r)) (created_from acc (snd r)).
Proof.
  intros HI Hpp Hmode HR. cbn zeta. unfold update_fragment. destruct (m_opened m) eqn:Ho; [|now apply R_reopen].
  destruct (force_split c m ts) eqn:Ef.
  - pose proof (R_reopen c m s ts true true now acc HI Hpp Hmode HR) as H1.
    destruct (reopen c m s ts true true now) as [m1 o1] eqn:E1. cbn [fst snd] in H1.
    destruct (reopen_ok c m s ts true true now m1 o1 HI Hpp E1) as (_ & I1 & P1 & D1 & _).
    destruct (D1 eq_refl) as [_ Hts1]. rewrite (upd_dur_stale m1 _ ts Hts1).
    destruct (f_ltb _ _); [exact H1|].
    rewrite <- P1 in Hpp.
    pose proof (R_reopen c m1 (apply_all s o1) ts b false now _ I1 Hpp Hmode H1) as H3.
    destruct (reopen c m1 (apply_all s o1) ts b false now) as [m3 o3]. cbn [fst snd] in *.
    now rewrite <- apply_all_app, created_from_app.
  - destruct (upd_dur_cur c m s ts HI Ho Ef) as (A2 & _ & _ & D2 & _).
    pose proof (R_upd_dur c m s (slot c m (m_nfrags m)) ts acc HR) as H2.
    destruct (f_ltb _ _); [exact H2|].
    rewrite <- D2 in Hpp. cbn [apply_all fold_left].
    pose proof (R_reopen c _ s ts b false now acc A2 Hpp Hmode H2) as H3.
    destruct (reopen c _ s ts b false now) as [m3 o3]. cbn [fst snd app] in *. exact H3.
Qed.

Lemma R_feed c m s a pts dts b now pk acc :
  Inv c m s -> good_pp (m_patpmt m) -> mode01 c -> R c m s acc ->
  let r := feed c m s a pts dts b now pk in
  R c (fst r) (apply_all s (snd r)) (created_from acc (snd r)).
Proof.
  intros HI Hpp Hmode HR. cbn zeta. unfold feed.
  pose proof (R_update c m s (if a then pts else dts) b now acc HI Hpp Hmode HR) as H1.
  destruct (update_fragment c m s _ b now) as [m1 o1] eqn:E1. cbn [fst snd] in H1.
  destruct (m_opened m1) eqn:Ho1; cbn [fst snd]; [|exact H1].
  destruct (update_ok c m s _ b now m1 o1 HI Hpp E1) as (_ & I1 & _).
  destruct I1 as [_ _ _ _ _ G6 _ _ _ _ _ _ _]. destruct (G6 Ho1) as [_ Hcur].
  rewrite <- apply_all_app, created_from_app. unfold created_from at 1. cbn [fold_left created_step].
  destruct H1 as [(Hr & H0 & Hp) Hacc]. split; [split; [exact Hr|split]|exact Hacc].
  - intros Hz. rewrite apply_all_cons, apply_all_nil. rewrite lookup_apply_other; [now apply H0|exact I|].
    rewrite Hcur. cbn. intuition discriminate.
  - intros Hz. rewrite apply_all_cons, apply_all_nil. rewrite lookup_apply_other; [now apply Hp|exact I|].
    rewrite Hcur. cbn. intuition discriminate.
Qed.

Definition winvR (c : cfg) (st : phase) (w : world) (m : mux) (acc : list (Z * Z)) : Prop :=
  match st with
  | Clean => acc = []
  | Alive _ => R c m (w_fs w) acc
  | Dirty => R c m (w_fs w) acc /\ m_opened m = false
  end.

Lemma R_new c : R c (new_mux c) [] [].
Proof.
  split; [|reflexivity]. split; [cbn; lia|]. split; [reflexivity|].
  intros H. unfold nclosed in H. cbn in H. lia.
Qed.

Lemma R_patpmt c m b s acc : R c m s acc -> R c (with_patpmt m b) s acc.
Proof. destruct m. auto. Qed.

Lemma stepR_ok c st w m acc e mx o :
  cfg_ok c -> mode01 c -> winv c st w m -> winvR c st w m acc -> wf_head c st e -> step c w e = (mx, o) ->
  exists m1, winv c (next_phase c st e) (mkworld mx (apply_all (w_fs w) o)) m1 /\
             winvR c (next_phase c st e) (mkworld mx (apply_all (w_fs w) o)) m1 (created_from acc o).
Proof.
  intros Hc Hmode HW HR Hh E. destruct w as [wm s]. cbn [w_fs] in *.
  destruct st as [|r|].
  - destruct HW as (Hm & Hs & ->). cbn in Hm, Hs, HR. subst wm s acc.
    destruct e; cbn in E; injection E as <- <-; cbn [next_phase];
      try (exists (new_mux c); split; [cbn; auto|reflexivity]).
    + exists (new_mux c). split.
      * cbn. split; [reflexivity|]. split; [now apply inv_new|discriminate].
      * cbn. apply R_new.
    + exists (new_mux c). destruct ((c_mode c =? 1) || (c_mode c =? 2)); (split; [cbn; auto|reflexivity]).
  - destruct HW as (Hm & HI & Hr). cbn in Hm, HI, HR. subst wm.
    destruct e; cbn [step w_mux w_fs] in E; cbn [next_phase].
    + injection E as <- <-. exists m. split; [cbn; auto|exact HR].
    + injection E as <- <-. exists (with_patpmt m b). split.
      * cbn. split; [reflexivity|]. split; [now apply inv_with_patpmt|]. intros _. destruct m; exact Hh.
      * cbn. now apply R_patpmt.
    + destruct Hh as [-> Hpk].
      pose proof (R_feed c m s audio pts dts boundary now pk acc HI (Hr eq_refl) Hmode HR) as H1.
      destruct (feed c m s audio pts dts boundary now pk) as [m1 o1] eqn:E1. injection E as <- <-. cbn [fst snd] in H1.
      destruct (feed_ok c m s audio pts dts boundary now pk m1 o1 HI (Hr eq_refl) Hpk E1) as (_ & B & C).
      exists m1. split; [|exact H1]. cbn. split; [reflexivity|]. split; [exact B|]. intros _. rewrite C. now apply Hr.
    + pose proof (R_close_any c m s true acc HI Hmode HR) as H1.
      destruct (close_fragment c m s true) as [m1 o1] eqn:E1. injection E as <- <-. cbn [fst snd] in H1.
      destruct (close_any c m s true m1 o1 HI E1) as (_ & B & C & _).
      exists m1. split; [cbn; auto|]. cbn. auto.
    + injection E as <- <-. exists m. split; [cbn; auto|exact HR].
  - destruct HW as (Hm & HI). cbn in Hm, HI, HR. subst wm.
    destruct e; cbn in E; try (injection E as <- <-); cbn [next_phase];
      try (exists m; split; [cbn; auto|exact HR]).
    + destruct Hh.
    + destruct ((c_mode c =? 1) || (c_mode c =? 2)).
      * exists (new_mux c). split; [cbn; auto|reflexivity].
      * exists m. split; [cbn; auto|exact HR].
Qed.

Lemma runR c : cfg_ok c -> mode01 c -> forall evs st w m acc,
  winv c st w m -> winvR c st w m acc -> wf_evs c st evs ->
  exists m', winv c (final_phase c st evs) (final_world c w evs) m' /\
             winvR c (final_phase c st evs) (final_world c w evs) m' (created_from acc (run_from c w evs)).
Proof.
  intros Hc Hmode. induction evs as [|e t IH]; intros st w m acc HW HR Hwf.
  - exists m. split; [exact HW|exact HR].
  - apply wf_evs_cons in Hwf. destruct Hwf as [Hh Ht].
    cbn [final_world final_phase run_from]. destruct (step c w e) as [mx o] eqn:E.
    destruct (stepR_ok c st w m acc e mx o Hc Hmode HW HR Hh E) as (m1 & A & B).
    destruct (IH _ _ m1 _ A B Ht) as (m' & C & D). cbn [w_fs] in D.
    exists m'. split; [exact C|]. rewrite created_from_app. exact D.
Qed.

(* after Dispose, cleanup mode 0 or 1: the record playlist lists every segment created since the directory was
   last removed, in order, and carries the end marker *)
Theorem final_record c evs :
  cfg_ok c -> mode01 c -> wf_evs c Clean (evs ++ [EvDispose]) ->
  let ops := run c (evs ++ [EvDispose]) in
  created_from [] ops <> [] ->
  exists T segs, fs_lookup PRec (apply_all [] ops) = Some (mkfile (print_record (c_stream c) (mkpl T 0 segs true)) true)
                 /\ map seg_key segs = created_from [] ops.
Proof.
  intros Hc Hmode Hwf ops Hne.
  assert (HW : winv c Clean world0 (new_mux c)) by (cbn; auto).
  destruct (runR c Hc Hmode _ Clean world0 (new_mux c) [] HW eq_refl Hwf) as (m' & A & B).
  fold (run c (evs ++ [EvDispose])) in B. fold ops in B.
  unfold ops at 1. unfold run. change [] with (w_fs world0) at 1. rewrite <- final_world_fs.
  destruct (final_phase c Clean (evs ++ [EvDispose])) as [|r|] eqn:Ep.
  - cbn in B. congruence.
  - exfalso. rewrite final_phase_app in Ep. destruct (final_phase c Clean evs); cbn in Ep; discriminate.
  - destruct B as [[(Hr & H0 & Hp) Hacc] Ho]. destruct A as (_ & HI).
    destruct HI as [_ _ _ H4 _ _ _ _ _ _ _ _ _]. rewrite Ho in H4. cbn [b2z] in H4.
    assert (Hlen : length (m_hist m') = Z.to_nat (nclosed m')) by lia.
    assert (Hpos : 0 < nclosed m').
    { destruct (Z_lt_le_dec 0 (nclosed m')) as [H|H]; [exact H|]. exfalso. apply Hne. rewrite Hacc, Hlen.
      replace (Z.to_nat (nclosed m')) with 0%nat by lia. reflexivity. }
    destruct (Hp Hpos) as (T & segs & _ & Hl & Hk). exists T, segs. split; [exact Hl|].
    rewrite Hk, Hacc, Hlen. reflexivity.
Qed.
