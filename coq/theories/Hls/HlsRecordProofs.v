(* Proofs: in cleanup modes 0 and 1 the record playlist lists every segment created since the directory was
   last removed (invariant RecInv on the text writeRecordPlaylist maintains by bytes.Index / TrimSuffix surgery). *)
From Coq Require Import ZArith Bool List Lia.
From Lal Require Import Common.LBytes Hls.HlsFloat Hls.HlsFs Hls.HlsPlaylist Hls.HlsMuxer Hls.HlsConsistent
  Hls.HlsFsProofs Hls.HlsFloatProofs Hls.HlsTextProofs Hls.HlsInv Hls.HlsInvProofs Hls.HlsLiveProofs Hls.HlsRunProofs Hls.HlsTraceProofs Hls.HlsFinalProofs.
Open Scope Z_scope.

Definition rhead (T : Z) (rest : bytes) : bytes := (rec_pre ++ target_tag ++ dec T ++ 10%N :: rest)%list.
Definition rmid : bytes :=
  ([35; 69; 88; 84; 45; 88; 45; 77; 69; 68; 73; 65; 45; 83; 69; 81; 85; 69; 78; 67; 69; 58]%N ++ dec 0 ++ [10%N; 10%N])%list.

Lemma rhead_app T x y : rhead T (x ++ y) = (rhead T x ++ y)%list.
Proof. unfold rhead. rewrite <- !app_assoc. rewrite <- app_comm_cons. reflexivity. Qed.

Lemma print_record_shape stream T segs e :
  print_record stream (mkpl T 0 segs e) =
  rhead T (rmid ++ flat_map (seg_lines stream) segs ++ (if e then endlist else [])).
Proof.
  unfold print_record, rhead, rmid, rec_pre. cbn [pl_target pl_seq pl_segs pl_end app]. rewrite <- ?app_assoc. reflexivity.
Qed.

(* appending one segment to the record playlist this muxer wrote *)
Lemma record_append stream T tgt segs sg :
  0 <= T ->
  match update_target (trim_suffix (print_record stream (mkpl T 0 segs true)) endlist) tgt with
  | Some content' => (content' ++ seg_lines stream sg ++ endlist)%list = print_record stream (mkpl (Z.max T tgt) 0 (segs ++ [sg]) true)
  | None => False
  end.
Proof.
  intros HT. rewrite !print_record_shape.
  rewrite app_assoc, rhead_app, trim_suffix_app.
  unfold rhead at 1. rewrite update_target_record by exact HT.
  fold (rhead (Z.max T tgt) (rmid ++ flat_map (seg_lines stream) segs)).
  rewrite <- rhead_app. f_equal. rewrite flat_map_app. cbn [flat_map]. rewrite app_nil_r.
  rewrite <- !app_assoc. reflexivity.
Qed.

(* ---------- the record playlist lists every segment ---------- *)
(* the first n fragments of THIS muxer (numbered from m_base on) *)
Definition keys (m : mux) (n : nat) : list (Z * Z) :=
  map (fun i => (hnow m (m_base m + Z.of_nat i), m_base m + Z.of_nat i)) (seq 0 n).

(* pre: the segments created by earlier publications since the directory was last removed *)
Definition RecInv (c : cfg) (m : mux) (s : fs) (pre : list (Z * Z)) : Prop :=
  0 <= f_num (m_recmax m) /\
  (pre = [] -> nclosed m = m_base m -> fs_lookup PRec s = None) /\
  (pre <> [] \/ m_base m < nclosed m -> exists T segs, 0 <= T /\
     fs_lookup PRec s = Some (mkfile (print_record (c_stream c) (mkpl T 0 segs true)) true) /\
     map seg_key segs = (pre ++ keys m (Z.to_nat (nclosed m - m_base m)))%list).

Definition R (c : cfg) (m : mux) (s : fs) (acc : list (Z * Z)) : Prop :=
  exists pre, RecInv c m s pre /\ acc = (pre ++ keys m (length (m_hist m)))%list.

Definition mode01 (c : cfg) : Prop := (c_mode c =? 0) || (c_mode c =? 1) = true.

Definition rec_stable (o : op) : Prop := not_removeall o /\ ~ In PRec (op_paths o).

Lemma lookup_rec_stable ops : Forall rec_stable ops -> forall s, fs_lookup PRec (apply_all s ops) = fs_lookup PRec s.
Proof.
  induction 1 as [|o l [Ha Hb] HF IH]; intros s; [reflexivity|].
  rewrite apply_all_cons, IH. now apply lookup_apply_other.
Qed.

Lemma created_from_app acc a b : created_from acc (a ++ b) = created_from (created_from acc a) b.
Proof. unfold created_from. apply fold_left_app. Qed.

Definition no_create (o : op) : Prop := match o with OCreate _ | ORemoveAll _ => False | _ => True end.
Lemma created_from_none ops : Forall no_create ops -> forall acc, created_from acc ops = acc.
Proof.
  induction 1 as [|o l Ho HF IH]; intros acc; [reflexivity|].
  unfold created_from in *. cbn [fold_left]. rewrite IH. destruct o; cbn in Ho; try contradiction; reflexivity.
Qed.

Lemma keys_ext m m' n :
  m_base m' = m_base m ->
  (forall i, (i < n)%nat -> hnow m' (m_base m + Z.of_nat i) = hnow m (m_base m + Z.of_nat i)) -> keys m' n = keys m n.
Proof.
  intros Eb H. unfold keys. rewrite Eb. apply map_ext_in. intros i Hi. apply in_seq in Hi. rewrite H by lia. reflexivity.
Qed.

Lemma keys_S m n : keys m (S n) = (keys m n ++ [(hnow m (m_base m + Z.of_nat n), m_base m + Z.of_nat n)])%list.
Proof. unfold keys. rewrite seq_S, map_app. reflexivity. Qed.

Lemma hnow_own m i : hnow m (m_base m + Z.of_nat i) = nth i (m_hist m) 0.
Proof. unfold hnow. f_equal. lia. Qed.

Lemma R_open c m s ts d now acc :
  Inv c m s -> m_opened m = false -> R c m s acc ->
  let r := open_fragment c m ts d now in
  R c (fst r) (apply_all s (snd r)) (created_from acc (snd r)).
Proof.
  intros HI Ho (pre & (Hr & H0 & Hp) & Hacc). cbn zeta. unfold open_fragment. cbn [fst snd].
  set (n := m_frag m + m_nfrags m). set (m' := mkmux true ts _ _ _ _ _ _ _ _ _).
  destruct HI as [_ H2 _ H4 _ _ _ _ _ _ _ _ _]. rewrite Ho in H4. cbn [b2z] in H4. unfold nclosed in H4. fold n in H4.
  assert (Hn' : nclosed m' = nclosed m) by reflexivity.
  assert (Hb' : m_base m' = m_base m) by reflexivity.
  assert (Hh : forall i, (i < length (m_hist m))%nat -> hnow m' (m_base m + Z.of_nat i) = hnow m (m_base m + Z.of_nat i)).
  { intros i Hi. rewrite <- Hb' at 1. rewrite !hnow_own. unfold m'. cbn [m_hist]. apply app_nth1. exact Hi. }
  assert (Hst : Forall rec_stable [OCreate (PTs now n); OWrite (PTs now n) (m_patpmt m)]).
  { repeat constructor; cbn; intuition discriminate. }
  exists pre. split; [split; [exact Hr|split]|].
  - intros Hpre Hz. rewrite lookup_rec_stable by exact Hst. apply H0; [exact Hpre|]. now rewrite <- Hn', <- Hb'.
  - intros Hz. rewrite lookup_rec_stable by exact Hst. rewrite Hn', Hb' in *. destruct (Hp Hz) as (T & segs & HT & Hl & Hk).
    exists T, segs. repeat split; auto. rewrite Hk. f_equal. symmetry. apply keys_ext; [exact Hb'|].
    intros i Hi. apply Hh. unfold nclosed in *. fold n in Hi. lia.
  - unfold created_from. cbn [fold_left created_step]. rewrite Hacc.
    unfold m' at 2. cbn [m_hist]. rewrite app_length. cbn [length]. rewrite Nat.add_1_r, keys_S, <- app_assoc.
    f_equal. f_equal.
    + symmetry. apply keys_ext; [exact Hb'|exact Hh].
    + f_equal. rewrite Hb'. f_equal; [|lia]. rewrite <- Hb'. rewrite hnow_own. unfold m'. cbn [m_hist]. rewrite app_nth2 by lia.
      rewrite Nat.sub_diag. reflexivity.
Qed.

Lemma write_record_rec c m1 s1 T0 :
  0 <= f_num (m_recmax m1) -> dur_ok (fi_dur (get_frag c m1 (m_nfrags m1 - 1))) ->
  (fs_lookup PRec s1 = None \/
   exists T segs, 0 <= T /\ fs_lookup PRec s1 = Some (mkfile (print_record (c_stream c) (mkpl T 0 segs true)) true) /\ T0 = segs) ->
  let r := write_record c m1 s1 in
  let sg := seg_of (get_frag c m1 (m_nfrags m1 - 1)) in
  0 <= f_num (m_recmax (fst r)) /\
  exists T',
    0 <= T' /\
    fs_lookup PRec (apply_all s1 (snd r)) =
      Some (mkfile (print_record (c_stream c)
              (mkpl T' 0 ((match fs_lookup PRec s1 with Some _ => T0 | None => [] end) ++ [sg]) true)) true).
Proof.
  intros Hr Hd Hl. cbn zeta. unfold write_record.
  set (cur := get_frag c m1 (m_nfrags m1 - 1)) in *.
  set (m2 := if f_ltb (m_recmax m1) (fi_dur cur) then with_recmax m1 (fi_dur cur) else m1).
  assert (Hr2 : 0 <= f_num (m_recmax m2)).
  { unfold m2. destruct (f_ltb _ _); [destruct Hd as [Hd _]; destruct m1; exact Hd|exact Hr]. }
  set (tgt := calc_target (m_recmax m2)).
  assert (Htgt : 0 <= tgt) by (apply calc_target_nonneg; exact Hr2).
  assert (Hfin : forall x s0, fs_lookup PRec (apply_all s0 [OReadFile PRec (match fs_lookup PRec s1 with Some _ => true | None => false end); OWriteFile PRecBak x; ORename PRecBak PRec])
                 = Some (mkfile x true)).
  { intros x s0. cbn [apply_all fold_left]. rewrite lookup_apply.
    assert (Hb : fs_lookup PRecBak (apply (apply s0 (OReadFile PRec (match fs_lookup PRec s1 with Some _ => true | None => false end))) (OWriteFile PRecBak x)) = Some (mkfile x true)).
    { rewrite lookup_apply. cbn. reflexivity. }
    rewrite Hb. cbn. reflexivity. }
  destruct Hl as [Hnone|(T & segs & HT & Hsome & ->)].
  - rewrite Hnone in *. cbn [fst snd]. split; [exact Hr2|]. exists tgt. split; [exact Htgt|]. rewrite Hfin. reflexivity.
  - rewrite Hsome in *. cbn [fdata].
    pose proof (record_append (c_stream c) T tgt segs (seg_of cur) HT) as Ha.
    destruct (update_target _ tgt) as [content'|]; [|contradiction].
    cbn [fst snd]. split; [exact Hr2|]. exists (Z.max T tgt). split; [lia|]. rewrite Hfin, Ha. reflexivity.
Qed.

Lemma write_record_no_create c m s : Forall no_create (snd (write_record c m s)).
Proof.
  unfold write_record. destruct (fs_lookup PRec s).
  - destruct (update_target _ _); cbn; repeat constructor.
  - cbn; repeat constructor.
Qed.

Lemma R_close c m s e acc :
  Inv c m s -> m_opened m = true -> mode01 c -> R c m s acc ->
  let r := close_fragment c m s e in
  R c (fst r) (apply_all s (snd r)) (created_from acc (snd r)).
Proof.
  intros HI Ho Hmode (pre & (Hr & H0 & Hp) & Hacc). cbn zeta. unfold close_fragment. rewrite Ho. cbn [negb].
  set (m0 := mkmux false (m_fragts m) (m_recmax m) (m_nfrags m) (m_frag m) (m_frags m) (m_patpmt m) (m_cur m) (m_hist m) (m_base m) (m_pfrag m)).
  set (m1 := incr_frag c m0).
  set (ops1 := [OClose (m_cur m); OWriteFile PLiveBak (print_live (c_stream c) (live_playlist c m1 e)); ORename PLiveBak PLive]).
  unfold mode01 in Hmode. rewrite Hmode.
  assert (Hm2 : (c_mode c =? 2) = false).
  { apply orb_prop in Hmode. destruct Hmode as [H|H]; apply Z.eqb_eq in H; apply Z.eqb_neq; lia. }
  rewrite Hm2.
  destruct HI as [H1 H2 H3 H4 H5 H6 H7 H8 H9 H10 H11 H12 H13].
  destruct (H6 Ho) as [(Hid & _ & Hnow) Hcur]. set (n := nclosed m) in *.
  rewrite Ho in H4. cbn [b2z] in H4.
  destruct (incr_frag_facts c m0 H2) as (F1 & F2 & F3 & F4 & F5 & F6 & F7 & F8 & F9 & F10 & F11 & F12).
  fold m1 in F1, F2, F3, F4, F5, F6, F7, F8, F9, F10, F11, F12.
  cbn [m0 m_opened m_frags m_hist m_cur m_patpmt m_fragts m_recmax m_base m_pfrag] in F1, F2, F3, F4, F5, F6, F7, F11, F12.
  change (nclosed m0) with n in F8.
  assert (Hst1 : Forall rec_stable ops1).
  { unfold ops1. rewrite Hcur. repeat constructor; cbn; intuition discriminate. }
  set (s1 := apply_all s ops1).
  assert (Hl1 : fs_lookup PRec s1 = fs_lookup PRec s) by (apply lookup_rec_stable; exact Hst1).
  assert (Hcurfrag : get_frag c m1 (m_nfrags m1 - 1) = sl c m n).
  { rewrite get_frag_sl. unfold sl, get_slot. rewrite F2. f_equal. f_equal. f_equal. unfold nclosed in F8. lia. }
  assert (Hbn : m_base m <= n) by (unfold n, nclosed; lia).
  (* what the record playlist lists so far *)
  set (old := (pre ++ keys m (Z.to_nat (n - m_base m)))%list).
  assert (Hold : fs_lookup PRec s = None /\ old = [] \/
                 exists T segs, 0 <= T /\ fs_lookup PRec s = Some (mkfile (print_record (c_stream c) (mkpl T 0 segs true)) true) /\ map seg_key segs = old).
  { destruct pre as [|k0 pre'].
    - destruct (Z.eq_dec n (m_base m)) as [Hz|Hz].
      + left. split; [now apply H0|]. unfold old. rewrite Hz, Z.sub_diag. reflexivity.
      + right. apply Hp. right. lia.
    - right. apply Hp. left. discriminate. }
  assert (Hkeys1 : forall r2, keys (with_recmax m1 r2) (Z.to_nat (nclosed m1 - m_base m1)) =
                   (keys m (Z.to_nat (n - m_base m)) ++ [seg_key (seg_of (get_frag c m1 (m_nfrags m1 - 1)))])%list).
  { intros r2. rewrite F8, F11. replace (Z.to_nat (n + 1 - m_base m)) with (S (Z.to_nat (n - m_base m))) by lia.
    rewrite keys_S. change (m_base (with_recmax m1 r2)) with (m_base m1). rewrite F11. f_equal.
    - apply keys_ext; [exact F11|]. intros i _. unfold hnow. change (m_hist (with_recmax m1 r2)) with (m_hist m1).
      change (m_base (with_recmax m1 r2)) with (m_base m1). now rewrite F3, F11.
    - rewrite Hcurfrag. unfold seg_key, seg_of. cbn [s_now s_id]. rewrite Hid, Hnow, Z2Nat.id by lia.
      replace (m_base m + (n - m_base m)) with n by lia.
      unfold hnow. change (m_hist (with_recmax m1 r2)) with (m_hist m1). change (m_base (with_recmax m1 r2)) with (m_base m1). now rewrite F3, F11. }
  assert (Hacc1 : forall r2, (pre ++ keys (with_recmax m1 r2) (length (m_hist (with_recmax m1 r2))))%list = acc).
  { intros r2. rewrite Hacc. f_equal. change (m_hist (with_recmax m1 r2)) with (m_hist m1). rewrite F3.
    apply keys_ext; [exact F11|]. intros i _. unfold hnow. change (m_hist (with_recmax m1 r2)) with (m_hist m1).
    change (m_base (with_recmax m1 r2)) with (m_base m1). now rewrite F3, F11. }
  assert (Hcase : exists T0,
            (fs_lookup PRec s1 = None \/
             exists T segs, 0 <= T /\ fs_lookup PRec s1 = Some (mkfile (print_record (c_stream c) (mkpl T 0 segs true)) true) /\ T0 = segs) /\
            map seg_key (match fs_lookup PRec s1 with Some _ => T0 | None => [] end) = old).
  { destruct Hold as [[Hnone Hempty]|(T & segs & HT & Hl & Hk)].
    - exists []. rewrite Hl1, Hnone. split; [now left|]. now rewrite Hempty.
    - exists segs. rewrite Hl1, Hl. split; [right; exists T, segs; auto|exact Hk]. }
  destruct Hcase as (T0 & Hl0 & Hk0).
  destruct (write_record_rec c m1 s1 T0) as (Wr & T' & HT' & Wl).
  { rewrite F7. exact Hr. }
  { rewrite Hcurfrag. apply H13. }
  { exact Hl0. }
  destruct (write_record c m1 s1) as [m2 ops2] eqn:E2. cbn [fst snd] in *.
  destruct (write_record_shape c m1 s1 m2 ops2 E2) as ([r2 ->] & Hops2).
  rewrite app_nil_r.
  exists pre. split; [split; [exact Wr|split]|].
  - intros _ Hz. exfalso. change (nclosed (with_recmax m1 r2)) with (nclosed m1) in Hz.
    change (m_base (with_recmax m1 r2)) with (m_base m1) in Hz. lia.
  - intros _. change (nclosed (with_recmax m1 r2)) with (nclosed m1). change (m_base (with_recmax m1 r2)) with (m_base m1) at 1.
    rewrite Hkeys1, app_assoc. fold old.
    exists T', ((match fs_lookup PRec s1 with Some _ => T0 | None => [] end) ++ [seg_of (get_frag c m1 (m_nfrags m1 - 1))])%list.
    split; [exact HT'|]. split; [rewrite <- apply_all_app; exact Wl|]. rewrite map_app, Hk0. reflexivity.
  - rewrite created_from_none.
    + symmetry. apply Hacc1.
    + apply Forall_app. split; [unfold ops1; repeat constructor|].
      pose proof (write_record_no_create c m1 s1) as Hnc. rewrite E2 in Hnc. exact Hnc.
Qed.

Lemma R_close_any c m s e acc :
  Inv c m s -> mode01 c -> R c m s acc ->
  let r := close_fragment c m s e in
  R c (fst r) (apply_all s (snd r)) (created_from acc (snd r)).
Proof.
  intros HI Hmode HR. destruct (m_opened m) eqn:Ho; [now apply R_close|].
  cbn zeta. unfold close_fragment. rewrite Ho. cbn. exact HR.
Qed.

Lemma R_reopen c m s ts doit d now acc :
  Inv c m s -> good_pp (m_patpmt m) -> mode01 c -> R c m s acc ->
  let r := reopen c m s ts doit d now in
  R c (fst r) (apply_all s (snd r)) (created_from acc (snd r)).
Proof.
  intros HI Hpp Hmode HR. cbn zeta. unfold reopen. destruct doit; [|exact HR].
  pose proof (R_close_any c m s false acc HI Hmode HR) as H1.
  destruct (close_fragment c m s false) as [m1 o1] eqn:E1. cbn [fst snd] in H1.
  destruct (close_any c m s false m1 o1 HI E1) as (_ & I1 & O1 & _).
  pose proof (R_open c m1 (apply_all s o1) ts d now _ I1 O1 H1) as H2.
  destruct (open_fragment c m1 ts d now) as [m2 o2]. cbn [fst snd] in *.
  now rewrite <- apply_all_app, created_from_app.
Qed.

Lemma R_upd_dur c m s k ts acc : R c m s acc -> R c (upd_dur m k ts) s acc.
Proof.
  unfold upd_dur. destruct (_ <? _); [|auto]. destruct (f_ltb _ _); auto.
Qed.

Lemma R_update c m s ts b now acc :
  Inv c m s -> good_pp (m_patpmt m) -> mode01 c -> R c m s acc ->
  let r := update_fragment c m s ts b now in
  R c (fst r) (apply_all s (snd r)) (created_from acc (snd r)).
Proof.
  intros HI Hpp Hmode HR. cbn zeta. unfold update_fragment. destruct (m_opened m) eqn:Ho; [|now apply R_reopen].
  destruct (force_split c m ts) eqn:Ef.
  - pose proof (R_reopen c m s ts true true now acc HI Hpp Hmode HR) as H1.
    destruct (reopen c m s ts true true now) as [m1 o1] eqn:E1. cbn [fst snd] in H1.
    destruct (reopen_ok c m s ts true true now m1 o1 HI Hpp E1) as (_ & I1 & P1 & D1 & _).
    destruct (D1 eq_refl) as [_ Hts1]. rewrite (upd_dur_stale m1 _ ts Hts1).
    destruct (f_ltb _ _); [exact H1|].
    rewrite <- P1 in Hpp.
    pose proof (R_reopen c m1 (apply_all s o1) ts b false now _ I1 Hpp Hmode H1) as H3.
    destruct (reopen c m1 (apply_all s o1) ts b false now) as [m3 o3]. cbn [fst snd] in *.
    now rewrite <- apply_all_app, created_from_app.
  - destruct (upd_dur_cur c m s ts HI Ho Ef) as (A2 & _ & _ & _ & D2 & _).
    pose proof (R_upd_dur c m s (slot c m (m_nfrags m)) ts acc HR) as H2.
    destruct (f_ltb _ _); [exact H2|].
    rewrite <- D2 in Hpp. cbn [apply_all fold_left].
    pose proof (R_reopen c _ s ts b false now acc A2 Hpp Hmode H2) as H3.
    destruct (reopen c _ s ts b false now) as [m3 o3]. cbn [fst snd app] in *. exact H3.
Qed.

Lemma R_feed c m s a pts dts b now pk acc :
  Inv c m s -> good_pp (m_patpmt m) -> mode01 c -> R c m s acc ->
  let r := feed c m s a pts dts b now pk in
  R c (fst r) (apply_all s (snd r)) (created_from acc (snd r)).
Proof.
  intros HI Hpp Hmode HR. cbn zeta. unfold feed.
  pose proof (R_update c m s (if a then pts else dts) b now acc HI Hpp Hmode HR) as H1.
  destruct (update_fragment c m s _ b now) as [m1 o1] eqn:E1. cbn [fst snd] in H1.
  destruct (m_opened m1) eqn:Ho1; cbn [fst snd]; [|exact H1].
  destruct (update_ok c m s _ b now m1 o1 HI Hpp E1) as (_ & I1 & _).
  destruct I1 as [_ _ _ _ _ G6 _ _ _ _ _ _ _]. destruct (G6 Ho1) as [_ Hcur].
  rewrite <- apply_all_app, created_from_app. unfold created_from at 1. cbn [fold_left created_step].
  destruct H1 as (pre & (Hr & H0 & Hp) & Hacc). exists pre. split; [split; [exact Hr|split]|exact Hacc].
  - intros Hpre Hz. rewrite apply_all_cons, apply_all_nil. rewrite lookup_apply_other; [now apply H0|exact I|].
    rewrite Hcur. cbn. intuition discriminate.
  - intros Hz. rewrite apply_all_cons, apply_all_nil. rewrite lookup_apply_other; [now apply Hp|exact I|].
    rewrite Hcur. cbn. intuition discriminate.
Qed.

Definition winvR (c : cfg) (st : phase) (w : world) (m : mux) (acc : list (Z * Z)) : Prop :=
  match st with
  | Clean => acc = []
  | Alive _ => R c m (w_fs w) acc
  | Dirty => R c m (w_fs w) acc /\ m_opened m = false
  end.

Lemma start_mux_fresh c s : exists b pf rd, start_mux c s = (fresh_mux c b pf, [OMkdirAll PDir; OReadFile PLive rd]).
Proof.
  unfold start_mux. destruct (fs_lookup PLive s) as [f|].
  - destruct (next_seq (fdata f)) as [[q n]|].
    + exists (q + n), q, true. reflexivity.
    + exists 0, 0, true. reflexivity.
  - exists 0, 0, false. reflexivity.
Qed.

(* a muxer that has just started: everything created so far belongs to earlier publications *)
Lemma R_fresh c b pf s acc :
  (acc = [] -> fs_lookup PRec s = None) ->
  (acc <> [] -> exists T segs, 0 <= T /\
     fs_lookup PRec s = Some (mkfile (print_record (c_stream c) (mkpl T 0 segs true)) true) /\ map seg_key segs = acc) ->
  R c (fresh_mux c b pf) s acc.
Proof.
  intros H0 Hp. exists acc. split; [|cbn; now rewrite app_nil_r].
  split; [cbn; lia|]. split.
  - intros Ha _. now apply H0.
  - intros [Ha|Hlt]; [|unfold nclosed in Hlt; cbn in Hlt; lia].
    destruct (Hp Ha) as (T & segs & HT & Hl & Hk). exists T, segs. split; [exact HT|]. split; [exact Hl|].
    unfold nclosed. cbn. rewrite Z.add_0_r, Z.sub_diag. cbn. now rewrite app_nil_r.
Qed.

Lemma R_patpmt c m b s acc : R c m s acc -> R c (with_patpmt m b) s acc.
Proof. destruct m. auto. Qed.

Lemma keys_nil_length m n : keys m n = [] -> n = 0%nat.
Proof. destruct n; [reflexivity|]. rewrite keys_S. intros H. apply app_eq_nil in H. destruct H; discriminate. Qed.

Lemma stepR_ok c st n w m acc e mx o :
  cfg_ok c -> mode01 c -> winv c st n w m -> winvR c st w m acc -> wf_head c st n e -> step c w e = (mx, o) ->
  exists m1, winv c (next_phase c st e) (next_n c st n e) (mkworld mx (apply_all (w_fs w) o)) m1 /\
             winvR c (next_phase c st e) (mkworld mx (apply_all (w_fs w) o)) m1 (created_from acc o).
Proof.
  intros Hc Hmode HW HR Hh E.
  destruct (step_ok c st n w m e mx o Hc HW Hh E) as (m1 & _ & HW1).
  destruct w as [wm s]. cbn [w_fs] in *.
  destruct st as [|r|].
  - destruct HW as (Hm & Hs & -> & Hn0). cbn in Hm, Hs, HR. subst wm s acc.
    destruct e; cbn [step w_mux w_fs] in E; cbn [next_phase next_n] in *.
    + destruct (start_mux_fresh c []) as (b & pf & rd & Es). rewrite Es in E. injection E as <- <-.
      exists m1. split; [exact HW1|]. destruct HW1 as (Hm1 & _). cbn in Hm1. injection Hm1 as <-.
      cbn [winvR w_fs apply_all fold_left apply]. unfold created_from. cbn [fold_left created_step].
      apply R_fresh; [reflexivity|congruence].
    + injection E as <- <-. exists m1. split; [exact HW1|reflexivity].
    + injection E as <- <-. exists m1. split; [exact HW1|reflexivity].
    + injection E as <- <-. exists m1. split; [exact HW1|reflexivity].
    + injection E as <- <-. exists m1. split; [exact HW1|].
      destruct ((c_mode c =? 1) || (c_mode c =? 2)); reflexivity.
  - destruct HW as (Hm & HI & Hr & Hn). cbn in Hm, HI, HR. subst wm.
    destruct e; cbn [step w_mux w_fs] in E; cbn [next_phase next_n] in *.
    + injection E as <- <-. exists m1. split; [exact HW1|]. destruct HW1 as (Hm1 & _). cbn in Hm1. injection Hm1 as <-. exact HR.
    + injection E as <- <-. exists m1. split; [exact HW1|]. destruct HW1 as (Hm1 & _). cbn in Hm1. injection Hm1 as <-.
      cbn. now apply R_patpmt.
    + destruct Hh as [-> Hpk].
      pose proof (R_feed c m s audio pts dts boundary now pk acc HI (Hr eq_refl) Hmode HR) as H1.
      destruct (feed c m s audio pts dts boundary now pk) as [m2 o1] eqn:E1. injection E as <- <-. cbn [fst snd] in H1.
      exists m1. split; [exact HW1|]. destruct HW1 as (Hm1 & _). cbn in Hm1. injection Hm1 as <-. exact H1.
    + pose proof (R_close_any c m s true acc HI Hmode HR) as H1.
      destruct (close_fragment c m s true) as [m2 o1] eqn:E1. injection E as <- <-. cbn [fst snd] in H1.
      destruct (close_any c m s true m2 o1 HI E1) as (_ & B & C & _).
      exists m2. split; [|cbn; auto]. destruct HW1 as (Hm1 & HI1 & Hn1). cbn in Hm1.
      cbn. split; [reflexivity|]. split; [exact B|].
      pose proof (close_count c m s true) as Hcnt. rewrite E1 in Hcnt. cbn [snd] in Hcnt.
      destruct (close_any c m s true m2 o1 HI E1) as (A & _).
      pose proof (chain_nclosed_le c m s o1 m2 A ltac:(lia)). pose proof (inv_nclosed_nonneg c m2 _ B). lia.
    + injection E as <- <-. exists m1. split; [exact HW1|]. destruct HW1 as (Hm1 & _). cbn in Hm1. injection Hm1 as <-. exact HR.
  - destruct HW as (Hm & HI & Hn). cbn in Hm, HI. destruct HR as [HR Ho]. subst wm.
    destruct e; cbn [step w_mux w_fs] in E; cbn [next_phase next_n] in *.
    + (* re-publish over the directory of the previous publication: the record playlist is carried on with *)
      destruct (start_mux_fresh c s) as (b & pf & rd & Es). rewrite Es in E. injection E as <- <-.
      exists m1. split; [exact HW1|]. destruct HW1 as (Hm1 & _). cbn in Hm1. injection Hm1 as <-.
      cbn [winvR w_fs apply_all fold_left apply]. unfold created_from. cbn [fold_left created_step].
      destruct HR as (pre & (Hrm & H0 & Hp) & Hacc).
      destruct HI as [_ _ _ H4 _ _ _ _ _ _ _ _ _]. rewrite Ho in H4. cbn [b2z] in H4.
      assert (Hlen : length (m_hist m) = Z.to_nat (nclosed m - m_base m)) by lia.
      apply R_fresh.
      * intros Ha. rewrite Ha in Hacc. symmetry in Hacc. apply app_eq_nil in Hacc. destruct Hacc as [Hpre Hk].
        apply keys_nil_length in Hk. apply H0; [exact Hpre|lia].
      * intros Ha. rewrite Hacc, Hlen. apply Hp.
        destruct pre as [|k0 pre']; [|left; discriminate]. right.
        cbn [app] in Hacc. rewrite Hacc in Ha. destruct (length (m_hist m)) eqn:El; [exfalso; now apply Ha|]. lia.
    + injection E as <- <-. exists m. split; [cbn; auto|cbn; auto].
    + injection E as <- <-. exists m. split; [cbn; auto|cbn; auto].
    + injection E as <- <-. exists m. split; [cbn; auto|cbn; auto].
    + injection E as <- <-. destruct ((c_mode c =? 1) || (c_mode c =? 2)).
      * exists (new_mux c). split; [cbn; repeat split; lia|reflexivity].
      * exists m. split; [cbn; auto|cbn; auto].
Qed.

Lemma runR c : cfg_ok c -> mode01 c -> forall evs st n w m acc,
  winv c st n w m -> winvR c st w m acc -> wf_evs c st n evs ->
  exists m', winv c (final_phase c st evs) (final_n c st n evs) (final_world c w evs) m' /\
             winvR c (final_phase c st evs) (final_world c w evs) m' (created_from acc (run_from c w evs)).
Proof.
  intros Hc Hmode. induction evs as [|e t IH]; intros st n w m acc HW HR Hwf.
  - exists m. split; [exact HW|exact HR].
  - apply wf_evs_cons in Hwf. destruct Hwf as [Hh Ht].
    cbn [final_world final_phase final_n run_from]. destruct (step c w e) as [mx o] eqn:E.
    destruct (stepR_ok c st n w m acc e mx o Hc Hmode HW HR Hh E) as (m1 & A & B).
    destruct (IH _ _ _ m1 _ A B Ht) as (m' & C & D). cbn [w_fs] in D.
    exists m'. split; [exact C|]. rewrite created_from_app. exact D.
Qed.

(* after Dispose, cleanup mode 0 or 1: the record playlist lists every segment created since the directory was
   last removed (by this and by earlier publications), in order, and carries the end marker *)
Theorem final_record c evs :
  cfg_ok c -> mode01 c -> wf_evs c Clean 0 (evs ++ [EvDispose]) ->
  let ops := run c (evs ++ [EvDispose]) in
  created_from [] ops <> [] ->
  exists T segs, fs_lookup PRec (apply_all [] ops) = Some (mkfile (print_record (c_stream c) (mkpl T 0 segs true)) true)
                 /\ map seg_key segs = created_from [] ops.
Proof.
  intros Hc Hmode Hwf ops Hne.
  assert (HW : winv c Clean 0 world0 (new_mux c)) by (cbn; repeat split; lia).
  destruct (runR c Hc Hmode _ Clean 0 world0 (new_mux c) [] HW eq_refl Hwf) as (m' & A & B).
  fold (run c (evs ++ [EvDispose])) in B. fold ops in B.
  unfold ops at 1. unfold run. change [] with (w_fs world0) at 1. rewrite <- final_world_fs.
  destruct (final_phase c Clean (evs ++ [EvDispose])) as [|r|] eqn:Ep.
  - cbn in B. congruence.
  - exfalso. rewrite final_phase_app in Ep. destruct (final_phase c Clean evs); cbn in Ep; discriminate.
  - destruct B as [(pre & (Hr & H0 & Hp) & Hacc) Ho]. destruct A as (_ & HI & _).
    destruct HI as [_ _ _ H4 _ _ _ _ _ _ _ _ _]. rewrite Ho in H4. cbn [b2z] in H4.
    assert (Hlen : length (m_hist m') = Z.to_nat (nclosed m' - m_base m')) by lia.
    destruct (Hp) as (T & segs & _ & Hl & Hk).
    { destruct pre as [|k0 pre']; [|left; discriminate]. right.
      cbn [app] in Hacc. rewrite Hacc in Hne. destruct (length (m_hist m')) eqn:El; [exfalso; now apply Hne|]. lia. }
    exists T, segs. split; [exact Hl|]. rewrite Hk, Hacc, Hlen. reflexivity.
Qed.
