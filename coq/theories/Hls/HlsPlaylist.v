(* Playlists as structured values and the exact text muxer.go prints
   (writePlaylist, writeRecordPlaylist), plus the byte-level helpers
   writeRecordPlaylist / updateTargetDurationInM3u8 use on the text it reads
   back.  No proofs in this file. *)
From Coq Require Import ZArith Bool List.
From Lal Require Import Common.LBytes Hls.HlsFloat.
Open Scope Z_scope.

(* text constants are written as byte lists (the quoted form is in the comment) *)

Record seg := mkseg { s_now : Z; s_id : Z; s_dur : fl; s_discont : bool }.

Record playlist := mkpl { pl_target : Z; pl_seq : Z; pl_segs : list seg; pl_end : bool }.

(* DefaultPathStrategy.GetTsFileName: "%s-%d-%d.ts" stream timestamp index *)
Definition ts_name (stream : bytes) (now id : Z) : bytes :=
  (stream ++ [45%N] ++ dec now ++ [45%N] ++ dec id ++ (* ".ts" *) [46; 116; 115]%N)%list.

Definition seg_name (stream : bytes) (s : seg) : bytes := ts_name stream (s_now s) (s_id s).

(* "#EXTINF:%.3f,\n%s\n" preceded by "#EXT-X-DISCONTINUITY\n" when discont *)
Definition inf_lines (stream : bytes) (s : seg) : bytes :=
  ((* "#EXTINF:" *) [35; 69; 88; 84; 73; 78; 70; 58]%N ++ fmt3 (s_dur s) ++ [44%N; 10%N] ++ seg_name stream s ++ [10%N])%list.
Definition seg_lines (stream : bytes) (s : seg) : bytes :=
  ((if s_discont s then (* "#EXT-X-DISCONTINUITY" *) [35; 69; 88; 84; 45; 88; 45; 68; 73; 83; 67; 79; 78; 84; 73; 78; 85; 73; 84; 89]%N ++ [10%N] else []) ++ inf_lines stream s)%list.

Definition endlist : bytes := ((* "#EXT-X-ENDLIST" *) [35; 69; 88; 84; 45; 88; 45; 69; 78; 68; 76; 73; 83; 84]%N ++ [10%N])%list.
Definition target_tag : bytes := (* "#EXT-X-TARGETDURATION:" *) [35; 69; 88; 84; 45; 88; 45; 84; 65; 82; 71; 69; 84; 68; 85; 82; 65; 84; 73; 79; 78; 58]%N.

(* writePlaylist *)
Definition print_live (stream : bytes) (p : playlist) : bytes :=
  ((* "#EXTM3U" *) [35; 69; 88; 84; 77; 51; 85]%N ++ [10%N] ++ (* "#EXT-X-VERSION:3" *) [35; 69; 88; 84; 45; 88; 45; 86; 69; 82; 83; 73; 79; 78; 58; 51]%N ++ [10%N] ++ (* "#EXT-X-ALLOW-CACHE:NO" *) [35; 69; 88; 84; 45; 88; 45; 65; 76; 76; 79; 87; 45; 67; 65; 67; 72; 69; 58; 78; 79]%N ++ [10%N]
   ++ target_tag ++ dec (pl_target p) ++ [10%N]
   ++ (* "#EXT-X-MEDIA-SEQUENCE:" *) [35; 69; 88; 84; 45; 88; 45; 77; 69; 68; 73; 65; 45; 83; 69; 81; 85; 69; 78; 67; 69; 58]%N ++ dec (pl_seq p) ++ [10%N; 10%N]
   ++ flat_map (seg_lines stream) (pl_segs p)
   ++ (if pl_end p then endlist else []))%list.

(* writeRecordPlaylist, file did not exist *)
Definition print_record (stream : bytes) (p : playlist) : bytes :=
  ((* "#EXTM3U" *) [35; 69; 88; 84; 77; 51; 85]%N ++ [10%N] ++ (* "#EXT-X-VERSION:3" *) [35; 69; 88; 84; 45; 88; 45; 86; 69; 82; 83; 73; 79; 78; 58; 51]%N ++ [10%N]
   ++ target_tag ++ dec (pl_target p) ++ [10%N]
   ++ (* "#EXT-X-MEDIA-SEQUENCE:" *) [35; 69; 88; 84; 45; 88; 45; 77; 69; 68; 73; 65; 45; 83; 69; 81; 85; 69; 78; 67; 69; 58]%N ++ dec (pl_seq p) ++ [10%N; 10%N]
   ++ flat_map (seg_lines stream) (pl_segs p)
   ++ (if pl_end p then endlist else []))%list.

(* ---- byte-string helpers (Go bytes package) ---- *)
Fixpoint bytes_eqb (a b : bytes) : bool :=
  match a, b with
  | [], [] => true
  | x :: a', y :: b' => (x =? y)%N && bytes_eqb a' b'
  | _, _ => false
  end.

Fixpoint has_prefix (pre s : bytes) : bool :=
  match pre, s with
  | [], _ => true
  | x :: p', y :: s' => (x =? y)%N && has_prefix p' s'
  | _ :: _, [] => false
  end.

(* bytes.Index *)
Fixpoint bytes_index (pat s : bytes) : option nat :=
  if has_prefix pat s then Some O else
  match s with
  | [] => None
  | _ :: t => match bytes_index pat t with Some i => Some (S i) | None => None end
  end.

(* bytes.TrimSuffix *)
Definition trim_suffix (s suf : bytes) : bytes :=
  let n := (length s - length suf)%nat in
  if (length suf <=? length s)%nat && bytes_eqb (skipn n s) suf then firstn n s else s.

(* strconv.Atoi on what stands between the tag and the end of line: optional sign, then digits only
   (values beyond the int range are not modelled) *)
Fixpoint atoi_digits (s : bytes) (acc : Z) : option Z :=
  match s with
  | [] => Some acc
  | c :: t => if ((48 <=? c) && (c <=? 57))%N then atoi_digits t (acc * 10 + Z.of_N (c - 48)) else None
  end.
Definition atoi (s : bytes) : option Z :=
  match s with
  | [] => None
  | 43%N :: ((_ :: _) as t) => atoi_digits t 0
  | 45%N :: ((_ :: _) as t) => match atoi_digits t 0 with Some v => Some (- v) | None => None end
  | 43%N :: [] | 45%N :: [] => None
  | _ => atoi_digits s 0
  end.

(* updateTargetDurationInM3u8: None = error return *)
Definition update_target (content : bytes) (cur : Z) : option bytes :=
  match bytes_index target_tag content with
  | None => None
  | Some l =>
      match bytes_index [10%N] (skipn l content) with
      | None => None
      | Some r =>
          let old_str := skipn (length target_tag) (firstn r (skipn l content)) in
          match atoi old_str with
          | None => None
          | Some old =>
              if old <? cur
              then Some (firstn l content ++ target_tag ++ dec cur ++ skipn (l + r) content)%list
              else Some content
          end
      end
  end.

(* ---- calcNextSeqInM3u8 (added by the re-publish fix): what Muxer.Start reads off the live playlist it finds ---- *)
Definition seq_tag : bytes := (* "#EXT-X-MEDIA-SEQUENCE:" *) [35; 69; 88; 84; 45; 88; 45; 77; 69; 68; 73; 65; 45; 83; 69; 81; 85; 69; 78; 67; 69; 58]%N.
Definition inf_tag : bytes := (* "#EXTINF:" *) [35; 69; 88; 84; 73; 78; 70; 58]%N.
Definition max_int32 : Z := 2147483647.

(* bytes.Split(s, "\n"): the pieces between line feeds (always at least one, the last one possibly empty) *)
Fixpoint split_nl (s cur : bytes) : list bytes :=
  match s with
  | [] => [rev cur]
  | c :: t => if (c =? 10)%N then rev cur :: split_nl t [] else split_nl t (c :: cur)
  end.

(* the loop over the lines: (seq, n) so far; None = the early "return 0, false" *)
Fixpoint next_seq_lines (ls : list bytes) (seq n : Z) : option (Z * Z) :=
  match ls with
  | [] => Some (seq, n)
  | l :: t =>
      if has_prefix seq_tag l then
        match atoi (skipn (length seq_tag) l) with
        | Some v => if (v <? 0) || (max_int32 <? v) then None else next_seq_lines t v n
        | None => None
        end
      else if has_prefix inf_tag l then next_seq_lines t seq (n + 1)
      else next_seq_lines t seq n
  end.

(* EXT-X-MEDIA-SEQUENCE plus the number of EXTINF lines; None = ok false *)
Definition next_seq (content : bytes) : option (Z * Z) :=
  match next_seq_lines (split_nl content []) (-1) 0 with
  | Some (seq, n) => if seq <? 0 then None else Some (seq, n)
  | None => None
  end.
