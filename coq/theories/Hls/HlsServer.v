(* The server level of HLS output: logic.ServerManager + logic.Group around hls.Muxer, for ONE stream name.

     publish   ServerManager.AddCustomizePubSession: getOrCreateGroup (a FRESH Group object when none is registered
               under the name), Group.addIn -> startHlsIfNeeded (NewMuxer + Start); ErrDupInStream when the group
               already has an input
     feed      Group.OnPatPmt / Group.OnTsPackets -> hlsMuxer.FeedPatPmt / FeedMpegts
     stop      ServerManager.DelCustomizePubSession: Group.delIn -> stopHlsIfNeeded: Dispose,
               observer.CleanupHlsIfNeeded (ARMS the delayed cleanup in cleanup modes 1 and 2), hlsMuxer = nil
     tick      the 1 s housekeeping iteration of ServerManager.RunLoop: a group without any session is erased
     fire      the delayed task runs: it looks the group up BY NAME at that instant (sm.GetGroup) and returns when
               that group's muxer is alive, else hls.RemoveAll(outPath)

   Group objects carry a ghost identity so that "the group registered now" and "the group that was registered when
   the timer was armed" can be told apart; the faithful model (by_name = true) never reads it.  by_name = false is
   the design in which the closure keeps the group pointer it found when the timer was armed (seeded change
   C10r2-2); it exists only to be refuted (HlsServerProofs).  No proofs in this file. *)
From Coq Require Import ZArith Bool List.
From Lal Require Import Common.LBytes Hls.HlsFs Hls.HlsMuxer.
Open Scope Z_scope.

Inductive sev :=
| SvPub
| SvPatPmt (b : bytes)
| SvFeed (audio : bool) (pts dts : Z) (boundary : bool) (now : Z) (pk : bytes)
| SvStop
| SvTick
| SvFire.                        (* the oldest pending delayed cleanup fires (all have the same delay) *)

Record srv := mksrv {
  sv_group : option (Z * option mux);   (* the Group registered under the stream name: (ghost identity, hlsMuxer) *)
  sv_gen : Z;                           (* GHOST: number of Group objects created so far *)
  sv_timers : list Z                    (* pending delayed cleanups, oldest first; GHOST content: identity of the group that armed it *)
}.

Definition srv0 : srv := mksrv None 0 [].

(* CleanupHlsIfNeeded schedules something only in these modes *)
Definition arms (c : cfg) : bool := (c_mode c =? 1) || (c_mode c =? 2).

(* hls.enable / hls.enable_https (hls offered on the http port / on the https port) and the three places that test
   them.  They must agree: a muxer that is started has to be disposed and cleaned up after. *)
Record hsw := mksw { sw_http : bool; sw_https : bool }.
Definition hls_start_guard (g : hsw) : bool := sw_http g || sw_https g.        (* Group.startHlsIfNeeded *)
Definition hls_stop_guard (g : hsw) : bool := sw_http g || sw_https g.         (* Group.stopHlsIfNeeded *)
Definition hls_cleanup_guard (g : hsw) : bool := sw_http g || sw_https g.      (* ServerManager.CleanupHlsIfNeeded, after the fix *)
Definition hls_cleanup_guard_orig (g : hsw) : bool := sw_http g.               (* ... as shipped: Enable only *)

(* the muxer that is alive for this stream name, if any *)
Definition live_mux (v : srv) : option mux :=
  match sv_group v with Some (_, Some m) => Some m | _ => None end.

(* what the fired closure finds: "g != nil && g.IsHlsMuxerAlive()" *)
Definition fire_sees_alive (by_name : bool) (v : srv) (captured : Z) : bool :=
  match sv_group v with
  | Some (id, Some _) => by_name || (id =? captured)
  | _ => false
  end.

(* an event of the muxer level delivered to the registered group's muxer (nothing happens without one) *)
Definition to_mux (c : cfg) (v : srv) (s : fs) (e : event) : srv * list op :=
  match sv_group v with
  | Some (id, Some m) =>
      let '(mx, o) := step c (mkworld (Some m) s) e in
      (mksrv (Some (id, mx)) (sv_gen v) (sv_timers v), o)
  | _ => (v, [])
  end.

(* stops / armed: the values of the stop and cleanup guards (a muxer exists only when the start guard held) *)
Definition srv_step (by_name stops armed : bool) (c : cfg) (v : srv) (s : fs) (e : sev) : srv * list op :=
  match e with
  | SvPub =>
      match sv_group v with
      | Some (_, Some _) => (v, [])                                     (* ErrDupInStream *)
      | Some (id, None) =>                                              (* the group is still registered: reused *)
          let '(mx, o) := step c (mkworld None s) EvNew in
          (mksrv (Some (id, mx)) (sv_gen v) (sv_timers v), o)
      | None =>                                                         (* a fresh Group object *)
          let '(mx, o) := step c (mkworld None s) EvNew in
          (mksrv (Some (sv_gen v, mx)) (sv_gen v + 1) (sv_timers v), o)
      end
  | SvPatPmt b => to_mux c v s (EvPatPmt b)
  | SvFeed a p d b n pk => to_mux c v s (EvFeed a p d b n pk)
  | SvStop =>
      match sv_group v with
      | Some (id, Some _) =>
          if stops then
            let '(v1, o) := to_mux c v s EvDispose in
            (mksrv (sv_group v1) (sv_gen v1) (sv_timers v1 ++ (if armed && arms c then [id] else []))%list, o)
          else (v, [])                                                  (* the muxer is never disposed *)
      | _ => (v, [])
      end
  | SvTick =>
      match sv_group v with
      | Some (_, None) => (mksrv None (sv_gen v) (sv_timers v), [])     (* IsInactive: erased *)
      | _ => (v, [])
      end
  | SvFire =>
      match sv_timers v with
      | [] => (v, [])
      | t :: rest =>
          (mksrv (sv_group v) (sv_gen v) rest,
           if fire_sees_alive by_name v t then [] else [ORemoveAll PDir])
      end
  end.

(* per event: was a muxer alive for the name when the event happened, and the layer calls it made *)
Fixpoint srv_exec_g (by_name stops armed : bool) (c : cfg) (v : srv) (s : fs) (evs : list sev) : list (bool * list op) :=
  match evs with
  | [] => []
  | e :: t =>
      let '(v1, o) := srv_step by_name stops armed c v s e in
      ((match live_mux v with Some _ => true | None => false end, o)
       :: srv_exec_g by_name stops armed c v1 (apply_all s o) t)
  end.
(* hls.enable = true (the default configuration) *)
Definition srv_exec (by_name : bool) := srv_exec_g by_name true true.

(* the faithful server: operations per event, and all of them *)
Definition srv_run_ev (c : cfg) (evs : list sev) : list (list op) := map snd (srv_exec true c srv0 [] evs).
Definition srv_run (c : cfg) (evs : list sev) : list op := concat (srv_run_ev c evs).

(* ... under a configuration of the two switches: without the start guard there is no muxer and no call at all *)
Definition srv_exec_sw (g : hsw) (c : cfg) (evs : list sev) : list (bool * list op) :=
  if hls_start_guard g then srv_exec_g true (hls_stop_guard g) (hls_cleanup_guard g) c srv0 [] evs
  else map (fun _ => (false, [])) evs.
Definition srv_run_ev_sw (g : hsw) (c : cfg) (evs : list sev) : list (list op) := map snd (srv_exec_sw g c evs).

(* ---- the same history at the muxer level (HlsMuxer.run): who is alive, how many timers are pending ---- *)
Fixpoint lower_from (c : cfg) (alive : bool) (pending : nat) (evs : list sev) : list event :=
  match evs with
  | [] => []
  | SvPub :: t => EvNew :: lower_from c true pending t
  | SvPatPmt b :: t => EvPatPmt b :: lower_from c alive pending t
  | SvFeed a p d b n pk :: t => EvFeed a p d b n pk :: lower_from c alive pending t
  | SvStop :: t => EvDispose :: lower_from c false (if alive && arms c then S pending else pending) t
  | SvTick :: t => lower_from c alive pending t
  | SvFire :: t => match pending with O => lower_from c alive pending t | S n => EvCleanup :: lower_from c alive n t end
  end.
Definition lower (c : cfg) (evs : list sev) : list event := lower_from c false O evs.
