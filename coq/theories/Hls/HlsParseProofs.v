(* Proofs: the text writePlaylist prints parses back (completely) to the playlist it was printed from. *)
From Coq Require Import ZArith Bool List Lia.
From Lal Require Import Common.LBytes Hls.HlsFloat Hls.HlsPlaylist Hls.HlsParse Hls.HlsFloatProofs Hls.HlsTextProofs.
Open Scope Z_scope.
Ltac Zify.zify_post_hook ::= Z.div_mod_to_equations.


(* ---------- lines ---------- *)
Definition join (ls : list bytes) : bytes := flat_map (fun l => (l ++ [10%N])%list) ls.

Lemma split_lines_line l : forall rest cur, no_nl l ->
  split_lines (l ++ 10%N :: rest) cur =
  match split_lines rest [] with Some ls => Some ((rev cur ++ l)%list :: ls) | None => None end.
Proof.
  induction l as [|x l IH]; intros rest cur Hn; cbn [app split_lines].
  - rewrite N.eqb_refl, app_nil_r. reflexivity.
  - assert (E : (x =? 10)%N = false) by (apply N.eqb_neq; intros ->; apply Hn; now left).
    rewrite E, IH by (intros H; apply Hn; now right). cbn [rev]. rewrite <- app_assoc. reflexivity.
Qed.

Lemma split_join ls : Forall no_nl ls -> split_lines (join ls) [] = Some ls.
Proof.
  induction 1 as [|l ls Hl HF IH]; [reflexivity|].
  cbn [join flat_map]. rewrite <- app_assoc. cbn [app]. rewrite split_lines_line by exact Hl.
  fold (join ls). rewrite IH. reflexivity.
Qed.

Lemma join_app a b : join (a ++ b) = (join a ++ join b)%list.
Proof. unfold join. apply flat_map_app. Qed.

(* ---------- small parsers ---------- *)
Lemma strip_prefix_app pre x : strip_prefix pre (pre ++ x) = Some x.
Proof. induction pre as [|c p IH]; cbn; [reflexivity|]. now rewrite N.eqb_refl. Qed.

Lemma split_at_app c a b : ~ In c a -> split_at c (a ++ c :: b) = Some (a, b).
Proof.
  induction a as [|x a IH]; intros Hn; cbn [app split_at].
  - now rewrite N.eqb_refl.
  - assert (E : (x =? c)%N = false) by (apply N.eqb_neq; intros ->; apply Hn; now left).
    rewrite E, IH by (intros H; apply Hn; now right). reflexivity.
Qed.

Lemma parse_num_dec n : 0 <= n -> parse_num (dec n) = Some n.
Proof.
  intros Hn. destruct (dec_spec n Hn) as (F & NE & V). unfold parse_num.
  destruct (dec n) eqn:E; [congruence|]. rewrite atoi_digits_dval by exact F. now rewrite V.
Qed.

Lemma digits_no c ds : Forall digit ds -> (c < 48 \/ 57 < c)%N -> ~ In c ds.
Proof. intros F Hc H. rewrite Forall_forall in F. apply F in H. unfold digit in H. lia. Qed.

Lemma f_millis_nonneg a : 0 <= f_num a -> 0 <= f_millis a.
Proof.
  intros Ha. unfold f_millis. pose proof (f_den_pos a) as Hd.
  pose proof (rne_ge (f_num a * 1000 / f_den a) ((f_num a * 1000) mod f_den a) (f_den a)).
  assert (0 <= f_num a * 1000 / f_den a) by (apply Z.div_pos; lia). lia.
Qed.

Lemma digit_of d : 0 <= d < 10 -> digit (48 + Z.to_N d)%N /\ Z.of_N (48 + Z.to_N d - 48) = d.
Proof. intros Hd. unfold digit. split; lia. Qed.

Lemma parse_inf_fmt3 a : 0 <= f_num a -> parse_inf (tag_inf ++ fmt3 a ++ [44%N]) = Some (f_millis a).
Proof.
  intros Ha. pose proof (f_millis_nonneg a Ha) as Hq. unfold parse_inf, fmt3.
  set (q := f_millis a) in *. rewrite strip_prefix_app.
  assert (Hi : 0 <= q / 1000) by (apply Z.div_pos; lia).
  destruct (dec_spec (q / 1000) Hi) as (F & _ & _).
  rewrite <- app_assoc. cbn [app]. rewrite split_at_app by (apply (digits_no _ _ F); lia).
  rewrite parse_num_dec by exact Hi.
  destruct (digit_of (q / 100 mod 10) ltac:(lia)) as [D2 V2].
  destruct (digit_of (q / 10 mod 10) ltac:(lia)) as [D1 V1].
  destruct (digit_of (q mod 10) ltac:(lia)) as [D0 V0].
  rewrite atoi_digits_dval by (apply Forall_cons; [exact D2|apply Forall_cons; [exact D1|apply Forall_cons; [exact D0|apply Forall_nil]]]).
  unfold dval. cbn [fold_left]. rewrite V2, V1, V0. f_equal. lia.
Qed.

(* ---------- no newline inside a line ---------- *)
Lemma dec_go_digits n : 0 <= n -> Forall digit (dec_go (S (Z.to_nat (Z.log2 n))) n []).
Proof.
  intros Hn. pose proof (dec_spec n Hn) as (F & _). unfold dec in F.
  assert (E : (n <? 0) = false) by (apply Z.ltb_ge; lia). now rewrite E in F.
Qed.

Lemma dec_no_nl n : no_nl (dec n).
Proof.
  unfold no_nl, dec. destruct (n <? 0) eqn:E.
  - apply Z.ltb_lt in E. intros [H|H]; [discriminate|].
    apply (digits_no 10%N _ (dec_go_digits (- n) ltac:(lia))); [lia|exact H].
  - apply Z.ltb_ge in E. apply (digits_no 10%N _ (dec_go_digits n E)). lia.
Qed.

Lemma no_nl_app a b : no_nl a -> no_nl b -> no_nl (a ++ b).
Proof. unfold no_nl. intros Ha Hb H. apply in_app_or in H. tauto. Qed.

Lemma fmt3_no_nl a : 0 <= f_num a -> no_nl (fmt3 a).
Proof.
  intros Ha. pose proof (f_millis_nonneg a Ha) as Hq. unfold fmt3. set (q := f_millis a) in *.
  apply no_nl_app; [apply dec_no_nl|].
  unfold no_nl. cbn [In]. intros [H|[H|[H|[H|[]]]]]; try discriminate; lia.
Qed.

Lemma ts_name_no_nl stream now id : no_nl stream -> no_nl (ts_name stream now id).
Proof.
  intros Hs. unfold ts_name. repeat apply no_nl_app; try apply dec_no_nl; try exact Hs;
    unfold no_nl; cbn; intuition discriminate.
Qed.

(* ---------- the lines of a playlist ---------- *)
Definition seg_line_list (stream : bytes) (s : seg) : list bytes :=
  ((if s_discont s then [tag_disc] else []) ++ [(tag_inf ++ fmt3 (s_dur s) ++ [44%N])%list; seg_name stream s])%list.

Definition live_lines (stream : bytes) (p : playlist) : list bytes :=
  ([tag_extm3u; tag_version3; tag_nocache; (target_tag ++ dec (pl_target p))%list; (tag_seq ++ dec (pl_seq p))%list; []]
   ++ flat_map (seg_line_list stream) (pl_segs p) ++ (if pl_end p then [tag_endlist] else []))%list.

Lemma seg_lines_join stream s : seg_lines stream s = join (seg_line_list stream s).
Proof.
  unfold seg_lines, seg_line_list, inf_lines, join, tag_disc, tag_inf. destruct (s_discont s); cbn [app flat_map];
    rewrite <- ?app_assoc; cbn [app]; rewrite <- ?app_assoc; cbn [app]; rewrite ?app_nil_r; reflexivity.
Qed.

Lemma flat_map_seg_lines stream segs :
  flat_map (seg_lines stream) segs = join (flat_map (seg_line_list stream) segs).
Proof.
  induction segs as [|s segs IH]; [reflexivity|]. cbn [flat_map]. rewrite join_app, IH, seg_lines_join. reflexivity.
Qed.

Lemma print_live_join stream p : print_live stream p = join (live_lines stream p).
Proof.
  unfold print_live, live_lines. rewrite !join_app, flat_map_seg_lines.
  unfold tag_extm3u, tag_version3, tag_nocache, tag_seq, tag_endlist, endlist, join.
  destruct (pl_end p); cbn [flat_map app]; rewrite <- ?app_assoc; cbn [app]; rewrite <- ?app_assoc; cbn [app]; rewrite ?app_nil_r; reflexivity.
Qed.

(* ---------- segments and the whole playlist ---------- *)

Lemma is_uri_name stream s : stream_ok stream -> is_uri (seg_name stream s) = true.
Proof.
  intros [_ H]. unfold seg_name, ts_name. destruct stream as [|c t]; [reflexivity|].
  cbn [app is_uri]. apply negb_true_iff. now apply N.eqb_neq.
Qed.

Lemma inf_not_endlist x : bytes_eqb (tag_inf ++ x) tag_endlist = false.
Proof. reflexivity. Qed.
Lemma inf_not_disc x : bytes_eqb (tag_inf ++ x) tag_disc = false.
Proof. reflexivity. Qed.

Lemma parse_segs_lines stream segs (e : bool) :
  stream_ok stream -> Forall (fun s => 0 <= f_num (s_dur s)) segs ->
  parse_segs (flat_map (seg_line_list stream) segs ++ (if e then [tag_endlist] else [])) =
  Some (map (abs_seg stream) segs, e).
Proof.
  intros Hs. induction 1 as [|s segs Hd HF IH].
  - destruct e; reflexivity.
  - cbn [flat_map map]. unfold seg_line_list at 1. rewrite <- !app_assoc.
    destruct (s_discont s) eqn:Ed; cbn [app parse_segs].
    + change (bytes_eqb tag_disc tag_endlist) with false. change (bytes_eqb tag_disc tag_disc) with true. cbn iota.
      rewrite parse_inf_fmt3 by exact Hd. rewrite is_uri_name by exact Hs. rewrite IH.
      unfold abs_seg. now rewrite Ed.
    + rewrite inf_not_endlist, inf_not_disc. rewrite parse_inf_fmt3 by exact Hd. rewrite is_uri_name by exact Hs.
      rewrite IH. unfold abs_seg. now rewrite Ed.
Qed.

Definition pl_wf (p : playlist) : Prop :=
  0 <= pl_target p /\ 0 <= pl_seq p /\ Forall (fun s => 0 <= f_num (s_dur s)) (pl_segs p).

Lemma live_lines_no_nl stream p : stream_ok stream -> pl_wf p -> Forall no_nl (live_lines stream p).
Proof.
  intros [Hs _] (_ & _ & Hd). unfold live_lines.
  assert (Hc : forall l : bytes, (forallb (fun b => negb (b =? 10)%N) l = true) -> no_nl l).
  { intros l H Hin. rewrite forallb_forall in H. apply H in Hin. rewrite N.eqb_refl in Hin. discriminate. }
  apply Forall_app. split; [|apply Forall_app; split].
  - apply Forall_cons; [apply Hc; reflexivity|]. apply Forall_cons; [apply Hc; reflexivity|].
    apply Forall_cons; [apply Hc; reflexivity|].
    apply Forall_cons; [apply no_nl_app; [apply Hc; reflexivity|apply dec_no_nl]|].
    apply Forall_cons; [apply no_nl_app; [apply Hc; reflexivity|apply dec_no_nl]|].
    apply Forall_cons; [intros []|apply Forall_nil].
  - apply Forall_forall. intros l Hl. apply in_flat_map in Hl. destruct Hl as (s & Hs1 & Hl).
    rewrite Forall_forall in Hd. specialize (Hd s Hs1).
    unfold seg_line_list in Hl. apply in_app_or in Hl. destruct Hl as [Hl|[<-|[<-|[]]]].
    + destruct (s_discont s); [|destruct Hl]. destruct Hl as [<-|[]]. apply Hc. reflexivity.
    + apply no_nl_app; [apply Hc; reflexivity|apply no_nl_app; [now apply fmt3_no_nl|apply Hc; reflexivity]].
    + now apply ts_name_no_nl.
  - destruct (pl_end p); [|apply Forall_nil]. apply Forall_cons; [apply Hc; reflexivity|apply Forall_nil].
Qed.

Theorem parse_print_live stream p :
  stream_ok stream -> pl_wf p -> parse_live (print_live stream p) = Some (abs_pl stream p).
Proof.
  intros Hs Hw. unfold parse_live. rewrite print_live_join, split_join by now apply live_lines_no_nl.
  unfold live_lines. cbn [app].
  rewrite !bytes_eqb_refl. cbn [andb bytes_eqb].
  rewrite !strip_prefix_app. destruct Hw as (HT & HQ & Hd).
  rewrite !parse_num_dec by assumption. rewrite parse_segs_lines by assumption. reflexivity.
Qed.
