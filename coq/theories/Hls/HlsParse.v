(* A strict parser for the media playlists this muxer writes (RFC 8216 subset: the tags lal emits, every line
   terminated by LF, every EXTINF followed by its URI, nothing after ENDLIST).  Used only in specifications:
   "the live playlist parses completely" = parse_live returns a value.  No proofs in this file. *)
From Coq Require Import ZArith Bool List.
From Lal Require Import Common.LBytes Hls.HlsFloat Hls.HlsPlaylist.
Open Scope Z_scope.

Record tseg := mktseg { t_ms : Z; t_uri : bytes; t_disc : bool }.          (* duration in ms as listed, URI, discontinuity *)
Record tpl := mktpl { t_target : Z; t_seq : Z; t_segs : list tseg; t_end : bool }.

(* lines of a text in which every line is terminated by LF; None when the last line is not terminated *)
Fixpoint split_lines (s : bytes) (cur : bytes) : option (list bytes) :=
  match s with
  | [] => match cur with [] => Some [] | _ => None end
  | c :: t =>
      if (c =? 10)%N then match split_lines t [] with Some ls => Some (rev cur :: ls) | None => None end
      else split_lines t (c :: cur)
  end.

Fixpoint strip_prefix (pre s : bytes) : option bytes :=
  match pre, s with
  | [], _ => Some s
  | x :: p, y :: t => if (x =? y)%N then strip_prefix p t else None
  | _ :: _, [] => None
  end.

(* non-empty decimal number *)
Definition parse_num (s : bytes) : option Z :=
  match s with [] => None | _ => atoi_digits s 0 end.

(* text up to the first occurrence of byte c, and what follows it *)
Fixpoint split_at (c : N) (s : bytes) : option (bytes * bytes) :=
  match s with
  | [] => None
  | x :: t => if (x =? c)%N then Some ([], t)
              else match split_at c t with Some (a, b) => Some (x :: a, b) | None => None end
  end.

Definition tag_extm3u : bytes := [35; 69; 88; 84; 77; 51; 85]%N.
Definition tag_version3 : bytes := [35; 69; 88; 84; 45; 88; 45; 86; 69; 82; 83; 73; 79; 78; 58; 51]%N.
Definition tag_nocache : bytes := [35; 69; 88; 84; 45; 88; 45; 65; 76; 76; 79; 87; 45; 67; 65; 67; 72; 69; 58; 78; 79]%N.
Definition tag_seq : bytes := [35; 69; 88; 84; 45; 88; 45; 77; 69; 68; 73; 65; 45; 83; 69; 81; 85; 69; 78; 67; 69; 58]%N.
Definition tag_disc : bytes := [35; 69; 88; 84; 45; 88; 45; 68; 73; 83; 67; 79; 78; 84; 73; 78; 85; 73; 84; 89]%N.
Definition tag_inf : bytes := [35; 69; 88; 84; 73; 78; 70; 58]%N.
Definition tag_endlist : bytes := [35; 69; 88; 84; 45; 88; 45; 69; 78; 68; 76; 73; 83; 84]%N.

(* "#EXTINF:<int>.<ddd>," -> milliseconds *)
Definition parse_inf (l : bytes) : option Z :=
  match strip_prefix tag_inf l with
  | None => None
  | Some r =>
      match split_at 46%N r with
      | None => None
      | Some (ip, fr) =>
          match parse_num ip, fr with
          | Some i, [d2; d1; d0; 44%N] =>
              match atoi_digits [d2; d1; d0] 0 with Some f => Some (i * 1000 + f) | None => None end
          | _, _ => None
          end
      end
  end.

(* a URI line: not empty, not a tag / comment *)
Definition is_uri (l : bytes) : bool := match l with [] => false | c :: _ => negb (c =? 35)%N end.

Fixpoint parse_segs (ls : list bytes) : option (list tseg * bool) :=
  match ls with
  | [] => Some ([], false)
  | l :: t =>
      if bytes_eqb l tag_endlist then match t with [] => Some ([], true) | _ => None end
      else if bytes_eqb l tag_disc then
        match t with
        | inf :: uri :: t' =>
            match parse_inf inf, is_uri uri, parse_segs t' with
            | Some ms, true, Some (r, e) => Some (mktseg ms uri true :: r, e)
            | _, _, _ => None
            end
        | _ => None
        end
      else
        match t with
        | uri :: t' =>
            match parse_inf l, is_uri uri, parse_segs t' with
            | Some ms, true, Some (r, e) => Some (mktseg ms uri false :: r, e)
            | _, _, _ => None
            end
        | [] => None
        end
  end.

Definition parse_live (s : bytes) : option tpl :=
  match split_lines s [] with
  | Some (l1 :: l2 :: l3 :: l4 :: l5 :: l6 :: rest) =>
      if bytes_eqb l1 tag_extm3u && bytes_eqb l2 tag_version3 && bytes_eqb l3 tag_nocache && bytes_eqb l6 [] then
        match strip_prefix target_tag l4, strip_prefix tag_seq l5 with
        | Some a, Some b =>
            match parse_num a, parse_num b, parse_segs rest with
            | Some T, Some Q, Some (segs, e) => Some (mktpl T Q segs e)
            | _, _, _ => None
            end
        | _, _ => None
        end
      else None
  | _ => None
  end.

(* what a structured playlist looks like on the wire *)
Definition abs_seg (stream : bytes) (s : seg) : tseg := mktseg (f_millis (s_dur s)) (seg_name stream s) (s_discont s).
Definition abs_pl (stream : bytes) (p : playlist) : tpl :=
  mktpl (pl_target p) (pl_seq p) (map (abs_seg stream) (pl_segs p)) (pl_end p).

(* stream names for which the file names are URI lines: no LF inside, not starting with '#' *)
Definition no_nl (l : bytes) : Prop := ~ In 10%N l.
Definition stream_ok (stream : bytes) : Prop :=
  no_nl stream /\ match stream with c :: _ => c <> 35%N | [] => True end.
