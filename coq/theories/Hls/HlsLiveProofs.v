(* Proofs: what the invariant says about the live playlist at one instant (target duration, listed segments,
   it parses), for the playlist the muxer wrote itself and for the one a previous publication left behind;
   and Muxer.Start (start_mux) re-establishes the invariant in the directory it finds. *)
From Coq Require Import ZArith Bool List Lia.
From Lal Require Import Common.LBytes Hls.HlsFloat Hls.HlsFs Hls.HlsPlaylist Hls.HlsMuxer Hls.HlsConsistent
  Hls.HlsParse Hls.HlsFsProofs Hls.HlsFloatProofs Hls.HlsTextProofs Hls.HlsParseProofs Hls.HlsResumeProofs Hls.HlsInv Hls.HlsInvProofs.
Open Scope Z_scope.

(* ---------- target duration ---------- *)
Definition le_val (a b : fl) : Prop := f_ltb b a = false.

Lemma le_val_spec a b : le_val a b <-> f_num a * f_den b <= f_num b * f_den a.
Proof. unfold le_val, f_ltb. rewrite Z.ltb_ge. lia. Qed.

Lemma le_val_refl a : le_val a a.
Proof. apply le_val_spec. lia. Qed.

Lemma le_val_trans a b d : le_val a b -> le_val b d -> le_val a d.
Proof.
  rewrite !le_val_spec. intros H1 H2.
  pose proof (f_den_pos a). pose proof (f_den_pos b). pose proof (f_den_pos d).
  assert (f_num a * f_den d * f_den b <= f_num d * f_den a * f_den b) by nia. nia.
Qed.

Lemma le_val_total a b : f_ltb a b = true -> le_val a b.
Proof. unfold le_val, f_ltb. rewrite Z.ltb_lt, Z.ltb_ge. lia. Qed.

Lemma max_dur_spec l : forall init,
  le_val init (max_dur l init) /\ (forall f, In f l -> le_val (fi_dur f) (max_dur l init)) /\
  (max_dur l init = init \/ exists f, In f l /\ max_dur l init = fi_dur f).
Proof.
  induction l as [|g l IH]; intros init; cbn [max_dur fold_left].
  - split; [apply le_val_refl|]. split; [intros f []|now left].
  - set (init' := if f_ltb init (fi_dur g) then fi_dur g else init).
    destruct (IH init') as (A & B & C). fold (max_dur l init') in *.
    assert (Hi : le_val init init' /\ le_val (fi_dur g) init').
    { unfold init'. destruct (f_ltb init (fi_dur g)) eqn:E.
      - split; [now apply le_val_total|apply le_val_refl].
      - split; [apply le_val_refl|exact E]. }
    destruct Hi as [Hi1 Hi2].
    split; [eapply le_val_trans; eauto|]. split.
    + intros f [<-|Hf]; [eapply le_val_trans; eauto|now apply B].
    + destruct C as [C|(f & Hf & C)].
      * unfold init' in C. destruct (f_ltb init (fi_dur g)); [right; exists g; split; [now left|exact C]|now left].
      * right. exists f. split; [now right|exact C].
Qed.

Lemma live_target_ge c l f :
  0 <= c_ms c <= 2 ^ 35 -> (forall g, In g l -> dur_ok (fi_dur g)) -> In f l ->
  listed_seconds (seg_of f) <= live_target c l.
Proof.
  intros Hms Hd Hf. unfold listed_seconds, live_target, calc_target. cbn [s_dur seg_of].
  destruct (max_dur_spec l (frag_target c)) as (A & B & C).
  apply calc_target_ge; [now apply Hd| |now apply B].
  destruct C as [-> | (g & Hg & ->)]; [|now apply Hd].
  unfold frag_target. apply frag_target_ok. lia.
Qed.

Lemma calc_target_nonneg x : 0 <= f_num x -> 0 <= calc_target x.
Proof.
  intros Hx. unfold calc_target. apply Z.div_pos; [|lia].
  assert (0 <= f_round (f_mul x (f_of_Z 1000))); [|lia].
  unfold f_round. pose proof (f_den_pos (f_mul x (f_of_Z 1000))).
  apply Z.div_pos; [|lia].
  assert (0 <= f_num (f_mul x (f_of_Z 1000))); [|lia].
  unfold f_mul. apply rnd53_nonneg.
  - apply Z.mul_nonneg_nonneg; [exact Hx|]. unfold f_of_Z. apply rnd53_nonneg; lia.
  - apply Z.mul_pos_pos; apply f_den_pos.
Qed.


(* ---------- the invariant gives the instantaneous clauses ---------- *)
Lemma in_frags_in_playlist c m f :
  In f (frags_in_playlist c m) -> exists k, 0 <= k < m_nfrags m /\ f = get_frag c m k.
Proof.
  unfold frags_in_playlist. intros H. apply in_map_iff in H. destruct H as (k & <- & Hk).
  apply in_seq in Hk. exists (Z.of_nat k). split; [lia|reflexivity].
Qed.

Lemma inv_listed_ok c m s k :
  Inv c m s -> 0 <= k < m_nfrags m -> seg_file_ok s (seg_of (get_frag c m k)).
Proof.
  intros [H1 H2 H3 H4 H5 H6 H7 H8 H9 H10 H11 H12 H13] Hk.
  rewrite get_frag_sl. set (i := m_frag m + k).
  assert (Hw : nclosed m - cap c < i < nclosed m) by (unfold i, nclosed, cap; lia).
  assert (Hi : m_base m <= i) by (unfold i; lia).
  destruct (H5 i Hi Hw) as (A & B & C). destruct (H9 i Hi Hw) as (f & Hf & Hc & Hw188 & pp & rest & Hd & Hp).
  unfold seg_file_ok, seg_of. cbn [s_now s_id]. rewrite A, C.
  exists f, pp, rest. auto.
Qed.

Lemma inv_listed_id c m s k :
  Inv c m s -> 0 <= k < m_nfrags m -> s_id (seg_of (get_frag c m k)) = m_frag m + k.
Proof.
  intros [H1 H2 H3 H4 H5 H6 H7 H8 H9 H10 H11 H12 H13] Hk.
  rewrite get_frag_sl. set (i := m_frag m + k).
  assert (Hw : nclosed m - cap c < i < nclosed m) by (unfold i, nclosed, cap; lia).
  assert (Hi : m_base m <= i) by (unfold i; lia).
  destruct (H5 i Hi Hw) as (A & B & C). exact A.
Qed.

Lemma max_dur_nonneg l init :
  0 <= f_num init -> (forall g, In g l -> 0 <= f_num (fi_dur g)) -> 0 <= f_num (max_dur l init).
Proof.
  intros Hi Hl. destruct (max_dur_spec l init) as (_ & _ & [-> | (g & Hg & ->)]); auto.
Qed.

Lemma inv_live_wf c m s e : Inv c m s -> pl_wf (live_playlist c m e).
Proof.
  intros [H1 H2 H3 H4 H5 H6 H7 H8 H9 H10 H11 H12 H13]. unfold pl_wf, live_playlist. cbn [pl_target pl_seq pl_segs].
  assert (Hd : forall g, In g (frags_in_playlist c m) -> dur_ok (fi_dur g)).
  { intros g Hg. apply in_frags_in_playlist in Hg. destruct Hg as (k & _ & ->). apply H13. }
  split; [|split; [lia|]].
  - unfold live_target. apply calc_target_nonneg. apply max_dur_nonneg.
    + unfold frag_target. apply (frag_target_ok (c_ms c)). lia.
    + intros g Hg. apply Hd. exact Hg.
  - apply Forall_forall. intros sg Hsg. apply in_map_iff in Hsg. destruct Hsg as (g & <- & Hg). cbn. now apply Hd.
Qed.

Lemma inv_parse c m s e : Inv c m s ->
  parse_live (print_live (c_stream c) (live_playlist c m e)) = Some (abs_pl (c_stream c) (live_playlist c m e)).
Proof.
  intros HI. apply parse_print_live; [|now apply (inv_live_wf c m s)].
  destruct HI as [H1 _ _ _ _ _ _ _ _ _ _ _ _]. apply H1.
Qed.

Lemma pl_sane_wf p : pl_sane p <-> pl_wf p.
Proof. reflexivity. Qed.

(* the playlist the muxer wrote itself: target, numbering and files of what it lists *)
Lemma inv_own_listed c m s e :
  Inv c m s ->
  Forall (fun sg => listed_seconds sg <= pl_target (live_playlist c m e) /\ m_frag m <= s_id sg < nclosed m /\ seg_file_ok s sg)
         (pl_segs (live_playlist c m e)).
Proof.
  intros HI. pose proof HI as [H1 H2 H3 H4 H5 H6 H7 H8 H9 H10 H11 H12 H13].
  cbn [pl_segs pl_target live_playlist].
  apply Forall_forall; intros sg Hsg; apply in_map_iff in Hsg; destruct Hsg as (g & <- & Hg).
  split; [|split].
  - apply live_target_ge; [lia| |exact Hg].
    intros g' Hg'. apply in_frags_in_playlist in Hg'. destruct Hg' as (k & _ & ->). apply H13.
  - apply in_frags_in_playlist in Hg. destruct Hg as (k & Hk & ->). rewrite (inv_listed_id c m s k HI Hk). unfold nclosed. lia.
  - apply in_frags_in_playlist in Hg. destruct Hg as (k & Hk & ->). now apply inv_listed_ok.
Qed.

Lemma live_playlist_len c m e : 0 <= m_nfrags m -> Z.of_nat (length (pl_segs (live_playlist c m e))) = m_nfrags m.
Proof.
  intros H. cbn [pl_segs live_playlist]. rewrite map_length. unfold frags_in_playlist. rewrite map_length, seq_length. lia.
Qed.

(* what the live playlist is at an instant described by m: a structured playlist that shows `shown m` *)
Lemma inv_live_content c m s f :
  Inv c m s -> fs_lookup PLive s = Some f ->
  exists pl, fdata f = print_live (c_stream c) pl /\ pl_wf pl /\ pl_seq pl = shown m /\
             Forall (fun sg => listed_seconds sg <= pl_target pl /\ seg_file_ok s sg) (pl_segs pl).
Proof.
  intros HI Hf. pose proof HI as [H1 H2 H3 H4 H5 H6 H7 H8 H9 H10 H11 H12 H13].
  unfold shown. destruct (Z.eqb_spec (nclosed m) (m_base m)) as [Hz|Hz].
  - specialize (H11 Hz). unfold prev_ok in H11. rewrite Hf in H11.
    destruct H11 as (pl & -> & A & B & C & D). exists pl. cbn [fdata].
    split; [reflexivity|]. split; [exact A|]. split; [exact B|].
    eapply Forall_impl; [|exact D]. intros sg (X & _ & Y). auto.
  - assert (Hlt : m_base m < nclosed m) by (unfold nclosed in *; lia).
    destruct (H12 Hlt) as [e He]. rewrite He in Hf. injection Hf as <-. cbn [fdata].
    exists (live_playlist c m e). split; [reflexivity|]. split; [now apply (inv_live_wf c m s)|]. split; [reflexivity|].
    eapply Forall_impl; [|apply (inv_own_listed c m s e HI)]. intros sg (X & _ & Y). auto.
Qed.

Lemma inv_live_ok c m s : Inv c m s -> live_ok c s.
Proof.
  intros HI f Hf. destruct (inv_live_content c m s f HI Hf) as (pl & A & B & C & D).
  exists pl. split; [exact A|]. split.
  - rewrite A. apply parse_print_live; [|exact B]. destruct HI as [H1 _ _ _ _ _ _ _ _ _ _ _ _]. apply H1.
  - split; eapply Forall_impl; try exact D; intros sg (X & Y); assumption.
Qed.

(* ---------- Muxer.Start ---------- *)
Definition fresh_mux (c : cfg) (b pf : Z) : mux :=
  mkmux false 0 fl0 0 b (repeat fi0 (Z.to_nat (cap c))) [] PDir [] b pf.

Lemma new_mux_fresh c : new_mux c = fresh_mux c 0 0.
Proof. reflexivity. Qed.

Lemma inv_fresh_mux c b pf s :
  cfg_ok c -> 0 <= pf <= b -> prev_ok c (fresh_mux c b pf) s -> Inv c (fresh_mux c b pf) s.
Proof.
  intros (Hn & Ht & Hms & Hst) Hb Hp. unfold fresh_mux in *. constructor.
  - repeat split; try lia; apply Hst.
  - cbn. lia.
  - cbn. apply repeat_length.
  - unfold nclosed. cbn. lia.
  - intros i Hi Hw. unfold nclosed in Hw. cbn in Hi, Hw. lia.
  - cbn. discriminate.
  - intros _ Hc. unfold nclosed in Hc. cbn in Hc. unfold cap in Hc. lia.
  - intros i _. unfold sl, get_slot. cbn. now rewrite nth_repeat_any.
  - intros i Hi Hw. unfold nclosed in Hw. cbn in Hi, Hw. lia.
  - cbn. discriminate.
  - intros _. exact Hp.
  - unfold nclosed. cbn. lia.
  - intros j. unfold get_slot. cbn. rewrite nth_repeat_any. apply dur_ok_fl0.
Qed.

Lemma inv_new c : cfg_ok c -> Inv c (new_mux c) [].
Proof.
  intros Hc. rewrite new_mux_fresh. apply inv_fresh_mux; [exact Hc|lia|].
  unfold prev_ok. cbn. auto.
Qed.

(* Start in a directory described by m (the previous publication, disposed; or the empty directory): the new muxer
   carries on with the numbering, and the first layer call (MkdirAll) is where the logical state changes hands *)
Lemma start_ok c m s mx o :
  cfg_ok c -> Inv c m s -> nclosed m <= max_int32 -> start_mux c s = (mx, o) ->
  chain c m s o mx /\ Inv c mx (apply_all s o) /\ nclosed mx = nclosed m /\ m_opened mx = false.
Proof.
  intros Hc HI Hmax E.
  pose proof HI as [H1 H2 H3 H4 H5 H6 H7 H8 H9 H10 H11 H12 H13].
  assert (Hgen : forall b pf rd,
            0 <= pf <= b -> b = nclosed m -> pf = shown m -> prev_ok c (fresh_mux c b pf) s ->
            chain c m s [OMkdirAll PDir; OReadFile PLive rd] (fresh_mux c b pf) /\
            Inv c (fresh_mux c b pf) (apply_all s [OMkdirAll PDir; OReadFile PLive rd]) /\
            nclosed (fresh_mux c b pf) = nclosed m /\ m_opened (fresh_mux c b pf) = false).
  { intros b pf rd Hb Hbn Hpf Hp.
    assert (HIx : Inv c (fresh_mux c b pf) s) by now apply inv_fresh_mux.
    assert (Hnx : nclosed (fresh_mux c b pf) = nclosed m) by (unfold nclosed, fresh_mux; cbn; unfold nclosed in Hbn; lia).
    split; [|split; [exact HIx|split; [exact Hnx|reflexivity]]].
    eapply ch_cons with (m1 := fresh_mux c b pf); [|exact HIx|].
    - cbn [rstep]. split; [|split; [exact Hnx|rewrite Hnx; exact Hbn]]. unfold mle. rewrite Hnx. split; [lia|].
      change (m_base (fresh_mux c b pf)) with b. split; [|unfold nclosed in Hbn; lia].
      unfold shown at 2. rewrite Hnx. change (m_base (fresh_mux c b pf)) with b. rewrite <- Hbn, Z.eqb_refl.
      change (m_pfrag (fresh_mux c b pf)) with pf. lia.
    - cbn [apply]. eapply ch_cons; [apply rstep_same; [exact I|exact I|reflexivity|]|exact HIx|apply ch_nil].
      intros q []. }
  unfold start_mux in E. destruct (fs_lookup PLive s) as [f|] eqn:Ef.
  - destruct (Z.eqb_spec (nclosed m) (m_base m)) as [Hz|Hz].
    + (* the previous publication never published a playlist: what it had found is still there *)
      pose proof (H11 Hz) as Hp. unfold prev_ok in Hp. rewrite Ef in Hp.
      destruct Hp as (pl & -> & A & B & C & D). cbn [fdata] in E.
      rewrite next_seq_print in E; [|apply H1|exact A|lia].
      injection E as <- <-. rewrite C, B.
      apply (Hgen (m_base m) (m_pfrag m) true); try lia.
      * unfold shown. rewrite Hz, Z.eqb_refl. reflexivity.
      * eapply (prev_ok_mux c m); [reflexivity|reflexivity|now apply H11].
    + (* the playlist the previous publication wrote last *)
      assert (Hlt : m_base m < nclosed m) by (unfold nclosed in *; lia).
      destruct (H12 Hlt) as [e He].
      assert (Hf : f = mkfile (print_live (c_stream c) (live_playlist c m e)) true) by congruence.
      subst f. cbn [fdata] in E.
      rewrite next_seq_print in E; [|apply H1|now apply (inv_live_wf c m s)|cbn; unfold nclosed in Hmax; lia].
      rewrite live_playlist_len in E by lia. cbn [pl_seq live_playlist] in E.
      injection E as <- <-.
      apply (Hgen (m_frag m + m_nfrags m) (m_frag m) true); try reflexivity; try lia.
      * unfold shown. destruct (Z.eqb_spec (nclosed m) (m_base m)); [lia|reflexivity].
      * unfold prev_ok. rewrite Ef. exists (live_playlist c m e).
        split; [reflexivity|]. split; [now apply (inv_live_wf c m s)|]. split; [reflexivity|].
        split; [rewrite live_playlist_len by lia; reflexivity|].
        eapply Forall_impl; [|apply (inv_own_listed c m s e HI)]. intros sg (X & Y & Z).
        unfold prev_seg_ok. change (m_base (fresh_mux c (m_frag m + m_nfrags m) (m_frag m))) with (nclosed m). auto with zarith.
  - injection E as <- <-.
    destruct (Z.eqb_spec (nclosed m) (m_base m)) as [Hz|Hz].
    + pose proof (H11 Hz) as Hp. unfold prev_ok in Hp. rewrite Ef in Hp. destruct Hp as [Hb0 Hp0].
      rewrite new_mux_fresh. apply (Hgen 0 0 false); try lia.
      * unfold shown. rewrite Hz, Z.eqb_refl. lia.
      * unfold prev_ok. rewrite Ef. cbn. auto.
    + assert (Hlt : m_base m < nclosed m) by (unfold nclosed in *; lia).
      destruct (H12 Hlt) as [e He]. congruence.
Qed.
