(* Proofs about the write-queue model (C15). *)
From Coq Require Import Lia ZifyN ZifyNat ZifyBool.
From Lal Require Import Common.LBytes Common.LBytesProofs Flv.FlvTag Flv.FlvWs Flv.FlvProofs
  Queue.QueueSubseq Queue.QueueWrite.
Ltac Zify.zify_post_hook ::= Z.div_mod_to_equations.
Open Scope N_scope.

(* ---------------------------------------------------------------------- *)
(* list helpers *)

Lemma concat_firstn_S (u : list bytes) : forall k, (k < length u)%nat ->
  concat (firstn (S k) u) = concat (firstn k u) ++ nth k u [].
Proof.
  induction u as [|b t IH]; intros k Hk; [cbn in Hk; lia|].
  destruct k as [|k].
  - cbn. rewrite app_nil_r. reflexivity.
  - cbn [length] in Hk. change (firstn (S (S k)) (b :: t)) with (b :: firstn (S k) t).
    change (firstn (S k) (b :: t)) with (b :: firstn k t).
    change (nth (S k) (b :: t) []) with (nth k t []).
    cbn [concat]. rewrite IH by lia. rewrite app_assoc. reflexivity.
Qed.

Definition prefix_of (p l : bytes) : Prop := exists r, l = p ++ r.

Lemma prefix_firstn_concat (u : list bytes) k : prefix_of (concat (firstn k u)) (concat u).
Proof.
  exists (concat (skipn k u)). rewrite <- concat_app. rewrite firstn_skipn. reflexivity.
Qed.

Lemma prefix_partial (u : list bytes) n : forall k, (k < length u)%nat ->
  prefix_of (concat (firstn k u) ++ firstn n (nth k u [])) (concat u).
Proof.
  induction u as [|b t IH]; intros k Hk; [cbn in Hk; lia|].
  destruct k as [|k].
  - cbn. exists (skipn n b ++ concat t). rewrite app_assoc. rewrite firstn_skipn. reflexivity.
  - cbn [length] in Hk. destruct (IH k ltac:(lia)) as [r Hr].
    exists r. change (firstn (S k) (b :: t)) with (b :: firstn k t).
    change (nth (S k) (b :: t) []) with (nth k t []).
    cbn [concat]. rewrite Hr. rewrite !app_assoc. reflexivity.
Qed.

Lemma prefix_nil l : prefix_of [] l.
Proof. exists l. reflexivity. Qed.

(* ---------------------------------------------------------------------- *)
(* The connection invariant: what is on the wire is whole units, in order,
   plus the progress of the unit being written. *)

Definition ubytes (u : wunit) : bytes := concat u.

Definition hand_units (c : conn) : list wunit :=
  match c_hand c with Some (u, _) => [u] | None => [] end.
Definition hand_prog (c : conn) : bytes :=
  match c_hand c with Some (u, k) => concat (firstn k u) | None => [] end.

Record cinv (offered : list wunit) (c : conn) (del : list wunit) (part : bytes) : Prop := mk_cinv
  { ci_wire : c_wire c = concat (map ubytes del) ++ hand_prog c ++ part;
    ci_sub : subseq (del ++ hand_units c ++ c_chan c) offered;
    ci_hand : forall u k, c_hand c = Some (u, k) -> (k < length u)%nat;
    ci_closed : c_closed c = true -> c_hand c = None;
    ci_part : part = [] \/
              (c_closed c = true /\ exists u, In u offered /\ prefix_of part (ubytes u)) }.

Definition Inv (offered : list wunit) (c : conn) : Prop := exists del part, cinv offered c del part.

Lemma cinv_part_nil offered c del part u k :
  cinv offered c del part -> c_hand c = Some (u, k) -> part = [].
Proof.
  intros H Hh. destruct (ci_part _ _ _ _ H) as [|[Hc _]]; [assumption|].
  apply (ci_closed _ _ _ _ H) in Hc. congruence.
Qed.

Lemma Inv_new cap : Inv [] (conn_new cap).
Proof.
  exists [], []. constructor; cbn; auto.
  - apply ss_nil.
  - discriminate.
Qed.

Lemma cinv_weaken offered e c del part : cinv offered c del part -> cinv (offered ++ e) c del part.
Proof.
  intros [Hw Hs Hh Hc Hp]. constructor; auto.
  - apply subseq_app_r. assumption.
  - destruct Hp as [|[Hcl [u [Hin Hpre]]]]; [left; assumption|].
    right. split; [assumption|]. exists u. split; [apply in_or_app; left; assumption|assumption].
Qed.

Lemma Inv_weaken offered e c : Inv offered c -> Inv (offered ++ e) c.
Proof. intros [del [part H]]. exists del, part. apply cinv_weaken. assumption. Qed.

Lemma Inv_enqueue offered u c : Inv offered c -> Inv (offered ++ [u]) (fst (enqueue u c)).
Proof.
  intros HI. unfold enqueue.
  destruct (c_closed c) eqn:Hcl; [apply Inv_weaken; assumption|].
  destruct (Nat.ltb (length (c_chan c)) (c_cap c)); [|apply Inv_weaken; assumption].
  destruct HI as [del [part [Hw Hs Hh Hc Hp]]]. exists del, part. cbn [fst].
  constructor; cbn; auto.
  - replace (del ++ hand_units (set_chan (c_chan c ++ [u]) c) ++ c_chan c ++ [u])
      with ((del ++ hand_units c ++ c_chan c) ++ [u])
      by (unfold hand_units; cbn; rewrite <- !app_assoc; reflexivity).
    apply subseq_snoc. assumption.
  - destruct Hp as [|[Hcl' _]]; [left; assumption|congruence].
Qed.

Lemma Inv_take offered c : Inv offered c -> Inv offered (take c).
Proof.
  intros HI. unfold take.
  destruct (c_closed c) eqn:Hcl; [assumption|].
  destruct (c_hand c) as [[u0 k0]|] eqn:Hh; [assumption|].
  destruct (c_chan c) as [|u r] eqn:Hq; [assumption|].
  destruct HI as [del [part [Hw Hs Hhd Hc Hp]]].
  unfold hand_units, hand_prog in *. rewrite Hh in *. rewrite Hq in *. cbn [app] in *.
  destruct u as [|b bs].
  - exists del, part. constructor; cbn; unfold hand_units, hand_prog; cbn; try rewrite Hh.
    + exact Hw.
    + eapply subseq_remove_mid. exact Hs.
    + exact Hhd.
    + exact Hc.
    + exact Hp.
  - exists del, part. constructor; cbn; unfold hand_units, hand_prog; cbn.
    + exact Hw.
    + exact Hs.
    + intros u k Hk. inversion Hk; subst. cbn. lia.
    + rewrite Hcl. discriminate.
    + exact Hp.
Qed.

Lemma Inv_wdone offered c : Inv offered c -> Inv offered (wdone c).
Proof.
  intros HI. unfold wdone.
  destruct (c_hand c) as [[u k]|] eqn:Hh; [|assumption].
  destruct HI as [del [part H]].
  assert (Hpn : part = []) by (eapply cinv_part_nil; eassumption). subst part.
  destruct H as [Hw Hs Hhd Hc Hp].
  assert (Hk : (k < length u)%nat) by (apply Hhd; assumption).
  assert (Hncl : c_closed c = false).
  { destruct (c_closed c) eqn:E; [|reflexivity]. specialize (Hc eq_refl). congruence. }
  unfold hand_units, hand_prog in *. rewrite Hh in *. rewrite app_nil_r in Hw.
  destruct (Nat.eqb (S k) (length u)) eqn:Hlast.
  - apply Nat.eqb_eq in Hlast.
    exists (del ++ [u]), []. constructor; cbn; unfold hand_units, hand_prog; cbn.
    + rewrite Hw. rewrite map_app, concat_app. cbn [map concat]. unfold ubytes.
      rewrite !app_nil_r. rewrite <- app_assoc. f_equal.
      rewrite <- concat_firstn_S by assumption. rewrite Hlast. rewrite firstn_all. reflexivity.
    + rewrite <- app_assoc. exact Hs.
    + discriminate.
    + reflexivity.
    + left. reflexivity.
  - apply Nat.eqb_neq in Hlast.
    exists del, []. constructor; cbn; unfold hand_units, hand_prog; cbn.
    + rewrite Hw. rewrite app_nil_r. rewrite <- app_assoc. f_equal.
      symmetry. apply concat_firstn_S. assumption.
    + exact Hs.
    + intros u0 k0 E. inversion E; subst. lia.
    + rewrite Hncl. discriminate.
    + left. reflexivity.
Qed.

Lemma Inv_wfail offered n c : Inv offered c -> Inv offered (wfail n c).
Proof.
  intros HI. unfold wfail.
  destruct (c_hand c) as [[u k]|] eqn:Hh; [|assumption].
  destruct HI as [del [part H]].
  assert (Hpn : part = []) by (eapply cinv_part_nil; eassumption). subst part.
  destruct H as [Hw Hs Hhd Hc Hp].
  assert (Hk : (k < length u)%nat) by (apply Hhd; assumption).
  unfold hand_units, hand_prog in *. rewrite Hh in *. rewrite app_nil_r in Hw.
  exists del, (concat (firstn k u) ++ firstn n (nth k u [])).
  constructor; cbn; unfold hand_units, hand_prog; cbn.
  - rewrite Hw. rewrite <- app_assoc. reflexivity.
  - cbn [app] in Hs. eapply subseq_remove_mid. exact Hs.
  - discriminate.
  - reflexivity.
  - right. split; [reflexivity|]. exists u. split.
    + eapply subseq_In; [exact Hs|]. apply in_or_app. right. left. reflexivity.
    + apply prefix_partial. assumption.
Qed.

Lemma Inv_wclose offered c : Inv offered c -> Inv offered (wclose c).
Proof.
  intros HI. unfold wclose.
  destruct (c_hand c) as [[u k]|] eqn:Hh.
  - destruct HI as [del [part H]].
    assert (Hpn : part = []) by (eapply cinv_part_nil; eassumption). subst part.
    destruct H as [Hw Hs Hhd Hc Hp].
    unfold hand_units, hand_prog in *. rewrite Hh in *. rewrite app_nil_r in Hw.
    exists del, (concat (firstn k u)).
    constructor; cbn; unfold hand_units, hand_prog; cbn.
    + exact Hw.
    + cbn [app] in Hs. eapply subseq_remove_mid. exact Hs.
    + discriminate.
    + reflexivity.
    + right. split; [reflexivity|]. exists u. split.
      * eapply subseq_In; [exact Hs|]. apply in_or_app. right. left. reflexivity.
      * apply prefix_firstn_concat.
  - destruct HI as [del [part [Hw Hs Hhd Hc Hp]]].
    unfold hand_units, hand_prog in *. rewrite Hh in *.
    exists del, part. constructor; cbn; unfold hand_units, hand_prog; cbn.
    + exact Hw.
    + exact Hs.
    + discriminate.
    + reflexivity.
    + destruct Hp as [|[_ Hx]]; [left; assumption|right; split; [reflexivity|assumption]].
Qed.

Lemma Inv_enq_all us : forall eager offered c,
  Inv offered c -> Inv (offered ++ us) (fst (enq_all eager us c)).
Proof.
  induction us as [|u r IH]; intros eager offered c HI.
  - cbn. rewrite app_nil_r. assumption.
  - cbn [enq_all]. destruct (enqueue u c) as [c1 w] eqn:E1.
    assert (H1 : Inv (offered ++ [u]) c1).
    { replace c1 with (fst (enqueue u c)) by (rewrite E1; reflexivity). apply Inv_enqueue. assumption. }
    assert (H2 : Inv (offered ++ [u]) (if eager then take c1 else c1)).
    { destruct eager; [apply Inv_take|]; assumption. }
    specialize (IH eager _ _ H2).
    destruct (enq_all eager r (if eager then take c1 else c1)) as [c3 ws] eqn:E3.
    cbn [fst] in *. rewrite <- app_assoc in IH. exact IH.
Qed.

(* ---------------------------------------------------------------------- *)
(* Sessions and schedules. *)

Definition offered_units (k : kind) (bufs : list bytes) : list wunit :=
  match sess_units k bufs with Some us => us | None => [] end.

(* units of an inbound event: the reply a session of kind k would write (for
   whichever consumer the event is aimed at: an over-approximation that keeps
   [offered] independent of the consumer's index) *)
Definition in_units (k : kind) (x : inbound) : list wunit :=
  match in_reply k x with Some u => [u] | None => [] end.

Definition ev_units (k : kind) (ev : event) : list wunit :=
  match ev with
  | EvPub _ bufs => offered_units k bufs
  | EvIn _ _ x => in_units k x
  | _ => []
  end.

(* every unit the session of kind k hands to its connection during evs *)
Definition offered (k : kind) (evs : list event) : list wunit := flat_map (ev_units k) evs.

Definition srun1 (ev : event) (s : sess) : sess := fst (local ev s).

Fixpoint srun (evs : list event) (s : sess) : sess :=
  match evs with [] => s | ev :: r => srun r (srun1 ev s) end.

Lemma run_map evs : forall st, fst (run evs st) = map (srun evs) st.
Proof.
  induction evs as [|ev r IH]; intros st.
  - cbn. rewrite map_id. reflexivity.
  - cbn [run step]. specialize (IH (map (fun s => fst (local ev s)) st)).
    destruct (run r (map (fun s => fst (local ev s)) st)) as [st2 os] eqn:E.
    cbn [fst] in *. rewrite IH. rewrite map_map. reflexivity.
Qed.

Lemma sess_write_kind eager bufs s :
  s_kind (fst (sess_write eager bufs s)) = s_kind s /\ s_id (fst (sess_write eager bufs s)) = s_id s.
Proof.
  unfold sess_write, sess_write_gen. destruct (sess_units (s_kind s) bufs); [|split; reflexivity].
  destruct (enq_all eager l (s_conn s)). split; reflexivity.
Qed.

Lemma in_local_kind size x s :
  s_kind (in_local size x s) = s_kind s /\ s_id (in_local size x s) = s_id s /\
  s_stale (in_local size x s) = s_stale s /\ s_acc (in_local size x s) = s_acc s.
Proof.
  unfold in_local. destruct (c_closed (s_conn s) || negb (in_ok (s_kind s) x)); [repeat split|].
  destruct (in_reply (s_kind s) x) as [u|].
  - cbn [add_crd s_conn]. destruct (enqueue u (s_conn s)) as [c1 w]. repeat split.
  - destruct (in_ends (s_kind s)); repeat split.
Qed.

Lemma srun1_kind ev s : s_kind (srun1 ev s) = s_kind s /\ s_id (srun1 ev s) = s_id s.
Proof.
  unfold srun1. destruct ev; cbn [local fst]; try apply sess_write_kind;
    unfold on_conn; try (destruct (Nat.eqb (s_id s) i); split; reflexivity).
  - unfold sweep_one. destruct (s_stale s); split; reflexivity.
  - destruct (Nat.eqb (s_id s) i); [|split; reflexivity].
    destruct (in_local_kind size x s) as [H1 [H2 _]]. split; assumption.
Qed.

Lemma srun_kind evs : forall s, s_kind (srun evs s) = s_kind s /\ s_id (srun evs s) = s_id s.
Proof.
  induction evs as [|ev r IH]; intros s; [split; reflexivity|].
  cbn [srun]. destruct (IH (srun1 ev s)) as [H1 H2]. destruct (srun1_kind ev s) as [H3 H4].
  split; congruence.
Qed.

Lemma Inv_sess_write eager bufs s offered :
  Inv offered (s_conn s) ->
  Inv (offered ++ offered_units (s_kind s) bufs) (s_conn (fst (sess_write eager bufs s))).
Proof.
  intros HI. unfold sess_write, sess_write_gen, offered_units.
  destruct (sess_units (s_kind s) bufs) as [us|].
  - pose proof (Inv_enq_all us eager offered (s_conn s) HI) as H.
    destruct (enq_all eager us (s_conn s)) as [c ws]. exact H.
  - cbn. rewrite app_nil_r. assumption.
Qed.

Lemma Inv_on_conn (f : conn -> conn) i s offered :
  (forall c, Inv offered c -> Inv offered (f c)) ->
  Inv offered (s_conn s) -> Inv offered (s_conn (on_conn f i s)).
Proof.
  intros Hf HI. unfold on_conn. destruct (Nat.eqb (s_id s) i); [cbn; apply Hf|]; assumption.
Qed.

Lemma Inv_in_local size x s offered :
  Inv offered (s_conn s) -> Inv (offered ++ in_units (s_kind s) x) (s_conn (in_local size x s)).
Proof.
  intros HI. unfold in_local, in_units.
  destruct (c_closed (s_conn s) || negb (in_ok (s_kind s) x)); [apply Inv_weaken; assumption|].
  destruct (in_reply (s_kind s) x) as [u|].
  - cbn [add_crd s_conn]. pose proof (Inv_enqueue offered u (s_conn s) HI) as H.
    destruct (enqueue u (s_conn s)) as [c1 w]. cbn [fst s_conn] in *.
    destruct w; [assumption|apply Inv_wclose; assumption|apply Inv_wclose; assumption].
  - rewrite app_nil_r. destruct (in_ends (s_kind s)); [cbn; apply Inv_wclose|]; assumption.
Qed.

Lemma Inv_srun1 ev s offered :
  Inv offered (s_conn s) -> Inv (offered ++ ev_units (s_kind s) ev) (s_conn (srun1 ev s)).
Proof.
  intros HI. unfold srun1. destruct ev; cbn [local fst ev_units]; try rewrite app_nil_r;
    try (destruct (Nat.eqb (s_id s) i); [apply Inv_in_local|apply Inv_weaken]; assumption).
  - apply Inv_sess_write. assumption.
  - apply Inv_on_conn; [apply Inv_take|assumption].
  - apply Inv_on_conn; [apply Inv_wdone|assumption].
  - apply Inv_on_conn; [apply Inv_wfail|assumption].
  - apply Inv_on_conn; [apply Inv_wclose|assumption].
  - unfold sweep_one. destruct (s_stale s); cbn; [|assumption].
    destruct (sess_wrote s =? n); [apply Inv_wclose|]; assumption.
Qed.

Lemma Inv_srun evs : forall s offered0,
  Inv offered0 (s_conn s) -> Inv (offered0 ++ offered (s_kind s) evs) (s_conn (srun evs s)).
Proof.
  induction evs as [|ev r IH]; intros s offered0 HI.
  - cbn. rewrite app_nil_r. assumption.
  - cbn [srun offered flat_map]. rewrite app_assoc.
    destruct (srun1_kind ev s) as [Hk _]. rewrite <- Hk.
    apply IH. rewrite Hk. apply Inv_srun1. assumption.
Qed.

(* what a consumer has received after ANY schedule is a concatenation of whole
   units, in the order they were offered, plus the progress of at most one unit *)
Theorem whole_units evs id k cap :
  let s := srun evs (sess_new id k cap) in
  exists del tail,
    c_wire (s_conn s) = concat (map ubytes del) ++ tail /\
    subseq del (offered k evs) /\
    (tail = [] \/ exists u, In u (offered k evs) /\ prefix_of tail (ubytes u)) /\
    (c_hand (s_conn s) = None -> c_closed (s_conn s) = false -> tail = []).
Proof.
  intros s.
  pose proof (Inv_srun evs (sess_new id k cap) [] (Inv_new cap)) as HI.
  cbn [app sess_new s_kind] in HI. fold s in HI.
  destruct HI as [del [part [Hw Hs Hhd Hc Hp]]].
  exists del, (hand_prog (s_conn s) ++ part). repeat split.
  - exact Hw.
  - eapply subseq_app_l. exact Hs.
  - unfold hand_prog, hand_units in *. destruct (c_hand (s_conn s)) as [[u kk]|] eqn:Hh.
    + assert (part = []).
      { destruct Hp as [|[Hx _]]; [assumption|]. specialize (Hc Hx). congruence. }
      subst part. rewrite app_nil_r. right. exists u. split.
      * eapply subseq_In; [exact Hs|]. apply in_or_app. right. left. reflexivity.
      * apply prefix_firstn_concat.
    + cbn [app]. destruct Hp as [|[_ Hx]]; [left; assumption|right; assumption].
  - intros Hh Hncl. unfold hand_prog. rewrite Hh. cbn [app].
    destruct Hp as [|[Hx _]]; [assumption|congruence].
Qed.

(* ---------------------------------------------------------------------- *)
(* Framing: a stream parser that reads every unit reads the stream. *)

Section Framing.
Variable F : Type.
Variable p1 : bytes -> option (F * bytes).

Inductive parses : bytes -> list F -> Prop :=
| P_nil : parses [] []
| P_cons l x rest xs : l <> [] -> p1 l = Some (x, rest) -> parses rest xs -> parses l (x :: xs).

(* b is a self-contained piece of the stream carrying the frames fs *)
Definition unit_law (b : bytes) (fs : list F) : Prop :=
  forall r xs, parses r xs -> parses (b ++ r) (fs ++ xs).

Lemma unit_law_single b x :
  b <> [] -> (forall r, p1 (b ++ r) = Some (x, r)) -> unit_law b [x].
Proof.
  intros Hne Hp r xs Hr. cbn [app]. eapply P_cons; [|apply Hp|exact Hr].
  destruct b; [congruence|discriminate].
Qed.

Lemma unit_law_nil : unit_law [] [].
Proof. intros r xs Hr. exact Hr. Qed.

Lemma unit_law_app b1 f1 b2 f2 : unit_law b1 f1 -> unit_law b2 f2 -> unit_law (b1 ++ b2) (f1 ++ f2).
Proof.
  intros H1 H2 r xs Hr. rewrite <- !app_assoc. apply H1. apply H2. exact Hr.
Qed.

Lemma parses_units (fr : wunit -> list F) del :
  (forall u, In u del -> unit_law (ubytes u) (fr u)) ->
  parses (concat (map ubytes del)) (flat_map fr del).
Proof.
  induction del as [|u del IH]; intros H.
  - cbn. apply P_nil.
  - cbn [map concat flat_map]. apply H; [left; reflexivity|].
    apply IH. intros u' Hu'. apply H. right. assumption.
Qed.

(* the relational reading agrees with the executable reference loop as soon
   as every frame consumes at least one byte *)
Lemma parses_parse_all :
  (forall l x r, p1 l = Some (x, r) -> (length r < length l)%nat) ->
  forall l xs, parses l xs -> forall fuel, (length l <= fuel)%nat -> parse_all p1 fuel l = Some xs.
Proof.
  intros Hdec l xs H. induction H as [|l x rest xs Hne Hp Hr IH]; intros fuel Hf.
  - destruct fuel; reflexivity.
  - destruct l as [|b l']; [congruence|].
    destruct fuel as [|fuel]; [cbn in Hf; lia|].
    cbn [parse_all]. rewrite Hp. rewrite IH; [reflexivity|].
    apply Hdec in Hp. lia.
Qed.

(* for EVERY schedule: the received stream is read by the reference parser,
   frame after frame, as the frames of a sub-sequence of the offered units *)
Theorem framed_stream (fr : wunit -> list F) evs id k cap :
  (forall u, In u (offered k evs) -> unit_law (ubytes u) (fr u)) ->
  let s := srun evs (sess_new id k cap) in
  exists del tail,
    c_wire (s_conn s) = concat (map ubytes del) ++ tail /\
    subseq del (offered k evs) /\
    parses (concat (map ubytes del)) (flat_map fr del) /\
    (tail = [] \/ exists u, In u (offered k evs) /\ prefix_of tail (ubytes u)) /\
    (c_hand (s_conn s) = None -> c_closed (s_conn s) = false -> tail = []).
Proof.
  intros Hlaw s. destruct (whole_units evs id k cap) as [del [tail [Hw [Hs [Ht Hq]]]]].
  exists del, tail. repeat split; try assumption.
  apply parses_units. intros u Hu. apply Hlaw. eapply subseq_In; eassumption.
Qed.

End Framing.

Arguments parses {F} p1 _ _.
Arguments unit_law {F} p1 _ _.

(* existential variant: it is enough that every offered unit is, by itself,
   a well-framed piece of the protocol *)
Lemma parses_units_ex {F} (p1 : bytes -> option (F * bytes)) del :
  (forall u, In u del -> exists fs, unit_law p1 (ubytes u) fs) ->
  exists frames, parses p1 (concat (map ubytes del)) frames.
Proof.
  induction del as [|u del IH]; intros H.
  - exists []. apply P_nil.
  - destruct IH as [fr Hfr]; [intros u' Hu'; apply H; right; assumption|].
    destruct (H u (or_introl eq_refl)) as [fs Hfs].
    exists (fs ++ fr). cbn [map concat]. apply Hfs. exact Hfr.
Qed.

Theorem framed_stream_ex {F} (p1 : bytes -> option (F * bytes)) evs id k cap :
  (forall u, In u (offered k evs) -> exists fs, unit_law p1 (ubytes u) fs) ->
  let s := srun evs (sess_new id k cap) in
  exists del tail frames,
    c_wire (s_conn s) = concat (map ubytes del) ++ tail /\
    subseq del (offered k evs) /\
    parses p1 (concat (map ubytes del)) frames /\
    (tail = [] \/ exists u, In u (offered k evs) /\ prefix_of tail (ubytes u)) /\
    (c_hand (s_conn s) = None -> c_closed (s_conn s) = false -> tail = []).
Proof.
  intros Hlaw s. destruct (whole_units evs id k cap) as [del [tail [Hw [Hs [Ht Hq]]]]].
  destruct (parses_units_ex p1 del) as [frames Hfr].
  { intros u Hu. apply Hlaw. eapply subseq_In; eassumption. }
  exists del, tail, frames. repeat split; assumption.
Qed.

(* single-frame units with an encoder: the received frames are named *)
Lemma parses_encs {F} (p1 : bytes -> option (F * bytes)) (enc : F -> bytes) (okF : F -> Prop) :
  (forall x r, okF x -> enc x <> [] /\ p1 (enc x ++ r) = Some (x, r)) ->
  forall xs, Forall okF xs -> parses p1 (concat (map enc xs)) xs.
Proof.
  intros Hlaw xs Hok. induction Hok as [|x xs Hx Hxs IH].
  - apply P_nil.
  - cbn [map concat]. destruct (Hlaw x (concat (map enc xs)) Hx) as [Hne Hp].
    eapply P_cons; [|exact Hp|exact IH].
    destruct (enc x); [congruence|discriminate].
Qed.

Lemma decode_units {F} (enc : F -> bytes) (okF : F -> Prop) (del : list wunit) :
  (forall u, In u del -> exists x, okF x /\ ubytes u = enc x) ->
  exists xs, Forall okF xs /\ map ubytes del = map enc xs.
Proof.
  induction del as [|u del IH]; intros H.
  - exists []. split; [constructor|reflexivity].
  - destruct IH as [xs [Hok Hm]]; [intros u' Hu'; apply H; right; assumption|].
    destruct (H u (or_introl eq_refl)) as [x [Hx Hu]].
    exists (x :: xs). split; [constructor; assumption|]. cbn [map]. rewrite Hu, Hm. reflexivity.
Qed.

Theorem framed_single {F} (p1 : bytes -> option (F * bytes)) (enc : F -> bytes) (okF : F -> Prop)
    evs id k cap :
  (forall x r, okF x -> enc x <> [] /\ p1 (enc x ++ r) = Some (x, r)) ->
  (forall u, In u (offered k evs) -> exists x, okF x /\ ubytes u = enc x) ->
  let s := srun evs (sess_new id k cap) in
  exists xs tail,
    c_wire (s_conn s) = concat (map enc xs) ++ tail /\
    Forall okF xs /\
    subseq (map enc xs) (map ubytes (offered k evs)) /\
    parses p1 (concat (map enc xs)) xs /\
    (tail = [] \/ exists u, In u (offered k evs) /\ prefix_of tail (ubytes u)) /\
    (c_hand (s_conn s) = None -> c_closed (s_conn s) = false -> tail = []).
Proof.
  intros Hlaw Hdec s. destruct (whole_units evs id k cap) as [del [tail [Hw [Hs [Ht Hq]]]]].
  destruct (decode_units enc okF del) as [xs [Hok Hm]].
  { intros u Hu. apply Hdec. eapply subseq_In; eassumption. }
  exists xs, tail. repeat split; try assumption.
  - fold s in Hw. rewrite Hw, Hm. reflexivity.
  - rewrite <- Hm. apply subseq_map. assumption.
  - eapply parses_encs; eassumption.
Qed.

(* ---------------------------------------------------------------------- *)
(* What the sessions offer, in terms of the published payloads. *)

Definition pub_payloads (evs : list event) : list bytes :=
  flat_map (fun ev => match ev with EvPub _ bufs => [concat bufs] | _ => [] end) evs.

Lemma ubytes_single b : ubytes [b] = b.
Proof. unfold ubytes. cbn. apply app_nil_r. Qed.

Lemma offered_app k e1 e2 : offered k (e1 ++ e2) = offered k e1 ++ offered k e2.
Proof. unfold offered. apply flat_map_app. Qed.

(* kinds whose read loop never writes: the units are the published ones *)
Lemma in_units_http k x : k = KFlv \/ k = KTs \/ k = KWsFlv \/ k = KWsTs -> in_units k x = [].
Proof. intros [->|[->|[->| ->]]]; destruct x; reflexivity. Qed.

Lemma offered_plain k evs :
  k = KFlv \/ k = KTs -> offered k evs = map (fun b => [b]) (pub_payloads evs).
Proof.
  intros Hk. induction evs as [|ev r IH]; [reflexivity|].
  unfold offered, pub_payloads in *. cbn [flat_map]. rewrite IH. rewrite map_app. f_equal.
  destruct ev; try reflexivity.
  - destruct Hk as [-> | ->]; reflexivity.
  - cbn [ev_units]. apply in_units_http. destruct Hk; auto.
Qed.

Lemma offered_bytes_plain k evs :
  k = KFlv \/ k = KTs -> map ubytes (offered k evs) = pub_payloads evs.
Proof.
  intros Hk. induction evs as [|ev r IH]; [reflexivity|].
  unfold offered, pub_payloads in *. cbn [flat_map]. rewrite map_app. rewrite IH. f_equal.
  destruct ev; try reflexivity.
  - destruct Hk as [-> | ->]; cbn; unfold ubytes; cbn; try rewrite app_nil_r; reflexivity.
  - cbn [ev_units]. rewrite in_units_http by (destruct Hk; auto). reflexivity.
Qed.

Lemma offered_bytes_ws k evs :
  k = KWsFlv \/ k = KWsTs -> map ubytes (offered k evs) = map ws_write (pub_payloads evs).
Proof.
  intros Hk. induction evs as [|ev r IH]; [reflexivity|].
  unfold offered, pub_payloads in *. cbn [flat_map]. rewrite !map_app. rewrite IH. f_equal.
  destruct ev; try reflexivity.
  - destruct Hk as [-> | ->]; reflexivity.
  - cbn [ev_units]. rewrite in_units_http by (destruct Hk; auto). reflexivity.
Qed.

(* a unit is a published one or a reply of the read loop *)
Lemma in_offered_inv k evs u :
  In u (offered k evs) ->
  (exists eager bufs, In (EvPub eager bufs) evs /\ In u (offered_units k bufs)) \/
  (exists i size x, In (EvIn i size x) evs /\ in_reply k x = Some u).
Proof.
  unfold offered. intros H. apply in_flat_map in H. destruct H as [ev [Hev Hu]].
  destruct ev; cbn in Hu; try contradiction.
  - left. eauto.
  - right. unfold in_units in Hu. destruct (in_reply k x) as [u'|] eqn:E; [|contradiction].
    destruct Hu as [<-|[]]. eauto.
Qed.

(* the player sends no request that is answered (rtsp: no OPTIONS) *)
Definition no_replies (k : kind) (evs : list event) : Prop :=
  forall i size x, In (EvIn i size x) evs -> in_reply k x = None.

Lemma in_offered_pub k evs u : no_replies k evs ->
  In u (offered k evs) -> exists eager bufs, In (EvPub eager bufs) evs /\ In u (offered_units k bufs).
Proof.
  intros Hn Hu. destruct (in_offered_inv k evs u Hu) as [H|[i [size [x [Hin Hr]]]]]; [exact H|].
  rewrite (Hn i size x Hin) in Hr. discriminate.
Qed.

Lemma no_replies_http k evs : k = KFlv \/ k = KTs \/ k = KWsFlv \/ k = KWsTs -> no_replies k evs.
Proof. intros Hk i size x _. destruct Hk as [->|[->|[->| ->]]]; destruct x; reflexivity. Qed.

Lemma in_pub_payloads evs eager bufs : In (EvPub eager bufs) evs -> In (concat bufs) (pub_payloads evs).
Proof.
  intros H. unfold pub_payloads. apply in_flat_map. exists (EvPub eager bufs). split; [assumption|left; reflexivity].
Qed.

(* ---------------------------------------------------------------------- *)
(* Reference parsers read the units of their protocol. *)

Lemma be_put_2 v : be_put 2 v = [(v / 256) mod 256; v mod 256].
Proof. cbn. rewrite N.div_1_r. reflexivity. Qed.

Lemma rtp_parse1_pack ch raw r : ch < 256 -> lenN raw < 65536 ->
  rtp_parse1 (pack_interleaved ch raw ++ r) = Some ((ch, raw), r).
Proof.
  intros Hch Hlen. unfold pack_interleaved. rewrite be_put_2. cbn [app rtp_parse1].
  unfold u8, u16. rewrite (N.mod_small ch 256) by assumption. rewrite (N.mod_small (lenN raw) 65536) by assumption.
  replace ((lenN raw / 256) mod 256 * 256 + lenN raw mod 256) with (lenN raw) by lia.
  rewrite split_exactN_app. reflexivity.
Qed.

Lemma ws_parse1_write p r : lenN p < 9223372036854775808 -> ws_parse1 (ws_write p ++ r) = Some (p, r).
Proof.
  intros H. unfold ws_parse1. rewrite ws_parse_write by assumption. reflexivity.
Qed.

Definition ts_pkt (p : bytes) : Prop := length p = 188%nat /\ exists t, p = 71 :: t.

Lemma ts_parse1_pkt p r : ts_pkt p -> ts_parse1 (p ++ r) = Some (p, r).
Proof.
  intros [Hl [t ->]]. unfold ts_parse1. rewrite (split_exact_app_n 188 (71 :: t) r) by (symmetry; assumption).
  reflexivity.
Qed.

Lemma ts_unit_law pkts : Forall ts_pkt pkts -> unit_law ts_parse1 (concat pkts) pkts.
Proof.
  induction 1 as [|p pkts Hp Hps IH].
  - apply unit_law_nil.
  - cbn [concat]. change (p :: pkts) with ([p] ++ pkts). apply unit_law_app; [|assumption].
    apply unit_law_single.
    + destruct Hp as [_ [t ->]]. discriminate.
    + intros r. apply ts_parse1_pkt. assumption.
Qed.

(* ---------------------------------------------------------------------- *)
(* Non-interference: the events of consumer i do not touch consumer j.      *)

Definition about (i : nat) (ev : event) : bool :=
  match ev with
  | EvTake j | EvDone j | EvClose j => Nat.eqb j i
  | EvFail j _ => Nat.eqb j i
  | EvIn j _ _ => Nat.eqb j i           (* what consumer j sends is consumer j's own business too *)
  | _ => false
  end.

Lemma local_other i ev s : about i ev = true -> s_id s <> i -> local ev s = (s, 0).
Proof.
  intros Ha Hid. destruct ev; cbn in Ha; try discriminate; apply Nat.eqb_eq in Ha; subst;
    cbn [local]; unfold on_conn; destruct (Nat.eqb (s_id s) i) eqn:E; try reflexivity;
    apply Nat.eqb_eq in E; contradiction.
Qed.

Lemma srun_filter i evs : forall s, s_id s <> i ->
  srun evs s = srun (filter (fun ev => negb (about i ev)) evs) s.
Proof.
  induction evs as [|ev r IH]; intros s Hid; [reflexivity|].
  cbn [filter srun]. destruct (about i ev) eqn:Ha; cbn [negb].
  - unfold srun1. rewrite (local_other i ev s Ha Hid). cbn [fst]. apply IH. assumption.
  - cbn [srun]. apply IH. destruct (srun1_kind ev s) as [_ ->]. assumption.
Qed.

(* the results the publisher gets from its writes to one session *)
Fixpoint scodes (evs : list event) (s : sess) : list N :=
  match evs with
  | [] => []
  | ev :: r => (match ev with EvPub _ _ => [snd (local ev s)] | _ => [] end) ++ scodes r (srun1 ev s)
  end.

Lemma scodes_filter i evs : forall s, s_id s <> i ->
  scodes evs s = scodes (filter (fun ev => negb (about i ev)) evs) s.
Proof.
  induction evs as [|ev r IH]; intros s Hid; [reflexivity|].
  cbn [filter scodes]. destruct (about i ev) eqn:Ha; cbn [negb].
  - unfold srun1. rewrite (local_other i ev s Ha Hid). cbn [fst].
    destruct ev; cbn in Ha; try discriminate; cbn [app]; apply IH; assumption.
  - cbn [scodes]. f_equal. apply IH. destruct (srun1_kind ev s) as [_ ->]. assumption.
Qed.

Fixpoint pub_rows (evs : list event) (obs : list (list N)) : list (list N) :=
  match evs, obs with
  | ev :: r, o :: os => (match ev with EvPub _ _ => [o] | _ => [] end) ++ pub_rows r os
  | _, _ => []
  end.

(* column j of the publisher-side observation of a run *)
Definition pub_codes (j : nat) (evs : list event) (st : list sess) : list N :=
  map (fun row => nth j row 0) (pub_rows evs (snd (run evs st))).

Lemma nth_map_some {A} (f : A -> N) (l : list A) j a : nth_error l j = Some a -> nth j (map f l) 0 = f a.
Proof.
  revert j. induction l as [|x l IH]; intros [|j] H; cbn in *; try discriminate.
  - inversion H. reflexivity.
  - apply IH. assumption.
Qed.

Lemma pub_codes_scodes evs : forall st j s, nth_error st j = Some s -> pub_codes j evs st = scodes evs s.
Proof.
  induction evs as [|ev r IH]; intros st j s Hs; [reflexivity|].
  unfold pub_codes in *. cbn [run step].
  specialize (IH (map (fun s0 => fst (local ev s0)) st) j (srun1 ev s)).
  destruct (run r (map (fun s0 => fst (local ev s0)) st)) as [st2 os] eqn:E.
  cbn [snd pub_rows scodes] in *. rewrite map_app. rewrite IH.
  - f_equal. destruct ev; try reflexivity. cbn [map]. f_equal.
    apply (nth_map_some (fun s0 => snd (local (EvPub eager bufs) s0))). assumption.
  - unfold srun1. exact (map_nth_error (fun s0 => fst (local ev s0)) j st Hs).
Qed.

Theorem noninterference i evs evs' st j s :
  filter (fun ev => negb (about i ev)) evs = filter (fun ev => negb (about i ev)) evs' ->
  nth_error st j = Some s -> s_id s <> i ->
  nth_error (fst (run evs st)) j = nth_error (fst (run evs' st)) j /\
  pub_codes j evs st = pub_codes j evs' st.
Proof.
  intros Hf Hs Hid. split.
  - rewrite !run_map. rewrite !(map_nth_error _ _ _ Hs).
    rewrite (srun_filter i evs s Hid), (srun_filter i evs' s Hid), Hf. reflexivity.
  - rewrite !(pub_codes_scodes _ _ _ _ Hs).
    rewrite (scodes_filter i evs s Hid), (scodes_filter i evs' s Hid), Hf. reflexivity.
Qed.

(* ---------------------------------------------------------------------- *)
(* The fan-out never waits (ReturnError), and would with Block.             *)

Lemma enqueue_b_error u c : enqueue_b BehError u c = Some (enqueue u c).
Proof.
  unfold enqueue_b, enqueue. destruct (c_closed c); [reflexivity|].
  destruct (Nat.ltb (length (c_chan c)) (c_cap c)); reflexivity.
Qed.

Lemma enq_all_b_error us : forall c, enq_all_b BehError us c = Some (fst (enq_all false us c)).
Proof.
  induction us as [|u r IH]; intros c; [reflexivity|].
  cbn [enq_all_b enq_all]. rewrite enqueue_b_error. destruct (enqueue u c) as [c1 w].
  rewrite IH. destruct (enq_all false r c1). reflexivity.
Qed.

Lemma sess_write_b_error bufs s :
  sess_write_b BehError bufs s = Some (s_conn (fst (sess_write false bufs s))).
Proof.
  unfold sess_write_b, sess_write, sess_write_gen. destruct (sess_units (s_kind s) bufs) as [us|]; [|reflexivity].
  rewrite enq_all_b_error. destruct (enq_all false us (s_conn s)). reflexivity.
Qed.

Theorem fanout_never_waits bufs st :
  fanout_b BehError bufs st = Some (map (fun s => s_conn (fst (sess_write false bufs s))) st).
Proof.
  induction st as [|s r IH]; [reflexivity|].
  cbn [fanout_b map]. rewrite sess_write_b_error, IH. reflexivity.
Qed.

(* ---------------------------------------------------------------------- *)
(* Sweep. *)

Lemma wclose_closed c : c_closed (wclose c) = true.
Proof. unfold wclose. destruct (c_hand c) as [[u k]|]; reflexivity. Qed.

Lemma sweep_dispose s w0 : s_stale s = Some w0 -> sess_wrote s = w0 ->
  c_closed (s_conn (sweep_one s)) = true.
Proof.
  intros Hs Hw. unfold sweep_one. rewrite Hs. rewrite Hw. rewrite N.eqb_refl. cbn. apply wclose_closed.
Qed.

Lemma sweep_keep s w0 : s_stale s = Some w0 -> sess_wrote s <> w0 -> s_conn (sweep_one s) = s_conn s.
Proof.
  intros Hs Hw. unfold sweep_one. rewrite Hs. apply N.eqb_neq in Hw. rewrite Hw. reflexivity.
Qed.

Lemma sweep_first s : s_stale s = None -> s_conn (sweep_one s) = s_conn s.
Proof. intros Hs. unfold sweep_one. rewrite Hs. reflexivity. Qed.

Lemma sweep_stale s : s_stale (sweep_one s) = Some (sess_wrote s).
Proof. unfold sweep_one. destruct (s_stale s); reflexivity. Qed.

(* events during which consumer [id] makes no progress and is not touched *)
Definition quiet (id : nat) (ev : event) : Prop :=
  match ev with
  | EvDone j | EvClose j => j <> id
  | EvFail j _ => j <> id
  | EvSweep => False
  | _ => True
  end.

Lemma enqueue_wrote u c : c_wrote (fst (enqueue u c)) = c_wrote c.
Proof.
  unfold enqueue. destruct (c_closed c); [reflexivity|].
  destruct (Nat.ltb (length (c_chan c)) (c_cap c)); reflexivity.
Qed.

Lemma take_wrote c : c_wrote (take c) = c_wrote c.
Proof.
  unfold take. destruct (c_closed c); [reflexivity|].
  destruct (c_hand c) as [[? ?]|]; [reflexivity|]. destruct (c_chan c) as [|u r]; [reflexivity|].
  destruct u; reflexivity.
Qed.

Lemma enq_all_wrote us : forall eager c, c_wrote (fst (enq_all eager us c)) = c_wrote c.
Proof.
  induction us as [|u r IH]; intros eager c; [reflexivity|].
  cbn [enq_all]. pose proof (enqueue_wrote u c) as H1. destruct (enqueue u c) as [c1 w]. cbn [fst] in H1.
  specialize (IH eager (if eager then take c1 else c1)).
  destruct (enq_all eager r (if eager then take c1 else c1)) as [c3 ws]. cbn [fst] in *.
  rewrite IH. destruct eager; [rewrite take_wrote|]; assumption.
Qed.

(* closed is for ever *)
Lemma closed_enqueue u c : c_closed c = true -> c_closed (fst (enqueue u c)) = true.
Proof. intros H. unfold enqueue. rewrite H. exact H. Qed.

Lemma closed_take c : c_closed c = true -> c_closed (take c) = true.
Proof. intros H. unfold take. rewrite H. exact H. Qed.

Lemma closed_wdone c : c_closed c = true -> c_closed (wdone c) = true.
Proof.
  intros H. unfold wdone. destruct (c_hand c) as [[u k]|]; [|exact H].
  destruct (Nat.eqb (S k) (length u)); exact H.
Qed.

Lemma closed_wfail n c : c_closed c = true -> c_closed (wfail n c) = true.
Proof. intros H. unfold wfail. destruct (c_hand c) as [[u k]|]; [reflexivity|exact H]. Qed.

Lemma closed_enq_all us : forall eager c, c_closed c = true -> c_closed (fst (enq_all eager us c)) = true.
Proof.
  induction us as [|u r IH]; intros eager c H; [exact H|].
  cbn [enq_all]. pose proof (closed_enqueue u c H) as H1. destruct (enqueue u c) as [c1 w]. cbn [fst] in H1.
  assert (H2 : c_closed (if eager then take c1 else c1) = true) by (destruct eager; [apply closed_take|]; exact H1).
  specialize (IH eager _ H2). destruct (enq_all eager r (if eager then take c1 else c1)). exact IH.
Qed.

Lemma closed_srun1 ev s : c_closed (s_conn s) = true -> c_closed (s_conn (srun1 ev s)) = true.
Proof.
  intros H. unfold srun1. destruct ev; cbn [local fst].
  - unfold sess_write, sess_write_gen. destruct (sess_units (s_kind s) bufs) as [us|]; [|exact H].
    pose proof (closed_enq_all us eager (s_conn s) H) as H1. destruct (enq_all eager us (s_conn s)). exact H1.
  - unfold on_conn. destruct (Nat.eqb (s_id s) i); [cbn; apply closed_take|]; exact H.
  - unfold on_conn. destruct (Nat.eqb (s_id s) i); [cbn; apply closed_wdone|]; exact H.
  - unfold on_conn. destruct (Nat.eqb (s_id s) i); [cbn; apply closed_wfail|]; exact H.
  - unfold on_conn. destruct (Nat.eqb (s_id s) i); [cbn; apply wclose_closed|exact H].
  - unfold sweep_one. destruct (s_stale s); cbn; [|exact H].
    destruct (sess_wrote s =? n); [apply wclose_closed|exact H].
  - destruct (Nat.eqb (s_id s) i); [|exact H]. unfold in_local. rewrite H. exact H.
Qed.

Lemma closed_srun evs : forall s, c_closed (s_conn s) = true -> c_closed (s_conn (srun evs s)) = true.
Proof.
  induction evs as [|ev r IH]; intros s H; [exact H|]. cbn [srun]. apply IH. apply closed_srun1. exact H.
Qed.

(* what the player SENDS never counts as write progress: the read loop either
   leaves the write counter alone or ends with the connection closed *)
Lemma in_local_wrote size x s :
  c_closed (s_conn (in_local size x s)) = true \/ c_wrote (s_conn (in_local size x s)) = c_wrote (s_conn s).
Proof.
  unfold in_local. destruct (c_closed (s_conn s) || negb (in_ok (s_kind s) x)); [right; reflexivity|].
  destruct (in_reply (s_kind s) x) as [u|].
  - cbn [add_crd s_conn]. pose proof (enqueue_wrote u (s_conn s)) as H.
    destruct (enqueue u (s_conn s)) as [c1 w]. cbn [fst s_conn] in *.
    destruct w; [right; exact H|left; apply wclose_closed|left; apply wclose_closed].
  - destruct (in_ends (s_kind s)); [left; cbn; apply wclose_closed|right; reflexivity].
Qed.

(* a quiet event: the consumer ends closed, or its counters are where they were *)
Lemma quiet_step ev s : is_rtp (s_kind s) = false -> quiet (s_id s) ev ->
  s_stale (srun1 ev s) = s_stale s /\
  (c_closed (s_conn (srun1 ev s)) = true \/ sess_wrote (srun1 ev s) = sess_wrote s).
Proof.
  intros Hk Hq. unfold sess_wrote. destruct (srun1_kind ev s) as [Hk' _]. rewrite Hk', Hk.
  unfold srun1. destruct ev; cbn [local fst]; cbn in Hq.
  - unfold sess_write, sess_write_gen. destruct (sess_units (s_kind s) bufs) as [us|]; [|split; [|right]; reflexivity].
    pose proof (enq_all_wrote us eager (s_conn s)) as H. destruct (enq_all eager us (s_conn s)) as [c ws].
    cbn [fst s_conn s_stale] in *. split; [reflexivity|right; assumption].
  - unfold on_conn. destruct (Nat.eqb (s_id s) i); [|split; [|right]; reflexivity]. cbn. split; [reflexivity|right; apply take_wrote].
  - unfold on_conn. destruct (Nat.eqb (s_id s) i) eqn:E; [|split; [|right]; reflexivity]. apply Nat.eqb_eq in E. congruence.
  - unfold on_conn. destruct (Nat.eqb (s_id s) i) eqn:E; [|split; [|right]; reflexivity]. apply Nat.eqb_eq in E. congruence.
  - unfold on_conn. destruct (Nat.eqb (s_id s) i) eqn:E; [|split; [|right]; reflexivity]. apply Nat.eqb_eq in E. congruence.
  - contradiction.
  - destruct (Nat.eqb (s_id s) i); [|split; [|right]; reflexivity].
    destruct (in_local_kind size x s) as [_ [_ [H3 _]]]. split; [exact H3|apply in_local_wrote].
Qed.

Lemma quiet_run evs : forall s, is_rtp (s_kind s) = false -> Forall (quiet (s_id s)) evs ->
  s_stale (srun evs s) = s_stale s /\
  (c_closed (s_conn (srun evs s)) = true \/ sess_wrote (srun evs s) = sess_wrote s).
Proof.
  induction evs as [|ev r IH]; intros s Hk Hq; [split; [|right]; reflexivity|].
  inversion Hq as [|? ? Hq1 Hq2]; subst. cbn [srun].
  destruct (quiet_step ev s Hk Hq1) as [H1 H2]. destruct (srun1_kind ev s) as [Hk' Hid'].
  destruct (IH (srun1 ev s)) as [H3 H4]; [congruence|rewrite Hid'; assumption|].
  split; [congruence|].
  destruct H2 as [H2|H2]; [left; apply closed_srun; exact H2|].
  destruct H4 as [H4|H4]; [left; exact H4|right; congruence].
Qed.

(* a consumer (byte-counter kinds) that completes no write between two sweeps
   is disposed by the second one at the latest, whatever was published meanwhile
   and whatever the consumer itself SENT meanwhile (acks, pings, WebSocket
   frames: the sweep looks at the write counter only) *)
Theorem sweep_stalled evs s :
  is_rtp (s_kind s) = false -> Forall (quiet (s_id s)) evs ->
  c_closed (s_conn (sweep_one (srun evs (sweep_one s)))) = true.
Proof.
  intros Hk Hq.
  assert (Hk1 : s_kind (sweep_one s) = s_kind s) by (unfold sweep_one; destruct (s_stale s); reflexivity).
  assert (Hid1 : s_id (sweep_one s) = s_id s) by (unfold sweep_one; destruct (s_stale s); reflexivity).
  change (sweep_one (srun evs (sweep_one s))) with (srun1 EvSweep (srun evs (sweep_one s))).
  destruct (c_closed (s_conn (sweep_one s))) eqn:Hcl.
  - (* the first sweep already disposed it *)
    apply closed_srun1. apply closed_srun. exact Hcl.
  - assert (Hc1 : s_conn (sweep_one s) = s_conn s).
    { unfold sweep_one in *. destruct (s_stale s) as [w0|]; cbn in *; [|reflexivity].
      destruct (sess_wrote s =? w0); [|reflexivity]. rewrite wclose_closed in Hcl. discriminate. }
    destruct (quiet_run evs (sweep_one s)) as [H2 [H1|H1]]; [congruence|rewrite Hid1; assumption| |].
    + apply closed_srun1. exact H1.
    + eapply sweep_dispose.
      * rewrite H2. apply sweep_stale.
      * rewrite H1. unfold sess_wrote. rewrite Hk1, Hc1, Hk. reflexivity.
Qed.

(* progress keeps a consumer: the byte counter never decreases, grows with
   every completed non-empty message, and a grown counter means "alive" *)
Lemma wdone_wrote c : c_wrote c <= c_wrote (wdone c).
Proof.
  unfold wdone. destruct (c_hand c) as [[u k]|]; [|lia].
  destruct (Nat.eqb (S k) (length u)); cbn; lia.
Qed.

Lemma wdone_progress c u k : c_hand c = Some (u, k) -> S k = length u -> concat u <> [] ->
  c_wrote c < c_wrote (wdone c).
Proof.
  intros Hh Hk Hne. unfold wdone. rewrite Hh. rewrite Hk, Nat.eqb_refl. cbn.
  unfold lenN. destruct (concat u); [congruence|cbn [length]; lia].
Qed.

Lemma wfail_wrote n c : c_wrote c <= c_wrote (wfail n c).
Proof. unfold wfail. destruct (c_hand c) as [[u k]|]; cbn; lia. Qed.

Lemma wclose_wrote c : c_wrote c <= c_wrote (wclose c).
Proof. unfold wclose. destruct (c_hand c) as [[u k]|]; cbn; lia. Qed.

Definition not_sweep (ev : event) : Prop := match ev with EvSweep => False | _ => True end.

Lemma in_local_wrote_mono size x s : c_wrote (s_conn s) <= c_wrote (s_conn (in_local size x s)).
Proof.
  unfold in_local. destruct (c_closed (s_conn s) || negb (in_ok (s_kind s) x)); [lia|].
  destruct (in_reply (s_kind s) x) as [u|].
  - cbn [add_crd s_conn]. pose proof (enqueue_wrote u (s_conn s)) as H.
    destruct (enqueue u (s_conn s)) as [c1 w]. cbn [fst s_conn] in *.
    destruct w; [lia|pose proof (wclose_wrote c1); lia|pose proof (wclose_wrote c1); lia].
  - destruct (in_ends (s_kind s)); cbn; [pose proof (wclose_wrote (s_conn s))|]; lia.
Qed.

Lemma step_wrote_mono ev s : not_sweep ev ->
  c_wrote (s_conn s) <= c_wrote (s_conn (srun1 ev s)) /\ s_stale (srun1 ev s) = s_stale s.
Proof.
  intros Hn. unfold srun1. destruct ev; cbn [local fst]; cbn in Hn; try contradiction.
  - unfold sess_write, sess_write_gen. destruct (sess_units (s_kind s) bufs) as [us|]; [|cbn; split; [lia|reflexivity]].
    pose proof (enq_all_wrote us eager (s_conn s)) as H. destruct (enq_all eager us (s_conn s)) as [c ws].
    cbn [fst s_conn s_stale] in *. split; [lia|reflexivity].
  - unfold on_conn. destruct (Nat.eqb (s_id s) i).
    + cbn. rewrite take_wrote. split; [lia|reflexivity].
    + split; [lia|reflexivity].
  - unfold on_conn. destruct (Nat.eqb (s_id s) i).
    + cbn. split; [apply wdone_wrote|reflexivity].
    + split; [lia|reflexivity].
  - unfold on_conn. destruct (Nat.eqb (s_id s) i).
    + cbn. split; [apply wfail_wrote|reflexivity].
    + split; [lia|reflexivity].
  - unfold on_conn. destruct (Nat.eqb (s_id s) i).
    + cbn. split; [apply wclose_wrote|reflexivity].
    + split; [lia|reflexivity].
  - destruct (Nat.eqb (s_id s) i); [|split; [lia|reflexivity]].
    destruct (in_local_kind size x s) as [_ [_ [H3 _]]]. split; [apply in_local_wrote_mono|exact H3].
Qed.

Lemma run_wrote_mono evs : forall s, Forall not_sweep evs ->
  c_wrote (s_conn s) <= c_wrote (s_conn (srun evs s)) /\ s_stale (srun evs s) = s_stale s.
Proof.
  induction evs as [|ev r IH]; intros s Hn; [cbn; split; [lia|reflexivity]|].
  inversion Hn as [|? ? Hn1 Hn2]; subst. cbn [srun].
  destruct (step_wrote_mono ev s Hn1) as [H1 H2]. destruct (IH (srun1 ev s) Hn2) as [H3 H4].
  split; [lia|congruence].
Qed.

(* byte-counter kinds: once a non-empty message has been completed after a
   sweep, the next sweep keeps the session, whatever else happens in between *)
Theorem sweep_progress evs s u k :
  is_rtp (s_kind s) = false ->
  s_stale s = Some (c_wrote (s_conn s)) ->
  c_hand (s_conn s) = Some (u, k) -> S k = length u -> concat u <> [] ->
  Forall not_sweep evs ->
  let s1 := srun evs (on_conn wdone (s_id s) s) in
  s_conn (sweep_one s1) = s_conn s1.
Proof.
  intros Hk Hst Hh Hlast Hne Hn s1.
  assert (Hd : c_wrote (s_conn s) < c_wrote (s_conn (on_conn wdone (s_id s) s))).
  { unfold on_conn. rewrite Nat.eqb_refl. cbn. eapply wdone_progress; eassumption. }
  assert (Hs0 : s_stale (on_conn wdone (s_id s) s) = s_stale s).
  { unfold on_conn. rewrite Nat.eqb_refl. reflexivity. }
  assert (Hk0 : s_kind (on_conn wdone (s_id s) s) = s_kind s).
  { unfold on_conn. rewrite Nat.eqb_refl. reflexivity. }
  destruct (run_wrote_mono evs (on_conn wdone (s_id s) s) Hn) as [H1 H2]. fold s1 in H1, H2.
  eapply sweep_keep.
  - rewrite H2, Hs0. exact Hst.
  - unfold sess_wrote. destruct (srun_kind evs (on_conn wdone (s_id s) s)) as [Hk1 _]. fold s1 in Hk1.
    rewrite Hk1, Hk0, Hk. lia.
Qed.

(* ---------------------------------------------------------------------- *)
(* The system state of a run is the per-session run. *)

Fixpoint init_from (i : nat) (specs : list (kind * nat)) : list sess :=
  match specs with
  | [] => []
  | (k, cap) :: r => sess_new i k cap :: init_from (S i) r
  end.
Definition init_state (specs : list (kind * nat)) : list sess := init_from 0 specs.

Lemma init_from_nth specs : forall i j k cap, nth_error specs j = Some (k, cap) ->
  nth_error (init_from i specs) j = Some (sess_new (i + j) k cap).
Proof.
  induction specs as [|[k0 c0] r IH]; intros i j k cap H; [destruct j; discriminate|].
  destruct j as [|j]; cbn in *.
  - inversion H; subst. rewrite Nat.add_0_r. reflexivity.
  - rewrite (IH (S i) j k cap H). f_equal. f_equal. lia.
Qed.

Lemma run_session specs evs j k cap : nth_error specs j = Some (k, cap) ->
  nth_error (fst (run evs (init_state specs))) j = Some (srun evs (sess_new j k cap)).
Proof.
  intros H. rewrite run_map. unfold init_state.
  exact (map_nth_error (srun evs) j (init_from 0 specs) (init_from_nth specs 0 j k cap H)).
Qed.

(* ---------------------------------------------------------------------- *)
(* Witnesses. *)

(* F-25 as it was: two units per WebSocket write.  Capacity 2, consumer
   stalled: the writer holds header A, the queue holds [body A; header B],
   body B is rejected; when the consumer resumes it receives a frame header
   that announces 2 bytes and then nothing. *)
Definition f25_conn : conn :=
  let us := map (fun x => [x]) (ws_split_units [1; 2]) ++ map (fun x => [x]) (ws_split_units [3; 4]) in
  let c := fst (enq_all true us (conn_new 2)) in
  drain_conn (drain_conn_fuel c) c.

Lemma ws_split_refuted :
  c_wire f25_conn = [130; 2; 1; 2; 130; 2] /\
  ws_parse_all 10 (c_wire f25_conn) = None /\
  parse_all ws_parse1 10 (c_wire f25_conn) = None.
Proof. vm_compute. repeat split. Qed.

(* with WriteChanFullBehaviorBlock the fan-out waits for the slowest consumer *)
Lemma block_would_wait :
  exists bufs st, fanout_b BehBlock bufs st = None /\ fanout_b BehError bufs st <> None.
Proof.
  exists [[9]], [mk_sess 0 KFlv (mk_conn 1 [[[7]]] (Some ([[8]], O)) false [] 0) None 0 [] 0 0 0].
  split; [reflexivity|discriminate].
Qed.

(* ---------------------------------------------------------------------- *)
(* Protocol instances (per-session form; Properties/C15.v restates them on
   the system run). *)

Definition tail_ok (k : kind) (evs : list event) (s : sess) (tail : bytes) : Prop :=
  (tail = [] \/ exists u, In u (offered k evs) /\ prefix_of tail (ubytes u)) /\
  (c_hand (s_conn s) = None -> c_closed (s_conn s) = false -> tail = []).

Lemma in_offered_plain k evs u :
  k = KFlv \/ k = KTs -> In u (offered k evs) -> exists b, In b (pub_payloads evs) /\ u = [b].
Proof.
  intros Hk Hu. rewrite (offered_plain k evs Hk) in Hu. apply in_map_iff in Hu.
  destruct Hu as [b [<- Hb]]. eauto.
Qed.

Theorem flv_stream evs id cap :
  (forall b, In b (pub_payloads evs) -> exists t, spec_tag_wf t /\ b = pack_spec_tag t) ->
  let s := srun evs (sess_new id KFlv cap) in
  exists tags tail,
    c_wire (s_conn s) = concat (map pack_spec_tag tags) ++ tail /\
    Forall spec_tag_wf tags /\
    subseq (map pack_spec_tag tags) (pub_payloads evs) /\
    parses flv_parse1 (concat (map pack_spec_tag tags)) tags /\
    tail_ok KFlv evs s tail.
Proof.
  intros Hpay s.
  destruct (framed_single flv_parse1 pack_spec_tag spec_tag_wf evs id KFlv cap) as [xs [tail H]].
  - intros [[t ts] p] r Hwf. split.
    + cbn. discriminate.
    + apply spec_parse_tag_pack. exact Hwf.
  - intros u Hu. destruct (in_offered_plain KFlv evs u) as [b [Hb ->]]; [auto|assumption|].
    destruct (Hpay b Hb) as [t [Hwf ->]]. exists t. split; [assumption|apply ubytes_single].
  - destruct H as [Hw [Hok [Hs [Hp [Ht Hq]]]]].
    rewrite (offered_bytes_plain KFlv evs) in Hs by auto.
    exists xs, tail. repeat split; assumption.
Qed.

(* a packet on the wire is a published packet of a track that has an
   interleaved channel, on the channel of that track *)
Definition rtp_on_wire (su : setup) (evs : list event) (x : N * bytes) : Prop :=
  (fst x = 0 /\ su_vtcp su = true \/ fst x = 2 /\ su_atcp su = true) /\ In (snd x) (pub_payloads evs).

Lemma rtp_track_chan su b t : rtp_track b = Some t -> su_tcp su t = true ->
  track_chan t = 0 /\ su_vtcp su = true \/ track_chan t = 2 /\ su_atcp su = true.
Proof. intros _ Hs. destruct t; cbn in *; auto. Qed.

Theorem rtp_stream evs id su cap :
  no_replies (KRtp su) evs ->
  (forall b, In b (pub_payloads evs) -> lenN b < 65536) ->
  let s := srun evs (sess_new id (KRtp su) cap) in
  exists pkts tail,
    c_wire (s_conn s) = concat (map (fun x => pack_interleaved (fst x) (snd x)) pkts) ++ tail /\
    Forall (rtp_on_wire su evs) pkts /\
    parses rtp_parse1 (concat (map (fun x => pack_interleaved (fst x) (snd x)) pkts)) pkts /\
    tail_ok (KRtp su) evs s tail.
Proof.
  intros Hnr Hpay s.
  destruct (framed_single rtp_parse1 (fun x => pack_interleaved (fst x) (snd x))
              (rtp_on_wire su evs) evs id (KRtp su) cap)
    as [xs [tail H]].
  - intros [ch raw] r [Hch Hin]. cbn [fst snd] in *. split.
    + unfold pack_interleaved. cbn. discriminate.
    + apply rtp_parse1_pack; [destruct Hch as [[-> _]|[-> _]]; lia|apply Hpay; assumption].
  - intros u Hu. apply (in_offered_pub _ _ _ Hnr) in Hu. destruct Hu as [eager [bufs [Hev Hu]]].
    unfold offered_units in Hu. cbn [sess_units] in Hu.
    destruct (rtp_track (concat bufs)) as [t|] eqn:Hr; [|contradiction].
    destruct (su_tcp su t) eqn:Hs; [|contradiction].
    destruct Hu as [<-|[]]. exists (track_chan t, concat bufs). unfold rtp_on_wire. cbn [fst snd]. repeat split.
    + eapply rtp_track_chan; eassumption.
    + eapply in_pub_payloads. eassumption.
    + apply ubytes_single.
  - destruct H as [Hw [Hok [Hs [Hp [Ht Hq]]]]].
    exists xs, tail. repeat split; assumption.
Qed.

(* WebSocket kinds: every unit is one complete binary frame *)
Theorem ws_stream evs id k cap :
  (forall u, In u (offered k evs) -> exists p, lenN p < 9223372036854775808 /\ ubytes u = ws_write p) ->
  let s := srun evs (sess_new id k cap) in
  exists payloads tail,
    c_wire (s_conn s) = concat (map ws_write payloads) ++ tail /\
    subseq (map ws_write payloads) (map ubytes (offered k evs)) /\
    parses ws_parse1 (concat (map ws_write payloads)) payloads /\
    tail_ok k evs s tail.
Proof.
  intros Hu s.
  destruct (framed_single ws_parse1 ws_write (fun p => lenN p < 9223372036854775808) evs id k cap)
    as [xs [tail H]].
  - intros p r Hp. split.
    + destruct (ws_write_nonempty p) as [b [l ->]]. discriminate.
    + apply ws_parse1_write. assumption.
  - exact Hu.
  - destruct H as [Hw [Hok [Hs [Hp [Ht Hq]]]]]. exists xs, tail. repeat split; assumption.
Qed.

Lemma ws_units_flv_ts k evs :
  k = KWsFlv \/ k = KWsTs ->
  (forall b, In b (pub_payloads evs) -> lenN b < 9223372036854775808) ->
  forall u, In u (offered k evs) -> exists p, lenN p < 9223372036854775808 /\ ubytes u = ws_write p.
Proof.
  intros Hk Hpay u Hu.
  apply (in_offered_pub k evs u) in Hu; [|apply no_replies_http; destruct Hk; auto].
  destruct Hu as [eager [bufs [Hev Hu]]].
  exists (concat bufs). split; [apply Hpay; eapply in_pub_payloads; eassumption|].
  unfold offered_units in Hu. destruct Hk as [-> | ->]; cbn in Hu; destruct Hu as [<-|[]]; reflexivity.
Qed.

Lemma pack_interleaved_len ch b : lenN (pack_interleaved ch b) = 4 + lenN b.
Proof. unfold pack_interleaved, lenN. rewrite !app_length, be_put_length. cbn [length]. lia. Qed.

(* rtsp over WebSocket: media packets AND the replies to OPTIONS keep-alives are
   complete frames (F-35: the replies were a header write and a body write) *)
Lemma ws_units_rtp su evs :
  (forall b, In b (pub_payloads evs) -> lenN b < 65536) ->
  (forall i size resp, In (EvIn i size (InOptions resp)) evs -> lenN resp < 9223372036854775808) ->
  forall u, In u (offered (KWsRtp su) evs) -> exists p, lenN p < 9223372036854775808 /\ ubytes u = ws_write p.
Proof.
  intros Hpay Hresp u Hu. apply in_offered_inv in Hu.
  destruct Hu as [[eager [bufs [Hev Hu]]]|[i [size [x [Hin Hr]]]]].
  2:{ destruct x; cbn [in_reply] in Hr; try discriminate. inversion Hr; subst.
      exists resp. split; [eapply Hresp; eassumption|]. unfold ubytes. cbn [concat]. apply app_nil_r. }
  unfold offered_units in Hu. cbn [sess_units] in Hu.
  destruct (rtp_track (concat bufs)) as [t|]; [|contradiction].
  destruct (su_tcp su t); [|contradiction].
  cbn in Hu. destruct Hu as [<-|[]].
  exists (pack_interleaved (track_chan t) (concat bufs)). split; [|reflexivity].
  rewrite pack_interleaved_len. pose proof (Hpay _ (in_pub_payloads _ _ _ Hev)). lia.
Qed.

Theorem ts_stream evs id cap :
  (forall b, In b (pub_payloads evs) -> exists pkts, Forall ts_pkt pkts /\ b = concat pkts) ->
  let s := srun evs (sess_new id KTs cap) in
  exists whole tail frames,
    c_wire (s_conn s) = concat whole ++ tail /\
    subseq whole (pub_payloads evs) /\
    parses ts_parse1 (concat whole) frames /\
    tail_ok KTs evs s tail.
Proof.
  intros Hpay s.
  destruct (framed_stream_ex ts_parse1 evs id KTs cap) as [del [tail [frames H]]].
  - intros u Hu. destruct (in_offered_plain KTs evs u) as [b [Hb ->]]; [auto|assumption|].
    destruct (Hpay b Hb) as [pkts [Hp ->]]. exists pkts. rewrite ubytes_single. apply ts_unit_law. assumption.
  - destruct H as [Hw [Hs [Hp [Ht Hq]]]].
    exists (map ubytes del), tail, frames. repeat split; try assumption.
    rewrite <- (offered_bytes_plain KTs evs) by auto. apply subseq_map. assumption.
Qed.

(* RTMP (Write and Writev): for ANY message-stream reader p1 that reads every
   published unit as a self-contained piece (lal's chunks of whole messages
   start with a type-0 header, C08), the received stream is read completely *)
(* rtmp: a unit is a published one or a ping response of the read loop *)
Lemma in_offered_rtmp k evs u : k = KRtmp \/ k = KRtmpV -> In u (offered k evs) ->
  (exists b, In b (pub_payloads evs) /\ ubytes u = b) \/ (exists ts, ubytes u = rtmp_pong ts).
Proof.
  intros Hk Hu. apply in_offered_inv in Hu.
  destruct Hu as [[eager [bufs [Hev Hu]]]|[i [size [x [Hin Hr]]]]].
  - left. exists (concat bufs). split; [eapply in_pub_payloads; eassumption|].
    unfold offered_units in Hu. destruct Hk as [-> | ->]; cbn in Hu; destruct Hu as [<-|[]];
      unfold ubytes; cbn; try rewrite app_nil_r; reflexivity.
  - right. destruct Hk as [-> | ->]; destruct x; cbn in Hr; try discriminate; inversion Hr; subst;
      exists ts; unfold ubytes; cbn [concat]; apply app_nil_r.
Qed.

Theorem rtmp_stream {F} (p1 : bytes -> option (F * bytes)) evs id k cap :
  k = KRtmp \/ k = KRtmpV ->
  (forall b, In b (pub_payloads evs) -> exists fs, unit_law p1 b fs) ->
  (forall ts, exists fs, unit_law p1 (rtmp_pong ts) fs) ->
  let s := srun evs (sess_new id k cap) in
  exists whole tail frames,
    c_wire (s_conn s) = concat whole ++ tail /\
    subseq whole (map ubytes (offered k evs)) /\
    parses p1 (concat whole) frames /\
    tail_ok k evs s tail.
Proof.
  intros Hk Hpay Hpong s.
  destruct (framed_stream_ex p1 evs id k cap) as [del [tail [frames H]]].
  - intros u Hu. destruct (in_offered_rtmp k evs u Hk Hu) as [[b [Hb ->]]|[ts ->]]; [apply Hpay; exact Hb|apply Hpong].
  - destruct H as [Hw [Hs [Hp [Ht Hq]]]].
    exists (map ubytes del), tail, frames. repeat split; try assumption.
    apply subseq_map. assumption.
Qed.
