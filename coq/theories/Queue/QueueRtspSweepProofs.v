(* C15 - the liveness sweep for rtsp subscribers, for every set-up state.
   The sweep compares the session's OWN byte counter (BaseOutSession:
   sessionStat.AddWriteBytes), not the connection's.  F-34: the counter was
   increased for packets of a track that was never SETUP (no write made, err
   still nil), so a stalled interleaved player with one of two tracks set up
   stayed "alive" for ever.  [sess_write] is the repaired accounting,
   [sess_write_pinned] the one of the pinned tree. *)
From Coq Require Import Lia ZifyN ZifyNat ZifyBool.
From Lal Require Import Common.LBytes Common.LBytesProofs Flv.FlvTag Flv.FlvWs
  Queue.QueueSubseq Queue.QueueWrite Queue.QueueWriteProofs.
Ltac Zify.zify_post_hook ::= Z.div_mod_to_equations.
Open Scope N_scope.

(* the consumer does not read: the writer goroutine is parked in conn.Write
   with a message in its hand and the queue is full - or the connection is
   closed already *)
Definition jammed (c : conn) : Prop :=
  c_closed c = true \/ (c_hand c <> None /\ (c_cap c <= length (c_chan c))%nat).

Lemma jammed_enqueue u c : jammed c -> fst (enqueue u c) = c /\ snd (enqueue u c) <> WOk.
Proof.
  intros [Hc|[Hh Hq]]; unfold enqueue.
  - rewrite Hc. split; [reflexivity|discriminate].
  - destruct (c_closed c); [split; [reflexivity|discriminate]|].
    replace (Nat.ltb (length (c_chan c)) (c_cap c)) with false by (symmetry; apply Nat.ltb_ge; exact Hq).
    split; [reflexivity|discriminate].
Qed.

Lemma jammed_take c : jammed c -> take c = c.
Proof.
  intros [Hc|[Hh Hq]]; unfold take.
  - rewrite Hc. reflexivity.
  - destruct (c_closed c); [reflexivity|]. destruct (c_hand c) as [[u k]|]; [reflexivity|congruence].
Qed.

Lemma jammed_enq_all us : forall eager c, jammed c ->
  fst (enq_all eager us c) = c /\ Forall (fun w => w <> WOk) (snd (enq_all eager us c)).
Proof.
  induction us as [|u r IH]; intros eager c Hj; [split; [reflexivity|constructor]|].
  cbn [enq_all]. destruct (jammed_enqueue u c Hj) as [H1 H2].
  destruct (enqueue u c) as [c1 w]. cbn [fst snd] in H1, H2. subst c1.
  replace (if eager then take c else c) with c by (destruct eager; [rewrite jammed_take by exact Hj|]; reflexivity).
  destruct (IH eager c Hj) as [H3 H4]. destruct (enq_all eager r c) as [c3 ws]. cbn [fst snd] in *.
  split; [assumption|constructor; assumption].
Qed.

Lemma enq_all_len us : forall eager c, length (snd (enq_all eager us c)) = length us.
Proof.
  induction us as [|u r IH]; intros eager c; [reflexivity|].
  cbn [enq_all]. destruct (enqueue u c) as [c1 w].
  specialize (IH eager (if eager then take c1 else c1)).
  destruct (enq_all eager r (if eager then take c1 else c1)) as [c3 ws]. cbn [snd length] in *. congruence.
Qed.

Lemma last_res_not_ok ws : forall d, ws <> [] -> Forall (fun w => w <> WOk) ws -> last_res d ws <> WOk.
Proof.
  induction ws as [|w r IH]; intros d Hne Hall; [congruence|].
  inversion Hall as [|? ? Hw Hr]; subst. cbn [last_res].
  destruct r as [|w' r']; [exact Hw|]. apply IH; [discriminate|assumption].
Qed.

Lemma jammed_wclose c : jammed (wclose c).
Proof. left. apply wclose_closed. Qed.

(* what a session write leaves alone *)
Lemma sess_write_gen_stale counts eager bufs s :
  s_stale (fst (sess_write_gen counts eager bufs s)) = s_stale s.
Proof.
  unfold sess_write_gen. destruct (sess_units (s_kind s) bufs) as [us|]; [|reflexivity].
  destruct (enq_all eager us (s_conn s)). reflexivity.
Qed.

(* the units of an rtsp session write: none for a track without an
   interleaved channel, one otherwise *)
Lemma rtp_units k bufs us t : is_rtp k = true -> sess_units k bufs = Some us ->
  rtp_track (concat bufs) = Some t ->
  (su_tcp (kind_setup k) t = false /\ us = []) \/ (su_tcp (kind_setup k) t = true /\ exists u, us = [u]).
Proof.
  intros Hk Hu Ht. destruct k; try discriminate; cbn [sess_units kind_setup] in *; rewrite Ht in Hu;
    destruct (su_tcp su t); inversion Hu; subst; [right|left|right|left]; split; try reflexivity; eexists; reflexivity.
Qed.

Lemma rtp_units_track k bufs us : is_rtp k = true -> sess_units k bufs = Some us ->
  exists t, rtp_track (concat bufs) = Some t.
Proof.
  intros Hk Hu. destruct k; try discriminate; cbn [sess_units] in Hu;
    destruct (rtp_track (concat bufs)) as [t|]; try discriminate; eexists; reflexivity.
Qed.

(* a jammed interleaved-only consumer: a publish changes neither connection
   nor counter, whatever track the packet belongs to *)
Lemma jammed_pub eager bufs s :
  is_rtp (s_kind s) = true -> su_no_udp (kind_setup (s_kind s)) = true -> jammed (s_conn s) ->
  let s' := fst (sess_write eager bufs s) in
  s_conn s' = s_conn s /\ s_acc s' = s_acc s /\ s_stale s' = s_stale s.
Proof.
  intros Hk Hnu Hj. cbv zeta. unfold sess_write, sess_write_gen.
  destruct (sess_units (s_kind s) bufs) as [us|] eqn:Hu; [|repeat split].
  destruct (rtp_units_track _ _ _ Hk Hu) as [t Ht].
  destruct (jammed_enq_all us eager (s_conn s) Hj) as [H1 H2].
  pose proof (enq_all_len us eager (s_conn s)) as Hlen.
  destruct (enq_all eager us (s_conn s)) as [c ws]. cbn [fst snd] in *. subst c.
  rewrite Hk, Ht. cbn [s_conn s_acc s_stale]. repeat split.
  unfold rtp_counts, rtp_counts_pinned, rtp_err, rtp_handed.
  assert (Hudp : su_udp (kind_setup (s_kind s)) t = false).
  { unfold su_no_udp in Hnu. destruct t; cbn; destruct (su_vudp _), (su_audp _); cbn in Hnu; congruence. }
  rewrite Hudp. cbn [orb].
  destruct (rtp_units _ _ _ _ Hk Hu Ht) as [[Hs ->]|[Hs [u ->]]]; rewrite Hs; [reflexivity|].
  cbn [andb]. destruct ws as [|w ws'].
  - (* one unit, one result *) discriminate Hlen.
  - destruct (last_res WOk (w :: ws')) eqn:E; try reflexivity.
    exfalso. apply (last_res_not_ok (w :: ws') WOk); [discriminate|assumption|assumption].
Qed.

(* ---------------------------------------------------------------------- *)
(* stalled: nothing consumer [id] does between the two sweeps (quiet) *)

(* what a jammed consumer SENDS: the read loop's reply (OPTIONS) is rejected by
   the full queue, which ends the loop with the connection closed; everything
   else is read and logged.  Still jammed, write counter untouched. *)
Lemma jammed_in_local size x s : jammed (s_conn s) -> jammed (s_conn (in_local size x s)).
Proof.
  intros Hj. unfold in_local. destruct (c_closed (s_conn s) || negb (in_ok (s_kind s) x)); [exact Hj|].
  destruct (in_reply (s_kind s) x) as [u|].
  - cbn [add_crd s_conn]. destruct (jammed_enqueue u (s_conn s) Hj) as [H1 H2].
    destruct (enqueue u (s_conn s)) as [c1 w]. cbn [fst snd s_conn] in *. subst c1.
    destruct w; [congruence|apply jammed_wclose|apply jammed_wclose].
  - destruct (in_ends (s_kind s)); [cbn; apply jammed_wclose|exact Hj].
Qed.

Lemma jammed_quiet_step ev s :
  is_rtp (s_kind s) = true -> su_no_udp (kind_setup (s_kind s)) = true -> jammed (s_conn s) ->
  quiet (s_id s) ev ->
  jammed (s_conn (srun1 ev s)) /\ s_acc (srun1 ev s) = s_acc s /\ s_stale (srun1 ev s) = s_stale s.
Proof.
  intros Hk Hnu Hj Hq. unfold srun1. destruct ev; cbn [local fst]; cbn in Hq.
  - destruct (jammed_pub eager bufs s Hk Hnu Hj) as [H1 [H2 H3]]. rewrite H1. repeat split; assumption.
  - unfold on_conn. destruct (Nat.eqb (s_id s) i); [|repeat split; assumption]. cbn. rewrite jammed_take by exact Hj. repeat split; assumption.
  - unfold on_conn. destruct (Nat.eqb (s_id s) i) eqn:E; [|repeat split; assumption]. apply Nat.eqb_eq in E. congruence.
  - unfold on_conn. destruct (Nat.eqb (s_id s) i) eqn:E; [|repeat split; assumption]. apply Nat.eqb_eq in E. congruence.
  - unfold on_conn. destruct (Nat.eqb (s_id s) i) eqn:E; [|repeat split; assumption]. apply Nat.eqb_eq in E. congruence.
  - contradiction.
  - destruct (Nat.eqb (s_id s) i); [|repeat split; assumption].
    destruct (in_local_kind size x s) as [_ [_ [H3 H4]]]. repeat split; [apply jammed_in_local|..]; assumption.
Qed.

Lemma jammed_quiet_run evs : forall s,
  is_rtp (s_kind s) = true -> su_no_udp (kind_setup (s_kind s)) = true -> jammed (s_conn s) ->
  Forall (quiet (s_id s)) evs ->
  jammed (s_conn (srun evs s)) /\ s_acc (srun evs s) = s_acc s /\ s_stale (srun evs s) = s_stale s.
Proof.
  induction evs as [|ev r IH]; intros s Hk Hnu Hj Hq; [repeat split; assumption|].
  inversion Hq as [|? ? Hq1 Hq2]; subst. cbn [srun].
  destruct (jammed_quiet_step ev s Hk Hnu Hj Hq1) as [H1 [H2 H3]].
  destruct (srun1_kind ev s) as [Hk' Hid'].
  destruct (IH (srun1 ev s)) as [H4 [H5 H6]]; try (rewrite ?Hk', ?Hid'; assumption).
  repeat split; [assumption|congruence|congruence].
Qed.

Lemma sweep_one_kind s : s_kind (sweep_one s) = s_kind s /\ s_id (sweep_one s) = s_id s /\ s_acc (sweep_one s) = s_acc s.
Proof. unfold sweep_one. destruct (s_stale s); repeat split. Qed.

Lemma sweep_one_jammed s : jammed (s_conn s) -> jammed (s_conn (sweep_one s)).
Proof.
  intros Hj. unfold sweep_one. destruct (s_stale s) as [w0|]; cbn [s_conn]; [|exact Hj].
  destruct (sess_wrote s =? w0); [apply jammed_wclose|exact Hj].
Qed.

Lemma sess_wrote_rtp s : is_rtp (s_kind s) = true -> sess_wrote s = s_acc s.
Proof. intros Hk. unfold sess_wrote. rewrite Hk. reflexivity. Qed.

(* An rtsp subscriber (plain or WebSocket) whose tracks - both, one, or none -
   are interleaved on the command connection, that does not read (its queue is
   full at the first sweep): closed after the next sweep, whatever is
   published to it - packets of its set-up tracks (rejected) or of the track
   it never set up - and whatever the other consumers do. *)
Theorem sweep_stalled_rtp evs s :
  is_rtp (s_kind s) = true -> su_no_udp (kind_setup (s_kind s)) = true -> jammed (s_conn s) ->
  Forall (quiet (s_id s)) evs ->
  c_closed (s_conn (sweep_one (srun evs (sweep_one s)))) = true.
Proof.
  intros Hk Hnu Hj Hq.
  destruct (sweep_one_kind s) as [Hk1 [Hid1 Hacc1]].
  pose proof (sweep_one_jammed s Hj) as Hj1.
  destruct (jammed_quiet_run evs (sweep_one s)) as [H1 [H2 H3]];
    try (rewrite ?Hk1, ?Hid1; assumption).
  destruct (srun_kind evs (sweep_one s)) as [Hk2 _].
  eapply sweep_dispose.
  - rewrite H3. apply sweep_stale.
  - rewrite !sess_wrote_rtp by congruence. congruence.
Qed.

(* ---------------------------------------------------------------------- *)
(* EVERY set-up state (UDP included), every queue state, whatever the
   consumer does: packets that are handed to none of its connections - of a
   track it did not set up, or of a payload type outside the SDP - do not keep
   it alive. *)
Definition idle_ev (su : setup) (ev : event) : Prop :=
  match ev with
  | EvPub _ bufs => match rtp_track (concat bufs) with
                    | Some t => rtp_handed su t = false
                    | None => True
                    end
  | EvSweep => False
  | _ => True
  end.

Lemma idle_step ev s : is_rtp (s_kind s) = true -> idle_ev (kind_setup (s_kind s)) ev ->
  s_acc (srun1 ev s) = s_acc s /\ s_stale (srun1 ev s) = s_stale s.
Proof.
  intros Hk Hi. unfold srun1. destruct ev; cbn [local fst]; cbn [idle_ev] in Hi;
    try (unfold on_conn; destruct (Nat.eqb (s_id s) i); split; reflexivity); [|contradiction|].
  2:{ destruct (Nat.eqb (s_id s) i); [|split; reflexivity].
      destruct (in_local_kind size x s) as [_ [_ [H3 H4]]]. split; assumption. }
  unfold sess_write, sess_write_gen.
  destruct (sess_units (s_kind s) bufs) as [us|] eqn:Hu; [|split; reflexivity].
  destruct (rtp_units_track _ _ _ Hk Hu) as [t Ht]. rewrite Ht in Hi.
  destruct (enq_all eager us (s_conn s)) as [c ws]. rewrite Hk, Ht. cbn [fst s_acc s_stale].
  unfold rtp_counts. rewrite Hi. split; reflexivity.
Qed.

Lemma idle_run evs : forall s, is_rtp (s_kind s) = true -> Forall (idle_ev (kind_setup (s_kind s))) evs ->
  s_acc (srun evs s) = s_acc s /\ s_stale (srun evs s) = s_stale s.
Proof.
  induction evs as [|ev r IH]; intros s Hk Hi; [split; reflexivity|].
  inversion Hi as [|? ? Hi1 Hi2]; subst. cbn [srun].
  destruct (idle_step ev s Hk Hi1) as [H1 H2]. destruct (srun1_kind ev s) as [Hk' _].
  destruct (IH (srun1 ev s)) as [H3 H4]; [congruence|rewrite Hk'; assumption|].
  split; congruence.
Qed.

Theorem sweep_idle_rtp evs s :
  is_rtp (s_kind s) = true -> Forall (idle_ev (kind_setup (s_kind s))) evs ->
  c_closed (s_conn (sweep_one (srun evs (sweep_one s)))) = true.
Proof.
  intros Hk Hi. destruct (sweep_one_kind s) as [Hk1 [Hid1 Hacc1]].
  destruct (idle_run evs (sweep_one s)) as [H1 H2]; [congruence|rewrite Hk1; assumption|].
  destruct (srun_kind evs (sweep_one s)) as [Hk2 _].
  eapply sweep_dispose.
  - rewrite H2. apply sweep_stale.
  - rewrite !sess_wrote_rtp by congruence. congruence.
Qed.

(* ---------------------------------------------------------------------- *)
(* the repair does not cost a reading consumer its connection: a non-empty
   packet that is handed over (interleaved: the queue has room; UDP: always)
   after a sweep keeps the session at the next one *)
Lemma acc_mono_step ev s : not_sweep ev ->
  s_acc s <= s_acc (srun1 ev s) /\ s_stale (srun1 ev s) = s_stale s.
Proof.
  intros Hn. unfold srun1. destruct ev; cbn [local fst]; cbn in Hn; try contradiction;
    try (unfold on_conn; destruct (Nat.eqb (s_id s) i); split; cbn; try lia; reflexivity).
  - unfold sess_write, sess_write_gen. destruct (sess_units (s_kind s) bufs) as [us|]; [|cbn [fst]; split; [lia|reflexivity]].
  destruct (enq_all eager us (s_conn s)) as [c ws]. cbn [fst s_acc s_stale].
  split; [|reflexivity].
  destruct (is_rtp (s_kind s)); [|lia]. destruct (rtp_track (concat bufs)); [|lia].
  destruct (rtp_counts _ _ _ _); lia.
  - destruct (Nat.eqb (s_id s) i); [|split; [lia|reflexivity]].
    destruct (in_local_kind size x s) as [_ [_ [H3 H4]]]. split; [lia|exact H3].
Qed.

Lemma acc_mono_run evs : forall s, Forall not_sweep evs ->
  s_acc s <= s_acc (srun evs s) /\ s_stale (srun evs s) = s_stale s.
Proof.
  induction evs as [|ev r IH]; intros s Hn; [cbn [srun]; split; [lia|reflexivity]|].
  inversion Hn as [|? ? Hn1 Hn2]; subst. cbn [srun].
  destruct (acc_mono_step ev s Hn1) as [H1 H2]. destruct (IH (srun1 ev s) Hn2) as [H3 H4].
  split; [lia|congruence].
Qed.

Lemma open_room_enqueue u c : c_closed c = false -> (length (c_chan c) < c_cap c)%nat ->
  snd (enqueue u c) = WOk.
Proof.
  intros Ho Hr. unfold enqueue. rewrite Ho.
  replace (Nat.ltb (length (c_chan c)) (c_cap c)) with true by (symmetry; apply Nat.ltb_lt; exact Hr).
  reflexivity.
Qed.

Theorem sweep_progress_rtp evs s eager bufs t :
  is_rtp (s_kind s) = true ->
  s_stale s = Some (s_acc s) ->
  rtp_track (concat bufs) = Some t -> concat bufs <> [] ->
  rtp_handed (kind_setup (s_kind s)) t = true ->
  c_closed (s_conn s) = false ->
  (su_tcp (kind_setup (s_kind s)) t = true -> (length (c_chan (s_conn s)) < c_cap (s_conn s))%nat) ->
  Forall not_sweep evs ->
  let s1 := srun evs (fst (sess_write eager bufs s)) in
  s_conn (sweep_one s1) = s_conn s1.
Proof.
  intros Hk Hst Ht Hne Hh Ho Hroom Hn s1.
  assert (Hw : s_acc s < s_acc (fst (sess_write eager bufs s)) /\
               s_stale (fst (sess_write eager bufs s)) = s_stale s /\
               s_kind (fst (sess_write eager bufs s)) = s_kind s).
  { unfold sess_write, sess_write_gen.
    destruct (sess_units (s_kind s) bufs) as [us|] eqn:Hu.
    2:{ exfalso. destruct (s_kind s); try discriminate; cbn [sess_units] in Hu; rewrite Ht in Hu;
        destruct (su_tcp su t); discriminate. }
    assert (Hc : rtp_counts (kind_setup (s_kind s)) t (c_closed (s_conn s)) (snd (enq_all eager us (s_conn s))) = true).
    { unfold rtp_counts, rtp_counts_pinned, rtp_err. rewrite Hh, Ho. cbn [andb udp_res].
      destruct (rtp_units _ _ _ _ Hk Hu Ht) as [[Hs ->]|[Hs [u ->]]].
      - cbn [enq_all snd last_res]. destruct (su_udp (kind_setup (s_kind s)) t); reflexivity.
      - cbn [enq_all]. pose proof (open_room_enqueue u (s_conn s) Ho (Hroom Hs)) as Hok.
        destruct (enqueue u (s_conn s)) as [c1 w]. cbn [snd] in *. subst w. cbn [last_res].
        destruct (su_udp (kind_setup (s_kind s)) t); reflexivity. }
    destruct (enq_all eager us (s_conn s)) as [c ws]. cbn [snd] in Hc.
    rewrite Hk, Ht, Hc. cbn [fst s_acc s_stale s_kind]. repeat split.
    unfold lenN. destruct (concat bufs); [congruence|cbn [length]; lia]. }
  destruct Hw as [Hlt [Hst' Hk']].
  destruct (acc_mono_run evs (fst (sess_write eager bufs s)) Hn) as [H1 H2]. fold s1 in H1, H2.
  destruct (srun_kind evs (fst (sess_write eager bufs s))) as [Hk1 _]. fold s1 in Hk1.
  eapply sweep_keep.
  - rewrite H2, Hst'. exact Hst.
  - rewrite sess_wrote_rtp by congruence. lia.
Qed.

(* ---------------------------------------------------------------------- *)
(* F-34, the pinned tree: a stalled interleaved player that set up the video
   track only survives EVERY sweep as long as the stream has audio. *)
Definition su_video_tcp : setup := mk_setup false true false false.
Definition f34_video : bytes := [128; 96; 0; 1; 0; 0; 0; 1; 18; 52; 86; 120; 1; 2; 3].
Definition f34_audio : bytes := [128; 225; 0; 2; 0; 0; 0; 2; 18; 52; 86; 120; 9].

(* queue capacity 1; two video packets (the writer is parked with the first,
   the second fills the queue), first sweep *)
Definition f34_start : sess :=
  srun [EvPub true [f34_video]; EvPub true [f34_video]; EvSweep] (sess_new 0 (KRtp su_video_tcp) 1).

(* one sweep interval: a video packet (rejected: queue full), an audio packet
   (the track has no transport), then the sweep *)
Definition f34_round (write : bool -> list bytes -> sess -> sess * N) (s : sess) : sess :=
  sweep_one (fst (write true [f34_audio] (fst (write true [f34_video] s)))).

Fixpoint f34_rounds (write : bool -> list bytes -> sess -> sess * N) (n : nat) (s : sess) : sess :=
  match n with O => s | S m => f34_rounds write m (f34_round write s) end.

Definition f34_shape (s : sess) : Prop :=
  s_kind s = KRtp su_video_tcp /\ s_conn s = s_conn f34_start /\ s_stale s = Some (s_acc s).

Lemma f34_start_shape : f34_shape f34_start /\ jammed (s_conn f34_start) /\ c_closed (s_conn f34_start) = false.
Proof.
  split; [repeat split|split]; [|reflexivity].
  right. split; [discriminate|]. vm_compute. lia.
Qed.

Lemma f34_facts :
  let k := KRtp su_video_tcp in
  let c0 := s_conn f34_start in
  exists u, sess_units k [f34_video] = Some [u] /\ enq_all true [u] c0 = (c0, [WFull]) /\
  sess_units k [f34_audio] = Some [] /\
  rtp_track (concat [f34_video]) = Some TVideo /\ rtp_track (concat [f34_audio]) = Some TAudio /\
  lenN (concat [f34_audio]) = 13 /\ c_closed c0 = false.
Proof. eexists. vm_compute. repeat split. Qed.

Lemma f34_video_write counts id st acc udp att crd rd :
  counts su_video_tcp TVideo false [WFull] = false ->
  fst (sess_write_gen counts true [f34_video] (mk_sess id (KRtp su_video_tcp) (s_conn f34_start) st acc udp att crd rd))
  = mk_sess id (KRtp su_video_tcp) (s_conn f34_start) st acc udp (att + 1) crd rd.
Proof.
  intros Hc. destruct f34_facts as [u [Hu [He [Ha [Htv [Hta [Hl Ho]]]]]]]. cbv zeta in *.
  unfold sess_write_gen. cbn [s_kind s_conn s_stale s_acc s_udp s_att s_id s_crd s_rd].
  rewrite Hu, He, Htv, Ho. cbn [is_rtp kind_setup fst]. rewrite Hc.
  reflexivity.
Qed.

Lemma f34_audio_write_pinned id st acc udp att crd rd :
  fst (sess_write_pinned true [f34_audio] (mk_sess id (KRtp su_video_tcp) (s_conn f34_start) st acc udp att crd rd))
  = mk_sess id (KRtp su_video_tcp) (s_conn f34_start) st (acc + 13) udp (att + 0) crd rd.
Proof.
  destruct f34_facts as [u [Hu [He [Ha [Htv [Hta [Hl Ho]]]]]]]. cbv zeta in *.
  unfold sess_write_pinned, sess_write_gen. cbn [s_kind s_conn s_stale s_acc s_udp s_att s_id s_crd s_rd].
  rewrite Ha. cbn [enq_all]. rewrite Hta, Hl, Ho. reflexivity.
Qed.

Lemma f34_round_pinned s : f34_shape s -> f34_shape (f34_round sess_write_pinned s).
Proof.
  intros [Hk [Hc Hst]]. destruct s as [id k c st acc udp att crd rd]. cbn [s_kind s_conn s_stale s_acc] in *. subst k c st.
  unfold f34_round. unfold sess_write_pinned at 2. rewrite f34_video_write by reflexivity.
  rewrite f34_audio_write_pinned.
  unfold f34_shape, sweep_one, sess_wrote. cbn [s_kind s_conn s_stale s_acc s_udp s_att s_id s_crd s_rd is_rtp].
  replace (acc + 13 =? acc) with false by (symmetry; apply N.eqb_neq; lia).
  repeat split.
Qed.

Lemma f34_rounds_pinned n : forall s, f34_shape s -> f34_shape (f34_rounds sess_write_pinned n s).
Proof.
  induction n as [|n IH]; intros s Hs; [exact Hs|]. cbn [f34_rounds]. apply IH. apply f34_round_pinned. exact Hs.
Qed.

Lemma sweep_rtp_pinned_refuted :
  (* the hypotheses of sweep_stalled_rtp hold of the start state ... *)
  is_rtp (s_kind f34_start) = true /\ su_no_udp (kind_setup (s_kind f34_start)) = true /\
  jammed (s_conn f34_start) /\
  (* ... with the accounting of the pinned tree it is still connected after any number of sweeps ... *)
  (forall n, c_closed (s_conn (f34_rounds sess_write_pinned n f34_start)) = false) /\
  (* ... with the repaired one the very next sweep closes it *)
  c_closed (s_conn (f34_rounds sess_write 1 f34_start)) = true.
Proof.
  destruct f34_start_shape as [Hs [Hj Ho]].
  repeat split; try assumption; try reflexivity.
  intros n. destruct (f34_rounds_pinned n f34_start Hs) as [_ [Hc _]]. rewrite Hc. exact Ho.
Qed.

(* ---------------------------------------------------------------------- *)
(* No retry: a session-level write of ANY kind, in ANY state of the queue
   (room, full, closed), makes at most one connection.Write/Writev call - a
   rejected write is not attempted again, so the time the publisher spends in
   a consumer does not depend on that consumer's queue. *)
Lemma units_le_1 k bufs us : sess_units k bufs = Some us -> (length us <= 1)%nat.
Proof.
  intros H. destruct k; cbn [sess_units] in H;
    try (inversion H; subst; cbn; lia);
    destruct (rtp_track (concat bufs)) as [t|]; try discriminate;
    destruct (su_tcp su t); inversion H; subst; cbn; lia.
Qed.

Theorem one_attempt eager bufs s :
  s_att (fst (sess_write eager bufs s)) <= s_att s + 1 /\
  (forall us, sess_units (s_kind s) bufs = Some us -> s_att (fst (sess_write eager bufs s)) = s_att s + lenN us).
Proof.
  unfold sess_write, sess_write_gen.
  destruct (sess_units (s_kind s) bufs) as [us|] eqn:Hu.
  - pose proof (units_le_1 _ _ _ Hu) as Hl.
    destruct (enq_all eager us (s_conn s)) as [c ws]. cbn [fst s_att]. split.
    + unfold lenN. lia.
    + intros us' H. inversion H; subst. reflexivity.
  - cbn [fst]. split; [lia|discriminate].
Qed.
