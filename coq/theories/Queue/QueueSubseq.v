(* Order-preserving sub-sequences of lists (used by the C15 queue proofs). *)
From Coq Require Import List Lia.
Import ListNotations.

Inductive subseq {A : Type} : list A -> list A -> Prop :=
| ss_nil : subseq [] []
| ss_skip x l1 l2 : subseq l1 l2 -> subseq l1 (x :: l2)
| ss_keep x l1 l2 : subseq l1 l2 -> subseq (x :: l1) (x :: l2).

Section Subseq.
Context {A : Type}.
Implicit Types l o a b e : list A.
Implicit Types x u : A.

Lemma subseq_nil_l o : subseq [] o.
Proof. induction o; [apply ss_nil|apply ss_skip; assumption]. Qed.

Lemma subseq_refl l : subseq l l.
Proof. induction l; [apply ss_nil|apply ss_keep; assumption]. Qed.

Lemma subseq_app l1 o1 l2 o2 : subseq l1 o1 -> subseq l2 o2 -> subseq (l1 ++ l2) (o1 ++ o2).
Proof.
  induction 1; intros H2; simpl.
  - assumption.
  - apply ss_skip. auto.
  - apply ss_keep. auto.
Qed.

Lemma subseq_app_r l o e : subseq l o -> subseq l (o ++ e).
Proof.
  intros H. rewrite <- (app_nil_r l). apply subseq_app; [assumption|apply subseq_nil_l].
Qed.

Lemma subseq_snoc l o u : subseq l o -> subseq (l ++ [u]) (o ++ [u]).
Proof. intros H. apply subseq_app; [assumption|apply subseq_refl]. Qed.

Lemma subseq_trans l1 l2 l3 : subseq l1 l2 -> subseq l2 l3 -> subseq l1 l3.
Proof.
  intros H12 H23. revert l1 H12.
  induction H23; intros l0 H12.
  - assumption.
  - apply ss_skip. apply IHsubseq. assumption.
  - inversion H12; subst.
    + apply ss_skip. apply IHsubseq. assumption.
    + apply ss_keep. apply IHsubseq. assumption.
Qed.

Lemma subseq_drop_mid a x b : subseq (a ++ b) (a ++ x :: b).
Proof.
  induction a; simpl.
  - apply ss_skip. apply subseq_refl.
  - apply ss_keep. assumption.
Qed.

Lemma subseq_remove_mid a x b o : subseq (a ++ x :: b) o -> subseq (a ++ b) o.
Proof. intros H. eapply subseq_trans; [apply subseq_drop_mid|eassumption]. Qed.

Lemma subseq_In l o x : subseq l o -> In x l -> In x o.
Proof.
  induction 1; simpl; intros Hin; auto.
  destruct Hin as [->|Hin]; auto.
Qed.

Lemma subseq_Forall (P : A -> Prop) l o : subseq l o -> Forall P o -> Forall P l.
Proof.
  intros Hs Hf. rewrite Forall_forall in *. intros x Hx. apply Hf. eapply subseq_In; eassumption.
Qed.

Lemma subseq_app_l l o e : subseq (l ++ e) o -> subseq l o.
Proof.
  intros H. eapply subseq_trans; [|exact H].
  rewrite <- (app_nil_r l) at 1. apply subseq_app; [apply subseq_refl|apply subseq_nil_l].
Qed.

Lemma subseq_length l o : subseq l o -> length l <= length o.
Proof. induction 1; simpl; lia. Qed.

End Subseq.

Lemma subseq_map {A B} (f : A -> B) l o : subseq l o -> subseq (map f l) (map f o).
Proof. induction 1; simpl; [apply ss_nil|apply ss_skip; assumption|apply ss_keep; assumption]. Qed.

(* a sub-sequence of an image is the image of a sub-sequence *)
Lemma subseq_map_inv {A B} (f : A -> B) l o : subseq l (map f o) -> exists l', l = map f l' /\ subseq l' o.
Proof.
  revert l. induction o as [|x o IH]; intros l H; simpl in H.
  - inversion H; subst. exists []. split; [reflexivity|apply ss_nil].
  - inversion H; subst.
    + destruct (IH _ H2) as [l' [-> Hs]]. exists l'. split; [reflexivity|apply ss_skip; assumption].
    + destruct (IH _ H2) as [l' [-> Hs]]. exists (x :: l'). split; [reflexivity|apply ss_keep; assumption].
Qed.
