(* C15 - model of the per-connection write queue (naza/pkg/connection: wChan,
   runWriteLoop, Write/Writev with WriteChanFullBehaviorReturnError, close),
   of the write-unit structure of every subscriber session kind
   (rtmp.ServerSession.Write/Writev, base.BasicHttpSubSession.Write for
   HTTP-FLV / HTTP-TS with and without WebSocket, rtsp interleaved RTP with
   and without WebSocket), of the fan-out step (one session write per
   consumer, nobody waits) and of the liveness sweep decision
   (Group.disposeInactiveSessions + BasicSessionStat.isAlive).
   No proofs in this file. *)
From Lal Require Import Common.LBytes Flv.FlvTag Flv.FlvWs.
Open Scope N_scope.

(* ---------------------------------------------------------------------- *)
(* The connection.                                                          *)

(* one wMsg: Write(b) = [b]; Writev(bs) = bs.  With a writer that is not a
   net.buffersWriter, net.Buffers.WriteTo issues one conn.Write per buffer. *)
Definition wunit := list bytes.

Inductive wres := WOk | WFull | WClosed.
Inductive behavior := BehError | BehBlock.   (* WriteChanFullBehaviorReturnError | ...Block *)

Record conn := mk_conn
  { c_cap : nat;                       (* Option.WriteChanSize, > 0 *)
    c_chan : list wunit;               (* wChan, FIFO *)
    c_hand : option (wunit * nat);     (* message held by runWriteLoop, buffers already written *)
    c_closed : bool;                   (* closedFlag *)
    c_wire : bytes;                    (* everything the peer has received *)
    c_wrote : N }.                     (* stat.WroteBytesSum *)

Definition conn_new (cap : nat) : conn := mk_conn cap [] None false [] 0.

Definition set_chan (q : list wunit) (c : conn) : conn :=
  mk_conn (c_cap c) q (c_hand c) (c_closed c) (c_wire c) (c_wrote c).
Definition set_hand (h : option (wunit * nat)) (c : conn) : conn :=
  mk_conn (c_cap c) (c_chan c) h (c_closed c) (c_wire c) (c_wrote c).
Definition set_closed (c : conn) : conn :=
  mk_conn (c_cap c) (c_chan c) None true (c_wire c) (c_wrote c).
Definition add_wire (b : bytes) (c : conn) : conn :=
  mk_conn (c_cap c) (c_chan c) (c_hand c) (c_closed c) (c_wire c ++ b) (c_wrote c).
Definition add_wrote (n : N) (c : conn) : conn :=
  mk_conn (c_cap c) (c_chan c) (c_hand c) (c_closed c) (c_wire c) (c_wrote c + n).

(* connection.Write / Writev.  [None] = the caller is parked until the
   consumer makes room (only possible with BehBlock). *)
Definition enqueue_b (beh : behavior) (u : wunit) (c : conn) : option (conn * wres) :=
  if c_closed c then Some (c, WClosed)
  else if Nat.ltb (length (c_chan c)) (c_cap c) then Some (set_chan (c_chan c ++ [u]) c, WOk)
  else match beh with
       | BehError => Some (c, WFull)
       | BehBlock => None
       end.

(* lal's server-side sessions all use the default, ReturnError *)
Definition enqueue (u : wunit) (c : conn) : conn * wres :=
  if c_closed c then (c, WClosed)
  else if Nat.ltb (length (c_chan c)) (c_cap c) then (set_chan (c_chan c ++ [u]) c, WOk)
  else (c, WFull).

(* runWriteLoop receives the next message (a Writev of zero buffers completes
   at once) *)
Definition take (c : conn) : conn :=
  if c_closed c then c else
  match c_hand c, c_chan c with
  | None, u :: r =>
      match u with
      | [] => set_chan r c
      | _ => set_hand (Some (u, O)) (set_chan r c)
      end
  | _, _ => c
  end.

(* the conn.Write the writer is blocked in returns successfully: one buffer is
   on the wire; WroteBytesSum is increased when the whole message is done *)
Definition wdone (c : conn) : conn :=
  match c_hand c with
  | Some (u, k) =>
      let c1 := add_wire (nth k u []) c in
      if Nat.eqb (S k) (length u)
      then add_wrote (lenN (concat u)) (set_hand None c1)
      else set_hand (Some (u, S k)) c1
  | None => c
  end.

(* the conn.Write the writer is blocked in returns (n, err) (write deadline,
   reset): n bytes of the current buffer went out, connection closes itself *)
Definition wfail (n : nat) (c : conn) : conn :=
  match c_hand c with
  | Some (u, k) =>
      let part := firstn n (nth k u []) in
      set_closed (add_wrote (lenN (concat (firstn k u)) + lenN part) (add_wire part c))
  | None => c
  end.

(* Close() from outside (Dispose): a blocked conn.Write returns (0, err) *)
Definition wclose (c : conn) : conn :=
  match c_hand c with
  | Some (u, k) => set_closed (add_wrote (lenN (concat (firstn k u))) c)
  | None => set_closed c
  end.

(* ---------------------------------------------------------------------- *)
(* Session kinds and their write units.                                     *)

(* rtsp: which transports the player has SETUP for each track of the stream
   (BaseOutSession: videoRtpConn != nil / videoRtpChannel != -1 and the same
   for audio; SETUP may be sent for one track only, and - nothing forbids it -
   for one track with both transports) *)
Record setup := mk_setup
  { su_vudp : bool; su_vtcp : bool; su_audp : bool; su_atcp : bool }.

(* every track interleaved on the command connection *)
Definition setup_tcp : setup := mk_setup false true false true.

Inductive track := TVideo | TAudio.

Definition su_udp (su : setup) (t : track) : bool :=
  match t with TVideo => su_vudp su | TAudio => su_audp su end.
Definition su_tcp (su : setup) (t : track) : bool :=
  match t with TVideo => su_vtcp su | TAudio => su_atcp su end.
Definition su_no_udp (su : setup) : bool := negb (su_vudp su) && negb (su_audp su).

Inductive kind := KRtmp | KRtmpV | KFlv | KWsFlv | KTs | KWsTs | KRtp (su : setup) | KWsRtp (su : setup).

(* pkg/rtsp/interleaved.go packInterleaved *)
Definition pack_interleaved (channel : N) (raw : bytes) : bytes :=
  [36; u8 channel] ++ be_put 2 (u16 (lenN raw)) ++ raw.

(* BaseOutSession.WriteRtpPacket dispatch: the harness' SDP declares video =
   payload type 96, audio = 97; SETUP gives video the interleaved channel 0,
   audio the channel 2 *)
Definition rtp_track (raw : bytes) : option track :=
  match nth_error raw 1 with
  | None => None
  | Some b1 =>
      let pt := b1 mod 128 in
      if pt =? 96 then Some TVideo else if pt =? 97 then Some TAudio else None
  end.

Definition track_chan (t : track) : N := match t with TVideo => 0 | TAudio => 2 end.

Definition rtp_route (raw : bytes) : option N :=
  match rtp_track raw with Some t => Some (track_chan t) | None => None end.

(* the WebSocket framing as it was before the repair of F-25: header and
   payload are two connection writes, i.e. two queue units *)
Definition ws_split_units (b : bytes) : list bytes :=
  [make_ws_frame_header true false false false 2 (lenN b) false 0; b].

(* what one session-level write hands to the (command) connection, in order.
   [None] = the session does not write at all (rtsp: unknown payload type);
   rtsp with a track that has no interleaved channel: no connection write *)
Definition sess_units (k : kind) (bufs : list bytes) : option (list wunit) :=
  let b := concat bufs in
  match k with
  | KRtmp => Some [[b]]                       (* ServerSession.Write(msg) *)
  | KRtmpV => Some [bufs]                     (* ServerSession.Writev(msgs) *)
  | KFlv | KTs => Some [[b]]                  (* BasicHttpSubSession.Write *)
  | KWsFlv | KWsTs => Some (map (fun x => [x]) (ws_write_units b))
  | KRtp su =>
      match rtp_track b with
      | Some t => if su_tcp su t then Some [[pack_interleaved (track_chan t) b]] else Some []
      | None => None
      end
  | KWsRtp su =>
      match rtp_track b with
      | Some t => if su_tcp su t
                  then Some (map (fun x => [x]) (ws_write_units (pack_interleaved (track_chan t) b)))
                  else Some []
      | None => None
      end
  end.

Definition is_rtp (k : kind) : bool :=
  match k with KRtp _ | KWsRtp _ => true | _ => false end.

Definition kind_setup (k : kind) : setup :=
  match k with KRtp su | KWsRtp su => su | _ => setup_tcp end.

Record sess := mk_sess
  { s_id : nat;
    s_kind : kind;
    s_conn : conn;
    s_stale : option N;     (* BasicSessionStat.staleStat (WroteBytesSum part) *)
    s_acc : N;              (* rtsp BaseOutSession: sessionStat.currConnStat.WroteBytesSum *)
    s_udp : list (track * bytes);   (* rtsp: datagrams handed to the UDP sockets, in order *)
    s_att : N;              (* connection.Write / Writev calls made by the session so far *)
    s_crd : N;              (* the connection's stat.ReadBytesSum: bytes the session's read loop took from the player *)
    s_rd : N }.             (* rtsp BaseOutSession: sessionStat.currConnStat.ReadBytesSum (nothing adds to it: the
                               "count received rtp / rtcp" TODOs of onReadRtpPacket / onReadRtcpPacket) *)

Definition sess_new (id : nat) (k : kind) (cap : nat) : sess := mk_sess id k (conn_new cap) None 0 [] 0 0 0.

Definition set_conn (c : conn) (s : sess) : sess :=
  mk_sess (s_id s) (s_kind s) c (s_stale s) (s_acc s) (s_udp s) (s_att s) (s_crd s) (s_rd s).

(* enqueue the units one after the other; [eager] = the writer goroutine picks
   up a message as soon as it is free (the schedule the harness realises) *)
Fixpoint enq_all (eager : bool) (us : list wunit) (c : conn) : conn * list wres :=
  match us with
  | [] => (c, [])
  | u :: r =>
      let (c1, w) := enqueue u c in
      let c2 := if eager then take c1 else c1 in
      let (c3, ws) := enq_all eager r c2 in
      (c3, w :: ws)
  end.

Fixpoint last_res (d : wres) (l : list wres) : wres :=
  match l with [] => d | x :: r => last_res x r end.

(* what the caller of the session-level write sees: 1 ok, 2 full, 3 closed for
   rtmp.ServerSession.Write/Writev; 0 = nothing (BasicHttpSubSession.Write and
   rtsp.SubSession.WriteRtpPacket have no result) *)
Definition res_code (k : kind) (ws : option (list wres)) : N :=
  match k with
  | KRtmp | KRtmpV =>
      match ws with
      | None => 0
      | Some l => match last_res WOk l with WOk => 1 | WFull => 2 | WClosed => 3 end
      end
  | _ => 0
  end.

(* rtsp BaseOutSession.WriteRtpPacket for a packet of track [t]:
     if xRtpConn != nil      { err = xRtpConn.Write(raw) }                      (UDP)
     if xRtpChannel != -1    { err = cmdSession.WriteInterleavedPacket(raw, ch) }  (queue)
   [err] is the result of the LAST write that was made, nil when none was.
   A UDP socket takes the datagram unless the session has been disposed (the
   sockets are closed together with the command connection). *)
Definition udp_res (closed : bool) : wres := if closed then WClosed else WOk.

Definition rtp_err (su : setup) (t : track) (closed : bool) (ws : list wres) : wres :=
  last_res (if su_udp su t then udp_res closed else WOk) ws.

(* has the packet been handed to any connection at all *)
Definition rtp_handed (su : setup) (t : track) : bool := su_udp su t || su_tcp su t.

(* the accounting: sessionStat.AddWriteBytes(len(packet.Raw)).
   As it stood (the pinned tree): `if err == nil`, so a packet of a track
   that was never SETUP - no write made, err still nil - is counted as written.
   Repaired: only a packet that was handed to a connection counts. *)
Definition rtp_counts_pinned (su : setup) (t : track) (closed : bool) (ws : list wres) : bool :=
  match rtp_err su t closed ws with WOk => true | _ => false end.

Definition rtp_counts (su : setup) (t : track) (closed : bool) (ws : list wres) : bool :=
  rtp_handed su t && rtp_counts_pinned su t closed ws.

Definition sess_write_gen (counts : setup -> track -> bool -> list wres -> bool)
    (eager : bool) (bufs : list bytes) (s : sess) : sess * N :=
  match sess_units (s_kind s) bufs with
  | None => (s, res_code (s_kind s) None)
  | Some us =>
      let (c, ws) := enq_all eager us (s_conn s) in
      let b := concat bufs in
      let su := kind_setup (s_kind s) in
      let closed := c_closed (s_conn s) in
      let acc :=
        match is_rtp (s_kind s), rtp_track b with
        | true, Some t => if counts su t closed ws then s_acc s + lenN b else s_acc s
        | _, _ => s_acc s
        end in
      let udp :=
        match is_rtp (s_kind s), rtp_track b with
        | true, Some t => if su_udp su t && negb closed then s_udp s ++ [(t, b)] else s_udp s
        | _, _ => s_udp s
        end in
      (mk_sess (s_id s) (s_kind s) c (s_stale s) acc udp (s_att s + lenN us) (s_crd s) (s_rd s),
       res_code (s_kind s) (Some ws))
  end.

(* the code as it is now *)
Definition sess_write := sess_write_gen rtp_counts.
(* the code as it was *)
Definition sess_write_pinned := sess_write_gen rtp_counts_pinned.

(* the byte counter the sweep looks at *)
Definition sess_wrote (s : sess) : N :=
  if is_rtp (s_kind s) then s_acc s else c_wrote (s_conn s).

(* BasicSessionStat.isAlive (write half) followed by
   `if !writeAlive { session.Dispose() }` *)
Definition sweep_one (s : sess) : sess :=
  let w := sess_wrote s in
  match s_stale s with
  | None => mk_sess (s_id s) (s_kind s) (s_conn s) (Some w) (s_acc s) (s_udp s) (s_att s) (s_crd s) (s_rd s)
  | Some w0 =>
      let c := if w =? w0 then wclose (s_conn s) else s_conn s in
      mk_sess (s_id s) (s_kind s) c (Some w) (s_acc s) (s_udp s) (s_att s) (s_crd s) (s_rd s)
  end.

(* ---------------------------------------------------------------------- *)
(* Inbound traffic: what the PLAYER sends while it is a subscriber, and what
   the session's own read loop does with it.  An out-session is kept or
   dropped by the sweep on its WRITE counter only; none of this may touch it. *)

Inductive inbound :=
| InIlv (ch n : N)                 (* rtsp: '$' ch len16 + n bytes on the command connection (RTCP receiver report on
                                      an RTCP channel, RTP on an RTP channel, anything on a channel of no track):
                                      BaseOutSession.HandleInterleavedPacket logs it *)
| InUdp (t : track) (rtcp : bool) (n : N)   (* rtsp: a datagram to lal's RTP / RTCP socket of track t:
                                      onReadRtpPacket / onReadRtcpPacket log it *)
| InOptions (resp : bytes)         (* rtsp: OPTIONS keep-alive; handleOptions writes the response [resp] *)
| InRequest                        (* rtsp: a request the server does not know (GET_PARAMETER, SET_PARAMETER, PAUSE):
                                      "unknown rtsp message", no answer *)
| InRtmpAck                        (* rtmp: Acknowledgement: doAck ignores it *)
| InRtmpPing (ts : N)              (* rtmp: User Control ping request: doUserControl writes the ping response *)
| InBytes.                         (* http-flv / http-ts, plain or WebSocket: bytes of anything (a ws ping / pong / close) *)

(* MessagePacker.writePingResponse: one type-0 chunk on csid 2, message type 4,
   stream 0, body = event 7 + the echoed timestamp *)
Definition rtmp_pong (ts : N) : bytes :=
  [2; 0; 0; 0; 0; 0; 6; 4; 0; 0; 0; 0; 0; 7] ++ be_put 4 (u32 ts).

(* is this input something a session of this kind can receive at all *)
Definition in_ok (k : kind) (x : inbound) : bool :=
  match k, x with
  | KRtp _, InIlv _ _ => true
  | (KRtp su | KWsRtp su), InUdp t _ _ => su_udp su t
  | (KRtp _ | KWsRtp _), (InOptions _ | InRequest) => true
  | (KRtmp | KRtmpV), (InRtmpAck | InRtmpPing _) => true
  | (KFlv | KWsFlv | KTs | KWsTs), InBytes => true
  | _, _ => false
  end.

(* the connection write the session's read loop makes in answer (through the
   same queue as the fan-out writes; rtsp over WebSocket: header and response
   in ONE write since the repair of F-35) *)
Definition in_reply (k : kind) (x : inbound) : option wunit :=
  match k, x with
  | KRtp _, InOptions resp => Some [resp]
  | KWsRtp _, InOptions resp => Some [ws_write resp]
  | (KRtmp | KRtmpV), InRtmpPing ts => Some [rtmp_pong ts]
  | _, _ => None
  end.

(* BasicHttpSubSession.RunLoop is ONE Read: whatever arrives ends it, the HTTP
   handler then disposes the session *)
Definition in_ends (k : kind) : bool :=
  match k with KFlv | KWsFlv | KTs | KWsTs => true | _ => false end.

Definition add_crd (n : N) (s : sess) : sess :=
  mk_sess (s_id s) (s_kind s) (s_conn s) (s_stale s) (s_acc s) (s_udp s) (s_att s) (s_crd s + n) (s_rd s).

(* [size] = bytes the connection hands to the read loop for this input (0 for a
   datagram).  A reply that the queue rejects is an error for the read loop: it
   ends and the connection is closed.  A closed connection reads nothing. *)
Definition in_local (size : N) (x : inbound) (s : sess) : sess :=
  if c_closed (s_conn s) || negb (in_ok (s_kind s) x) then s else
  let s1 := add_crd size s in
  match in_reply (s_kind s) x with
  | Some u =>
      let (c1, w) := enqueue u (s_conn s1) in
      let c2 := match w with WOk => c1 | _ => wclose c1 end in
      mk_sess (s_id s1) (s_kind s1) c2 (s_stale s1) (s_acc s1) (s_udp s1) (s_att s1 + 1) (s_crd s1) (s_rd s1)
  | None => if in_ends (s_kind s) then set_conn (wclose (s_conn s1)) s1 else s1
  end.

(* ---------------------------------------------------------------------- *)
(* Events.  Every event acts on each session separately.                    *)

Inductive event :=
| EvPub (eager : bool) (bufs : list bytes)   (* fan-out of one unit to every consumer *)
| EvTake (i : nat)                           (* writer goroutine of consumer i dequeues *)
| EvDone (i : nat)                           (* consumer i reads: the blocked write returns *)
| EvFail (i : nat) (n : nat)                 (* the blocked write of i fails after n bytes *)
| EvClose (i : nat)                          (* Dispose of consumer i *)
| EvSweep                                    (* Group.disposeInactiveSessions, alive check *)
| EvIn (i : nat) (size : N) (x : inbound).   (* consumer i sends something; its read loop handles it *)

Definition on_conn (f : conn -> conn) (i : nat) (s : sess) : sess :=
  if Nat.eqb (s_id s) i then set_conn (f (s_conn s)) s else s.

(* the effect of one event on one session and what the publisher side sees *)
Definition local (ev : event) (s : sess) : sess * N :=
  match ev with
  | EvPub eager bufs => sess_write eager bufs s
  | EvTake i => (on_conn take i s, 0)
  | EvDone i => (on_conn wdone i s, 0)
  | EvFail i n => (on_conn (wfail n) i s, 0)
  | EvClose i => (on_conn wclose i s, 0)
  | EvSweep => (sweep_one s, 0)
  | EvIn i size x => (if Nat.eqb (s_id s) i then in_local size x s else s, 0)
  end.

Definition step (ev : event) (st : list sess) : list sess * list N :=
  (map (fun s => fst (local ev s)) st, map (fun s => snd (local ev s)) st).

Fixpoint run (evs : list event) (st : list sess) : list sess * list (list N) :=
  match evs with
  | [] => (st, [])
  | ev :: r =>
      let (st1, o) := step ev st in
      let (st2, os) := run r st1 in
      (st2, o :: os)
  end.

(* the same with an explicit "parked" outcome, for the statement that the
   fan-out never waits: one session write under a full-queue behaviour *)
Fixpoint enq_all_b (beh : behavior) (us : list wunit) (c : conn) : option conn :=
  match us with
  | [] => Some c
  | u :: r =>
      match enqueue_b beh u c with
      | None => None
      | Some (c1, _) => enq_all_b beh r c1
      end
  end.

Definition sess_write_b (beh : behavior) (bufs : list bytes) (s : sess) : option conn :=
  match sess_units (s_kind s) bufs with
  | None => Some (s_conn s)
  | Some us => enq_all_b beh us (s_conn s)
  end.

Fixpoint fanout_b (beh : behavior) (bufs : list bytes) (st : list sess) : option (list conn) :=
  match st with
  | [] => Some []
  | s :: r =>
      match sess_write_b beh bufs s with
      | None => None
      | Some c => match fanout_b beh bufs r with
                  | None => None
                  | Some cs => Some (c :: cs)
                  end
      end
  end.

(* ---------------------------------------------------------------------- *)
(* Harness-level schedule ops (what the correspondence check executes).     *)

(* release one blocked write, then the writer picks up the next message *)
Definition release1 (i : nat) : list event := [EvDone i; EvTake i].

Fixpoint release (i n : nat) : list event :=
  match n with O => [] | S m => release1 i ++ release i m end.

(* consumer finally reads everything that is still in flight *)
Definition drain_conn_fuel (c : conn) : nat :=
  (length (concat (c_chan c)) + length (c_chan c)
   + match c_hand c with Some (u, _) => length u | None => 0 end + 1)%nat.

Fixpoint drain_conn (fuel : nat) (c : conn) : conn :=
  match fuel with
  | O => c
  | S f => drain_conn f (take (wdone (take c)))
  end.

Definition drain (s : sess) : sess :=
  set_conn (drain_conn (drain_conn_fuel (s_conn s)) (s_conn s)) s.

(* ---------------------------------------------------------------------- *)
(* Group-level pieces used by the c15.group op: unit bytes of one RTMP
   message for an HTTP-FLV subscriber (remux.RtmpMsg2FlvTag) and for an RTMP
   subscriber (rtmp.Message2Chunks with a nil previous header; only the
   single-chunk, 3-byte-timestamp form is modelled here, the chunk codec
   itself belongs to C08). *)
Definition flv_unit (t ts : N) (p : bytes) : bytes := pack_tag t ts p.

Definition rtmp_csid (t : N) : N :=
  if t =? 18 then 5 else if t =? 8 then 6 else if t =? 9 then 7 else 0.

Definition rtmp_small_unit (t ts : N) (p : bytes) : bytes :=
  [rtmp_csid t] ++ be_put 3 ts ++ be_put 3 (lenN p) ++ [u8 t] ++ le_put 4 1 ++ p.

Definition msg_unit (k : kind) (t ts : N) (p : bytes) : bytes :=
  match k with
  | KRtmp | KRtmpV => rtmp_small_unit t ts p
  | _ => flv_unit t ts p
  end.

(* broadcastByRtmpMsg for one consumer that is neither fresh nor waiting for a
   key frame: one session write with the unit of its protocol *)
Definition group_msg (eager : bool) (t ts : N) (p : bytes) (s : sess) : sess :=
  fst (sess_write eager [msg_unit (s_kind s) t ts p] s).

(* BasicHttpSubSession.WriteHttpResponseHeader: one connection write, never
   WebSocket-framed *)
Definition sess_write_plain (eager : bool) (b : bytes) (s : sess) : sess :=
  let s1 := set_conn (fst (enq_all eager [[b]] (s_conn s))) s in
  mk_sess (s_id s1) (s_kind s1) (s_conn s1) (s_stale s1) (s_acc s1) (s_udp s1) (s_att s1 + 1) (s_crd s1) (s_rd s1).

(* Group.AddHttpflvSubSession: response header (its text is abstracted to the
   single byte 'H'), then the FLV header through Write *)
Definition group_join (eager : bool) (s : sess) : sess :=
  match s_kind s with
  | KFlv | KWsFlv => fst (sess_write eager [flv_header] (sess_write_plain eager [72] s))
  | _ => s
  end.

(* ---------------------------------------------------------------------- *)
(* Reference framing parsers (independent of the code above).               *)

(* RFC 2326 section 10.12: '$', channel, 16-bit length, data *)
Definition rtp_parse1 (l : bytes) : option ((N * bytes) * bytes) :=
  match l with
  | 36 :: ch :: l1 :: l0 :: rest =>
      match split_exactN (l1 * 256 + l0) rest with
      | Some (p, rest') => Some ((ch, p), rest')
      | None => None
      end
  | _ => None
  end.

(* RFC 2326 section 10.12 in full: interleaved binary data and RTSP messages
   share the connection.  A response (here: without body, as the reply to
   OPTIONS is) is a header block, "RTSP/..." up to the first empty line. *)
Definition is_crlfcrlf (l : bytes) : bool :=
  match l with
  | a :: b :: c :: d :: _ => (a =? 13) && (b =? 10) && (c =? 13) && (d =? 10)
  | _ => false
  end.

Fixpoint scan_hdr (acc : bytes) (l : bytes) : option (bytes * bytes) :=
  match l with
  | [] => None
  | x :: t => if is_crlfcrlf l then Some (acc ++ [13; 10; 13; 10], skipn 4 l) else scan_hdr (acc ++ [x]) t
  end.

Definition rtsp_parse1 (l : bytes) : option (((N * bytes) + bytes) * bytes) :=
  match l with
  | 36 :: _ => match rtp_parse1 l with Some (x, r) => Some (inl x, r) | None => None end
  | 82 :: _ => match scan_hdr [] l with Some (h, r) => Some (inr h, r) | None => None end
  | _ => None
  end.

(* a well-formed reply text: starts with 'R', ends with its only empty line *)
Definition resp_ok (resp : bytes) : Prop :=
  (exists t, resp = 82 :: t) /\ scan_hdr [] resp = Some (resp, []).

(* ISO 13818-1: 188-byte packets that start with the sync byte 0x47 *)
Definition ts_parse1 (l : bytes) : option (bytes * bytes) :=
  match split_exact 188 l with
  | Some (p, rest) => match p with 71 :: _ => Some (p, rest) | _ => None end
  | None => None
  end.

Definition ws_parse1 (l : bytes) : option (bytes * bytes) :=
  match ws_parse l with
  | Some (f, rest) =>
      if wf_fin f && (wf_opcode f =? 2) && negb (wf_masked f) && (wf_rsv f =? 0)
      then Some (wf_payload f, rest) else None
  | None => None
  end.

Definition flv_parse1 (l : bytes) : option (spec_tag * bytes) := spec_parse_tag l.

(* generic "parse the whole stream with a one-frame parser" *)
Fixpoint parse_all {F} (p1 : bytes -> option (F * bytes)) (fuel : nat) (l : bytes) : option (list F) :=
  match l with
  | [] => Some []
  | _ => match fuel with
         | O => None
         | S f => match p1 l with
                  | None => None
                  | Some (x, rest) =>
                      match parse_all p1 f rest with
                      | None => None
                      | Some xs => Some (x :: xs)
                      end
                  end
         end
  end.
