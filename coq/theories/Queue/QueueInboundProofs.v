(* C15 - inbound traffic of a subscriber (RTCP receiver reports and RTP over the
   interleaved connection or UDP, RTSP keep-alive requests, RTMP acks and
   pings, bytes on an HTTP / WebSocket subscription) and the liveness sweep:
   an out-session lives by its WRITE progress only. *)
From Coq Require Import Lia ZifyN ZifyNat ZifyBool.
From Lal Require Import Common.LBytes Common.LBytesProofs Flv.FlvTag Flv.FlvWs
  Queue.QueueSubseq Queue.QueueWrite Queue.QueueWriteProofs Queue.QueueRtspSweepProofs.
Ltac Zify.zify_post_hook ::= Z.div_mod_to_equations.
Open Scope N_scope.

(* input that is neither answered nor ends the read loop (interleaved RTCP /
   RTP / unknown channel, datagrams, GET_PARAMETER, rtmp acks) touches the
   connection's READ counter and nothing else *)
Lemma in_local_pure size x s :
  in_reply (s_kind s) x = None -> in_ends (s_kind s) = false ->
  in_local size x s = s \/ in_local size x s = add_crd size s.
Proof.
  intros Hr He. unfold in_local. destruct (c_closed (s_conn s) || negb (in_ok (s_kind s) x)); [left; reflexivity|].
  rewrite Hr, He. right. reflexivity.
Qed.

(* ANY input, any kind, any state: the session's own write counter and the
   write-side state the sweep compares are untouched, or the session is closed *)
Lemma in_local_no_progress size x s :
  s_acc (in_local size x s) = s_acc s /\ s_stale (in_local size x s) = s_stale s /\
  (c_closed (s_conn (in_local size x s)) = true \/ sess_wrote (in_local size x s) = sess_wrote s).
Proof.
  destruct (in_local_kind size x s) as [Hk [_ [Hst Hacc]]]. repeat split; try assumption.
  unfold sess_wrote. rewrite Hk. destruct (is_rtp (s_kind s)); [right; exact Hacc|apply in_local_wrote].
Qed.

(* inbound events are "quiet": the stalled-consumer theorems quantify over them *)
Lemma quiet_in id i size x : quiet id (EvIn i size x).
Proof. exact I. Qed.

Lemma idle_in su i size x : idle_ev su (EvIn i size x).
Proof. exact I. Qed.

(* the three situations in which nothing is written to a consumer between two
   sweeps, each for every inbound schedule *)
Theorem inbound_never_keeps_alive evs s :
  Forall (quiet (s_id s)) evs ->
  is_rtp (s_kind s) = false \/
  (is_rtp (s_kind s) = true /\ su_no_udp (kind_setup (s_kind s)) = true /\ jammed (s_conn s)) ->
  c_closed (s_conn (sweep_one (srun evs (sweep_one s)))) = true.
Proof.
  intros Hq [Hk|[Hk [Hnu Hj]]]; [apply sweep_stalled|apply sweep_stalled_rtp]; assumption.
Qed.

(* non-vacuity / the schedule of the seeded defect C15r4-2: an interleaved player
   (video + audio, capacity 1) stops reading after two packets; between the
   sweeps it sends a receiver report on each RTCP channel, RTP on an RTP channel,
   a packet on a channel of no track, GET_PARAMETER, while the publisher goes on.
   Closed at the second sweep, write counter = the two packets that were taken. *)
Definition rr : inbound := InIlv 1 32.
Definition ex_in_evs (i : nat) : list event :=
  [EvIn i 36 (InIlv 1 32); EvPub true [f34_video]; EvIn i 36 (InIlv 3 32); EvIn i 16 (InIlv 0 12);
   EvIn i 12 (InIlv 9 8); EvIn i 50 InRequest; EvPub true [f34_audio]; EvIn i 36 (InIlv 1 32)].

Example inbound_example :
  let s0 := srun [EvPub true [f34_video]; EvPub true [f34_audio]] (sess_new 0 (KRtp setup_tcp) 1) in
  jammed (s_conn s0) /\ Forall (quiet 0) (ex_in_evs 0) /\
  let s2 := sweep_one (srun (ex_in_evs 0) (sweep_one s0)) in
  c_closed (s_conn s2) = true /\ s_acc s2 = 28 /\ s_crd s2 = 186.
Proof.
  cbv zeta. split; [|split].
  - right. split; [discriminate|]. vm_compute. lia.
  - repeat constructor.
  - vm_compute. repeat split.
Qed.

(* and an OPTIONS keep-alive from a jammed player: its reply is rejected by the
   full queue, the read loop ends, the connection is closed at once *)
Example inbound_options_example :
  let s0 := srun [EvPub true [f34_video]; EvPub true [f34_audio]] (sess_new 0 (KRtp setup_tcp) 1) in
  c_closed (s_conn (srun [EvIn 0 45 (InOptions [82; 84; 83; 80])] s0)) = true.
Proof. vm_compute. reflexivity. Qed.

(* ---------------------------------------------------------------------- *)
(* F-35, as it was: an rtsp-over-WebSocket reply was TWO connection writes
   (frame header, then the text), made by the command goroutine while the
   forwarding goroutine writes media frames to the same queue.  A media frame
   that gets between them is swallowed as the reply's payload and the stream
   is lost; no full queue, no stalled player is needed.  Written as ONE unit
   (in_reply) nothing can get in between: c15_whole_units / c15_framing_ws. *)
Definition f35_resp : bytes := [82; 84; 83; 80].                       (* "RTSP" stands for the reply text *)
Definition f35_media : bytes := ws_write (pack_interleaved 0 [128; 96]).
Definition f35_wire (units : list wunit) : bytes :=
  let c := fst (enq_all true units (conn_new 8)) in
  c_wire (drain_conn (drain_conn_fuel c) c).

Lemma ws_reply_split_refuted :
  (* header | media frame of the publisher | text *)
  parse_all ws_parse1 20
    (f35_wire [[make_ws_frame_header true false false false 2 (lenN f35_resp) false 0]; [f35_media]; [f35_resp]]) = None /\
  (* the repaired structure, in either order *)
  parse_all ws_parse1 20 (f35_wire [[f35_media]; [ws_write f35_resp]]) = Some [pack_interleaved 0 [128; 96]; f35_resp] /\
  parse_all ws_parse1 20 (f35_wire [[ws_write f35_resp]; [f35_media]]) = Some [f35_resp; pack_interleaved 0 [128; 96]].
Proof. vm_compute. repeat split. Qed.

(* ---------------------------------------------------------------------- *)
(* rtsp interleaved with keep-alives: the player's stream is '$' frames AND the
   replies to its OPTIONS requests; the RFC 2326 reader reads it all. *)
Lemma scan_hdr_len l : forall acc h r, scan_hdr acc l = Some (h, r) -> (4 <= length l)%nat.
Proof.
  induction l as [|x t IH]; intros acc h r H; [discriminate|].
  cbn [scan_hdr] in H. destruct (is_crlfcrlf (x :: t)) eqn:E.
  - destruct t as [|b [|c [|d t']]]; try discriminate. cbn. lia.
  - apply IH in H. cbn. lia.
Qed.

Lemma is_crlfcrlf_app l r : (4 <= length l)%nat -> is_crlfcrlf (l ++ r) = is_crlfcrlf l.
Proof.
  intros H. destruct l as [|a [|b [|c [|d t]]]]; cbn in H; try lia. reflexivity.
Qed.

Lemma scan_hdr_app l : forall acc h r, scan_hdr acc l = Some (h, []) -> scan_hdr acc (l ++ r) = Some (h, r).
Proof.
  induction l as [|x t IH]; intros acc h r H; [discriminate|].
  pose proof (scan_hdr_len _ _ _ _ H) as Hlen.
  change ((x :: t) ++ r) with (x :: (t ++ r)). cbn [scan_hdr] in *.
  change (x :: t ++ r) with ((x :: t) ++ r). rewrite is_crlfcrlf_app by exact Hlen.
  destruct (is_crlfcrlf (x :: t)) eqn:E.
  - inversion H as [[H1 H2]]. f_equal. f_equal.
    destruct t as [|b [|c [|d t']]]; cbn in Hlen; try lia. cbn in H2. subst t'. reflexivity.
  - apply IH. exact H.
Qed.

Lemma rtsp_parse1_resp resp r : resp_ok resp -> rtsp_parse1 (resp ++ r) = Some (inr resp, r).
Proof.
  intros [[t ->] Hs]. change ((82 :: t) ++ r) with (82 :: (t ++ r)). cbn [rtsp_parse1].
  change (82 :: t ++ r) with ((82 :: t) ++ r). rewrite (scan_hdr_app _ _ _ r Hs). reflexivity.
Qed.

Lemma rtsp_parse1_pack ch raw r : ch < 256 -> lenN raw < 65536 ->
  rtsp_parse1 (pack_interleaved ch raw ++ r) = Some (inl (ch, raw), r).
Proof.
  intros Hch Hlen. pose proof (rtp_parse1_pack ch raw r Hch Hlen) as H.
  unfold pack_interleaved in *. cbn [app] in *. cbn [rtsp_parse1]. rewrite H. reflexivity.
Qed.

Theorem rtp_stream_mixed evs id su cap :
  (forall b, In b (pub_payloads evs) -> lenN b < 65536) ->
  (forall i size resp, In (EvIn i size (InOptions resp)) evs -> resp_ok resp) ->
  let s := srun evs (sess_new id (KRtp su) cap) in
  exists whole tail frames,
    c_wire (s_conn s) = concat whole ++ tail /\
    subseq whole (map ubytes (offered (KRtp su) evs)) /\
    parses rtsp_parse1 (concat whole) frames /\
    tail_ok (KRtp su) evs s tail.
Proof.
  intros Hpay Hresp s.
  destruct (framed_stream_ex rtsp_parse1 evs id (KRtp su) cap) as [del [tail [frames H]]].
  - intros u Hu. apply in_offered_inv in Hu.
    destruct Hu as [[eager [bufs [Hev Hu]]]|[i [size [x [Hin Hr]]]]].
    + unfold offered_units in Hu. cbn [sess_units] in Hu.
      destruct (rtp_track (concat bufs)) as [t|] eqn:Ht; [|contradiction].
      destruct (su_tcp su t); [|contradiction]. destruct Hu as [<-|[]].
      exists [inl (track_chan t, concat bufs)]. rewrite ubytes_single. apply unit_law_single.
      * unfold pack_interleaved. cbn. discriminate.
      * intros r. apply rtsp_parse1_pack; [destruct t; cbn; lia|apply Hpay; eapply in_pub_payloads; eassumption].
    + destruct x; cbn [in_reply] in Hr; try discriminate. inversion Hr; subst.
      exists [inr resp]. rewrite ubytes_single. pose proof (Hresp _ _ _ Hin) as Hok. apply unit_law_single.
      * destruct Hok as [[t ->] _]. discriminate.
      * intros r. apply rtsp_parse1_resp. exact Hok.
  - destruct H as [Hw [Hs [Hp [Ht Hq]]]].
    exists (map ubytes del), tail, frames. split; [exact Hw|split; [apply subseq_map; exact Hs|split; [exact Hp|split; assumption]]].
Qed.

(* the reply lal writes (with any CSeq of digits) is such a text *)
Example resp_ok_example :
  resp_ok ([82; 84; 83; 80; 47; 49; 46; 48; 32; 50; 48; 48; 32; 79; 75; 13; 10; 67; 83; 101; 113; 58; 32; 55; 13; 10; 13; 10]).
Proof. split; [eexists; reflexivity|vm_compute; reflexivity]. Qed.
