(* C15 - inbound traffic of a subscriber (RTCP receiver reports and RTP over the
   interleaved connection or UDP, RTSP keep-alive requests, RTMP acks and
   pings, bytes on an HTTP / WebSocket subscription) and the liveness sweep:
   an out-session lives by its WRITE progress only. *)
From Coq Require Import Lia ZifyN ZifyNat ZifyBool.
From Lal Require Import Common.LBytes Common.LBytesProofs Flv.FlvTag Flv.FlvWs
  Queue.QueueSubseq Queue.QueueWrite Queue.QueueWriteProofs Queue.QueueRtspSweepProofs.
Ltac Zify.zify_post_hook ::= Z.div_mod_to_equations.
Open Scope N_scope.

(* input that is neither answered nor ends the read loop (interleaved RTCP /
   RTP / unknown channel, datagrams, GET_PARAMETER, rtmp acks) touches the
   connection's READ counter and nothing else *)
Lemma in_local_pure size x s :
  in_reply (s_kind s) x = None -> in_ends (s_kind s) = false ->
  in_local size x s = s \/ in_local size x s = add_crd size s.
Proof.
  intros Hr He. unfold in_local. destruct (c_closed (s_conn s) || negb (in_ok (s_kind s) x)); [left; reflexivity|].
  rewrite Hr, He. right. reflexivity.
Qed.

(* ANY input, any kind, any state: the session's own write counter and the
   write-side state the sweep compares are untouched, or the session is closed *)
Lemma in_local_no_progress size x s :
  s_acc (in_local size x s) = s_acc s /\ s_stale (in_local size x s) = s_stale s /\
  (c_closed (s_conn (in_local size x s)) = true \/ sess_wrote (in_local size x s) = sess_wrote s).
Proof.
  destruct (in_local_kind size x s) as [Hk [_ [Hst Hacc]]]. repeat split; try assumption.
  unfold sess_wrote. rewrite Hk. destruct (is_rtp (s_kind s)); [right; exact Hacc|apply in_local_wrote].
Qed.

(* inbound events are "quiet": the stalled-consumer theorems quantify over them *)
Lemma quiet_in id i size x : quiet id (EvIn i size x).
Proof. exact I. Qed.

Lemma idle_in su i size x : idle_ev su (EvIn i size x).
Proof. exact I. Qed.

(* the three situations in which nothing is written to a consumer between two
   sweeps, each for every inbound schedule *)
Theorem inbound_never_keeps_alive evs s :
  Forall (quiet (s_id s)) evs ->
  is_rtp (s_kind s) = false \/
  (is_rtp (s_kind s) = true /\ su_no_udp (kind_setup (s_kind s)) = true /\ jammed (s_conn s)) ->
  c_closed (s_conn (sweep_one (srun evs (sweep_one s)))) = true.
Proof.
  intros Hq [Hk|[Hk [Hnu Hj]]]; [apply sweep_stalled|apply sweep_stalled_rtp]; assumption.
Qed.

(* non-vacuity / the schedule of the seeded defect C15r4-2: an interleaved player
   (video + audio, capacity 1) stops reading after two packets; between the
   sweeps it sends a receiver report on each RTCP channel, RTP on an RTP channel,
   a packet on a channel of no track, GET_PARAMETER, while the publisher goes on.
   Closed at the second sweep, write counter = the two packets that were taken. *)
Definition rr : inbound := InIlv 1 32.
Definition ex_in_evs (i : nat) : list event :=
  [EvIn i 36 (InIlv 1 32); EvPub true [f34_video]; EvIn i 36 (InIlv 3 32); EvIn i 16 (InIlv 0 12);
   EvIn i 12 (InIlv 9 8); EvIn i 50 InRequest; EvPub true [f34_audio]; EvIn i 36 (InIlv 1 32)].

Example inbound_example :
  let s0 := srun [EvPub true [f34_video]; EvPub true [f34_audio]] (sess_new 0 (KRtp setup_tcp) 1) in
  jammed (s_conn s0) /\ Forall (quiet 0) (ex_in_evs 0) /\
  let s2 := sweep_one (srun (ex_in_evs 0) (sweep_one s0)) in
  c_closed (s_conn s2) = true /\ s_acc s2 = 28 /\ s_crd s2 = 186.
Proof.
  cbv zeta. split; [|split].
  - right. split; [discriminate|]. vm_compute. lia.
  - repeat constructor.
  - vm_compute. repeat split.
Qed.

(* and an OPTIONS keep-alive from a jammed player: its reply is rejected by the
   full queue, the read loop ends, the connection is closed at once *)
Example inbound_options_example :
  let s0 := srun [EvPub true [f34_video]; EvPub true [f34_audio]] (sess_new 0 (KRtp setup_tcp) 1) in
  c_closed (s_conn (srun [EvIn 0 45 (InOptions [82; 84; 83; 80])] s0)) = true.
Proof. vm_compute. reflexivity. Qed.
