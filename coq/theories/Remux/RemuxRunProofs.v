(* C06, stream level (3): the whole Rtmp2MpegtsRemuxer (probe filter in front)
   over any sequence of FeedRtmpMessage / FlushAudio / Dispose calls, any observer:
   PAT/PMT comes first and once, the probe filter loses and reorders nothing,
   the per-track chains and the AAC batching invariant hold. *)
From Coq Require Import Lia ZifyN ZifyNat ZifyBool.
From Lal Require Import Common.LBytes Common.LBytesProofs Common.Res Group.GroupMsg Codec.CodecBits Codec.CodecAac
  Rtp.RtpPacker Mpegts.TsPack Mpegts.TsPsi Remux.RemuxTsTimestamp Remux.RemuxRtmp2Ts Remux.RemuxTsFilter
  Remux.RemuxStepProofs Remux.RemuxChainProofs Remux.RemuxBatchProofs.
Open Scope N_scope.

Definition ts_events (outs : list tsout) : list tsev :=
  flat_map (fun o => match o with OutTs e => [e] | OutPatPmt _ => [] end) outs.
Definition msgs_of (acts : list action) : list rmsg :=
  flat_map (fun a => match a with AMsg m => [m] | _ => [] end) acts.
Definition is_ts (o : tsout) : Prop := match o with OutTs _ => True | OutPatPmt _ => False end.
(* after the first PAT/PMT: frames, or a new version of the PMT (a track that started late) *)
Definition ts_or_pmt (o : tsout) : Prop :=
  match o with OutTs _ => True | OutPatPmt b => exists v a k, b = pack_pat ++ pack_pmt_ver v a k end.

Lemma ts_events_app a b : ts_events (a ++ b) = ts_events a ++ ts_events b.
Proof. unfold ts_events. apply flat_map_app. Qed.
Lemma ts_events_map evs : ts_events (map OutTs evs) = evs.
Proof. induction evs as [|e t IH]; [reflexivity|]. cbn [map ts_events flat_map app]. fold (ts_events (map OutTs t)). now rewrite IH. Qed.
Lemma msgs_of_app a b : msgs_of (a ++ b) = msgs_of a ++ msgs_of b.
Proof. unfold msgs_of. apply flat_map_app. Qed.
Lemma is_ts_map evs : Forall is_ts (map OutTs evs).
Proof. apply Forall_map. apply Forall_forall. intros; exact I. Qed.
Lemma ts_or_pmt_map evs : Forall ts_or_pmt (map OutTs evs).
Proof. apply Forall_map. apply Forall_forall. intros; exact I. Qed.

Lemma late_track_spec f m :
  fq_done (fst (late_track f m)) = fq_done f /\ fq_data (fst (late_track f m)) = fq_data f
  /\ match snd (late_track f m) with Some b => exists v a k, b = pack_pat ++ pack_pmt_ver v a k | None => True end.
Proof.
  unfold late_track. destruct (rm_type m =? type_audio).
  - destruct (_ || _); [now repeat split|]. destruct (_ || _); cbn [fst snd fq_done fq_data]; repeat split. now eexists _, _, _.
  - destruct (rm_type m =? type_video); [|now repeat split].
    destruct (negb _); [now repeat split|]. destruct (_ || _); cbn [fst snd fq_done fq_data]; repeat split. now eexists _, _, _.
Qed.

(* the messages the core has been handed so far *)
Definition popped (x : remuxer) (acts : list action) : list rmsg :=
  if fq_done (x_filter x) then msgs_of acts else [].

Definition run_inv (x : remuxer) (outs : list tsout) (acts : list action) : Prop :=
  chained (x_core x) (ts_events outs)
  /\ (Forall aac_only (msgs_of acts) -> batched (x_core x) (ts_events outs) (popped x acts))
  /\ (if fq_done (x_filter x)
      then exists v a rest, outs = OutPatPmt (pack_pat ++ pack_pmt v a) :: rest /\ Forall ts_or_pmt rest
      else outs = [] /\ fq_data (x_filter x) = msgs_of acts /\ x_core x = r2t_init).

Lemma run_inv_init : run_inv remuxer_init [] [].
Proof. split; [exact chained_init|]. split; [intros _; exact batched_init|]. cbn. now repeat split. Qed.

Section AnyObserver.
  Variable O : Type.
  Variable obs_decide : O -> tsev -> bool.
  Variable obs_apply : O -> tsev -> list tsev -> O.
  Variable obs_patpmt : O -> bytes -> O.

  Lemma flush_init_noop o : flush_audio O obs_decide obs_apply r2t_init o = (r2t_init, o, []).
  Proof. reflexivity. Qed.

  Lemma step_inv x o outs acts a x' o' outs' :
    run_inv x outs acts ->
    (match a with
     | AMsg m => feed_rtmp_message O obs_decide obs_apply obs_patpmt x o m
     | AFlush => remuxer_flush O obs_decide obs_apply x o
     | ADispose => remuxer_dispose O obs_decide obs_apply x o
     end) = (x', o', outs') ->
    run_inv x' (outs ++ outs') (acts ++ [a]).
  Proof.
    intros (Hc & Hb & Hf) E.
    assert (Hflush : remuxer_flush O obs_decide obs_apply x o = (x', o', outs') ->
                     msgs_of (acts ++ [a]) = msgs_of acts -> run_inv x' (outs ++ outs') (acts ++ [a])).
    { clear E. unfold remuxer_flush. intros E Hm.
      pose proof (flush_audio_is_flushed O obs_decide obs_apply (x_core x) o) as Hp.
      destruct (flush_audio O obs_decide obs_apply (x_core x) o) as [[s1 o1] evs] eqn:Ef.
      injection E as <- <- <-. unfold run_inv. cbn [x_core x_filter]. rewrite ts_events_app, ts_events_map.
      destruct (flushed_chained_all false (x_core x) (ts_events outs) s1 evs Hc Hp) as (Hc1 & _).
      split; [exact Hc1|]. split.
      - intros Ho. unfold popped. cbn [x_filter]. rewrite Hm in *. eapply flushed_batched; [exact (Hb Ho)|exact Hp].
      - destruct (fq_done (x_filter x)).
        + destruct Hf as (v & a0 & rest & -> & Hr). exists v, a0, (rest ++ map OutTs evs). split; [reflexivity|].
          apply Forall_app. split; [assumption|apply ts_or_pmt_map].
        + destruct Hf as (-> & Hd & Hi). rewrite Hi in Hp. cbn in Hp. injection Hp as <- <-.
          rewrite Hm. now repeat split. }
    destruct a as [m| |].
    - (* FeedRtmpMessage *)
      unfold feed_rtmp_message in E.
      assert (Hm : msgs_of (acts ++ [AMsg m]) = msgs_of acts ++ [m]) by (rewrite msgs_of_app; reflexivity).
      destruct (fq_done (x_filter x)) eqn:Ed.
      + destruct (late_track_spec (x_filter x) m) as (Ld & _ & Lp).
        destruct (late_track (x_filter x) m) as [f' pp]. cbn [fst snd] in Ld, Lp. rewrite Ed in Ld.
        set (o0 := match pp with Some b => obs_patpmt o b | None => o end) in *.
        destruct (on_pop_is_pure O obs_decide obs_apply (x_core x) o0 m) as [d Hd].
        destruct (on_pop O obs_decide obs_apply (x_core x) o0 m) as [[s1 o1] evs] eqn:Eo.
        injection E as <- <- <-. unfold run_inv. cbn [x_core x_filter].
        assert (Hev : ts_events (outs ++ match pp with Some b => [OutPatPmt b] | None => [] end ++ map OutTs evs) = ts_events outs ++ evs).
        { rewrite !ts_events_app, ts_events_map. destruct pp; cbn; reflexivity. }
        rewrite Hev.
        split; [eapply on_pop_chained; eassumption|]. split.
        * intros Ho. unfold popped in *. cbn [x_filter]. rewrite Ld. rewrite Ed in *. rewrite Hm in *.
          apply Forall_app in Ho. destruct Ho as [Ho1 Ho2]. inversion Ho2; subst.
          eapply on_pop_batched; [exact (Hb Ho1)|assumption|exact Hd].
        * rewrite Ld. destruct Hf as (v & a0 & rest & -> & Hr).
          exists v, a0, (rest ++ match pp with Some b => [OutPatPmt b] | None => [] end ++ map OutTs evs).
          split; [reflexivity|]. apply Forall_app. split; [assumption|]. apply Forall_app. split; [|apply ts_or_pmt_map].
          destruct pp; [constructor; [exact Lp|constructor]|constructor].
      + destruct Hf as (-> & Hdata & Hinit).
        set (a1 := if rm_type m =? type_audio then Z.of_N (pb m 0 / 16) else fq_acodec (x_filter x)) in *.
        set (v1 := if rm_type m =? type_video then Z.of_N (video_codec_id m) else fq_vcodec (x_filter x)) in *.
        set (f1 := mk_tsfilt (fq_data (x_filter x) ++ [m]) a1 v1 false (fq_version (x_filter x))) in *.
        assert (Hdrain : drain O obs_decide obs_apply obs_patpmt x o f1 = (x', o', outs') ->
                         run_inv x' ([] ++ outs') (acts ++ [AMsg m])).
        { unfold drain. cbn [fq_vcodec fq_acodec fq_data f1].
          set (pp := pack_pat ++ pack_pmt v1 a1).
          destruct (pop_all_is_pure O obs_decide obs_apply (fq_data (x_filter x) ++ [m]) (x_core x) (obs_patpmt o pp)) as [ds Hds].
          destruct (pop_all O obs_decide obs_apply (x_core x) (obs_patpmt o pp) (fq_data (x_filter x) ++ [m])) as [[s1 o1] evs] eqn:Ep.
          intros E'. injection E' as <- <- <-. unfold run_inv. cbn [app x_core x_filter fq_done ts_events flat_map]. fold (ts_events (map OutTs evs)).
          rewrite ts_events_map. rewrite Hinit in Hds.
          split; [exact (pop_all_chained _ _ _ [] _ _ chained_init Hds)|]. split.
          - intros Ho. unfold popped. cbn [x_filter fq_done]. rewrite Hm in *. rewrite <- Hdata in *.
            exact (pop_all_batched _ _ _ [] [] _ _ batched_init Ho Hds).
          - exists v1, a1, (map OutTs evs). split; [reflexivity|apply ts_or_pmt_map]. }
        destruct (negb (v1 =? -1)%Z && negb (a1 =? -1)%Z); [exact (Hdrain E)|].
        destruct (Nat.leb filter_max_msgs (length (fq_data f1))); [exact (Hdrain E)|].
        injection E as <- <- <-. unfold run_inv. cbn [app x_core x_filter fq_done fq_data f1 ts_events flat_map].
        rewrite Hinit. split; [exact chained_init|]. split; [intros _; exact batched_init|].
        rewrite Hm, Hdata. now repeat split.
    - apply Hflush; [exact E|]. rewrite msgs_of_app. cbn. now rewrite app_nil_r.
    - apply Hflush; [exact E|]. rewrite msgs_of_app. cbn. now rewrite app_nil_r.
  Qed.

  Lemma run_inv_all : forall acts x o outs0 acts0 x' o' outs,
    run_inv x outs0 acts0 ->
    run_actions O obs_decide obs_apply obs_patpmt x o acts = (x', o', outs) ->
    run_inv x' (outs0 ++ outs) (acts0 ++ acts).
  Proof.
    induction acts as [|a t IH]; intros x o outs0 acts0 x' o' outs Hi; cbn [run_actions].
    - intros H. injection H as <- <- <-. now rewrite !app_nil_r.
    - destruct (match a with
                | AMsg m => feed_rtmp_message O obs_decide obs_apply obs_patpmt x o m
                | AFlush => remuxer_flush O obs_decide obs_apply x o
                | ADispose => remuxer_dispose O obs_decide obs_apply x o
                end) as [[x1 o1] e1] eqn:E1.
      destruct (run_actions O obs_decide obs_apply obs_patpmt x1 o1 t) as [[x2 o2] e2] eqn:E2.
      intros H. injection H as <- <- <-.
      rewrite app_assoc. replace (acts0 ++ a :: t) with ((acts0 ++ [a]) ++ t) by now rewrite <- app_assoc.
      eapply IH; [|exact E2]. eapply step_inv; eassumption.
  Qed.

  (* from a fresh remuxer *)
  Theorem run_invariant acts o x' o' outs :
    run_actions O obs_decide obs_apply obs_patpmt remuxer_init o acts = (x', o', outs) ->
    run_inv x' outs acts.
  Proof. intros H. exact (run_inv_all acts remuxer_init o [] [] x' o' outs run_inv_init H). Qed.
End AnyObserver.

Section AnyObserver2.
  Variable O : Type.
  Variable obs_decide : O -> tsev -> bool.
  Variable obs_apply : O -> tsev -> list tsev -> O.
  Variable obs_patpmt : O -> bytes -> O.

  Lemma run_actions_app : forall a b x o,
    run_actions O obs_decide obs_apply obs_patpmt x o (a ++ b)
    = let '(x1, o1, e1) := run_actions O obs_decide obs_apply obs_patpmt x o a in
      let '(x2, o2, e2) := run_actions O obs_decide obs_apply obs_patpmt x1 o1 b in
      (x2, o2, e1 ++ e2).
  Proof.
    induction a as [|h t IH]; intros b x o; cbn [app run_actions].
    - destruct (run_actions _ _ _ _ x o b) as [[x2 o2] e2]. reflexivity.
    - destruct (match h with
                | AMsg m => feed_rtmp_message O obs_decide obs_apply obs_patpmt x o m
                | AFlush => remuxer_flush O obs_decide obs_apply x o
                | ADispose => remuxer_dispose O obs_decide obs_apply x o
                end) as [[x1 o1] e1].
      rewrite IH. destruct (run_actions _ _ _ _ x1 o1 t) as [[x2 o2] e2].
      destruct (run_actions _ _ _ _ x2 o2 b) as [[x3 o3] e3]. now rewrite app_assoc.
  Qed.

  (* Dispose at the end: every published AAC frame is in a PES *)
  Theorem run_audio_complete acts o x' o' outs :
    run_actions O obs_decide obs_apply obs_patpmt remuxer_init o (acts ++ [ADispose]) = (x', o', outs) ->
    fq_done (x_filter x') = true -> Forall aac_only (msgs_of acts) ->
    exists groups,
      snd (aac_walk (msgs_of acts)) = concat groups
      /\ map (fun e => f_raw (te_frame e)) (audio_evs (ts_events outs)) = map render groups
      /\ map te_dts0 (audio_evs (ts_events outs)) = map group_dts groups
      /\ Forall (fun x => x <> []) groups.
  Proof.
    rewrite run_actions_app.
    destruct (run_actions O obs_decide obs_apply obs_patpmt remuxer_init o acts) as [[x1 o1] e1] eqn:E1.
    cbn [run_actions]. unfold remuxer_dispose, remuxer_flush.
    pose proof (flush_audio_is_flushed O obs_decide obs_apply (x_core x1) o1) as Hp.
    destruct (flush_audio O obs_decide obs_apply (x_core x1) o1) as [[s2 o2] evs2].
    intros H Hdone Ho. injection H as <- <- <-. cbn [x_filter] in Hdone.
    destruct (run_invariant O obs_decide obs_apply obs_patpmt acts o x1 o1 e1 E1) as (_ & Hb & _).
    specialize (Hb Ho). unfold popped in Hb. rewrite Hdone in Hb.
    rewrite app_nil_r, ts_events_app, ts_events_map.
    eapply batched_flushed_complete; eassumption.
  Qed.
End AnyObserver2.

(* time stamps of a whole run: per track, relative to the first frame of the track *)
Definition track_evs (audio : bool) (evs : list tsev) : list tsev :=
  filter (if audio then is_audio_ev else is_video_ev) evs.

Lemma chained_track s evs audio : chained s evs -> chain max_u64 0 (track_evs audio evs).
Proof. intros ((Ha & _) & (Hv & _) & _). destruct audio; assumption. Qed.

Lemma track_times audio s evs e0 rest e :
  chained s evs -> track_evs audio evs = e0 :: rest -> te_dts0 e0 <> max_u64 -> In e (e0 :: rest) ->
  f_dts (te_frame e) = rebase_dts (te_dts0 e) (te_dts0 e0)
  /\ f_pts (te_frame e) = u64 (f_dts (te_frame e) + 90 * te_cts e).
Proof.
  intros Hc Ht Hb Hin. pose proof (chained_track s evs audio Hc) as Hch. rewrite Ht in Hch.
  destruct Hin as [<-|Hin].
  - destruct (chain_first_base _ _ _ Hch) as (H0 & _). cbn [chain] in Hch. destruct Hch as (_ & _ & _ & Hp & _).
    split; [|exact Hp]. rewrite H0. unfold rebase_dts. rewrite N.ltb_irrefl. lia.
  - destruct (chain_first_base _ _ _ Hch) as (_ & Hr). exact (chain_times rest _ _ e Hr Hb Hin).
Qed.
