(* C06: the remuxer without its observer.  Whatever the observer is, what one
   step does to the remuxer state and which frames it emits is determined by
   the one decision bit per top-level frame ("did the observer call FlushAudio
   during this callback"): [on_pop_pure d] etc.  All stream-level invariants
   are proved on these pure steps and hold for every observer by
   [on_pop_is_pure] / [pop_all_is_pure] / [run_is_pure]. *)
From Coq Require Import Lia ZifyN ZifyNat ZifyBool.
From Lal Require Import Common.LBytes Common.LBytesProofs Common.Res Group.GroupMsg Codec.CodecBits Codec.CodecAac
  Codec.CodecAvcSeqHeader Codec.CodecHevcSeqHeader Codec.CodecNalFraming Rtp.RtpPacker
  Mpegts.TsPack Mpegts.TsPsi Remux.RemuxTsTimestamp Remux.RemuxRtmp2Ts Remux.RemuxTsFilter.
Open Scope N_scope.

(* the audio cache emitted as one frame (FlushAudio); [n] = called from inside a callback *)
Definition flushed (n : bool) (s : r2t) : r2t * list tsev :=
  if audio_cache_empty s then (s, [])
  else
    let (s1, ev) := on_frame_core n (set_acache s [] (r_afirst s)) (audio_frame s) 0 in
    (set_acc s1 (te_cc ev), [ev]).

Definition on_frame_pure (d : bool) (s : r2t) (f : frame) (cts : N) : r2t * list tsev * tsev :=
  let (s1, ev) := on_frame_core false s f cts in
  if d then let (s2, nested) := flushed true s1 in (s2, nested ++ [ev], ev) else (s1, [ev], ev).

Definition feed_video_pure (d : bool) (s : r2t) (m : rmsg) : r2t * list tsev :=
  if lenN (rm_payload m) <=? 5 then (s, [])
  else
    let cid := video_codec_id m in
    if negb ((cid =? codec_id_avc) || (cid =? codec_id_hevc)) then (s, [])
    else if is_avc_key_seq_header m then (set_spspps s (res_to_opt (avc_seq_header2annexb (rm_payload m))), [])
    else if is_hevc_key_seq_header m then
      if is_ext_header m then
        (set_spspps s (res_to_opt
           (let* (v, sp, q) := hevc_parse_enhanced_seq_header (rm_payload m) in
            Ok (hsc4 ++ v ++ hsc4 ++ sp ++ hsc4 ++ q))), [])
      else (set_spspps s (res_to_opt (hevc_seq_header2annexb (rm_payload m))), [])
    else if enhanced_too_short m then (s, [])
    else
      let c := if cid =? codec_id_hevc then Hevc else Avc in
      let body := if (cid =? codec_id_hevc) && is_enhanced_hevc_nalu m
                  then skipn (enhanced_nalu_index m) (rm_payload m) else skipn 5 (rm_payload m) in
      match iterate_nalu_avcc body with
      | (_, Some _) => (s, [])
      | (nals, None) =>
        match video_loop c nals (r_spspps s) [] [] [] false false [] with
        | (cache, None) => (set_spspps s cache, [])
        | (cache, Some []) => (set_spspps s cache, [])
        | (cache, Some out) =>
          let s0 := set_spspps s cache in
          let dts := u64 (rm_ts m * 90) in
          let (s1, evs1) :=
            if negb (audio_cache_empty s0) && (r_afirst s0 + max_audio_delay_by_video <? dts)
            then flushed false s0 else (s0, []) in
          let cts := video_cts m in
          let f := mk_frame (u64 (dts + 90 * cts)) dts (r_vcc s1) pid_video sid_video (is_video_key_nalu m) out in
          let '(s2, evs2, ev) := on_frame_pure d s1 f cts in
          (set_vcc s2 (te_cc ev), evs1 ++ evs2)
        end
      end.

Definition feed_audio_pure (s : r2t) (m : rmsg) : r2t * list tsev :=
  if lenN (rm_payload m) <=? 2 then (s, [])
  else
    let pts := u64 (rm_ts m * 90) in
    if audio_codec_id m =? sound_aac then
      if pb m 1 =? 0 then (set_asc s (res_to_opt (asc_unpack (skipn 2 (rm_payload m)))), [])
      else
        match r_asc s with
        | None => (s, [])
        | Some asc =>
          let (s1, evs) :=
            if negb (audio_cache_empty s) && (r_afirst s + max_audio_delay_by_audio <? pts)
            then flushed false s else (s, []) in
          let first := if audio_cache_empty s1 then pts else r_afirst s1 in
          let hdr := adts_pack asc (u32 (lenN (rm_payload m) + 4294967294)) in
          (set_acache s1 (r_acache s1 ++ hdr ++ skipn 2 (rm_payload m)) first, evs)
        end
    else flushed false (set_acache s (r_acache s ++ skipn 1 (rm_payload m)) pts).

Definition on_pop_pure (d : bool) (s : r2t) (m : rmsg) : r2t * list tsev :=
  if rm_type m =? type_audio then
    if negb ((audio_codec_id m =? sound_aac) || (audio_codec_id m =? sound_opus)) then (s, [])
    else feed_audio_pure s m
  else if rm_type m =? type_video then feed_video_pure d s m
  else (s, []).

(* one decision per message (only the decision of the message's own video frame matters) *)
Fixpoint pop_all_pure (ds : list bool) (s : r2t) (ms : list rmsg) : r2t * list tsev :=
  match ms with
  | [] => (s, [])
  | m :: t =>
    let (s1, e1) := on_pop_pure (hd false ds) s m in
    let (s2, e2) := pop_all_pure (tl ds) s1 t in
    (s2, e1 ++ e2)
  end.

Section AnyObserver.
  Variable O : Type.
  Variable obs_decide : O -> tsev -> bool.
  Variable obs_apply : O -> tsev -> list tsev -> O.
  Variable obs_patpmt : O -> bytes -> O.

  Lemma flush_nested_is_flushed s : flush_audio_nested s = flushed true s.
  Proof. reflexivity. Qed.

  Lemma flushed_cache_empty n s s' evs : flushed n s = (s', evs) -> audio_cache_empty s' = true.
  Proof.
    unfold flushed. destruct (audio_cache_empty s) eqn:E.
    - intros H. injection H as <- _. exact E.
    - unfold on_frame_core. destruct (tsfilter_do _ _ _ _ _) as [[tf d] p].
      destruct (pack _) as [pk cc]. intros H. injection H as <- _. reflexivity.
  Qed.

  Lemma core_keeps_cache n s f cts s' ev : on_frame_core n s f cts = (s', ev) -> r_acache s' = r_acache s.
  Proof.
    unfold on_frame_core. destruct (tsfilter_do _ _ _ _ _) as [[tf d] p]. destruct (pack _) as [pk cc].
    intros H. injection H as <- _. reflexivity.
  Qed.

  Lemma on_frame_is_pure s o f cts :
    exists d, let '(s', _, evs, ev) := on_frame O obs_decide obs_apply s o f cts in
              on_frame_pure d s f cts = (s', evs, ev).
  Proof.
    unfold on_frame, on_frame_pure. destruct (on_frame_core false s f cts) as [s1 ev].
    exists (obs_decide o ev). destruct (obs_decide o ev); [|reflexivity].
    rewrite flush_nested_is_flushed. destruct (flushed true s1) as [s2 nested]. reflexivity.
  Qed.

  (* the top-level FlushAudio does not depend on the observer at all: the
     cache is reset before the callback, a re-entrant FlushAudio finds it empty *)
  Lemma flush_audio_is_flushed s o :
    let '(s', _, evs) := flush_audio O obs_decide obs_apply s o in flushed false s = (s', evs).
  Proof.
    unfold flush_audio, flushed. destruct (audio_cache_empty s) eqn:E; [reflexivity|].
    unfold on_frame.
    destruct (on_frame_core false (set_acache s [] (r_afirst s)) (audio_frame s) 0) as [s1 ev] eqn:Ec.
    assert (Hemp : audio_cache_empty s1 = true).
    { unfold audio_cache_empty. rewrite (core_keeps_cache _ _ _ _ _ _ Ec). reflexivity. }
    destruct (obs_decide o ev); [|reflexivity].
    unfold flush_audio_nested. rewrite Hemp. reflexivity.
  Qed.

  Lemma feed_video_is_pure s o m :
    exists d, let '(s', _, evs) := feed_video O obs_decide obs_apply s o m in feed_video_pure d s m = (s', evs).
  Proof.
    unfold feed_video, feed_video_pure.
    destruct (lenN (rm_payload m) <=? 5); [exists false; reflexivity|].
    destruct (negb _); [exists false; reflexivity|].
    destruct (is_avc_key_seq_header m); [exists false; reflexivity|].
    destruct (is_hevc_key_seq_header m); [destruct (is_ext_header m); exists false; reflexivity|].
    destruct (enhanced_too_short m); [exists false; reflexivity|].
    destruct (iterate_nalu_avcc _) as [nals [e|]]; [exists false; reflexivity|].
    destruct (video_loop _ _ _ _ _ _ _ _ _) as [cache [[|b out]|]]; try (exists false; reflexivity).
    set (s0 := set_spspps s cache).
    set (dts := u64 (rm_ts m * 90)).
    destruct (negb (audio_cache_empty s0) && (r_afirst s0 + max_audio_delay_by_video <? dts)).
    - pose proof (flush_audio_is_flushed s0 o) as Hf.
      destruct (flush_audio O obs_decide obs_apply s0 o) as [[s1 o1] evs1]. rewrite Hf.
      set (f := mk_frame _ _ _ _ _ _ _).
      destruct (on_frame_is_pure s1 o1 f (video_cts m)) as [d Hd]. exists d.
      destruct (on_frame O obs_decide obs_apply s1 o1 f (video_cts m)) as [[[s2 o2] evs2] ev]. rewrite Hd. reflexivity.
    - set (f := mk_frame _ _ _ _ _ _ _).
      destruct (on_frame_is_pure s0 o f (video_cts m)) as [d Hd]. exists d.
      destruct (on_frame O obs_decide obs_apply s0 o f (video_cts m)) as [[[s2 o2] evs2] ev]. rewrite Hd. reflexivity.
  Qed.

  Lemma feed_audio_is_pure s o m :
    let '(s', _, evs) := feed_audio O obs_decide obs_apply s o m in feed_audio_pure s m = (s', evs).
  Proof.
    unfold feed_audio, feed_audio_pure.
    destruct (lenN (rm_payload m) <=? 2); [reflexivity|].
    destruct (audio_codec_id m =? sound_aac).
    - destruct (pb m 1 =? 0); [reflexivity|]. destruct (r_asc s) as [asc|]; [|reflexivity].
      destruct (negb (audio_cache_empty s) && (r_afirst s + max_audio_delay_by_audio <? u64 (rm_ts m * 90))); [|reflexivity].
      pose proof (flush_audio_is_flushed s o) as Hf.
      destruct (flush_audio O obs_decide obs_apply s o) as [[s1 o1] evs1]. rewrite Hf. reflexivity.
    - apply flush_audio_is_flushed.
  Qed.

  Lemma on_pop_is_pure s o m :
    exists d, let '(s', _, evs) := on_pop O obs_decide obs_apply s o m in on_pop_pure d s m = (s', evs).
  Proof.
    unfold on_pop, on_pop_pure. destruct (rm_type m =? type_audio).
    - destruct (negb _); [exists false; reflexivity|]. exists false. apply feed_audio_is_pure.
    - destruct (rm_type m =? type_video); [apply feed_video_is_pure|exists false; reflexivity].
  Qed.

  Lemma pop_all_is_pure : forall ms s o,
    exists ds, let '(s', _, evs) := pop_all O obs_decide obs_apply s o ms in pop_all_pure ds s ms = (s', evs).
  Proof.
    induction ms as [|m t IH]; intros s o; [exists []; reflexivity|].
    cbn [pop_all pop_all_pure].
    destruct (on_pop_is_pure s o m) as [d Hd].
    destruct (on_pop O obs_decide obs_apply s o m) as [[s1 o1] e1].
    destruct (IH s1 o1) as [ds Hds].
    destruct (pop_all O obs_decide obs_apply s1 o1 t) as [[s2 o2] e2].
    exists (d :: ds). cbn [hd tl]. rewrite Hd, Hds. reflexivity.
  Qed.
End AnyObserver.
