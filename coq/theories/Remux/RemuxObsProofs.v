(* C06: what ANY observer of the remuxer experiences is a sequence of
   callbacks - OnPatPmt(b), or OnTsPackets of a frame [e] during which the
   frames [nested] were handed over re-entrantly - such that
     * the observer's final state is the callbacks replayed on it,
     * the remuxer's output list is the callbacks flattened (nested frames first),
     * nested frames only ever occur in a callback for which the observer
       decided to call FlushAudio,
     * nested frames carry te_nested = true, the others false. *)
From Coq Require Import Lia.
From Lal Require Import Common.LBytes Common.Res Group.GroupMsg Codec.CodecNalFraming Codec.CodecAac Mpegts.TsPack Mpegts.TsPsi
  Remux.RemuxTsTimestamp Remux.RemuxRtmp2Ts Remux.RemuxTsFilter.
Open Scope N_scope.

Inductive cb :=
| CbTs (e : tsev) (nested : list tsev)
| CbPatPmt (b : bytes).

Definition cb_outs (l : list cb) : list tsout :=
  flat_map (fun c => match c with CbTs e n => map OutTs (n ++ [e]) | CbPatPmt b => [OutPatPmt b] end) l.
Definition cb_evs (l : list cb) : list tsev :=
  flat_map (fun c => match c with CbTs e n => n ++ [e] | CbPatPmt _ => [] end) l.
Definition cb_flags (c : cb) : Prop :=
  match c with CbTs e n => te_nested e = false /\ Forall (fun x => te_nested x = true) n | CbPatPmt _ => True end.

Section Obs.
  Variable O : Type.
  Variable obs_decide : O -> tsev -> bool.
  Variable obs_apply : O -> tsev -> list tsev -> O.
  Variable obs_patpmt : O -> bytes -> O.

  Fixpoint replay (o : O) (l : list cb) : O :=
    match l with
    | [] => o
    | CbTs e n :: t => replay (obs_apply o e n) t
    | CbPatPmt b :: t => replay (obs_patpmt o b) t
    end.

  Fixpoint cb_valid (o : O) (l : list cb) : Prop :=
    match l with
    | [] => True
    | CbTs e n :: t => (n = [] \/ obs_decide o e = true) /\ cb_valid (obs_apply o e n) t
    | CbPatPmt b :: t => cb_valid (obs_patpmt o b) t
    end.

  Lemma replay_app a : forall o b, replay o (a ++ b) = replay (replay o a) b.
  Proof. induction a as [|[e n|x] t IH]; intros o b; cbn [app replay]; [reflexivity|apply IH|apply IH]. Qed.

  Lemma cb_valid_app a : forall o b, cb_valid o a -> cb_valid (replay o a) b -> cb_valid o (a ++ b).
  Proof.
    induction a as [|[e n|x] t IH]; intros o b Ha Hb; cbn [app replay cb_valid] in *; [exact Hb| |now apply IH].
    destruct Ha as [H1 H2]. split; [exact H1|now apply IH].
  Qed.

  (* what a step has to satisfy *)
  Definition traced (o o' : O) (evs : list tsev) : Prop :=
    exists cbs, o' = replay o cbs /\ cb_valid o cbs /\ evs = cb_evs cbs /\ Forall cb_flags cbs
                /\ Forall (fun c => match c with CbTs _ _ => True | CbPatPmt _ => False end) cbs.

  Lemma traced_nil o : traced o o [].
  Proof. exists []. repeat split; constructor. Qed.

  Lemma traced_app o o1 o2 e1 e2 : traced o o1 e1 -> traced o1 o2 e2 -> traced o o2 (e1 ++ e2).
  Proof.
    intros (c1 & -> & V1 & -> & F1 & T1) (c2 & -> & V2 & -> & F2 & T2). exists (c1 ++ c2).
    split; [now rewrite replay_app|]. split; [now apply cb_valid_app|]. split; [unfold cb_evs; now rewrite flat_map_app|].
    split; apply Forall_app; now split.
  Qed.

  Lemma core_nested n s f cts s' ev : on_frame_core n s f cts = (s', ev) -> te_nested ev = n /\ r_acache s' = r_acache s.
  Proof.
    unfold on_frame_core. destruct (tsfilter_do _ _ _ _ _) as [[tf d] p]. destruct (pack _) as [pk cc].
    intros H. injection H as <- <-. now split.
  Qed.

  Lemma flush_nested_flags s s' evs : flush_audio_nested s = (s', evs) -> Forall (fun x => te_nested x = true) evs.
  Proof.
    unfold flush_audio_nested. destruct (audio_cache_empty s); [intros H; injection H as _ <-; constructor|].
    destruct (on_frame_core true _ _ 0) as [s1 ev] eqn:E. intros H. injection H as _ <-.
    constructor; [exact (proj1 (core_nested _ _ _ _ _ _ E))|constructor].
  Qed.

  Lemma on_frame_traced s o f cts s' o' evs ev :
    on_frame O obs_decide obs_apply s o f cts = (s', o', evs, ev) -> traced o o' evs.
  Proof.
    unfold on_frame. destruct (on_frame_core false s f cts) as [s1 ev0] eqn:Ec.
    pose proof (proj1 (core_nested _ _ _ _ _ _ Ec)) as Hn.
    destruct (obs_decide o ev0) eqn:Ed.
    - destruct (flush_audio_nested s1) as [s2 nested] eqn:Ef. intros H. injection H as <- <- <- <-.
      exists [CbTs ev0 nested]. cbn [replay cb_valid cb_evs flat_map]. rewrite app_nil_r.
      repeat split; try reflexivity; try (now right); try (repeat constructor).
      + exact Hn.
      + exact (flush_nested_flags _ _ _ Ef).
    - intros H. injection H as <- <- <- <-. exists [CbTs ev0 []]. cbn [replay cb_valid cb_evs flat_map app].
      repeat split; try reflexivity; try (now left); repeat constructor. exact Hn.
  Qed.

  Lemma flush_audio_traced s o s' o' evs :
    flush_audio O obs_decide obs_apply s o = (s', o', evs) -> traced o o' evs.
  Proof.
    unfold flush_audio. destruct (audio_cache_empty s); [intros H; injection H as _ <- <-; apply traced_nil|].
    destruct (on_frame O obs_decide obs_apply _ o _ 0) as [[[s1 o1] e1] ev] eqn:E. intros H. injection H as _ <- <-.
    exact (on_frame_traced _ _ _ _ _ _ _ _ E).
  Qed.

  Lemma feed_video_traced s o m s' o' evs :
    feed_video O obs_decide obs_apply s o m = (s', o', evs) -> traced o o' evs.
  Proof.
    unfold feed_video.
    destruct (lenN (rm_payload m) <=? 5); [intros H; injection H as _ <- <-; apply traced_nil|].
    destruct (negb _); [intros H; injection H as _ <- <-; apply traced_nil|].
    destruct (is_avc_key_seq_header m); [intros H; injection H as _ <- <-; apply traced_nil|].
    destruct (is_hevc_key_seq_header m); [destruct (is_ext_header m); intros H; injection H as _ <- <-; apply traced_nil|].
    destruct (enhanced_too_short m); [intros H; injection H as _ <- <-; apply traced_nil|].
    destruct (iterate_nalu_avcc _) as [nals [e|]]; [intros H; injection H as _ <- <-; apply traced_nil|].
    destruct (video_loop _ _ _ _ _ _ _ _ _) as [cache [[|b out]|]]; try (intros H; injection H as _ <- <-; apply traced_nil).
    set (s0 := set_spspps s cache).
    destruct (if negb (audio_cache_empty s0) && (r_afirst s0 + max_audio_delay_by_video <? u64 (rm_ts m * 90))
              then flush_audio O obs_decide obs_apply s0 o else (s0, o, [])) as [[s1 o1] evs1] eqn:Ef.
    assert (T1 : traced o o1 evs1).
    { destruct (negb (audio_cache_empty s0) && (r_afirst s0 + max_audio_delay_by_video <? u64 (rm_ts m * 90))).
      - exact (flush_audio_traced _ _ _ _ _ Ef).
      - injection Ef as _ <- <-. apply traced_nil. }
    destruct (on_frame O obs_decide obs_apply s1 o1 _ (video_cts m)) as [[[s2 o2] evs2] ev] eqn:Eo.
    intros H. injection H as _ <- <-. eapply traced_app; [exact T1|exact (on_frame_traced _ _ _ _ _ _ _ _ Eo)].
  Qed.

  Lemma feed_audio_traced s o m s' o' evs :
    feed_audio O obs_decide obs_apply s o m = (s', o', evs) -> traced o o' evs.
  Proof.
    unfold feed_audio.
    destruct (lenN (rm_payload m) <=? 2); [intros H; injection H as _ <- <-; apply traced_nil|].
    destruct (audio_codec_id m =? sound_aac).
    - destruct (pb m 1 =? 0); [intros H; injection H as _ <- <-; apply traced_nil|].
      destruct (r_asc s) as [asc|]; [|intros H; injection H as _ <- <-; apply traced_nil].
      destruct (if negb (audio_cache_empty s) && (r_afirst s + max_audio_delay_by_audio <? u64 (rm_ts m * 90))
                then flush_audio O obs_decide obs_apply s o else (s, o, [])) as [[s1 o1] evs1] eqn:Ef.
      intros H. injection H as _ <- <-.
      destruct (negb (audio_cache_empty s) && (r_afirst s + max_audio_delay_by_audio <? u64 (rm_ts m * 90))).
      + exact (flush_audio_traced _ _ _ _ _ Ef).
      + injection Ef as _ <- <-. apply traced_nil.
    - apply flush_audio_traced.
  Qed.

  Lemma on_pop_traced s o m s' o' evs :
    on_pop O obs_decide obs_apply s o m = (s', o', evs) -> traced o o' evs.
  Proof.
    unfold on_pop. destruct (rm_type m =? type_audio).
    - destruct (negb _); [intros H; injection H as _ <- <-; apply traced_nil|apply feed_audio_traced].
    - destruct (rm_type m =? type_video); [apply feed_video_traced|intros H; injection H as _ <- <-; apply traced_nil].
  Qed.

  Lemma pop_all_traced : forall ms s o s' o' evs,
    pop_all O obs_decide obs_apply s o ms = (s', o', evs) -> traced o o' evs.
  Proof.
    induction ms as [|m t IH]; intros s o s' o' evs; cbn [pop_all].
    - intros H. injection H as _ <- <-. apply traced_nil.
    - destruct (on_pop O obs_decide obs_apply s o m) as [[s1 o1] e1] eqn:E1.
      destruct (pop_all O obs_decide obs_apply s1 o1 t) as [[s2 o2] e2] eqn:E2.
      intros H. injection H as _ <- <-. eapply traced_app; [exact (on_pop_traced _ _ _ _ _ _ E1)|exact (IH _ _ _ _ _ E2)].
  Qed.

  (* with PAT/PMT: the whole remuxer *)
  Definition traced_x (o o' : O) (outs : list tsout) : Prop :=
    exists cbs, o' = replay o cbs /\ cb_valid o cbs /\ outs = cb_outs cbs /\ Forall cb_flags cbs.

  Lemma traced_to_x o o' evs : traced o o' evs -> traced_x o o' (map OutTs evs).
  Proof.
    intros (cbs & -> & V & -> & F & T). exists cbs. repeat split; try assumption.
    clear V F. induction cbs as [|[e n|b] t IH]; [reflexivity| |inversion T; contradiction].
    inversion T; subst. cbn [cb_evs cb_outs flat_map]. rewrite map_app. f_equal. now apply IH.
  Qed.

  Lemma traced_x_app o o1 o2 e1 e2 : traced_x o o1 e1 -> traced_x o1 o2 e2 -> traced_x o o2 (e1 ++ e2).
  Proof.
    intros (c1 & -> & V1 & -> & F1) (c2 & -> & V2 & -> & F2). exists (c1 ++ c2).
    split; [now rewrite replay_app|]. split; [now apply cb_valid_app|]. split; [unfold cb_outs; now rewrite flat_map_app|].
    apply Forall_app; now split.
  Qed.

  Lemma feed_rtmp_message_traced x o m x' o' outs :
    feed_rtmp_message O obs_decide obs_apply obs_patpmt x o m = (x', o', outs) -> traced_x o o' outs.
  Proof.
    unfold feed_rtmp_message. destruct (fq_done (x_filter x)).
    - destruct (late_track (x_filter x) m) as [f' pp].
      set (o0 := match pp with Some b => obs_patpmt o b | None => o end).
      destruct (on_pop O obs_decide obs_apply (x_core x) o0 m) as [[s1 o1] evs] eqn:E.
      intros H. injection H as _ <- <-. apply (traced_x_app o o0).
      + destruct pp as [b|]; [exists [CbPatPmt b]; repeat split; constructor; [exact I|constructor]|exists []; repeat split; constructor].
      + apply traced_to_x. exact (on_pop_traced _ _ _ _ _ _ E).
    - set (f1 := mk_tsfilt _ _ _ _ _).
      assert (Hd : forall r, drain O obs_decide obs_apply obs_patpmt x o f1 = r -> traced_x o (snd (fst r)) (snd r)).
      { intros r <-. unfold drain. set (pp := pack_pat ++ pack_pmt (fq_vcodec f1) (fq_acodec f1)).
        destruct (pop_all O obs_decide obs_apply (x_core x) (obs_patpmt o pp) (fq_data f1)) as [[s1 o1] evs] eqn:E.
        cbn [fst snd]. change (OutPatPmt pp :: map OutTs evs) with ([OutPatPmt pp] ++ map OutTs evs).
        apply (traced_x_app o (obs_patpmt o pp)).
        - exists [CbPatPmt pp]. repeat split; constructor; [exact I|constructor].
        - apply traced_to_x. exact (pop_all_traced _ _ _ _ _ _ E). }
      destruct (_ && _); [intros H; specialize (Hd _ H); exact Hd|].
      destruct (Nat.leb _ _); [intros H; specialize (Hd _ H); exact Hd|].
      intros H. injection H as _ <- <-. exists []. repeat split; constructor.
  Qed.

  Lemma remuxer_flush_traced x o x' o' outs :
    remuxer_flush O obs_decide obs_apply x o = (x', o', outs) -> traced_x o o' outs.
  Proof.
    unfold remuxer_flush. destruct (flush_audio O obs_decide obs_apply (x_core x) o) as [[s1 o1] evs] eqn:E.
    intros H. injection H as _ <- <-. apply traced_to_x. exact (flush_audio_traced _ _ _ _ _ E).
  Qed.
End Obs.
