(* C07: gb28181.PsUnpacker reassembles a video access unit from one or more
   PES packets.  PES packets are written by a reference writer (ISO 13818-1
   2.4.3.6: start code, stream id, length, '10' flags, PTS_DTS_flags,
   header data length, 33-bit PTS in 5 bytes with marker bits); a frame is a
   maximal run of PES packets with one PTS (packets without PTS continue the
   running frame); it is handed to iterateNaluByStartCode when the first
   packet with another PTS arrives. *)
From Coq Require Import Lia ZifyN ZifyNat ZifyBool.
From Lal Require Import Common.LBytes Common.LBytesProofs Common.Res Net.NetChk Net.NetChkProofs Net.NetPs.
Open Scope N_scope.
Ltac Zify.zify_post_hook ::= Z.div_mod_to_equations.

(* ---------------------------------------------------------------- reference PES writer *)
Definition pts_field (v : N) : bytes :=
  [32 + ((v / 1073741824) mod 8) * 2 + 1; (v / 4194304) mod 256; ((v / 32768) mod 128) * 2 + 1;
   (v / 128) mod 256; (v mod 128) * 2 + 1].
Definition pes_hd (pts : option N) : bytes := match pts with Some v => pts_field v | None => [] end.
Definition pes_flags (pts : option N) : N := match pts with Some _ => 128 | None => 0 end.
Definition pes_len (pts : option N) (data : bytes) : N := 3 + lenN (pes_hd pts) + lenN data.
Definition pes_pkt (sid : N) (pts : option N) (data : bytes) : bytes :=
  0 :: 0 :: 1 :: sid :: (pes_len pts data / 256) mod 256 :: pes_len pts data mod 256
    :: 140 :: pes_flags pts :: lenN (pes_hd pts) :: pes_hd pts ++ data.

Definition pes_ok (x : option N * bytes) : Prop :=
  pes_len (fst x) (snd x) < 65536 /\ match fst x with Some v => v < 8589934592 | None => True end.

Lemma pts_value v : v < 8589934592 ->
  (((32 + ((v / 1073741824) mod 8) * 2 + 1) / 2) mod 8) * 1073741824
  + ((((v / 4194304) mod 256) * 256 + (((v / 32768) mod 128) * 2 + 1)) / 2) * 32768
  + (((v / 128) mod 256) * 256 + ((v mod 128) * 2 + 1)) / 2 = v.
Proof. intros H. lia. Qed.

Lemma idx_nth site l i x : nth_error l (N.to_nat i) = Some x -> idx site l i = Ok x.
Proof.
  intros H. unfold idx. assert (i <? lenN l = true) as ->.
  { apply N.ltb_lt. assert (N.to_nat i < length l)%nat by (apply nth_error_Some; congruence). unfold lenN. lia. }
  rewrite H. reflexivity.
Qed.

Lemma lenN_pes sid pts data rest : lenN (pes_pkt sid pts data ++ rest) = 6 + pes_len pts data + lenN rest.
Proof. unfold pes_pkt, pes_len. rewrite lenN_app. rewrite !lenN_cons, lenN_app. lia. Qed.

Lemma hd_len pts : lenN (pes_hd pts) = match pts with Some _ => 5 | None => 0 end.
Proof. destruct pts; reflexivity. Qed.

(* ---------------------------------------------------------------- one video PES packet *)
Definition vset (st : ps_state) (vbuf : bytes) (pts dts rtp : Z) (wait : bool) : ps_state :=
  mk_ps (ps_list st) (ps_size st) (ps_done st) (ps_buf st) (ps_abuf st) vbuf
        (ps_ast st) (ps_vst st) (ps_apt st) (ps_vpt st)
        (ps_pre_apts st) pts (ps_pre_adts st) dts (ps_pre_artpts st) rtp wait.

(* what parseAvStream does with a well-formed video PES packet at the head of the buffer *)
Definition video_pes_result (st : ps_state) (rtpts : N) (pts : option N) (data : bytes) : res (Z * ps_state * list ps_ev) :=
  let rtp := Z.of_N rtpts in
  let consumed := Z.of_N (2 + pes_len pts data) in
  match pts with
  | Some v =>
      let p := Z.of_N v in
      if (negb (p =? ps_pre_vpts st) && (0 <=? ps_pre_vpts st))%Z then
        let* we := iterate_nalu_by_start_code true (ps_vbuf st) (ps_vpt st) (ps_pre_vpts st) (ps_pre_vpts st) (ps_wait_sps st) in
        Ok (consumed, vset st ([] ++ data) p p rtp (fst we), snd we)
      else Ok (consumed, vset st (ps_vbuf st ++ data) p p rtp (ps_wait_sps st), [])
  | None =>
      (* only used while a frame with a PTS is running *)
      Ok (consumed, vset st (ps_vbuf st ++ data) (ps_pre_vpts st) (-1) rtp (ps_wait_sps st), [])
  end.

Lemma skipn_pes_data sid pts data rest :
  skipn (N.to_nat (9 + lenN (pes_hd pts))) (pes_pkt sid pts data ++ rest) = data ++ rest.
Proof.
  unfold pes_pkt. destruct pts as [v|]; cbn [pes_hd pts_field lenN length N.of_nat].
  - change (N.to_nat (9 + 5)) with 14%nat. cbn [app skipn]. reflexivity.
  - change (N.to_nat (9 + 0)) with 9%nat. cbn [app skipn]. reflexivity.
Qed.

Lemma parse_video_pes st rtpts pts data rest : pes_ok (pts, data) ->
  (pts = None -> ps_pre_vpts st <> (-1)%Z) ->
  parse_av_stream true st 480 rtpts (pes_pkt 224 pts data ++ rest) = video_pes_result st rtpts pts data.
Proof.
  intros [HL Hv] Hnone. cbn [fst snd] in HL, Hv.
  set (rb := pes_pkt 224 pts data ++ rest).
  assert (Hlen : lenN rb = 6 + pes_len pts data + lenN rest) by apply lenN_pes.
  assert (HLge : 3 + lenN (pes_hd pts) <= pes_len pts data) by (unfold pes_len; lia).
  unfold parse_av_stream. cbn [andb].
  assert (lenN rb <? 6 = false) as -> by (apply N.ltb_ge; lia).
  assert (Ebe : be_at s_ps_av_slice s_ps_be16_index 2 rb 4 = Ok (pes_len pts data)).
  { unfold be_at. assert (lenN rb <? 4 = false) as -> by (apply N.ltb_ge; lia).
    assert (lenN rb <? 4 + 2 = false) as -> by (apply N.ltb_ge; lia).
    subst rb. unfold pes_pkt. change (N.to_nat 4) with 4%nat. change (N.to_nat 2) with 2%nat. cbn [app skipn firstn].
    f_equal. change ([(pes_len pts data / 256) mod 256; pes_len pts data mod 256]) with (be_put 2 (pes_len pts data)) || idtac.
    unfold be_get. cbn [be_get_acc]. lia. }
  rewrite Ebe. cbn [bind].
  assert (lenN rb - 6 <? pes_len pts data = false) as -> by (apply N.ltb_ge; lia).
  assert (pes_len pts data <? 3 = false) as -> by (apply N.ltb_ge; lia).
  rewrite (idx_nth s_ps_av_index rb 7 (pes_flags pts)) by reflexivity. cbn [bind].
  rewrite (idx_nth s_ps_av_index rb 8 (lenN (pes_hd pts))) by reflexivity. cbn [bind].
  assert (Eis : is_audio_code 480 = false) by reflexivity. rewrite Eis.
  assert (Eslice : (if lenN rb <? 6 + pes_len pts data then Panic s_ps_av_slice
                    else slice s_ps_av_slice rb (9 + lenN (pes_hd pts)) (6 + pes_len pts data)) = Ok data).
  { assert (lenN rb <? 6 + pes_len pts data = false) as -> by (apply N.ltb_ge; lia).
    rewrite slice_ok by lia. subst rb. rewrite skipn_pes_data.
    replace (N.to_nat (6 + pes_len pts data - (9 + lenN (pes_hd pts)))) with (length data) by (unfold pes_len, lenN; lia).
    rewrite firstn_app, firstn_all, Nat.sub_diag. cbn [firstn]. rewrite app_nil_r. reflexivity. }
  destruct pts as [v|].
  - (* PTS present *)
    cbn [pes_flags pes_hd] in *. change (lenN (pts_field v)) with 5 in *.
    change (128 / 64) with 2. change (2 <=? 2) with true. change (2 mod 2 =? 1) with false. cbv iota.
    change (5 + 0) with 5.
    assert ((pes_len (Some v) data <? 3 + 5) || (5 <? 5) = false) as ->.
    { apply orb_false_iff. split; [apply N.ltb_ge; cbn [pes_hd] in HLge; change (lenN (pts_field v)) with 5 in HLge; lia|reflexivity]. }
    assert (Epts : read_pts rb 9 = Ok (Z.of_N v)).
    { unfold read_pts. assert (lenN rb <? 9 = false) as -> by (apply N.ltb_ge; cbn [pes_hd] in HLge; change (lenN (pts_field v)) with 5 in HLge; lia).
      rewrite (idx_nth s_ps_readpts_index rb 9 (32 + ((v / 1073741824) mod 8) * 2 + 1)) by reflexivity. cbn [bind].
      rewrite (idx_nth s_ps_readpts_index rb (9 + 1) ((v / 4194304) mod 256)) by reflexivity. cbn [bind].
      rewrite (idx_nth s_ps_readpts_index rb (9 + 2) (((v / 32768) mod 128) * 2 + 1)) by reflexivity. cbn [bind].
      rewrite (idx_nth s_ps_readpts_index rb (9 + 3) ((v / 128) mod 256)) by reflexivity. cbn [bind].
      rewrite (idx_nth s_ps_readpts_index rb (9 + 4) ((v mod 128) * 2 + 1)) by reflexivity. cbn [bind].
      rewrite (pts_value v Hv). reflexivity. }
    rewrite Epts. cbn [bind].
    assert ((Z.of_N v =? -1)%Z = false) as -> by (apply Z.eqb_neq; lia).
    unfold video_pes_result.
    destruct (negb (Z.of_N v =? ps_pre_vpts st)%Z && (0 <=? ps_pre_vpts st)%Z).
    + destruct (iterate_nalu_by_start_code true (ps_vbuf st) (ps_vpt st) (ps_pre_vpts st) (ps_pre_vpts st) (ps_wait_sps st)) as [[w e]| |]; cbn [bind]; try reflexivity.
      rewrite Eslice. cbn [bind fst snd]. reflexivity.
    + cbn [bind]. rewrite Eslice. cbn [bind]. reflexivity.
  - (* no PTS: continues the running frame *)
    cbn [pes_flags pes_hd] in *. change (lenN (@nil N)) with 0 in *.
    change (0 / 64) with 0. change (2 <=? 0) with false. change (0 mod 2 =? 1) with false. cbv iota.
    change (0 + 0) with 0.
    assert ((pes_len None data <? 3 + 0) || (0 <? 0) = false) as ->.
    { apply orb_false_iff. split; [apply N.ltb_ge; lia|reflexivity]. }
    cbn [bind]. change ((-1 =? -1)%Z) with true. cbv iota.
    assert ((ps_pre_vpts st =? -1)%Z = false) as -> by (apply Z.eqb_neq; apply Hnone; reflexivity).
    cbn [bind]. change (9 + 0) with 9 in Eslice |- *. rewrite Eslice. cbn [bind]. reflexivity.
Qed.

(* ---------------------------------------------------------------- a run of video PES packets in the buffer *)
(* frames as the unpacker groups PES packets: [cur] = (PTS of the running frame or -1, its data so far) *)
Fixpoint regroup (cur : Z * bytes) (l : list (option N * bytes)) : list (Z * bytes) * (Z * bytes) :=
  match l with
  | [] => ([], cur)
  | (Some v, d) :: t =>
      if (negb (Z.of_N v =? fst cur) && (0 <=? fst cur))%Z
      then let (fr, c) := regroup (Z.of_N v, d) t in (cur :: fr, c)
      else regroup (Z.of_N v, snd cur ++ d) t
  | (None, d) :: t => regroup (fst cur, snd cur ++ d) t
  end.

(* the frames handed to iterateNaluByStartCode one after the other *)
Fixpoint flush_all (vpt : Z) (wait : bool) (frames : list (Z * bytes)) : res (bool * list ps_ev) :=
  match frames with
  | [] => Ok (wait, [])
  | (p, b) :: t =>
      let* we := iterate_nalu_by_start_code true b vpt p p wait in
      let* we2 := flush_all vpt (fst we) t in
      Ok (fst we2, snd we ++ snd we2)
  end.

(* PES packets without PTS only while a frame with PTS is running *)
Fixpoint none_ok (cur_pts : Z) (l : list (option N * bytes)) : Prop :=
  match l with
  | [] => True
  | (Some v, _) :: t => none_ok (Z.of_N v) t
  | (None, _) :: t => cur_pts <> (-1)%Z /\ none_ok cur_pts t
  end.

Definition pes_bytes (l : list (option N * bytes)) : bytes := concat (map (fun x => pes_pkt 224 (fst x) (snd x)) l).

Lemma buf_skip_pes sid pts data rest :
  buf_skip (pes_pkt sid pts data ++ rest) (4 + Z.of_N (2 + pes_len pts data)) = rest.
Proof.
  unfold buf_skip. rewrite lenN_pes.
  assert ((Z.of_N (6 + pes_len pts data + lenN rest) <? 4 + Z.of_N (2 + pes_len pts data))%Z = false) as -> by (apply Z.ltb_ge; lia).
  replace (Z.to_nat (4 + Z.of_N (2 + pes_len pts data))) with (length (pes_pkt sid pts data)).
  - rewrite skipn_app, skipn_all, Nat.sub_diag. reflexivity.
  - pose proof (lenN_pes sid pts data []) as H. rewrite app_nil_r in H. unfold lenN in H. cbn [length] in H. lia.
Qed.

Lemma code_of_pes pts data rest :
  be_at s_ps_feed_slice s_ps_be32_index 4 (pes_pkt 224 pts data ++ rest) 0 = Ok 480.
Proof.
  unfold be_at. rewrite lenN_pes.
  assert (6 + pes_len pts data + lenN rest <? 0 = false) as -> by (apply N.ltb_ge; lia).
  assert (6 + pes_len pts data + lenN rest <? 0 + 4 = false) as -> by (apply N.ltb_ge; lia).
  reflexivity.
Qed.

Theorem video_pes_run vpt : forall l st rtpts acc fuel cur,
  Forall pes_ok l -> none_ok (fst cur) l ->
  ps_vpt st = vpt -> ps_pre_vpts st = fst cur -> ps_vbuf st = snd cur ->
  ps_buf st = pes_bytes l -> (length l < fuel)%nat ->
  forall w evs, flush_all vpt (ps_wait_sps st) (fst (regroup cur l)) = Ok (w, evs) ->
  exists st', feed_body_loop true fuel st rtpts acc = Ok (false, st', acc ++ evs) /\
              ps_buf st' = [] /\ ps_vpt st' = vpt /\ ps_pre_vpts st' = fst (snd (regroup cur l)) /\
              ps_vbuf st' = snd (snd (regroup cur l)) /\ ps_wait_sps st' = w.
Proof.
  induction l as [|[pts data] t IH]; intros st rtpts acc fuel cur Hok Hn Hvpt Hp Hb Hbuf Hf w evs Hfl.
  - destruct fuel; [cbn in Hf; lia|]. cbn [feed_body_loop]. unfold pes_bytes in Hbuf. cbn [map concat] in Hbuf. rewrite Hbuf.
    cbn [regroup fst snd flush_all] in *. injection Hfl as <- <-. exists st. rewrite app_nil_r. repeat split; auto.
  - destruct fuel as [|f]; [cbn in Hf; lia|]. cbn [feed_body_loop].
    unfold pes_bytes in Hbuf. cbn [map concat fst snd] in Hbuf. fold (pes_bytes t) in Hbuf. rewrite Hbuf.
    assert (Hnz : exists b0 bt, pes_pkt 224 pts data ++ pes_bytes t = b0 :: bt) by (unfold pes_pkt; cbn [app]; eauto).
    destruct Hnz as (b0 & bt & Enz). rewrite Enz. rewrite <- Enz. clear b0 bt Enz.
    cbn [andb]. assert (lenN (pes_pkt 224 pts data ++ pes_bytes t) <? 4 = false) as -> by (apply N.ltb_ge; rewrite lenN_pes; lia).
    rewrite code_of_pes. cbn [bind].
    change (480 =? 442) with false. change ((480 =? 443) || (480 =? 445) || (480 =? 447) || (480 =? 496) || (480 =? 497) || (480 =? 446) || (480 =? 511)) with false.
    change (480 =? 444) with false. change ((480 =? 448) || (480 =? 480)) with true. cbv iota.
    apply Forall_cons_iff in Hok as [Hpk Hokt].
    rewrite (parse_video_pes st rtpts pts data (pes_bytes t) Hpk).
    2:{ intros ->. cbn [none_ok] in Hn. rewrite Hp. apply Hn. }
    unfold video_pes_result. cbn [regroup] in Hfl |- *. revert Hfl.
    destruct pts as [v|].
    + rewrite Hp, Hb. destruct ((negb (Z.of_N v =? fst cur) && (0 <=? fst cur))%Z) eqn:Ec.
      * (* another PTS: the running frame is handed out *)
        destruct (regroup (Z.of_N v, data) t) as [fr c] eqn:Er. intros Hfl. cbn [fst snd flush_all] in Hfl |- *.
        destruct cur as [cp cb]. cbn [fst snd] in *. rewrite Hvpt.
        destruct (iterate_nalu_by_start_code true cb vpt cp cp (ps_wait_sps st)) as [[w1 e1]| |] eqn:Ei; rewrite ?Ei in Hfl; cbn [bind fst snd] in Hfl |- *; try discriminate.
        destruct (flush_all vpt w1 fr) as [[w2 e2]| |] eqn:Ef2; rewrite ?Ef2 in Hfl; cbn [bind fst snd] in Hfl; try discriminate.
        injection Hfl as <- <-.
        assert ((Z.of_N (2 + pes_len (Some v) data) =? -2)%Z = false) as -> by (apply Z.eqb_neq; lia).
        assert ((Z.of_N (2 + pes_len (Some v) data) <? 0)%Z = false) as -> by (apply Z.ltb_ge; lia).
        cbn [ps_buf vset]. rewrite Hbuf, buf_skip_pes.
        set (st1 := set_buf _ _).
        destruct (IH st1 rtpts (acc ++ e1) f (Z.of_N v, data) Hokt) with (w := w2) (evs := e2) as (st' & E & R); try (subst st1; reflexivity).
        -- cbn [fst]. cbn [none_ok] in Hn. exact Hn.
        -- subst st1. cbn. exact Hvpt.
        -- cbn [length] in Hf. lia.
        -- subst st1. cbn [set_buf ps_wait_sps vset fst]. rewrite Er. cbn [fst]. exact Ef2.
        -- exists st'. rewrite E, <- app_assoc. rewrite Er in R. cbn [fst snd] in R. split; [reflexivity|exact R].
      * (* same PTS (or the very first packet): appended *)
        intros Hfl. cbn [bind].
        assert ((Z.of_N (2 + pes_len (Some v) data) =? -2)%Z = false) as -> by (apply Z.eqb_neq; lia).
        assert ((Z.of_N (2 + pes_len (Some v) data) <? 0)%Z = false) as -> by (apply Z.ltb_ge; lia).
        cbn [ps_buf vset]. rewrite Hbuf, buf_skip_pes. rewrite app_nil_r.
        set (st1 := set_buf _ _).
        destruct (IH st1 rtpts acc f (Z.of_N v, snd cur ++ data) Hokt) with (w := w) (evs := evs) as (st' & E & R); try (subst st1; reflexivity).
        -- cbn [fst]. cbn [none_ok] in Hn. exact Hn.
        -- subst st1. cbn. exact Hvpt.
        -- cbn [length] in Hf. lia.
        -- subst st1. cbn [set_buf ps_wait_sps vset]. exact Hfl.
        -- exists st'. split; [exact E|exact R].
    + (* no PTS *)
      intros Hfl. cbn [bind].
      assert ((Z.of_N (2 + pes_len None data) =? -2)%Z = false) as -> by (apply Z.eqb_neq; lia).
      assert ((Z.of_N (2 + pes_len None data) <? 0)%Z = false) as -> by (apply Z.ltb_ge; lia).
      cbn [ps_buf vset]. rewrite Hbuf, buf_skip_pes. rewrite Hp, Hb. rewrite app_nil_r.
      set (st1 := set_buf _ _).
      destruct (IH st1 rtpts acc f (fst cur, snd cur ++ data) Hokt) with (w := w) (evs := evs) as (st' & E & R); try (subst st1; reflexivity).
      * cbn [fst]. cbn [none_ok] in Hn. apply Hn.
      * subst st1. cbn. exact Hvpt.
      * cbn [length] in Hf. lia.
      * subst st1. cbn [set_buf ps_wait_sps vset]. exact Hfl.
      * exists st'. split; [exact E|exact R].
Qed.
