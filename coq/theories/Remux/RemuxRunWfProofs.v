(* C06: well-formedness of every emitted frame over whole runs, any observer. *)
From Coq Require Import Lia.
From Lal Require Import Common.LBytes Common.LBytesProofs Common.Res Group.GroupMsg Mpegts.TsPack Mpegts.TsStreamProofs
  Remux.RemuxTsTimestamp Remux.RemuxRtmp2Ts Remux.RemuxTsFilter Remux.RemuxStepProofs Remux.RemuxWfProofs Remux.RemuxRunProofs.
Open Scope N_scope.

Definition wf_inv (x : remuxer) (outs : list tsout) : Prop :=
  st_wf (x_core x) /\ Forall ev_wf (ts_events outs) /\ Forall msg_ok (fq_data (x_filter x)).

Section AnyObserver.
  Variable O : Type.
  Variable obs_decide : O -> tsev -> bool.
  Variable obs_apply : O -> tsev -> list tsev -> O.
  Variable obs_patpmt : O -> bytes -> O.

  Lemma step_wf x o outs a x' o' outs' :
    wf_inv x outs -> (match a with AMsg m => msg_ok m | _ => True end) ->
    (match a with
     | AMsg m => feed_rtmp_message O obs_decide obs_apply obs_patpmt x o m
     | AFlush => remuxer_flush O obs_decide obs_apply x o
     | ADispose => remuxer_dispose O obs_decide obs_apply x o
     end) = (x', o', outs') ->
    wf_inv x' (outs ++ outs').
  Proof.
    intros (Hw & He & Hq) Ha E.
    assert (Hflush : remuxer_flush O obs_decide obs_apply x o = (x', o', outs') -> wf_inv x' (outs ++ outs')).
    { clear E. unfold remuxer_flush. intros E.
      pose proof (flush_audio_is_flushed O obs_decide obs_apply (x_core x) o) as Hp.
      destruct (flush_audio O obs_decide obs_apply (x_core x) o) as [[s1 o1] evs].
      injection E as <- <- <-. unfold wf_inv. cbn [x_core x_filter]. rewrite ts_events_app, ts_events_map.
      destruct (flushed_wf _ _ _ _ Hw Hp) as [Hw1 He1]. split; [exact Hw1|]. split; [|exact Hq].
      apply Forall_app. now split. }
    destruct a as [m| |]; [|exact (Hflush E)|exact (Hflush E)].
    unfold feed_rtmp_message in E. destruct (fq_done (x_filter x)).
    - destruct (late_track_spec (x_filter x) m) as (_ & Ldata & _).
      destruct (late_track (x_filter x) m) as [f' pp]. cbn [fst] in Ldata.
      set (o0 := match pp with Some b => obs_patpmt o b | None => o end) in *.
      destruct (on_pop_is_pure O obs_decide obs_apply (x_core x) o0 m) as [d Hd].
      destruct (on_pop O obs_decide obs_apply (x_core x) o0 m) as [[s1 o1] evs].
      injection E as <- <- <-. unfold wf_inv. cbn [x_core x_filter]. rewrite Ldata.
      assert (Hev : ts_events (outs ++ match pp with Some b => [OutPatPmt b] | None => [] end ++ map OutTs evs) = ts_events outs ++ evs).
      { rewrite !ts_events_app, ts_events_map. destruct pp; cbn; reflexivity. }
      rewrite Hev.
      destruct (on_pop_wf _ _ _ _ _ Hw Ha Hd) as [Hw1 He1]. split; [exact Hw1|]. split; [|exact Hq].
      apply Forall_app. now split.
    - set (a1 := if rm_type m =? type_audio then Z.of_N (pb m 0 / 16) else fq_acodec (x_filter x)) in *.
      set (v1 := if rm_type m =? type_video then Z.of_N (video_codec_id m) else fq_vcodec (x_filter x)) in *.
      set (f1 := mk_tsfilt (fq_data (x_filter x) ++ [m]) a1 v1 false (fq_version (x_filter x))) in *.
      assert (Hq1 : Forall msg_ok (fq_data (x_filter x) ++ [m])).
      { apply Forall_app. split; [exact Hq|]. constructor; [exact Ha|constructor]. }
      assert (Hdrain : drain O obs_decide obs_apply obs_patpmt x o f1 = (x', o', outs') -> wf_inv x' (outs ++ outs')).
      { unfold drain. cbn [fq_vcodec fq_acodec fq_data f1].
        set (pp := TsPsi.pack_pat ++ TsPsi.pack_pmt v1 a1).
        destruct (pop_all_is_pure O obs_decide obs_apply (fq_data (x_filter x) ++ [m]) (x_core x) (obs_patpmt o pp)) as [ds Hds].
        destruct (pop_all O obs_decide obs_apply (x_core x) (obs_patpmt o pp) (fq_data (x_filter x) ++ [m])) as [[s1 o1] evs].
        intros E'. injection E' as <- <- <-. unfold wf_inv. cbn [x_core x_filter fq_data].
        rewrite ts_events_app. cbn [ts_events flat_map app]. fold (ts_events (map OutTs evs)). rewrite ts_events_map.
        destruct (pop_all_wf _ _ _ _ _ Hw Hq1 Hds) as [Hw1 He1]. split; [exact Hw1|]. split; [|constructor].
        apply Forall_app. now split. }
      destruct (negb (v1 =? -1)%Z && negb (a1 =? -1)%Z); [exact (Hdrain E)|].
      destruct (Nat.leb filter_max_msgs (length (fq_data f1))); [exact (Hdrain E)|].
      injection E as <- <- <-. unfold wf_inv. cbn [x_core x_filter fq_data f1]. rewrite app_nil_r. split; [exact Hw|split; [exact He|exact Hq1]].
  Qed.

  Lemma run_wf_all : forall acts x o outs0 x' o' outs,
    wf_inv x outs0 -> Forall msg_ok (msgs_of acts) ->
    run_actions O obs_decide obs_apply obs_patpmt x o acts = (x', o', outs) ->
    wf_inv x' (outs0 ++ outs).
  Proof.
    induction acts as [|a t IH]; intros x o outs0 x' o' outs Hi Hm; cbn [run_actions].
    - intros H. injection H as <- <- <-. now rewrite app_nil_r.
    - destruct (match a with
                | AMsg m => feed_rtmp_message O obs_decide obs_apply obs_patpmt x o m
                | AFlush => remuxer_flush O obs_decide obs_apply x o
                | ADispose => remuxer_dispose O obs_decide obs_apply x o
                end) as [[x1 o1] e1] eqn:E1.
      destruct (run_actions O obs_decide obs_apply obs_patpmt x1 o1 t) as [[x2 o2] e2] eqn:E2.
      intros H. injection H as <- <- <-. rewrite app_assoc.
      assert (Ha : match a with AMsg m => msg_ok m | _ => True end).
      { destruct a; try exact I. cbn in Hm. now inversion Hm. }
      assert (Ht : Forall msg_ok (msgs_of t)).
      { destruct a; cbn in Hm; [now inversion Hm|exact Hm|exact Hm]. }
      eapply IH; [|exact Ht|exact E2]. eapply step_wf; eassumption.
  Qed.

  (* every frame of a run over byte-string payloads is well-formed *)
  Theorem run_frames_wf acts o x' o' outs :
    Forall msg_ok (msgs_of acts) ->
    run_actions O obs_decide obs_apply obs_patpmt remuxer_init o acts = (x', o', outs) ->
    Forall ev_wf (ts_events outs).
  Proof.
    intros Hm H.
    assert (Hi : wf_inv remuxer_init []) by (split; [exact st_wf_init|split; constructor]).
    exact (proj1 (proj2 (run_wf_all acts remuxer_init o [] x' o' outs Hi Hm H))).
  Qed.
End AnyObserver.
